#!/bin/bash
# Builds the whole Coq development from clean with coqc (full .vo, never -vos/-vok): Base first,
# then every property directory (in parallel, each in coqdep order), and scans for forbidden
# vernacular.  Fails only if Base does not build or forbidden vernacular is present; a property
# directory that does not build is reported here and makes that property's own check fail.
cd "$(dirname "$0")" || exit 2
export PYTHONPATH=/repo:/verif PYTHONDONTWRITEBYTECODE=1
mkdir -p .work .cache evidence replays
/venv/bin/python - <<'PY' 2>&1 | grep -v 'WARNING: '
import os, sys, concurrent.futures
from harness import common as C
bad = C.forbidden_scan()
if bad:
    print('forbidden vernacular:', bad); sys.exit(1)
ok, log = C.coq_build(['Base'])
print('Base:', 'ok' if ok else 'FAILED')
if not ok:
    print(log[-3000:]); sys.exit(1)
# C07's Generated.v is produced from /repo's current source
try:
    from harness import skeleton as S
    fns, errs = S.translate_all()
    S.write_generated(fns)
except Exception as e:
    print('C07 translator:', repr(e))
dirs = sorted(d for d in os.listdir(C.COQ) if os.path.isdir(os.path.join(C.COQ, d)) and d != 'Base')
# properties that import other properties' files are built after those (C01 first)
first = [d for d in dirs if d in ('C01', 'C04', 'C11', 'C14')]
rest = [d for d in dirs if d not in first]
def build(d):
    import importlib
    try:
        mod = importlib.import_module('harness.%s' % d.lower())
        deps = list(getattr(mod, 'COQ_DIRS', [d]))
    except Exception:
        deps = [d]
    return d, C.coq_build(deps)
failed = []
for group in (first, rest):
    with concurrent.futures.ThreadPoolExecutor(max_workers=8) as ex:
        for d, (ok, log) in ex.map(build, group):
            print('%s: %s' % (d, 'ok' if ok else 'FAILED'))
            if not ok:
                failed.append(d); print(log[-1500:])
print('setup done; property directories that do not build:', failed)
sys.exit(0)
PY
exit ${PIPESTATUS[0]}
