#!/bin/bash
# Builds the whole Coq development from clean (full .vo build) and checks for forbidden vernacular.
cd "$(dirname "$0")" || exit 2
export PYTHONPATH=/repo:/verif PYTHONDONTWRITEBYTECODE=1
mkdir -p .work .cache evidence replays
if grep -rnE '\b(Admitted|admit|Axiom|Parameter|Conjecture|bypass_check)\b|Unset Guard|Admit Obligations' coq --include='*.v' | grep -v '^\s*(\*'; then
  echo "forbidden vernacular found"; exit 1
fi
/venv/bin/python - <<'PY' 2>&1 | grep -v 'WARNING: '
import sys
from harness import common as C
ok, log = C.coq_build()
print(log[-1500:])
sys.exit(0 if ok else 1)
PY
exit ${PIPESTATUS[0]}
