#!/usr/bin/env python3
"""Regenerates /verif/MANIFEST.json from the table below (one entry per property)."""
import json, os
V = os.path.dirname(os.path.dirname(os.path.abspath(__file__)))
ALL = ['C%02d' % i for i in range(1, 21)]

# id -> (technique, level text, level note, design section)
CHECKS = {
 'C01': ('Coq theorems (pointwise spec of list surgery, guards = span test) + in-Coq evaluation of model and spec on implementation outcomes',
         'Theorems c01_substitute/insert/delete/multisubstitute/randomize: for all tensors, motifs and integer positions the executable model satisfies the decidable pointwise spec; the model is tied to /repo by running the real ersatz functions on an exhaustive small scope + random cases and letting coqc evaluate model-equality and the spec on each implementation outcome.',
         'Trusted: Coq kernel/VM, harness canonicalisation of tensors, torch slicing; aliasing (inputs unmodified) is observed, not modelled.', '7 C01'),
}
NOT_YET = 'check not built yet in this session (design in DESIGN.md section 7); not claimed'

def main():
    checks = []
    for pid in ALL:
        if pid not in CHECKS:
            continue
        tech, text, note, ref = CHECKS[pid]
        checks.append({
            'property_id': pid,
            'quick_cmd': './check %s quick' % pid,
            'thorough_cmd': './check %s thorough' % pid,
            'evidence_file': '/verif/evidence/%s.json' % pid,
            'replay_cmd_template': './check %s --replay {path}' % pid,
            'engine': 'coq-correspondence',
            'level_claimed': {'category': 'proof', 'text': text, 'design_ref': 'DESIGN.md ' + ref},
            'level_note': note,
            'technique': tech,
        })
    extra = {}
    p = os.path.join(V, 'tools', 'not_applicable.json')
    if os.path.exists(p):
        extra = json.load(open(p))
    man = {
        'version': 1,
        'setup_cmd': './setup.sh',
        'hooks': {'guard': 'TANGERMEME_VERIF', 'enable': 'export TANGERMEME_VERIF=1 (set by ./check); no build step, /repo is imported from the working tree via PYTHONPATH',
                  'baseline_off_cmd': 'cd /repo && env -u TANGERMEME_VERIF /venv/bin/python -m pytest -ra -q -p no:cacheprovider --timeout=900 --continue-on-collection-errors',
                  'source_commits': json.load(open(os.path.join(V, 'tools', 'hook_commits.json'))) if os.path.exists(os.path.join(V, 'tools', 'hook_commits.json')) else [],
                  'add_only': True},
        'engines': [{'name': 'coq-correspondence', 'path': '/verif/coq + /verif/harness',
                     'serves_properties': [c['property_id'] for c in checks],
                     'kind_free_text': 'Coq 8.16.1 development (models, decidable specs, theorems) + Python harness that runs /repo and has coqc evaluate model and spec on every implementation outcome'}],
        'checks': checks,
        'not_applicable': [{'property_id': pid, 'reason': extra.get(pid, NOT_YET)} for pid in ALL if pid not in CHECKS],
        'notes': 'See DESIGN.md. KNOWN_FINDINGS.json lists repaired defects (fixed:) and open findings.',
    }
    json.dump(man, open(os.path.join(V, 'MANIFEST.json'), 'w'), indent=1)

if __name__ == '__main__':
    main()
