#!/usr/bin/env python3
"""Regenerates /verif/MANIFEST.json from the table below (one entry per property)."""
import json, os
V = os.path.dirname(os.path.dirname(os.path.abspath(__file__)))
ALL = ['C%02d' % i for i in range(1, 21)]

def load_entries():
    out = {}
    d = os.path.join(V, 'tools', 'entries')
    for f in sorted(os.listdir(d)):
        if f.endswith('.json'):
            out[f[:-5]] = json.load(open(os.path.join(d, f)))
    return out

ENTRIES = load_entries()
CHECKS = {pid: (e['check']['technique'], e['check']['text'], e['check']['note'], e['check'].get('design_ref', '7 ' + pid))
          for pid, e in ENTRIES.items() if e.get('check')}
NOT_YET = 'check not built yet in this session (design in DESIGN.md section 7); not claimed'

def main():
    checks = []
    for pid in ALL:
        if pid not in CHECKS:
            continue
        tech, text, note, ref = CHECKS[pid]
        checks.append({
            'property_id': pid,
            'quick_cmd': './check %s quick' % pid,
            'thorough_cmd': './check %s thorough' % pid,
            'evidence_file': '/verif/evidence/%s.json' % pid,
            'replay_cmd_template': './check %s --replay {path}' % pid,
            'engine': 'coq-correspondence',
            'level_claimed': {'category': 'proof', 'text': text, 'design_ref': 'DESIGN.md ' + ref},
            'level_note': note,
            'technique': tech,
        })
    extra = {pid: e['not_applicable'] for pid, e in ENTRIES.items() if e.get('not_applicable')}
    man = {
        'version': 1,
        'setup_cmd': './setup.sh',
        'hooks': {'guard': 'TANGERMEME_VERIF', 'enable': 'export TANGERMEME_VERIF=1 (set by ./check); no build step, /repo is imported from the working tree via PYTHONPATH',
                  'baseline_off_cmd': 'cd /repo && env -u TANGERMEME_VERIF /venv/bin/python -m pytest -ra -q -p no:cacheprovider --timeout=900 --continue-on-collection-errors',
                  'source_commits': sorted({c for e in ENTRIES.values() for c in e.get('hook_commits', [])}),
                  'add_only': True},
        'engines': [{'name': 'coq-correspondence', 'path': '/verif/coq + /verif/harness',
                     'serves_properties': [c['property_id'] for c in checks],
                     'kind_free_text': 'Coq 8.16.1 development (models, decidable specs, theorems) + Python harness that runs /repo and has coqc evaluate model and spec on every implementation outcome'}],
        'checks': checks,
        'not_applicable': [{'property_id': pid, 'reason': extra.get(pid, NOT_YET)} for pid in ALL if pid not in CHECKS],
        'notes': 'See DESIGN.md. KNOWN_FINDINGS.json lists repaired defects (fixed:) and open findings.',
    }
    json.dump(man, open(os.path.join(V, 'MANIFEST.json'), 'w'), indent=1)
    findings = [f for pid in sorted(ENTRIES) for f in ENTRIES[pid].get('findings', [])]
    json.dump({'_doc': "Committed list of genuine defects of jmschrei/tangermeme found by the checks (assembled from tools/entries/*.json by tools/gen_manifest.py, never at check time). status=fixed entries record a 'fix:' commit in /repo and suppress nothing; status=open entries are matched structurally (tag) on a failing case and are then reported as KNOWN-FINDING instead of VIOLATION.",
               'findings': findings}, open(os.path.join(V, 'KNOWN_FINDINGS.json'), 'w'), indent=1)

if __name__ == '__main__':
    main()
