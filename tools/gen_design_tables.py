#!/usr/bin/env python3
"""Rewrites the generated block of DESIGN.md (between the AUTOGEN markers): per-property status,
findings (from tools/entries), seeded changes (from seeded/*/meta.json)."""
import json, os, re, glob
V = os.path.dirname(os.path.dirname(os.path.abspath(__file__)))
ents = {f[:-5]: json.load(open(os.path.join(V, 'tools/entries', f))) for f in sorted(os.listdir(os.path.join(V, 'tools/entries'))) if f.endswith('.json')}
out = []
out.append('### 11.1 Per-property status (generated from tools/entries and coq/)\n')
out.append('| Prop | Coq statements (Theorem/Lemma/Example) in its directories | Property theorems (Property.v) | As-built notes |')
out.append('|---|---|---|---|')
pat = re.compile(r'^\s*(?:Theorem|Lemma|Corollary|Example|Fact|Proposition)\s+([A-Za-z0-9_\']+)', re.M)
for pid in sorted(ents):
    n = 0
    for f in glob.glob(os.path.join(V, 'coq', pid, '*.v')):
        n += len(pat.findall(open(f).read()))
    pv = os.path.join(V, 'coq', pid, 'Property.v')
    th = re.findall(r'^\s*Theorem\s+([A-Za-z0-9_\']+)', open(pv).read(), re.M) if os.path.exists(pv) else []
    out.append('| %s | %d | %s | design/%s.md |' % (pid, n, ', '.join('`%s`' % t for t in th[:12]) + (' ...' if len(th) > 12 else ''), pid))
out.append('\n### 11.2 Findings on jmschrei/tangermeme (generated from tools/entries; same content as KNOWN_FINDINGS.json)\n')
for pid in sorted(ents):
    for f in ents[pid].get('findings', []):
        out.append('* **%s** [%s] %s' % (f['id'], f['status'], f['what']))
out.append('\n### 11.3 Seeded changes (written by independent sub-agents from the property text only) and which check catches them\n')
out.append('Totals at the final HEAD: see the "final" column - every stored seed is caught with a concrete failing input except C07-J (a stale `_NON_LINEAR_OPS` table left on the modules by a FAILED deep_lift_shap call changes a LATER call that passes different `additional_nonlinear_ops` on a model containing a module type outside the built-in table; the C07 histories do not use custom rule tables) and C14-J (squared distances below 1e-6 clipped to 0 in `_integer_distances_and_histogram`: needs two non-identical columns closer than 1e-3 whose similarity sits on a rounding boundary; the exact-cell recomputation of C14 only covers the coarse grid). Both arrived in the last round and are recorded here as known gaps of the quick tier, not repaired for lack of time. One further candidate of that round (C07-I) was rejected because it makes existing tests fail.\n')
out.append('Rounds: A,B first round; C,D second; E,F third (after the coverage audits); G,H fourth. "first" = outcome of the quick check when the seed was first tried (misses were fed back into the generators/specs, see design/Cxx.md "Seeded changes"); "final" = outcome against the final checks.\n')
out.append('| Seed | Property | first outcome (quick tier) | final outcome (quick tier) | What it needs to manifest (from the author\'s notes) |')
out.append('|---|---|---|---|---|')
for d in sorted(glob.glob(os.path.join(V, 'seeded', '*'))):
    mp = os.path.join(d, 'meta.json')
    if not os.path.exists(mp):
        continue
    m = json.load(open(mp))
    needs = re.sub(r'\s+', ' ', m.get('needs_to_manifest', ''))[:260].replace('|', '/')
    def short(cs):
        cs = [c for c in (cs or []) if not c.startswith('KNOWN-FINDING')] or ['(no output)']
        r = re.sub(r'replay=\S+', '', '; '.join(cs))
        r = re.sub(r'property=C\d+ ?', '', r)
        r = re.sub(r'tier=quick cases=\d+ nontrivial=\d+ obligations=\d+ wall=[\d.]+s', '', r)
        return r.strip()[:60]
    n_all = n_all + 1 if 'n_all' in dir() else 1
    out.append('| %s | %s | %s | %s | %s |' % (os.path.basename(d), m['property'], short(m.get('check_result')),
                                               short(m.get('final_check_result')), needs[:200]))
out.append('\n### 11.4 Behaviour-preserving refactorings (written by independent sub-agents, each with an old-vs-new equivalence harness) and what the checks say\n')
rp = os.path.join(V, 'seeded', 'refactor', 'results.json')
if os.path.exists(rp):
    rs = json.load(open(rp))
    ok = sum(1 for r in rs if any(c.startswith('OK') for c in r['check_result']))
    out.append('%d refactorings over %d properties; %d leave the quick check at OK (a KNOWN-FINDING line may precede it).\n' % (len(rs), len({r['property'] for r in rs}), ok))
    out.append('| Refactoring | Check outcome | What was refactored |')
    out.append('|---|---|---|')
    for r in rs:
        res = '; '.join(c[:60] for c in r['check_result']) or '(no output)'
        if r.get('history'):
            res += ' — ' + r['history']
        out.append('| %s | %s | %s |' % (r['name'], res.replace('|', '/'), r['summary'][:160].replace('|', '/')))
block = '\n'.join(out) + '\n'
p = os.path.join(V, 'DESIGN.md')
s = open(p).read()
a, b = '<!-- AUTOGEN-BEGIN -->', '<!-- AUTOGEN-END -->'
if a not in s:
    s += '\n\n---------------------------------------------------------------------------------\n\n## 11. As built: status, findings, seeded changes\n\n' + a + '\n' + b + '\n'
i, j = s.index(a) + len(a), s.index(b)
s = s[:i] + '\n' + block + s[j:]
open(p, 'w').write(s)
