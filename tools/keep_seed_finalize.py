#!/usr/bin/env python3
"""usage: keep_seed_finalize.py <pid> <src dir> <name>  (reads /tmp/keep_<name>.json written by try_seed.py --tests)"""

import json, sys, os, shutil
pid, src, name = sys.argv[1:4]
txt = open('/tmp/keep_%s.json' % name).read()
r = json.loads(txt[txt.index('{'):])
# test_tomtom_homomotifs passes a mis-shaped (5,4) target, tomtom reads out of bounds and the
# asserted values depend on memory contents: it fails intermittently on the pinned tree as well
# (7 of 8 isolated runs at 93dd78b), so it cannot count against a seeded change
FLAKY = {'tests.tools.test_tomtom::test_tomtom_homomotifs'}
ok = r.get('demo_unchanged_rc') == 0 and r.get('demo_patched_rc') not in (0, None) and r.get('patch_applies') \
     and r.get('tests_missing_from_baseline') is not None and [t for t in r['tests_missing_from_baseline'] if t not in FLAKY] == []
print(name, 'confirmed' if ok else 'NOT confirmed', 'check:', r.get('check_out'))
if ok:
    d = '/verif/seeded/%s' % name
    os.makedirs(d, exist_ok=True)
    for f in ('patch.diff', 'demo.py', 'notes.md'):
        if os.path.exists(os.path.join(src, f)):
            shutil.copy(os.path.join(src, f), d)
    notes = open(os.path.join(src, 'notes.md')).read() if os.path.exists(os.path.join(src, 'notes.md')) else ''
    json.dump({'property': pid, 'needs_to_manifest': notes[:1500],
               'confirmed': {'demo_unchanged_rc': r['demo_unchanged_rc'], 'demo_patched_rc': r['demo_patched_rc'],
                             'pinned_tests_all_pass_with_patch': True,
                             'pinned_tests_failing_but_known_flaky': r.get('tests_missing_from_baseline'),
                             'how': 'tools/try_seed.py on a scratch git worktree of /repo HEAD: demo.py before/after git apply, full pinned pytest command compared against BASELINE.json stable_pass, then VERIF_REPO=<worktree> ./check %s quick' % pid},
               'check_result': r.get('check_out'), 'check_rc': r.get('check_rc'), 'replay_excerpt': r.get('replay'),
               'repo_head': os.popen('git -C /repo rev-parse --short HEAD').read().strip()},
              open(os.path.join(d, 'meta.json'), 'w'), indent=1)
