#!/usr/bin/env python3
"""tools/try_seed.py <property> <dir with patch.diff and demo.py> [--tests] [--tier quick]

Confirms a seeded change on a scratch copy of /repo's HEAD (never on /repo itself):
 1. demo.py passes on the unchanged copy, fails with the patch applied
 2. (--tests) the pinned test-suite still passes with the patch (all BASELINE stable tests)
 3. ./check <property> <tier> against the patched copy (VERIF_REPO) -> reports what it printed
The scratch copy is removed afterwards.  Prints a JSON summary."""
import json
import os
import shutil
import subprocess
import sys
import tempfile
import xml.etree.ElementTree as ET


def sh(cmd, cwd=None, env=None, timeout=3600):
    p = subprocess.run(cmd, shell=True, cwd=cwd, env=env, stdout=subprocess.PIPE, stderr=subprocess.STDOUT,
                       text=True, timeout=timeout)
    return p.returncode, p.stdout


def main():
    pid, d = sys.argv[1], os.path.abspath(sys.argv[2])
    do_tests = '--tests' in sys.argv
    tier = sys.argv[sys.argv.index('--tier') + 1] if '--tier' in sys.argv else 'quick'
    work = tempfile.mkdtemp(prefix='try_%s_' % pid, dir='/tmp')
    repo = os.path.join(work, 'repo')
    out = {'property': pid, 'dir': d}
    try:
        rc, o = sh('git -C /repo worktree add -q --detach %s HEAD' % repo)
        assert rc == 0, o
        env = dict(os.environ, PYTHONPATH=repo, PYTHONDONTWRITEBYTECODE='1', PYTHONHASHSEED='0', OMP_NUM_THREADS='2', MKL_NUM_THREADS='2', NUMBA_NUM_THREADS='4')
        denv = {k: v for k, v in env.items() if k != 'NUMBA_NUM_THREADS'}   # demos may set their own thread counts
        has_demo = os.path.exists(os.path.join(d, 'demo.py'))
        if has_demo:
            rc0, o0 = sh('/venv/bin/python %s' % os.path.join(d, 'demo.py'), cwd=repo, env=denv, timeout=1800)
            out['demo_unchanged_rc'] = rc0
        rc, o = sh('git apply %s' % os.path.join(d, 'patch.diff'), cwd=repo)
        out['patch_applies'] = rc == 0
        if rc != 0:
            out['apply_log'] = o[-500:]
            return out
        if has_demo:
            rc1, o1 = sh('/venv/bin/python %s' % os.path.join(d, 'demo.py'), cwd=repo, env=denv, timeout=1800)
            out['demo_patched_rc'] = rc1
            out['demo_patched_tail'] = o1[-300:]
        if os.path.exists(os.path.join(d, 'equiv.py')):   # behaviour-preserving refactorings ship an equivalence check
            rce, oe = sh('/venv/bin/python %s' % os.path.join(d, 'equiv.py'), cwd=repo, env=denv, timeout=1800)
            out['equiv_patched_rc'] = rce
        if do_tests:
            xml = os.path.join(work, 'junit.xml')
            sh('/venv/bin/python -m pytest -q -p no:cacheprovider --timeout=900 --continue-on-collection-errors '
               '--junitxml=%s' % xml, cwd=repo, env=env, timeout=7200)
            base = json.load(open('/root/.vp/BASELINE.json'))
            passed = set()
            for tc in ET.parse(xml).getroot().iter('testcase'):
                if not list(tc):
                    passed.add('%s::%s' % (tc.get('classname'), tc.get('name')))
            missing = [t for t in base['stable_pass'] if t not in passed]
            out['tests_missing_from_baseline'] = missing
        env2 = dict(os.environ, VERIF_REPO=repo)
        rcc, oc = sh('./check %s %s' % (pid, tier), cwd='/verif', env=env2, timeout=7200)
        out['check_rc'] = rcc
        out['check_out'] = [l for l in oc.splitlines() if l.startswith(('VIOLATION', 'OK', 'KNOWN'))]
        rp = [l.split('replay=')[1].split()[0] for l in out['check_out'] if 'replay=' in l]
        if rp and os.path.exists(rp[0]):
            r = json.load(open(rp[0]))
            out['replay'] = json.dumps({k: r[k] for k in r if k in ('kind', 'input', 'what', 'broken')},
                                       default=str)[:1200]
        return out
    finally:
        sh('git -C /repo worktree remove --force %s' % repo)
        shutil.rmtree(work, ignore_errors=True)


if __name__ == '__main__':
    print(json.dumps(main(), indent=1))
