(* C13 - proofs: scratch / dimension independence (from C14.Proofs), schedule independence of the
   prange loop model, and the n_nearest selection rule for every sorting permutation. *)
From TM Require Import Base.Prelude Base.PyList C14.Model C14.Spec C14.Lib C14.Proofs C13.Model C13.Spec.
From Coq Require Import Permutation Sorting.Sorted.
Open Scope Z_scope.

(* ================================================================== scratch_independent *)
(* for ALL initial contents of the per-thread scratch arrays the result rows of a query are equal *)
Theorem scratch_independent t d q : WF (mkcall t d q) ->
  forall s1 s2, snd (run_query t d q s1) = snd (run_query t d q s2).
Proof. intros W s1 s2. apply rows_independent; exact W. Qed.

(* ... and they do not depend on the dimensions the arrays were allocated with, i.e. on Q_max of the
   co-processed queries or on n_cache *)
Theorem dims_independent t q d1 d2 : WF (mkcall t d1 q) -> WF (mkcall t d2 q) ->
  forall s1 s2, snd (run_query t d1 q s1) = snd (run_query t d2 q s2).
Proof. intros W1 W2 s1 s2. apply rows_independent; assumption. Qed.

(* ================================================================== schedule_independent *)
Section Schedule.
Variable sorter : list (Z * Z) -> list nat.
Variables (t : tdata) (d : dims) (nn : option nat).
Variable qs : list qdata.
Hypothesis Wqs : forall q, In q qs -> WF (mkcall t d q).

(* the result row of one query, as a function of the query alone *)
Definition Fq (q : qdata) : list (rrow * nat) := select sorter nn (snd (run_query t d q scratch0)).

Lemma step_out st ev : (fst ev < length qs)%nat ->
  ts_out (step sorter t d nn qs st ev) = aset (ts_out st) (fst ev) (Some (Fq (nth (fst ev) qs dflt_q))).
Proof.
  intros H. unfold step. cbn [ts_out]. unfold Fq.
  rewrite (scratch_independent t d (nth (fst ev) qs dflt_q) (Wqs _ (nth_In qs dflt_q H))
             (ts_scr st (snd ev)) scratch0).
  reflexivity.
Qed.

Lemma exec_out sched : forall st,
  (forall ev, In ev sched -> (fst ev < length qs)%nat) ->
  forall i, ts_out (exec sorter t d nn qs sched st) i
            = if existsb (fun ev => Nat.eqb (fst ev) i) sched then Some (Fq (nth i qs dflt_q)) else ts_out st i.
Proof.
  unfold exec. induction sched as [|ev sched IH]; intros st Hr i; cbn [fold_left existsb]; [reflexivity|].
  rewrite IH by (intros; apply Hr; right; assumption).
  rewrite step_out by (apply Hr; left; reflexivity).
  destruct (existsb (fun ev0 => Nat.eqb (fst ev0) i) sched) eqn:E.
  - rewrite orb_true_r. reflexivity.
  - rewrite orb_false_r. unfold aset. rewrite Nat.eqb_sym.
    destruct (Nat.eqb_spec (fst ev) i) as [->|]; reflexivity.
Qed.

(* for every assignment of iterations to threads, every order, every initial scratch (and even if an
   iteration is executed more than once): the result array is  map F queries *)
Theorem schedule_independent sched scr :
  (forall ev, In ev sched -> (fst ev < length qs)%nat) ->
  (forall i, (i < length qs)%nat -> In i (map fst sched)) ->
  tomtom_out sorter t d nn qs sched scr = map (fun q => Some (Fq q)) qs.
Proof.
  intros Hr Hc. unfold tomtom_out.
  apply nth_ext with (d := None) (d' := None); [rewrite !map_length, seq_length; reflexivity|].
  rewrite map_length, seq_length. intros i Hi.
  rewrite nth_map_seq_gen by exact Hi. cbn [Nat.add].
  rewrite exec_out by exact Hr.
  assert (existsb (fun ev => Nat.eqb (fst ev) i) sched = true) as ->.
  { apply existsb_exists. specialize (Hc i Hi). apply in_map_iff in Hc as [ev [E Hin]].
    exists ev. split; [exact Hin|]. apply Nat.eqb_eq. exact E. }
  rewrite nth_indep with (d' := (fun q => Some (Fq q)) dflt_q) by (rewrite map_length; exact Hi).
  rewrite (map_nth (fun q => Some (Fq q))). reflexivity.
Qed.
End Schedule.

(* subsets, permutations and duplications of a query pool commute with the result: position k of a call
   on the queries  pool[idxs[0]], pool[idxs[1]], ...  (whatever its Q_max, schedule, scratch) holds the
   row that pool query idxs[k] gets in any other call *)
Theorem coprocessing_independent sorter t nn (pool : list qdata) (idxs : list nat) (d1 d2 : dims) sched scr :
  (forall q, In q pool -> WF (mkcall t d1 q) /\ WF (mkcall t d2 q)) ->
  (forall i, In i idxs -> (i < length pool)%nat) ->
  let qs := map (fun i => nth i pool dflt_q) idxs in
  (forall ev, In ev sched -> (fst ev < length qs)%nat) ->
  (forall k, (k < length qs)%nat -> In k (map fst sched)) ->
  tomtom_out sorter t d2 nn qs sched scr
  = map (fun i => Some (Fq sorter t d1 nn (nth i pool dflt_q))) idxs.
Proof.
  intros HW Hidx qs Hr Hc.
  assert (Wqs : forall q, In q qs -> WF (mkcall t d2 q)).
  { intros q Hq. unfold qs in Hq. apply in_map_iff in Hq as [i [<- Hi]].
    apply HW. apply nth_In. apply Hidx. exact Hi. }
  rewrite (schedule_independent sorter t d2 nn qs Wqs sched scr Hr Hc).
  unfold qs. rewrite map_map. apply map_ext_in. intros i Hi. f_equal. unfold Fq. f_equal.
  destruct (HW (nth i pool dflt_q) (nth_In pool dflt_q (Hidx i Hi))) as [W1 W2].
  apply dims_independent; assumption.
Qed.

(* ================================================================== n_nearest *)
Lemma ple_trans a b c : 0 < snd a -> 0 < snd b -> 0 < snd c ->
  ple a b = true -> ple b c = true -> ple a c = true.
Proof.
  unfold ple. intros Ha Hb Hc H1 H2. apply Z.leb_le in H1, H2. apply Z.leb_le.
  apply (Z.mul_le_mono_pos_r _ _ (snd b) Hb).
  transitivity (fst b * snd a * snd c).
  - replace (fst a * snd c * snd b) with (fst a * snd b * snd c) by ring.
    apply Z.mul_le_mono_nonneg_r; [lia|exact H1].
  - replace (fst b * snd a * snd c) with (fst b * snd c * snd a) by ring.
    replace (fst c * snd a * snd b) with (fst c * snd b * snd a) by ring.
    apply Z.mul_le_mono_nonneg_r; [lia|exact H2].
Qed.
Lemma ple_total a b : ple a b = false -> ple b a = true.
Proof. unfold ple. intros H. apply Z.leb_gt in H. apply Z.leb_le. lia. Qed.

Lemma NoDup_app_l {T} (l1 l2 : list T) : NoDup (l1 ++ l2) -> NoDup l1.
Proof.
  induction l1 as [|a l1 IH]; intros H; [constructor|]. cbn [app] in H. inversion H as [|x l Hn Hd]; subst.
  constructor; [|apply IH; exact Hd]. intros Hin. apply Hn. apply in_or_app. left; exact Hin.
Qed.
Lemma in_firstn {T} (x : T) n l : In x (firstn n l) -> In x l.
Proof. intros H. rewrite <- (firstn_skipn n l). apply in_or_app. left; exact H. Qed.

Section Sorting.
Variable key : nat -> Z * Z.
Hypothesis key_pos : forall i, 0 < snd (key i).
Definition kle (a b : nat) : Prop := ple (key a) (key b) = true.

Lemma ins_perm i l : Permutation (i :: l) (ins_idx key i l).
Proof.
  induction l as [|j l IH]; cbn [ins_idx]; [reflexivity|].
  destruct (ple (key j) (key i)); [|reflexivity].
  etransitivity; [apply perm_swap|]. constructor. exact IH.
Qed.
Lemma ins_sorted i l : StronglySorted kle l -> StronglySorted kle (ins_idx key i l).
Proof.
  induction l as [|j l IH]; intros H; cbn [ins_idx].
  - constructor; constructor.
  - apply StronglySorted_inv in H as [Hs Hf].
    destruct (ple (key j) (key i)) eqn:E.
    + constructor; [apply IH; exact Hs|].
      apply (Permutation_Forall (ins_perm i l)). constructor; [exact E|exact Hf].
    + apply ple_total in E. constructor; [constructor; assumption|].
      constructor; [exact E|]. apply Forall_forall. intros x Hx.
      rewrite Forall_forall in Hf. specialize (Hf x Hx). unfold kle in *.
      apply (ple_trans _ (key j)); auto.
Qed.
Lemma argsort_fold_perm l : forall acc,
  Permutation (l ++ acc) (fold_left (fun acc i => ins_idx key i acc) l acc).
Proof.
  induction l as [|x l IH]; intros acc; cbn [fold_left app]; [reflexivity|].
  etransitivity; [|apply IH]. etransitivity; [apply Permutation_middle|].
  apply Permutation_app_head. apply ins_perm.
Qed.
Lemma argsort_fold_sorted l : forall acc, StronglySorted kle acc ->
  StronglySorted kle (fold_left (fun acc i => ins_idx key i acc) l acc).
Proof.
  induction l as [|x l IH]; intros acc H; cbn [fold_left]; [exact H|]. apply IH. apply ins_sorted. exact H.
Qed.

(* what numpy.argsort is assumed to return: a permutation of 0..len-1 along which the keys ascend *)
Definition sorting_perm (len : nat) (perm : list nat) : Prop :=
  Permutation perm (seq 0 len) /\ StronglySorted kle perm.

Lemma SS_app_cross {T} (R : T -> T -> Prop) l1 : forall l2, StronglySorted R (l1 ++ l2) ->
  forall x y, In x l1 -> In y l2 -> R x y.
Proof.
  induction l1 as [|a l1 IH]; intros l2 H x y Hx Hy; [destruct Hx|].
  cbn [app] in H. apply StronglySorted_inv in H as [Hs Hf].
  destruct Hx as [->|Hx].
  - rewrite Forall_forall in Hf. apply Hf. apply in_or_app. right; exact Hy.
  - apply (IH l2 Hs x y Hx Hy).
Qed.
Lemma SS_app_l {T} (R : T -> T -> Prop) l1 : forall l2, StronglySorted R (l1 ++ l2) -> StronglySorted R l1.
Proof.
  induction l1 as [|a l1 IH]; intros l2 H; [constructor|].
  cbn [app] in H. apply StronglySorted_inv in H as [Hs Hf]. constructor; [apply (IH l2 Hs)|].
  rewrite Forall_forall in *. intros x Hx. apply Hf. apply in_or_app. left; exact Hx.
Qed.

Section TopN.
Variables (len n : nat) (perm : list nat).
Hypothesis Hsp : sorting_perm len perm.
Hypothesis Hn : (n <= len)%nat.
Let sel := firstn n perm.

Lemma perm_length : length perm = len.
Proof. destruct Hsp as [Hp _]. rewrite (Permutation_length Hp), seq_length. reflexivity. Qed.
Lemma sel_length : length sel = n.
Proof. unfold sel. rewrite firstn_length, perm_length. lia. Qed.
Lemma sel_range x : In x sel -> (x < len)%nat.
Proof.
  intros H. unfold sel in H. apply in_firstn in H. destruct Hsp as [Hp _].
  apply (Permutation_in _ Hp) in H. apply in_seq in H. lia.
Qed.
Lemma sel_nodup : NoDup sel.
Proof.
  destruct Hsp as [Hp _]. assert (NoDup perm) as Hnd.
  { apply (Permutation_NoDup (Permutation_sym Hp)). apply seq_NoDup. }
  rewrite <- (firstn_skipn n perm) in Hnd. apply NoDup_app_l in Hnd. exact Hnd.
Qed.
Lemma sel_sorted : StronglySorted kle sel.
Proof.
  destruct Hsp as [_ Hs]. rewrite <- (firstn_skipn n perm) in Hs. apply SS_app_l in Hs. exact Hs.
Qed.
(* nothing left out is smaller than anything kept *)
Lemma sel_cutoff t x : (t < len)%nat -> ~ In t sel -> In x sel -> kle x t.
Proof.
  intros Ht Hnot Hx. destruct Hsp as [Hp Hs].
  assert (In t perm) as Hin by (apply (Permutation_in _ (Permutation_sym Hp)); apply in_seq; lia).
  rewrite <- (firstn_skipn n perm) in Hin, Hs. apply in_app_or in Hin as [Hin|Hin]; [contradiction|].
  apply (SS_app_cross kle _ _ Hs x t Hx Hin).
Qed.
End TopN.
End Sorting.

Lemma argsort_sorting (ps : list (Z * Z)) : (forall p, In p ps -> 0 < snd p) ->
  sorting_perm (fun i => nth i ps (0, 1)) (length ps) (argsort ps).
Proof.
  intros Hpos.
  assert (Hk : forall i, 0 < snd (nth i ps (0, 1))).
  { intros i. destruct (Nat.lt_ge_cases i (length ps)) as [H|H].
    - apply Hpos. apply nth_In. exact H.
    - rewrite nth_overflow by exact H. cbn. lia. }
  unfold argsort, sorting_perm. split.
  - symmetry. rewrite <- (app_nil_r (seq 0 (length ps))) at 1. apply argsort_fold_perm.
  - apply argsort_fold_sorted; [exact Hk|constructor].
Qed.

(* n_nearest_spec (on the model's rows): for EVERY sorting permutation that argsort may return, the
   output is the n smallest p-values of the full row, ascending, with their fields and indices *)
Theorem n_nearest_spec (rows : list rrow) (perm : list nat) (n : nat) :
  let key := fun i => nth i (map r_p rows) (0, 1) in
  (forall r, In r rows -> 0 < snd (r_p r)) ->
  sorting_perm key (length rows) perm -> (n <= length rows)%nat ->
  let out := gather rows (firstn n perm) in
  length out = n /\
  (forall ri, In ri out -> (snd ri < length rows)%nat /\ fst ri = nth (snd ri) rows dflt_rrow) /\
  StronglySorted (fun a b => ple (r_p (fst a)) (r_p (fst b)) = true) out /\
  NoDup (map snd out) /\
  (forall t ri, (t < length rows)%nat -> ~ In t (map snd out) -> In ri out ->
                ple (r_p (fst ri)) (r_p (nth t rows dflt_rrow)) = true).
Proof.
  intros key Hpos Hsp Hn out.
  assert (Hkey : forall i, (i < length rows)%nat -> key i = r_p (nth i rows dflt_rrow)).
  { intros i Hi. unfold key. rewrite nth_indep with (d' := r_p dflt_rrow) by (rewrite map_length; exact Hi).
    apply map_nth. }
  assert (Hk : forall i, 0 < snd (key i)).
  { intros i. destruct (Nat.lt_ge_cases i (length rows)) as [H|H].
    - rewrite Hkey by exact H. apply Hpos. apply nth_In. exact H.
    - unfold key. rewrite nth_overflow by (rewrite map_length; exact H). cbn. lia. }
  assert (Hsnd : map snd out = firstn n perm).
  { unfold out, gather. rewrite map_map. cbn [snd]. apply map_id. }
  pose proof (sel_range key Hk (length rows) n perm Hsp Hn) as Hr.
  split; [|split; [|split; [|split]]].
  - unfold out, gather. rewrite map_length. apply (sel_length key Hk (length rows) n perm Hsp Hn).
  - intros ri Hin. unfold out, gather in Hin. apply in_map_iff in Hin as [i [<- Hi]]. cbn [fst snd].
    split; [apply Hr; exact Hi|reflexivity].
  - unfold out, gather.
    pose proof (sel_sorted key (length rows) n perm Hsp) as Hs.
    revert Hs Hr. generalize (firstn n perm) as l. induction l as [|a l IH]; intros Hs Hr; cbn [map]; [constructor|].
    apply StronglySorted_inv in Hs as [Hs Hf]. constructor.
    + apply IH; [exact Hs|intros; apply Hr; right; assumption].
    + rewrite Forall_forall in *. intros ri Hin. apply in_map_iff in Hin as [b [<- Hb]]. cbn [fst].
      specialize (Hf b Hb). unfold kle in Hf. rewrite !Hkey in Hf; [exact Hf| |]; apply Hr; [right|left]; auto.
  - rewrite Hsnd. apply (sel_nodup key (length rows) n perm Hsp).
  - intros tt ri Ht Hnot Hin. rewrite Hsnd in Hnot.
    unfold out, gather in Hin. apply in_map_iff in Hin as [i [<- Hi]]. cbn [fst].
    pose proof (sel_cutoff key Hk (length rows) n perm Hsp Hn tt i Ht Hnot Hi) as Hc. unfold kle in Hc.
    rewrite !Hkey in Hc; [exact Hc|exact Ht|]. apply Hr. exact Hi.
Qed.

(* ================================================================== the table-driven model satisfies the spec *)
Lemma fl_eqb_refl a : fl_eqb a a = true.
Proof. unfold fl_eqb. rewrite !Z.eqb_refl. reflexivity. Qed.
Lemma brow_eqb_refl full b : brow_eqb full b b = true.
Proof. unfold brow_eqb. rewrite !fl_eqb_refl. destruct full; reflexivity. Qed.

Lemma ascending_cons2 x y t : ascending (x :: y :: t) = fl_le x y && ascending (y :: t).
Proof. reflexivity. Qed.
Lemma ascending_of_SS {T} (f : T -> fl) (l : list T) :
  StronglySorted (fun a b => fl_le (f a) (f b) = true) l -> ascending (map f l) = true.
Proof.
  induction l as [|a l IH]; intros H; [reflexivity|].
  apply StronglySorted_inv in H as [Hs Hf]. destruct l as [|b l]; [reflexivity|].
  change (map f (a :: b :: l)) with (f a :: f b :: map f l). rewrite ascending_cons2.
  change (f b :: map f l) with (map f (b :: l)). rewrite IH by exact Hs.
  rewrite Forall_forall in Hf. rewrite (Hf b) by (left; reflexivity). reflexivity.
Qed.
Lemma nodupb_of_NoDup l : NoDup l -> nodupb l = true.
Proof.
  induction 1 as [|x l Hn Hd IH]; [reflexivity|]. cbn [nodupb]. rewrite IH, andb_true_r.
  apply negb_true_iff. destruct (existsb (Nat.eqb x) l) eqn:E; [|reflexivity].
  apply existsb_exists in E as [y [Hy Exy]]. apply Nat.eqb_eq in Exy. subst. contradiction.
Qed.
Lemma forallb_combine_seq {T} (f : nat * T -> bool) (d : T) (l : list T) :
  (forall k, (k < length l)%nat -> f (k, nth k l d) = true) ->
  forallb f (combine (seq 0 (length l)) l) = true.
Proof.
  intros H. apply forallb_forall. intros [k x] Hin.
  apply (In_nth _ _ (0%nat, d)) in Hin as [j [Hj E]].
  rewrite combine_length, seq_length, Nat.min_id in Hj.
  rewrite combine_nth in E by (rewrite seq_length; reflexivity).
  rewrite seq_nth in E by exact Hj. injection E as <- <-. apply H. exact Hj.
Qed.
Lemma combine_map_self {A B} (g : A -> B) (l : list A) : combine l (map g l) = map (fun i => (i, g i)) l.
Proof. induction l; cbn; auto. f_equal; auto. Qed.

Lemma full_ok_model full ref : full_ok full ref (combine ref (seq 0 (length ref))) = true.
Proof.
  unfold full_ok.
  assert (Hl : length (combine ref (seq 0 (length ref))) = length ref)
    by (rewrite combine_length, seq_length; lia).
  rewrite Hl, Nat.eqb_refl. cbn [andb]. rewrite <- Hl at 1.
  apply (forallb_combine_seq _ (dflt_b, 0%nat)). rewrite Hl. intros k Hk. cbn [fst snd].
  rewrite combine_nth by (rewrite seq_length; reflexivity). rewrite seq_nth by exact Hk. cbn [fst snd Nat.add].
  rewrite Nat.eqb_refl, brow_eqb_refl. reflexivity.
Qed.

(* n_nearest on observed rows: every sorting permutation yields an outcome accepted by nn_ok *)
Lemma nn_ok_sorting full (ref : list brow) perm n :
  (forall b, In b ref -> 0 < snd (b_p b)) ->
  sorting_perm (fun i => nth i (map b_p ref) (0, 1)) (length ref) perm -> (n <= length ref)%nat ->
  nn_ok full ref n (bgather ref (firstn n perm)) = true.
Proof.
  intros Hpos Hsp Hn. set (key := fun i => nth i (map b_p ref) (0, 1)) in *.
  assert (Hkey : forall i, (i < length ref)%nat -> key i = b_p (nth i ref dflt_b)).
  { intros i Hi. unfold key. rewrite nth_indep with (d' := b_p dflt_b) by (rewrite map_length; exact Hi).
    apply map_nth. }
  assert (Hk : forall i, 0 < snd (key i)).
  { intros i. destruct (Nat.lt_ge_cases i (length ref)) as [H|H].
    - rewrite Hkey by exact H. apply Hpos. apply nth_In. exact H.
    - unfold key. rewrite nth_overflow by (rewrite map_length; exact H). cbn. lia. }
  pose proof (sel_range key Hk (length ref) n perm Hsp Hn) as Hr.
  set (sel := firstn n perm) in *.
  assert (Hsnd : map snd (bgather ref sel) = sel).
  { unfold bgather. rewrite map_map. cbn [snd]. apply map_id. }
  unfold nn_ok. rewrite !andb_true_iff. repeat split.
  - unfold bgather. rewrite map_length. apply Nat.eqb_eq. apply (sel_length key Hk (length ref) n perm Hsp Hn).
  - apply forallb_forall. intros r Hin. unfold bgather in Hin. apply in_map_iff in Hin as [i [<- Hi]].
    cbn [fst snd]. rewrite brow_eqb_refl, andb_true_r. apply Nat.ltb_lt. apply Hr. exact Hi.
  - unfold bgather. rewrite map_map. cbn [fst].
    apply (ascending_of_SS (fun i => b_p (nth i ref dflt_b))).
    pose proof (sel_sorted key (length ref) n perm Hsp) as Hs. fold sel in Hs.
    revert Hs Hr. generalize sel as l. induction l as [|a l IH]; intros Hs Hr; [constructor|].
    apply StronglySorted_inv in Hs as [Hs Hf]. constructor.
    + apply IH; [exact Hs|intros; apply Hr; right; assumption].
    + rewrite Forall_forall in *. intros b Hb. specialize (Hf b Hb). unfold kle, ple in Hf. unfold fl_le.
      rewrite !Hkey in Hf; [exact Hf| |]; apply Hr; [right|left]; auto.
  - rewrite Hsnd. apply nodupb_of_NoDup. apply (sel_nodup key (length ref) n perm Hsp).
  - unfold bgather at 1. rewrite <- map_rev.
    destruct (rev sel) as [|last rest] eqn:Erev; [reflexivity|]. cbn [map fst].
    assert (Hlast : In last sel) by (apply in_rev; rewrite Erev; left; reflexivity).
    apply forallb_forall. intros tt Ht. apply in_seq in Ht. rewrite Hsnd.
    destruct (existsb (Nat.eqb tt) sel) eqn:Eex; [reflexivity|]. cbn [orb].
    assert (Hnot : ~ In tt sel).
    { intros Hin. assert (existsb (Nat.eqb tt) sel = true); [|congruence].
      apply existsb_exists. exists tt. split; [exact Hin|apply Nat.eqb_refl]. }
    pose proof (sel_cutoff key Hk (length ref) n perm Hsp Hn tt last ltac:(lia) Hnot Hlast) as Hc.
    unfold kle, ple in Hc. unfold fl_le. rewrite !Hkey in Hc; [exact Hc|lia|apply Hr; exact Hlast].
Qed.

Theorem model_spec_ok13 : forall c, C13.Spec.spec_ok c (C13.Spec.model c) = true.
Proof.
  intros c. unfold C13.Spec.spec_ok. destruct (C13.Spec.wf c) eqn:Hwf; [|reflexivity].
  unfold C13.Spec.wf in Hwf. rewrite !andb_true_iff in Hwf. destruct Hwf as [[Href Hidx] Hnn].
  unfold C13.Spec.model. rewrite map_length, Nat.eqb_refl. cbn [andb].
  rewrite combine_map_self. apply forallb_forall. intros ir Hin. apply in_map_iff in Hin as [i [<- Hi]].
  cbn [fst snd]. rewrite forallb_forall in Hidx. specialize (Hidx i Hi). apply Nat.ltb_lt in Hidx.
  set (ref := nth i (c_ref c) []).
  assert (Hrefin : In ref (c_ref c)) by (apply nth_In; exact Hidx).
  rewrite forallb_forall in Href. specialize (Href ref Hrefin). apply andb_true_iff in Href as [Hlen Hpos].
  destruct (c_nn c) as [n|].
  - apply andb_true_iff in Hnn as [_ Hn]. apply Nat.leb_le in Hn. apply Nat.eqb_eq in Hlen.
    apply nn_ok_sorting.
    + intros b Hb. rewrite forallb_forall in Hpos. specialize (Hpos b Hb). lia.
    + rewrite <- (map_length b_p ref). apply argsort_sorting.
      intros p Hp. apply in_map_iff in Hp as [b [<- Hb]]. rewrite forallb_forall in Hpos. specialize (Hpos b Hb). lia.
    + lia.
  - apply full_ok_model.
Qed.
