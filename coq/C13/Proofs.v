From TM Require Import Base.Prelude C14.Model C13.Model C13.Spec.
