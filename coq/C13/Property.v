(* C13 - property theorems only.  Each is closed by [exact] of a lemma from Proofs.v. *)
From TM Require Import Base.Prelude C14.Model C14.Spec C14.Proofs C13.Model C13.Spec C13.Proofs.
Open Scope Z_scope.

(* for ALL initial contents of the per-thread scratch arrays (numpy.empty garbage, or whatever longer
   and shorter queries processed earlier by the same thread left there) the result rows are equal *)
Theorem c13_scratch_independent : forall t d q, WF (mkcall t d q) ->
  forall s1 s2, snd (run_query t d q s1) = snd (run_query t d q s2).
Proof. exact scratch_independent. Qed.
Print Assumptions c13_scratch_independent.

(* ... nor do they depend on the dimensions the scratch was allocated with (Q_max of the co-processed
   queries, n_cache) *)
Theorem c13_dims_independent : forall t q d1 d2, WF (mkcall t d1 q) -> WF (mkcall t d2 q) ->
  forall s1 s2, snd (run_query t d1 q s1) = snd (run_query t d2 q s2).
Proof. exact dims_independent. Qed.
Print Assumptions c13_dims_independent.

(* for every assignment of loop iterations to threads, every execution order and every initial
   scratch, the result array equals  map F queries  with F a function of the query alone.
   PARTIAL w.r.t. the property text: iterations are atomic in the model; the real numba scheduler and
   data races inside an iteration are outside any Gallina model (observed by running 1..16 threads) *)
Theorem c13_schedule_independent_partial :
  forall sorter t d nn qs, (forall q, In q qs -> WF (mkcall t d q)) ->
  forall sched scr,
    (forall ev, In ev sched -> (fst ev < length qs)%nat) ->
    (forall i, (i < length qs)%nat -> In i (map fst sched)) ->
    tomtom_out sorter t d nn qs sched scr = map (fun q => Some (Fq sorter t d nn q)) qs.
Proof. exact schedule_independent. Qed.
Print Assumptions c13_schedule_independent_partial.

(* subsets, permutations and duplications of the query list commute with the result *)
Theorem c13_coprocessing_independent_partial :
  forall sorter t nn (pool : list qdata) (idxs : list nat) (d1 d2 : dims) sched scr,
  (forall q, In q pool -> WF (mkcall t d1 q) /\ WF (mkcall t d2 q)) ->
  (forall i, In i idxs -> (i < length pool)%nat) ->
  let qs := map (fun i => nth i pool dflt_q) idxs in
  (forall ev, In ev sched -> (fst ev < length qs)%nat) ->
  (forall k, (k < length qs)%nat -> In k (map fst sched)) ->
  tomtom_out sorter t d2 nn qs sched scr = map (fun i => Some (Fq sorter t d1 nn (nth i pool dflt_q))) idxs.
Proof. exact coprocessing_independent. Qed.
Print Assumptions c13_coprocessing_independent_partial.

(* n_nearest: for every sorting permutation argsort may return, the output is the n smallest p-values
   of the full row, ascending, with their fields and indices (ties may resolve either way) *)
Theorem c13_n_nearest : forall (rows : list rrow) (perm : list nat) (n : nat),
  let key := fun i => nth i (map r_p rows) (0, 1) in
  (forall r, In r rows -> 0 < snd (r_p r)) ->
  sorting_perm key (length rows) perm -> (n <= length rows)%nat ->
  let out := gather rows (firstn n perm) in
  length out = n /\
  (forall ri, In ri out -> (snd ri < length rows)%nat /\ fst ri = nth (snd ri) rows dflt_rrow) /\
  Sorted.StronglySorted (fun a b => ple (r_p (fst a)) (r_p (fst b)) = true) out /\
  NoDup (map snd out) /\
  (forall t ri, (t < length rows)%nat -> ~ In t (map snd out) -> In ri out ->
                ple (r_p (fst ri)) (r_p (nth t rows dflt_rrow)) = true).
Proof. exact n_nearest_spec. Qed.
Print Assumptions c13_n_nearest.

(* the decidable relation evaluated on the implementation's outcomes: the table-driven model
   (reference rows + stable argsort) satisfies it for every call *)
Theorem c13_spec : forall c, C13.Spec.spec_ok c (C13.Spec.model c) = true.
Proof. exact model_spec_ok13. Qed.
Print Assumptions c13_spec.

(* hypotheses are satisfiable: a well-formed query (one column, similarities 4,0,3,4,4,0, the two
   zero-similarity columns forming one target of length 2) *)
Definition w16_t : tdata := mktd 5 [1; 1; 1; 1; 1; 1] [2; 1; 1; 1; 1]%nat [1; 5; 0; 2; 3; 4]%nat false.
Definition w16_q : qdata := mkqd 1 3 [[4]; [0]; [3]; [4]; [4]; [0]].
Definition w16_d : dims := mkdims 6 20.
Example w16_wf : C14.Spec.wf (mkcall w16_t w16_d w16_q) = true.
Proof. vm_compute. reflexivity. Qed.

(* #16 (fixed by a3f2523): before the repair (score-1 as an unsigned index, results[i,2:4] not
   initialised) two scratch contents give different result rows for this query *)
Definition v0_p0 : ver := mkver true false false.
Lemma scratch_dependent_v0_refuted : exists t d q s1 s2,
  C14.Spec.wf (mkcall t d q) = true /\
  map r_off (snd (run_query_ver v0_p0 t d q s1)) <> map r_off (snd (run_query_ver v0_p0 t d q s2)).
Proof.
  exists w16_t, w16_d, w16_q, (poison_scratch 12345 160), (poison_scratch 0 160).
  split; [vm_compute; reflexivity|]. vm_compute. discriminate.
Qed.
