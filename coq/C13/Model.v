(* C13 - model of the parallel loop of tomtom._tomtom: per-thread scratch, one result row per query,
   optional n_nearest selection.  One iteration of the prange loop is C14.Model.run_query on the
   scratch of the thread that executes it.

   A schedule is the list of (iteration i, thread pid) pairs in the order in which the iterations
   run.  It covers every assignment of iterations to threads and every sequential order of the
   iterations of one thread; iterations of different threads touch disjoint state (scratch slice pid,
   result row i), so their relative order in the list is immaterial - which is what the theorem
   shows.  True concurrency (two threads inside one iteration body at the same time, data races on
   a shared cell) is NOT expressible here: the model has no shared cell to race on, and that the
   code has none either is checked only by running it (see design/C13.md). *)
From TM Require Import Base.Prelude C14.Model.
Open Scope Z_scope.

(* ------------------------------------------------------------------ n_nearest *)
(* numpy.argsort on the p-value column: modelled as insertion sort (stable); the theorems hold for
   every sorting permutation *)
Definition ple (a b : Z * Z) : bool := fst a * snd b <=? fst b * snd a.    (* a <= b, denominators > 0 *)
Fixpoint ins_idx (key : nat -> Z * Z) (i : nat) (l : list nat) : list nat :=
  match l with
  | [] => [i]
  | j :: t => if ple (key j) (key i) then j :: ins_idx key i t else i :: j :: t
  end.
Definition argsort (ps : list (Z * Z)) : list nat :=
  let key := fun i => nth i ps (0, 1) in
  fold_left (fun acc i => ins_idx key i acc) (seq 0 (length ps)) [].

Definition dflt_rrow : rrow := mkrr (0, 1) 0 0 0 0.
(* results[i, :, :5] = _results[pid, idxs]; results[i, :, 5] = idxs *)
Definition gather (rows : list rrow) (idxs : list nat) : list (rrow * nat) :=
  map (fun i => (nth i rows dflt_rrow, i)) idxs.
Definition select (sorter : list (Z * Z) -> list nat) (nn : option nat) (rows : list rrow)
  : list (rrow * nat) :=
  match nn with
  | None => combine rows (seq 0 (length rows))
  | Some n => gather rows (firstn n (sorter (map r_p rows)))
  end.

(* ------------------------------------------------------------------ the prange loop *)
Record tstate := mkts {
  ts_scr : nat -> scratch;                          (* scratch of thread pid *)
  ts_out : nat -> option (list (rrow * nat)) }.     (* results[i], None = not yet written *)

Section Loop.
  Variable sorter : list (Z * Z) -> list nat.
  Variables (t : tdata) (d : dims) (nn : option nat).
  Variable qs : list qdata.
  Definition dflt_q : qdata := mkqd 0 0 [].

  Definition step (st : tstate) (ev : nat * nat) : tstate :=
    let i := fst ev in let pid := snd ev in
    let r := run_query t d (nth i qs dflt_q) (ts_scr st pid) in
    mkts (aset (ts_scr st) pid (fst r)) (aset (ts_out st) i (Some (select sorter nn (snd r)))).
  Definition exec (sched : list (nat * nat)) (st : tstate) : tstate := fold_left step sched st.
  Definition init (scr : nat -> scratch) : tstate := mkts scr (fun _ => None).
  (* the result tensor once every iteration has run *)
  Definition tomtom_out (sched : list (nat * nat)) (scr : nat -> scratch) : list (option (list (rrow * nat))) :=
    map (ts_out (exec sched (init scr))) (seq 0 (length qs)).
End Loop.
