(* C13 spec, as a decidable relation on what the harness observes.

   A pool of queries and a target set are fixed.  The reference table [c_ref] holds, for every pool
   query, the full result row (one entry per target) obtained by running that query ALONE on one
   thread.  A call processes the pool queries [c_idxs] (any subset, order, duplication) under some
   thread count / chunk size / scratch poison - none of which appears in the spec, because the
   property says the result must not depend on them - optionally with n_nearest.

   Property: (full rows) position k of the call's result is bit-identical to the reference row of
   pool query c_idxs[k]; (n_nearest = n) position k holds exactly n entries (row, idx) such that
   idx are distinct targets, each row is the reference entry of target idx bit for bit, p-values
   ascend, and no target left out has a smaller p-value than the last one kept.  Which of several
   equal p-values is kept / comes first is left open, as in the property.

   Floats are passed as exact fractions in lowest terms (num, den), so structural equality is
   equality of the doubles (up to the sign of zero) and the order is decided by cross-multiplying. *)
From TM Require Import Base.Prelude C14.Model C13.Model.
Open Scope Z_scope.

Definition fl := (Z * Z)%type.
Definition fl_eqb (a b : fl) : bool := (fst a =? fst b) && (snd a =? snd b).
Definition fl_le (a b : fl) : bool := fst a * snd b <=? fst b * snd a.

Record brow := mkb { b_p : fl; b_score : fl; b_off : fl; b_ovl : fl; b_strand : fl }.
Definition brow_eqb (full : bool) (a b : brow) : bool :=
  fl_eqb (b_p a) (b_p b) &&
  (if full then fl_eqb (b_score a) (b_score b) && fl_eqb (b_off a) (b_off b) &&
                fl_eqb (b_ovl a) (b_ovl b) && fl_eqb (b_strand a) (b_strand b)
   else true).

Record call := mkcall13 {
  c_ref  : list (list brow);     (* pool query -> its row when run alone on one thread *)
  c_idxs : list nat;             (* the queries of this call, as pool indices *)
  c_nn   : option nat;           (* n_nearest *)
  c_full : bool }.               (* false: only p-values and indices are observable (annotate_seqlets) *)
Definition outcome := list (list (brow * nat)).   (* per position: (row, target index) *)

Definition dflt_b : brow := mkb (0, 1) (0, 1) (0, 1) (0, 1) (0, 1).
Definition ntargets (c : call) : nat := length (hd [] (c_ref c)).

Definition wf (c : call) : bool :=
  forallb (fun r => (length r =? ntargets c)%nat &&
                    forallb (fun b => 0 <? snd (b_p b)) r) (c_ref c) &&
  forallb (fun i => (i <? length (c_ref c))%nat) (c_idxs c) &&
  match c_nn c with Some n => (1 <=? n)%nat && (n <=? ntargets c)%nat | None => true end.

Fixpoint ascending (l : list fl) : bool :=
  match l with
  | a :: ((b :: _) as t) => fl_le a b && ascending t
  | _ => true
  end.
Fixpoint nodupb (l : list nat) : bool :=
  match l with [] => true | x :: t => negb (existsb (Nat.eqb x) t) && nodupb t end.

Definition full_ok (full : bool) (ref : list brow) (rows : list (brow * nat)) : bool :=
  (length rows =? length ref)%nat &&
  forallb (fun kr => (snd (snd kr) =? fst kr)%nat && brow_eqb full (fst (snd kr)) (nth (fst kr) ref dflt_b))
          (combine (seq 0 (length rows)) rows).

Definition nn_ok (full : bool) (ref : list brow) (n : nat) (rows : list (brow * nat)) : bool :=
  (length rows =? n)%nat &&
  forallb (fun r => (snd r <? length ref)%nat && brow_eqb full (fst r) (nth (snd r) ref dflt_b)) rows &&
  ascending (map (fun r => b_p (fst r)) rows) &&
  nodupb (map snd rows) &&
  match rev rows with
  | [] => true
  | last :: _ =>
      forallb (fun t => existsb (Nat.eqb t) (map snd rows) || fl_le (b_p (fst last)) (b_p (nth t ref dflt_b)))
              (seq 0 (length ref))
  end.

Definition spec_ok (c : call) (o : outcome) : bool :=
  if wf c then
    (length o =? length (c_idxs c))%nat &&
    forallb (fun ir => let ref := nth (fst ir) (c_ref c) [] in
                       match c_nn c with
                       | None => full_ok (c_full c) ref (snd ir)
                       | Some n => nn_ok (c_full c) ref n (snd ir)
                       end)
            (combine (c_idxs c) o)
  else true.

(* the model of the call, with the result-row function given by the table *)
Definition bgather (rows : list brow) (idxs : list nat) : list (brow * nat) :=
  map (fun i => (nth i rows dflt_b, i)) idxs.
Definition model (c : call) : outcome :=
  map (fun i => let ref := nth i (c_ref c) [] in
                match c_nn c with
                | None => combine ref (seq 0 (length ref))
                | Some n => bgather ref (firstn n (argsort (map b_p ref)))
                end) (c_idxs c).

Definition pair_eqb (full : bool) (a b : brow * nat) : bool :=
  brow_eqb full (fst a) (fst b) && Nat.eqb (snd a) (snd b).
Definition outcome_eqb (full : bool) (o m : outcome) : bool := list_eqb (list_eqb (pair_eqb full)) o m.

(* With n_nearest the model's only content beyond the spec is HOW equal p-values are ordered, which
   the property leaves open; agreement with the model is therefore only demanded for full rows. *)
Definition case := (call * outcome)%type.
Definition check_case (k : case) : nat :=
  let c := fst k in
  verdict (match c_nn c with None => outcome_eqb (c_full c) (snd k) (model c) | Some _ => true end)
          (spec_ok c (snd k)).
