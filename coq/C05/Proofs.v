(* C05 proofs: the model's backward pass (C04.Model.bw) computes, entry by entry, the pointwise
   rescale-rule evaluation of C05.Spec; projection formulas; affine closed form. *)
From Coq Require Import QArith Qcanon Qcabs Field.
From TM Require Import Base.Prelude Base.PyList C04.Model C04.Spec C04.Proofs C05.Spec.

Section Theory05.
Variable K : ops.
Local Notation "a +! b" := (fadd K a b) (at level 50, left associativity).
Local Notation "a -! b" := (fsub K a b) (at level 50, left associativity).
Local Notation "a *! b" := (fmul K a b) (at level 40, left associativity).
Local Notation "a /! b" := (fdiv K a b) (at level 40, left associativity).
Local Notation zero := (f0 K).
Local Notation one := (f1 K).
Local Notation vnth v i := (nth i v zero).

Hypothesis Fth : field_theory zero one (fadd K) (fmul K) (fsub K) (fopp K) (fdiv K) (finv K) (@eq K).
Add Field Kfield05 : Fth.
(* the spec's "coincide" test (|d| < 1e-7) is below the code's switch (|d| < 1e-6) *)
Hypothesis small_mono : forall d : K, small7 K d = true -> small6 K d = true.
Hypothesis feqb_eq : forall a b : K, feqb K a b = true -> a = b.

Lemma ksum_vsum l : ksum K l = vsum K l.
Proof. induction l as [|a l IH]; [reflexivity|]. cbn. rewrite IH. reflexivity. Qed.

(* two vectors with the same entries (missing entries read as 0) *)
Definition eqn (a b : list K) : Prop := forall i, vnth a i = vnth b i.

(* ---------------------------------------------------------------- affine layers *)
Lemma nth_vadd a b i : length a = length b -> vnth (vadd K a b) i = vnth a i +! vnth b i.
Proof.
  intros Hl. destruct (Nat.lt_ge_cases i (length a)) as [Hi|Hi].
  - unfold vadd. apply nth_map2; assumption.
  - rewrite !nth_overflow; try lia; [ring|].
    unfold vadd. rewrite map2_length by exact Hl. exact Hi.
Qed.

Lemma nth_vscale c a i : vnth (vscale K c a) i = c *! vnth a i.
Proof.
  destruct (Nat.lt_ge_cases i (length a)) as [Hi|Hi].
  - unfold vscale. rewrite nth_indep with (d' := c *! zero) by (rewrite map_length; exact Hi).
    apply (map_nth (fmul K c)).
  - rewrite !nth_overflow; try lia; [ring|]. unfold vscale. rewrite map_length. exact Hi.
Qed.

Lemma nth_zeros n i : vnth (zeros K n) i = zero.
Proof. unfold zeros. destruct (Nat.lt_ge_cases i n); [apply nth_repeat | apply nth_overflow; rewrite repeat_length; lia]. Qed.

Lemma taff_nth W : forall m n i, Forall (fun row => length row = n) W ->
  vnth (taff K W m n) i =
  vsum K (map (fun j => vnth (nth j W []) i *! vnth m j) (seq 0 (length W))).
Proof.
  induction W as [|row W IH]; intros m n i HW.
  - cbn. apply nth_zeros.
  - inversion HW; subst. cbn [length seq map Model.vsum]. rewrite <- seq_shift, map_map.
    destruct m as [|mj m]; cbn [taff].
    + rewrite nth_zeros. cbn [nth].
      rewrite (vsum_map_ext K _ (fun _ => zero)); [rewrite vsum_map_zero by exact Fth; ring|].
      intros j _. destruct j; ring.
    + rewrite nth_vadd.
      * rewrite nth_vscale, IH by assumption. cbn [nth]. ring.
      * unfold vscale. rewrite map_length. symmetry. apply taff_length. assumption.
Qed.

Lemma rule_affine_eqn W n m : Forall (fun row => length row = n) W ->
  eqn (taff K W m n) (rule_affine K W n m).
Proof.
  intros HW i. destruct (Nat.lt_ge_cases i n) as [Hi|Hi].
  - unfold rule_affine. rewrite nth_map_seq by exact Hi. symmetry. etransitivity; [apply ksum_vsum|].
    symmetry. apply taff_nth. exact HW.
  - rewrite !nth_overflow; [reflexivity | |].
    + unfold rule_affine. rewrite map_length, seq_length. exact Hi.
    + rewrite taff_length by exact HW. exact Hi.
Qed.

Lemma rule_affine_ext W n m m' : eqn m m' -> rule_affine K W n m = rule_affine K W n m'.
Proof.
  intros H. unfold rule_affine. apply map_ext. intros i. f_equal. apply map_ext. intros j.
  rewrite (H j). reflexivity.
Qed.

(* ---------------------------------------------------------------- element-wise layers *)
(* scope of one recorded unit: not between lo and the code's switch *)
Definition unit_ok5 (u : urec K) : Prop :=
  small7 K (ix u -! ir u) = true \/ small6 K (ix u -! ir u) = false.

Lemma rescale_ratio u m : unit_ok5 u -> rescale K u m = m *! ratio K u.
Proof.
  intros H. unfold rescale, ratio, below_lo. cbv zeta. destruct H as [H|H].
  - rewrite H, (small_mono _ H). reflexivity.
  - rewrite H. destruct (small7 K (ix u -! ir u)) eqn:E; [|reflexivity].
    rewrite (small_mono _ E) in H. discriminate.
Qed.

Lemma rule_act_cons u us m :
  rule_act K (u :: us) m =
  (vnth m 0 *! ratio K u) :: map (fun j => vnth m (S j) *! ratio K (nth j us (u0 K))) (seq 0 (length us)).
Proof. unfold rule_act. cbn [length seq map nth]. rewrite <- seq_shift, map_map. reflexivity. Qed.

Lemma rule_act_eqn us : forall m, Forall unit_ok5 us -> eqn (map2 (rescale K) us m) (rule_act K us m).
Proof.
  induction us as [|u us IH]; intros m H i.
  - cbn. destruct i; reflexivity.
  - inversion H; subst. rewrite rule_act_cons. destruct m as [|mj m].
    + change (map2 (rescale K) (u :: us) []) with (@nil K).
      destruct i as [|i]; cbn [nth]; [ring|].
      destruct (Nat.lt_ge_cases i (length us)) as [Hi|Hi].
      * rewrite nth_map_seq by exact Hi. cbn [nth]. ring.
      * rewrite nth_overflow; [reflexivity | rewrite map_length, seq_length; exact Hi].
    + rewrite map2_cons. destruct i as [|i]; cbn [nth].
      * apply rescale_ratio. assumption.
      * exact (IH m H3 i).
Qed.

Lemma rule_act_ext us m m' : eqn m m' -> rule_act K us m = rule_act K us m'.
Proof. intros H. unfold rule_act. apply map_ext. intros j. rewrite (H j). reflexivity. Qed.

(* ---------------------------------------------------------------- whole traces *)
Lemma rule_layer_ext l m m' : eqn m m' -> has_pool K [l] = false -> rule_layer K l m = rule_layer K l m'.
Proof.
  intros H Hp. destruct l; cbn [rule_layer].
  - apply rule_affine_ext. exact H.
  - apply rule_act_ext. exact H.
  - cbn in Hp. discriminate.
Qed.

(* [chain5 tr x r yx yr]: the trace is the forward pass of the pair (x, r), it contains no max-pool and
   every recorded unit is in scope (unit_ok5).  Unlike C04's [chain] it does NOT ask the near-coincident
   inputs to be equal: C05 is about which slope is used, not about exact summation-to-delta. *)
Fixpoint chain5 (net : list (layer K)) (x r yx yr : list K) : Prop :=
  match net with
  | [] => yx = x /\ yr = r
  | Affine W b :: n =>
      Forall (fun row => length row = length x) W /\ in_dim K W = length x /\
      length x = length r /\ length b = length W /\
      chain5 n (aff K W b x) (aff K W b r) yx yr
  | Act us :: n =>
      map ix us = x /\ map ir us = r /\ Forall unit_ok5 us /\
      chain5 n (map ox us) (map or_ us) yx yr
  | Pool _ _ _ :: _ => False
  end.

Theorem bw_is_rule tr : forall x r yx yr t,
  chain5 tr x r yx yr -> eqn (bw K tr t) (rule_bw K tr t).
Proof.
  induction tr as [|l tr IH]; intros x r yx yr t Hc; [intros i; reflexivity|].
  cbn [bw rule_bw].
  destruct l as [W b|us|wins vx vr]; cbn [chain5] in Hc.
  - destruct Hc as (HW & Hd & _ & _ & Hc). intros i.
    rewrite <- (rule_layer_ext (Affine W b) _ _ (IH _ _ _ _ t Hc) eq_refl).
    cbn [bw_layer rule_layer]. apply rule_affine_eqn. rewrite Hd. exact HW.
  - destruct Hc as (_ & _ & Hu & Hc). intros i.
    rewrite <- (rule_layer_ext (Act us) _ _ (IH _ _ _ _ t Hc) eq_refl).
    cbn [bw_layer rule_layer]. apply rule_act_eqn. exact Hu.
  - destruct Hc.
Qed.

Lemma veqb_eq5 a b : veqb K a b = true -> a = b.
Proof.
  unfold veqb. revert b; induction a as [|x a IH]; intros [|y b] H; cbn in H; try discriminate; [reflexivity|].
  apply andb_true_iff in H as [H1 H2]. f_equal; [apply feqb_eq; exact H1 | apply IH; exact H2].
Qed.

Lemma chain5b_ok net : forall x r yx yr, chain5b K net x r yx yr = true -> chain5 net x r yx yr.
Proof.
  induction net as [|l net IH]; intros x r yx yr H.
  - cbn in H. apply andb_true_iff in H as [H1 H2]. split; apply veqb_eq5; assumption.
  - destruct l as [W b|us|wins vx vr]; cbn [chain5b] in H; cbn [chain5]; [| |discriminate];
      repeat (apply andb_true_iff in H as [H ?]).
    + repeat split; try (apply Nat.eqb_eq; assumption); [|apply IH; assumption].
      apply Forall_forall. intros row Hr. rewrite forallb_forall in H. apply Nat.eqb_eq. apply H. exact Hr.
    + repeat split; try (apply veqb_eq5; assumption); [|apply IH; assumption].
      apply Forall_forall. intros u Hu.
      match goal with Hf : forallb (unit_ok5b K) us = true |- _ =>
        rewrite forallb_forall in Hf; specialize (Hf u Hu); rename Hf into Hq end.
      unfold unit_ok5b, below_lo in Hq. unfold unit_ok5.
      apply orb_true_iff in Hq as [Hq|Hq]; [left; exact Hq | right].
      destruct (small6 K (ix u -! ir u)); [discriminate | reflexivity].
Qed.

(* ---------------------------------------------------------------- projection formulas *)
Lemma grid_as_seq {T} (f : nat -> T) A L :
  map f (seq 0 (A * L)) = grid A L (fun k p => f (k * L + p)%nat).
Proof.
  unfold grid. induction A as [|A IH]; [reflexivity|].
  rewrite seq_S, flat_map_app, <- IH. cbn [flat_map plus]. rewrite app_nil_r.
  replace (S A * L)%nat with (A * L + L)%nat by lia.
  rewrite seq_app, map_app. f_equal.
  rewrite (seq_add_map K (0 + A * L)%nat), map_map. reflexivity.
Qed.

Lemma grid_ext {T} (f g : nat -> nat -> T) A L :
  (forall k p, (k < A)%nat -> (p < L)%nat -> f k p = g k p) -> grid A L f = grid A L g.
Proof.
  intros H. unfold grid. induction A as [|A IH]; [reflexivity|].
  rewrite seq_S, !flat_map_app. f_equal.
  - apply IH. intros; apply H; lia.
  - cbn [flat_map plus]. f_equal. apply map_ext_in. intros p Hp. apply in_seq in Hp. apply H; lia.
Qed.

Lemma nth_grid2 {T} (f : nat -> nat -> T) A L d k p : (k < A)%nat -> (p < L)%nat ->
  nth (k * L + p) (grid A L f) d = f k p.
Proof.
  intros Hk Hp. unfold grid.
  etransitivity; [apply (nth_grid K (fun k p => f k p) L d (seq 0 A) k p); rewrite ?seq_length; assumption|].
  rewrite seq_nth by exact Hk. reflexivity.
Qed.

Lemma map2_length_min {A B C} (f : A -> B -> C) l1 l2 : length l1 = length l2 -> length (map2 f l1 l2) = length l2.
Proof. intros H. rewrite map2_length by exact H. exact H. Qed.

Lemma hypothetical_formula A L ms refs : length ms = length refs ->
  hypothetical K A L ms refs = grid A L (hyp_entry K A L ms refs).
Proof.
  intros Hl. unfold hypothetical, vmean. rewrite grid_as_seq. apply grid_ext. intros k p Hk Hp.
  unfold hyp_entry. rewrite (map2_length_min _ _ _ Hl). f_equal.
  symmetry. etransitivity; [apply ksum_vsum|]. unfold map2. rewrite map_map.
  apply vsum_map_ext. intros [m ref] _. cbn [fst snd].
  etransitivity; [apply ksum_vsum|]. symmetry. apply nth_project; assumption.
Qed.

Lemma map2_seq {B C} (f : K -> B -> C) (x : list B) d : forall (F : nat -> K) n, length x = n ->
  map2 f (map F (seq 0 n)) x = map (fun i => f (F i) (nth i x d)) (seq 0 n).
Proof.
  induction x as [|a x IH]; intros F n Hn; cbn [length] in Hn; subst n; [reflexivity|].
  cbn [seq map]. rewrite <- seq_shift, !map_map, map2_cons. cbn [nth]. f_equal.
  apply (IH (fun i => F (S i))). reflexivity.
Qed.

Lemma attributions_formula A L x ms refs : length ms = length refs -> length x = (A * L)%nat ->
  attributions K A L x ms refs =
  grid A L (fun k p => hyp_entry K A L ms refs k p *! vnth x (k * L + p)).
Proof.
  intros Hl Hx. unfold attributions, mask.
  assert (E : hypothetical K A L ms refs =
              map (fun i => vnth (hypothetical K A L ms refs) i) (seq 0 (A * L))).
  { unfold hypothetical, vmean. apply map_ext_in. intros i Hi. apply in_seq in Hi.
    rewrite nth_map_seq by lia. reflexivity. }
  rewrite E, (map2_seq _ x zero _ _ Hx), grid_as_seq. apply grid_ext. intros k p Hk Hp.
  rewrite hypothetical_formula by exact Hl. rewrite nth_grid2 by assumption. reflexivity.
Qed.

(* ---------------------------------------------------------------- affine closed form *)
Lemma taff_onehot W n t i : Forall (fun row => length row = n) W -> (t < length W)%nat ->
  vnth (taff K W (onehot K (length W) t) n) i = vnth (nth t W []) i.
Proof.
  intros HW Ht. rewrite taff_nth by exact HW.
  rewrite (vsum_map_ext K _ (fun j => if (j =? t)%nat then vnth (nth j W []) i else zero)).
  - apply (vsum_delta_seq K Fth t (fun j => vnth (nth j W []) i)). lia.
  - intros j Hj. apply in_seq in Hj. unfold onehot. rewrite nth_map_seq by lia.
    destruct (j =? t)%nat; ring.
Qed.

Lemma nth_ohe A L s k p : (k < A)%nat -> (p < L)%nat ->
  vnth (ohe K A L s) (k * L + p) = if (nth p s O =? k)%nat then one else zero.
Proof.
  intros Hk Hp. unfold ohe.
  apply (nth_grid2 (fun c p => if (nth p s O =? c)%nat then one else zero) A L zero k p Hk Hp).
Qed.

Lemma one_neq_zero : one <> zero.
Proof. apply (F_1_neq_0 Fth). Qed.

(* for an affine model every pair has the multipliers wt = W[target]; at the observed character k
   of position p the attribution is the closed form (no bias anywhere) *)
Lemma closed_form A L s (wt : list K) refs ms k p :
  (k < A)%nat -> (p < L)%nat -> length ms = length refs -> fnat K (length refs) <> zero ->
  Forall (fun m => forall c, (c < A)%nat -> vnth m (c * L + p) = vnth wt (c * L + p)) ms ->
  vnth (ohe K A L s) (k * L + p) = one ->
  hyp_entry K A L ms refs k p *! vnth (ohe K A L s) (k * L + p) =
  closed_entry K A L wt (ohe K A L s) refs p.
Proof.
  intros Hk Hp Hl HN Hm H1. rewrite H1. unfold hyp_entry, closed_entry.
  assert (Es : nth p s O = k).
  { rewrite nth_ohe in H1 by assumption. destruct (Nat.eqb_spec (nth p s O) k); [assumption|].
    exfalso. apply one_neq_zero. symmetry. exact H1. }
  assert (E : ksum K (map (fun mr => ksum K (map (fun c => ((if (c =? k)%nat then one else zero) -! vnth (snd mr) (c * L + p))
                                                         *! vnth (fst mr) (c * L + p)) (seq 0 A))) (combine ms refs)) =
              ksum K (map (fun ref => ksum K (map (fun c => vnth wt (c * L + p) *!
                                                          (vnth (ohe K A L s) (c * L + p) -! vnth ref (c * L + p)))
                                                (seq 0 A))) refs)).
  { clear H1 HN. revert refs Hl. induction ms as [|m ms IH]; intros [|ref refs] Hl; cbn in Hl; try discriminate;
      [reflexivity|].
    inversion Hm as [|m0 ms0 Hm1 Hm2]; subst. cbn [combine map ksum fst snd]. rewrite (IH Hm2 refs) by lia. f_equal.
    etransitivity; [apply ksum_vsum|]. symmetry. etransitivity; [apply ksum_vsum|]. symmetry.
    apply vsum_map_ext. intros c Hc. apply in_seq in Hc.
    rewrite nth_ohe by lia. rewrite Hm1 by lia. rewrite Nat.eqb_sym.
    destruct (nth p s O =? c)%nat; ring. }
  rewrite E. field. exact HN.
Qed.

End Theory05.

(* ==================================================================== the Qc instance *)
Local Open Scope Qc_scope.

Lemma QcX_small_mono (d : QcX) : small7 QcX d = true -> small6 QcX d = true.
Proof.
  change (Qc_small eps7 d = true -> Qc_small eps6 d = true). unfold Qc_small. intros H.
  apply negb_true_iff. apply negb_true_iff in H.
  destruct (Qc_leb eps6 (Qcabs d)) eqn:E; [|reflexivity].
  apply Qc_leb_iff in E. assert (E7 : eps7 <= eps6) by (apply Qc_leb_iff; vm_compute; reflexivity).
  assert (X : Qc_leb eps7 (Qcabs d) = true) by (apply Qc_leb_iff; apply Qcle_trans with eps6; assumption).
  rewrite X in H. discriminate.
Qed.

Definition bw_is_rule_Qc := bw_is_rule QcX QcX_field QcX_small_mono Qc_eq_bool_correct.
Definition chain5b_ok_Qc := chain5b_ok QcX Qc_eq_bool_correct.
Definition hypothetical_formula_Qc := hypothetical_formula QcX.
Definition attributions_formula_Qc := attributions_formula QcX.
Definition closed_form_Qc := closed_form QcX QcX_field.
Definition taff_onehot_Qc := taff_onehot QcX QcX_field QcX_small_mono Qc_eq_bool_correct.

Lemma tol9_nonneg : 0 <= tol9.
Proof. unfold Qcle, Qle; cbn; lia. Qed.

Lemma vmag_nonneg v : 0 <= vmag v.
Proof.
  induction v as [|a v IH]; [apply Qc_0_le_1|]. cbn [vmag fold_right]. fold (vmag v).
  unfold qmax. destruct (Qc_leb (Qcabs a) (vmag v)); [exact IH | apply Qcabs_nonneg].
Qed.

Lemma vclose'_eqn n a b : (forall i, nth i a 0 = nth i b 0) -> vclose' n a b = true.
Proof.
  intros H. unfold vclose'. apply forallb_forall. intros i _. rewrite H.
  apply close_refl; [apply tol9_nonneg | apply vmag_nonneg].
Qed.

Lemma vclose'_refl n a : vclose' n a a = true.
Proof. apply vclose'_eqn. reflexivity. Qed.

Lemma list_eqb_sound {T} (eqb : T -> T -> bool) (H : forall a b, eqb a b = true -> a = b) :
  forall l1 l2, list_eqb eqb l1 l2 = true -> l1 = l2.
Proof.
  induction l1 as [|x l1 IH]; intros [|y l2] E; cbn in E; try discriminate; [reflexivity|].
  apply andb_true_iff in E as [E1 E2]. f_equal; [apply H; exact E1 | apply IH; exact E2].
Qed.

(* scope of the C05 theorem for one example: x is the one-hot encoding of a sequence, there is a
   reference, and every pair's trace is consistent and band-free (C04.Proofs.chain) *)
Definition scope_pair05 (e : ecall) (p : pair) : Prop :=
  let rr := run QcX (p_net p) (e_x e) (p_ref p) in
  chain5 QcX (fst rr) (e_x e) (p_ref p) (fst (snd rr)) (snd (snd rr)) /\
  length (fst (snd rr)) = e_nout e.
Definition scope05 (e : ecall) : Prop :=
  (exists s, e_x e = ohe QcX (e_A e) (e_L e) s) /\ length (e_x e) = e_n e /\
  e_pairs e <> [] /\ (e_target e < e_nout e)%nat /\ Forall (scope_pair05 e) (e_pairs e).

Lemma single_affine_nets e W : single_affine e = Some W ->
  forall p, In p (e_pairs e) -> exists b, p_net p = (NAffine W b :: nil).
Proof.
  unfold single_affine. destruct (e_pairs e) as [|p0 ps] eqn:Ep; [discriminate|].
  destruct (p_net p0) as [|[W0 b0|f|us|wins|wins vx vr] [|l2 rest]] eqn:En; try discriminate.
  destruct (forallb _ (p0 :: ps)) eqn:Ef; [|discriminate]. intros E; inversion E; subst W0.
  intros p Hp. rewrite forallb_forall in Ef. specialize (Ef p Hp).
  destruct (p_net p) as [|[W' b'|f|us|wins|wins vx vr] [|l2 rest]]; try discriminate.
  apply (list_eqb_sound _ (list_eqb_sound _ Qc_eq_bool_correct)) in Ef. subst W'. exists b'. reflexivity.
Qed.

Lemma ex05_on_model e : scope05 e -> ex_ok05 false e (model_ex false e) = true.
Proof.
  intros ((s & Hs) & Hx & Hne & Ht & Hp). rewrite Forall_forall in Hp.
  unfold ex_ok05, model_ex. cbv zeta. cbn [o_mult o_hyp o_attr]. change (QcO false) with QcX.
  destruct (existsb (fun p => has_pool QcX (trace_of false e p)) (e_pairs e)) eqn:Epool; [reflexivity|].
  assert (Hnp : forall p, In p (e_pairs e) -> has_pool QcX (trace_of false e p) = false).
  { intros p Hin. destruct (has_pool QcX (trace_of false e p)) eqn:E; [|reflexivity].
    assert (X : existsb (fun p => has_pool QcX (trace_of false e p)) (e_pairs e) = true)
      by (apply existsb_exists; exists p; split; assumption).
    rewrite X in Epool. discriminate. }
  set (ms := map (fun p => fst (pair_ev false e p)) (e_pairs e)).
  set (refs := map p_ref (e_pairs e)).
  assert (Hl : length ms = length refs) by (unfold ms, refs; rewrite !map_length; reflexivity).
  fold ms. fold refs.
  apply andb_true_iff; split; [apply andb_true_iff; split; [apply andb_true_iff; split|]|].
  - (* multipliers = pointwise rescale-rule evaluation *)
    unfold ms. apply all2_map_r. intros p Hin. apply vclose'_eqn.
    destruct (Hp p Hin) as [Hc _].
    exact (bw_is_rule_Qc _ _ _ _ _ (onehot QcX (e_nout e) (e_target e)) Hc).
  - rewrite (hypothetical_formula_Qc (e_A e) (e_L e) ms refs Hl). apply vclose'_refl.
  - rewrite (attributions_formula_Qc (e_A e) (e_L e) (e_x e) ms refs Hl Hx). apply vclose'_refl.
  - destruct (single_affine e) as [W|] eqn:Esa; [|reflexivity].
    apply forallb_forall. intros k Hk. apply in_seq in Hk.
    apply forallb_forall. intros p Hpp. apply in_seq in Hpp.
    destruct (Qc_eq_bool (nth (k * e_L e + p) (e_x e) 0) 1) eqn:E1; [|reflexivity].
    apply Qc_eq_bool_correct in E1.
    apply close_eq; [| apply tol9_nonneg | apply vmag_nonneg].
    rewrite (attributions_formula_Qc (e_A e) (e_L e) (e_x e) ms refs Hl Hx).
    rewrite (nth_grid2 QcX) by lia.
    rewrite Hs in E1 |- *.
    apply closed_form_Qc; try lia; try assumption.
    + unfold refs. rewrite map_length. apply fnat_nonzero. destruct (e_pairs e); [congruence | cbn; lia].
    + unfold ms. apply Forall_forall. intros m Hm. apply in_map_iff in Hm as (p' & <- & Hin).
      destruct (single_affine_nets e W Esa p' Hin) as [b Hnet].
      destruct (Hp p' Hin) as [Hc Hlen]. cbv zeta in Hc, Hlen.
      unfold pair_ev, pair_eval. cbn [fst]. change (QcO false) with QcX.
      revert Hc Hlen. rewrite Hnet. cbn [run fst snd]. intros Hc Hlen.
      destruct Hc as (HW & Hd & _ & Hb & (Hyx & _)).
      intros c Hc. cbn [bw bw_layer].
      assert (Hn : e_nout e = length W).
      { rewrite <- Hlen. unfold aff. rewrite map2_length by (symmetry; exact Hb). reflexivity. }
      rewrite Hn, Hd. apply taff_onehot_Qc; [exact HW | rewrite Hn in Ht; exact Ht].
Qed.

Theorem spec05_on_model exs :
  Forall scope05 exs -> spec_ok05 (C false exs) (model (C false exs)) = true.
Proof.
  intros H. rewrite Forall_forall in H. unfold spec_ok05, model. cbn [c_ex c_rounded].
  apply all2_map_r. intros e Hin. apply ex05_on_model. apply H. exact Hin.
Qed.

(* ---- decidable scope *)
Lemma scope05b_ok e : scope05b e = true -> scope05 e.
Proof.
  unfold scope05b, scope05. intros H.
  apply andb_true_iff in H as [H H5]. apply andb_true_iff in H as [H H4].
  apply andb_true_iff in H as [H H3]. apply andb_true_iff in H as [H1 H2].
  apply (list_eqb_sound _ Qc_eq_bool_correct) in H1. apply Nat.eqb_eq in H2. apply Nat.ltb_lt in H4.
  rewrite forallb_forall in H5.
  split; [eexists; exact H1|]. split; [exact H2|].
  split; [intros E; rewrite E in H3; discriminate|]. split; [exact H4|].
  apply Forall_forall. intros p Hp. specialize (H5 p Hp). unfold scope_pair05b in H5. unfold scope_pair05.
  cbv zeta in *. apply andb_true_iff in H5 as [G1 G2]. apply Nat.eqb_eq in G2. apply chain5b_ok_Qc in G1.
  split; assumption.
Qed.

Theorem spec05_on_model_b exs :
  forallb scope05b exs = true -> spec_ok05 (C false exs) (model (C false exs)) = true.
Proof.
  intros H. apply spec05_on_model. apply Forall_forall. intros e He. apply scope05b_ok.
  rewrite forallb_forall in H. apply H. exact He.
Qed.
