(* C05 shares the model of C04: the rescale-rule backward pass [bw], the projection, the mean
   over references and the mask are defined once, in coq/C04/Model.v (executable, no proofs). *)
From TM Require Export C04.Model.
