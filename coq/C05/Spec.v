(* C05 spec: "The multipliers and attributions returned by deep_lift_shap equal those obtained by
   an independent layer-by-layer evaluation of the DeepLIFT rescale rule: an element-wise
   activation multiplies the incoming multiplier by (out(x)-out(ref))/(in(x)-in(ref)) (its
   ordinary derivative where the inputs coincide) and linear layers propagate multipliers through
   their transpose.  In particular, for an affine model the attribution of the observed character
   at each position is exactly sum_c W[c,pos]*(x-ref)[c,pos] averaged over references, independent
   of the bias, and hypothetical=True returns for every character k the value
   sum_c (e_k - ref)[c]*m[c] at each position."

   The evaluation below is written pointwise (entry i of the transposed product as a sum over the
   output units; entry j of an activation layer as multiplier times ratio) and does not use the
   model's backward pass (C04.Model.bw: vector additions along the rows, zip-with).  The forward
   values it needs are those of the trace (recorded values in co-simulation mode).  Max-pooling is
   outside C05 (its quantifier is over linear/conv/avg-pool layers and element-wise activations):
   the spec is silent (true) on traces that contain one. *)
From Coq Require Import QArith Qcanon Qcabs.
From TM Require Import Base.Prelude Base.PyList C04.Model C04.Spec.

Section Rule.
Variable K : ops.
Local Notation "a +! b" := (fadd K a b) (at level 50, left associativity).
Local Notation "a -! b" := (fsub K a b) (at level 50, left associativity).
Local Notation "a *! b" := (fmul K a b) (at level 40, left associativity).
Local Notation "a /! b" := (fdiv K a b) (at level 40, left associativity).
Local Notation zero := (f0 K).
Local Notation one := (f1 K).

Fixpoint ksum (l : list K) : K := match l with [] => zero | a :: l' => a +! ksum l' end.

(* linear layers propagate multipliers through their transpose: m_in[i] = sum_j W[j][i] * m_out[j] *)
Definition rule_affine (W : list (list K)) (n : nat) (m : list K) : list K :=
  map (fun i => ksum (map (fun j => nth i (nth j W []) zero *! nth j m zero) (seq 0 (length W))))
      (seq 0 n).

(* (out(x)-out(ref))/(in(x)-in(ref)), the ordinary derivative where the inputs coincide.
   "Coincide" is decided one decade BELOW the code's 1e-6 switch: |delta_in| < lo = 1e-7 (numerically
   the test [small7]) demands the ordinary derivative - this includes inputs that differ only by
   rounding noise (1e-19) and near-coincident inputs on the two sides of a kink (1e-8 .. 1e-12) -
   and everything else demands the secant slope.  The band lo <= |delta_in| <= hi = 1e-5 around the
   switch is excluded by the property's quantifier: the harness does not judge such cases.
   [dg u] is the derivative at the EXAMPLE's input: _nonlinear returns grad_input[0] of the
   concatenated batch, i.e. each half's own ordinary gradient, and deep_lift_shap differentiates
   with respect to the example half only. *)
Definition below_lo (d : K) : bool := small7 K d.
Definition ratio (u : urec K) : K :=
  if below_lo (ix u -! ir u) then dg u else (ox u -! or_ u) /! (ix u -! ir u).

(* decidable scope of the C05 theorem for one trace: it is the forward pass of the pair, contains no
   max-pool, and no unit sits between lo and the code's switch (|delta_in| < lo or >= 1e-6; the
   harness excludes up to hi = 1e-5 because the implementation computes delta_in in floating point) *)
Definition unit_ok5b (u : urec K) : bool :=
  below_lo (ix u -! ir u) || negb (small6 K (ix u -! ir u)).
Fixpoint chain5b (net : list (layer K)) (x r yx yr : list K) : bool :=
  match net with
  | [] => veqb K yx x && veqb K yr r
  | Affine W b :: n =>
      forallb (fun row => (length row =? length x)%nat) W && (in_dim K W =? length x)%nat &&
      (length x =? length r)%nat && (length b =? length W)%nat &&
      chain5b n (aff K W b x) (aff K W b r) yx yr
  | Act us :: n =>
      veqb K (map ix us) x && veqb K (map ir us) r && forallb unit_ok5b us &&
      chain5b n (map ox us) (map or_ us) yx yr
  | Pool _ _ _ :: _ => false
  end.
Definition u0 : urec K := U zero zero zero zero zero.
Definition rule_act (us : list (urec K)) (m : list K) : list K :=
  map (fun j => nth j m zero *! ratio (nth j us u0)) (seq 0 (length us)).

Definition rule_layer (l : layer K) (m : list K) : list K :=
  match l with
  | Affine W _ => rule_affine W (in_dim K W) m
  | Act us => rule_act us m
  | Pool _ _ _ => m          (* not in C05's scope, see has_pool *)
  end.
Fixpoint rule_bw (tr : list (layer K)) (t : list K) : list K :=
  match tr with [] => t | l :: n => rule_layer l (rule_bw n t) end.

Definition has_pool (tr : list (layer K)) : bool :=
  existsb (fun l => match l with Pool _ _ _ => true | _ => false end) tr.

(* hypothetical=True: for every character k and position p, sum_c (e_k - ref)[c,p] * m[c,p],
   averaged over the references; ms are the raw multipliers *)
Definition hyp_entry (A L : nat) (ms refs : list (list K)) (k p : nat) : K :=
  ksum (map (fun mr => ksum (map (fun c => ((if (c =? k)%nat then one else zero) -! nth (c * L + p) (snd mr) zero)
                                           *! nth (c * L + p) (fst mr) zero) (seq 0 A)))
            (combine ms refs)) /! fnat K (length refs).

(* affine model y = W x + b: sum_c W[target][c,pos] * (x - ref)[c,pos], averaged over the references *)
Definition closed_entry (A L : nat) (wt x : list K) (refs : list (list K)) (p : nat) : K :=
  ksum (map (fun ref => ksum (map (fun c => nth (c * L + p) wt zero *!
                                            (nth (c * L + p) x zero -! nth (c * L + p) ref zero)) (seq 0 A)))
            refs) /! fnat K (length refs).
End Rule.

Local Open Scope Qc_scope.

(* like C04.Spec.vclose but about the first n entries only (the shape is the harness's business) *)
Definition vclose' (n : nat) (a b : list Qc) : bool :=
  let s := vmag b in forallb (fun i => close tol9 (nth i a 0) (nth i b 0) s) (seq 0 n).

Definition trace_of (rounded : bool) (e : ecall) (p : pair) : list (layer Qc) :=
  fst (run (QcO rounded) (p_net p) (e_x e) (p_ref p)).

Definition grid {T} (A L : nat) (f : nat -> nat -> T) : list T :=
  flat_map (fun k => map (fun p => f k p) (seq 0 L)) (seq 0 A).

Definition single_affine (e : ecall) : option (list (list Qc)) :=
  match e_pairs e with
  | [] => None
  | p :: _ => match p_net p with
              | NAffine W _ :: nil =>
                  if forallb (fun p' => match p_net p' with
                                        | NAffine W' _ :: nil => list_eqb (list_eqb Qc_eq_bool) W W'
                                        | _ => false end) (e_pairs e)
                  then Some W else None
              | _ => None
              end
  end.

Definition ex_ok05 (rounded : bool) (e : ecall) (o : eout) : bool :=
  let K := QcO rounded in
  if existsb (fun p => has_pool K (trace_of rounded e p)) (e_pairs e) then true
  else
    let A := e_A e in let L := e_L e in let n := e_n e in
    let refs := map p_ref (e_pairs e) in
    (* the multipliers are the rescale-rule evaluation *)
    all2 (fun p m => vclose' n m (rule_bw K (trace_of rounded e p) (onehot K (e_nout e) (e_target e))))
         (e_pairs e) (o_mult o) &&
    (* hypothetical attributions from the returned multipliers *)
    vclose' n (o_hyp o) (grid A L (hyp_entry K A L (o_mult o) refs)) &&
    (* the attribution of the observed character (and nothing elsewhere) *)
    vclose' n (o_attr o) (grid A L (fun k p => fmul K (hyp_entry K A L (o_mult o) refs k p)
                                                      (nth (k * L + p) (e_x e) 0))) &&
    (* affine model: closed form, no bias in it *)
    match single_affine e with
    | Some W =>
        let wt := nth (e_target e) W [] in
        let s := vmag (grid A L (fun k p => closed_entry K A L wt (e_x e) refs p)) in
        forallb (fun k => forallb (fun p =>
                   if Qc_eq_bool (nth (k * L + p) (e_x e) 0) 1
                   then close tol9 (nth (k * L + p) (o_attr o) 0) (closed_entry K A L wt (e_x e) refs p) s
                   else true) (seq 0 L)) (seq 0 A)
    | None => true
    end.

Definition spec_ok05 (c : call) (o : outcome) : bool :=
  match o with
  | Err => false
  | Ok (outs, _) => all2 (ex_ok05 (c_rounded c)) (c_ex c) outs
  end.

(* decidable form of the theorem's scope (Proofs.scope05), evaluated on every exact-mode case *)
Definition decode (A L : nat) (x : list Qc) : list nat :=
  map (fun p => hd O (filter (fun k => Qc_eq_bool (nth (k * L + p) x 0) 1) (seq 0 A))) (seq 0 L).
Definition scope_pair05b (e : ecall) (p : pair) : bool :=
  let rr := run QcX (p_net p) (e_x e) (p_ref p) in
  chain5b QcX (fst rr) (e_x e) (p_ref p) (fst (snd rr)) (snd (snd rr)) &&
  (length (fst (snd rr)) =? e_nout e)%nat.
Definition scope05b (e : ecall) : bool :=
  list_eqb Qc_eq_bool (e_x e) (ohe QcX (e_A e) (e_L e) (decode (e_A e) (e_L e) (e_x e))) &&
  (length (e_x e) =? e_n e)%nat && negb (length (e_pairs e) =? 0)%nat &&
  (e_target e <? e_nout e)%nat && forallb (scope_pair05b e) (e_pairs e).

(* the model is C04's: backward pass, projection, mean, mask *)
Definition check_case05 (c : case) : nat :=
  let '(cl, o, skip) := c in
  if skip then 0%nat
  else verdict (outcome_close cl o (model cl) && (c_rounded cl || forallb scope05b (c_ex cl)))
               (spec_ok05 cl o).
