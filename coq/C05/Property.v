(* C05 - property theorems only.  Each is closed by [exact] of a lemma from Proofs.v. *)
From Coq Require Import QArith Qcanon.
From TM Require Import Base.Prelude Base.PyList C04.Model C04.Spec C04.Proofs C05.Spec C05.Proofs.

(* For every batch of examples, every network of affine and element-wise layers, every reference
   set and target inside the scope (x is the one-hot encoding of a sequence, at least one
   reference, every trace the forward pass of its pair with no unit between 1e-7 and the 1e-6 switch): the model's outcome - C04.Model.bw, projection, mean,
   mask - satisfies the C05 spec: its multipliers are, entry by entry, the pointwise rescale-rule
   evaluation; hypothetical attributions are sum_c (e_k - ref)[c] * m[c] averaged over the
   references; the attribution is that value times x; and for an affine model the attribution of
   the observed character is sum_c W[target][c,pos] * (x - ref)[c,pos] averaged (no bias). *)
Theorem c05_rescale_rule : forall exs,
  Forall scope05 exs -> spec_ok05 (C false exs) (model (C false exs)) = true.
Proof. exact spec05_on_model. Qed.
Print Assumptions c05_rescale_rule.

Theorem c05_rescale_rule_checked : forall exs,
  forallb scope05b exs = true -> spec_ok05 (C false exs) (model (C false exs)) = true.
Proof. exact spec05_on_model_b. Qed.
Print Assumptions c05_rescale_rule_checked.

(* the statement behind it over any field: bw = pointwise rule on every trace in scope (chain5: forward
   pass of the pair, no max-pool, no unit between lo = 1e-7 and the code's 1e-6 switch); it needs that
   the spec's "coincide" test lies below the code's switch *)
Theorem c05_bw_is_rule : forall K : ops,
  Field_theory.field_theory (f0 K) (f1 K) (fadd K) (fmul K) (fsub K) (fopp K) (fdiv K) (finv K) eq ->
  (forall d : K, small7 K d = true -> small6 K d = true) ->
  (forall a b : K, feqb K a b = true -> a = b) ->
  forall (tr : list (layer K)) (x r yx yr t : list K),
  chain5 K tr x r yx yr ->
  forall i, nth i (bw K tr t) (f0 K) = nth i (rule_bw K tr t) (f0 K).
Proof. exact bw_is_rule. Qed.
Print Assumptions c05_bw_is_rule.

(* hypothetical_formula: what hypothetical=True returns *)
Theorem c05_hypothetical_formula : forall (K : ops) (A L : nat) (ms refs : list (list K)),
  length ms = length refs -> hypothetical K A L ms refs = grid A L (hyp_entry K A L ms refs).
Proof. exact hypothetical_formula. Qed.
Print Assumptions c05_hypothetical_formula.

(* affine_closed_form: multipliers that agree with the row wt = W[target] at position p give, at
   the observed character k, the closed form; the bias does not occur *)
Theorem c05_affine_closed_form : forall K : ops,
  Field_theory.field_theory (f0 K) (f1 K) (fadd K) (fmul K) (fsub K) (fopp K) (fdiv K) (finv K) eq ->
  forall (A L : nat) (s : list nat) (wt : list K) (refs ms : list (list K)) (k p : nat),
  (k < A)%nat -> (p < L)%nat -> length ms = length refs -> fnat K (length refs) <> f0 K ->
  Forall (fun m => forall c, (c < A)%nat -> nth (c * L + p) m (f0 K) = nth (c * L + p) wt (f0 K)) ms ->
  nth (k * L + p) (ohe K A L s) (f0 K) = f1 K ->
  fmul K (hyp_entry K A L ms refs k p) (nth (k * L + p) (ohe K A L s) (f0 K)) =
  closed_entry K A L wt (ohe K A L s) refs p.
Proof. exact closed_form. Qed.
Print Assumptions c05_affine_closed_form.

(* the hypotheses are satisfiable: an affine model and a ReLU model on a (2, 3) input *)
Definition i1 : Qc := dy 1 0.
Definition a_net : list (nlayer Qc) :=
  [NAffine [[dy 3 0; dy (-1) 0; dy 2 0; z0; dy 5 0; dy (-2) 0]] [dy 7 0]].
Definition r_net : list (nlayer Qc) :=
  [NAffine [[i1; dy (-1) 0; z0; dy 2 0; z0; i1]; [z0; i1; i1; dy (-1) 0; i1; z0]] [z0; dy (-1) 0];
   NActF (Leaky (dy 1 2));
   NAffine [[i1; dy (-3) 0]] [i1]].
Definition ex_calls : list ecall :=
  [E 2 3 1 0 [i1; z0; z0;  z0; i1; i1] [P [z0; i1; z0;  i1; z0; i1] a_net z0 z0;
                                          P [z0; z0; i1;  i1; i1; z0] a_net z0 z0];
   E 2 3 1 0 [i1; z0; z0;  z0; i1; i1] [P [z0; i1; z0;  i1; z0; i1] r_net z0 z0]].
(* a unit whose two pre-activations are +2^-40 and -2^-41 (|delta_in| ~ 1.4e-12): the derivative 1 is
   demanded, not the secant 2/3 *)
Definition n_net : list (nlayer Qc) :=
  [NAffine [[dy 1 40; dy (-1) 41; z0; z0]] [z0]; NActF ReLU; NAffine [[dy 3 0]] [z0]].
Definition near_calls : list ecall :=
  [E 2 2 1 0 [i1; z0;  z0; i1] [P [z0; i1;  i1; z0] n_net z0 z0]].
Example c05_near_kink :
  forallb scope05b near_calls = true /\
  map (fun o => o_mult o) (match model (C false near_calls) with Ok (l, _) => l | Err => [] end) =
  [[[dy 3 40; dy (-3) 41; z0; z0]]].
Proof. split; vm_compute; reflexivity. Qed.

Example c05_scope_inhabited :
  forallb scope05b ex_calls = true /\ spec_ok05 (C false ex_calls) (model (C false ex_calls)) = true.
Proof. split; vm_compute; reflexivity. Qed.
