(* C04/C05 model: tangermeme.deep_lift_shap (hooks + rescale rules + projection), after the
   fix: commits 73d3caa (scatter-add in the max-pool rule) and 87dbf04 (both halves weighted
   by the example half's multipliers).  Executable, total; no proofs here.

   Everything is written over a record [ops] of field operations plus the three tests the
   code performs on numbers (<=, |d| < 1e-6, |d| < 1e-7).  Proofs.v assumes a field theory
   and a total order for them; [QcX] (exact rationals) and [QcR] (rationals with the
   division rounded to 160 significant bits, used only to keep the co-simulated cases fast)
   are the two instances that coqc evaluates.

   A network acts on flat vectors (a (C, L) tensor is flattened row-major, index c*L+p):
     Affine W b     Conv1d / Linear / AvgPool1d / Flatten (any composition of them): y = W x + b
     Act us         an element-wise non-linearity registered in _NON_LINEAR_OPS with rule
                    _nonlinear; [us] holds, per unit, what the forward hooks captured for the
                    (example, reference) pair: module.input and module.output of both halves,
                    and the ordinary derivative at the example's input (what autograd puts in
                    grad_input[0])
     Pool wins vx vr   MaxPool1d (rule _maxpool): window j reads the input indices [nth j wins]
                    (padding positions are simply absent); vx / vr = module.input of the halves *)
From Coq Require Import QArith Qcanon Qcabs.
From TM Require Import Base.Prelude Base.PyList.

Record ops := mkops {
  F :> Type;
  f0 : F; f1 : F;
  fadd : F -> F -> F; fmul : F -> F -> F; fsub : F -> F -> F; fopp : F -> F;
  fdiv : F -> F -> F; finv : F -> F;
  feqb : F -> F -> bool;          (* a == b *)
  fleb : F -> F -> bool;          (* a <= b *)
  small6 : F -> bool;             (* torch.abs(d) < 1e-6   (_nonlinear) *)
  small7 : F -> bool              (* torch.abs(d) < 1e-7   (_maxpool)   *)
}.

(* data types, parametric in the carrier only (so that cases evaluate under either instance) *)
Record urec (T : Type) := U { ix : T; ir : T; ox : T; or_ : T; dg : T }.
Arguments U {T}. Arguments ix {T}. Arguments ir {T}. Arguments ox {T}. Arguments or_ {T}. Arguments dg {T}.

Inductive layer (T : Type) :=
| Affine (W : list (list T)) (b : list T)
| Act (us : list (urec T))
| Pool (wins : list (list nat)) (vx vr : list T).
Arguments Affine {T}. Arguments Act {T}. Arguments Pool {T}.

Inductive actfn (T : Type) :=
| ReLU | ReLU6 | Leaky (slope : T) | Shrink (lambda : T).
Arguments ReLU {T}. Arguments ReLU6 {T}. Arguments Leaky {T}. Arguments Shrink {T}.

(* a network description: either to be evaluated forward by the model (NAffine / NActF / NPool)
   or carrying what the harness's own forward hooks recorded (NActRec / NPoolRec) *)
Inductive nlayer (T : Type) :=
| NAffine (W : list (list T)) (b : list T)
| NActF (f : actfn T)
| NActRec (us : list (urec T))
| NPool (wins : list (list nat))
| NPoolRec (wins : list (list nat)) (vx vr : list T).
Arguments NAffine {T}. Arguments NActF {T}. Arguments NActRec {T}. Arguments NPool {T}.
Arguments NPoolRec {T}.

Section Model.
Variable K : ops.
Local Notation "a +! b" := (fadd K a b) (at level 50, left associativity).
Local Notation "a -! b" := (fsub K a b) (at level 50, left associativity).
Local Notation "a *! b" := (fmul K a b) (at level 40, left associativity).
Local Notation "a /! b" := (fdiv K a b) (at level 40, left associativity).
Local Notation zero := (f0 K).
Local Notation one := (f1 K).

(* ---- vectors *)
Fixpoint vsum (l : list K) : K := match l with [] => zero | a :: l' => a +! vsum l' end.
Fixpoint dot (a b : list K) : K :=
  match a, b with x :: a', y :: b' => x *! y +! dot a' b' | _, _ => zero end.
Definition vadd (a b : list K) : list K := map2 (fadd K) a b.
Definition vsub (a b : list K) : list K := map2 (fsub K) a b.
Definition vscale (c : K) (a : list K) : list K := map (fmul K c) a.
Definition zeros (n : nat) : list K := repeat zero n.
Fixpoint fnat (n : nat) : K := match n with O => zero | S n' => one +! fnat n' end.
Definition onehot (n t : nat) : list K := map (fun i => if (i =? t)%nat then one else zero) (seq 0 n).

(* ---- affine layers: forward W x + b, backward W^T m (torch's own autograd; no hook) *)
Definition aff (W : list (list K)) (b x : list K) : list K :=
  map2 (fun row bi => dot row x +! bi) W b.
Fixpoint taff (W : list (list K)) (m : list K) (n : nat) : list K :=
  match W, m with
  | row :: W', mj :: m' => vadd (vscale mj row) (taff W' m' n)
  | _, _ => zeros n
  end.

(* ---- _nonlinear: grad_output * (delta_out / delta_in), plain gradient where |delta_in| < 1e-6 *)
Definition rescale (u : urec K) (m : K) : K :=
  let din := ix u -! ir u in
  if small6 K din then m *! dg u else m *! ((ox u -! or_ u) /! din).

(* ---- _maxpool *)
(* F.max_pool1d(..., return_indices=True): first maximum of the window *)
Fixpoint amax_from (v : list K) (best : nat) (w : list nat) : nat :=
  match w with
  | [] => best
  | i :: w' => if fleb K (nth i v zero) (nth best v zero) then amax_from v best w'
               else amax_from v i w'
  end.
Definition amax (v : list K) (w : list nat) : nat :=
  match w with [] => O | i :: w' => amax_from v i w' end.
Definition pmax (v : list K) (w : list nat) : K := nth (amax v w) v zero.
Definition pool (wins : list (list nat)) (v : list K) : list K := map (pmax v) wins.
Definition fmax (a b : K) : K := if fleb K a b then b else a.       (* torch.max(a, b) *)

(* entry i of  zeros.scatter_add_(indices = key(window), src = val(window, m))  *)
Definition scat (key : list nat -> nat) (val : list nat -> K -> K)
           (wins : list (list nat)) (m : list K) (i : nat) : K :=
  vsum (map2 (fun w mj => if (key w =? i)%nat then val w mj else zero) wins m).
(* the same entry under F.max_unpool1d (pre-73d3caa): the last write wins *)
Definition scat_last (key : list nat -> nat) (val : list nat -> K -> K)
           (wins : list (list nat)) (m : list K) (i : nat) : K :=
  fold_left (fun acc wm => if (key (fst wm) =? i)%nat then val (fst wm) (snd wm) else acc)
            (combine wins m) zero.

(* delta_out of the two halves: xmax - output_ref  and  output - xmax *)
Definition dpos (vx vr : list K) (w : list nat) : K := fmax (pmax vx w) (pmax vr w) -! pmax vr w.
Definition dneg (vx vr : list K) (w : list nat) : K := pmax vx w -! fmax (pmax vx w) (pmax vr w).

Definition pool_bw_gen (sc : (list nat -> nat) -> (list nat -> K -> K) -> list (list nat) -> list K -> nat -> K)
           (wins : list (list nat)) (vx vr : list K) (mx mr : list K) (grad : nat -> K) : list K :=
  map (fun i =>
         let d := nth i vx zero -! nth i vr zero in
         if small7 K d then grad i
         else (sc (amax vx) (fun w mj => mj *! dpos vx vr w) wins mx i +!
               sc (amax vr) (fun w mj => mj *! dneg vx vr w) wins mr i) /! d)
      (seq 0 (length vx)).

(* the code as it is: accumulate, example-half multipliers on both halves; the fallback is the
   ordinary gradient of max-pool on the example half *)
Definition pool_bw (wins : list (list nat)) (vx vr m : list K) : list K :=
  pool_bw_gen scat wins vx vr m m (scat (amax vx) (fun _ mj => mj) wins m).


Definition in_dim (W : list (list K)) : nat := length (hd [] W).

Definition bw_layer (l : layer K) (m : list K) : list K :=
  match l with
  | Affine W _ => taff W m (in_dim W)
  | Act us => map2 rescale us m
  | Pool wins vx vr => pool_bw wins vx vr m
  end.

(* multipliers at the input, given the multipliers [t] at the output (torch.autograd.grad of
   y[:, target].sum() w.r.t. the example half: t = e_target) *)
Fixpoint bw (net : list (layer K)) (t : list K) : list K :=
  match net with [] => t | l :: n => bw_layer l (bw n t) end.

(* ---- pre-fix behaviour (v0): the gradient carries both halves of the batch; the max-pool
   rule weights the reference half's delta_out by the reference half's incoming gradient
   ([share] = false, before 87dbf04) and un-pools with overwrite ([accum] = false, before
   73d3caa) *)
Definition bw_layer2 (accum share : bool) (l : layer K) (mm : list K * list K) : list K * list K :=
  let '(mx, mr) := mm in
  match l with
  | Affine W _ => (taff W mx (in_dim W), taff W mr (in_dim W))
  | Act us => (map2 rescale us mx, map2 rescale us mr)
  | Pool wins vx vr =>
      let sc := if accum then scat else scat_last in
      let gr := if share then mx else mr in
      (pool_bw_gen sc wins vx vr mx gr (scat (amax vx) (fun _ mj => mj) wins mx),
       pool_bw_gen sc wins vx vr mx gr (scat (amax vr) (fun _ mj => mj) wins mr))
  end.
Fixpoint bw2 (accum share : bool) (net : list (layer K)) (t : list K) : list K * list K :=
  match net with [] => (t, t) | l :: n => bw_layer2 accum share l (bw2 accum share n t) end.

(* ---- hypothetical_attributions, the mask and the mean over references.
   m, ref, x are (A, L) tensors flattened row-major. *)
Definition project (A L : nat) (m ref : list K) : list K :=
  flat_map (fun k =>
    map (fun p => vsum (map (fun c => ((if (c =? k)%nat then one else zero) -! nth (c * L + p) ref zero)
                                      *! nth (c * L + p) m zero) (seq 0 A)))
        (seq 0 L)) (seq 0 A).
(* torch.stack(attr_[:n_shuffles]).mean(dim=0) *)
Definition vmean (n : nat) (vs : list (list K)) : list K :=
  map (fun i => vsum (map (fun v => nth i v zero) vs) /! fnat (length vs)) (seq 0 n).
Definition mask (a x : list K) : list K := map2 (fmul K) a x.

(* one-hot encoding of a sequence of character indices as a flattened (A, L) tensor *)
Definition ohe (A L : nat) (s : list nat) : list K :=
  flat_map (fun c => map (fun p => if (nth p s O =? c)%nat then one else zero) (seq 0 L)) (seq 0 A).

(* lines 448-467 of deep_lift_shap: project every pair, average over the references, mask *)
Definition hypothetical (A L : nat) (ms refs : list (list K)) : list K :=
  vmean (A * L) (map2 (project A L) ms refs).
Definition attributions (A L : nat) (x : list K) (ms refs : list (list K)) : list K :=
  mask (hypothetical A L ms refs) x.

(* ---- forward evaluation (exact mode): piecewise-linear activations *)
Definition fltb (a b : K) : bool := negb (fleb K b a).
Definition six : K := one +! one +! one +! one +! one +! one.
Definition act_eval (f : actfn K) (a : K) : K :=
  match f with
  | ReLU => if fltb zero a then a else zero
  | ReLU6 => if fltb zero a then (if fltb a six then a else six) else zero
  | Leaky s => if fltb zero a then a else s *! a
  | Shrink l => if fltb l a then a -! l else if fltb a (zero -! l) then a +! l else zero
  end.
(* torch's derivative formulas (threshold_backward, hardtanh_backward, leaky_relu_backward,
   softshrink_backward) *)
Definition act_deriv (f : actfn K) (a : K) : K :=
  match f with
  | ReLU => if fltb zero a then one else zero
  | ReLU6 => if fltb zero a && fltb a six then one else zero
  | Leaky s => if fltb zero a then one else s
  | Shrink l => if fltb l a || fltb a (zero -! l) then one else zero
  end.
Definition mk_urec (f : actfn K) (a b : K) : urec K :=
  U a b (act_eval f a) (act_eval f b) (act_deriv f a).


(* the trace of an (example, reference) pair and the two outputs *)
Fixpoint run (net : list (nlayer K)) (x r : list K) : list (layer K) * (list K * list K) :=
  match net with
  | [] => ([], (x, r))
  | NAffine W b :: n => let '(t, o) := run n (aff W b x) (aff W b r) in (Affine W b :: t, o)
  | NActF f :: n => let us := map2 (mk_urec f) x r in
                    let '(t, o) := run n (map ox us) (map or_ us) in (Act us :: t, o)
  | NActRec us :: n => let '(t, o) := run n (map ox us) (map or_ us) in (Act us :: t, o)
  | NPool wins :: n => let '(t, o) := run n (pool wins x) (pool wins r) in (Pool wins x r :: t, o)
  | NPoolRec wins vx vr :: n =>
      let '(t, o) := run n (pool wins vx) (pool wins vr) in (Pool wins vx vr :: t, o)
  end.

(* ---- decidable version of the hypotheses of the completeness theorem (Proofs.chain): the trace
   is the forward pass of (x, r), every recorded unit is functional and outside the switch bands *)
Definition veqb (a b : list K) : bool := list_eqb (feqb K) a b.
Definition unit_okb (u : urec K) : bool :=
  (negb (feqb K (ix u) (ir u)) || feqb K (ox u) (or_ u)) &&
  (negb (small6 K (ix u -! ir u)) || feqb K (ix u) (ir u)).
Definition wins_okb (n : nat) (wins : list (list nat)) : bool :=
  forallb (fun w => match w with [] => false | _ => forallb (fun i => (i <? n)%nat) w end) wins.
Definition band7_okb (x r : list K) : bool :=
  forallb (fun i => negb (small7 K (nth i x zero -! nth i r zero)) || feqb K (nth i x zero) (nth i r zero))
          (seq 0 (length x)).
Fixpoint chainb (net : list (layer K)) (x r yx yr : list K) : bool :=
  match net with
  | [] => veqb yx x && veqb yr r
  | Affine W b :: n =>
      forallb (fun row => (length row =? length x)%nat) W && (in_dim W =? length x)%nat &&
      (length x =? length r)%nat && (length b =? length W)%nat &&
      chainb n (aff W b x) (aff W b r) yx yr
  | Act us :: n =>
      veqb (map ix us) x && veqb (map ir us) r && forallb unit_okb us &&
      chainb n (map ox us) (map or_ us) yx yr
  | Pool wins vx vr :: n =>
      veqb vx x && veqb vr r && (length x =? length r)%nat && wins_okb (length x) wins &&
      band7_okb x r && chainb n (pool wins x) (pool wins r) yx yr
  end.

(* deep_lift_shap on one example: raw multipliers per reference, hypothetical attributions,
   attributions *)
Definition multipliers (net : list (nlayer K)) (nout target : nat) (x r : list K) : list K :=
  bw (fst (run net x r)) (onehot nout target).

End Model.


(* MaxPool1d(kernel k, stride s, padding p, dilation d) on a (C, L) tensor flattened row-major:
   output unit (c, j) reads input positions j*s - p + t*d, t < k, that fall inside [0, L) *)
Definition pool_out_len (L k s p d : nat) : nat :=
  if (L + 2 * p <? d * (k - 1) + 1)%nat then O else ((L + 2 * p - d * (k - 1) - 1) / s + 1)%nat.
Definition pool_windows (C L k s p d : nat) : list (list nat) :=
  flat_map (fun c =>
    map (fun j =>
           flat_map (fun t => let q := (j * s + t * d)%nat in
                              if (p <=? q)%nat && (q - p <? L)%nat then [(c * L + (q - p))%nat] else [])
                    (seq 0 k))
        (seq 0 (pool_out_len L k s p d)))
    (seq 0 C).

(* ---- instances *)
Local Open Scope Qc_scope.
Definition Qc_leb (a b : Qc) : bool := Qle_bool (this a) (this b).
Definition q (n : Z) (d : positive) : Qc := Q2Qc (n # d).
(* n * 2^-k: how the harness prints a float64 *)
Definition dy (n : Z) (k : N) : Qc := Q2Qc (n # (Pos.shiftl 1 k)).
Definition Qc_small (e : Qc) (d : Qc) : bool := negb (Qc_leb e (Qcabs d)).
Definition z0 : Qc := 0.
Definition eps6 : Qc := q 1 1000000.
Definition eps7 : Qc := q 1 10000000.

(* a / b rounded towards -oo to PREC significant binary digits (only for dyadic operands the
   result stays dyadic, which is what keeps the co-simulated backward pass small) *)
Definition PREC : Z := 160.
Definition div_round (a b : Qc) : Qc :=
  let n := (Qnum (this a) * Zpos (Qden (this b)))%Z in
  let d := (Zpos (Qden (this a)) * Qnum (this b))%Z in
  if (d =? 0)%Z then 0
  else let n' := (if (d <? 0)%Z then - n else n)%Z in
       let d' := Z.abs d in
       let sh := (PREC + Z.log2 d' - Z.log2 (Z.abs n' + 1))%Z in
       if (0 <=? sh)%Z
       then Q2Qc ((Z.shiftl n' sh / d')%Z # Pos.shiftl 1 (Z.to_N sh))
       else Q2Qc (((n' / d') # 1)).
(* one record for both instances (the carrier does not depend on the flag, so the same Qc data
   can be evaluated under either): exact division, or the rounded one *)
Definition QcO (rounded : bool) : ops :=
  mkops Qc 0 1 Qcplus Qcmult Qcminus Qcopp (if rounded then div_round else Qcdiv) Qcinv
        Qc_eq_bool Qc_leb (Qc_small eps6) (Qc_small eps7).
Definition QcX : ops := QcO false.
Definition QcR : ops := QcO true.
