(* C04 proofs: summation-to-delta for every trace of affine / element-wise / max-pool layers,
   over any field with a total order; projection and averaging; the Qc instance. *)
From Coq Require Import QArith Qcanon Qcabs Field.
From TM Require Import Base.Prelude Base.PyList C04.Model.

Section Theory.
Variable K : ops.
Local Notation "a +! b" := (fadd K a b) (at level 50, left associativity).
Local Notation "a -! b" := (fsub K a b) (at level 50, left associativity).
Local Notation "a *! b" := (fmul K a b) (at level 40, left associativity).
Local Notation "a /! b" := (fdiv K a b) (at level 40, left associativity).
Local Notation zero := (f0 K).
Local Notation one := (f1 K).

Hypothesis Fth : field_theory zero one (fadd K) (fmul K) (fsub K) (fopp K) (fdiv K) (finv K) (@eq K).
Add Field Kfield : Fth.

(* the order used by max / arg-max *)
Hypothesis leb_total : forall a b : K, fleb K a b = true \/ fleb K b a = true.
Hypothesis leb_trans : forall a b c : K, fleb K a b = true -> fleb K b c = true -> fleb K a c = true.
Hypothesis leb_antisym : forall a b : K, fleb K a b = true -> fleb K b a = true -> a = b.
(* the two switches fire at 0 *)
Hypothesis small6_0 : small6 K zero = true.
Hypothesis small7_0 : small7 K zero = true.

Local Notation vsum := (vsum K).
Local Notation dot := (dot K).
Local Notation vsub := (vsub K).
Local Notation vadd := (vadd K).
Local Notation vscale := (vscale K).

Lemma sub_eq0 (a b : K) : a -! b = zero -> a = b.
Proof. intros H. assert (E : a = (a -! b) +! b) by ring. rewrite E, H. ring. Qed.

Lemma sub_self (a : K) : a -! a = zero.
Proof. ring. Qed.

(* ---------------------------------------------------------------- finite sums *)
Lemma vsum_app l1 l2 : vsum (l1 ++ l2) = vsum l1 +! vsum l2.
Proof. induction l1 as [|a l IH]; cbn; [ring | rewrite IH; ring]. Qed.

Lemma vsum_map_ext {T} (f g : T -> K) l :
  (forall i, In i l -> f i = g i) -> vsum (map f l) = vsum (map g l).
Proof.
  induction l as [|a l IH]; intros H; cbn; [reflexivity|].
  rewrite H by (left; reflexivity). rewrite IH; [reflexivity|].
  intros i Hi; apply H; right; exact Hi.
Qed.

Lemma vsum_map_add {T} (f g : T -> K) l :
  vsum (map (fun i => f i +! g i) l) = vsum (map f l) +! vsum (map g l).
Proof. induction l as [|a l IH]; cbn; [ring | rewrite IH; ring]. Qed.

Lemma vsum_map_scale {T} (c : K) (f : T -> K) l :
  vsum (map (fun i => c *! f i) l) = c *! vsum (map f l).
Proof. induction l as [|a l IH]; cbn; [ring | rewrite IH; ring]. Qed.

Lemma vsum_map_scale_r {T} (c : K) (f : T -> K) l :
  vsum (map (fun i => f i *! c) l) = vsum (map f l) *! c.
Proof. induction l as [|a l IH]; cbn; [ring | rewrite IH; ring]. Qed.

Lemma vsum_map_zero {T} (l : list T) : vsum (map (fun _ => zero) l) = zero.
Proof. induction l as [|a l IH]; cbn; [reflexivity | rewrite IH; ring]. Qed.

Lemma vsum_swap {S T} (g : S -> T -> K) (ls : list S) (lt : list T) :
  vsum (map (fun i => vsum (map (fun j => g i j) lt)) ls) =
  vsum (map (fun j => vsum (map (fun i => g i j) ls)) lt).
Proof.
  induction ls as [|a ls IH]; cbn.
  - symmetry; apply vsum_map_zero.
  - rewrite IH. rewrite <- vsum_map_add. reflexivity.
Qed.

Lemma seq_add_map s n : seq s n = map (fun p => (s + p)%nat) (seq 0 n).
Proof.
  revert s; induction n as [|n IH]; intros s; cbn; [reflexivity|].
  f_equal; [lia|]. rewrite (IH (S s)), (IH 1%nat), map_map.
  apply map_ext; intros; lia.
Qed.

(* sum of a "Kronecker delta" *)
Lemma vsum_delta_seq (c : nat) (a : nat -> K) s n :
  (s <= c < s + n)%nat ->
  vsum (map (fun k => if (k =? c)%nat then a k else zero) (seq s n)) = a c.
Proof.
  revert s; induction n as [|n IH]; intros s H; [lia|]. cbn [seq map Model.vsum].
  destruct (Nat.eqb_spec s c) as [->|Hne].
  - assert (Z0 : vsum (map (fun k => if (k =? c)%nat then a k else zero) (seq (S c) n)) = zero).
    { rewrite (vsum_map_ext _ (fun _ => zero)); [apply vsum_map_zero|]. intros i Hi.
      apply in_seq in Hi. destruct (Nat.eqb_spec i c); [lia | reflexivity]. }
    rewrite Z0. ring.
  - rewrite IH by lia. ring.
Qed.

Lemma vsum_delta_seq' (c : nat) (a : nat -> K) s n :
  (s <= c < s + n)%nat ->
  vsum (map (fun k => if (c =? k)%nat then a k else zero) (seq s n)) = a c.
Proof.
  intros H. rewrite <- (vsum_delta_seq c a s n H). apply vsum_map_ext.
  intros i _. rewrite Nat.eqb_sym. reflexivity.
Qed.

Lemma vsum_grid (f : nat -> K) A L :
  vsum (map f (seq 0 (A * L))) =
  vsum (map (fun k => vsum (map (fun p => f (k * L + p)%nat) (seq 0 L))) (seq 0 A)).
Proof.
  induction A as [|A IH]; [reflexivity|].
  rewrite seq_S, map_app, vsum_app, <- IH. cbn [map Model.vsum plus].
  replace (S A * L)%nat with (A * L + L)%nat by lia.
  rewrite seq_app, map_app, vsum_app. f_equal.
  rewrite (seq_add_map (0 + A * L)), map_map. cbn [plus]. ring.
Qed.

(* ---------------------------------------------------------------- dot products *)
Lemma dot_nil_r a : dot a [] = zero.
Proof. destruct a; reflexivity. Qed.

(* only the second list's length matters: missing entries of the first read as 0 *)
Lemma dot_nth b : forall a,
  dot a b = vsum (map (fun i => nth i a zero *! nth i b zero) (seq 0 (length b))).
Proof.
  induction b as [|y b IH]; intros a; [apply dot_nil_r|].
  cbn [length seq map Model.vsum]. rewrite <- seq_shift, map_map.
  destruct a as [|x a]; cbn [Model.dot nth].
  - rewrite (vsum_map_ext _ (fun _ => zero)); [rewrite vsum_map_zero; ring|].
    intros i _. destruct i; ring.
  - rewrite IH. reflexivity.
Qed.

Lemma nth_map_seq {T} (f : nat -> T) n i d : (i < n)%nat -> nth i (map f (seq 0 n)) d = f i.
Proof.
  intros H. rewrite nth_indep with (d' := f 0%nat) by (rewrite map_length, seq_length; exact H).
  rewrite map_nth, seq_nth by exact H. reflexivity.
Qed.

Lemma nth_vsub a b i : length a = length b -> (i < length a)%nat ->
  nth i (vsub a b) zero = nth i a zero -! nth i b zero.
Proof. intros Hl Hi. unfold Model.vsub. apply nth_map2; assumption. Qed.

Lemma vsub_length a b : length a = length b -> length (vsub a b) = length a.
Proof. apply map2_length. Qed.

Lemma dot_seq_vsub (f : nat -> K) a b : length a = length b ->
  dot (map f (seq 0 (length a))) (vsub a b) =
  vsum (map (fun i => f i *! (nth i a zero -! nth i b zero)) (seq 0 (length a))).
Proof.
  intros Hl. rewrite dot_nth, vsub_length by exact Hl.
  apply vsum_map_ext. intros i Hi. apply in_seq in Hi.
  rewrite nth_map_seq, nth_vsub by lia. reflexivity.
Qed.

Lemma dot_vsub_nth m a b : length a = length b ->
  dot m (vsub a b) =
  vsum (map (fun i => nth i m zero *! (nth i a zero -! nth i b zero)) (seq 0 (length a))).
Proof.
  intros Hl. rewrite dot_nth, vsub_length by exact Hl.
  apply vsum_map_ext. intros i Hi. apply in_seq in Hi.
  rewrite nth_vsub by lia. reflexivity.
Qed.

Lemma map2_cons {A B C} (f : A -> B -> C) a l b l' : map2 f (a :: l) (b :: l') = f a b :: map2 f l l'.
Proof. reflexivity. Qed.
Lemma vsub_cons a l b l' : vsub (a :: l) (b :: l') = (a -! b) :: vsub l l'.
Proof. reflexivity. Qed.
Lemma vadd_cons a l b l' : vadd (a :: l) (b :: l') = (a +! b) :: vadd l l'.
Proof. reflexivity. Qed.

Lemma dot_vsub_r row : forall x r, length x = length r ->
  dot row (vsub x r) = dot row x -! dot row r.
Proof.
  induction row as [|a row IH]; intros x r Hl; [cbn; ring|].
  destruct x as [|x0 x], r as [|r0 r]; cbn [length] in Hl; try discriminate.
  - cbn. ring.
  - rewrite vsub_cons. cbn [Model.dot]. rewrite IH by lia. ring.
Qed.

Lemma dot_vscale c a d : dot (vscale c a) d = c *! dot a d.
Proof.
  revert d; induction a as [|x a IH]; intros d; [cbn; ring|].
  destruct d as [|y d]; [cbn; ring|].
  change (vscale c (x :: a)) with ((c *! x) :: vscale c a).
  cbn [Model.dot]. rewrite IH. ring.
Qed.

Lemma dot_vadd a : forall b d, length a = length b -> dot (vadd a b) d = dot a d +! dot b d.
Proof.
  induction a as [|x a IH]; intros b d Hl; destruct b as [|y b]; cbn [length] in Hl; try discriminate;
    [cbn; ring|].
  destruct d as [|z d]; [cbn; ring|].
  rewrite vadd_cons. cbn [Model.dot]. rewrite IH by lia. ring.
Qed.

Lemma dot_zeros n d : dot (zeros K n) d = zero.
Proof.
  revert d; induction n as [|n IH]; intros d; [reflexivity|].
  destruct d as [|y d]; [reflexivity|].
  change (zeros K (S n)) with (zero :: zeros K n). cbn [Model.dot]. rewrite IH. ring.
Qed.

Lemma mask_sum a x : vsum (mask K a x) = dot a x.
Proof.
  revert x; induction a as [|u a IH]; intros x; [reflexivity|].
  destruct x as [|v x]; [reflexivity|].
  unfold mask. rewrite map2_cons. cbn [Model.vsum Model.dot]. fold (mask K a x). rewrite IH. reflexivity.
Qed.

(* ---------------------------------------------------------------- affine layers *)
Lemma zeros_length n : length (zeros K n) = n.
Proof. apply repeat_length. Qed.

Lemma taff_length W : forall m n, Forall (fun row => length row = n) W -> length (taff K W m n) = n.
Proof.
  induction W as [|row W IH]; intros m n HW; cbn; [apply zeros_length|].
  destruct m as [|mj m]; [apply zeros_length|].
  inversion HW; subst. unfold Model.vadd. rewrite map2_length.
  - unfold Model.vscale. apply map_length.
  - unfold Model.vscale. rewrite map_length. symmetry. apply IH. assumption.
Qed.

Lemma taff_dot W : forall m n d, Forall (fun row => length row = n) W ->
  dot (taff K W m n) d = dot m (map (fun row => dot row d) W).
Proof.
  induction W as [|row W IH]; intros m n d HW; cbn.
  - rewrite dot_zeros. destruct m; reflexivity.
  - destruct m as [|mj m]; [apply dot_zeros|]. inversion HW; subst.
    rewrite dot_vadd.
    + rewrite dot_vscale, IH by assumption. reflexivity.
    + unfold Model.vscale. rewrite map_length. symmetry. apply taff_length. assumption.
Qed.

(* the bias cancels *)
Lemma aff_delta W : forall b x r, length x = length r -> length b = length W ->
  vsub (aff K W b x) (aff K W b r) = map (fun row => dot row (vsub x r)) W.
Proof.
  induction W as [|row W IH]; intros b x r Hl Hb; [reflexivity|].
  destruct b as [|bi b]; [discriminate|]. cbn. f_equal.
  - rewrite dot_vsub_r by exact Hl. ring.
  - apply IH; [exact Hl | cbn in Hb; lia].
Qed.

Lemma affine_delta W b x r m :
  Forall (fun row => length row = length x) W -> length x = length r -> length b = length W ->
  dot (taff K W m (length x)) (vsub x r) = dot m (vsub (aff K W b x) (aff K W b r)).
Proof. intros HW Hl Hb. rewrite taff_dot by exact HW. rewrite aff_delta by assumption. reflexivity. Qed.

(* ---------------------------------------------------------------- element-wise layers *)
(* what is assumed of a recorded unit: the two halves went through one function, and the
   input difference is not in the ambiguous band of the 1e-6 switch *)
Definition unit_ok (u : urec K) : Prop :=
  (ix u = ir u -> ox u = or_ u) /\ (small6 K (ix u -! ir u) = true -> ix u = ir u).

Lemma rescale_delta u m : unit_ok u ->
  rescale K u m *! (ix u -! ir u) = m *! (ox u -! or_ u).
Proof.
  intros [Hf Hb]. unfold rescale. cbv zeta.
  destruct (small6 K (ix u -! ir u)) eqn:E.
  - pose proof (Hb eq_refl) as E1. pose proof (Hf E1) as E2. rewrite E1, E2. ring.
  - assert (Hnz : ix u -! ir u <> zero).
    { intros Hz. rewrite Hz, small6_0 in E. discriminate. }
    field. exact Hnz.
Qed.

(* holds for EVERY activation function: only unit_ok is used *)
Lemma act_delta us : forall m, Forall unit_ok us ->
  dot (map2 (rescale K) us m) (vsub (map ix us) (map ir us)) = dot m (vsub (map ox us) (map or_ us)).
Proof.
  induction us as [|u us IH]; intros m H; [destruct m; reflexivity|].
  destruct m as [|mj m]; [reflexivity|]. inversion H; subst. cbn.
  change (map (fun p => rescale K (fst p) (snd p)) (combine us m)) with (map2 (rescale K) us m).
  change (map2 (fsub K) (map ix us) (map ir us)) with (vsub (map ix us) (map ir us)).
  change (map2 (fsub K) (map ox us) (map or_ us)) with (vsub (map ox us) (map or_ us)).
  rewrite IH by assumption. rewrite rescale_delta by assumption. reflexivity.
Qed.


(* ---------------------------------------------------------------- max-pool layers *)
Local Notation vnth v i := (nth i v zero).

Lemma leb_refl (a : K) : fleb K a a = true.
Proof. destruct (leb_total a a); assumption. Qed.

Lemma amax_from_in v : forall w best, In (amax_from K v best w) (best :: w).
Proof.
  induction w as [|i w IH]; intros best; cbn [amax_from]; [left; reflexivity|].
  destruct (fleb K (vnth v i) (vnth v best)).
  - destruct (IH best) as [E|E]; [left; exact E | right; right; exact E].
  - right. apply IH.
Qed.

Lemma amax_in v w : w <> [] -> In (amax K v w) w.
Proof. destruct w as [|i w]; [congruence|]. intros _. apply amax_from_in. Qed.

Lemma amax_from_ge v : forall w best i, In i (best :: w) ->
  fleb K (vnth v i) (vnth v (amax_from K v best w)) = true.
Proof.
  induction w as [|j w IH]; intros best i Hi; cbn [amax_from].
  - destruct Hi as [<-|[]]. apply leb_refl.
  - destruct (fleb K (vnth v j) (vnth v best)) eqn:E.
    + destruct Hi as [<-|[<-|Hi]].
      * apply IH; left; reflexivity.
      * apply leb_trans with (vnth v best); [exact E | apply IH; left; reflexivity].
      * apply IH; right; exact Hi.
    + assert (E' : fleb K (vnth v best) (vnth v j) = true).
      { destruct (leb_total (vnth v best) (vnth v j)) as [H|H]; [exact H | congruence]. }
      destruct Hi as [<-|[<-|Hi]].
      * apply leb_trans with (vnth v j); [exact E' | apply IH; left; reflexivity].
      * apply IH; left; reflexivity.
      * apply IH; right; exact Hi.
Qed.

Lemma amax_ge v w i : In i w -> fleb K (vnth v i) (pmax K v w) = true.
Proof.
  destruct w as [|j w]; [intros []|]. intros Hi. unfold pmax, amax. apply amax_from_ge. exact Hi.
Qed.

Lemma vsum_map2_zero {S T} (f : S -> T -> K) (ls : list S) (lt : list T) :
  (forall a b, In a ls -> f a b = zero) -> vsum (map2 f ls lt) = zero.
Proof.
  revert lt; induction ls as [|a ls IH]; intros lt H; [reflexivity|].
  destruct lt as [|b lt]; [reflexivity|]. rewrite map2_cons. cbn [Model.vsum].
  rewrite H by (left; reflexivity). rewrite IH; [ring|].
  intros a' b' Hin. apply H. right. exact Hin.
Qed.

(* scatter-add keeps the total when every index is in range *)
Lemma scat_total key val (wins : list (list nat)) : forall (m : list K) n,
  (forall w, In w wins -> (key w < n)%nat) ->
  vsum (map (scat K key val wins m) (seq 0 n)) = vsum (map2 val wins m).
Proof.
  induction wins as [|w wins IH]; intros m n Hk.
  - unfold scat. cbn. apply vsum_map_zero.
  - destruct m as [|mj m].
    + unfold scat. cbn. apply vsum_map_zero.
    + rewrite map2_cons. cbn [Model.vsum]. rewrite <- (IH m n) by (intros; apply Hk; right; assumption).
      rewrite <- (vsum_delta_seq' (key w) (fun _ => val w mj) 0 n)
        by (split; [lia | apply Hk; left; reflexivity]).
      rewrite <- vsum_map_add. apply vsum_map_ext. intros i _.
      unfold scat. rewrite map2_cons. reflexivity.
Qed.

Definition wins_ok (n : nat) (wins : list (list nat)) : Prop :=
  Forall (fun w => w <> [] /\ Forall (fun i => (i < n)%nat) w) wins.

Lemma wins_ok_amax n wins v w : wins_ok n wins -> In w wins -> In (amax K v w) w /\ (amax K v w < n)%nat.
Proof.
  intros H Hw. unfold wins_ok in H. rewrite Forall_forall in H. destruct (H w Hw) as [Hne Hr].
  pose proof (amax_in v w Hne) as Hin. split; [exact Hin|].
  rewrite Forall_forall in Hr. apply Hr. exact Hin.
Qed.

(* no input difference of the pooling layer lies in the ambiguous band of the 1e-7 switch *)
Definition band7_ok (vx vr : list K) : Prop :=
  forall i, (i < length vx)%nat -> small7 K (vnth vx i -! vnth vr i) = true -> vnth vx i = vnth vr i.

Lemma pool_sum_out (wins : list (list nat)) vx vr : forall m,
  vsum (map2 (fun w mj => mj *! dpos K vx vr w) wins m) +!
  vsum (map2 (fun w mj => mj *! dneg K vx vr w) wins m) =
  dot m (vsub (pool K wins vx) (pool K wins vr)).
Proof.
  induction wins as [|w wins IH]; intros m; [destruct m; cbn; ring|].
  destruct m as [|mj m]; [cbn; ring|].
  rewrite !map2_cons. unfold pool. cbn [map]. rewrite vsub_cons. cbn [Model.vsum Model.dot].
  fold (pool K wins vx). fold (pool K wins vr). rewrite <- IH. unfold dpos, dneg. ring.
Qed.

(* holds for ANY windows (overlapping, padded, dilated): this is what 73d3caa buys *)
Lemma maxpool_delta wins vx vr m :
  length vx = length vr -> wins_ok (length vx) wins -> band7_ok vx vr ->
  dot (pool_bw K wins vx vr m) (vsub vx vr) = dot m (vsub (pool K wins vx) (pool K wins vr)).
Proof.
  intros Hl Hw Hb. unfold pool_bw, pool_bw_gen.
  rewrite dot_seq_vsub by exact Hl.
  rewrite <- pool_sum_out.
  rewrite <- (scat_total (amax K vx) (fun w mj => mj *! dpos K vx vr w) wins m (length vx))
    by (intros w Hin; apply (wins_ok_amax _ _ vx w Hw Hin)).
  rewrite <- (scat_total (amax K vr) (fun w mj => mj *! dneg K vx vr w) wins m (length vx))
    by (intros w Hin; apply (wins_ok_amax _ _ vr w Hw Hin)).
  rewrite <- vsum_map_add. apply vsum_map_ext. intros i Hi. apply in_seq in Hi. cbv zeta.
  destruct (small7 K (vnth vx i -! vnth vr i)) eqn:E.
  - (* the fallback: delta_in = 0, and neither half contributes anything at position i *)
    pose proof (Hb i (proj2 Hi) E) as Eq. rewrite Eq, sub_self.
    assert (Z1 : scat K (amax K vx) (fun w mj => mj *! dpos K vx vr w) wins m i = zero).
    { unfold scat. apply vsum_map2_zero. intros w mj Hin.
      destruct (Nat.eqb_spec (amax K vx w) i) as [Ea|]; [|reflexivity].
      destruct (wins_ok_amax _ _ vx w Hw Hin) as [Hiw _]. rewrite Ea in Hiw.
      unfold dpos. assert (Ep : pmax K vx w = vnth vr i) by (unfold pmax; rewrite Ea; exact Eq).
      unfold fmax. rewrite Ep, (amax_ge vr w i Hiw). ring. }
    assert (Z2 : scat K (amax K vr) (fun w mj => mj *! dneg K vx vr w) wins m i = zero).
    { unfold scat. apply vsum_map2_zero. intros w mj Hin.
      destruct (Nat.eqb_spec (amax K vr w) i) as [Ea|]; [|reflexivity].
      destruct (wins_ok_amax _ _ vr w Hw Hin) as [Hiw _]. rewrite Ea in Hiw.
      unfold dneg. assert (Ep : pmax K vr w = vnth vx i) by (unfold pmax; rewrite Ea; symmetry; exact Eq).
      unfold fmax. rewrite Ep.
      destruct (fleb K (pmax K vx w) (vnth vx i)) eqn:El.
      - rewrite (leb_antisym _ _ El (amax_ge vx w i Hiw)). ring.
      - ring. }
    rewrite Z1, Z2. ring.
  - assert (Hnz : vnth vx i -! vnth vr i <> zero).
    { intros Hz. rewrite Hz, small7_0 in E. discriminate. }
    field. exact Hnz.
Qed.

(* ---------------------------------------------------------------- whole networks *)
(* [chain net x r yx yr]: the trace [net] is what the forward pass of the pair (x, r) produces
   (shapes fit, the recorded values of each non-linearity are the values that reach it, its two
   halves went through one function), its outputs are yx / yr, and no unit sits in the ambiguous
   band of a switch *)
Fixpoint chain (net : list (layer K)) (x r yx yr : list K) : Prop :=
  match net with
  | [] => yx = x /\ yr = r
  | Affine W b :: n =>
      Forall (fun row => length row = length x) W /\ in_dim K W = length x /\
      length x = length r /\ length b = length W /\
      chain n (aff K W b x) (aff K W b r) yx yr
  | Act us :: n =>
      map ix us = x /\ map ir us = r /\ Forall unit_ok us /\
      chain n (map ox us) (map or_ us) yx yr
  | Pool wins vx vr :: n =>
      vx = x /\ vr = r /\ length x = length r /\ wins_ok (length x) wins /\ band7_ok x r /\
      chain n (pool K wins x) (pool K wins r) yx yr
  end.

Theorem net_completeness net : forall x r yx yr t,
  chain net x r yx yr -> dot (bw K net t) (vsub x r) = dot t (vsub yx yr).
Proof.
  induction net as [|l net IH]; intros x r yx yr t H.
  - destruct H as [-> ->]. reflexivity.
  - destruct l as [W b|us|wins vx vr]; cbn [chain] in H; cbn [bw bw_layer].
    + destruct H as (HW & Hd & Hl & Hb & Hc). rewrite Hd.
      rewrite (affine_delta W b x r _ HW Hl Hb). apply IH. exact Hc.
    + destruct H as (<- & <- & Hu & Hc). rewrite act_delta by exact Hu. apply IH. exact Hc.
    + destruct H as (-> & -> & Hl & Hw & Hb & Hc).
      rewrite maxpool_delta by assumption. apply IH. exact Hc.
Qed.

Lemma dot_onehot n t v : length v = n -> (t < n)%nat -> dot (onehot K n t) v = vnth v t.
Proof.
  intros Hl Ht. rewrite dot_nth, Hl.
  rewrite (vsum_map_ext _ (fun k => if (k =? t)%nat then vnth v k else zero)).
  - apply vsum_delta_seq. lia.
  - intros i Hi. apply in_seq in Hi. unfold onehot. rewrite nth_map_seq by lia.
    destruct (i =? t)%nat; ring.
Qed.

(* sum((x - ref) * multipliers) = model(x)[target] - model(ref)[target] *)
Corollary pair_completeness net x r yx yr nout target :
  chain net x r yx yr -> length yx = nout -> length yr = nout -> (target < nout)%nat ->
  dot (bw K net (onehot K nout target)) (vsub x r) = vnth yx target -! vnth yr target.
Proof.
  intros Hc Hx Hr Ht. rewrite (net_completeness net x r yx yr _ Hc).
  rewrite dot_vsub_r by congruence. rewrite !dot_onehot by assumption. reflexivity.
Qed.


(* ---------------------------------------------------------------- projection, mean, mask *)
Lemma nth_grid {T} (g : nat -> nat -> T) L d : forall (ks : list nat) k p,
  (k < length ks)%nat -> (p < L)%nat ->
  nth (k * L + p) (flat_map (fun k' => map (g k') (seq 0 L)) ks) d = g (nth k ks O) p.
Proof.
  induction ks as [|k0 ks IH]; intros k p Hk Hp; [cbn in Hk; lia|].
  cbn [flat_map]. destruct k as [|k].
  - cbn [Nat.mul plus nth]. rewrite app_nth1 by (rewrite map_length, seq_length; exact Hp).
    apply nth_map_seq. exact Hp.
  - rewrite app_nth2 by (rewrite map_length, seq_length; cbn; lia).
    rewrite map_length, seq_length.
    replace (S k * L + p - L)%nat with (k * L + p)%nat by (cbn; lia).
    cbn [nth]. apply IH; [cbn in Hk; lia | exact Hp].
Qed.

Lemma grid_length {T} (g : nat -> nat -> T) L : forall ks,
  length (flat_map (fun k' => map (g k') (seq 0 L)) ks) = (length ks * L)%nat.
Proof.
  induction ks as [|k0 ks IH]; [reflexivity|].
  cbn [flat_map]. rewrite app_length, map_length, seq_length, IH. cbn. lia.
Qed.

Lemma project_length A L m ref : length (project K A L m ref) = (A * L)%nat.
Proof. unfold project. rewrite grid_length, seq_length. reflexivity. Qed.

Lemma nth_project A L m ref k p : (k < A)%nat -> (p < L)%nat ->
  vnth (project K A L m ref) (k * L + p) =
  vsum (map (fun c => ((if (c =? k)%nat then one else zero) -! vnth ref (c * L + p)) *! vnth m (c * L + p))
            (seq 0 A)).
Proof.
  intros Hk Hp. unfold project.
  rewrite (nth_grid (fun k p => vsum (map (fun c => ((if (c =? k)%nat then one else zero) -! vnth ref (c * L + p))
                                                  *! vnth m (c * L + p)) (seq 0 A))) L zero (seq 0 A) k p)
    by (rewrite ?seq_length; assumption).
  rewrite seq_nth by exact Hk. reflexivity.
Qed.

(* one column: sum_k (sum_c (delta_ck - R c) * M c) * X k = sum_c M c * (X c - R c)  when sum_k X k = 1 *)
Lemma column_identity A (X R M : nat -> K) :
  vsum (map X (seq 0 A)) = one ->
  vsum (map (fun k => vsum (map (fun c => ((if (c =? k)%nat then one else zero) -! R c) *! M c) (seq 0 A)) *! X k)
            (seq 0 A)) =
  vsum (map (fun c => M c *! (X c -! R c)) (seq 0 A)).
Proof.
  intros H1.
  rewrite (vsum_map_ext _ (fun k => vsum (map (fun c => ((if (c =? k)%nat then one else zero) -! R c) *! M c *! X k)
                                              (seq 0 A))))
    by (intros k _; symmetry; apply vsum_map_scale_r).
  rewrite vsum_swap. apply vsum_map_ext. intros c Hc. apply in_seq in Hc.
  rewrite (vsum_map_ext _ (fun k => (if (c =? k)%nat then M c *! X k else zero) +! (zero -! R c *! M c) *! X k))
    by (intros k _; destruct (c =? k)%nat; ring).
  rewrite vsum_map_add, vsum_map_scale, H1.
  rewrite (vsum_delta_seq' c (fun k => M c *! X k)) by lia. ring.
Qed.

(* columns of a flattened (A, L) tensor sum to one *)
Definition cols_one (A L : nat) (x : list K) : Prop :=
  forall p, (p < L)%nat -> vsum (map (fun k => vnth x (k * L + p)) (seq 0 A)) = one.

(* projection_sum: the projected attributions of the observed characters add up to
   sum((x - ref) * multipliers) *)
Lemma projection_sum A L m ref x :
  length x = (A * L)%nat -> length ref = (A * L)%nat -> cols_one A L x ->
  dot (project K A L m ref) x = dot m (vsub x ref).
Proof.
  intros Hx Hr H1.
  rewrite dot_nth, Hx, vsum_grid.
  rewrite (dot_vsub_nth m x ref) by congruence. rewrite Hx, vsum_grid.
  (* bring the position to the outside on both sides *)
  rewrite (vsum_swap (fun k p => vnth (project K A L m ref) (k * L + p) *! vnth x (k * L + p))).
  rewrite (vsum_swap (fun k p => vnth m (k * L + p) *! (vnth x (k * L + p) -! vnth ref (k * L + p)))).
  apply vsum_map_ext. intros p Hp. apply in_seq in Hp.
  rewrite <- (column_identity A (fun k => vnth x (k * L + p)) (fun c => vnth ref (c * L + p))
                               (fun c => vnth m (c * L + p))) by (apply H1; lia).
  apply vsum_map_ext. intros k Hk. apply in_seq in Hk.
  rewrite nth_project by lia. reflexivity.
Qed.

Lemma vmean_dot n (vs : list (list K)) x :
  length x = n -> fnat K (length vs) <> zero ->
  dot (vmean K n vs) x = vsum (map (fun v => dot v x) vs) /! fnat K (length vs).
Proof.
  intros Hx HN. unfold vmean. rewrite dot_nth, Hx.
  rewrite (vsum_map_ext _ (fun i => (one /! fnat K (length vs)) *!
                                    vsum (map (fun v => vnth v i *! vnth x i) vs))).
  - rewrite vsum_map_scale.
    rewrite (vsum_swap (fun i v => vnth v i *! vnth x i)).
    rewrite (vsum_map_ext _ (fun v => dot v x)) by (intros v _; rewrite dot_nth, Hx; reflexivity).
    field. exact HN.
  - intros i Hi. apply in_seq in Hi. rewrite nth_map_seq by lia.
    rewrite vsum_map_scale_r. field. exact HN.
Qed.

Lemma map2_map_l {A B C D} (f : B -> C -> D) (g : A -> B) l1 l2 :
  map2 f (map g l1) l2 = map2 (fun a c => f (g a) c) l1 l2.
Proof.
  revert l2; induction l1 as [|a l1 IH]; intros l2; [reflexivity|].
  destruct l2 as [|c l2]; [reflexivity|]. cbn [map]. rewrite !map2_cons, IH. reflexivity.
Qed.

Lemma vsum_map_map2 {S T U} (h : U -> K) (f : S -> T -> U) ls lt :
  vsum (map h (map2 f ls lt)) = vsum (map2 (fun a b => h (f a b)) ls lt).
Proof. unfold map2. rewrite map_map. reflexivity. Qed.

Lemma vsum_map2_ext {S T} (f g : S -> T -> K) ls lt :
  (forall a b, In (a, b) (combine ls lt) -> f a b = g a b) -> vsum (map2 f ls lt) = vsum (map2 g ls lt).
Proof.
  intros H. unfold map2. apply vsum_map_ext. intros [a b] Hin. apply H. exact Hin.
Qed.

(* the attributions of one example sum to the mean over its references of
   sum((x - ref) * multipliers) *)
Theorem attributions_sum A L x (ms refs : list (list K)) :
  length x = (A * L)%nat -> cols_one A L x ->
  Forall (fun ref => length ref = (A * L)%nat) refs ->
  length ms = length refs -> fnat K (length refs) <> zero ->
  vsum (attributions K A L x ms refs) =
  vsum (map2 (fun m ref => dot m (vsub x ref)) ms refs) /! fnat K (length refs).
Proof.
  intros Hx H1 Hr Hl HN. unfold attributions, hypothetical. rewrite mask_sum.
  assert (Hlen : length (map2 (project K A L) ms refs) = length refs).
  { unfold map2. rewrite map_length, combine_length. lia. }
  rewrite vmean_dot by (rewrite ?Hlen; assumption). rewrite Hlen. f_equal.
  rewrite vsum_map_map2. apply vsum_map2_ext. intros m ref Hin.
  apply projection_sum; try assumption.
  rewrite Forall_forall in Hr. apply Hr. apply in_combine_r in Hin. exact Hin.
Qed.

Hypothesis feqb_eq : forall a b : K, feqb K a b = true -> a = b.
Hypothesis feqb_refl : forall a : K, feqb K a a = true.

(* the decidable check implies the hypotheses *)
Lemma veqb_eq a b : veqb K a b = true -> a = b.
Proof.
  unfold veqb. revert b; induction a as [|x a IH]; intros [|y b] H; cbn in H; try discriminate; [reflexivity|].
  apply andb_true_iff in H as [H1 H2]. f_equal; [apply feqb_eq; exact H1 | apply IH; exact H2].
Qed.

Lemma unit_okb_ok u : unit_okb K u = true -> unit_ok u.
Proof.
  unfold unit_okb, unit_ok. intros H. apply andb_true_iff in H as [H1 H2]. split.
  - intros E. rewrite E, feqb_refl in H1. cbn in H1. apply feqb_eq. exact H1.
  - intros Hs. rewrite Hs in H2. cbn in H2. apply feqb_eq. exact H2.
Qed.

Lemma wins_okb_ok n wins : wins_okb n wins = true -> wins_ok n wins.
Proof.
  unfold wins_okb, wins_ok. rewrite forallb_forall, Forall_forall. intros H w Hw.
  specialize (H w Hw). destruct w as [|i w]; [discriminate|]. split; [discriminate|].
  rewrite forallb_forall in H. apply Forall_forall. intros j Hj. specialize (H j Hj).
  apply Nat.ltb_lt. exact H.
Qed.

Lemma band7_okb_ok x r : band7_okb K x r = true -> band7_ok x r.
Proof.
  unfold band7_okb, band7_ok. rewrite forallb_forall. intros H i Hi Hs.
  specialize (H i). rewrite Hs in H. cbn in H. apply feqb_eq. apply H. apply in_seq. lia.
Qed.

Lemma chainb_ok net : forall x r yx yr, chainb K net x r yx yr = true -> chain net x r yx yr.
Proof.
  induction net as [|l net IH]; intros x r yx yr H.
  - cbn in H. apply andb_true_iff in H as [H1 H2]. split; apply veqb_eq; assumption.
  - destruct l as [W b|us|wins vx vr]; cbn [chainb] in H; cbn [chain];
      repeat (apply andb_true_iff in H as [H ?]).
    + repeat split; try (apply Nat.eqb_eq; assumption); [|apply IH; assumption].
      apply Forall_forall. intros row Hr. rewrite forallb_forall in H. apply Nat.eqb_eq. apply H. exact Hr.
    + repeat split; try (apply veqb_eq; assumption); [|apply IH; assumption].
      apply Forall_forall. intros u Hu. apply unit_okb_ok.
      match goal with Hf : forallb (unit_okb K) us = true |- _ => rewrite forallb_forall in Hf; apply Hf; exact Hu end.
    + assert (Ex : vx = x) by (apply veqb_eq; assumption).
      assert (Er : vr = r) by (apply veqb_eq; assumption).
      repeat split; try assumption; try (apply Nat.eqb_eq; assumption);
        [apply wins_okb_ok; assumption | apply band7_okb_ok; assumption | apply IH; assumption].
Qed.


End Theory.

(* ==================================================================== the Qc instance *)
Local Open Scope Qc_scope.

Lemma QcX_field : field_theory (f0 QcX) (f1 QcX) (fadd QcX) (fmul QcX) (fsub QcX) (fopp QcX)
                               (fdiv QcX) (finv QcX) (@eq QcX).
Proof. exact Qcft. Qed.

Lemma Qc_leb_iff a b : Qc_leb a b = true <-> a <= b.
Proof. unfold Qc_leb, Qcle. apply Qle_bool_iff. Qed.

Lemma QcX_total (a b : QcX) : fleb QcX a b = true \/ fleb QcX b a = true.
Proof.
  change (Qc_leb a b = true \/ Qc_leb b a = true). rewrite !Qc_leb_iff.
  destruct (Qclt_le_dec a b) as [H|H]; [left; apply Qclt_le_weak; exact H | right; exact H].
Qed.
Lemma QcX_trans (a b c : QcX) : fleb QcX a b = true -> fleb QcX b c = true -> fleb QcX a c = true.
Proof.
  change (Qc_leb a b = true -> Qc_leb b c = true -> Qc_leb a c = true). rewrite !Qc_leb_iff.
  apply Qcle_trans.
Qed.
Lemma QcX_antisym (a b : QcX) : fleb QcX a b = true -> fleb QcX b a = true -> a = b.
Proof.
  change (Qc_leb a b = true -> Qc_leb b a = true -> a = b). rewrite !Qc_leb_iff.
  apply Qcle_antisym.
Qed.
Lemma QcX_small6 : small6 QcX (f0 QcX) = true.
Proof. vm_compute. reflexivity. Qed.
Lemma QcX_small7 : small7 QcX (f0 QcX) = true.
Proof. vm_compute. reflexivity. Qed.

Definition pair_completeness_Qc :=
  pair_completeness QcX QcX_field QcX_total QcX_trans QcX_antisym QcX_small6 QcX_small7.
Definition attributions_sum_Qc := attributions_sum QcX QcX_field QcX_total QcX_trans QcX_antisym.

Lemma fnat_nonneg n : 0 <= fnat QcX n.
Proof.
  induction n as [|n IH]; [apply Qcle_refl|].
  change (0 <= 1 + fnat QcX n). replace 0 with (0 + 0) by ring.
  apply Qcplus_le_compat; [unfold Qcle, Qle; cbn; lia | exact IH].
Qed.

Lemma fnat_nonzero n : (0 < n)%nat -> fnat QcX n <> 0.
Proof.
  destruct n as [|n]; [lia|]. intros _ H.
  assert (H1 : 1 + 0 <= fnat QcX (S n)).
  { change (1 + 0 <= 1 + fnat QcX n). apply Qcplus_le_compat; [apply Qcle_refl | apply fnat_nonneg]. }
  rewrite H in H1. revert H1. unfold Qcle, Qle; cbn; lia.
Qed.

(* ==================================================================== the spec on the model *)
From TM Require Import C04.Spec.

Lemma qsum_vsum l : qsum l = vsum QcX l.
Proof. induction l as [|a l IH]; [reflexivity|]. cbn [qsum vsum]. rewrite IH. reflexivity. Qed.

Lemma qsum_abs_nonneg {T} (f : T -> Qc) l : 0 <= qsum (map (fun i => Qcabs (f i)) l).
Proof.
  induction l as [|a l IH]; [apply Qcle_refl|]. cbn [map qsum].
  replace 0 with (0 + 0) by ring. apply Qcplus_le_compat; [apply Qcabs_nonneg | exact IH].
Qed.

Lemma Qc_0_le_1 : 0 <= 1.
Proof. unfold Qcle, Qle; cbn; lia. Qed.

Lemma nonneg_add a b : 0 <= a -> 0 <= b -> 0 <= a + b.
Proof. intros Ha Hb. replace 0 with (0 + 0) by ring. apply Qcplus_le_compat; assumption. Qed.

Lemma close_refl tol a s : 0 <= tol -> 0 <= s -> close tol a a s = true.
Proof.
  intros Ht Hs. unfold close. apply Qc_leb_iff.
  replace (a - a) with 0 by ring. rewrite (Qcabs_pos 0) by apply Qcle_refl.
  replace 0 with (0 * s) by ring. apply Qcmult_le_compat_r; assumption.
Qed.

Lemma close_eq tol a b s : a = b -> 0 <= tol -> 0 <= s -> close tol a b s = true.
Proof. intros ->. apply close_refl. Qed.

Lemma tol6_nonneg : 0 <= tol6.
Proof. unfold Qcle, Qle; cbn; lia. Qed.

Lemma in_combine_map {A B} (g : A -> B) l a b : In (a, b) (combine l (map g l)) -> In a l /\ b = g a.
Proof.
  induction l as [|x l IH]; cbn; [intros []|].
  intros [E|H]; [inversion E; subst; split; [left|]; reflexivity|].
  destruct (IH H) as [H1 H2]. split; [right; exact H1 | exact H2].
Qed.

Lemma all2_map_r {A B} (f : A -> B -> bool) (g : A -> B) l :
  (forall a, In a l -> f a (g a) = true) -> all2 f l (map g l) = true.
Proof.
  intros H. unfold all2. rewrite map_length, Nat.eqb_refl. cbn [andb].
  apply forallb_forall. intros [a b] Hin. apply in_combine_map in Hin as [Ha ->]. cbn. apply H. exact Ha.
Qed.

Lemma map2_map_same {A B C D} (f : B -> C -> D) (g : A -> B) (h : A -> C) l :
  map2 f (map g l) (map h l) = map (fun a => f (g a) (h a)) l.
Proof. induction l as [|a l IH]; [reflexivity|]. cbn [map]. rewrite map2_cons, IH. reflexivity. Qed.

(* the hypotheses of the theorem, for one example: a one-hot input, at least one reference, and
   for every reference a consistent, band-free trace whose outputs are the recorded forward values *)
Definition exact_pair (e : ecall) (p : pair) : Prop :=
  length (p_ref p) = e_n e /\
  let rr := run QcX (p_net p) (e_x e) (p_ref p) in
  chain QcX (fst rr) (e_x e) (p_ref p) (fst (snd rr)) (snd (snd rr)) /\
  length (fst (snd rr)) = e_nout e /\ length (snd (snd rr)) = e_nout e /\
  p_fx p = nth (e_target e) (fst (snd rr)) 0 /\ p_fr p = nth (e_target e) (snd (snd rr)) 0.

Definition exact_ecall (e : ecall) : Prop :=
  length (e_x e) = e_n e /\ cols_one QcX (e_A e) (e_L e) (e_x e) /\ e_pairs e <> [] /\
  (e_target e < e_nout e)%nat /\ Forall (exact_pair e) (e_pairs e).

Lemma pair_exact e p : length (e_x e) = e_n e -> (e_target e < e_nout e)%nat -> exact_pair e p ->
  dot QcX (fst (pair_ev false e p)) (vsub QcX (e_x e) (p_ref p)) = p_fx p - p_fr p.
Proof.
  intros Hx Ht (Hr & Hc & Hyx & Hyr & -> & ->).
  unfold pair_ev, pair_eval. cbn [fst].
  apply (pair_completeness_Qc _ _ _ _ _ _ _ Hc Hyx Hyr Ht).
Qed.

Lemma pair_lhs_dot e p m : length (e_x e) = e_n e -> length (p_ref p) = e_n e ->
  pair_lhs e p m = dot QcX m (vsub QcX (e_x e) (p_ref p)).
Proof.
  intros Hx Hr. unfold pair_lhs. rewrite qsum_vsum.
  rewrite (dot_vsub_nth QcX QcX_field m (e_x e) (p_ref p)) by exact (eq_trans Hx (eq_sym Hr)).
  change (@length (F QcX) (e_x e)) with (length (e_x e)). rewrite Hx. reflexivity.
Qed.

Lemma ex_exact e : exact_ecall e -> ex_ok e (model_ex false e) = true.
Proof.
  intros (Hx & H1 & Hne & Ht & Hp). rewrite Forall_forall in Hp.
  unfold ex_ok, model_ex. cbn [o_mult o_attr]. apply andb_true_iff. split.
  - apply all2_map_r. intros p Hin. pose proof (Hp p Hin) as He.
    unfold pair_ok. rewrite pair_lhs_dot by (try exact Hx; apply He).
    rewrite (pair_exact e p Hx Ht He).
    apply close_refl; [apply tol6_nonneg|]. unfold pair_mag.
    repeat apply nonneg_add; try apply Qcabs_nonneg; [apply Qc_0_le_1 | apply qsum_abs_nonneg].
  - unfold attr_ok. apply close_eq.
    + etransitivity; [apply qsum_vsum|].
      etransitivity; [apply attributions_sum_Qc|].
      * exact Hx.
      * exact H1.
      * apply Forall_forall. intros r Hin. apply in_map_iff in Hin as (p & <- & Hin).
        apply (Hp p Hin).
      * rewrite !map_length. reflexivity.
      * rewrite map_length. apply fnat_nonzero.
        destruct (e_pairs e); [congruence | cbn; lia].
      * unfold attr_rhs. change (fdiv QcX) with Qcdiv. f_equal.
        -- rewrite map2_map_same.
           rewrite (qsum_vsum (map (fun p => p_fx p - p_fr p) (e_pairs e))).
           apply vsum_map_ext. intros p Hin.
           apply pair_exact; [exact Hx | exact Ht | apply Hp; exact Hin].
        -- f_equal. apply map_length.
    + apply tol6_nonneg.
    + unfold attr_mag.
      repeat apply nonneg_add; [apply Qc_0_le_1 | apply (qsum_abs_nonneg (fun a => a)) |].
      generalize (e_pairs e). intros l. induction l as [|p l IH]; [apply Qcle_refl|].
      cbn [map qsum]. repeat apply nonneg_add; try apply Qcabs_nonneg. exact IH.
Qed.

(* C04, for every batch of examples, architecture, reference set and target (exact instance) *)
Theorem spec_on_model exs : Forall exact_ecall exs -> spec_ok (C false exs) (model (C false exs)) = true.
Proof.
  intros H. rewrite Forall_forall in H. unfold spec_ok, model. cbn [c_ex c_rounded negb andb].
  apply all2_map_r. intros e Hin. apply ex_exact. apply H. exact Hin.
Qed.

(* ---- the decidable scope check implies the hypotheses *)
Lemma Qc_eq_bool_refl' a : Qc_eq_bool a a = true.
Proof. unfold Qc_eq_bool. destruct (Qc_eq_dec a a); congruence. Qed.

Definition chainb_ok_Qc := chainb_ok QcX Qc_eq_bool_correct Qc_eq_bool_refl'.

Lemma cols_oneb_ok A L x : cols_oneb A L x = true -> cols_one QcX A L x.
Proof.
  unfold cols_oneb, cols_one. rewrite forallb_forall. intros H p Hp.
  specialize (H p). rewrite <- qsum_vsum. apply Qc_eq_bool_correct. apply H. apply in_seq. lia.
Qed.

Lemma exact_ecallb_ok e : exact_ecallb e = true -> exact_ecall e.
Proof.
  unfold exact_ecallb, exact_ecall. intros H.
  apply andb_true_iff in H as [H H5]. apply andb_true_iff in H as [H H4].
  apply andb_true_iff in H as [H H3]. apply andb_true_iff in H as [H1 H2].
  apply Nat.eqb_eq in H1. apply Nat.ltb_lt in H4. rewrite forallb_forall in H5.
  split; [exact H1|]. split; [apply cols_oneb_ok; exact H2|].
  split; [intros E; rewrite E in H3; discriminate|]. split; [exact H4|].
  apply Forall_forall. intros p Hp. specialize (H5 p Hp).
  unfold exact_pairb in H5. unfold exact_pair.
  apply andb_true_iff in H5 as [G1 G]. cbv zeta in G.
  apply andb_true_iff in G as [G G6]. apply andb_true_iff in G as [G G5].
  apply andb_true_iff in G as [G G4]. apply andb_true_iff in G as [G2 G3].
  apply Nat.eqb_eq in G1, G3, G4. apply Qc_eq_bool_correct in G5, G6.
  apply chainb_ok_Qc in G2.
  split; [exact G1|]. cbv zeta. repeat split; assumption.
Qed.

Theorem spec_on_model_b exs :
  forallb exact_ecallb exs = true -> spec_ok (C false exs) (model (C false exs)) = true.
Proof.
  intros H. apply spec_on_model. apply Forall_forall. intros e He. apply exact_ecallb_ok.
  rewrite forallb_forall in H. apply H. exact He.
Qed.

(* ---- the two-halves formulation with both repairs switched on is the model *)
Lemma bw2_fixed (K : ops) net t : fst (bw2 K true true net t) = bw K net t.
Proof.
  induction net as [|l net IH]; [reflexivity|].
  cbn [bw2 bw]. destruct (bw2 K true true net t) as [mx mr]. cbn [fst] in IH. subst mx.
  destruct l; reflexivity.
Qed.
