(* C04 spec: "the attributions returned for an example sum to model(x)[target] minus the mean
   over its references of model(reference)[target], and with raw outputs each example-reference
   pair satisfies sum((x - ref) * multipliers) = model(x) - model(ref), up to floating-point
   tolerance.  No convergence warning is emitted."

   Stated pointwise on what the implementation returned and on torch's own forward values
   (p_fx, p_fr); it does not mention the model.  All numbers are exact rationals (the floats of
   the implementation converted exactly). *)
From Coq Require Import QArith Qcanon Qcabs.
From TM Require Import Base.Prelude Base.PyList C04.Model.
Local Open Scope Qc_scope.

(* one (example, reference) pair: the reference, the network as seen by this pair (with the
   values recorded for it in co-simulation mode), and torch's model(x)[target], model(ref)[target] *)
Record pair := P { p_ref : list Qc; p_net : list (nlayer Qc); p_fx : Qc; p_fr : Qc }.
(* one example: x is the flattened (A, L) one-hot input *)
Record ecall := E { e_A : nat; e_L : nat; e_nout : nat; e_target : nat; e_x : list Qc;
                    e_pairs : list pair }.
(* one call of deep_lift_shap on a batch of examples; c_rounded selects the instance the model
   is evaluated with (QcR for co-simulated smooth activations, QcX otherwise) *)
Record call := C { c_rounded : bool; c_ex : list ecall }.

(* what came back for one example: raw_outputs=True multipliers per reference,
   hypothetical=True attributions, default attributions *)
Record eout := Out { o_mult : list (list Qc); o_hyp : list Qc; o_attr : list Qc }.
(* ... and whether a RuntimeWarning was emitted by any of the calls; Err = the call raised *)
Definition outcome := res (list eout * bool).

Fixpoint qsum (l : list Qc) : Qc := match l with [] => 0 | a :: l' => a + qsum l' end.
Definition all2 {A B} (f : A -> B -> bool) (l1 : list A) (l2 : list B) : bool :=
  (length l1 =? length l2)%nat && forallb (fun p => f (fst p) (snd p)) (combine l1 l2).

Definition tol6 : Qc := q 1 1000000.
(* |a - b| <= tol * s *)
Definition close (tol a b s : Qc) : bool := Qc_leb (Qcabs (a - b)) (tol * s).

Definition e_n (e : ecall) : nat := (e_A e * e_L e)%nat.

(* sum((x - ref) * multipliers) over the A*L input positions *)
Definition pair_lhs (e : ecall) (p : pair) (m : list Qc) : Qc :=
  qsum (map (fun i => nth i m 0 * (nth i (e_x e) 0 - nth i (p_ref p) 0)) (seq 0 (e_n e))).
(* magnitude the floating-point tolerance is relative to *)
Definition pair_mag (e : ecall) (p : pair) (m : list Qc) : Qc :=
  1 + Qcabs (p_fx p) + Qcabs (p_fr p) +
  qsum (map (fun i => Qcabs (nth i m 0 * (nth i (e_x e) 0 - nth i (p_ref p) 0))) (seq 0 (e_n e))).
Definition pair_ok (e : ecall) (p : pair) (m : list Qc) : bool :=
  close tol6 (pair_lhs e p m) (p_fx p - p_fr p) (pair_mag e p m).

(* model(x)[target] - mean over references of model(ref)[target] *)
Definition attr_rhs (e : ecall) : Qc :=
  qsum (map (fun p => p_fx p - p_fr p) (e_pairs e)) / fnat QcX (length (e_pairs e)).
Definition attr_mag (e : ecall) (a : list Qc) : Qc :=
  1 + qsum (map Qcabs a) + qsum (map (fun p => Qcabs (p_fx p) + Qcabs (p_fr p)) (e_pairs e)).
Definition attr_ok (e : ecall) (a : list Qc) : bool :=
  close tol6 (qsum a) (attr_rhs e) (attr_mag e a).

Definition ex_ok (e : ecall) (o : eout) : bool :=
  all2 (pair_ok e) (e_pairs e) (o_mult o) && attr_ok e (o_attr o).

Definition spec_ok (c : call) (o : outcome) : bool :=
  match o with
  | Err => false
  | Ok (outs, warned) => negb warned && all2 ex_ok (c_ex c) outs
  end.

(* ---- the model's outcome for the same call *)
(* one pair: multipliers and the two forward values at the target *)
Definition pair_eval (K : ops) (nout target : nat) (net : list (nlayer K)) (x ref : list K) : list K * (K * K) :=
  let rr := run K net x ref in
  (bw K (fst rr) (onehot K nout target),
   (nth target (fst (snd rr)) (f0 K), nth target (snd (snd rr)) (f0 K))).
Definition pair_ev (rounded : bool) (e : ecall) (p : pair) : list Qc * (Qc * Qc) :=
  pair_eval (QcO rounded) (e_nout e) (e_target e) (p_net p) (e_x e) (p_ref p).

Definition model_ex (rounded : bool) (e : ecall) : eout :=
  let ms := map (fun p => fst (pair_ev rounded e p)) (e_pairs e) in
  let refs := map p_ref (e_pairs e) in
  Out ms (hypothetical (QcO rounded) (e_A e) (e_L e) ms refs)
         (attributions (QcO rounded) (e_A e) (e_L e) (e_x e) ms refs).

Definition model (c : call) : outcome := Ok (map (model_ex (c_rounded c)) (c_ex c), false).

(* ---- pre-fix behaviour, kept for the refutation witnesses: [accum] = false is the tree before
   73d3caa (max_unpool overwrites), [share] = false the tree before 87dbf04 (the reference half
   of the max-pool rule weighted by the reference half's own incoming gradient) *)
Definition model_ex_v0 (accum share : bool) (e : ecall) : eout :=
  let ms := map (fun p => fst (bw2 QcX accum share (fst (run QcX (p_net p) (e_x e) (p_ref p)))
                                  (onehot QcX (e_nout e) (e_target e)))) (e_pairs e) in
  let refs := map p_ref (e_pairs e) in
  Out ms (hypothetical QcX (e_A e) (e_L e) ms refs) (attributions QcX (e_A e) (e_L e) (e_x e) ms refs).
Definition model_v0 (accum share : bool) (c : call) : outcome :=
  Ok (map (model_ex_v0 accum share) (c_ex c), false).

(* ---- correspondence: the implementation's numbers against the model's, 1e-9 relative to the
   largest entry of the vector; torch's forward values against the model's forward values *)
Definition tol9 : Qc := q 1 1000000000.
Definition qmax (a b : Qc) : Qc := if Qc_leb a b then b else a.
Definition vmag (v : list Qc) : Qc := fold_right (fun a acc => qmax (Qcabs a) acc) 1 v.
Definition vclose (n : nat) (a b : list Qc) : bool :=
  (length a =? n)%nat &&
  let s := vmag b in forallb (fun i => close tol9 (nth i a 0) (nth i b 0) s) (seq 0 n).

Definition fwd_close (rounded : bool) (e : ecall) (p : pair) : bool :=
  let '(_, (yx, yr)) := pair_ev rounded e p in
  if rounded then close tol9 yx (p_fx p) (1 + Qcabs yx) && close tol9 yr (p_fr p) (1 + Qcabs yr)
  else Qc_eq_bool yx (p_fx p) && Qc_eq_bool yr (p_fr p).

Definition eout_close (e : ecall) (o m : eout) : bool :=
  all2 (vclose (e_n e)) (o_mult o) (o_mult m) &&
  vclose (e_n e) (o_hyp o) (o_hyp m) && vclose (e_n e) (o_attr o) (o_attr m).

Definition outcome_close (c : call) (o m : outcome) : bool :=
  match o, m with
  | Ok (outs, w), Ok (mouts, w') =>
      Bool.eqb w w' &&
      all2 (fun e om => eout_close e (fst om) (snd om)) (c_ex c) (combine outs mouts) &&
      (length outs =? length mouts)%nat &&
      forallb (fun e => forallb (fwd_close (c_rounded c) e) (e_pairs e)) (c_ex c)
  | Err, Err => true
  | _, _ => false
  end.

(* decidable form of the hypotheses of the theorem (Proofs.exact_ecall); evaluated on every
   exact-mode case, so the cases that are run are inside the theorem's scope *)
Definition cols_oneb (A L : nat) (x : list Qc) : bool :=
  forallb (fun p => Qc_eq_bool (qsum (map (fun k => nth (k * L + p) x 0) (seq 0 A))) 1) (seq 0 L).
Definition exact_pairb (e : ecall) (p : pair) : bool :=
  (length (p_ref p) =? e_n e)%nat &&
  let rr := run QcX (p_net p) (e_x e) (p_ref p) in
  chainb QcX (fst rr) (e_x e) (p_ref p) (fst (snd rr)) (snd (snd rr)) &&
  (length (fst (snd rr)) =? e_nout e)%nat && (length (snd (snd rr)) =? e_nout e)%nat &&
  Qc_eq_bool (p_fx p) (nth (e_target e) (fst (snd rr)) 0) &&
  Qc_eq_bool (p_fr p) (nth (e_target e) (snd (snd rr)) 0).
Definition exact_ecallb (e : ecall) : bool :=
  (length (e_x e) =? e_n e)%nat && cols_oneb (e_A e) (e_L e) (e_x e) &&
  negb (length (e_pairs e) =? 0)%nat && (e_target e <? e_nout e)%nat &&
  forallb (exact_pairb e) (e_pairs e).

(* one correspondence case; [skip] marks a case the harness excluded (some |delta_in| in the
   ambiguous band [1e-9, 1e-4] of a switch): it is counted, not judged *)
Definition case := (call * outcome * bool)%type.

Definition check_case (c : case) : nat :=
  let '(cl, o, skip) := c in
  if skip then 0%nat
  else verdict (outcome_close cl o (model cl) && (c_rounded cl || forallb exact_ecallb (c_ex cl)))
               (spec_ok cl o).
