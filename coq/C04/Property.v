(* C04 - property theorems only.  Each is closed by [exact] of a lemma from Proofs.v. *)
From Coq Require Import QArith Qcanon.
From TM Require Import Base.Prelude Base.PyList C04.Model C04.Spec C04.Proofs.

(* For every batch of examples, every network of affine / element-wise / max-pool layers (any
   windows: overlapping, padded, dilated), every reference set and target: if the call is inside
   the scope [exact_ecall] (x is one-hot, there is at least one reference, the trace of every
   (example, reference) pair is the forward pass of that pair, the two halves of every recorded
   unit went through one function, no input difference lies in the ambiguous band of a switch, and
   p_fx / p_fr are the exact forward values), then the model's outcome satisfies the C04 spec:
   every pair has sum((x - ref) * multipliers) = f(x) - f(ref), the attributions sum to
   f(x) - mean f(ref), and there is no warning. *)
Theorem c04_completeness : forall exs,
  Forall exact_ecall exs -> spec_ok (C false exs) (model (C false exs)) = true.
Proof. exact spec_on_model. Qed.
Print Assumptions c04_completeness.

(* the same with the decidable scope check that coqc evaluates on every exact-mode case *)
Theorem c04_completeness_checked : forall exs,
  forallb exact_ecallb exs = true -> spec_ok (C false exs) (model (C false exs)) = true.
Proof. exact spec_on_model_b. Qed.
Print Assumptions c04_completeness_checked.

(* The statement behind it, over ANY field K with a total order (so also over the reals, where
   the smooth activations live): summation-to-delta for one (example, reference) pair ... *)
Theorem c04_pair_completeness : forall (K : ops),
  Field_theory.field_theory (f0 K) (f1 K) (fadd K) (fmul K) (fsub K) (fopp K) (fdiv K) (finv K) eq ->
  (forall a b : K, fleb K a b = true \/ fleb K b a = true) ->
  (forall a b c : K, fleb K a b = true -> fleb K b c = true -> fleb K a c = true) ->
  (forall a b : K, fleb K a b = true -> fleb K b a = true -> a = b) ->
  small6 K (f0 K) = true -> small7 K (f0 K) = true ->
  forall (net : list (layer K)) (x r yx yr : list K) (nout target : nat),
  chain K net x r yx yr -> length yx = nout -> length yr = nout -> (target < nout)%nat ->
  dot K (bw K net (onehot K nout target)) (vsub K x r) = fsub K (nth target yx (f0 K)) (nth target yr (f0 K)).
Proof. exact pair_completeness. Qed.
Print Assumptions c04_pair_completeness.

(* ... and the sum of the returned attributions of a one-hot example *)
Theorem c04_attributions_sum : forall (K : ops),
  Field_theory.field_theory (f0 K) (f1 K) (fadd K) (fmul K) (fsub K) (fopp K) (fdiv K) (finv K) eq ->
  (forall a b : K, fleb K a b = true \/ fleb K b a = true) ->
  (forall a b c : K, fleb K a b = true -> fleb K b c = true -> fleb K a c = true) ->
  (forall a b : K, fleb K a b = true -> fleb K b a = true -> a = b) ->
  forall (A L : nat) (x : list K) (ms refs : list (list K)),
  length x = (A * L)%nat -> cols_one K A L x ->
  Forall (fun ref => length ref = (A * L)%nat) refs -> length ms = length refs ->
  fnat K (length refs) <> f0 K ->
  vsum K (attributions K A L x ms refs) =
  fdiv K (vsum K (map2 (fun m ref => dot K m (vsub K x ref)) ms refs)) (fnat K (length refs)).
Proof. exact attributions_sum. Qed.
Print Assumptions c04_attributions_sum.

(* ---- witnesses.  W1: MaxPool1d(kernel 3, stride 1, padding 1) on a (2, 3) input, then a sum;
   in the reference all three windows of channel 0 share the arg-max at position 1. *)
Definition i1 : Qc := dy 1 0.
Definition w1_net : list (nlayer Qc) :=
  [NPool (pool_windows 2 3 3 1 1 1); NAffine [[i1; i1; i1; i1; i1; i1]] [z0]].
Definition w1_call : call :=
  C false [E 2 3 1 0 [z0; z0; i1;  i1; i1; z0]
             [P [z0; i1; z0;  i1; z0; i1] w1_net (dy 5 0) (dy 6 0)]].

(* W2: MaxPool1d(2) -> Conv1d(2, 1, 1) with weights (-2, -2) -> MaxPool1d(2) -> Linear(1, 1) with
   weight -2 on a (2, 4) input: the pre-pool differences of the second pool cancel. *)
Definition w2_net : list (nlayer Qc) :=
  [NPool (pool_windows 2 4 2 2 0 1);
   NAffine [[dy (-2) 0; z0; dy (-2) 0; z0]; [z0; dy (-2) 0; z0; dy (-2) 0]] [z0; z0];
   NPool (pool_windows 1 2 2 2 0 1);
   NAffine [[dy (-2) 0]] [z0]].
Definition w2_call : call :=
  C false [E 2 4 1 0 [i1; i1; z0; z0;  z0; z0; i1; i1]
             [P [i1; z0; i1; i1;  z0; i1; z0; z0] w2_net (dy 4 0) (dy 4 0)]].

(* the hypotheses of c04_completeness are satisfiable, by both witnesses *)
Example c04_scope_inhabited :
  forallb exact_ecallb (c_ex w1_call) = true /\ forallb exact_ecallb (c_ex w2_call) = true.
Proof. split; vm_compute; reflexivity. Qed.

(* finding #15: max_unpool overwrites when overlapping windows share an arg-max (before 73d3caa) *)
Lemma c04_maxpool_overlap_v0_refuted : exists c, spec_ok c (model_v0 false true c) = false.
Proof. exists w1_call. vm_compute. reflexivity. Qed.

(* second finding: the reference half of the max-pool rule was weighted by the reference half's
   own incoming gradient, which differs from the example half's after the gradient fallback of a
   downstream max-pool (before 87dbf04) *)
Lemma c04_maxpool_halves_v0_refuted : exists c, spec_ok c (model_v0 true false c) = false.
Proof. exists w2_call. vm_compute. reflexivity. Qed.

(* both witnesses are handled by the code as it is now *)
Example c04_witnesses_fixed :
  spec_ok w1_call (model w1_call) = true /\ spec_ok w2_call (model w2_call) = true.
Proof. split; vm_compute; reflexivity. Qed.
