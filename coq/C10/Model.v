(* C10 model: variant_effect.substitution_effect / deletion_effect / insertion_effect with an
   identity [func], i.e. the pair (X reaching func "before", X_var reaching func "after").
   Executable mirror of the code's arithmetic; no proofs here.

   A tensor of shape (B, A, L) is a [batch]: B sequences of L columns of A integers (the
   harness permutes (B,A,L) -> (B,L,A) when it prints literals).  Where the code works on the
   (B,A,L) memory order - the boolean-mask selection X[mask] followed by
   reshape(B, A, -1) - the model flattens in exactly that order (example, alphabet row,
   position) and re-chunks the flat list, so that unequal per-example counts spill across
   examples exactly as they do in torch.                                                     *)
From TM Require Import Base.Prelude Base.OneHot Base.PyList.
Open Scope Z_scope.

Record tensor := T { tA : nat; tL : nat; tX : batch }.

(* torch integer index into an axis of size n: a negative index wraps once, anything else
   outside [0, n) raises IndexError *)
Definition tidx (n : nat) (i : Z) : res nat :=
  if (0 <=? i) && (i <? Z.of_nat n) then Ok (Z.to_nat i)
  else if (- Z.of_nat n <=? i) && (i <? 0) then Ok (Z.to_nat (Z.of_nat n + i))
  else Err.

(* map with the element's index *)
Definition imap {U V} (f : nat -> U -> V) (l : list U) : list V := map2 f (seq 0 (length l)) l.

Definition sumZ (l : list Z) : Z := fold_right Z.add 0 l.
Definition maxZ (l : list Z) : Z := fold_right Z.max 0 l.   (* used on non-negative counts *)

(* ------------------------------------------------------------------------------------- *)
(* substitution_effect:
     X_var = clone(X)
     X_var[subs[:,0], :, subs[:,1]] = 0
     X_var[subs[:,0], subs[:,2], subs[:,1]] = 1
   Index assignment of a constant: every named cell receives the constant (repeated rows are
   idempotent); any index outside its axis raises.                                          *)

Definition norm3 (B L A : nat) (r : Z * Z * Z) : res (nat * nat * nat) :=
  let '(b, p, c) := r in
  do b' <- tidx B b ;; do p' <- tidx L p ;; do c' <- tidx A c ;; Ok (b', p', c').

Definition names_col (idx : list (nat * nat * nat)) (b p : nat) : bool :=
  existsb (fun r => let '(b', p', _) := r in (b' =? b)%nat && (p' =? p)%nat) idx.
Definition names_cell (idx : list (nat * nat * nat)) (b p a : nat) : bool :=
  existsb (fun r => let '(b', p', a') := r in (b' =? b)%nat && (p' =? p)%nat && (a' =? a)%nat) idx.

Definition substitution_effect (X : tensor) (subs : list (Z * Z * Z)) : res (batch * batch) :=
  do idx <- mapM (norm3 (length (tX X)) (tL X) (tA X)) subs ;;
  let X0 := imap (fun b x => imap (fun p c =>
                    if names_col idx b p then map (fun _ => 0) c else c) x) (tX X) in
  let X1 := imap (fun b x => imap (fun p c => imap (fun a v =>
                    if names_cell idx b p a then 1 else v) c) x) X0 in
  Ok (tX X, X1).

(* ------------------------------------------------------------------------------------- *)
(* deletion_effect *)

Definition norm2 (B L : nat) (r : Z * Z) : res (nat * nat) :=
  let '(b, p) := r in do b' <- tidx B b ;; do p' <- tidx L p ;; Ok (b', p').

Definition names_pos (idx : list (nat * nat)) (b p : nat) : bool :=
  existsb (fun r => (fst r =? b)%nat && (snd r =? p)%nat) idx.

(* mask = zeros(B, L, int32); mask[dels[:,0], dels[:,1]] = 1 *)
Definition mask_row (L : nat) (idx : list (nat * nat)) (b : nat) : list Z :=
  map (fun p => if names_pos idx b p then 1 else 0) (seq 0 L).

Fixpoint cumsum_from (acc : Z) (l : list Z) : list Z :=
  match l with
  | [] => []
  | x :: xs => (acc + x) :: cumsum_from (acc + x) xs
  end.
Definition cumsum := cumsum_from 0.

Definition b2z (b : bool) : Z := if b then 1 else 0.

(* m = mask if left else flip(mask); flank = cumsum(1 - m) <= count;
   mask += flank if left else flip(flank);
   after the fix:   mask = mask == 0
   before the fix:  mask = (1 - mask).bool()       (1 - 2 = -1 is truthy)                  *)
Definition keep_row (fixed left : bool) (cnt : Z) (mask : list Z) : list bool :=
  let m := if left then mask else rev mask in
  let flank := map (fun s => b2z (s <=? cnt)) (cumsum (map (fun v => 1 - v) m)) in
  let mask' := map2 Z.add mask (if left then flank else rev flank) in
  if fixed then map (fun v => v =? 0) mask' else map (fun v => negb (1 - v =? 0)) mask'.

(* boolean-mask selection along one row *)
Definition select {U} (keep : list bool) (l : list U) : list U :=
  map snd (filter fst (combine keep l)).

(* n consecutive chunks of width w of a flat list (reshape of contiguous memory) *)
Fixpoint rechunk {U} (n w : nat) (l : list U) : list (list U) :=
  match n with
  | O => []
  | S n' => firstn w l :: rechunk n' w (skipn w l)
  end.

(* flat.reshape(B, A, -1): the free dimension is numel / (B*A); torch raises when B*A = 0 or
   when numel is not a multiple of B*A *)
Definition reshape3 (B A : nat) (flat : list Z) : res (nat * list (list (list Z))) :=
  let n := length flat in
  let BA := (B * A)%nat in
  ensure negb (BA =? 0)%nat ;;
  ensure (n mod BA =? 0)%nat ;;
  let W := (n / BA)%nat in
  Ok (W, rechunk B A (rechunk BA W flat)).

(* alphabet row a of a sequence of columns *)
Definition arow (a : nat) (x : dna) : list Z := map (fun c => nth a c 0) x.

(* (A rows of W entries) -> W columns of A entries *)
Definition to_cols (W : nat) (rows : list (list Z)) : dna :=
  map (fun q => map (fun row => nth q row 0) rows) (seq 0 W).

Definition deletion_effect_gen (fixed : bool) (X : tensor) (dels : list (Z * Z)) (left : bool)
  : res (batch * batch) :=
  let B := length (tX X) in let A := tA X in let L := tL X in
  ensure negb (A =? 0)%nat ;;                       (* X[:, 0] *)
  do idx <- mapM (norm2 B L) dels ;;
  let mask := map (mask_row L idx) (seq 0 B) in
  let sums := map sumZ mask in
  ensure negb (B =? 0)%nat ;;                       (* counts.max() of an empty tensor *)
  let mx := maxZ sums in
  let counts := map (fun s => Z.abs (s - mx)) sums in
  let keeps := map2 (keep_row fixed left) counts mask in
  (* X[mask[:, None].repeat(1, A, 1)]: row-major over (example, alphabet row, position) *)
  let flat := concat (map2 (fun x keep =>
                 concat (map (fun a => select keep (arow a x)) (seq 0 A))) (tX X) keeps) in
  do WY <- reshape3 B A flat ;;
  let '(W, Y) := WY in
  let Xb := map (fun x => if left
                          then (if (W =? 0)%nat then x else skipn (L - W) x)   (* X[:, :, -W:] *)
                          else firstn W x) (tX X) in                            (* X[:, :, :W]  *)
  Ok (Xb, map (to_cols W) Y).

Definition deletion_effect := deletion_effect_gen true.
Definition deletion_effect_v0 := deletion_effect_gen false.   (* before fix 8c20fcb *)

(* ------------------------------------------------------------------------------------- *)
(* insertion_effect *)

Definition onehot (A c : nat) : col := map (fun a => if (a =? c)%nat then 1 else 0) (seq 0 A).

(* ersatz.insert(x, v, start=j) for a batch of one example and a one-column motif:
   both arguments are validated as one-hot, 0 <= j <= len(x), cat(prefix, motif, suffix) *)
Definition ersatz_insert1 (A : nat) (x : dna) (v : col) (j : Z) : res dna :=
  ensure valid_ohe A (length x) [x] ;;
  ensure valid_ohe A 1 [[v]] ;;
  ensure (0 <=? j) && (j <=? Z.of_nat (length x)) ;;
  Ok (firstn (Z.to_nat j) x ++ [v] ++ skipn (Z.to_nat j) x).

(* torch.argsort(positions, descending=True): insertion sort that keeps the original order
   among equal positions (torch does not specify that order; the property's scope is distinct
   positions, where every sorting algorithm returns the same list) *)
Fixpoint ins_desc (r : Z * Z) (l : list (Z * Z)) : list (Z * Z) :=
  match l with
  | [] => [r]
  | h :: t => if fst h <=? fst r then r :: l else h :: ins_desc r t
  end.
Definition sort_desc (l : list (Z * Z)) : list (Z * Z) := fold_right ins_desc [] l.

(* v = zeros(1, A, 1); v[:, char] = 1; x = insert(x, v, start=j) *)
Definition ins_step (A : nat) (acc : res dna) (r : Z * Z) : res dna :=
  do x <- acc ;; do c <- tidx A (snd r) ;; ersatz_insert1 A x (onehot A c) (fst r).

Definition rows_of (ins : list (Z * Z * Z)) (i : nat) : list (Z * Z) :=
  map (fun r => (snd (fst r), snd r)) (filter (fun r => fst (fst r) =? Z.of_nat i) ins).

Definition insertion_effect_gen (fixed : bool) (X : tensor) (ins : list (Z * Z * Z)) (left : bool)
  : res (batch * batch) :=
  let B := length (tX X) in let A := tA X in let L := tL X in
  (* after fix 6559b66: an example index outside [0, B) raises; before, such rows matched no
     example and were dropped silently *)
  ensure (negb fixed || forallb (fun r => (0 <=? fst (fst r)) && (fst (fst r) <? Z.of_nat B)) ins) ;;
  do Y <- mapM (fun ix =>
                  let '(i, x) := ix in
                  do y <- fold_left (ins_step A) (sort_desc (rows_of ins i)) (Ok x) ;;
                  Ok (if left
                      then (if (L =? 0)%nat then y else skipn (length y - L) y)   (* x[:, :, -L:] *)
                      else firstn L y))                                           (* x[:, :, :L]  *)
               (combine (seq 0 B) (tX X)) ;;
  Ok (tX X, Y).

Definition insertion_effect := insertion_effect_gen true.
Definition insertion_effect_v0 := insertion_effect_gen false.   (* before fix 6559b66 *)
