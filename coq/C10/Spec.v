(* C10 spec: "variant-effect functions evaluate exactly the string-level edited sequences".
   The property as a decidable relation between a call and the pair of tensors that reached
   [func] (before, after), stated on strings (lists of characters, a character being a
   one-hot column) by enumeration of coordinates - no mask, cumsum or reshape in here.       *)
From TM Require Import Base.Prelude Base.OneHot Base.PyList C10.Model.
Open Scope Z_scope.

Inductive call :=
| CSub (X : tensor) (subs : list (Z * Z * Z))              (* rows (example, position, char) *)
| CDel (X : tensor) (dels : list (Z * Z)) (left : bool)    (* rows (example, position)       *)
| CIns (X : tensor) (ins : list (Z * Z * Z)) (left : bool).

(* what the identity func saw: (X "before", X_var "after"), or the call raised *)
Definition outcome := res (batch * batch).

(* ---------- string-level edits, for any type of character ---------- *)
Section Strings.
  Context {U : Type}.

  (* the characters of s paired with their original coordinates *)
  Definition indexed (s : list U) : list (nat * U) := combine (seq 0 (length s)) s.

  Definition mem (p : nat) (D : list nat) : bool := existsb (Nat.eqb p) D.

  (* remove the characters at the named coordinates *)
  Definition remove_named (D : list nat) (s : list U) : list U :=
    map snd (filter (fun ic => negb (mem (fst ic) D)) (indexed s)).

  (* drop k characters from the chosen side *)
  Definition trim (left : bool) (k : nat) (s : list U) : list U :=
    if left then skipn k s else firstn (length s - k) s.

  (* keep n characters, dropping the overhang from the chosen side *)
  Definition keep_len (left : bool) (n : nat) (s : list U) : list U :=
    if left then skipn (length s - n) s else firstn n s.

  (* overwrite the characters at the named coordinates *)
  Definition overwrite (named : nat -> option U) (s : list U) : list U :=
    map (fun ic => match named (fst ic) with Some u => u | None => snd ic end) (indexed s).

  (* place the characters [ins i] immediately before original coordinate i (i = length s:
     at the very end); [i] is the coordinate of the head of s *)
  Fixpoint weave (i : nat) (s : list U) (ins : nat -> list U) : list U :=
    match s with
    | [] => ins i
    | c :: cs => ins i ++ c :: weave (S i) cs ins
    end.
End Strings.

(* the character with index c of an alphabet of size A, as a one-hot column *)
Definition letter (A c : nat) : col := repeat 0 c ++ 1 :: repeat 0 (A - S c).

(* ---------- scope ---------- *)
Definition shape_ok (X : tensor) : bool :=
  rect (tL X) (tX X) && forallb (forallb (fun c => (length c =? tA X)%nat)) (tX X).

Definition all2 {U V} (f : U -> V -> bool) (l1 : list U) (l2 : list V) : bool :=
  (length l1 =? length l2)%nat && forallb (fun p => f (fst p) (snd p)) (combine l1 l2).

(* every example: f (its index) (the example) (the observed sequence) *)
Definition each_example (X Y : batch) (f : nat -> dna -> dna -> bool) : bool :=
  (length Y =? length X)%nat &&
  forallb (fun i => f i (nth i X []) (nth i Y [])) (seq 0 (length X)).

Definition nn3 (r : Z * Z * Z) : bool :=
  let '(b, p, c) := r in (0 <=? b) && (0 <=? p) && (0 <=? c).
Definition nn2 (r : Z * Z) : bool := (0 <=? fst r) && (0 <=? snd r).

(* rows of example i, as natural numbers (only used on non-negative rows) *)
Definition sub_at (subs : list (Z * Z * Z)) (i p : nat) : option nat :=
  match find (fun r => let '(b, q, _) := r in (b =? Z.of_nat i) && (q =? Z.of_nat p)) subs with
  | Some (_, _, c) => Some (Z.to_nat c)
  | None => None
  end.

Definition dels_of (dels : list (Z * Z)) (i : nat) : list nat :=
  map (fun r => Z.to_nat (snd r)) (filter (fun r => fst r =? Z.of_nat i) dels).

(* no two rows name the same (example, position) with different characters *)
Definition no_conflict (subs : list (Z * Z * Z)) : bool :=
  forallb (fun r => forallb (fun r' =>
    let '(b, p, c) := r in let '(b', p', c') := r' in
    negb ((b =? b') && (p =? p')) || (c =? c')) subs) subs.

(* no two rows name the same (example, position) *)
Fixpoint distinct_pos (ins : list (Z * Z * Z)) : bool :=
  match ins with
  | [] => true
  | r :: rs => negb (existsb (fun r' => (fst (fst r') =? fst (fst r)) && (snd (fst r') =? snd (fst r))) rs)
               && distinct_pos rs
  end.

(* number of characters example x loses to its own deletions *)
Definition lost (D : list nat) (x : dna) : nat := length x - length (remove_named D x).

Definition max_nat (l : list nat) : nat := fold_right Nat.max 0%nat l.

(* ---------- the property ---------- *)
(* the clauses that depend on the scope of the variant table *)
Definition spec_core (c : call) (o : outcome) : bool :=
  match c with
  | CSub X subs =>
      let B := length (tX X) in let A := tA X in let L := tL X in
      if shape_ok X && forallb nn3 subs && no_conflict subs then
        if forallb (fun r => let '(b, p, ch) := r in
                      (b <? Z.of_nat B) && (p <? Z.of_nat L) && (ch <? Z.of_nat A)) subs then
          match o with
          | Ok (Xb, Y) =>
              batch_eqb Xb (tX X) &&
              each_example (tX X) Y (fun i x y =>
                dna_eqb y (overwrite (fun p => option_map (letter A) (sub_at subs i p)) x))
          | Err => false
          end
        else negb (is_ok o)       (* a variant that cannot be honoured must raise *)
      else true
  | CDel X dels lft =>
      let B := length (tX X) in let A := tA X in let L := tL X in
      if shape_ok X && (1 <=? B)%nat && (1 <=? A)%nat && forallb nn2 dels then
        if forallb (fun r => (fst r <? Z.of_nat B) && (snd r <? Z.of_nat L)) dels then
          let mx := max_nat (map (fun ix => lost (dels_of dels (fst ix)) (snd ix)) (indexed (tX X))) in
          if (mx <? L)%nat then
            match o with
            | Ok (Xb, Y) =>
                each_example (tX X) Xb (fun _ x y => dna_eqb y (trim lft mx x)) &&
                each_example (tX X) Y (fun i x y =>
                  let D := dels_of dels i in
                  dna_eqb y (trim lft (mx - lost D x) (remove_named D x)))
            | Err => false
            end
          else true                (* nothing would be lft: the text is silent *)
        else negb (is_ok o)
      else true
  | CIns X ins lft =>
      let B := length (tX X) in let A := tA X in let L := tL X in
      if shape_ok X && forallb nn3 ins && distinct_pos ins
         && forallb (fun x => valid_ohe A L [x]) (tX X) then
        if forallb (fun r => let '(b, p, ch) := r in
                      (b <? Z.of_nat B) && (p <=? Z.of_nat L) && (ch <? Z.of_nat A)) ins then
          match o with
          | Ok (Xb, Y) =>
              batch_eqb Xb (tX X) &&
              each_example (tX X) Y (fun i x y =>
                dna_eqb y (keep_len lft L
                  (weave 0 x (fun p => match sub_at ins i p with
                                       | Some ch => [letter A ch]
                                       | None => []
                                       end))))
          | Err => false
          end
        else negb (is_ok o)
      else true
  end.

(* "the 'before' output is func on the reference sequence trimmed to the same length from the
   same side": substitutions and insertions keep the length, so whenever such a call returns -
   whatever the variant table - 'before' is the reference itself.  (For deletions the common
   length depends on the table; that clause is in [spec_core].) *)
Definition before_ok (c : call) (o : outcome) : bool :=
  match c, o with
  | CSub X _, Ok (Xb, _) => batch_eqb Xb (tX X)
  | CIns X _ _, Ok (Xb, _) => batch_eqb Xb (tX X)
  | _, _ => true
  end.

Definition spec_ok (c : call) (o : outcome) : bool := before_ok c o && spec_core c o.

Definition model (c : call) : outcome :=
  match c with
  | CSub X subs => substitution_effect X subs
  | CDel X dels lft => deletion_effect X dels lft
  | CIns X ins lft => insertion_effect X ins lft
  end.

(* the code before the two fix commits *)
Definition model_v0 (c : call) : outcome :=
  match c with
  | CSub X subs => substitution_effect X subs
  | CDel X dels lft => deletion_effect_v0 X dels lft
  | CIns X ins lft => insertion_effect_v0 X ins lft
  end.

Definition outcome_eqb (o1 o2 : outcome) : bool :=
  res_eqb (fun p q => batch_eqb (fst p) (fst q) && batch_eqb (snd p) (snd q)) o1 o2.

(* one correspondence case: the call, the pair of tensors that reached func (or "raised"), and
   one bit observed by the harness that has no counterpart in the functional model: every call of
   func received the caller's model, args and keyword arguments ("apply func", not some other
   function of the sequences) *)
Definition case := (call * outcome * bool)%type.

Definition check_case (c : case) : nat :=
  let '(cl, o, plumbed) := c in verdict (outcome_eqb o (model cl)) (plumbed && spec_ok cl o).
