(* C10 - property theorems only.  Each is closed by [exact] of a lemma from Proofs.v.

   "substitution_effect, deletion_effect and insertion_effect apply func to exactly the
   sequences obtained by editing each example at the string level with its own listed variants"

   [model] mirrors the arithmetic of tangermeme/variant_effect.py (+ ersatz.insert) after the fix
   commits 8c20fcb and 6559b66; [spec_ok] is the string-level statement (Spec.v).  The theorems
   quantify over every tensor (any batch size, alphabet, length, cell contents), every variant
   table and both trim sides.                                                                  *)
From TM Require Import Base.Prelude Base.OneHot C10.Model C10.Spec C10.Proofs.
Open Scope Z_scope.

(* substitutions (rows distinct, or repeated identically) overwrite exactly the named positions
   with the named character, "before" is X itself, and a row whose example, position or
   character is outside its axis makes the call raise *)
Theorem c10_subst_spec : forall X subs, spec_ok (CSub X subs) (model (CSub X subs)) = true.
Proof. exact sub_spec. Qed.
Print Assumptions c10_subst_spec.

(* deletions: for every batch, every deletion table, both sides: example b is its own string
   minus its named positions, minus the first (left) / last (right) max - d_b of the remaining
   positions; "before" is the reference minus its first / last max positions; an out-of-range
   row raises *)
Theorem c10_deletion_spec : forall X dels left,
  spec_ok (CDel X dels left) (model (CDel X dels left)) = true.
Proof. exact del_spec. Qed.
Print Assumptions c10_deletion_spec.

(* the same, spelled out: the call succeeds, every example has length L - max, and is the
   string-level edit *)
Theorem c10_deletion_explicit : forall X dels left,
  shape_ok X = true -> (1 <= length (tX X))%nat -> (1 <= tA X)%nat ->
  (forall r, In r dels -> 0 <= fst r < Z.of_nat (length (tX X)) /\ 0 <= snd r < Z.of_nat (tL X)) ->
  (del_total X dels < tL X)%nat ->
  exists Xb Y,
    deletion_effect X dels left = Ok (Xb, Y) /\
    length Xb = length (tX X) /\ length Y = length (tX X) /\
    forall i, (i < length (tX X))%nat ->
      let x := nth i (tX X) [] in
      let D := dels_of dels i in
      nth i Xb [] = trim left (del_total X dels) x /\
      nth i Y [] = trim left (del_total X dels - lost D x) (remove_named D x) /\
      length (nth i Y []) = (tL X - del_total X dels)%nat.
Proof. exact del_explicit. Qed.
Print Assumptions c10_deletion_explicit.

(* variants of one example never alter another (beyond the common total the property names) *)
Theorem c10_deletion_local : forall X dels dels' left i,
  shape_ok X = true -> (1 <= length (tX X))%nat -> (1 <= tA X)%nat ->
  (forall r, In r dels -> 0 <= fst r < Z.of_nat (length (tX X)) /\ 0 <= snd r < Z.of_nat (tL X)) ->
  (forall r, In r dels' -> 0 <= fst r < Z.of_nat (length (tX X)) /\ 0 <= snd r < Z.of_nat (tL X)) ->
  (del_total X dels < tL X)%nat ->
  (i < length (tX X))%nat ->
  dels_of dels i = dels_of dels' i -> del_total X dels = del_total X dels' ->
  forall Xb Y Xb' Y', deletion_effect X dels left = Ok (Xb, Y) -> deletion_effect X dels' left = Ok (Xb', Y') ->
  nth i Y [] = nth i Y' [].
Proof. exact del_local. Qed.
Print Assumptions c10_deletion_local.

(* insertions (distinct positions per example, one-hot input): every character ends up
   immediately before its original coordinate (coordinate L = at the end), the overhang is cut
   from the chosen side, "before" is X; an example index outside the batch, a position > L or a
   character outside the alphabet raises *)
Theorem c10_insertion_spec : forall X ins left,
  spec_ok (CIns X ins left) (model (CIns X ins left)) = true.
Proof. exact ins_spec. Qed.
Print Assumptions c10_insertion_spec.

(* the hypotheses are satisfiable and the conclusions are not vacuous: ACGTACGTAC / TGCATGCATG *)
Definition ex_s1 : dna := map (letter 4) [0;1;2;3;0;1;2;3;0;1]%nat.
Definition ex_s2 : dna := map (letter 4) [3;2;1;0;3;2;1;0;3;2]%nat.
Definition ex_X := T 4 10 [ex_s1; ex_s2].

Example c10_deletion_example :
  shape_ok ex_X = true /\ del_total ex_X [(0,9);(1,2);(1,3)] = 2%nat /\
  deletion_effect ex_X [(0,9);(1,2);(1,3)] false
  = Ok ([map (letter 4) [0;1;2;3;0;1;2;3]%nat; map (letter 4) [3;2;1;0;3;2;1;0]%nat],
        [map (letter 4) [0;1;2;3;0;1;2;3]%nat; map (letter 4) [3;2;3;2;1;0;3;2]%nat]).
Proof. vm_compute. repeat split. Qed.

Example c10_insertion_example :
  insertion_effect ex_X [(0,0,3);(0,10,2);(1,5,0)] true
  = Ok (tX ex_X, [map (letter 4) [1;2;3;0;1;2;3;0;1;2]%nat; map (letter 4) [2;1;0;3;0;2;1;0;3;2]%nat])
  /\ is_ok (insertion_effect ex_X [(0,11,3)] true) = false
  /\ is_ok (substitution_effect ex_X [(0,10,3)]) = false
  /\ is_ok (deletion_effect ex_X [(2,1)] false) = false.
Proof. vm_compute. repeat split. Qed.

(* ---------- the behaviour before the fix commits violates the property ---------- *)

(* before 8c20fcb: one sequence of length 10, delete position 9, trim right -> position 9 is both
   deleted and inside the (empty-count) flank, 1 - 2 = -1 is truthy, nothing is deleted *)
Lemma deletion_v0_refuted : exists c, spec_ok c (model_v0 c) = false.
Proof. exists (CDel (T 4 10 [ex_s1]) [(0, 9)] false). vm_compute. reflexivity. Qed.

(* with two examples the kept counts differ and reshape raises (or, with equal counts, the
   batch is silently returned unedited) *)
Lemma deletion_v0_refuted_batch :
  model_v0 (CDel ex_X [(0,9);(1,2);(1,3)] false) = Err /\
  model_v0 (CDel ex_X [(0,9);(1,9)] false) = Ok (tX ex_X, tX ex_X) /\
  spec_ok (CDel ex_X [(0,9);(1,9)] false) (model_v0 (CDel ex_X [(0,9);(1,9)] false)) = false.
Proof. vm_compute. repeat split. Qed.

(* before 6559b66: an insertion naming example 2 of a batch of 2 was dropped silently *)
Lemma insertion_v0_refuted : exists c, spec_ok c (model_v0 c) = false.
Proof. exists (CIns ex_X [(2, 1, 3)] true). vm_compute. reflexivity. Qed.
