(* C10 proofs: the mask / cumsum / flatten-and-rechunk arithmetic of the model computes the
   string-level edits of the spec. *)
From TM Require Import Base.Prelude Base.OneHot Base.PyList C10.Model C10.Spec.
Open Scope Z_scope.

(* ====================================================================================== *)
(* general list lemmas *)

Lemma forallb_seq (f : nat -> bool) n :
  forallb f (seq 0 n) = true <-> (forall q, (q < n)%nat -> f q = true).
Proof.
  rewrite forallb_forall. split; intros H q Hq.
  - apply H. apply in_seq. lia.
  - apply in_seq in Hq. apply H. lia.
Qed.

Lemma nth_map_seq {U} (F : nat -> U) n i d : (i < n)%nat -> nth i (map F (seq 0 n)) d = F i.
Proof.
  intros H. rewrite nth_indep with (d' := F 0%nat) by (rewrite map_length, seq_length; lia).
  rewrite map_nth, seq_nth by lia. reflexivity.
Qed.

Lemma map_nth_seq {U} (l : list U) d : map (fun i => nth i l d) (seq 0 (length l)) = l.
Proof.
  apply nth_ext with (d := d) (d' := d).
  - rewrite map_length, seq_length. reflexivity.
  - intros n Hn. rewrite map_length, seq_length in Hn.
    rewrite (nth_map_seq (fun i => nth i l d)) by exact Hn. reflexivity.
Qed.

Lemma map2_cons {U V W} (f : U -> V -> W) a l1 b l2 :
  map2 f (a :: l1) (b :: l2) = f a b :: map2 f l1 l2.
Proof. reflexivity. Qed.

Lemma map2_map_same {S U V W} (f : U -> V -> W) (g : S -> U) (h : S -> V) l :
  map2 f (map g l) (map h l) = map (fun s => f (g s) (h s)) l.
Proof. induction l as [|s l IH]; [reflexivity|]. cbn [map]. rewrite map2_cons, IH. reflexivity. Qed.

Lemma imap_length {U V} (f : nat -> U -> V) l : length (imap f l) = length l.
Proof. unfold imap. rewrite map2_length; rewrite seq_length; reflexivity. Qed.

Lemma nth_imap {U V} (f : nat -> U -> V) l i du dv :
  (i < length l)%nat -> nth i (imap f l) dv = f i (nth i l du).
Proof.
  intros H. unfold imap.
  rewrite nth_map2 with (da := 0%nat) (db := du) by (rewrite seq_length; lia).
  rewrite seq_nth by lia. reflexivity.
Qed.

Lemma imap_as_map {U V} (f : nat -> U -> V) l d :
  imap f l = map (fun i => f i (nth i l d)) (seq 0 (length l)).
Proof.
  apply nth_ext with (d := f 0%nat d) (d' := f 0%nat d).
  - rewrite imap_length, map_length, seq_length. reflexivity.
  - intros n Hn. rewrite imap_length in Hn. rewrite nth_imap with (du := d) by lia.
    rewrite nth_map_seq by lia. reflexivity.
Qed.

Lemma mapM_ok {U V} (f : U -> res V) (g : U -> V) l :
  (forall x, In x l -> f x = Ok (g x)) -> mapM f l = Ok (map g l).
Proof.
  induction l as [|x l IH]; intros H; [reflexivity|].
  cbn [mapM map]. rewrite (H x) by (left; reflexivity). cbn [bind].
  rewrite IH by (intros y Hy; apply H; right; exact Hy). reflexivity.
Qed.

Lemma mapM_err {U V} (f : U -> res V) l x : In x l -> f x = Err -> mapM f l = Err.
Proof.
  induction l as [|y l IH]; intros Hin Hx; [destruct Hin|].
  cbn [mapM]. destruct Hin as [->|Hin].
  - rewrite Hx. reflexivity.
  - destruct (f y); [|reflexivity]. cbn [bind]. rewrite (IH Hin Hx). reflexivity.
Qed.

Lemma forallb_false_ex {U} (f : U -> bool) l : forallb f l = false -> exists x, In x l /\ f x = false.
Proof.
  induction l as [|x l IH]; cbn; [discriminate|].
  destruct (f x) eqn:E; cbn.
  - intros H. destruct (IH H) as [y [Hy Hf]]. exists y. auto.
  - intros _. exists x. auto.
Qed.

Lemma dna_eqb_refl (s : dna) : dna_eqb s s = true.
Proof. apply dna_eqb_spec. reflexivity. Qed.
Lemma batch_eqb_refl (s : batch) : batch_eqb s s = true.
Proof. apply batch_eqb_spec. reflexivity. Qed.

Lemma tidx_in n i : 0 <= i < Z.of_nat n -> tidx n i = Ok (Z.to_nat i).
Proof.
  intros H. unfold tidx.
  destruct (Z.leb_spec 0 i); [|lia]. destruct (Z.ltb_spec i (Z.of_nat n)); [|lia]. reflexivity.
Qed.

Lemma tidx_above n i : Z.of_nat n <= i -> tidx n i = Err.
Proof.
  intros H. unfold tidx.
  destruct (Z.ltb_spec i (Z.of_nat n)); [lia|]. rewrite andb_false_r.
  destruct (Z.ltb_spec i 0); [lia|]. rewrite andb_false_r. reflexivity.
Qed.

(* shape facts *)
Lemma shape_ok_inv X : shape_ok X = true ->
  forall i, (i < length (tX X))%nat ->
    length (nth i (tX X) []) = tL X /\
    forall p, (p < tL X)%nat -> length (nth p (nth i (tX X) []) []) = tA X.
Proof.
  unfold shape_ok, rect. intros H i Hi. apply andb_true_iff in H as [H1 H2].
  rewrite forallb_forall in H1, H2.
  assert (Hin : In (nth i (tX X) []) (tX X)) by (apply nth_In; exact Hi).
  pose proof (H1 _ Hin) as HL. apply Nat.eqb_eq in HL. split; [exact HL|].
  intros p Hp. pose proof (H2 _ Hin) as HA. rewrite forallb_forall in HA.
  apply Nat.eqb_eq. apply HA. apply nth_In. lia.
Qed.

(* ====================================================================================== *)
(* the one-hot column of a character *)

Lemma onehot_letter A c : (c < A)%nat -> onehot A c = letter A c.
Proof.
  intros H. unfold onehot, letter.
  apply nth_ext with (d := 0) (d' := 0).
  - rewrite map_length, seq_length, app_length. cbn [length]. rewrite !repeat_length. lia.
  - intros a Ha. rewrite map_length, seq_length in Ha.
    rewrite nth_map_seq by lia.
    destruct (Nat.eqb_spec a c) as [->|Hne].
    + rewrite app_nth2 by (rewrite repeat_length; lia). rewrite repeat_length, Nat.sub_diag. reflexivity.
    + destruct (Nat.lt_ge_cases a c) as [Hlt|Hge].
      * rewrite app_nth1 by (rewrite repeat_length; lia). symmetry. apply nth_repeat.
      * rewrite app_nth2 by (rewrite repeat_length; lia). rewrite repeat_length.
        destruct (a - c)%nat as [|k] eqn:E; [lia|]. cbn [nth]. symmetry. apply nth_repeat.
Qed.

(* ====================================================================================== *)
(* substitution_effect *)

Definition nat3 (r : Z * Z * Z) : nat * nat * nat :=
  let '(b, p, c) := r in (Z.to_nat b, Z.to_nat p, Z.to_nat c).

Definition in3 (B L A : nat) (r : Z * Z * Z) : bool :=
  let '(b, p, ch) := r in (b <? Z.of_nat B) && (p <? Z.of_nat L) && (ch <? Z.of_nat A).

Lemma norm3_in B L A r : nn3 r = true -> in3 B L A r = true -> norm3 B L A r = Ok (nat3 r).
Proof.
  destruct r as [[b p] c]. unfold nn3, in3, norm3, nat3. intros H1 H2.
  rewrite !andb_true_iff in H1, H2. destruct H1 as [[? ?] ?], H2 as [[? ?] ?].
  rewrite !tidx_in by lia. reflexivity.
Qed.

Lemma norm3_out B L A r : nn3 r = true -> in3 B L A r = false -> norm3 B L A r = Err.
Proof.
  destruct r as [[b p] c]. unfold nn3, in3, norm3. intros H1 H2.
  rewrite !andb_true_iff in H1. destruct H1 as [[? ?] ?].
  destruct (Z.ltb_spec b (Z.of_nat B)); [|rewrite tidx_above by lia; reflexivity].
  rewrite tidx_in by lia. cbn [bind].
  destruct (Z.ltb_spec p (Z.of_nat L)); [|rewrite tidx_above by lia; reflexivity].
  rewrite tidx_in by lia. cbn [bind].
  destruct (Z.ltb_spec c (Z.of_nat A)); [discriminate|rewrite tidx_above by lia; reflexivity].
Qed.

Definition row_at (i p : nat) (r : Z * Z * Z) : bool :=
  let '(b, q, _) := r in (b =? Z.of_nat i) && (q =? Z.of_nat p).

Lemma eqb_nat_Z v n : 0 <= v -> (Z.to_nat v =? n)%nat = (v =? Z.of_nat n).
Proof. intros H. destruct (Nat.eqb_spec (Z.to_nat v) n), (Z.eqb_spec v (Z.of_nat n)); try lia; reflexivity. Qed.

Lemma names_col_nat3 subs i p : forallb nn3 subs = true ->
  names_col (map nat3 subs) i p = existsb (row_at i p) subs.
Proof.
  induction subs as [|[[b q] c] subs IH]; intros H; [reflexivity|].
  cbn [forallb] in H. apply andb_true_iff in H as [Hr H].
  cbn [map existsb names_col nat3 row_at]. fold (names_col (map nat3 subs) i p). rewrite (IH H). f_equal.
  unfold nn3 in Hr. rewrite !andb_true_iff in Hr. destruct Hr as [[? ?] ?].
  rewrite !eqb_nat_Z by lia. reflexivity.
Qed.

Lemma names_cell_nat3 subs i p a : forallb nn3 subs = true ->
  names_cell (map nat3 subs) i p a =
  existsb (fun r => row_at i p r && (snd r =? Z.of_nat a)) subs.
Proof.
  induction subs as [|[[b q] c] subs IH]; intros H; [reflexivity|].
  cbn [forallb] in H. apply andb_true_iff in H as [Hr H].
  cbn [map existsb names_cell nat3 row_at snd]. fold (names_cell (map nat3 subs) i p a). rewrite (IH H). f_equal.
  unfold nn3 in Hr. rewrite !andb_true_iff in Hr. destruct Hr as [[? ?] ?].
  rewrite !eqb_nat_Z by lia. reflexivity.
Qed.

Lemma existsb_find {U} (g : U -> bool) l :
  existsb g l = match find g l with Some _ => true | None => false end.
Proof. induction l as [|x l IH]; [reflexivity|]. cbn. destruct (g x); [reflexivity|exact IH]. Qed.

Lemma no_conflict_inv subs r r' : no_conflict subs = true -> In r subs -> In r' subs ->
  fst (fst r) = fst (fst r') -> snd (fst r) = snd (fst r') -> snd r = snd r'.
Proof.
  unfold no_conflict. intros H Hr Hr' Hb Hp. rewrite forallb_forall in H.
  specialize (H r Hr). rewrite forallb_forall in H. specialize (H r' Hr').
  destruct r as [[b p] c], r' as [[b' p'] c']. cbn in *. subst b' p'.
  rewrite !Z.eqb_refl in H. cbn in H. apply Z.eqb_eq. exact H.
Qed.

Lemma sub_at_unfold subs i p :
  sub_at subs i p = match find (row_at i p) subs with
                    | Some r => Some (Z.to_nat (snd r)) | None => None end.
Proof.
  unfold sub_at. change (fun r : Z * Z * Z => let '(b, q, _) := r in (b =? Z.of_nat i) && (q =? Z.of_nat p))
    with (row_at i p).
  destruct (find (row_at i p) subs) as [[[b q] c]|]; reflexivity.
Qed.

Lemma const_col (c : col) a : nth a (map (fun _ : Z => 0) c) 0 = 0.
Proof. revert a; induction c as [|v c IH]; intros [|a]; cbn; auto. Qed.

Lemma sub_core X subs : spec_core (CSub X subs) (model (CSub X subs)) = true.
Proof.
  cbn [spec_core model].
  destruct (shape_ok X && forallb nn3 subs && no_conflict subs) eqn:Hscope; [|reflexivity].
  rewrite !andb_true_iff in Hscope. destruct Hscope as [[Hshape Hnn] Hnc].
  set (B := length (tX X)). set (A := tA X). set (L := tL X).
  change (fun r : Z * Z * Z => let '(b, p, ch) := r in
            (b <? Z.of_nat B) && (p <? Z.of_nat L) && (ch <? Z.of_nat A)) with (in3 B L A).
  unfold substitution_effect. fold B A L.
  destruct (forallb (in3 B L A) subs) eqn:Hin.
  - (* every row can be honoured *)
    rewrite forallb_forall in Hin, Hnn.
    rewrite (mapM_ok _ nat3) by (intros r Hr; apply norm3_in; auto).
    cbn [bind]. rewrite batch_eqb_refl. cbn [andb].
    assert (Hnn' : forallb nn3 subs = true) by (apply forallb_forall; exact Hnn).
    unfold each_example. rewrite !imap_length, Nat.eqb_refl. cbn [andb].
    apply forallb_seq. intros i Hi. fold B in Hi. apply dna_eqb_spec.
    destruct (shape_ok_inv X Hshape i Hi) as [HL HA]. fold L in HL. fold A in HA.
    rewrite nth_imap with (du := []) by (rewrite imap_length; exact Hi).
    rewrite nth_imap with (du := []) by exact Hi.
    set (x := nth i (tX X) []) in *.
    change (overwrite (fun p => option_map (letter A) (sub_at subs i p)) x)
      with (imap (fun p c => match option_map (letter A) (sub_at subs i p) with
                             | Some u => u | None => c end) x).
    apply nth_ext with (d := []) (d' := []); [rewrite !imap_length; reflexivity|].
    intros p Hp. rewrite !imap_length in Hp.
    rewrite nth_imap with (du := []) by (rewrite imap_length; exact Hp).
    rewrite nth_imap with (du := []) by exact Hp.
    rewrite nth_imap with (du := []) by exact Hp.
    assert (Hc : length (nth p x []) = A) by (apply HA; lia).
    set (c := nth p x []) in *.
    rewrite names_col_nat3 by exact Hnn'. rewrite existsb_find, sub_at_unfold.
    destruct (find (row_at i p) subs) as [r0|] eqn:Hfind; cbn [option_map].
    + (* named: the column becomes the letter *)
      apply find_some in Hfind as [Hin0 Hr0].
      assert (Hch : (Z.to_nat (snd r0) < A)%nat).
      { pose proof (Hin _ Hin0) as H1. pose proof (Hnn _ Hin0) as H2.
        destruct r0 as [[b q] ch]. unfold in3 in H1. unfold nn3 in H2. cbn [snd].
        rewrite !andb_true_iff in H1, H2. lia. }
      rewrite <- onehot_letter by exact Hch. unfold onehot.
      rewrite imap_as_map with (d := 0). rewrite map_length, Hc.
      apply map_ext_in. intros a Ha. apply in_seq in Ha.
      rewrite names_cell_nat3 by exact Hnn'. rewrite const_col.
      destruct (Nat.eqb_spec a (Z.to_nat (snd r0))) as [->|Hne].
      * replace (existsb _ subs) with true; [reflexivity|]. symmetry. apply existsb_exists.
        exists r0. split; [exact Hin0|]. rewrite Hr0. cbn [andb]. apply Z.eqb_eq.
        pose proof (Hnn _ Hin0) as H2. destruct r0 as [[b q] ch]. unfold nn3 in H2. cbn [snd].
        rewrite !andb_true_iff in H2. lia.
      * replace (existsb _ subs) with false; [reflexivity|]. symmetry. apply not_true_is_false.
        intros Hex. apply existsb_exists in Hex as [r [Hinr Hr]]. apply andb_true_iff in Hr as [Hr1 Hr2].
        apply Z.eqb_eq in Hr2. apply Hne.
        assert (snd r0 = snd r).
        { apply (no_conflict_inv subs); auto;
          destruct r0 as [[b0 q0] c0], r as [[b1 q1] c1]; cbn in *;
          apply andb_true_iff in Hr0 as [E1 E2], Hr1 as [E3 E4];
          apply Z.eqb_eq in E1, E2, E3, E4; congruence. }
        rewrite H, Hr2. lia.
    + (* not named: the column is untouched *)
      rewrite imap_as_map with (d := 0).
      rewrite <- (map_nth_seq c 0) at 2. apply map_ext_in. intros a Ha.
      rewrite names_cell_nat3 by exact Hnn'.
      replace (existsb _ subs) with false; [reflexivity|]. symmetry. apply not_true_is_false.
      intros Hex. apply existsb_exists in Hex as [r [Hinr Hr]]. apply andb_true_iff in Hr as [Hr1 _].
      rewrite (find_none _ _ Hfind r Hinr) in Hr1. discriminate.
  - (* some row cannot be honoured: the call raises *)
    apply forallb_false_ex in Hin as [r [Hr Hout]].
    rewrite forallb_forall in Hnn.
    rewrite (mapM_err _ subs r Hr) by (apply norm3_out; auto). reflexivity.
Qed.

(* ====================================================================================== *)
(* deletion_effect: boolean-mask selection, the flank arithmetic, reshape *)

Lemma select_cons {U} b bs (x : U) xs :
  select (b :: bs) (x :: xs) = if b then x :: select bs xs else select bs xs.
Proof. unfold select. cbn. destruct b; reflexivity. Qed.

Lemma select_nil_r {U} keep : @select U keep [] = [].
Proof. unfold select. destruct keep; reflexivity. Qed.

Lemma select_map {U V} (f : U -> V) keep l : select keep (map f l) = map f (select keep l).
Proof.
  revert l; induction keep as [|b keep IH]; intros [|x l]; try reflexivity.
  cbn [map]. rewrite !select_cons, IH. destruct b; reflexivity.
Qed.

Definition ntrue (u : list bool) : nat := length (filter (fun b : bool => b) u).

Lemma select_length {U} keep (l : list U) : length keep = length l ->
  length (select keep l) = ntrue keep.
Proof.
  revert l; induction keep as [|b keep IH]; intros [|x l] H; try reflexivity; try discriminate.
  rewrite select_cons. unfold ntrue. cbn [filter]. injection H as H.
  destruct b; cbn [length]; rewrite (IH l H); reflexivity.
Qed.

Lemma select_In {U} keep (l : list U) c : In c (select keep l) -> In c l.
Proof.
  revert l; induction keep as [|b keep IH]; intros [|x l] H; try (destruct H; fail).
  rewrite select_cons in H. destruct b.
  - destruct H as [->|H]; [left; reflexivity | right; apply IH; exact H].
  - right. apply IH. exact H.
Qed.

Lemma ntrue_le u : (ntrue u <= length u)%nat.
Proof. unfold ntrue. induction u as [|b u IH]; [apply Nat.le_refl|]. cbn. destruct b; cbn; lia. Qed.

(* mark the undeleted positions except the first k of them *)
Fixpoint dropk (k : nat) (u : list bool) : list bool :=
  match u with
  | [] => []
  | true :: t => match k with O => true :: dropk O t | S k' => false :: dropk k' t end
  | false :: t => false :: dropk k t
  end.

Lemma dropk_length k u : length (dropk k u) = length u.
Proof.
  revert k; induction u as [|b u IH]; intros k; [reflexivity|].
  destruct b; [destruct k|]; cbn; rewrite IH; reflexivity.
Qed.

Lemma select_dropk {U} k u (l : list U) : length u = length l ->
  select (dropk k u) l = skipn k (select u l).
Proof.
  revert k l; induction u as [|b u IH]; intros k [|x l] H; try discriminate.
  - destruct k; reflexivity.
  - injection H as H. destruct b.
    + destruct k as [|k]; cbn [dropk]; rewrite !select_cons.
      * rewrite (IH 0%nat l H). reflexivity.
      * rewrite (IH k l H). reflexivity.
    + cbn [dropk]. rewrite !select_cons. apply IH. exact H.
Qed.

Definition maskof (u : list bool) : list Z := map (fun b : bool => if b then 0 else 1) u.

Lemma cumsum_from_length acc l : length (cumsum_from acc l) = length l.
Proof. revert acc; induction l as [|x l IH]; intros acc; cbn; [|rewrite IH]; reflexivity. Qed.

Lemma keep_left_from u : forall acc c,
  map (fun v => v =? 0)
      (map2 Z.add (maskof u)
         (map (fun s => b2z (s <=? c)) (cumsum_from acc (map (fun v => 1 - v) (maskof u)))))
  = dropk (Z.to_nat (c - acc)) u.
Proof.
  induction u as [|b u IH]; intros acc c; [reflexivity|].
  destruct b; cbn [maskof map cumsum_from]; fold (maskof u); rewrite map2_cons; cbn [map].
  - (* undeleted: counted by the cumulative sum *)
    rewrite IH. cbn [dropk].
    destruct (Z.leb_spec (acc + (1 - 0)) c) as [Hle|Hgt]; cbn [b2z].
    + replace (Z.to_nat (c - acc)) with (S (Z.to_nat (c - (acc + (1 - 0))))) by lia. reflexivity.
    + replace (Z.to_nat (c - acc)) with 0%nat by lia.
      replace (Z.to_nat (c - (acc + (1 - 0)))) with 0%nat by lia. reflexivity.
  - (* deleted: never kept, whatever the flank says *)
    rewrite IH. cbn [dropk].
    replace (acc + (1 - 1)) with acc by lia.
    destruct (acc <=? c); reflexivity.
Qed.

Lemma keep_row_left u c : keep_row true true c (maskof u) = dropk (Z.to_nat c) u.
Proof.
  unfold keep_row, cumsum. rewrite keep_left_from. f_equal. lia.
Qed.

Lemma combine_app_eq {U V} (a1 a2 : list U) (b1 b2 : list V) : length a1 = length b1 ->
  combine (a1 ++ a2) (b1 ++ b2) = combine a1 b1 ++ combine a2 b2.
Proof.
  revert b1; induction a1 as [|x a1 IH]; intros [|y b1] H; try discriminate; [reflexivity|].
  cbn. f_equal. apply IH. injection H as H. exact H.
Qed.

Lemma combine_rev {U V} (a : list U) (b : list V) : length a = length b ->
  combine (rev a) (rev b) = rev (combine a b).
Proof.
  revert b; induction a as [|x a IH]; intros [|y b] H; try discriminate; [reflexivity|].
  injection H as H. cbn [rev combine].
  rewrite combine_app_eq by (rewrite !rev_length; exact H). rewrite IH by exact H. reflexivity.
Qed.

Lemma filter_rev {U} (f : U -> bool) l : filter f (rev l) = rev (filter f l).
Proof.
  induction l as [|x l IH]; [reflexivity|]. cbn [rev filter]. rewrite filter_app, IH. cbn [filter].
  destruct (f x); cbn [rev]; [reflexivity | rewrite app_nil_r; reflexivity].
Qed.

Lemma map2_rev {U V W} (f : U -> V -> W) a b : length a = length b ->
  map2 f (rev a) (rev b) = rev (map2 f a b).
Proof. intros H. unfold map2. rewrite combine_rev by exact H. apply map_rev. Qed.

Lemma select_rev {U} keep (l : list U) : length keep = length l ->
  select (rev keep) (rev l) = rev (select keep l).
Proof. intros H. unfold select. rewrite combine_rev by exact H. rewrite filter_rev. apply map_rev. Qed.

Lemma maskof_rev u : maskof (rev u) = rev (maskof u).
Proof. unfold maskof. apply map_rev. Qed.

Lemma maskof_length u : length (maskof u) = length u.
Proof. apply map_length. Qed.

Lemma keep_row_right u c : keep_row true false c (maskof u) = rev (dropk (Z.to_nat c) (rev u)).
Proof.
  unfold keep_row.
  set (fl := map (fun s => b2z (s <=? c)) (cumsum (map (fun v => 1 - v) (rev (maskof u))))).
  assert (Hfl : length fl = length u).
  { unfold fl, cumsum. rewrite map_length, cumsum_from_length, map_length, rev_length. apply maskof_length. }
  rewrite <- (rev_involutive (maskof u)) at 1.
  rewrite map2_rev by (rewrite rev_length, maskof_length; lia).
  rewrite map_rev. f_equal.
  unfold fl. rewrite <- maskof_rev. rewrite <- keep_row_left. reflexivity.
Qed.

Lemma rev_skipn_rev {U} k (s : list U) : rev (skipn k (rev s)) = firstn (length s - k) s.
Proof. rewrite skipn_rev. apply rev_involutive. Qed.

(* the heart: the kept positions are the undeleted ones minus the first (last) c of them *)
Lemma select_keep_row {U} lft c u (l : list U) : length u = length l ->
  select (keep_row true lft c (maskof u)) l = trim lft (Z.to_nat c) (select u l).
Proof.
  intros H. destruct lft; unfold trim.
  - rewrite keep_row_left. apply select_dropk. exact H.
  - rewrite keep_row_right.
    rewrite <- (rev_involutive l) at 1.
    rewrite select_rev by (rewrite dropk_length, !rev_length; exact H).
    rewrite select_dropk by (rewrite !rev_length; exact H).
    rewrite select_rev by exact H. apply rev_skipn_rev.
Qed.

(* the spec's removal, as a selection *)
Lemma select_indexed {U} (g : nat -> bool) (x : list U) : forall s,
  map snd (filter (fun ic => g (fst ic)) (combine (seq s (length x)) x))
  = select (map g (seq s (length x))) x.
Proof.
  induction x as [|c x IH]; intros s; [reflexivity|].
  cbn [length seq combine filter map fst]. rewrite select_cons.
  destruct (g s); cbn [map snd]; rewrite IH; reflexivity.
Qed.

Definition und (D : list nat) (L : nat) : list bool := map (fun p => negb (mem p D)) (seq 0 L).

Lemma remove_named_select {U} D (x : list U) : remove_named D x = select (und D (length x)) x.
Proof. unfold remove_named, indexed, und. apply (select_indexed (fun p => negb (mem p D))). Qed.

Lemma und_length D L : length (und D L) = L.
Proof. unfold und. rewrite map_length, seq_length. reflexivity. Qed.

Lemma lost_ntrue D (x : dna) : lost D x = (length x - ntrue (und D (length x)))%nat.
Proof.
  unfold lost. rewrite remove_named_select, select_length by (rewrite und_length; reflexivity). reflexivity.
Qed.

Lemma sumZ_maskof u : sumZ (maskof u) = Z.of_nat (length u - ntrue u).
Proof.
  induction u as [|b u IH]; [reflexivity|].
  pose proof (ntrue_le u) as Hle.
  unfold ntrue in *. destruct b; cbn [maskof map sumZ fold_right filter length] in *;
    fold (maskof u); fold (sumZ (maskof u)); rewrite IH; lia.
Qed.

Lemma maxZ_of_nat l : maxZ (map Z.of_nat l) = Z.of_nat (max_nat l).
Proof.
  unfold maxZ, max_nat. induction l as [|x l IH]; [reflexivity|].
  cbn [map fold_right]. rewrite IH. lia.
Qed.

Lemma max_nat_ge l v : In v l -> (v <= max_nat l)%nat.
Proof.
  unfold max_nat. induction l as [|x l IH]; intros H; [destruct H|]. cbn [fold_right].
  destruct H as [->|H]; [lia|]. specialize (IH H). lia.
Qed.

(* reshape *)
Lemma length_concat_uniform {U} (l : list (list U)) w :
  (forall r, In r l -> length r = w) -> length (concat l) = (length l * w)%nat.
Proof.
  induction l as [|r l IH]; intros H; [reflexivity|].
  cbn [concat length]. rewrite app_length, IH by (intros; apply H; right; auto).
  rewrite (H r) by (left; reflexivity). lia.
Qed.

Lemma rechunk_concat {U} (l : list (list U)) w :
  (forall r, In r l -> length r = w) -> rechunk (length l) w (concat l) = l.
Proof.
  induction l as [|r l IH]; intros H; [reflexivity|].
  assert (Hr : length r = w) by (apply H; left; reflexivity).
  cbn [length rechunk concat].
  rewrite firstn_app, skipn_app, Hr, Nat.sub_diag.
  rewrite firstn_all2, skipn_all2 by lia. cbn [firstn skipn app]. rewrite app_nil_r.
  rewrite IH by (intros; apply H; right; auto). reflexivity.
Qed.

Lemma concat_map_concat {U} (l : list (list (list U))) : concat (map (@concat U) l) = concat (concat l).
Proof. induction l as [|r l IH]; [reflexivity|]. cbn. rewrite concat_app, IH. reflexivity. Qed.

Lemma reshape3_ok (B A W : nat) (rows : list (list (list Z))) :
  length rows = B -> (B * A <> 0)%nat ->
  (forall r, In r rows -> length r = A /\ forall w, In w r -> length w = W) ->
  reshape3 B A (concat (map (@concat Z) rows)) = Ok (W, rows).
Proof.
  intros HB HBA Hrows. unfold reshape3.
  assert (H1 : forall r, In r rows -> length r = A) by (intros r Hr; apply Hrows; exact Hr).
  assert (H2 : forall w, In w (concat rows) -> length w = W).
  { intros w Hw. apply in_concat in Hw as [r [Hr Hw]]. apply (Hrows r Hr). exact Hw. }
  assert (Hlen : length (concat rows) = (B * A)%nat) by (rewrite (length_concat_uniform _ A H1), HB; reflexivity).
  rewrite concat_map_concat.
  rewrite (length_concat_uniform _ W H2), Hlen, (Nat.mul_comm (B * A) W).
  destruct (Nat.eqb_spec (B * A) 0); [contradiction|]. cbn [negb guard bind].
  rewrite Nat.mod_mul by exact HBA. cbn [Nat.eqb guard bind].
  rewrite Nat.div_mul by exact HBA.
  rewrite <- Hlen at 1. rewrite (rechunk_concat _ W H2).
  rewrite <- HB. rewrite (rechunk_concat _ A H1). reflexivity.
Qed.

(* transposition back to columns *)
Lemma nth_arow a s q : nth q (arow a s) 0 = nth a (nth q s []) 0.
Proof.
  unfold arow. revert q; induction s as [|c s IH]; intros [|q]; cbn; auto; destruct a; reflexivity.
Qed.

Lemma to_cols_rows (s : dna) A : (forall c, In c s -> length c = A) ->
  to_cols (length s) (map (fun a => arow a s) (seq 0 A)) = s.
Proof.
  intros H. unfold to_cols.
  apply nth_ext with (d := []) (d' := []); [rewrite map_length, seq_length; reflexivity|].
  intros q Hq. rewrite map_length, seq_length in Hq.
  rewrite nth_map_seq by exact Hq. rewrite map_map.
  rewrite <- (map_nth_seq (nth q s []) 0) at 1.
  rewrite (H (nth q s [])) by (apply nth_In; exact Hq).
  apply map_ext. intros a. apply nth_arow.
Qed.

Lemma to_cols_select keep (x : dna) A : (forall c, In c x -> length c = A) ->
  to_cols (length (select keep x)) (map (fun a => select keep (arow a x)) (seq 0 A)) = select keep x.
Proof.
  intros H.
  rewrite <- (to_cols_rows (select keep x) A) at 2 by (intros c Hc; apply H; apply (select_In keep); exact Hc).
  f_equal. apply map_ext. intros a. unfold arow. apply select_map.
Qed.

(* ====================================================================================== *)
(* deletion_effect: the theorem *)

Definition nat2 (r : Z * Z) : nat * nat := (Z.to_nat (fst r), Z.to_nat (snd r)).
Definition in2 (B L : nat) (r : Z * Z) : bool := (fst r <? Z.of_nat B) && (snd r <? Z.of_nat L).

Lemma norm2_in B L r : nn2 r = true -> in2 B L r = true -> norm2 B L r = Ok (nat2 r).
Proof.
  destruct r as [b p]. unfold nn2, in2, norm2, nat2. cbn [fst snd]. intros H1 H2.
  rewrite !andb_true_iff in H1, H2. destruct H1, H2.
  rewrite !tidx_in by lia. reflexivity.
Qed.

Lemma norm2_out B L r : nn2 r = true -> in2 B L r = false -> norm2 B L r = Err.
Proof.
  destruct r as [b p]. unfold nn2, in2, norm2. cbn [fst snd]. intros H1 H2.
  rewrite !andb_true_iff in H1. destruct H1.
  destruct (Z.ltb_spec b (Z.of_nat B)); [|rewrite tidx_above by lia; reflexivity].
  rewrite tidx_in by lia. cbn [bind].
  destruct (Z.ltb_spec p (Z.of_nat L)); [discriminate|rewrite tidx_above by lia; reflexivity].
Qed.

Lemma names_pos_mem dels i p : forallb nn2 dels = true ->
  names_pos (map nat2 dels) i p = mem p (dels_of dels i).
Proof.
  induction dels as [|[b q] dels IH]; intros H; [reflexivity|].
  cbn [forallb] in H. apply andb_true_iff in H as [Hr H].
  unfold nn2 in Hr. cbn [fst snd] in Hr. apply andb_true_iff in Hr as [Hb Hq].
  unfold dels_of. cbn [map names_pos existsb nat2 fst snd filter].
  fold (names_pos (map nat2 dels) i p). rewrite (IH H). rewrite !eqb_nat_Z by lia.
  destruct (b =? Z.of_nat i); cbn [andb orb map snd mem existsb]; [|reflexivity].
  fold (mem p (dels_of dels i)). unfold dels_of. f_equal.
  destruct (Z.eqb_spec q (Z.of_nat p)), (Nat.eqb_spec p (Z.to_nat q)); try lia; reflexivity.
Qed.

Lemma map2_seq_r {U V W} (f : U -> V -> W) l (h : nat -> V) d :
  map2 f l (map h (seq 0 (length l))) = map (fun i => f (nth i l d) (h i)) (seq 0 (length l)).
Proof.
  transitivity (map2 f (map (fun i => nth i l d) (seq 0 (length l))) (map h (seq 0 (length l)))).
  - rewrite map_nth_seq. reflexivity.
  - apply map2_map_same.
Qed.

Lemma map_indexed {U V} (f : nat * U -> V) l d :
  map f (indexed l) = map (fun i => f (i, nth i l d)) (seq 0 (length l)).
Proof.
  unfold indexed.
  transitivity (imap (fun i x => f (i, x)) l).
  - unfold imap, map2. apply map_ext. intros [i x]. reflexivity.
  - apply (imap_as_map (fun i x => f (i, x)) l d).
Qed.

Lemma nth_map_lt {U V} (f : U -> V) l i du dv :
  (i < length l)%nat -> nth i (map f l) dv = f (nth i l du).
Proof. intros H. rewrite nth_indep with (d' := f du) by (rewrite map_length; lia). apply map_nth. Qed.

Lemma del_core X dels lft : spec_core (CDel X dels lft) (model (CDel X dels lft)) = true.
Proof.
  cbn [spec_core model].
  destruct (shape_ok X && (1 <=? length (tX X))%nat && (1 <=? tA X)%nat && forallb nn2 dels) eqn:Hscope;
    [|reflexivity].
  rewrite !andb_true_iff in Hscope. destruct Hscope as [[[Hshape HB] HA] Hnn].
  apply Nat.leb_le in HB, HA.
  set (B := length (tX X)) in *. set (A := tA X) in *. set (L := tL X).
  change (fun r : Z * Z => (fst r <? Z.of_nat B) && (snd r <? Z.of_nat L)) with (in2 B L).
  unfold deletion_effect, deletion_effect_gen. fold B A L.
  destruct (Nat.eqb_spec A 0); [lia|]. cbn [negb guard bind].
  destruct (forallb (in2 B L) dels) eqn:Hin.
  2: { apply forallb_false_ex in Hin as [r [Hr Hout]]. rewrite forallb_forall in Hnn.
       rewrite (mapM_err _ dels r Hr) by (apply norm2_out; auto). reflexivity. }
  rewrite forallb_forall in Hin.
  assert (Hnn' := Hnn). rewrite forallb_forall in Hnn'.
  rewrite (mapM_ok _ nat2) by (intros r Hr; apply norm2_in; auto).
  cbn [bind]. destruct (Nat.eqb_spec B 0); [lia|]. cbn [negb guard bind].
  (* per-example quantities *)
  set (x := fun i => nth i (tX X) []).
  set (D := fun i => dels_of dels i).
  set (u := fun i => und (D i) L).
  set (lo := fun i => lost (D i) (x i)).
  set (mxn := max_nat (map lo (seq 0 B))).
  assert (Hx : forall i, (i < B)%nat -> length (x i) = L /\ forall c, In c (x i) -> length c = A).
  { intros i Hi. destruct (shape_ok_inv X Hshape i Hi) as [H1 H2]. split; [exact H1|].
    intros c Hc. apply (In_nth _ _ []) in Hc as [p [Hp <-]]. apply H2. fold (x i) in Hp. unfold x in Hp. lia. }
  assert (Hlo : forall i, (i < B)%nat -> lo i = (L - ntrue (u i))%nat).
  { intros i Hi. unfold lo, u. rewrite lost_ntrue. destruct (Hx i Hi) as [-> _]. reflexivity. }
  assert (Hlole : forall i, (i < B)%nat -> (lo i <= mxn)%nat).
  { intros i Hi. apply max_nat_ge. apply in_map. apply in_seq. lia. }
  assert (Hmx : max_nat (map (fun ix : nat * list (list Z) => lost (D (fst ix)) (snd ix))
                             (indexed (tX X))) = mxn)
    by (rewrite (map_indexed _ (tX X) []); reflexivity).
  rewrite Hmx.
  destruct (Nat.ltb_spec mxn L) as [HmxL|]; [|reflexivity].
  (* the mask, the per-example sums, the maximum, the counts, the keep rows *)
  assert (Hmask : map (mask_row L (map nat2 dels)) (seq 0 B) = map (fun i => maskof (u i)) (seq 0 B)).
  { apply map_ext. intros i. unfold mask_row, u, und, maskof. rewrite map_map. apply map_ext. intros p.
    rewrite names_pos_mem by exact Hnn. unfold D. destruct (mem p (dels_of dels i)); reflexivity. }
  rewrite Hmask.
  assert (Hsums : map sumZ (map (fun i => maskof (u i)) (seq 0 B)) = map Z.of_nat (map lo (seq 0 B))).
  { rewrite !map_map. apply map_ext_in. intros i Hi. apply in_seq in Hi.
    rewrite sumZ_maskof, Hlo by lia. unfold u. rewrite und_length. reflexivity. }
  rewrite Hsums, maxZ_of_nat. fold mxn.
  assert (Hcnt : map (fun s => Z.abs (s - Z.of_nat mxn)) (map Z.of_nat (map lo (seq 0 B)))
                 = map (fun i => Z.of_nat (mxn - lo i)) (seq 0 B)).
  { rewrite !map_map. apply map_ext_in. intros i Hi. apply in_seq in Hi.
    pose proof (Hlole i ltac:(lia)). lia. }
  rewrite Hcnt, map2_map_same.
  set (kp := fun i => keep_row true lft (Z.of_nat (mxn - lo i)) (maskof (u i))).
  unfold B at 2. rewrite (map2_seq_r _ (tX X) kp []). fold B. fold x.
  (* every selected row is the spec's edit of that row *)
  assert (Hsel : forall U (l : list U) i, (i < B)%nat -> length l = L ->
            select (kp i) l = trim lft (mxn - lo i) (select (u i) l)).
  { intros U l i Hi Hl. unfold kp. rewrite select_keep_row by (unfold u; rewrite und_length; lia).
    rewrite Nat2Z.id. reflexivity. }
  assert (Hsellen : forall U (l : list U) i, (i < B)%nat -> length l = L ->
            length (select (kp i) l) = (L - mxn)%nat).
  { intros U l i Hi Hl. rewrite Hsel by assumption.
    assert (Hs : length (select (u i) l) = (L - lo i)%nat).
    { rewrite select_length by (unfold u; rewrite und_length; lia).
      rewrite Hlo by exact Hi. pose proof (ntrue_le (u i)) as Hle. unfold u in Hle at 2.
      rewrite und_length in Hle. lia. }
    pose proof (Hlole i Hi). pose proof (Hlo i Hi).
    unfold trim. destruct lft; [rewrite skipn_length | rewrite firstn_length]; lia. }
  set (rowsY := map (fun i => map (fun a => select (kp i) (arow a (x i))) (seq 0 A)) (seq 0 B)).
  replace (map (fun i => concat (map (fun a => select (kp i) (arow a (nth i (tX X) []))) (seq 0 A))) (seq 0 B))
    with (map (@concat Z) rowsY) by (unfold rowsY; rewrite map_map; reflexivity).
  rewrite (reshape3_ok B A (L - mxn) rowsY).
  2: { unfold rowsY. rewrite map_length, seq_length. reflexivity. }
  2: { lia. }
  2: { intros r Hr. unfold rowsY in Hr. apply in_map_iff in Hr as [i [<- Hi]]. apply in_seq in Hi.
       split; [rewrite map_length, seq_length; reflexivity|].
       intros w Hw. apply in_map_iff in Hw as [a [<- Ha]].
       apply Hsellen; [lia|]. unfold arow. rewrite map_length. apply Hx. lia. }
  cbn [bind].
  apply andb_true_iff. split.
  - (* before: the reference trimmed to the same length from the same side *)
    unfold each_example. rewrite map_length, Nat.eqb_refl. cbn [andb]. apply forallb_seq. intros i Hi. fold B in Hi.
    apply dna_eqb_spec.
    rewrite nth_map_lt with (du := []) by exact Hi. fold (x i). destruct (Hx i Hi) as [HLi _].
    unfold trim. destruct lft.
    + destruct (Nat.eqb_spec (L - mxn) 0); [lia|]. f_equal. lia.
    + rewrite HLi. reflexivity.
  - (* after: own deletions removed, then trimmed so that every example loses mxn *)
    unfold each_example. rewrite map_length. unfold rowsY at 1. rewrite map_length, seq_length.
    fold B. rewrite Nat.eqb_refl. cbn [andb]. apply forallb_seq. intros i Hi. fold B in Hi.
    apply dna_eqb_spec. fold (x i). fold (D i). fold (lo i).
    unfold rowsY. rewrite map_map, nth_map_seq by exact Hi.
    destruct (Hx i Hi) as [HLi HAi].
    rewrite <- (Hsellen _ (x i) i Hi HLi).
    rewrite to_cols_select by exact HAi.
    rewrite Hsel by assumption. rewrite remove_named_select, HLi. reflexivity.
Qed.

(* ====================================================================================== *)
(* insertion_effect *)

(* ---------- weave ---------- *)
Lemma weave_ext {U} (s : list U) : forall i f g,
  (forall p, (i <= p)%nat -> f p = g p) -> weave i s f = weave i s g.
Proof.
  induction s as [|c s IH]; intros i f g H; cbn [weave].
  - apply H. lia.
  - rewrite (H i) by lia. f_equal. f_equal. apply IH. intros p Hp. apply H. lia.
Qed.

Lemma weave_nil {U} (s : list U) : forall i, weave i s (fun _ => []) = s.
Proof. induction s as [|c s IH]; intros i; cbn [weave app]; [reflexivity|]. rewrite IH. reflexivity. Qed.

Lemma weave_length_ge {U} (s : list U) : forall i f, (length s <= length (weave i s f))%nat.
Proof.
  induction s as [|c s IH]; intros i f; cbn [weave length]; [lia|].
  rewrite app_length. cbn [length]. specialize (IH (S i) f). lia.
Qed.

Lemma forallb_weave {U} (g : U -> bool) (s : list U) : forall i f,
  forallb g s = true -> (forall p, forallb g (f p) = true) -> forallb g (weave i s f) = true.
Proof.
  induction s as [|c s IH]; intros i f Hs Hf; cbn [weave]; [apply Hf|].
  cbn [forallb] in Hs. apply andb_true_iff in Hs as [Hc Hs].
  rewrite forallb_app. cbn [forallb]. rewrite Hf, Hc, IH by auto. reflexivity.
Qed.

Lemma existsb_weave {U} (g : U -> bool) (s : list U) : forall i f,
  existsb g s = true -> existsb g (weave i s f) = true.
Proof.
  induction s as [|c s IH]; intros i f Hs; [discriminate|]. cbn [weave].
  cbn [existsb] in Hs. rewrite existsb_app. cbn [existsb].
  apply orb_true_iff in Hs as [Hc|Hs].
  - rewrite Hc. rewrite orb_true_r. reflexivity.
  - rewrite (IH (S i) f Hs). rewrite !orb_true_r. reflexivity.
Qed.

(* inserting one character before coordinate j of a string into which nothing has been woven
   at or before j *)
Lemma weave_insert {U} (v : U) (s : list U) : forall i f j,
  (i <= j <= i + length s)%nat -> (forall p, (i <= p <= j)%nat -> f p = []) ->
  firstn (j - i) (weave i s f) ++ [v] ++ skipn (j - i) (weave i s f)
  = weave i s (fun p => if (p =? j)%nat then [v] else f p).
Proof.
  induction s as [|c s IH]; intros i f j Hj Hf.
  - cbn [length] in Hj. assert (j = i) by lia. subst j. cbn [weave].
    rewrite (Hf i) by lia. rewrite Nat.sub_diag, Nat.eqb_refl. reflexivity.
  - cbn [weave]. rewrite (Hf i) by lia. cbn [app].
    destruct (Nat.eq_dec i j) as [->|Hne].
    + rewrite Nat.sub_diag, Nat.eqb_refl. cbn [firstn skipn app]. f_equal. f_equal.
      apply weave_ext. intros p Hp. destruct (Nat.eqb_spec p j); [lia|reflexivity].
    + destruct (Nat.eqb_spec i j); [contradiction|]. cbn [app].
      replace (j - i)%nat with (S (j - S i)) by lia. cbn [firstn skipn app]. f_equal.
      apply IH; [cbn [length] in Hj; lia|]. intros p Hp. apply Hf. lia.
Qed.

(* ---------- argsort, descending ---------- *)
Lemma ins_desc_In r l x : In x (ins_desc r l) <-> x = r \/ In x l.
Proof.
  induction l as [|h t IH]; cbn [ins_desc].
  - cbn. intuition.
  - destruct (fst h <=? fst r); cbn [In]; [intuition|]. rewrite IH. intuition.
Qed.

Lemma sort_desc_In l x : In x (sort_desc l) <-> In x l.
Proof.
  induction l as [|r l IH]; [reflexivity|]. cbn [sort_desc fold_right]. fold (sort_desc l).
  rewrite ins_desc_In, IH. cbn [In]. intuition.
Qed.

Fixpoint desc (l : list (Z * Z)) : Prop :=
  match l with [] => True | r :: t => (forall r', In r' t -> fst r' < fst r) /\ desc t end.
Fixpoint dpos (l : list (Z * Z)) : Prop :=
  match l with [] => True | r :: t => (forall r', In r' t -> fst r' <> fst r) /\ dpos t end.

Lemma ins_desc_desc r l : desc l -> (forall r', In r' l -> fst r' <> fst r) -> desc (ins_desc r l).
Proof.
  induction l as [|h t IH]; intros Hd Hne; cbn [ins_desc].
  - cbn. split; [intros ? []|exact I].
  - destruct Hd as [Hh Ht]. destruct (Z.leb_spec (fst h) (fst r)) as [Hle|Hgt].
    + cbn [desc]. split; [|split; assumption].
      intros r' [<-|Hin].
      * pose proof (Hne h (or_introl eq_refl)). lia.
      * specialize (Hh r' Hin). lia.
    + cbn [desc]. split.
      * intros r' Hin. apply ins_desc_In in Hin as [->|Hin]; [lia|auto].
      * apply IH; [exact Ht|]. intros r' Hin. apply Hne. right. exact Hin.
Qed.

Lemma sort_desc_desc l : dpos l -> desc (sort_desc l).
Proof.
  induction l as [|r l IH]; intros H; [exact I|]. destruct H as [Hr Hl].
  cbn [sort_desc fold_right]. fold (sort_desc l). apply ins_desc_desc; [apply IH; exact Hl|].
  intros r' Hin. apply Hr. apply sort_desc_In. exact Hin.
Qed.

Lemma dpos_unique l r r' : dpos l -> In r l -> In r' l -> fst r = fst r' -> r = r'.
Proof.
  induction l as [|h t IH]; intros Hd Hr Hr' E; [destruct Hr|]. destruct Hd as [Hh Ht].
  destruct Hr as [<-|Hr], Hr' as [<-|Hr']; auto.
  - exfalso. apply (Hh r' Hr'). congruence.
  - exfalso. apply (Hh r Hr). congruence.
Qed.

Lemma in_rows_of ins i q c : In (q, c) (rows_of ins i) <-> In (Z.of_nat i, q, c) ins.
Proof.
  unfold rows_of. rewrite in_map_iff. split.
  - intros [[[b q'] c'] [E Hin]]. cbn [fst snd] in E. injection E as -> ->.
    apply filter_In in Hin as [Hin Hb]. cbn [fst] in Hb. apply Z.eqb_eq in Hb. subst b. exact Hin.
  - intros Hin. exists (Z.of_nat i, q, c). split; [reflexivity|].
    apply filter_In. split; [exact Hin|]. cbn [fst]. apply Z.eqb_refl.
Qed.

Lemma dpos_rows_of ins i : distinct_pos ins = true -> dpos (rows_of ins i).
Proof.
  induction ins as [|[[b q] c] ins IH]; intros H; [exact I|].
  cbn [distinct_pos fst snd] in H. apply andb_true_iff in H as [Hn Hd].
  unfold rows_of. cbn [filter fst]. destruct (Z.eqb_spec b (Z.of_nat i)) as [->|Hne].
  - cbn [map fst snd]. fold (rows_of ins i). cbn [dpos]. split; [|apply IH; exact Hd].
    intros [q' c'] Hin. cbn [fst]. intros ->. apply in_rows_of in Hin.
    apply negb_true_iff in Hn. apply not_true_iff_false in Hn. apply Hn.
    apply existsb_exists. exists (Z.of_nat i, q, c'). split; [exact Hin|].
    cbn [fst snd]. rewrite !Z.eqb_refl. reflexivity.
  - apply IH. exact Hd.
Qed.

(* ---------- one insertion step ---------- *)
Lemma fold_err A rows : fold_left (ins_step A) rows Err = Err.
Proof. induction rows as [|r rows IH]; [reflexivity|]. cbn [fold_left]. exact IH. Qed.

Lemma fold_err_char A rows r : In r rows -> tidx A (snd r) = Err ->
  forall acc, fold_left (ins_step A) rows acc = Err.
Proof.
  induction rows as [|h rows IH]; intros Hin Ht acc; [destruct Hin|].
  cbn [fold_left]. destruct Hin as [->|Hin].
  - replace (ins_step A acc r) with (@Err dna); [apply fold_err|].
    unfold ins_step. destruct acc; [|reflexivity]. cbn [bind]. rewrite Ht. reflexivity.
  - apply IH; assumption.
Qed.

Lemma step_err_pos A x r : Z.of_nat (length x) < fst r -> ins_step A (Ok x) r = Err.
Proof.
  intros H. unfold ins_step. cbn [bind]. destruct (tidx A (snd r)); [|reflexivity]. cbn [bind].
  unfold ersatz_insert1.
  destruct (valid_ohe A (length x) [x]); [|reflexivity]. cbn [guard bind].
  destruct (valid_ohe A 1 [[onehot A n]]); [|reflexivity]. cbn [guard bind].
  destruct (Z.leb_spec (fst r) (Z.of_nat (length x))); [lia|]. rewrite andb_false_r. reflexivity.
Qed.

(* validity of what ersatz.insert sees *)
Lemma col_sum_app a b : col_sum (a ++ b) = col_sum a + col_sum b.
Proof. unfold col_sum. induction a as [|v a IH]; cbn [app fold_right]; [reflexivity|]. rewrite IH. lia. Qed.

Lemma col_sum_zeros k : col_sum (repeat 0 k) = 0.
Proof. unfold col_sum. induction k as [|k IH]; cbn [repeat fold_right]; [reflexivity|]. rewrite IH. reflexivity. Qed.

Lemma forallb_repeat {U} (g : U -> bool) v k : g v = true -> forallb g (repeat v k) = true.
Proof. intros H. induction k as [|k IH]; cbn; [reflexivity|]. rewrite H, IH. reflexivity. Qed.

Lemma col_valid_letter A c : (c < A)%nat -> col_valid A (letter A c) = true.
Proof.
  intros H. unfold col_valid, letter.
  rewrite app_length. cbn [length]. rewrite !repeat_length.
  replace (c + S (A - S c))%nat with A by lia. rewrite Nat.eqb_refl. cbn [andb].
  rewrite forallb_app. cbn [forallb]. rewrite !forallb_repeat by reflexivity. cbn [andb orb Z.eqb].
  rewrite col_sum_app. change (1 :: repeat 0 (A - S c)) with ([1] ++ repeat 0 (A - S c)).
  rewrite col_sum_app, !col_sum_zeros. reflexivity.
Qed.

Lemma valid_letter A c : (2 <= A)%nat -> (c < A)%nat -> valid_ohe A 1 [[letter A c]] = true.
Proof.
  intros H2 Hc. unfold valid_ohe, rect, cols_valid, dna_valid, has. cbn [forallb existsb length Nat.eqb andb orb].
  rewrite col_valid_letter by exact Hc. cbn [andb]. rewrite !orb_false_r.
  unfold letter. rewrite !existsb_app. cbn [existsb Z.eqb]. rewrite orb_true_r. rewrite andb_true_r.
  destruct c as [|c].
  - destruct (A - 1)%nat as [|k] eqn:E; [lia|]. cbn [repeat existsb Z.eqb]. reflexivity.
  - cbn [repeat existsb Z.eqb]. reflexivity.
Qed.

Lemma valid_two A L (x : dna) : valid_ohe A L [x] = true -> (2 <= A)%nat /\ (1 <= L)%nat.
Proof.
  unfold valid_ohe, rect, cols_valid, dna_valid, has. cbn [forallb existsb]. rewrite !orb_false_r, !andb_true_r.
  intros H. rewrite !andb_true_iff in H. destruct H as [[[HL Hv] H0] H1].
  apply Nat.eqb_eq in HL. apply existsb_exists in H0 as [c [Hc H0]].
  split; [|destruct x; [destruct Hc | cbn in HL; lia]].
  rewrite forallb_forall in Hv. specialize (Hv c Hc). unfold col_valid in Hv.
  rewrite !andb_true_iff in Hv. destruct Hv as [[Hl _] Hs]. apply Nat.eqb_eq in Hl. apply Z.eqb_eq in Hs.
  apply existsb_exists in H0 as [v [Hv0 E]]. apply Z.eqb_eq in E. subst v.
  destruct c as [|v [|w t]]; [destruct Hv0 | | cbn in Hl; lia].
  destruct Hv0 as [->|[]]. cbn in Hs. lia.
Qed.

Lemma valid_weave A (x : dna) f : valid_ohe A (length x) [x] = true ->
  (forall p, forallb (col_valid A) (f p) = true) ->
  valid_ohe A (length (weave 0 x f)) [weave 0 x f] = true.
Proof.
  unfold valid_ohe, rect, cols_valid, dna_valid, has. cbn [forallb existsb]. rewrite !orb_false_r, !andb_true_r.
  intros H Hf. rewrite !andb_true_iff in H. destruct H as [[[HL Hv] H0] H1].
  rewrite Nat.eqb_refl, forallb_weave, !existsb_weave by assumption. reflexivity.
Qed.

(* ---------- the fold over the sorted rows ---------- *)
Definition insf (A : nat) (rows : list (Z * Z)) (base : nat -> list col) (p : nat) : list col :=
  match find (fun r => fst r =? Z.of_nat p) rows with
  | Some r => [letter A (Z.to_nat (snd r))]
  | None => base p
  end.

Lemma find_none_all {U} (g : U -> bool) l : (forall x, In x l -> g x = false) -> find g l = None.
Proof.
  induction l as [|x l IH]; intros H; [reflexivity|]. cbn [find].
  rewrite (H x) by (left; reflexivity). apply IH. intros y Hy. apply H. right. exact Hy.
Qed.

Lemma fold_weave A (x : dna) : valid_ohe A (length x) [x] = true ->
  forall rows base,
  desc rows ->
  (forall r, In r rows -> 0 <= fst r <= Z.of_nat (length x) /\ 0 <= snd r < Z.of_nat A) ->
  (forall r p, In r rows -> (p <= Z.to_nat (fst r))%nat -> base p = []) ->
  (forall p, forallb (col_valid A) (base p) = true) ->
  fold_left (ins_step A) rows (Ok (weave 0 x base)) = Ok (weave 0 x (insf A rows base)).
Proof.
  intros Hx. destruct (valid_two _ _ _ Hx) as [HA2 _].
  induction rows as [|r rows IH]; intros base Hd Hr Hb Hv.
  - reflexivity.
  - destruct Hd as [Hlt Hd]. cbn [fold_left].
    destruct (Hr r (or_introl eq_refl)) as [Hj Hc].
    set (w := weave 0 x base).
    assert (Hstep : ins_step A (Ok w) r
                    = Ok (weave 0 x (fun p => if (p =? Z.to_nat (fst r))%nat
                                              then [letter A (Z.to_nat (snd r))] else base p))).
    { unfold ins_step. cbn [bind]. rewrite tidx_in by lia. cbn [bind].
      rewrite onehot_letter by lia. unfold ersatz_insert1.
      unfold w at 1 2. rewrite valid_weave by assumption. cbn [guard bind].
      rewrite valid_letter by lia. cbn [guard bind].
      pose proof (weave_length_ge x 0 base) as Hge. fold w in Hge.
      destruct (Z.leb_spec 0 (fst r)); [|lia].
      destruct (Z.leb_spec (fst r) (Z.of_nat (length w))); [|lia]. cbn [andb guard bind]. f_equal.
      pose proof (weave_insert (letter A (Z.to_nat (snd r))) x 0 base (Z.to_nat (fst r))) as Hins.
      rewrite Nat.sub_0_r in Hins. unfold w. apply Hins; [lia|].
      intros p Hp. apply (Hb r p (or_introl eq_refl)). lia. }
    rewrite Hstep. rewrite IH.
    + f_equal. apply weave_ext. intros p _. unfold insf. cbn [find].
      destruct (Z.eqb_spec (fst r) (Z.of_nat p)) as [E|E].
      * rewrite find_none_all.
        -- replace (Z.to_nat (fst r)) with p by lia. rewrite Nat.eqb_refl. reflexivity.
        -- intros r' Hin. specialize (Hlt r' Hin). apply Z.eqb_neq. lia.
      * destruct (Nat.eqb_spec p (Z.to_nat (fst r))); [lia|]. reflexivity.
    + exact Hd.
    + intros r' Hin. apply Hr. right. exact Hin.
    + intros r' p Hin Hp. specialize (Hlt r' Hin).
      destruct (Hr r' (or_intror Hin)) as [Hj' _].
      destruct (Nat.eqb_spec p (Z.to_nat (fst r))); [lia|]. apply (Hb r' p (or_intror Hin) Hp).
    + intros p. destruct (p =? Z.to_nat (fst r))%nat; [|apply Hv].
      cbn [forallb]. rewrite col_valid_letter by lia. reflexivity.
Qed.

Lemma fold_weave0 A (x : dna) rows : valid_ohe A (length x) [x] = true -> desc rows ->
  (forall r, In r rows -> 0 <= fst r <= Z.of_nat (length x) /\ 0 <= snd r < Z.of_nat A) ->
  fold_left (ins_step A) rows (Ok x) = Ok (weave 0 x (insf A rows (fun _ => []))).
Proof.
  intros Hx Hd Hr.
  pose proof (fold_weave A x Hx rows (fun _ => []) Hd Hr (fun _ _ _ _ => eq_refl) (fun _ => eq_refl)) as H.
  rewrite weave_nil in H. exact H.
Qed.

Lemma insf_sub_at A ins i p : distinct_pos ins = true ->
  insf A (sort_desc (rows_of ins i)) (fun _ => []) p
  = match sub_at ins i p with Some ch => [letter A ch] | None => [] end.
Proof.
  intros Hd. pose proof (dpos_rows_of ins i Hd) as Hdp.
  rewrite sub_at_unfold. unfold insf.
  destruct (find (fun r => fst r =? Z.of_nat p) (sort_desc (rows_of ins i))) as [r|] eqn:E1;
  destruct (find (row_at i p) ins) as [[[b0 q0] c0]|] eqn:E2.
  - apply find_some in E1 as [Hin1 Hp1]. apply find_some in E2 as [Hin2 Hp2].
    apply (proj1 (sort_desc_In _ _)) in Hin1. apply Z.eqb_eq in Hp1.
    unfold row_at in Hp2. apply andb_true_iff in Hp2 as [Hb Hq]. apply Z.eqb_eq in Hb, Hq. subst b0 q0.
    apply (proj2 (in_rows_of _ _ _ _)) in Hin2.
    rewrite (dpos_unique _ r (Z.of_nat p, c0) Hdp Hin1 Hin2 Hp1). reflexivity.
  - exfalso. apply find_some in E1 as [Hin1 Hp1]. apply (proj1 (sort_desc_In _ _)) in Hin1. apply Z.eqb_eq in Hp1.
    destruct r as [q c]. cbn [fst] in Hp1. subst q. apply (proj1 (in_rows_of _ _ _ _)) in Hin1.
    pose proof (find_none _ _ E2 _ Hin1) as Hf. unfold row_at in Hf. rewrite !Z.eqb_refl in Hf. discriminate.
  - exfalso. apply find_some in E2 as [Hin2 Hp2].
    unfold row_at in Hp2. apply andb_true_iff in Hp2 as [Hb Hq]. apply Z.eqb_eq in Hb, Hq. subst b0 q0.
    apply (proj2 (in_rows_of _ _ _ _)) in Hin2. apply (proj2 (sort_desc_In _ _)) in Hin2.
    pose proof (find_none _ _ E1 _ Hin2) as Hf. cbn [fst] in Hf. rewrite Z.eqb_refl in Hf. discriminate.
  - reflexivity.
Qed.

(* ---------- the theorem ---------- *)
Definition in3i (B L A : nat) (r : Z * Z * Z) : bool :=
  let '(b, p, ch) := r in (b <? Z.of_nat B) && (p <=? Z.of_nat L) && (ch <? Z.of_nat A).

Lemma in_combine_seq {U} (l : list U) d : forall s i x,
  In (i, x) (combine (seq s (length l)) l) -> (s <= i < s + length l)%nat /\ nth (i - s) l d = x.
Proof.
  induction l as [|c l IH]; intros s i x H; [destruct H|].
  cbn [length seq combine] in H. destruct H as [E|H].
  - injection E as <- <-. rewrite Nat.sub_diag. cbn [length nth]. split; [lia|reflexivity].
  - apply IH in H as [H1 H2]. cbn [length]. split; [lia|].
    replace (i - s)%nat with (S (i - S s)) by lia. exact H2.
Qed.

Lemma combine_seq_In {U} (l : list U) d i : (i < length l)%nat ->
  In (i, nth i l d) (combine (seq 0 (length l)) l).
Proof.
  intros H.
  replace (i, nth i l d) with (nth i (combine (seq 0 (length l)) l) (0%nat, d)).
  - apply nth_In. rewrite combine_length, seq_length. lia.
  - rewrite combine_nth by (rewrite seq_length; reflexivity). rewrite seq_nth by lia. reflexivity.
Qed.

Definition ins_result (A L : nat) (ins : list (Z * Z * Z)) (lft : bool) (ix : nat * dna) : dna :=
  let y := weave 0 (snd ix) (insf A (sort_desc (rows_of ins (fst ix))) (fun _ => [])) in
  if lft then (if (L =? 0)%nat then y else skipn (length y - L) y) else firstn L y.

Lemma ins_core X ins lft : spec_core (CIns X ins lft) (model (CIns X ins lft)) = true.
Proof.
  cbn [spec_core model].
  set (B := length (tX X)). set (A := tA X). set (L := tL X).
  destruct (shape_ok X && forallb nn3 ins && distinct_pos ins
            && forallb (fun x => valid_ohe A L [x]) (tX X)) eqn:Hscope; [|reflexivity].
  rewrite !andb_true_iff in Hscope. destruct Hscope as [[[Hshape Hnn] Hdist] Hvalid].
  change (fun r : Z * Z * Z => let '(b, p, ch) := r in
            (b <? Z.of_nat B) && (p <=? Z.of_nat L) && (ch <? Z.of_nat A)) with (in3i B L A).
  rewrite forallb_forall in Hnn, Hvalid.
  assert (Hx : forall i, (i < B)%nat -> length (nth i (tX X) []) = L /\ valid_ohe A L [nth i (tX X) []] = true).
  { intros i Hi. split; [apply (shape_ok_inv X Hshape i Hi)|]. apply Hvalid. apply nth_In. exact Hi. }
  unfold insertion_effect, insertion_effect_gen. fold B A L. cbn [negb orb].
  destruct (forallb (in3i B L A) ins) eqn:Hin.
  - (* every insertion can be honoured *)
    rewrite forallb_forall in Hin.
    assert (Hrow : forall b p c, In (b, p, c) ins ->
              0 <= b < Z.of_nat B /\ 0 <= p <= Z.of_nat L /\ 0 <= c < Z.of_nat A).
    { intros b p c Hr. pose proof (Hnn _ Hr) as H1. pose proof (Hin _ Hr) as H2.
      unfold nn3 in H1. unfold in3i in H2. rewrite !andb_true_iff in H1, H2. lia. }
    replace (forallb (fun r : Z * Z * Z => (0 <=? fst (fst r)) && (fst (fst r) <? Z.of_nat B)) ins) with true.
    2: { symmetry. apply forallb_forall. intros [[b p] c] Hr. cbn [fst]. destruct (Hrow b p c Hr) as [? _].
         apply andb_true_iff. split; [apply Z.leb_le | apply Z.ltb_lt]; lia. }
    cbn [guard bind].
    rewrite (mapM_ok _ (ins_result A L ins lft)).
    2: { intros [i x] Hix. apply (in_combine_seq (tX X) []) in Hix as [Hi Hxi]. fold B in Hi.
         rewrite Nat.sub_0_r in Hxi. subst x. destruct (Hx i ltac:(lia)) as [HLi Hvi].
         set (x := nth i (tX X) []) in *.
         rewrite fold_weave0.
         - reflexivity.
         - rewrite HLi. exact Hvi.
         - apply sort_desc_desc. apply dpos_rows_of. exact Hdist.
         - intros [q c] Hr. apply (proj1 (sort_desc_In _ _)) in Hr. apply (proj1 (in_rows_of _ _ _ _)) in Hr.
           cbn [fst snd]. rewrite HLi. destruct (Hrow _ _ _ Hr) as [_ [? ?]]. split; assumption. }
    cbn [bind]. rewrite batch_eqb_refl. cbn [andb].
    unfold each_example. rewrite map_length, combine_length, seq_length. fold B. rewrite Nat.min_id, Nat.eqb_refl.
    cbn [andb]. apply forallb_seq. intros i Hi. apply dna_eqb_spec.
    rewrite nth_map_lt with (du := (0%nat, [])) by (rewrite combine_length, seq_length; fold B; lia).
    rewrite combine_nth by (rewrite seq_length; reflexivity). rewrite seq_nth by exact Hi. cbn [Nat.add].
    destruct (Hx i Hi) as [HLi Hvi]. destruct (valid_two _ _ _ Hvi) as [_ HL1].
    unfold ins_result, keep_len. cbn [fst snd].
    rewrite (weave_ext (nth i (tX X) []) 0 _ _ (fun p _ => insf_sub_at A ins i p Hdist)).
    destruct lft; [|reflexivity]. destruct (Nat.eqb_spec L 0); [lia|reflexivity].
  - (* some insertion cannot be honoured: the call raises *)
    destruct (forallb (fun r : Z * Z * Z => (0 <=? fst (fst r)) && (fst (fst r) <? Z.of_nat B)) ins) eqn:Hguard;
      [|reflexivity].
    cbn [guard bind]. rewrite forallb_forall in Hguard.
    apply forallb_false_ex in Hin as [[[b p] c] [Hr Hout]].
    pose proof (Hguard _ Hr) as Hb. cbn [fst] in Hb. apply andb_true_iff in Hb as [Hb0 HbB].
    apply Z.leb_le in Hb0. apply Z.ltb_lt in HbB.
    pose proof (Hnn _ Hr) as Hn. unfold nn3 in Hn. rewrite !andb_true_iff in Hn. destruct Hn as [[_ Hp0] Hc0].
    apply Z.leb_le in Hp0, Hc0.
    set (i := Z.to_nat b). assert (Hi : (i < B)%nat) by (unfold i; lia).
    assert (Hrow : In (p, c) (sort_desc (rows_of ins i))).
    { apply sort_desc_In. apply in_rows_of. unfold i. rewrite Z2Nat.id by lia. exact Hr. }
    rewrite (mapM_err _ _ (i, nth i (tX X) [])); [reflexivity | apply combine_seq_In; exact Hi |].
    destruct (Hx i Hi) as [HLi _].
    replace (fold_left (ins_step A) (sort_desc (rows_of ins i)) (Ok (nth i (tX X) []))) with (@Err dna);
      [reflexivity|]. symmetry.
    unfold in3i in Hout. destruct (Z.ltb_spec b (Z.of_nat B)); [|lia]. cbn [andb] in Hout.
    destruct (Z.leb_spec p (Z.of_nat L)) as [HpL|HpL]; cbn [andb] in Hout.
    + (* character outside the alphabet *)
      apply Z.ltb_ge in Hout.
      apply (fold_err_char A _ (p, c) Hrow). cbn [snd]. apply tidx_above. exact Hout.
    + (* position beyond the end: the largest position is inserted first and fails the guard *)
      pose proof (sort_desc_desc _ (dpos_rows_of ins i Hdist)) as Hd.
      destruct (sort_desc (rows_of ins i)) as [|h t]; [destruct Hrow|].
      cbn [fold_left]. rewrite step_err_pos; [apply fold_err|].
      rewrite HLi. destruct Hd as [Hlt _]. destruct Hrow as [->|Hrow]; [cbn [fst]; lia|].
      specialize (Hlt _ Hrow). cbn [fst] in Hlt. lia.
Qed.

(* ====================================================================================== *)
(* readable corollaries *)

(* the common number of positions every example loses *)
Definition del_total (X : tensor) (dels : list (Z * Z)) : nat :=
  max_nat (map (fun ix => lost (dels_of dels (fst ix)) (snd ix)) (indexed (tX X))).

Lemma each_example_inv X Y f : each_example X Y f = true ->
  length Y = length X /\ forall i, (i < length X)%nat -> f i (nth i X []) (nth i Y []) = true.
Proof.
  unfold each_example. intros H. apply andb_true_iff in H as [H1 H2]. apply Nat.eqb_eq in H1.
  split; [exact H1|]. apply forallb_seq. exact H2.
Qed.

Lemma lost_le D (x : dna) : (lost D x <= length x)%nat /\ length (remove_named D x) = (length x - lost D x)%nat.
Proof.
  unfold lost. rewrite remove_named_select, select_length by (rewrite und_length; reflexivity).
  pose proof (ntrue_le (und D (length x))) as H. rewrite und_length in H. lia.
Qed.

Lemma del_explicit X dels lft :
  shape_ok X = true -> (1 <= length (tX X))%nat -> (1 <= tA X)%nat ->
  (forall r, In r dels -> 0 <= fst r < Z.of_nat (length (tX X)) /\ 0 <= snd r < Z.of_nat (tL X)) ->
  (del_total X dels < tL X)%nat ->
  exists Xb Y,
    deletion_effect X dels lft = Ok (Xb, Y) /\
    length Xb = length (tX X) /\ length Y = length (tX X) /\
    forall i, (i < length (tX X))%nat ->
      let x := nth i (tX X) [] in
      let D := dels_of dels i in
      nth i Xb [] = trim lft (del_total X dels) x /\
      nth i Y [] = trim lft (del_total X dels - lost D x) (remove_named D x) /\
      length (nth i Y []) = (tL X - del_total X dels)%nat.
Proof.
  intros Hshape HB HA Hrows Hmx.
  pose proof (del_core X dels lft) as H. cbn [spec_core model] in H. fold (del_total X dels) in H.
  assert (H1 : shape_ok X && (1 <=? length (tX X))%nat && (1 <=? tA X)%nat && forallb nn2 dels = true).
  { rewrite Hshape. apply Nat.leb_le in HB, HA. rewrite HB, HA. cbn [andb].
    apply forallb_forall. intros r Hr. destruct (Hrows r Hr). unfold nn2.
    apply andb_true_iff. split; apply Z.leb_le; lia. }
  rewrite H1 in H.
  assert (H2 : forallb (fun r : Z * Z => (fst r <? Z.of_nat (length (tX X))) && (snd r <? Z.of_nat (tL X))) dels = true).
  { apply forallb_forall. intros r Hr. destruct (Hrows r Hr).
    apply andb_true_iff. split; apply Z.ltb_lt; lia. }
  rewrite H2 in H. apply Nat.ltb_lt in Hmx. rewrite Hmx in H. apply Nat.ltb_lt in Hmx.
  destruct (deletion_effect X dels lft) as [[Xb Y]|]; [|discriminate].
  exists Xb, Y. apply andb_true_iff in H as [Hb Ha].
  apply each_example_inv in Hb as [HbL Hb]. apply each_example_inv in Ha as [HaL Ha].
  split; [reflexivity|]. split; [exact HbL|]. split; [exact HaL|].
  intros i Hi x D. specialize (Hb i Hi). specialize (Ha i Hi). apply dna_eqb_spec in Hb, Ha.
  fold x in Hb, Ha. fold D in Ha. split; [exact Hb|]. split; [exact Ha|].
  rewrite Ha. destruct (shape_ok_inv X Hshape i Hi) as [HLi _]. fold x in HLi.
  destruct (lost_le D x) as [Hle Hrl].
  assert (Hlm : (lost D x <= del_total X dels)%nat).
  { unfold del_total. apply max_nat_ge. rewrite (map_indexed _ (tX X) []).
    apply in_map_iff. exists i. split; [reflexivity|]. apply in_seq. lia. }
  unfold trim. destruct lft; [rewrite skipn_length | rewrite firstn_length]; lia.
Qed.

(* variants of one example never alter another: the edited example i is determined by its own
   sequence, its own deletions and the common total *)
Lemma del_local X dels dels' lft i :
  shape_ok X = true -> (1 <= length (tX X))%nat -> (1 <= tA X)%nat ->
  (forall r, In r dels -> 0 <= fst r < Z.of_nat (length (tX X)) /\ 0 <= snd r < Z.of_nat (tL X)) ->
  (forall r, In r dels' -> 0 <= fst r < Z.of_nat (length (tX X)) /\ 0 <= snd r < Z.of_nat (tL X)) ->
  (del_total X dels < tL X)%nat ->
  (i < length (tX X))%nat ->
  dels_of dels i = dels_of dels' i -> del_total X dels = del_total X dels' ->
  forall Xb Y Xb' Y', deletion_effect X dels lft = Ok (Xb, Y) -> deletion_effect X dels' lft = Ok (Xb', Y') ->
  nth i Y [] = nth i Y' [].
Proof.
  intros Hshape HB HA Hr Hr' Hmx Hi HD Ht Xb Y Xb' Y' E E'.
  destruct (del_explicit X dels lft Hshape HB HA Hr Hmx) as [Xb0 [Y0 [E0 [_ [_ H0]]]]].
  assert (Hmx' : (del_total X dels' < tL X)%nat) by (rewrite <- Ht; exact Hmx).
  destruct (del_explicit X dels' lft Hshape HB HA Hr' Hmx') as [Xb1 [Y1 [E1 [_ [_ H1]]]]].
  rewrite E in E0. injection E0 as <- <-. rewrite E' in E1. injection E1 as <- <-.
  destruct (H0 i Hi) as [_ [-> _]]. destruct (H1 i Hi) as [_ [-> _]]. rewrite HD, Ht. reflexivity.
Qed.

(* ====================================================================================== *)
(* the property theorems: scope-independent 'before' clause + the core *)

Lemma sub_spec X subs : spec_ok (CSub X subs) (model (CSub X subs)) = true.
Proof.
  unfold spec_ok. rewrite sub_core, andb_true_r. cbn [model before_ok]. unfold substitution_effect.
  destruct (mapM _ subs); cbn [bind]; [apply batch_eqb_refl | reflexivity].
Qed.

Lemma del_spec X dels lft : spec_ok (CDel X dels lft) (model (CDel X dels lft)) = true.
Proof. unfold spec_ok. rewrite del_core. reflexivity. Qed.

Lemma ins_spec X ins lft : spec_ok (CIns X ins lft) (model (CIns X ins lft)) = true.
Proof.
  unfold spec_ok. rewrite ins_core, andb_true_r. cbn [model before_ok].
  unfold insertion_effect, insertion_effect_gen.
  destruct (guard _); cbn [bind]; [|reflexivity].
  destruct (mapM _ _); cbn [bind]; [apply batch_eqb_refl | reflexivity].
Qed.
