(* One-hot tensors as nested lists.  A tensor of shape (B, A, L) is a [batch]: a list of
   B sequences, each a list of L columns, each column a list of A integers.            *)
From TM Require Import Base.Prelude.
Open Scope Z_scope.

Notation col := (list Z) (only parsing).
Notation dna := (list col) (only parsing).
Notation batch := (list dna) (only parsing).

Definition col_eqb : col -> col -> bool := list_eqb Z.eqb.
Definition dna_eqb : dna -> dna -> bool := list_eqb col_eqb.
Definition batch_eqb : batch -> batch -> bool := list_eqb dna_eqb.

Lemma col_eqb_spec a b : col_eqb a b = true <-> a = b.
Proof. apply list_eqb_spec. intros; apply Z.eqb_eq. Qed.
Lemma dna_eqb_spec a b : dna_eqb a b = true <-> a = b.
Proof. apply list_eqb_spec. apply col_eqb_spec. Qed.
Lemma batch_eqb_spec a b : batch_eqb a b = true <-> a = b.
Proof. apply list_eqb_spec. apply dna_eqb_spec. Qed.

Definition col_sum (c : col) : Z := fold_right Z.add 0 c.

(* a column is one-hot over an alphabet of size A: A entries, each 0 or 1, summing to 1 *)
Definition col_valid (A : nat) (c : col) : bool :=
  (length c =? A)%nat && forallb (fun v => (v =? 0) || (v =? 1)) c && (col_sum c =? 1).

Definition dna_valid (A : nat) (s : dna) : bool := forallb (col_valid A) s.
Definition cols_valid (A : nat) (X : batch) : bool := forallb (dna_valid A) X.

Definition has (v : Z) (X : batch) : bool :=
  existsb (fun s => existsb (fun c => existsb (Z.eqb v) c) s) X.

(* shape: all sequences have L columns *)
Definition rect (L : nat) (X : batch) : bool := forallb (fun s => (length s =? L)%nat) X.

Definition seqlen (X : batch) : nat := match X with [] => 0 | s :: _ => length s end.
Definition alpha (X : batch) : nat :=
  match X with (c :: _) :: _ => length c | _ => 0%nat end.

(* mirrors utils._validate_input(ohe=True): the set of values is exactly {0,1} (both must
   occur) and every column sums to one.  Shape regularity is a property of tensors.      *)
Definition valid_ohe (A L : nat) (X : batch) : bool :=
  rect L X && cols_valid A X && has 0 X && has 1 X.

Lemma dna_valid_app A s t : dna_valid A (s ++ t) = dna_valid A s && dna_valid A t.
Proof. apply forallb_app. Qed.

Lemma forallb_firstn {T} (f : T -> bool) n l : forallb f l = true -> forallb f (firstn n l) = true.
Proof.
  revert n; induction l as [|x xs IH]; intros [|n] H; cbn in *; auto.
  apply andb_true_iff in H as [H1 H2]. rewrite H1, IH; auto.
Qed.

Lemma forallb_skipn {T} (f : T -> bool) n l : forallb f l = true -> forallb f (skipn n l) = true.
Proof.
  revert n; induction l as [|x xs IH]; intros [|n] H; cbn in *; auto.
  apply andb_true_iff in H as [H1 H2]. auto.
Qed.

Lemma dna_valid_firstn A n s : dna_valid A s = true -> dna_valid A (firstn n s) = true.
Proof. apply forallb_firstn. Qed.
Lemma dna_valid_skipn A n s : dna_valid A s = true -> dna_valid A (skipn n s) = true.
Proof. apply forallb_skipn. Qed.
