(* Shared prelude: imports, lia set-up, the coarse outcome type used by every model. *)
From Coq Require Export List ZArith Bool Lia Arith PeanoNat ZifyBool ZifyNat.
Export ListNotations.
Ltac Zify.zify_post_hook ::= Z.div_mod_to_equations.

(* Outcome of an API call: a value, or "the call raised" (error class is deliberately
   not modelled: the properties only distinguish accepted from rejected). *)
Inductive res (A : Type) : Type :=
| Ok  : A -> res A
| Err : res A.
Arguments Ok {A} _.
Arguments Err {A}.

Definition bind {A B} (r : res A) (f : A -> res B) : res B :=
  match r with Ok a => f a | Err => Err end.
Notation "'do' x <- r ;; k" := (bind r (fun x => k))
  (at level 200, x name, r at level 100, k at level 200).
Definition guard (b : bool) : res unit := if b then Ok tt else Err.
Notation "'ensure' b ;; k" := (bind (guard b) (fun _ => k))
  (at level 200, b at level 100, k at level 200).

Definition is_ok {A} (r : res A) : bool := match r with Ok _ => true | Err => false end.

Fixpoint mapM {A B} (f : A -> res B) (l : list A) : res (list B) :=
  match l with
  | [] => Ok []
  | x :: xs => do y <- f x ;; do ys <- mapM f xs ;; Ok (y :: ys)
  end.

(* decidable equality helpers used by the executable specs *)
Fixpoint list_eqb {A} (eqb : A -> A -> bool) (l1 l2 : list A) : bool :=
  match l1, l2 with
  | [], [] => true
  | x :: xs, y :: ys => eqb x y && list_eqb eqb xs ys
  | _, _ => false
  end.

Lemma list_eqb_spec {A} (eqb : A -> A -> bool)
  (H : forall x y, eqb x y = true <-> x = y) :
  forall l1 l2, list_eqb eqb l1 l2 = true <-> l1 = l2.
Proof.
  induction l1 as [|x xs IH]; intros [|y ys]; cbn; split; intro E;
    try reflexivity; try discriminate.
  - apply andb_true_iff in E as [E1 E2]. apply H in E1. apply IH in E2. congruence.
  - injection E as -> ->. apply andb_true_iff; split; [apply H | apply IH]; reflexivity.
Qed.

Definition res_eqb {A} (eqb : A -> A -> bool) (r1 r2 : res A) : bool :=
  match r1, r2 with
  | Ok a, Ok b => eqb a b
  | Err, Err => true
  | _, _ => false
  end.

(* The verdict code every correspondence case is reduced to, evaluated by vm_compute:
   0 = implementation outcome equals the model's and satisfies the spec
   1 = differs from the model but still satisfies the spec (tie broken, no failing input)
   2 = the implementation's outcome violates the spec on this input (failing input)    *)
Definition verdict (agree spec_ok : bool) : nat :=
  if spec_ok then (if agree then 0 else 1) else 2.

(* indices (with code) of the cases that are not 0 *)
Fixpoint bad_from {A} (f : A -> nat) (i : nat) (l : list A) : list (nat * nat) :=
  match l with
  | [] => []
  | c :: cs => match f c with
               | O => bad_from f (S i) cs
               | k => (i, k) :: bad_from f (S i) cs
               end
  end.
Definition bad {A} (f : A -> nat) (l : list A) := bad_from f 0 l.
