(* List lemmas shared by the models: nth through firstn/skipn, Python-style chunking. *)
From TM Require Import Base.Prelude.

Lemma nth_firstn {T} (l : list T) n q d : (q < n)%nat -> nth q (firstn n l) d = nth q l d.
Proof.
  revert n q; induction l as [|x xs IH]; intros [|n] [|q] H; cbn; try lia; auto.
  apply IH; lia.
Qed.

Lemma nth_skipn {T} (l : list T) n q d : nth q (skipn n l) d = nth (n + q) l d.
Proof.
  revert n; induction l as [|x xs IH]; intros [|n]; cbn; auto.
  destruct q; reflexivity.
Qed.

(* the loop  for start in range(0, n, b): l[start:start+b]  *)
Fixpoint chunks_fuel {T} (fuel b : nat) (l : list T) : list (list T) :=
  match fuel with
  | O => []
  | S f => match l with
           | [] => []
           | _ => firstn b l :: chunks_fuel f b (skipn b l)
           end
  end.
Definition chunks {T} (b : nat) (l : list T) : list (list T) := chunks_fuel (length l) b l.

Lemma concat_chunks_fuel {T} (b : nat) : (1 <= b)%nat ->
  forall fuel (l : list T), (length l <= fuel)%nat -> concat (chunks_fuel fuel b l) = l.
Proof.
  intros Hb; induction fuel as [|f IH]; intros l Hl.
  - destruct l; cbn in *; [reflexivity | lia].
  - destruct l as [|x xs]; [reflexivity|].
    cbn [chunks_fuel concat]. rewrite IH.
    + apply firstn_skipn.
    + rewrite skipn_length. cbn [length] in *. lia.
Qed.

Lemma concat_chunks {T} (b : nat) (l : list T) : (1 <= b)%nat -> concat (chunks b l) = l.
Proof. intros Hb; apply concat_chunks_fuel; auto. Qed.

Lemma chunks_fuel_nonempty {T} (b : nat) : (1 <= b)%nat ->
  forall fuel (l : list T), Forall (fun c => c <> [] /\ (length c <= b)%nat) (chunks_fuel fuel b l).
Proof.
  intros Hb; induction fuel as [|f IH]; intros l; cbn; [constructor|].
  destruct l as [|x xs]; [constructor|]. constructor; [|apply IH].
  split.
  - destruct b; [lia|]. cbn. discriminate.
  - rewrite firstn_length. lia.
Qed.

(* map2 over two lists of equal length *)
Definition map2 {A B C} (f : A -> B -> C) (l1 : list A) (l2 : list B) : list C :=
  map (fun p => f (fst p) (snd p)) (combine l1 l2).

Lemma map2_length {A B C} (f : A -> B -> C) l1 l2 :
  length l1 = length l2 -> length (map2 f l1 l2) = length l1.
Proof. intros H. unfold map2. rewrite map_length, combine_length. lia. Qed.

Lemma nth_map2 {A B C} (f : A -> B -> C) l1 l2 i da db dc :
  (i < length l1)%nat -> length l1 = length l2 ->
  nth i (map2 f l1 l2) dc = f (nth i l1 da) (nth i l2 db).
Proof.
  intros Hi Hl. unfold map2.
  rewrite nth_indep with (d' := f da db) by (rewrite map_length, combine_length; lia).
  change (f da db) with ((fun p => f (fst p) (snd p)) (da, db)).
  rewrite map_nth, combine_nth by auto. reflexivity.
Qed.
