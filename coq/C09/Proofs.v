(* C09 proofs: the model's enumeration, chunked prediction and reshape arithmetic deliver, at
   [k][i][c][p - start], the network's value on example i with position p set to character c
   (ism_spec); its tensor-by-tensor attribution equals the documented entry-wise formula
   (attr_spec); the two pre-fix variants violate the spec (witnesses by vm_compute). *)
From TM Require Import Base.Prelude Base.OneHot Base.PyList C09.Model C09.Spec C09.Lib.
From Coq Require Import QArith Qabs.
Open Scope nat_scope.

Section P.
Variable h : net.

(* ---------- predict = the network on every example, whatever the batch size ---------- *)

Definition zipargs (X : list dna) (args : option (list Arg)) : list (dna * option Arg) :=
  match args with
  | None => map (fun x => (x, None)) X
  | Some a => map (fun p => (fst p, Some (snd p))) (combine X a)
  end.

Definition pred_val (K : nat) (X : list dna) (args : option (list Arg)) : list (list OT) :=
  tab K (fun k => map (fun p => h (fst p) (snd p) k) (zipargs X args)).

Lemma predict_ok K bs X args :
  (1 <= bs)%Z -> 1 <= length X ->
  match args with Some a => length a = length X | None => True end ->
  predict h K bs X args = Ok (pred_val K X args).
Proof.
  intros Hbs Hn Ha. unfold predict.
  assert (G1 : (match args with Some a => length a =? length X | None => true end) = true).
  { destruct args; [apply Nat.eqb_eq; exact Ha | reflexivity]. }
  rewrite G1. cbn [guard bind].
  assert (G2 : (1 <=? Z.min bs (Z.of_nat (length X)))%Z = true) by lia.
  rewrite G2. cbn [guard bind].
  set (b := Z.to_nat (Z.min bs (Z.of_nat (length X)))).
  assert (Hb : 1 <= b) by (unfold b; lia).
  f_equal. unfold pred_val. apply tab_ext. intros k Hk.
  destruct args as [a|]; unfold zipargs.
  - unfold map2. rewrite !map_map. cbn [fst snd].
    rewrite (map_ext _ (fun p => map (fun q => h (fst q) (Some (snd q)) k) (combine (fst p) (snd p)))).
    2:{ intros p. unfold run_batch. rewrite nth_tab by exact Hk. reflexivity. }
    rewrite <- (map_map (fun p => combine (fst p) (snd p))
                        (map (fun q => h (fst q) (Some (snd q)) k))).
    rewrite <- chunks_combine by (symmetry; exact Ha).
    apply concat_map_chunks. exact Hb.
  - rewrite !map_map. cbn [fst snd].
    rewrite (map_ext _ (fun xs => map (fun x => h x None k) xs)).
    2:{ intros xs. unfold run_batch. rewrite nth_tab by exact Hk. reflexivity. }
    apply concat_map_chunks. exact Hb.
Qed.

Definition argn (args : option (list Arg)) (i : nat) : option Arg :=
  match args with Some a => Some (nth i a []) | None => None end.

Lemma zipargs_length X args :
  match args with Some a => length a = length X | None => True end ->
  length (zipargs X args) = length X.
Proof.
  intros Ha. destruct args as [a|]; cbn; rewrite map_length; [|reflexivity].
  rewrite combine_length. lia.
Qed.

Lemma nth_zipargs X args i :
  match args with Some a => length a = length X | None => True end -> i < length X ->
  nth i (zipargs X args) ([], None) = (nth i X [], argn args i).
Proof.
  intros Ha Hi. destruct args as [a|]; unfold zipargs, argn.
  - rewrite (nth_map_lt _ _ _ _ (@nil (list Z), @nil Z)) by (rewrite combine_length; lia).
    rewrite combine_nth by (symmetry; exact Ha). reflexivity.
  - rewrite (nth_map_lt _ _ _ _ []) by exact Hi. reflexivity.
Qed.

Lemma pred_val_tab K X args :
  match args with Some a => length a = length X | None => True end ->
  pred_val K X args = tab K (fun k => tab (length X) (fun i => h (nth i X []) (argn args i) k)).
Proof.
  intros Ha. unfold pred_val. apply tab_ext. intros k Hk.
  rewrite (map_as_tab _ _ ([], None)), zipargs_length by exact Ha.
  apply tab_ext. intros i Hi. rewrite nth_zipargs by assumption. reflexivity.
Qed.

(* ---------- _edit_distance_one: the mutants, character-major ---------- *)

Definition muts (A : nat) (x : dna) (s e : nat) : list dna :=
  map (fun jk => set_nth (Z.to_nat (snd jk)) (onehot A (fst jk)) x)
      (product (seq 0 A) (pyrange (Z.of_nat s) (Z.of_nat e))).

Lemma pyrange_length s e : length (pyrange (Z.of_nat s) (Z.of_nat e)) = e - s.
Proof. unfold pyrange. rewrite map_length, seq_length. lia. Qed.

Lemma nth_pyrange s e w : w < e - s ->
  nth w (pyrange (Z.of_nat s) (Z.of_nat e)) 0%Z = Z.of_nat (s + w).
Proof.
  intros H. unfold pyrange. rewrite (nth_map_lt _ _ _ _ 0) by (rewrite seq_length; lia).
  rewrite seq_nth by lia. lia.
Qed.

Lemma In_pyrange s e k : In k (pyrange (Z.of_nat s) (Z.of_nat e)) ->
  (Z.of_nat s <= k < Z.of_nat e)%Z.
Proof.
  unfold pyrange. intros H. apply in_map_iff in H as [i [E Hi]]. apply in_seq in Hi. lia.
Qed.

Lemma edo_ok A L x s e : s < e -> e <= L ->
  edit_distance_one A L x (Z.of_nat s) (Z.of_nat e) = Ok (muts A x s e).
Proof.
  intros Hse HeL. unfold edit_distance_one, norm_end.
  replace (0 <=? Z.of_nat e)%Z with true by lia.
  replace (0 <=? (Z.of_nat e - Z.of_nat s) * Z.of_nat A)%Z with true by nia.
  cbn [guard bind]. unfold muts. apply mapM_ok.
  intros [j k] Hin. unfold product in Hin. apply in_flat_map in Hin as [j' [_ Hin]].
  apply in_map_iff in Hin as [k' [E Hk]]. injection E as -> ->.
  apply In_pyrange in Hk. cbn [fst snd]. unfold pyidx.
  replace ((0 <=? k) && (k <? Z.of_nat L))%Z with true by lia. reflexivity.
Qed.

Lemma muts_length A x s e : length (muts A x s e) = A * (e - s).
Proof. unfold muts. rewrite map_length, product_length, seq_length, pyrange_length. reflexivity. Qed.

Lemma set_nth_mutant A x p c : p < length x -> set_nth p (onehot A c) x = mutant A x p c.
Proof.
  intros Hp. apply nth_ext with (d := []) (d' := []).
  - unfold mutant. rewrite set_nth_length, tab_length. reflexivity.
  - intros q Hq. rewrite set_nth_length in Hq. unfold mutant.
    rewrite nth_set_nth, nth_tab by lia. reflexivity.
Qed.

Lemma nth_muts A x s e c w : e <= length x -> c < A -> w < e - s ->
  nth (c * (e - s) + w) (muts A x s e) [] = mutant A x (s + w) c.
Proof.
  intros He Hc Hw. unfold muts.
  rewrite (nth_map_lt _ _ _ _ (0, 0%Z)) by (rewrite product_length, seq_length, pyrange_length; nia).
  assert (E : nth (c * (e - s) + w) (product (seq 0 A) (pyrange (Z.of_nat s) (Z.of_nat e))) (0, 0%Z)
              = (c, Z.of_nat (s + w))).
  { rewrite <- (pyrange_length s e) at 1.
    rewrite nth_product by (rewrite ?seq_length, ?pyrange_length; lia).
    rewrite seq_nth, nth_pyrange by lia. reflexivity. }
  rewrite E. cbn [fst snd].
  rewrite Nat2Z.id. apply set_nth_mutant. lia.
Qed.

(* ---------- what the scope test gives ---------- *)

Record facts (c : call) (s e : nat) : Prop := {
  fA : 1 <= cA c;
  fn : 1 <= length (cX c);
  fL : forall x, In x (cX c) -> length x = cL c;
  fargs : match cArgs c with Some a => length a = length (cX c) | None => True end;
  fbs : (1 <= cBs c)%Z;
  fK : 1 <= comps c;
  fstart : cStart c = Z.of_nat s;
  fend : norm_end (cL c) (cEnd c) = Z.of_nat e;
  fse : s < e;
  feL : e <= cL c }.

Lemma window_facts c s e : window c = Some (s, e) ->
  cStart c = Z.of_nat s /\ norm_end (cL c) (cEnd c) = Z.of_nat e /\ s < e /\ e <= cL c.
Proof.
  unfold window, norm_end.
  set (ez := if (0 <=? cEnd c)%Z then cEnd c else (Z.of_nat (cL c) + 1 + cEnd c)%Z).
  destruct ((0 <=? cStart c)%Z && (cStart c <? ez)%Z && (ez <=? Z.of_nat (cL c))%Z) eqn:E;
    [|discriminate].
  intros H. injection H as <- <-. lia.
Qed.

Lemma in_scope_facts c s e : in_scope h c = true -> window c = Some (s, e) -> facts c s e.
Proof.
  intros H Hw. unfold in_scope in H.
  apply andb_true_iff in H as [H _].
  apply andb_true_iff in H as [H HK].
  apply andb_true_iff in H as [H Hbs].
  apply andb_true_iff in H as [H Hargs].
  apply andb_true_iff in H as [H HL].
  apply andb_true_iff in H as [HA Hn].
  destruct (window_facts c s e Hw) as (W1 & W2 & W3 & W4).
  constructor; try assumption; try lia.
  - intros x Hx. rewrite forallb_forall in HL. apply HL in Hx.
    apply andb_true_iff in Hx as [Hx _]. apply Nat.eqb_eq in Hx. exact Hx.
  - destruct (cArgs c); [apply Nat.eqb_eq; exact Hargs | exact I].
  - unfold comps. destruct (cTuple c); lia.
Qed.

(* ---------- the raw outputs ---------- *)

Definition Y0 (c : call) : list (list OT) :=
  tab (comps c) (fun k => tab (length (cX c)) (fun i => h (nth i (cX c) []) (arg_of c i) k)).

Definition YH (c : call) (s e : nat) : list (list (list (list OT))) :=
  tab (comps c) (fun k => tab (length (cX c)) (fun i => tab (cA c) (fun ch => tab (e - s) (fun w =>
    h (mutant (cA c) (nth i (cX c) []) (s + w) ch) (arg_of c i) k)))).

Definition rep_args (c : call) (i m : nat) : option (list Arg) :=
  match cArgs c with Some a => Some (repeat (nth i a []) m) | None => None end.

Lemma rep_args_ok c i m (X_ : list dna) : length X_ = m ->
  match rep_args c i m with Some a => length a = length X_ | None => True end.
Proof. intros H. unfold rep_args. destruct (cArgs c); [rewrite repeat_length; lia | exact I]. Qed.

Lemma argn_rep_args c i m r : r < m -> argn (rep_args c i m) r = arg_of c i.
Proof.
  intros H. unfold argn, rep_args, arg_of. destruct (cArgs c); [|reflexivity].
  rewrite nth_repeat_lt by exact H. reflexivity.
Qed.

(* the flat list of predictions of output k, regrouped as (n, A, W) *)
Lemma reshape_flat c s e k : facts c s e -> k < comps c ->
  reshape3_z (length (cX c)) (cA c) (Z.of_nat e - Z.of_nat s)
    (concat (map (fun y => nth k y [])
       (tab (length (cX c)) (fun i =>
          pred_val (comps c) (muts (cA c) (nth i (cX c) []) s e)
                   (rep_args c i (cA c * (e - s)))))))
  = Ok (nth k (YH c s e) []).
Proof.
  intros F Hk. destruct F.
  set (n := length (cX c)). set (A := cA c). set (W := e - s).
  assert (HW : 1 <= W) by (unfold W; lia).
  set (blocks := map _ _).
  assert (Hblocks : blocks = tab n (fun i => map (fun p => h (fst p) (snd p) k)
            (zipargs (muts A (nth i (cX c) []) s e) (rep_args c i (A * W))))).
  { unfold blocks. rewrite map_tab. apply tab_ext. intros i Hi.
    unfold pred_val. rewrite nth_tab by exact Hk. reflexivity. }
  assert (Hlen : forall l, In l blocks -> length l = A * W).
  { intros l Hl. rewrite Hblocks in Hl. apply In_tab in Hl as [i [Hi ->]].
    rewrite map_length, zipargs_length by (apply rep_args_ok, muts_length).
    apply muts_length. }
  unfold reshape3_z.
  replace (Z.of_nat e - Z.of_nat s =? -1)%Z with false by lia.
  replace (0 <=? Z.of_nat e - Z.of_nat s)%Z with true by lia. cbn [guard bind].
  replace (Z.to_nat (Z.of_nat e - Z.of_nat s)) with W by (unfold W; lia).
  unfold reshape3.
  assert (Hflat : length (concat blocks) = n * A * W).
  { rewrite (length_concat_uniform (A * W)) by exact Hlen.
    rewrite Hblocks, tab_length. lia. }
  rewrite Hflat, Nat.eqb_refl. cbn [guard bind]. f_equal.
  unfold YH. rewrite nth_tab by exact Hk. fold n A W.
  apply tab_ext. intros i Hi. apply tab_ext. intros ch Hch. apply tab_ext. intros w Hw.
  replace ((i * A + ch) * W + w) with (i * (A * W) + (ch * W + w)) by lia.
  rewrite nth_concat_uniform; [| exact Hlen | rewrite Hblocks, tab_length; exact Hi | nia].
  rewrite Hblocks, nth_tab by exact Hi.
  assert (Hm : length (muts A (nth i (cX c) []) s e) = A * W) by apply muts_length.
  rewrite (nth_map_lt _ _ _ _ ([], None))
    by (rewrite zipargs_length by (apply rep_args_ok; exact Hm); rewrite Hm; nia).
  rewrite nth_zipargs; [| apply rep_args_ok; exact Hm | rewrite Hm; nia].
  cbn [fst snd]. rewrite argn_rep_args by nia.
  unfold A, W. rewrite nth_muts; [reflexivity | | exact Hch | exact Hw].
  rewrite (fL0 (nth i (cX c) [])) by (apply nth_In; exact Hi). exact feL0.
Qed.

Lemma ism_raw_ok c s e : facts c s e -> ism_raw_g h true true c = Ok (Y0 c, YH c s e).
Proof.
  intros F. pose proof F as F'. destruct F'.
  unfold ism_raw_g. cbv zeta.
  rewrite predict_ok by (try lia; assumption). cbn [bind].
  rewrite fend0, fstart0.
  rewrite (mapM_tab_ok _ (fun i => pred_val (comps c) (muts (cA c) (nth i (cX c) []) s e)
                                     (rep_args c i (cA c * (e - s))))).
  2:{ intros i Hi. rewrite edo_ok by assumption. cbn [bind].
      rewrite muts_length. fold (rep_args c i (cA c * (e - s))).
      apply predict_ok; [assumption | rewrite muts_length; nia | apply rep_args_ok, muts_length]. }
  cbn [bind].
  assert (HY0 : pred_val (comps c) (cX c) (cArgs c) = Y0 c).
  { rewrite pred_val_tab by assumption. reflexivity. }
  rewrite HY0.
  destruct (cTuple c) as [K|] eqn:ET.
  - rewrite (mapM_tab_ok _ (fun k => nth k (YH c s e) [])).
    2:{ intros k Hk. apply reshape_flat; [exact F | exact Hk]. }
    cbn [bind]. f_equal. f_equal.
    apply nth_ext with (d := []) (d' := []).
    + rewrite tab_length. unfold YH. rewrite tab_length. auto.
    + intros k Hk. rewrite tab_length in Hk. rewrite nth_tab by exact Hk. reflexivity.
  - assert (EK : comps c = 1) by (unfold comps; rewrite ET; reflexivity).
    rewrite reshape_flat by (try exact F; lia). cbn [bind]. f_equal. f_equal.
    unfold YH. rewrite EK, tab_1. reflexivity.
Qed.

Lemma OT_eqb_refl (o : OT) : OT_eqb o o = true.
Proof. apply list_eqb_refl. apply list_eqb_refl. apply Qeq_bool_refl. Qed.

Lemma raw_ok_Y c s e : raw_ok h c s e (Y0 c) (YH c s e) = true.
Proof.
  unfold raw_ok, Y0, YH. rewrite !tab_length, !Nat.eqb_refl. cbn [andb].
  apply forallb_seq. intros k Hk. rewrite !nth_tab by exact Hk.
  rewrite !tab_length, !Nat.eqb_refl. cbn [andb].
  apply forallb_seq. intros i Hi. rewrite !nth_tab by exact Hi.
  rewrite OT_eqb_refl, tab_length, Nat.eqb_refl. cbn [andb].
  apply forallb_seq. intros ch Hch. rewrite !nth_tab by exact Hch.
  rewrite tab_length, Nat.eqb_refl. cbn [andb].
  apply forallb_seq. intros w Hw. rewrite nth_tab by exact Hw. apply OT_eqb_refl.
Qed.

Lemma ism_spec_raw c : cMode c = MRaw -> spec_ok h c (model h c) = true.
Proof.
  intros Hm. unfold spec_ok.
  destruct (in_scope h c) eqn:Hs; [|reflexivity].
  destruct (window c) as [[s e]|] eqn:Hw; [|reflexivity].
  pose proof (in_scope_facts c s e Hs Hw) as F.
  unfold model, ism, ism_g. rewrite (ism_raw_ok c s e F). cbn [bind fst snd]. rewrite Hm.
  apply raw_ok_Y.
Qed.

End P.

(* ---------- target selection ---------- *)

Definition selp (t : target) (T : nat) (o : OT) : list Q :=
  match t with
  | TNone => concat o
  | TInt z => nth (first_row t T) o []
  | TSlice lo hi st =>
      concat (tab (slice_count lo hi st) (fun i => nth (Z.to_nat lo + i * Z.to_nat st) o []))
  end.

Lemma shape_ok_facts T R o : shape_ok T R o = true ->
  length o = T /\ (forall r, In r o -> length r = R).
Proof.
  unfold shape_ok. intros H. apply andb_true_iff in H as [H1 H2]. apply Nat.eqb_eq in H1.
  split; [exact H1|]. intros r Hr. rewrite forallb_forall in H2. apply H2 in Hr.
  apply Nat.eqb_eq in Hr. exact Hr.
Qed.

(* the rows a slice names lie inside the tensor *)
Lemma slice_row_lt lo hi st T i :
  (0 <= lo)%Z -> (lo < hi)%Z -> (hi <= Z.of_nat T)%Z -> (1 <= st)%Z ->
  i < slice_count lo hi st -> Z.to_nat lo + i * Z.to_nat st < T.
Proof.
  intros H0 H1 H2 H3 Hi. unfold slice_count in Hi.
  pose proof (Z.mul_div_le (hi - lo + st - 1) st ltac:(lia)) as Hq.
  set (q := ((hi - lo + st - 1) / st)%Z) in *.
  assert (Hiq : (Z.of_nat i <= q - 1)%Z) by lia.
  assert (Hm : (st * Z.of_nat i <= st * (q - 1))%Z) by (apply Z.mul_le_mono_nonneg_l; lia).
  assert (Hz : (lo + Z.of_nat i * st < Z.of_nat T)%Z) by lia.
  apply Nat2Z.inj_lt. rewrite Nat2Z.inj_add, Nat2Z.inj_mul, !Z2Nat.id by lia. exact Hz.
Qed.

Lemma slice_rows_uniform lo hi st T R (o : OT) :
  length o = T -> (forall r, In r o -> length r = R) ->
  (0 <= lo)%Z -> (lo < hi)%Z -> (hi <= Z.of_nat T)%Z -> (1 <= st)%Z ->
  forall l, In l (tab (slice_count lo hi st) (fun i => nth (Z.to_nat lo + i * Z.to_nat st) o [])) ->
  length l = R.
Proof.
  intros HT HR H0 H1 H2 H3 l Hl. apply In_tab in Hl as [i [Hi ->]].
  apply HR, nth_In. rewrite HT. apply (slice_row_lt lo hi st T i); assumption.
Qed.

Lemma target_ok_slice lo hi st T : target_ok (TSlice lo hi st) T = true ->
  (0 <= lo)%Z /\ (lo < hi)%Z /\ (hi <= Z.of_nat T)%Z /\ (1 <= st)%Z.
Proof. cbn [target_ok]. lia. Qed.

Lemma tsel_ok t T R o : shape_ok T R o = true -> target_ok t T = true ->
  tsel t o = Ok (selp t T o).
Proof.
  intros Hs Ht. apply shape_ok_facts in Hs as [HT _].
  destruct t as [|z|lo hi st]; cbn [tsel selp first_row] in *.
  - reflexivity.
  - cbn [target_ok] in Ht. unfold pyidx. rewrite HT.
    destruct ((0 <=? z)%Z && (z <? Z.of_nat T)%Z) eqn:E1.
    + cbn [bind]. replace (z <? 0)%Z with false by lia. reflexivity.
    + replace ((- Z.of_nat T <=? z)%Z && (z <? 0)%Z) with true by lia.
      cbn [bind]. replace (z <? 0)%Z with true by lia. reflexivity.
  - cbn [target_ok] in Ht. rewrite HT, Ht. reflexivity.
Qed.

Lemma selp_length t T R o : shape_ok T R o = true -> target_ok t T = true ->
  length (selp t T o) = nsel t T * R.
Proof.
  intros Hs Ht. apply shape_ok_facts in Hs as [HT HR].
  destruct t as [|z|lo hi st]; cbn [selp nsel first_row] in *.
  - rewrite (length_concat_uniform R) by exact HR. rewrite HT. reflexivity.
  - cbn [target_ok] in Ht. rewrite Nat.mul_1_l. apply HR. apply nth_In.
    destruct (z <? 0)%Z eqn:E; lia.
  - apply target_ok_slice in Ht as (H0 & H1 & H2 & H3).
    rewrite (length_concat_uniform R) by (apply (slice_rows_uniform lo hi st T R o); assumption).
    rewrite tab_length. reflexivity.
Qed.

Lemma nth_selp t T R o j : shape_ok T R o = true -> target_ok t T = true -> 1 <= R ->
  j < nsel t T * R -> nth j (selp t T o) 0%Q = pick t T R o j.
Proof.
  intros Hs Ht HR1 Hj. apply shape_ok_facts in Hs as [HT HR]. unfold pick.
  assert (Hdm : j = j / R * R + j mod R) by (rewrite (Nat.div_mod j R) at 1 by lia; lia).
  assert (Hmod : j mod R < R) by (apply Nat.mod_upper_bound; lia).
  assert (Hdiv : j / R < nsel t T) by (apply Nat.div_lt_upper_bound; lia).
  destruct t as [|z|lo hi st]; cbn [selp nsel first_row stride] in *.
  - rewrite Hdm at 1. rewrite Nat.mul_1_r.
    rewrite nth_concat_uniform; [reflexivity | exact HR | lia | exact Hmod].
  - apply Nat.lt_1_r in Hdiv. rewrite Nat.mul_1_l in Hj.
    rewrite Hdiv, Nat.mul_0_l, Nat.add_0_r, Nat.mod_small by exact Hj. reflexivity.
  - apply target_ok_slice in Ht as (H0 & H1 & H2 & H3).
    fold (slice_count lo hi st) in Hdiv.
    rewrite Hdm at 1. rewrite nth_concat_uniform.
    + rewrite nth_tab by exact Hdiv. reflexivity.
    + apply (slice_rows_uniform lo hi st T R o); assumption.
    + rewrite tab_length. exact Hdiv.
    + exact Hmod.
Qed.

(* ---------- _attribution_score, entry by entry ---------- *)

Section Attr.
Variables (n A W T R : nat) (t : target).
Variable o0 : nat -> OT.
Variable oh : nat -> nat -> nat -> OT.
Hypothesis Hn : 1 <= n.
Hypothesis HA : 1 <= A.
Hypothesis HW : 1 <= W.
Hypothesis HR : 1 <= R.
Hypothesis Ht : target_ok t T = true.
Hypothesis Ho0 : forall i, i < n -> shape_ok T R (o0 i) = true.
Hypothesis Hoh : forall i c w, i < n -> c < A -> w < W -> shape_ok T R (oh i c w) = true.

Definition J := nsel t T * R.
Definition Dq (i c w j : nat) : Q := (pick t T R (oh i c w) j - pick t T R (o0 i) j)%Q.
Definition Vq (i c w : nat) : Q :=
  (sumQ (tab J (fun j => (Dq i c w j - sumQ (tab A (fun c' => Dq i c' w j)) / qn A)%Q)) / qn J)%Q.

Definition yh' := tab n (fun i => tab A (fun c => tab W (fun w => oh i c w))).

Lemma at4_tab (f : nat -> nat -> nat -> nat -> Q) n' A' W' J' i c w j :
  i < n' -> c < A' -> w < W' -> j < J' ->
  at4 (tab n' (fun i => tab A' (fun c => tab W' (fun w => tab J' (fun j => f i c w j))))) i c w j
  = f i c w j.
Proof. intros. unfold at4. rewrite !nth_tab by assumption. reflexivity. Qed.

Lemma at4_sh (g : OT -> list Q) i c w j : i < n -> c < A -> w < W ->
  at4 (map (map (map g)) yh') i c w j = nth j (g (oh i c w)) 0%Q.
Proof.
  intros Hi Hc Hw. unfold at4, yh'.
  rewrite (nth_map_lt _ _ _ _ (@nil (list OT))) by (rewrite tab_length; exact Hi).
  rewrite nth_tab by exact Hi.
  rewrite (nth_map_lt _ _ _ _ (@nil OT)) by (rewrite tab_length; exact Hc).
  rewrite nth_tab by exact Hc.
  rewrite (nth_map_lt _ _ _ _ (@nil (list Q))) by (rewrite tab_length; exact Hw).
  rewrite nth_tab by exact Hw.
  reflexivity.
Qed.

Lemma attribution_ok :
  exists a, attribution_score (tab n o0) yh' t = Ok a /\
    length a = n /\
    (forall i, i < n -> length (nth i a []) = A) /\
    (forall i c, i < n -> c < A -> length (nth c (nth i a []) []) = W) /\
    (forall i c w, i < n -> c < A -> w < W ->
       (nth w (nth c (nth i a []) []) 0 == Vq i c w)%Q).
Proof.
  unfold attribution_score.
  assert (E0 : mapM (tsel t) (tab n o0) = Ok (map (selp t T) (tab n o0))).
  { apply mapM_ok. intros x Hx. apply In_tab in Hx as [i [Hi ->]].
    apply (tsel_ok t T R); [apply Ho0; exact Hi | exact Ht]. }
  assert (E1 : mapM (mapM (mapM (tsel t))) yh' = Ok (map (map (map (selp t T))) yh')).
  { apply mapM_ok. intros x Hx. apply In_tab in Hx as [i [Hi ->]].
    apply mapM_ok. intros y Hy. apply In_tab in Hy as [c [Hc ->]].
    apply mapM_ok. intros z Hz. apply In_tab in Hz as [w [Hw ->]].
    apply (tsel_ok t T R); [apply Hoh; assumption | exact Ht]. }
  rewrite E0, E1. cbn [bind]. cbv zeta.
  assert (Ln : length yh' = n) by apply tab_length.
  assert (LA : length (nth 0 yh' []) = A).
  { unfold yh'. rewrite nth_tab by lia. apply tab_length. }
  assert (LW : length (nth 0 (nth 0 yh' []) []) = W).
  { unfold yh'. rewrite !nth_tab by lia. apply tab_length. }
  assert (LJ : length (nth 0 (map (selp t T) (tab n o0)) []) = J).
  { rewrite (nth_map_lt _ _ _ _ (@nil (list Q))) by (rewrite tab_length; lia). rewrite nth_tab by lia.
    apply (selp_length t T R); [apply Ho0; lia | exact Ht]. }
  rewrite Ln, LA, LW, LJ.
  eexists. split; [reflexivity|].
  split; [apply tab_length|].
  split; [intros i Hi; rewrite nth_tab by exact Hi; apply tab_length|].
  split; [intros i c Hi Hc; rewrite !nth_tab by assumption; apply tab_length|].
  intros i c w Hi Hc Hw. rewrite !nth_tab by assumption.
  unfold Vq. apply Qdiv_eq. apply sumQ_tab_ext. intros j Hj.
  assert (Hs0 : forall j', j' < J ->
            nth j' (nth i (map (selp t T) (tab n o0)) []) 0%Q = pick t T R (o0 i) j').
  { intros j' Hj'. rewrite (nth_map_lt _ _ _ _ (@nil (list Q))) by (rewrite tab_length; exact Hi).
    rewrite nth_tab by exact Hi.
    apply (nth_selp t T R); [apply Ho0; exact Hi | exact Ht | exact HR | exact Hj']. }
  assert (Hat : forall c', c' < A ->
            at4 (tab n (fun i0 => tab A (fun c0 => tab W (fun w0 => tab J (fun j0 =>
                   (at4 (map (map (map (selp t T))) yh') i0 c0 w0 j0
                    - nth j0 (nth i0 (map (selp t T) (tab n o0)) []) 0)%Q))))) i c' w j
            = Dq i c' w j).
  { intros c' Hc'. rewrite at4_tab by assumption. rewrite at4_sh by assumption.
    rewrite Hs0 by exact Hj. unfold Dq.
    rewrite (nth_selp t T R); [reflexivity | apply Hoh; assumption | exact Ht | exact HR | exact Hj]. }
  rewrite Hat by exact Hc. apply Qminus_eq; [reflexivity|].
  rewrite !nth_tab by assumption.
  apply Qdiv_eq. apply sumQ_tab_ext. intros c' Hc'. rewrite Hat by exact Hc'. reflexivity.
Qed.

End Attr.

(* ---------- the mask ---------- *)

Lemma pyslice_window {T} (x : list T) s e : s < e -> e <= length x ->
  pyslice x (Z.of_nat s) (Z.of_nat e) = firstn (e - s) (skipn s x).
Proof.
  intros Hse He. unfold pyslice, pybound.
  replace (Z.of_nat s <? 0)%Z with false by lia.
  replace (Z.of_nat e <? 0)%Z with false by lia.
  replace (Z.to_nat (Z.min (Z.of_nat e) (Z.of_nat (length x)))) with e by lia.
  replace (Z.to_nat (Z.min (Z.of_nat s) (Z.of_nat (length x)))) with s by lia.
  reflexivity.
Qed.

Lemma mask_ok (X : batch) (a : list (list (list Q))) n A L s e :
  1 <= n -> 1 <= A -> s < e -> e <= L ->
  length X = n -> (forall x, In x X -> length x = L) ->
  length a = n -> (forall i, i < n -> length (nth i a []) = A) ->
  (forall i c, i < n -> c < A -> length (nth c (nth i a []) []) = e - s) ->
  mask X a (Z.of_nat s) (Z.of_nat e) false =
  Ok (tab n (fun i => tab A (fun c => tab (e - s) (fun w =>
        (inject_Z (nth c (nth (s + w) (nth i X []) []) 0%Z) * nth w (nth c (nth i a []) []) 0)%Q)))).
Proof.
  intros Hn HA Hse HeL HX HL La LA LW. unfold mask.
  rewrite La, (LA 0) by lia. rewrite (LW 0 0) by lia.
  assert (G : ((length (map (fun x => pyslice x (Z.of_nat s) (Z.of_nat e)) X) =? n)
               && forallb (fun x => length x =? e - s)
                    (map (fun x => pyslice x (Z.of_nat s) (Z.of_nat e)) X)) = true).
  { rewrite map_length, HX, Nat.eqb_refl. cbn [andb]. apply forallb_forall.
    intros y Hy. apply in_map_iff in Hy as [x [<- Hx]]. apply Nat.eqb_eq.
    rewrite pyslice_window by (try rewrite (HL x Hx); lia).
    rewrite firstn_length, skipn_length, (HL x Hx). lia. }
  rewrite G. cbn [guard bind]. f_equal.
  apply tab_ext. intros i Hi. apply tab_ext. intros c Hc. apply tab_ext. intros w Hw.
  rewrite (nth_map_lt _ _ _ _ (@nil (list Z))) by lia.
  assert (Hx : length (nth i X []) = L) by (apply HL, nth_In; lia).
  rewrite pyslice_window by (try rewrite Hx; lia).
  rewrite nth_firstn by exact Hw. rewrite nth_skipn. reflexivity.
Qed.

Lemma close_eq tol a b : (a == b)%Q -> Qle_bool 0 tol = true -> close tol a b = true.
Proof.
  intros H Ht. unfold close. apply Qle_bool_iff. apply Qle_bool_iff in Ht.
  assert (E : (a - b == 0)%Q) by (rewrite H; ring). rewrite E. exact Ht.
Qed.

(* ---------- the attribution output ---------- *)

Section PA.
Variable h : net.

Lemma in_scope_attr c s e t hyp :
  in_scope h c = true -> window c = Some (s, e) -> cMode c = MAttr t hyp ->
  cTuple c = None /\ 1 <= cT c /\ 1 <= cR c /\ target_ok t (cT c) = true /\
  Qle_bool 0 (cTol c) = true /\
  (forall i, i < length (cX c) ->
     shape_ok (cT c) (cR c) (h (nth i (cX c) []) (arg_of c i) 0) = true) /\
  (forall i ch w, i < length (cX c) -> ch < cA c -> w < e - s ->
     shape_ok (cT c) (cR c) (h (mutant (cA c) (nth i (cX c) []) (s + w) ch) (arg_of c i) 0) = true).
Proof.
  intros H Hw Hm. unfold in_scope in H. apply andb_true_iff in H as [_ H].
  rewrite Hw, Hm in H. destruct (cTuple c); [discriminate|].
  apply andb_true_iff in H as [H Hall].
  apply andb_true_iff in H as [H Htol].
  apply andb_true_iff in H as [H Htg].
  apply andb_true_iff in H as [HT HR].
  rewrite forallb_seq in Hall.
  repeat split; try assumption; try lia.
  - intros i Hi. apply Hall in Hi. apply andb_true_iff in Hi as [Hi _]. exact Hi.
  - intros i ch w Hi Hch Hww. apply Hall in Hi. apply andb_true_iff in Hi as [_ Hi].
    rewrite forallb_seq in Hi. apply Hi in Hch. rewrite forallb_seq in Hch. apply Hch. exact Hww.
Qed.

Lemma attr_spec_main c t hyp : cMode c = MAttr t hyp -> spec_ok h c (model h c) = true.
Proof.
  intros Hm. unfold spec_ok.
  destruct (in_scope h c) eqn:Hs; [|reflexivity].
  destruct (window c) as [[s e]|] eqn:Hw; [|reflexivity].
  pose proof (in_scope_facts h c s e Hs Hw) as F.
  destruct (in_scope_attr c s e t hyp Hs Hw Hm) as (ET & HT & HR & Htg & Htol & Hs0 & Hsh).
  unfold model, ism, ism_g. rewrite (ism_raw_ok h c s e F). cbn [bind fst snd]. rewrite Hm, ET.
  assert (EK : comps c = 1) by (unfold comps; rewrite ET; reflexivity).
  destruct F.
  set (n := length (cX c)) in *. set (A := cA c) in *.
  set (o0 := fun i => h (nth i (cX c) []) (arg_of c i) 0).
  set (oh := fun i ch w => h (mutant A (nth i (cX c) []) (s + w) ch) (arg_of c i) 0).
  assert (E0 : nth 0 (Y0 h c) [] = tab n o0).
  { unfold Y0. rewrite nth_tab by lia. reflexivity. }
  assert (E1 : nth 0 (YH h c s e) [] = yh' n A (e - s) oh).
  { unfold YH. rewrite nth_tab by lia. reflexivity. }
  rewrite E0, E1.
  destruct (attribution_ok n A (e - s) (cT c) (cR c) t o0 oh) as (a & Ea & L1 & L2 & L3 & Hv);
    try assumption; try lia.
  rewrite Ea. cbn [bind].
  destruct hyp.
  - unfold attr_ok. fold n A. rewrite L1, Nat.eqb_refl. cbn [andb].
    apply forallb_seq. intros i Hi. rewrite (L2 i Hi), Nat.eqb_refl. cbn [andb].
    apply forallb_seq. intros ch Hch. rewrite (L3 i ch Hi Hch), Nat.eqb_refl. cbn [andb].
    apply forallb_seq. intros w Hww.
    apply close_eq; [|exact Htol]. exact (Hv i ch w Hi Hch Hww).
  - rewrite fend0, fstart0. replace (Z.of_nat e <=? 0)%Z with false by lia.
    rewrite (mask_ok (cX c) a n A (cL c) s e) by (try assumption; try lia; reflexivity).
    cbn [bind]. unfold attr_ok. fold n A. rewrite tab_length, Nat.eqb_refl. cbn [andb].
    apply forallb_seq. intros i Hi. rewrite nth_tab by exact Hi.
    rewrite tab_length, Nat.eqb_refl. cbn [andb].
    apply forallb_seq. intros ch Hch. rewrite nth_tab by exact Hch.
    rewrite tab_length, Nat.eqb_refl. cbn [andb].
    apply forallb_seq. intros w Hww. rewrite nth_tab by exact Hww.
    apply close_eq; [|exact Htol]. unfold expected.
    apply Qmult_eq_r. exact (Hv i ch w Hi Hch Hww).
Qed.

End PA.

(* ---------- the theorems, assembled ---------- *)

Lemma ism_spec_lemma : forall (h : net) (c : call), cMode c = MRaw -> spec_ok h c (model h c) = true.
Proof. exact ism_spec_raw. Qed.

Lemma attr_spec_lemma : forall (h : net) (c : call) t hyp,
  cMode c = MAttr t hyp -> spec_ok h c (model h c) = true.
Proof. exact attr_spec_main. Qed.

Lemma spec_all : forall (h : net) (c : call), spec_ok h c (model h c) = true.
Proof.
  intros h c. destruct (cMode c) as [|t hyp] eqn:E.
  - apply ism_spec_lemma. exact E.
  - apply (attr_spec_lemma h c t hyp). exact E.
Qed.

(* the same content for the raw outputs, unfolded into a statement with Leibniz equalities *)
Lemma ism_entries_lemma : forall (h : net) (c : call) s e,
  in_scope h c = true -> window c = Some (s, e) -> cMode c = MRaw ->
  exists y0 yh, model h c = Ok (ORaw y0 yh) /\
    forall k i, k < comps c -> i < length (cX c) ->
      nth i (nth k y0 []) [] = h (nth i (cX c) []) (arg_of c i) k /\
      forall ch w, ch < cA c -> w < e - s ->
        nth w (nth ch (nth i (nth k yh []) []) []) []
        = h (mutant (cA c) (nth i (cX c) []) (s + w) ch) (arg_of c i) k.
Proof.
  intros h c s e Hs Hw Hm. pose proof (in_scope_facts h c s e Hs Hw) as F.
  exists (Y0 h c), (YH h c s e). split.
  - unfold model, ism, ism_g. rewrite (ism_raw_ok h c s e F). cbn [bind fst snd]. rewrite Hm.
    reflexivity.
  - intros k i Hk Hi. split.
    + unfold Y0. rewrite !nth_tab by assumption. reflexivity.
    + intros ch w Hch Hww. unfold YH. rewrite !nth_tab by assumption. reflexivity.
Qed.

(* ---------- the pre-fix behaviours violate the spec ---------- *)

Definition wit_net : hdesc :=
  H [[1; 10; 100]; [2; 20; 200]; [3; 30; 300]; [4; 40; 400]; [5; 50; 500]]%Z []
    [[[(1, 0)]]; [[(2, 1)]]]%Z.
Definition wit_X : batch := [[[1; 0; 0]; [0; 1; 0]; [0; 0; 1]; [1; 0; 0]; [0; 1; 0]]]%Z.
(* tuple-output model, A = 3, L = 5, whole sequence *)
Definition wit_tuple : call := Call 3 5 wit_X None 0 (-1) 4 (Some 2) MRaw 1 1 0%Q.
(* single-tensor model, start = 2, end = -1 *)
Definition wit_window : call := Call 3 5 wit_X None 2 (-1) 4 None MRaw 1 1 0%Q.

Lemma tuple_v0_refuted_lemma :
  exists d c, in_scope (h_of d) c = true /\ spec_ok (h_of d) c (ism_v0_tuple (h_of d) c) = false.
Proof. exists wit_net, wit_tuple. split; vm_compute; reflexivity. Qed.

Lemma window_v0_refuted_lemma :
  exists d c, in_scope (h_of d) c = true /\ ism_v0_window (h_of d) c = Err /\
              spec_ok (h_of d) c (ism_v0_window (h_of d) c) = false.
Proof. exists wit_net, wit_window. repeat split; vm_compute; reflexivity. Qed.

(* the repaired code is fine on both witnesses, and the hypotheses of the theorems are satisfiable *)
Definition wit_attr : call :=
  Call 3 5 wit_X (Some [[5%Z]]) 1 4 2 None (MAttr (TInt 0) false) 1 1 (1 # 65536)%Q.
Lemma scope_example_lemma :
  in_scope (h_of wit_net) wit_tuple = true /\ in_scope (h_of wit_net) wit_window = true /\
  in_scope (h_of wit_net) wit_attr = true /\
  is_ok (model (h_of wit_net) wit_tuple) = true /\ is_ok (model (h_of wit_net) wit_attr) = true.
Proof. repeat split; vm_compute; reflexivity. Qed.
