(* C09 spec: the property as a decidable relation between a call and its outcome, stated entry by
   entry and independently of the model's enumeration / chunking / reshape arithmetic:

     raw:   y0[k][i] = h X_i args_i k         y_hat[k][i][c][p - start] = h (X_i with p := c) args_i k
     attr:  attr[i][c][w] = mean over the selected targets j of
                 (d c j - mean over characters c' of d c' j),   d c j = y_hat[i][c][w][j] - y0[i][j]
            times X[i][c][start + w] unless hypothetical.

   Where the property text is silent (window outside 0 <= start < end <= L after a negative end
   has been counted from L + 1,
   batch_size < 1, attribution of a tuple-output model, invalid target, outputs whose shape is not
   the declared (T, R)) spec_ok is true.                                                           *)
From TM Require Import Base.Prelude Base.OneHot Base.PyList C09.Model.
From Coq Require Import QArith Qabs.
Open Scope Z_scope.

Definition row_eqb : list Q -> list Q -> bool := list_eqb Qeq_bool.
Definition OT_eqb : OT -> OT -> bool := list_eqb row_eqb.

(* |a - b| <= tol *)
Definition close (tol a b : Q) : bool := Qle_bool (Qabs (a - b)) tol.

(* sequence x with position p set to character ch, column by column *)
Definition mutant (A : nat) (x : dna) (p ch : nat) : dna :=
  tab (length x) (fun q => if (q =? p)%nat
                           then tab A (fun j => if (j =? ch)%nat then 1 else 0)
                           else nth q x []).

(* the window [start, end) the call denotes, when it is one the property speaks about:
   0 <= start < end <= L, or a negative end counted the way the documented default end = -1
   ("the whole sequence") fixes it: end = -1 is L, end = -2 is L - 1, ... *)
Definition window (c : call) : option (nat * nat) :=
  let L := Z.of_nat (cL c) in
  let e := if 0 <=? cEnd c then cEnd c else L + 1 + cEnd c in
  if (0 <=? cStart c) && (cStart c <? e) && (e <=? L)
  then Some (Z.to_nat (cStart c), Z.to_nat e) else None.

Definition arg_of (c : call) (i : nat) : option Arg :=
  match cArgs c with Some a => Some (nth i a []) | None => None end.

(* target selection on an output of shape (T, R), entry by entry *)
Definition target_ok (t : target) (T : nat) : bool :=
  match t with
  | TNone => true
  | TInt z => (- Z.of_nat T <=? z) && (z <? Z.of_nat T)
  | TSlice lo hi st => (0 <=? lo) && (lo <? hi) && (hi <=? Z.of_nat T) && (1 <=? st)
  end.
(* how many targets are selected: ceil((hi - lo) / st) for a slice *)
Definition nsel (t : target) (T : nat) : nat :=
  match t with
  | TNone => T
  | TInt _ => 1%nat
  | TSlice lo hi st => Z.to_nat ((hi - lo + st - 1) / st)
  end.
Definition first_row (t : target) (T : nat) : nat :=
  match t with
  | TNone => 0%nat
  | TInt z => Z.to_nat (if z <? 0 then z + Z.of_nat T else z)
  | TSlice lo _ _ => Z.to_nat lo
  end.
Definition stride (t : target) : nat :=
  match t with TSlice _ _ st => Z.to_nat st | _ => 1%nat end.
(* j-th selected number (target-major): selected row j / R, entry j mod R *)
Definition pick (t : target) (T R : nat) (o : OT) (j : nat) : Q :=
  nth (j mod R) (nth (first_row t T + (j / R) * stride t) o []) 0%Q.

Definition shape_ok (T R : nat) (o : OT) : bool :=
  (length o =? T)%nat && forallb (fun r => (length r =? R)%nat) o.

Definition in_scope (h : net) (c : call) : bool :=
  let n := length (cX c) in
  (1 <=? cA c)%nat && (1 <=? n)%nat &&
  forallb (fun x => (length x =? cL c)%nat && forallb (fun cl => (length cl =? cA c)%nat) x) (cX c) &&
  match cArgs c with Some a => (length a =? n)%nat | None => true end &&
  (1 <=? cBs c) &&
  match cTuple c with Some K => (1 <=? K)%nat | None => true end &&
  match window c with
  | None => false
  | Some (s, e) =>
      match cMode c with
      | MRaw => true
      | MAttr t _ =>
          match cTuple c with
          | Some _ => false
          | None =>
              (1 <=? cT c)%nat && (1 <=? cR c)%nat && target_ok t (cT c) && Qle_bool 0 (cTol c) &&
              forallb (fun i =>
                let x := nth i (cX c) [] in
                shape_ok (cT c) (cR c) (h x (arg_of c i) 0%nat) &&
                forallb (fun ch => forallb (fun w =>
                    shape_ok (cT c) (cR c) (h (mutant (cA c) x (s + w) ch) (arg_of c i) 0%nat))
                  (seq 0 (e - s))) (seq 0 (cA c))) (seq 0 n)
          end
      end
  end.

(* the documented attribution value of entry (i, ch, w), from the network alone *)
Definition expected (h : net) (c : call) (t : target) (hyp : bool) (s i ch w : nat) : Q :=
  let x := nth i (cX c) [] in
  let a := arg_of c i in
  let J := (nsel t (cT c) * cR c)%nat in
  let d ch' j := (pick t (cT c) (cR c) (h (mutant (cA c) x (s + w) ch') a 0%nat) j
                  - pick t (cT c) (cR c) (h x a 0%nat) j)%Q in
  let v := (sumQ (tab J (fun j => (d ch j - sumQ (tab (cA c) (fun ch' => d ch' j)) / qn (cA c))%Q))
            / qn J)%Q in
  if hyp then v else (inject_Z (nth ch (nth (s + w) x []) 0%Z) * v)%Q.

Definition raw_ok (h : net) (c : call) (s e : nat)
  (y0 : list (list OT)) (yh : list (list (list (list OT)))) : bool :=
  let n := length (cX c) in
  let K := comps c in
  (length y0 =? K)%nat && (length yh =? K)%nat &&
  forallb (fun k =>
    let y0k := nth k y0 [] in
    let yhk := nth k yh [] in
    (length y0k =? n)%nat && (length yhk =? n)%nat &&
    forallb (fun i =>
      let x := nth i (cX c) [] in
      let a := arg_of c i in
      OT_eqb (nth i y0k []) (h x a k) &&
      (length (nth i yhk []) =? cA c)%nat &&
      forallb (fun ch =>
        (length (nth ch (nth i yhk []) []) =? e - s)%nat &&
        forallb (fun w =>
          OT_eqb (nth w (nth ch (nth i yhk []) []) []) (h (mutant (cA c) x (s + w) ch) a k))
          (seq 0 (e - s))) (seq 0 (cA c))) (seq 0 n)) (seq 0 K).

Definition attr_ok (h : net) (c : call) (t : target) (hyp : bool) (s e : nat)
  (a : list (list (list Q))) : bool :=
  let n := length (cX c) in
  (length a =? n)%nat &&
  forallb (fun i =>
    (length (nth i a []) =? cA c)%nat &&
    forallb (fun ch =>
      (length (nth ch (nth i a []) []) =? e - s)%nat &&
      forallb (fun w =>
        close (cTol c) (nth w (nth ch (nth i a []) []) 0%Q) (expected h c t hyp s i ch w))
        (seq 0 (e - s))) (seq 0 (cA c))) (seq 0 n).

Definition spec_ok (h : net) (c : call) (o : outcome) : bool :=
  if in_scope h c then
    match window c with
    | None => true
    | Some (s, e) =>
        match o with
        | Err => false                      (* a call the property speaks about must return *)
        | Ok r =>
            match cMode c, r with
            | MRaw, ORaw y0 yh => raw_ok h c s e y0 yh
            | MAttr t hyp, OAttr a => attr_ok h c t hyp s e a
            | _, _ => false
            end
        end
    end
  else true.

Definition model (h : net) (c : call) : outcome := ism h c.

Definition out_eqb (tol : Q) (a b : out) : bool :=
  match a, b with
  | ORaw y0 yh, ORaw y0' yh' =>
      list_eqb (list_eqb OT_eqb) y0 y0' &&
      list_eqb (list_eqb (list_eqb (list_eqb OT_eqb))) yh yh'
  | OAttr x, OAttr y => list_eqb (list_eqb (list_eqb (close tol))) x y
  | _, _ => false
  end.
Definition outcome_eqb (tol : Q) : outcome -> outcome -> bool := res_eqb (out_eqb tol).

(* ---------- the networks used by the correspondence run ----------
   score(x, a) = sum_{p,c} x[p][c] * base[p][c] + sum_j a[j] * acoef[j]     (an integer)
   output k, entry (t, r) = mult[k][t][r] * score + bias[k][t][r]                          *)
Record hdesc := H { hBase : list (list Z); hAcoef : list Z; hComps : list (list (list (Z * Z))) }.

Definition dot (a b : list Z) : Z := fold_right Z.add 0 (map2 Z.mul a b).
Definition hscore (d : hdesc) (x : dna) (a : option Arg) : Z :=
  fold_right Z.add 0 (map2 dot x (hBase d)) +
  match a with Some r => dot r (hAcoef d) | None => 0 end.
Definition h_of (d : hdesc) : net := fun x a k =>
  let s := hscore d x a in
  map (map (fun mb => inject_Z (fst mb * s + snd mb))) (nth k (hComps d) []).

(* what the harness observed: integers for raw outputs, exact rationals (of floats) for attributions *)
Inductive obs :=
| ObsErr
| ObsRaw (y0 : list (list (list (list Z)))) (yh : list (list (list (list (list (list Z))))))
| ObsAttr (a : list (list (list Q))).

Definition ot_of (o : list (list Z)) : OT := map (map inject_Z) o.
Definition to_outcome (b : obs) : outcome :=
  match b with
  | ObsErr => Err
  | ObsRaw y0 yh => Ok (ORaw (map (map ot_of) y0) (map (map (map (map ot_of))) yh))
  | ObsAttr a => Ok (OAttr a)
  end.

(* rational literal for the cases files (QArith is not imported there) *)
Definition mkq (n : Z) (d : positive) : Q := Qmake n d.

(* one correspondence case: the network, the call, what the implementation returned, and whether
   the caller's X and args were bit-identical afterwards ("the original sequences" must still be
   what the caller passed; aliasing is not expressible in the model, so it is observed; only
   demanded of calls the property speaks about) *)
Definition case := (hdesc * call * obs * bool)%type.

Definition check_case (cs : case) : nat :=
  let '(d, cl, b, unchanged) := cs in
  let o := to_outcome b in
  verdict (outcome_eqb (cTol cl) o (model (h_of d) cl))
          ((unchanged || negb (in_scope (h_of d) cl)) && spec_ok (h_of d) cl o).
