(* C09 helper lemmas: tabulated lists, mapM, uniform concatenations, itertools.product order,
   chunking of two aligned lists, sums of rationals. *)
From TM Require Import Base.Prelude Base.OneHot Base.PyList C09.Model.
From Coq Require Import QArith Qabs.
Open Scope nat_scope.

(* ---------- tab ---------- *)

Lemma tab_length {T} n (f : nat -> T) : length (tab n f) = n.
Proof. unfold tab. rewrite map_length, seq_length. reflexivity. Qed.

Lemma nth_tab {T} n (f : nat -> T) i d : i < n -> nth i (tab n f) d = f i.
Proof.
  intros Hi. unfold tab.
  rewrite (nth_indep _ d (f 0)) by (rewrite map_length, seq_length; lia).
  rewrite map_nth, seq_nth by lia. reflexivity.
Qed.

Lemma tab_ext {T} n (f g : nat -> T) : (forall i, i < n -> f i = g i) -> tab n f = tab n g.
Proof.
  intros H. unfold tab. apply map_ext_in. intros i Hi. apply in_seq in Hi. apply H. lia.
Qed.

Lemma map_tab {U T} (g : U -> T) n (f : nat -> U) : map g (tab n f) = tab n (fun i => g (f i)).
Proof. unfold tab. apply map_map. Qed.

Lemma map_as_tab {U T} (f : U -> T) (l : list U) (d : U) :
  map f l = tab (length l) (fun i => f (nth i l d)).
Proof.
  apply nth_ext with (d := f d) (d' := f d).
  - rewrite map_length, tab_length. reflexivity.
  - intros i Hi. rewrite map_length in Hi. rewrite map_nth, nth_tab by lia. reflexivity.
Qed.

Lemma nth_map_lt {U T} (f : U -> T) l i d d' : i < length l -> nth i (map f l) d = f (nth i l d').
Proof.
  intros H. rewrite (nth_indep _ d (f d')) by (rewrite map_length; lia). apply map_nth.
Qed.

Lemma In_tab {T} n (f : nat -> T) x : In x (tab n f) -> exists i, i < n /\ x = f i.
Proof.
  unfold tab. intros H. apply in_map_iff in H as [i [E Hi]]. apply in_seq in Hi.
  exists i. split; [lia | auto].
Qed.

Lemma tab_1 {T} (f : nat -> T) : tab 1 f = [f 0].
Proof. reflexivity. Qed.

Lemma forallb_seq (f : nat -> bool) n :
  forallb f (seq 0 n) = true <-> (forall q, q < n -> f q = true).
Proof.
  rewrite forallb_forall. split; intros H q Hq.
  - apply H. apply in_seq. lia.
  - apply in_seq in Hq. apply H. lia.
Qed.

(* ---------- mapM ---------- *)

Lemma mapM_ok {U T} (f : U -> res T) (g : U -> T) l :
  (forall x, In x l -> f x = Ok (g x)) -> mapM f l = Ok (map g l).
Proof.
  induction l as [|x xs IH]; intros H; cbn; [reflexivity|].
  rewrite H by (left; reflexivity). cbn. rewrite IH by (intros; apply H; right; auto).
  reflexivity.
Qed.

Lemma mapM_tab_ok {T} (f : nat -> res T) (g : nat -> T) n :
  (forall i, i < n -> f i = Ok (g i)) -> mapM f (seq 0 n) = Ok (tab n g).
Proof. intros H. apply mapM_ok. intros i Hi. apply in_seq in Hi. apply H. lia. Qed.

(* ---------- equality tests ---------- *)

Lemma list_eqb_refl {T} (eqb : T -> T -> bool) :
  (forall x, eqb x x = true) -> forall l, list_eqb eqb l l = true.
Proof. intros H. induction l; cbn; [reflexivity|]. rewrite H, IHl. reflexivity. Qed.

(* ---------- concatenation of blocks of one length ---------- *)

Lemma length_concat_uniform {T} m (ls : list (list T)) :
  (forall l, In l ls -> length l = m) -> length (concat ls) = length ls * m.
Proof.
  induction ls as [|l ls IH]; intros H; cbn; [reflexivity|].
  rewrite app_length, IH, (H l) by (intros; try apply H; cbn; auto). reflexivity.
Qed.

Lemma nth_concat_uniform {T} m (ls : list (list T)) i r d :
  (forall l, In l ls -> length l = m) -> i < length ls -> r < m ->
  nth (i * m + r) (concat ls) d = nth r (nth i ls []) d.
Proof.
  revert i. induction ls as [|l ls IH]; intros i H Hi Hr; cbn in Hi; [lia|].
  cbn [concat]. assert (Hl : length l = m) by (apply H; left; reflexivity).
  destruct i as [|i].
  - cbn. rewrite app_nth1 by lia. reflexivity.
  - rewrite app_nth2 by (rewrite Hl; cbn; lia).
    replace (S i * m + r - length l) with (i * m + r) by (rewrite Hl; cbn; lia).
    cbn [nth]. apply IH; [intros; apply H; right; auto | lia | auto].
Qed.

(* ---------- itertools.product order ---------- *)

Lemma product_length {U T} (a : list U) (b : list T) : length (product a b) = length a * length b.
Proof.
  unfold product. induction a as [|x a IH]; cbn; [reflexivity|].
  rewrite app_length, map_length, IH. reflexivity.
Qed.

Lemma nth_product {U T} (a : list U) (b : list T) c w da db :
  c < length a -> w < length b ->
  nth (c * length b + w) (product a b) (da, db) = (nth c a da, nth w b db).
Proof.
  unfold product. revert c. induction a as [|x a IH]; intros c Hc Hw; cbn in Hc; [lia|].
  cbn [flat_map]. destruct c as [|c].
  - cbn [Nat.mul Nat.add nth]. rewrite app_nth1 by (rewrite map_length; lia).
    rewrite (nth_indep _ (da, db) (x, db)) by (rewrite map_length; lia).
    change (x, db) with ((fun k => (x, k)) db). rewrite map_nth. reflexivity.
  - rewrite app_nth2 by (rewrite map_length; cbn; lia).
    rewrite map_length. replace (S c * length b + w - length b) with (c * length b + w) by (cbn; lia).
    cbn [nth]. apply IH; [lia | auto].
Qed.

(* ---------- chunking two aligned lists ---------- *)

Lemma combine_skipn {U T} n (l : list U) (l' : list T) :
  skipn n (combine l l') = combine (skipn n l) (skipn n l').
Proof.
  revert l l'. induction n as [|n IH]; intros l l'; [reflexivity|].
  destruct l as [|x l]; [reflexivity|]. destruct l' as [|y l'].
  - cbn. destruct (skipn n l); reflexivity.
  - cbn. apply IH.
Qed.

Lemma chunks_fuel_combine {U T} b : forall fuel (l : list U) (l' : list T),
  length l = length l' ->
  chunks_fuel fuel b (combine l l') =
  map (fun p => combine (fst p) (snd p)) (combine (chunks_fuel fuel b l) (chunks_fuel fuel b l')).
Proof.
  induction fuel as [|f IH]; intros l l' H; [reflexivity|].
  destruct l as [|x l]; destruct l' as [|y l']; cbn in H; try lia; [reflexivity|].
  cbn [chunks_fuel combine map fst snd].
  change ((x, y) :: combine l l') with (combine (x :: l) (y :: l')).
  rewrite combine_firstn, combine_skipn. f_equal.
  apply IH. rewrite !skipn_length. cbn [length]. lia.
Qed.

Lemma chunks_combine {U T} b (l : list U) (l' : list T) : length l = length l' ->
  chunks b (combine l l') =
  map (fun p => combine (fst p) (snd p)) (combine (chunks b l) (chunks b l')).
Proof.
  intros H. unfold chunks. rewrite combine_length, <- H, Nat.min_id.
  apply chunks_fuel_combine. exact H.
Qed.

Lemma concat_map_chunks {U T} (f : U -> T) b (l : list U) : 1 <= b ->
  concat (map (map f) (chunks b l)) = map f l.
Proof. intros Hb. rewrite <- concat_map, concat_chunks by exact Hb. reflexivity. Qed.

Lemma nth_repeat_lt {T} (a : T) m i d : i < m -> nth i (repeat a m) d = a.
Proof.
  revert i. induction m as [|m IH]; intros i H; [lia|].
  destruct i; cbn; [reflexivity | apply IH; lia].
Qed.

(* ---------- set_nth ---------- *)

Lemma set_nth_length {T} k (v : T) l : length (set_nth k v l) = length l.
Proof.
  revert k. induction l as [|x l IH]; intros k; [reflexivity|].
  destruct k; cbn; [reflexivity | rewrite IH; reflexivity].
Qed.

Lemma nth_set_nth {T} k (v : T) l q d : k < length l ->
  nth q (set_nth k v l) d = if q =? k then v else nth q l d.
Proof.
  revert k q. induction l as [|x l IH]; intros k q Hk; cbn in Hk; [lia|].
  destruct k as [|k]; destruct q as [|q]; cbn; try reflexivity.
  apply IH. lia.
Qed.

(* ---------- sums of rationals ---------- *)

Lemma sumQ_map_ext {T} (f g : T -> Q) l :
  (forall x, In x l -> (f x == g x)%Q) -> (sumQ (map f l) == sumQ (map g l))%Q.
Proof.
  induction l as [|x l IH]; intros H; cbn; [reflexivity|].
  rewrite (H x) by (left; reflexivity). rewrite IH by (intros; apply H; right; auto).
  reflexivity.
Qed.

Lemma sumQ_tab_ext n (f g : nat -> Q) :
  (forall i, i < n -> (f i == g i)%Q) -> (sumQ (tab n f) == sumQ (tab n g))%Q.
Proof.
  intros H. unfold tab. apply sumQ_map_ext. intros i Hi. apply in_seq in Hi. apply H. lia.
Qed.

Lemma Qdiv_eq (a b c : Q) : (a == b)%Q -> (a / c == b / c)%Q.
Proof. intros H. rewrite H. reflexivity. Qed.

Lemma Qminus_eq (a b c d : Q) : (a == b)%Q -> (c == d)%Q -> (a - c == b - d)%Q.
Proof. intros H1 H2. rewrite H1, H2. reflexivity. Qed.

Lemma Qmult_eq_r (a b c : Q) : (a == b)%Q -> (c * a == c * b)%Q.
Proof. intros H. rewrite H. reflexivity. Qed.

(* ---------- membership through firstn / skipn ---------- *)

Lemma In_firstn {T} n (l : list T) x : In x (firstn n l) -> In x l.
Proof.
  revert n. induction l as [|y l IH]; intros [|n] H; cbn in *; try contradiction.
  destruct H as [H|H]; [left; exact H | right; eapply IH; exact H].
Qed.

Lemma In_skipn {T} n (l : list T) x : In x (skipn n l) -> In x l.
Proof.
  revert n. induction l as [|y l IH]; intros [|n] H; cbn in *; try contradiction; auto.
  right. eapply IH; exact H.
Qed.
