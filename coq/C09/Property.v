(* C09 - property theorems only.  Each is closed by [exact] of a lemma from Proofs.v.

   h ranges over every example-wise network (dna -> per-example args -> output index -> output
   tensor in exact rationals), c over every call: alphabet size, length, sequences, optional
   per-example args, start, end, batch_size, tensor / tuple of K outputs, raw / attribution mode.
   spec_ok is `true` outside the property's scope (Spec.in_scope), so the statements below are
   about every in-scope call: all A >= 1, L, n >= 1, 0 <= start < end <= L and the end = -1 form,
   every batch_size >= 1.                                                                        *)
From TM Require Import Base.Prelude Base.OneHot C09.Model C09.Spec C09.Proofs.
From Coq Require Import QArith.

(* raw outputs: y0[k][i] = h X_i args_i k and y_hat[k][i][c][p - start] = h (X_i with p := c) args_i k *)
Theorem ism_spec : forall (h : net) (c : call), cMode c = MRaw -> spec_ok h c (model h c) = true.
Proof. exact ism_spec_lemma. Qed.
Print Assumptions ism_spec.

(* attribution output = mean over the selected targets of ((y_hat - y0) - mean over characters),
   masked by X[:, :, start:end] unless hypothetical; int / slice / None targets *)
Theorem attr_spec : forall (h : net) (c : call) (t : target) (hyp : bool),
  cMode c = MAttr t hyp -> spec_ok h c (model h c) = true.
Proof. exact attr_spec_lemma. Qed.
Print Assumptions attr_spec.

Theorem c09_spec : forall (h : net) (c : call), spec_ok h c (model h c) = true.
Proof. exact spec_all. Qed.
Print Assumptions c09_spec.

(* ism_spec without the boolean wrapper *)
Theorem ism_entries : forall (h : net) (c : call) (s e : nat),
  in_scope h c = true -> window c = Some (s, e) -> cMode c = MRaw ->
  exists y0 yh, model h c = Ok (ORaw y0 yh) /\
    forall k i, (k < comps c)%nat -> (i < length (cX c))%nat ->
      nth i (nth k y0 []) [] = h (nth i (cX c) []) (arg_of c i) k /\
      forall ch w, (ch < cA c)%nat -> (w < e - s)%nat ->
        nth w (nth ch (nth i (nth k yh []) []) []) []
        = h (mutant (cA c) (nth i (cX c) []) (s + w) ch) (arg_of c i) k.
Proof. exact ism_entries_lemma. Qed.
Print Assumptions ism_entries.

(* the code before `fix: ... reshapes tuple outputs character-major` (position-major reading of the
   character-major mutant list): A = 3, L = 5, two output tensors *)
Theorem ism_tuple_v0_refuted :
  exists d c, in_scope (h_of d) c = true /\ spec_ok (h_of d) c (ism_v0_tuple (h_of d) c) = false.
Proof. exact tuple_v0_refuted_lemma. Qed.
Print Assumptions ism_tuple_v0_refuted.

(* the code before `fix: ... normalises a negative end on entry`: start = 2, end = -1 raises *)
Theorem ism_window_v0_refuted :
  exists d c, in_scope (h_of d) c = true /\ ism_v0_window (h_of d) c = Err /\
              spec_ok (h_of d) c (ism_v0_window (h_of d) c) = false.
Proof. exact window_v0_refuted_lemma. Qed.
Print Assumptions ism_window_v0_refuted.

(* the scope is inhabited (tuple, window and attribution calls) and the repaired model returns *)
Example c09_scope_example :
  in_scope (h_of wit_net) wit_tuple = true /\ in_scope (h_of wit_net) wit_window = true /\
  in_scope (h_of wit_net) wit_attr = true /\
  is_ok (model (h_of wit_net) wit_tuple) = true /\ is_ok (model (h_of wit_net) wit_attr) = true.
Proof. exact scope_example_lemma. Qed.
