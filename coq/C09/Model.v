(* C09 model: ism._edit_distance_one, ism._attribution_score, ism.saturation_mutagenesis and the
   predict.predict loop they call.  Executable mirror of the code after the two `fix:` commits
   (tuple reshape, normalisation of `end`); the pre-fix behaviours are kept behind two flags and
   named ..._v0_tuple / ..._v0_window.  No proofs here.

   Tensors are nested lists.  X of shape (n, A, L) is a [batch] (n sequences of L columns of A
   integers).  One output tensor of ONE example is an [OT]: its first trailing dimension (the
   "targets", T rows) by all remaining trailing dimensions flattened (R entries per row), in exact
   rationals; a model with fewer trailing dimensions has T = 1 and/or R = 1.
   The user's network is a Section variable [h] acting example-wise: h x a k is the k-th output
   tensor (k = 0 for a single-tensor model) for sequence x with per-example extra arguments a.   *)
From TM Require Import Base.Prelude Base.OneHot Base.PyList.
From Coq Require Import QArith Qabs.
Open Scope Z_scope.

Definition OT := list (list Q).
Definition Arg := list Z.              (* all extra arguments of one example, flattened *)
Definition net := dna -> option Arg -> nat -> OT.

(* target = None | int | slice(lo, hi, step) (bounds as slice.indices(T) gives them) *)
Inductive target := TNone | TInt (t : Z) | TSlice (lo hi st : Z).
Inductive mode := MRaw | MAttr (t : target) (hyp : bool).

(* one call  saturation_mutagenesis(model, X, args, start, end, batch_size, target, hypothetical,
   raw_outputs).  cTuple = Some K: the model returns a tuple of K tensors.  cT, cR: declared trailing
   shape of the (single) output, cTol: comparison tolerance -- both only used by the spec of the
   attribution output. *)
Record call := Call {
  cA : nat; cL : nat; cX : batch; cArgs : option (list Arg);
  cStart : Z; cEnd : Z; cBs : Z; cTuple : option nat; cMode : mode;
  cT : nat; cR : nat; cTol : Q }.

Inductive out :=
| ORaw (y0 : list (list OT)) (yh : list (list (list (list OT))))   (* [k][n] , [k][n][c][w] *)
| OAttr (a : list (list (list Q))).                               (* [n][c][w] *)
Definition outcome := res out.

Definition tab {T} (n : nat) (f : nat -> T) : list T := map f (seq 0 n).

Definition sumQ (l : list Q) : Q := fold_right Qplus 0%Q l.
Definition qn (n : nat) : Q := inject_Z (Z.of_nat n).

(* ---------- pieces of Python / torch semantics ---------- *)

(* `end if end >= 0 else L + 1 + end` *)
Definition norm_end (L : nat) (e : Z) : Z := if 0 <=? e then e else Z.of_nat L + 1 + e.

Definition pyrange (a b : Z) : list Z := map (fun i => a + Z.of_nat i) (seq 0 (Z.to_nat (b - a))).

(* tensor index along a dimension of size L: negatives wrap once, otherwise IndexError *)
Definition pyidx (L : nat) (k : Z) : res nat :=
  if (0 <=? k) && (k <? Z.of_nat L) then Ok (Z.to_nat k)
  else if (- Z.of_nat L <=? k) && (k <? 0) then Ok (Z.to_nat (k + Z.of_nat L))
  else Err.

(* l[a:b] for a slice with step 1 *)
Definition pybound (L : nat) (k : Z) : nat :=
  if k <? 0 then Z.to_nat (Z.max 0 (Z.of_nat L + k)) else Z.to_nat (Z.min k (Z.of_nat L)).
Definition pyslice {T} (l : list T) (a b : Z) : list T :=
  let a' := pybound (length l) a in let b' := pybound (length l) b in
  firstn (b' - a') (skipn a' l).

Definition onehot (A j : nat) : col := map (fun i => if (i =? j)%nat then 1 else 0) (seq 0 A).

Fixpoint set_nth {T} (k : nat) (v : T) (l : list T) {struct l} : list T :=
  match l with
  | [] => []
  | x :: t => match k with 0%nat => v :: t | S k' => x :: set_nth k' v t end
  end.

(* itertools.product(a, b) *)
Definition product {S T} (a : list S) (b : list T) : list (S * T) :=
  flat_map (fun j => map (fun k => (j, k)) b) a.

(* flat.reshape(n, A, W, ...)  -- row-major, trailing dimensions ride along inside OT *)
Definition reshape3 (n A W : nat) (flat : list OT) : res (list (list (list OT))) :=
  ensure (length flat =? n * A * W)%nat ;;
  Ok (tab n (fun i => tab A (fun c => tab W (fun w => nth ((i * A + c) * W + w) flat [])))).

(* the same with the third size given as a Python int: -1 is inferred, other negatives raise *)
Definition reshape3_z (n A : nat) (Wz : Z) (flat : list OT) : res (list (list (list OT))) :=
  if Wz =? -1 then
    ensure (0 <? n * A)%nat && (length flat mod (n * A) =? 0)%nat ;;
    reshape3 n A (length flat / (n * A)) flat
  else
    ensure (0 <=? Wz) ;; reshape3 n A (Z.to_nat Wz) flat.

(* pre-fix tuple branch: flat.reshape(n, L, A, ...).transpose(2, 1) *)
Definition reshape3_T (n L A : nat) (flat : list OT) : res (list (list (list OT))) :=
  ensure (length flat =? n * L * A)%nat ;;
  Ok (tab n (fun i => tab A (fun c => tab L (fun p => nth ((i * L + p) * A + c) flat [])))).

Section ISM.
Variable h : net.

(* model(X_, *args_) on one batch: K tensors whose rows are the examples (example-wise network) *)
Definition run_batch (K : nat) (xs : list dna) (az : option (list Arg)) : list (list OT) :=
  tab K (fun k => match az with
                  | None => map (fun x => h x None k) xs
                  | Some a => map2 (fun x r => h x (Some r) k) xs a
                  end).

(* predict.predict: guard on the arguments' first dimension, batch_size = min(batch_size, n),
   the range(0, n, batch_size) loop, concatenation per output tensor.  Result: [k][example]. *)
Definition predict (K : nat) (bs : Z) (X : list dna) (args : option (list Arg))
  : res (list (list OT)) :=
  let n := length X in
  ensure (match args with Some a => (length a =? n)%nat | None => true end) ;;
  let b := Z.min bs (Z.of_nat n) in
  ensure (1 <=? b) ;;           (* range() step 0 raises; a negative step leaves y empty, y[0] raises *)
  let xb := chunks (Z.to_nat b) X in
  let ys := match args with
            | None => map (fun xs => run_batch K xs None) xb
            | Some a => map2 (fun xs r => run_batch K xs (Some r)) xb (chunks (Z.to_nat b) a)
            end in
  Ok (tab K (fun k => concat (map (fun y => nth k y []) ys))).

(* ism._edit_distance_one: all (character j, position k) mutants, character-major *)
Definition edit_distance_one (A L : nat) (x : dna) (start end_ : Z) : res (list dna) :=
  let e := norm_end L end_ in
  ensure (0 <=? (e - start) * Z.of_nat A) ;;      (* X.repeat(negative, 1, 1) raises *)
  mapM (fun jk => do k <- pyidx L (snd jk) ;; Ok (set_nth k (onehot A (fst jk)) x))
       (product (seq 0 A) (pyrange start e)).

Definition comps (c : call) : nat := match cTuple c with Some K => K | None => 1%nat end.

(* the raw part of saturation_mutagenesis.  fixA: tuple outputs reshaped like tensor outputs;
   fixB: `end` normalised on entry. *)
Definition ism_raw_g (fixA fixB : bool) (c : call)
  : res (list (list OT) * list (list (list (list OT)))) :=
  let n := length (cX c) in
  let K := comps c in
  let e := if fixB then norm_end (cL c) (cEnd c) else cEnd c in
  do y0 <- predict K 32 (cX c) (cArgs c) ;;
  do ys <- mapM (fun i =>
             do X_ <- edit_distance_one (cA c) (cL c) (nth i (cX c) []) (cStart c) e ;;
             let args_ := match cArgs c with
                          | Some a => Some (repeat (nth i a []) (length X_))
                          | None => None
                          end in
             predict K (cBs c) X_ args_) (seq 0 n) ;;             (* [n][k][mutant] *)
  do yh <- match cTuple c with
           | None => do r <- reshape3_z n (cA c) (e - cStart c)
                               (concat (map (fun y => nth 0 y []) ys)) ;; Ok [r]
           | Some _ =>
               mapM (fun k => let flat := concat (map (fun y => nth k y []) ys) in
                              if fixA then reshape3_z n (cA c) (e - cStart c) flat
                              else reshape3_T n (cL c) (cA c) flat) (seq 0 K)
           end ;;
  Ok (y0, yh).

End ISM.

(* number of rows of o[lo:hi:st] *)
Definition slice_count (lo hi st : Z) : nat := Z.to_nat ((hi - lo + st - 1) / st).

(* o[target] flattened (target-major); a slice takes rows lo, lo+st, ... below hi *)
Definition tsel (t : target) (o : OT) : res (list Q) :=
  let T := Z.of_nat (length o) in
  match t with
  | TNone => Ok (concat o)
  | TInt z => do r <- pyidx (length o) z ;; Ok (nth r o [])
  | TSlice lo hi st =>
      ensure (0 <=? lo) && (lo <? hi) && (hi <=? T) && (1 <=? st) ;;
      Ok (concat (tab (slice_count lo hi st) (fun i => nth (Z.to_nat lo + i * Z.to_nat st) o [])))
  end.

Definition at4 (t : list (list (list (list Q)))) (i c w j : nat) : Q :=
  nth j (nth w (nth c (nth i t []) []) []) 0%Q.

(* ism._attribution_score, tensor operation by tensor operation *)
Definition attribution_score (y0 : list OT) (yh : list (list (list OT))) (t : target)
  : res (list (list (list Q))) :=
  let n := length yh in
  let A := length (nth 0 yh []) in
  let W := length (nth 0 (nth 0 yh []) []) in
  do s0 <- mapM (tsel t) y0 ;;                          (* y0[:, target]        [n][J] *)
  do sh <- mapM (mapM (mapM (tsel t))) yh ;;            (* y_hat[:,:,:,target]  [n][A][W][J] *)
  let J := length (nth 0 s0 []) in
  (* attr = y_hat[:, :, :, target] - y0[:, None, None, target] *)
  let attr := tab n (fun i => tab A (fun c => tab W (fun w => tab J (fun j =>
                (at4 sh i c w j - nth j (nth i s0 []) 0)%Q)))) in
  (* torch.mean(attr, dim=1, keepdims=True) *)
  let m := tab n (fun i => tab W (fun w => tab J (fun j =>
                (sumQ (tab A (fun c => at4 attr i c w j)) / qn A)%Q))) in
  (* attr -= mean *)
  let attr2 := tab n (fun i => tab A (fun c => tab W (fun w => tab J (fun j =>
                (at4 attr i c w j - nth j (nth w (nth i m []) []) 0)%Q)))) in
  (* mean over every remaining trailing dimension *)
  Ok (tab n (fun i => tab A (fun c => tab W (fun w =>
        (sumQ (nth w (nth c (nth i attr2 []) []) []) / qn J)%Q)))).

(* X[:, :, a:b] * attr  (shapes must agree along the window; broadcasting of size-1 windows is not
   modelled and never generated) *)
Definition mask (X : batch) (a : list (list (list Q))) (s e : Z) (whole : bool)
  : res (list (list (list Q))) :=
  let n := length a in
  let A := length (nth 0 a []) in
  let W := length (nth 0 (nth 0 a []) []) in
  let Xs := if whole then X else map (fun x => pyslice x s e) X in
  ensure (length Xs =? n)%nat && forallb (fun x => (length x =? W)%nat) Xs ;;
  Ok (tab n (fun i => tab A (fun c => tab W (fun w =>
        (inject_Z (nth c (nth w (nth i Xs []) []) 0%Z) * nth w (nth c (nth i a []) []) 0)%Q)))).

Definition ism_g (fixA fixB : bool) (h : net) (c : call) : outcome :=
  do r <- ism_raw_g h fixA fixB c ;;
  match cMode c with
  | MRaw => Ok (ORaw (fst r) (snd r))
  | MAttr t hyp =>
      match cTuple c with
      | Some _ => Err                                   (* a list cannot be indexed [:, :, :, target] *)
      | None =>
          do a <- attribution_score (nth 0 (fst r) []) (nth 0 (snd r) []) t ;;
          if hyp then Ok (OAttr a)
          else
            let e := if fixB then norm_end (cL c) (cEnd c) else cEnd c in
            do ma <- mask (cX c) a (cStart c) e (e <=? 0) ;; Ok (OAttr ma)
      end
  end.

Definition ism := ism_g true true.
Definition ism_v0_tuple := ism_g false true.     (* before fix (a) *)
Definition ism_v0_window := ism_g true false.    (* before fix (b) *)
