(* C18 spec: the property as a decidable relation between a call and its outcome.
   Every demanded entry is the size of a filter over a direct enumeration (rows of the table,
   unordered pairs of rows = index pairs i<j of the table, window positions of a sequence);
   nothing here mentions flat offsets, buckets, loop order or positional codes of windows.
   Where the property text is silent (empty table, negative entries, explicit shape too small,
   symmetric=False, empty spans, sequences that are not one-hot, k outside 1..L) every outcome
   is accepted. *)
From TM Require Import Base.Prelude Base.OneHot C18.Model.
From Coq Require Import QArith Qcanon.
Open Scope Z_scope.

Inductive call :=
| CCount (X : list (Z * Z)) (shape : option (Z * Z)) (dim : dimsel)
| CPair (X : list (Z * Z)) (sym : bool) (shape : option Z)
| CSpacing (X : list srow) (maxd : Z) (sym : bool) (shape : option Z)
| CKmers (n L : nat) (X : batch) (k : nat) (scores : option (list (list Qc))).

Definition outcome := res tens.

(* "the number of x in l with f x" *)
Definition countb {A} (f : A -> bool) (l : list A) : Z := Z.of_nat (length (filter f l)).

(* ---------- entry-by-entry comparison of a returned tensor with a function ---------- *)

Definition vec_ok (n : nat) (f : nat -> Z) (v : list Z) : bool :=
  (length v =? n)%nat && forallb (fun i => nth i v 0 =? f i) (seq 0 n).

Definition mat_ok (nr nc : nat) (f : nat -> nat -> Z) (m : list (list Z)) : bool :=
  (length m =? nr)%nat && forallb (fun i => vec_ok nc (f i) (nth i m [])) (seq 0 nr).

Definition cube_ok (na nb nd : nat) (f : nat -> nat -> nat -> Z) (t : list (list (list Z)))
  : bool :=
  (length t =? na)%nat && forallb (fun i => mat_ok nb nd (f i) (nth i t [])) (seq 0 na).

Definition qvec_ok (n : nat) (f : nat -> Qc) (v : list Qc) : bool :=
  (length v =? n)%nat && forallb (fun i => Qc_eq_bool (nth i v 0%Qc) (f i)) (seq 0 n).

Definition qmat_ok (nr nc : nat) (f : nat -> nat -> Qc) (m : list (list Qc)) : bool :=
  (length m =? nr)%nat && forallb (fun i => qvec_ok nc (f i) (nth i m [])) (seq 0 nr).

(* size of an axis: exactly the explicit shape when one is given; otherwise the text only
   implies that every observed index has a cell *)
Definition dim_ok (explicit : option Z) (needed : Z) (got : nat) : bool :=
  match explicit with
  | Some s => Z.of_nat got =? s
  | None => needed <=? Z.of_nat got
  end.

Definition largest (l : list Z) : Z := fold_right Z.max 0 l.

(* ---------- tables ---------- *)

Definition table_ok (X : list (Z * Z)) : bool :=
  nonempty X && forallb (fun r => (0 <=? fst r) && (0 <=? snd r)) X.

(* unordered pairs of rows: all (X[i], X[j]) with i < j *)
Definition upairs {R} (X : list R) : list (R * R) :=
  let IX := combine (seq 0 (length X)) X in
  map (fun p => (snd (fst p), snd (snd p)))
      (filter (fun p => (fst (fst p) <? fst (snd p))%nat) (list_prod IX IX)).

(* pairs of rows in the same example *)
Definition same_example {P} (X : list (Z * P)) : list ((Z * P) * (Z * P)) :=
  filter (fun p => fst (fst p) =? fst (snd p)) (upairs X).

(* the two annotation ids of a pair are {a, b} *)
Definition umatch (a b : nat) (x y : Z) : bool :=
  ((x =? Z.of_nat a) && (y =? Z.of_nat b)) || ((x =? Z.of_nat b) && (y =? Z.of_nat a)).

(* count_annotations *)
Definition count_entry (X : list (Z * Z)) (e a : nat) : Z :=
  countb (fun r => (fst r =? Z.of_nat e) && (snd r =? Z.of_nat a)) X.

(* pairwise_annotations *)
Definition pair_entry (X : list (Z * Z)) : nat -> nat -> Z :=
  let ps := same_example X in
  fun a b => countb (fun p => umatch a b (snd (fst p)) (snd (snd p))) ps.

(* pairwise_annotations_spacing: spans [s, e) *)
Definition ann_of (x : Z * Z * Z) : Z := fst (fst x).
Definition start_of (x : Z * Z * Z) : Z := snd (fst x).
Definition end_of (x : Z * Z * Z) : Z := snd x.

Definition overlapping (x y : Z * Z * Z) : bool :=
  Z.max (start_of x) (start_of y) <? Z.min (end_of x) (end_of y).

(* from the end of the left span (the one that starts first) to the start of the right one *)
Definition gap (x y : Z * Z * Z) : Z :=
  if start_of x <? start_of y then start_of y - end_of x else start_of x - end_of y.

Definition spacing_entry (X : list srow) : nat -> nat -> nat -> Z :=
  let ps := same_example X in
  fun a b =>
    let ps_ab := filter (fun p => umatch a b (ann_of (snd (fst p))) (ann_of (snd (snd p)))) ps in
    fun d => countb (fun p => negb (overlapping (snd (fst p)) (snd (snd p)))
                              && (gap (snd (fst p)) (snd (snd p)) =? Z.of_nat d)) ps_ab.

Definition stable_ok (X : list srow) : bool :=
  nonempty X &&
  forallb (fun r => (0 <=? fst r) && (0 <=? ann_of (snd r)) && (0 <=? start_of (snd r))
                    && (start_of (snd r) <? end_of (snd r))) X.

(* ---------- k-mers ---------- *)

(* the letter a one-hot column stands for *)
Fixpoint decode (c : col) : Z :=
  match c with
  | [] => 0
  | v :: r => if v =? 1 then 0 else 1 + decode r
  end.

(* the j-th k-mer over an alphabet of n letters: the k base-n digits of j, lowest first *)
Fixpoint kmer_of (n : Z) (k : nat) (j : Z) : list Z :=
  match k with
  | O => []
  | S k' => (j mod n) :: kmer_of n k' (j / n)
  end.

(* the k-mer w occurs at position p of the sequence *)
Definition occurs (chars : list Z) (k : nat) (w : list Z) (p : nat) : bool :=
  list_eqb Z.eqb (firstn k (skipn p chars)) w.

Definition qtotal (l : list Qc) : Qc := fold_left Qcplus l 0%Qc.

Definition kmer_count (n L k : nat) (X : batch) (b : nat) : nat -> Z :=
  let chars := map decode (nth b X []) in
  fun j => countb (occurs chars k (kmer_of (Z.of_nat n) k (Z.of_nat j))) (seq 0 (L - k + 1)).

(* sum, over the occurrences, of the scores of the k positions the occurrence covers *)
Definition kmer_score (n L k : nat) (X : batch) (SC : list (list Qc)) (b : nat) : nat -> Qc :=
  let chars := map decode (nth b X []) in
  let s := nth b SC [] in
  fun j => qtotal (map (fun p => qtotal (firstn k (skipn p s)))
                       (filter (occurs chars k (kmer_of (Z.of_nat n) k (Z.of_nat j)))
                               (seq 0 (L - k + 1)))).

Definition seqs_ok (n L : nat) (X : batch) : bool :=
  forallb (fun s => (length s =? L)%nat) X && cols_valid n X.

(* ---------- the relation ---------- *)

Definition spec_ok (c : call) (o : outcome) : bool :=
  match c with
  | CCount X shape dim =>
      let nE0 := largest (map fst X) + 1 in
      let nA0 := largest (map snd X) + 1 in
      if table_ok X &&
         match shape with Some (s0, s1) => (nE0 <=? s0) && (nA0 <=? s1) | None => true end
      then
        let nE := Z.to_nat (match shape with Some (s0, _) => s0 | None => nE0 end) in
        let nA := Z.to_nat (match shape with Some (_, s1) => s1 | None => nA0 end) in
        match dim, o with
        | DNone, Ok (T2 m) =>
            let nr := length m in
            let nc := length (nth 0 m []) in
            dim_ok (option_map fst shape) nE0 nr && dim_ok (option_map snd shape) nA0 nc
            && mat_ok nr nc (count_entry X) m
        | D0, Ok (T1 v) =>        (* column sums of the full count matrix *)
            dim_ok (option_map snd shape) nA0 (length v)
            && vec_ok (length v)
                 (fun a => sumZ (map (fun e => count_entry X e a) (seq 0 nE))) v
        | D1, Ok (T1 v) =>        (* row sums *)
            dim_ok (option_map fst shape) nE0 (length v)
            && vec_ok (length v)
                 (fun e => sumZ (map (fun a => count_entry X e a) (seq 0 nA))) v
        | _, _ => false
        end
      else true
  | CPair X sym shape =>
      let nA0 := largest (map snd X) + 1 in
      if table_ok X && sym && match shape with Some s => nA0 <=? s | None => true end then
        match o with
        | Ok (T2 m) =>
            let n := length m in
            dim_ok shape nA0 n && mat_ok n n (pair_entry X) m
        | _ => false
        end
      else true
  | CSpacing X maxd sym shape =>
      let nA0 := largest (map (fun r => ann_of (snd r)) X) + 1 in
      if stable_ok X && sym && (0 <=? maxd)
         && match shape with Some s => nA0 <=? s | None => true end then
        match o with
        | Ok (T3 t) =>
            let n := length t in
            dim_ok shape nA0 n && cube_ok n n (Z.to_nat maxd) (spacing_entry X) t
        | _ => false
        end
      else true
  | CKmers n L X k scores =>
      if seqs_ok n L X && (1 <=? k)%nat && (k <=? L)%nat then
        match scores, o with
        | None, Ok (T2 m) => mat_ok (length X) (n ^ k) (kmer_count n L k X) m
        | Some SC, Ok (TQ m) =>
            if all2b (fun _ s => (length s =? L)%nat) X SC
            then qmat_ok (length X) (n ^ k) (kmer_score n L k X SC) m
            else true
        | Some SC, _ => negb (all2b (fun _ s => (length s =? L)%nat) X SC)
        | _, _ => false
        end
      else true
  end.

(* ---------- the model as one function, and the correspondence case ---------- *)

Definition model (c : call) : outcome :=
  match c with
  | CCount X shape dim => count_annotations X shape dim
  | CPair X sym shape => pairwise_annotations X sym shape
  | CSpacing X maxd sym shape => pairwise_annotations_spacing X maxd sym shape
  | CKmers n L X k scores => kmers n L X k scores
  end.

(* the same calls on the tree before commit 066359c *)
Definition model_v0 (c : call) : outcome :=
  match c with
  | CSpacing X maxd sym shape => pairwise_annotations_spacing_v0 X maxd sym shape
  | _ => model c
  end.

Definition zmat_eqb : list (list Z) -> list (list Z) -> bool := list_eqb (list_eqb Z.eqb).

Definition tens_eqb (t1 t2 : tens) : bool :=
  match t1, t2 with
  | T1 a, T1 b => list_eqb Z.eqb a b
  | T2 a, T2 b => zmat_eqb a b
  | T3 a, T3 b => list_eqb zmat_eqb a b
  | TQ a, TQ b => list_eqb (list_eqb Qc_eq_bool) a b
  | _, _ => false
  end.

Definition outcome_eqb : outcome -> outcome -> bool := res_eqb tens_eqb.

(* the same calls made with a uint8 table before commit dc1e643 (max_distance <= 255) *)
Definition model_u8 (c : call) : outcome :=
  match c with
  | CSpacing X maxd sym shape => pairwise_annotations_spacing_u8 X maxd sym shape
  | _ => model c
  end.

(* one observed call: the call, what the implementation returned, and whether every argument
   object of the caller (tensor, ndarray, Series, DataFrame) was bit-identical afterwards.  The
   property text says nothing about the caller's data, so a modified argument is a disagreement
   with the (functional) model, not a failure of the spec; what it does to later calls on the
   same objects is judged by the spec of those calls. *)
Definition step := (call * outcome * bool)%type.

Definition check_step (s : step) : nat :=
  let '(cl, o, unchanged) := s in
  verdict (outcome_eqb o (model cl) && unchanged) (spec_ok cl o).

(* a correspondence case is a sequence of calls made one after the other in one process on
   shared argument objects; its verdict is the worst verdict of its steps *)
Definition case := list step.

Definition check_case (c : case) : nat := fold_right (fun s acc => Nat.max (check_step s) acc) 0%nat c.

(* literal helper for the harness: the rational n/d *)
Definition qc (n : Z) (d : positive) : Qc := Q2Qc (Qmake n d).
