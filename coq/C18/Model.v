(* C18 model: annotate.count_annotations / pairwise_annotations / pairwise_annotations_spacing
   and kmers.kmers.  Executable mirror of the code: validation, shape derivation, the flat
   index e*n_annotations+a fed to scatter_add_, the per-example buckets filled by append and the
   nested i<j loops over each bucket, numpy's indexing of y[idx0, idx1, d] (a negative index wraps
   once, anything else out of range raises), the base-n positional code computed by a
   convolution, scatter_add_ along the k-mer axis.  No proofs here.

   Dense arrays are kept the way numpy/torch keep them: one flat buffer plus its dimensions;
   y[a, b, d] is cell (a*nb + b)*nd + d after every axis index has been checked on its own.
   A loop that only performs "y[index] += w" statements is written as the list of those statements
   in execution order (the control flow never reads y) followed by their execution; the first
   statement whose index is rejected makes the call raise, exactly as in the loop.
   Counts are unbounded integers ("within dtype range" is the property's side condition). *)
From TM Require Import Base.Prelude Base.OneHot.
From Coq Require Import QArith Qcanon.
Open Scope Z_scope.

(* ---------- buffers ---------- *)

Fixpoint upd {A} (l : list A) (i : nat) (f : A -> A) : list A :=
  match l, i with
  | [], _ => []
  | x :: xs, O => f x :: xs
  | x :: xs, S i' => x :: upd xs i' f
  end.

(* execute  y[i] += w  for every (i, w), in order *)
Fixpoint accum {A} (add : A -> A -> A) (y : list A) (evs : list (nat * A)) : list A :=
  match evs with
  | [] => y
  | (i, w) :: r => accum add (upd y i (fun v => add v w)) r
  end.

(* index check of torch's scatter_add_: 0 <= i < size, no wrap-around *)
Definition tidx (n : nat) (i : Z) : res nat :=
  if (0 <=? i) && (i <? Z.of_nat n) then Ok (Z.to_nat i) else Err.

(* numpy integer indexing of one axis: -n <= i < 0 wraps to n+i, otherwise IndexError *)
Definition npidx (n : nat) (i : Z) : res nat :=
  if (0 <=? i) && (i <? Z.of_nat n) then Ok (Z.to_nat i)
  else if (- Z.of_nat n <=? i) && (i <? 0) then Ok (Z.to_nat (Z.of_nat n + i))
  else Err.

(* y.scatter_add_(0, idx, src) on a 1-d buffer *)
Definition scatter_add {A} (add : A -> A -> A) (y : list A) (idx : list Z) (src : list A)
  : res (list A) :=
  ensure (length idx <=? length src)%nat ;;
  do offs <- mapM (tidx (length y)) idx ;;
  Ok (accum add y (combine offs src)).

(* y.reshape(r, c) of a flat buffer *)
Fixpoint reshape {A} (r c : nat) (l : list A) : list (list A) :=
  match r with
  | O => []
  | S r' => firstn c l :: reshape r' c (skipn c l)
  end.

Definition reshape3 {A} (na nb nd : nat) (l : list A) : list (list (list A)) :=
  map (reshape nb nd) (reshape na (nb * nd) l).

(* returned tensors *)
Inductive tens :=
| T1 (v : list Z)
| T2 (m : list (list Z))
| T3 (t : list (list (list Z)))
| TQ (m : list (list Qc)).

(* ---------- table validation and shape derivation ---------- *)

(* X.max(dim=0) of one column *)
Definition maxl (l : list Z) : Z :=
  match l with [] => 0 | x :: xs => fold_left Z.max xs x end.

(* _validate_input(min_value=0) and X.max() both raise on an empty table *)
Definition nonempty {A} (l : list A) : bool := match l with [] => false | _ => true end.

(* ---------- count_annotations ---------- *)

Inductive dimsel := DNone | D0 | D1.

Definition count_annotations (X : list (Z * Z)) (shape : option (Z * Z)) (dim : dimsel)
  : res tens :=
  ensure nonempty X ;;
  ensure forallb (fun r => (0 <=? fst r) && (0 <=? snd r)) X ;;
  let es := map fst X in
  let ans := map snd X in
  let nE0 := maxl es + 1 in
  let nA0 := maxl ans + 1 in
  do sh <- match shape with
           | None => Ok (nE0, nA0)
           | Some (s0, s1) => ensure negb ((nE0 >? s0) || (nA0 >? s1)) ;; Ok (s0, s1)
           end ;;
  let nE := fst sh in
  let nA := snd sh in
  let ones := repeat 1 (length X) in
  match dim with
  | D0 => do y <- scatter_add Z.add (repeat 0 (Z.to_nat nA)) ans ones ;; Ok (T1 y)
  | D1 => do y <- scatter_add Z.add (repeat 0 (Z.to_nat nE)) es ones ;; Ok (T1 y)
  | DNone =>
      let idxs := map (fun r => fst r * nA + snd r) X in
      do y <- scatter_add Z.add (repeat 0 (Z.to_nat (nE * nA))) idxs ones ;;
      Ok (T2 (reshape (Z.to_nat nE) (Z.to_nat nA) y))
  end.

(* ---------- per-example buckets and the pair loops ---------- *)

(* example_annotations = [[] for i in range(n_examples)];
   for example_idx, ... in X: example_annotations[example_idx].append(...) *)
Definition buckets {P} (nE : nat) (X : list (Z * P)) : list (list P) :=
  fold_left (fun b r => upd b (Z.to_nat (fst r)) (fun l => l ++ [snd r])) X (repeat [] nE).

(* for i, x0 in enumerate(l[:-1]): for x1 in l[i+1:]: <body x0 x1> *)
Fixpoint pair_events {P E} (body : P -> P -> list E) (l : list P) : list E :=
  match l with
  | [] => []
  | x :: xs => flat_map (body x) xs ++ pair_events body xs
  end.

(* ---------- pairwise_annotations ---------- *)

(* y[idx0, idx1] += 1;  if symmetric and idx0 != idx1: y[idx1, idx0] += 1 *)
Definition pw_body (sym : bool) (idx0 idx1 : Z) : list (Z * Z) :=
  (idx0, idx1) :: (if sym && negb (idx0 =? idx1) then [(idx1, idx0)] else []).

Definition off2 (na nb : nat) (ev : Z * Z) : res nat :=
  do a <- npidx na (fst ev) ;;
  do b <- npidx nb (snd ev) ;;
  Ok (a * nb + b)%nat.

Definition pairwise_annotations (X : list (Z * Z)) (sym : bool) (shape : option Z) : res tens :=
  ensure nonempty X ;;
  ensure forallb (fun r => (0 <=? fst r) && (0 <=? snd r)) X ;;
  let nE := maxl (map fst X) + 1 in
  let nA0 := maxl (map snd X) + 1 in
  do nA <- match shape with
           | None => Ok nA0
           | Some s => ensure negb (nA0 >? s) ;; Ok s
           end ;;
  let n := Z.to_nat nA in
  let evs := flat_map (pair_events (pw_body sym)) (buckets (Z.to_nat nE) X) in
  do offs <- mapM (off2 n n) evs ;;
  Ok (T2 (reshape n n (accum Z.add (repeat 0 (n * n)%nat) (map (fun o => (o, 1)) offs)))).

(* ---------- pairwise_annotations_spacing ---------- *)

(* a table row: (example_idx, (annotation_idx, start, end)) *)
Definition srow := (Z * (Z * Z * Z))%type.

(* the guard in front of y[.., .., d] += 1 *)
Definition skip_now (d maxd : Z) : bool := (d <? 0) || (d >=? maxd).
Definition skip_v0 (d maxd : Z) : bool := d >? maxd.       (* before the fix: commit 066359c *)

(* [sub] is the subtraction of the table's dtype: exact once the table is cast to int64 (commit
   dc1e643); before that cast a uint8 table subtracted modulo 256 *)
Definition sub_u8 (a b : Z) : Z := (a - b) mod 256.

Definition sp_body (sub : Z -> Z -> Z) (skip : Z -> Z -> bool) (maxd : Z) (sym : bool)
  (x0 x1 : Z * Z * Z) : list (Z * Z * Z) :=
  let '(idx0, start0, end0) := x0 in
  let '(idx1, start1, end1) := x1 in
  if start0 <? start1 then
    let d := sub start1 end0 in
    if skip d maxd then []
    else (idx0, idx1, d) :: (if sym && negb (idx0 =? idx1) then [(idx1, idx0, d)] else [])
  else
    let d := sub start0 end1 in
    if skip d maxd then []
    else (idx1, idx0, d) :: (if sym && negb (idx0 =? idx1) then [(idx0, idx1, d)] else []).

Definition off3 (na nb nd : nat) (ev : Z * Z * Z) : res nat :=
  let '(a, b, d) := ev in
  do a' <- npidx na a ;;
  do b' <- npidx nb b ;;
  do d' <- npidx nd d ;;
  Ok ((a' * nb + b') * nd + d')%nat.

Definition srow_nonneg (r : srow) : bool :=
  let '(e, (a, s, en)) := r in (0 <=? e) && (0 <=? a) && (0 <=? s) && (0 <=? en).

Definition spacing_gen (sub : Z -> Z -> Z) (skip : Z -> Z -> bool) (X : list srow) (maxd : Z) (sym : bool)
  (shape : option Z) : res tens :=
  ensure nonempty X ;;
  ensure forallb srow_nonneg X ;;                (* _validate_input(min_value=0) *)
  let nE := maxl (map fst X) + 1 in
  let nA0 := maxl (map (fun r => fst (fst (snd r))) X) + 1 in
  do nA <- match shape with
           | None => Ok nA0
           | Some s => ensure negb (nA0 >? s) ;; Ok s
           end ;;
  ensure (0 <=? maxd) ;;                       (* torch.zeros(n, n, max_distance) *)
  let n := Z.to_nat nA in
  let m := Z.to_nat maxd in
  let evs := flat_map (pair_events (sp_body sub skip maxd sym)) (buckets (Z.to_nat nE) X) in
  do offs <- mapM (off3 n n m) evs ;;
  Ok (T3 (reshape3 n n m (accum Z.add (repeat 0 (n * n * m)%nat) (map (fun o => (o, 1)) offs)))).

Definition pairwise_annotations_spacing := spacing_gen Z.sub skip_now.
Definition pairwise_annotations_spacing_v0 := spacing_gen Z.sub skip_v0.
(* a uint8 table between commits 066359c and dc1e643 (for max_distance <= 255) *)
Definition pairwise_annotations_spacing_u8 := spacing_gen sub_u8 skip_now.

(* ---------- kmers ---------- *)

Definition sumZ (l : list Z) : Z := fold_right Z.add 0 l.
Definition qsum (l : list Qc) : Qc := fold_right Qcplus 0%Qc l.

(* w[c, j] = c * n**j ;  conv1d(X, w)[p] = sum_j sum_c X[c, p+j] * w[c, j] *)
Definition conv_code (n k : nat) (cols : dna) (p : nat) : Z :=
  sumZ (map (fun j =>
         sumZ (map (fun c => nth c (nth (p + j) cols []) 0
                             * (Z.of_nat c * Z.of_nat n ^ Z.of_nat j))
                   (seq 0 n)))
       (seq 0 k)).

(* conv1d(scores, ones(k))[p] *)
Definition conv_score (k : nat) (s : list Qc) (p : nat) : Qc :=
  qsum (map (fun j => (nth (p + j) s 0 * 1)%Qc) (seq 0 k)).

Definition all2b {A B} (f : A -> B -> bool) (l1 : list A) (l2 : list B) : bool :=
  (length l1 =? length l2)%nat && forallb (fun p => f (fst p) (snd p)) (combine l1 l2).

(* X: B sequences of L columns of n entries (shape (B, n, L)); scores: (B, L) or None.
   Without scores every occurrence weighs 1 and the result is integral (T2); with scores the
   weights are the window sums of the scores (TQ, exact rationals). *)
Definition kmers (n L : nat) (X : batch) (k : nat) (scores : option (list (list Qc)))
  : res tens :=
  ensure forallb (fun s => (length s =? L)%nat && forallb (fun c => (length c =? n)%nat) s) X ;;
  ensure (1 <=? k)%nat && (k <=? L)%nat ;;                      (* conv1d: kernel fits *)
  let W := (L - k + 1)%nat in
  let idxs := map (fun cols => map (conv_code n k cols) (seq 0 W)) X in
  match scores with
  | None =>
      do rows <- mapM (fun ix => scatter_add Z.add (repeat 0 (n ^ k)%nat) ix (repeat 1 W)) idxs ;;
      Ok (T2 rows)
  | Some SC =>
      ensure all2b (fun _ s => (length s =? L)%nat) X SC ;;
      let sc := map (fun s => map (conv_score k s) (seq 0 W)) SC in
      do rows <- mapM (fun p => scatter_add Qcplus (repeat 0%Qc (n ^ k)%nat) (fst p) (snd p))
                      (combine idxs sc) ;;
      Ok (TQ rows)
  end.
