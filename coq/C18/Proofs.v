(* C18 proofs: the index arithmetic / bucket loops / positional code of the model compute
   exactly the enumerations the spec demands. *)
From TM Require Import Base.Prelude Base.OneHot Base.PyList C18.Model C18.Spec C18.Lib.
From Coq Require Import QArith Qcanon Sorting.Sorted.
Open Scope Z_scope.

(* ================================================================================= *)
(* B. table shape: X.max() versus the largest entry                                    *)
(* ================================================================================= *)

Lemma largest_ge l x : In x l -> x <= largest l.
Proof.
  induction l as [|y ys IH]; cbn [In largest fold_right]; intros H; [contradiction|].
  destruct H as [->|H]; [lia|]. specialize (IH H). unfold largest in IH. lia.
Qed.

Lemma largest_nonneg l : 0 <= largest l.
Proof. unfold largest. induction l; cbn [fold_right]; lia. Qed.

Lemma fold_left_max xs : forall x, 0 <= x -> fold_left Z.max xs x = Z.max x (largest xs).
Proof.
  induction xs as [|y ys IH]; intros x Hx; cbn [fold_left largest fold_right]; [lia|].
  rewrite IH by lia. unfold largest. lia.
Qed.

Lemma maxl_largest l : (forall x, In x l -> 0 <= x) -> maxl l = largest l.
Proof.
  destruct l as [|x xs]; intros H; [reflexivity|].
  cbn [maxl]. rewrite fold_left_max by (apply H; apply in_eq). reflexivity.
Qed.

(* ================================================================================= *)
(* C. count_annotations                                                               *)
(* ================================================================================= *)

Section Count.
Variable X : list (Z * Z).
Variables nE nA : Z.
Hypothesis Hrange : forall r, In r X -> 0 <= fst r < nE /\ 0 <= snd r < nA.
Hypothesis Hpos : 0 <= nE /\ 0 <= nA.

Lemma count_full :
  exists y, scatter_add Z.add (repeat 0 (Z.to_nat (nE * nA)))
              (map (fun r => fst r * nA + snd r) X) (repeat 1 (length X)) = Ok y /\
    mat_ok (Z.to_nat nE) (Z.to_nat nA) (count_entry X)
      (reshape (Z.to_nat nE) (Z.to_nat nA) y) = true.
Proof.
  destruct (scatter_ones (Z.to_nat (nE * nA)) (map (fun r => fst r * nA + snd r) X) (length X))
    as (y & Hy & Hl & Hn).
  - rewrite map_length. lia.
  - intros i Hi. apply in_map_iff in Hi as (r & <- & Hr). apply Hrange in Hr.
    assert ((fst r + 1) * nA <= nE * nA) by (apply Z.mul_le_mono_nonneg_r; lia).
    assert (0 <= fst r * nA) by (apply Z.mul_nonneg_nonneg; lia).
    rewrite Z2Nat.id by lia. lia.
  - exists y. split; [exact Hy|]. apply mat_ok_reshape.
    + rewrite Hl. apply Z2Nat.inj_mul; lia.
    + intros e a He Ha.
      assert (Hea : (e * Z.to_nat nA + a < Z.to_nat (nE * nA))%nat).
      { rewrite Z2Nat.inj_mul by lia. nia. }
      rewrite Hn by exact Hea. rewrite countb_map. unfold count_entry.
      apply countb_ext_in. intros r Hr. apply Hrange in Hr.
      destruct (Z.eqb_spec (fst r * nA + snd r) (Z.of_nat (e * Z.to_nat nA + a))) as [E|E].
      * assert (E' : fst r * nA + snd r = Z.of_nat e * nA + Z.of_nat a) by nia.
        apply flat_inj in E'; [|lia|lia]. destruct E' as [-> ->]. rewrite !Z.eqb_refl. reflexivity.
      * destruct (Z.eqb_spec (fst r) (Z.of_nat e)); destruct (Z.eqb_spec (snd r) (Z.of_nat a));
          cbn [andb]; try reflexivity. exfalso. apply E. nia.
Qed.

(* summing the indicator of "row r is counted in cell (e, a)" over one axis *)
Lemma colsum a :
  sumZ (map (fun e => count_entry X e a) (seq 0 (Z.to_nat nE)))
  = countb (fun i => i =? Z.of_nat a) (map snd X).
Proof.
  rewrite countb_map. unfold count_entry. revert Hrange.
  induction X as [|r rs IH]; intros Hr.
  - cbn. apply sumZ_map_zero.
  - rewrite countb_cons, <- IH by (intros; apply Hr; apply in_cons; assumption).
    rewrite <- (indicator_sum1 (fst r) (if snd r =? Z.of_nat a then 1 else 0) (Z.to_nat nE))
      by (specialize (Hr r (in_eq _ _)); lia).
    rewrite <- sumZ_map_add. apply sumZ_map_ext_in. intros e _. rewrite countb_cons.
    destruct (fst r =? Z.of_nat e), (snd r =? Z.of_nat a); cbn [andb]; lia.
Qed.

Lemma rowsum e :
  sumZ (map (fun a => count_entry X e a) (seq 0 (Z.to_nat nA)))
  = countb (fun i => i =? Z.of_nat e) (map fst X).
Proof.
  rewrite countb_map. unfold count_entry. revert Hrange.
  induction X as [|r rs IH]; intros Hr.
  - cbn. apply sumZ_map_zero.
  - rewrite countb_cons, <- IH by (intros; apply Hr; apply in_cons; assumption).
    rewrite <- (indicator_sum1 (snd r) (if fst r =? Z.of_nat e then 1 else 0) (Z.to_nat nA))
      by (specialize (Hr r (in_eq _ _)); lia).
    rewrite <- sumZ_map_add. apply sumZ_map_ext_in. intros a _. rewrite countb_cons.
    destruct (fst r =? Z.of_nat e), (snd r =? Z.of_nat a); cbn [andb]; lia.
Qed.

Lemma count_d0 :
  exists y, scatter_add Z.add (repeat 0 (Z.to_nat nA)) (map snd X) (repeat 1 (length X)) = Ok y /\
    length y = Z.to_nat nA /\
    vec_ok (Z.to_nat nA)
      (fun a => sumZ (map (fun e => count_entry X e a) (seq 0 (Z.to_nat nE)))) y = true.
Proof.
  destruct (scatter_ones (Z.to_nat nA) (map snd X) (length X)) as (y & Hy & Hl & Hn).
  - rewrite map_length. lia.
  - intros i Hi. apply in_map_iff in Hi as (r & <- & Hr). apply Hrange in Hr. lia.
  - exists y. split; [exact Hy|]. split; [exact Hl|]. apply vec_ok_intro; [exact Hl|].
    intros a Ha. rewrite Hn by exact Ha. symmetry. apply colsum.
Qed.

Lemma count_d1 :
  exists y, scatter_add Z.add (repeat 0 (Z.to_nat nE)) (map fst X) (repeat 1 (length X)) = Ok y /\
    length y = Z.to_nat nE /\
    vec_ok (Z.to_nat nE)
      (fun e => sumZ (map (fun a => count_entry X e a) (seq 0 (Z.to_nat nA)))) y = true.
Proof.
  destruct (scatter_ones (Z.to_nat nE) (map fst X) (length X)) as (y & Hy & Hl & Hn).
  - rewrite map_length. lia.
  - intros i Hi. apply in_map_iff in Hi as (r & <- & Hr). apply Hrange in Hr. lia.
  - exists y. split; [exact Hy|]. split; [exact Hl|]. apply vec_ok_intro; [exact Hl|].
    intros e He. rewrite Hn by exact He. symmetry. apply rowsum.
Qed.
End Count.

Lemma table_facts X : table_ok X = true ->
  nonempty X = true /\
  forallb (fun r => (0 <=? fst r) && (0 <=? snd r)) X = true /\
  maxl (map fst X) = largest (map fst X) /\ maxl (map snd X) = largest (map snd X) /\
  forall r, In r X -> 0 <= fst r < largest (map fst X) + 1 /\ 0 <= snd r < largest (map snd X) + 1.
Proof.
  unfold table_ok. intros H. apply andb_true_iff in H as [Hne Hnn].
  assert (Hrow : forall r, In r X -> 0 <= fst r /\ 0 <= snd r).
  { intros r Hr. rewrite forallb_forall in Hnn. apply Hnn in Hr. lia. }
  repeat split; auto.
  - apply maxl_largest. intros x Hx. apply in_map_iff in Hx as (r & <- & Hr). apply Hrow; auto.
  - apply maxl_largest. intros x Hx. apply in_map_iff in Hx as (r & <- & Hr). apply Hrow; auto.
  - apply Hrow; auto.
  - pose proof (largest_ge (map fst X) (fst r) (in_map fst _ _ H)). lia.
  - apply Hrow; auto.
  - pose proof (largest_ge (map snd X) (snd r) (in_map snd _ _ H)). lia.
Qed.

Lemma length_row0 {A} r c (y : list A) : (0 < r)%nat -> length y = (r * c)%nat ->
  length (nth 0 (reshape r c y) []) = c.
Proof. intros. apply length_nth_reshape; assumption. Qed.

Theorem count_spec X shape dim :
  spec_ok (CCount X shape dim) (count_annotations X shape dim) = true.
Proof.
  unfold spec_ok.
  destruct (table_ok X && _) eqn:Hs; [|reflexivity].
  apply andb_true_iff in Hs as [Ht Hshape].
  apply table_facts in Ht as (Hne & Hnn & HmE & HmA & Hrow).
  unfold count_annotations. rewrite Hne, Hnn. cbn [guard bind]. rewrite HmE, HmA.
  pose proof (largest_nonneg (map fst X)) as HpE. pose proof (largest_nonneg (map snd X)) as HpA.
  set (nE0 := largest (map fst X) + 1) in *. set (nA0 := largest (map snd X) + 1) in *.
  assert (Hfit : exists nE nA, nE0 <= nE /\ nA0 <= nA /\
            match shape with Some (s0, s1) => s0 = nE /\ s1 = nA | None => nE0 = nE /\ nA0 = nA end).
  { destruct shape as [[s0 s1]|]; [exists s0, s1|exists nE0, nA0]; lia. }
  destruct Hfit as (nE & nA & HE & HA & Hsh).
  assert (Hrange : forall r, In r X -> 0 <= fst r < nE /\ 0 <= snd r < nA).
  { intros r Hr. apply Hrow in Hr. lia. }
  assert (Hpos : 0 <= nE /\ 0 <= nA) by lia.
  assert (Hguard : match shape with
                   | None => Ok (nE0, nA0)
                   | Some (s0, s1) => ensure negb ((nE0 >? s0) || (nA0 >? s1)) ;; Ok (s0, s1)
                   end = Ok (nE, nA)).
  { destruct shape as [[s0 s1]|]; destruct Hsh as [-> ->]; [|reflexivity].
    replace (negb ((nE0 >? nE) || (nA0 >? nA))) with true by lia. reflexivity. }
  rewrite Hguard. cbn [bind fst snd].
  assert (HdE : dim_ok (option_map fst shape) nE0 (Z.to_nat nE) = true).
  { destruct shape as [[s0 s1]|]; destruct Hsh as [? ?]; cbn [option_map dim_ok fst]; lia. }
  assert (HdA : dim_ok (option_map snd shape) nA0 (Z.to_nat nA) = true).
  { destruct shape as [[s0 s1]|]; destruct Hsh as [? ?]; cbn [option_map dim_ok snd]; lia. }
  assert (HnE : Z.to_nat (match shape with Some (s0, _) => s0 | None => nE0 end) = Z.to_nat nE).
  { destruct shape as [[s0 s1]|]; destruct Hsh as [-> ?]; reflexivity. }
  assert (HnA : Z.to_nat (match shape with Some (_, s1) => s1 | None => nA0 end) = Z.to_nat nA).
  { destruct shape as [[s0 s1]|]; destruct Hsh as [? ->]; reflexivity. }
  rewrite HnE, HnA.
  destruct dim.
  - destruct (count_full X nE nA Hrange Hpos) as (y & Hy & Hm). rewrite Hy. cbn [bind].
    assert (Hly : length y = (Z.to_nat nE * Z.to_nat nA)%nat).
    { unfold scatter_add in Hy.
      destruct (_ <=? _)%nat; cbn [guard bind] in Hy; [|discriminate].
      destruct (mapM _ _); cbn [bind] in Hy; [|discriminate].
      injection Hy as <-. rewrite length_accum, repeat_length. apply Z2Nat.inj_mul; lia. }
    rewrite length_reshape, length_row0 by (auto; lia).
    rewrite HdE, HdA, Hm. reflexivity.
  - destruct (count_d0 X nE nA Hrange) as (y & Hy & Hl & Hv). rewrite Hy. cbn [bind].
    rewrite Hl, HdA, Hv. reflexivity.
  - destruct (count_d1 X nE nA Hrange) as (y & Hy & Hl & Hv). rewrite Hy. cbn [bind].
    rewrite Hl, HdE, Hv. reflexivity.
Qed.

(* ================================================================================= *)
(* D. unordered pairs of rows                                                          *)
(* ================================================================================= *)

(* structural enumeration of the pairs (l[i], l[j]), i < j; a proof device only *)
Fixpoint spairs {A} (l : list A) : list (A * A) :=
  match l with
  | [] => []
  | x :: xs => map (pair x) xs ++ spairs xs
  end.

Lemma spairs_map {A B} (f : A -> B) l :
  spairs (map f l) = map (fun p => (f (fst p), f (snd p))) (spairs l).
Proof.
  induction l as [|x xs IH]; [reflexivity|]. cbn [map spairs].
  rewrite map_app, IH, !map_map. reflexivity.
Qed.

Lemma filter_map_pair {A} (g : A -> bool) x xs :
  filter (fun p => g (fst p) && g (snd p)) (map (pair x) xs)
  = if g x then map (pair x) (filter g xs) else [].
Proof.
  induction xs as [|y ys IH]; cbn [map filter fst snd]; [destruct (g x); reflexivity|].
  rewrite IH. destruct (g x), (g y); reflexivity.
Qed.

Lemma spairs_filter {A} (g : A -> bool) l :
  spairs (filter g l) = filter (fun p => g (fst p) && g (snd p)) (spairs l).
Proof.
  induction l as [|x xs IH]; [reflexivity|]. cbn [filter spairs].
  rewrite filter_app, filter_map_pair, <- IH. destruct (g x); reflexivity.
Qed.

Lemma in_spairs {A} (l : list A) p : In p (spairs l) -> In (fst p) l /\ In (snd p) l.
Proof.
  induction l as [|x xs IH]; cbn [spairs]; [contradiction|]. intros H.
  apply in_app_or in H as [H|H].
  - apply in_map_iff in H as (y & <- & Hy). cbn. auto.
  - apply IH in H as [H1 H2]. cbn. auto.
Qed.

Lemma filter_all {A} (f : A -> bool) l : (forall x, In x l -> f x = true) -> filter f l = l.
Proof.
  induction l as [|x xs IH]; intros H; [reflexivity|]. cbn [filter].
  rewrite (H x (in_eq _ _)), IH; auto using in_cons.
Qed.

Lemma filter_prod_cons {R} (x : nat * R) ys L :
  (forall y, In y ys -> (fst x <= fst y)%nat) ->
  filter (fun p : (nat * R) * (nat * R) => (fst (fst p) <? fst (snd p))%nat) (list_prod ys (x :: L))
  = filter (fun p => (fst (fst p) <? fst (snd p))%nat) (list_prod ys L).
Proof.
  induction ys as [|y ys IH]; intros H; [reflexivity|].
  cbn [list_prod map]. rewrite !filter_app. cbn [filter fst snd app].
  specialize (H y (in_eq _ _)) as Hy. destruct (Nat.ltb_spec (fst y) (fst x)); [lia|].
  rewrite IH by (intros; apply H; apply in_cons; assumption). reflexivity.
Qed.

Lemma filter_lt_prod {R} (IX : list (nat * R)) :
  StronglySorted (fun a b => (fst a < fst b)%nat) IX ->
  filter (fun p => (fst (fst p) <? fst (snd p))%nat) (list_prod IX IX) = spairs IX.
Proof.
  induction 1 as [|x xs Hs IH Hall]; [reflexivity|].
  rewrite Forall_forall in Hall.
  cbn [list_prod spairs map]. rewrite filter_app. cbn [filter fst snd].
  rewrite Nat.ltb_irrefl. f_equal.
  - apply filter_all. intros p Hp. apply in_map_iff in Hp as (y & <- & Hy). cbn [fst snd].
    apply Nat.ltb_lt. apply Hall. exact Hy.
  - rewrite filter_prod_cons by (intros y Hy; apply Hall in Hy; lia). exact IH.
Qed.

Lemma sorted_combine {R} (X : list R) : forall s,
  StronglySorted (fun a b : nat * R => (fst a < fst b)%nat) (combine (seq s (length X)) X).
Proof.
  induction X as [|x xs IH]; intros s; cbn [length seq combine]; constructor; [apply IH|].
  apply Forall_forall. intros y Hy. destruct y as [i v]. apply in_combine_l in Hy.
  apply in_seq in Hy. cbn. lia.
Qed.

Lemma map_snd_combine {R} (X : list R) : forall s, map snd (combine (seq s (length X)) X) = X.
Proof.
  induction X as [|x xs IH]; intros s; cbn [length seq combine map snd]; [reflexivity|].
  rewrite IH. reflexivity.
Qed.

Lemma upairs_spairs {R} (X : list R) : upairs X = spairs X.
Proof.
  unfold upairs. rewrite filter_lt_prod by apply sorted_combine.
  rewrite <- (spairs_map snd). rewrite map_snd_combine. reflexivity.
Qed.

Lemma map_const_seq {A} (c : A) n : forall s, map (fun _ => c) (seq s n) = repeat c n.
Proof. induction n as [|n IH]; intros s; cbn; [reflexivity|]. rewrite IH. reflexivity. Qed.

Lemma upd_map_seq {A} (g : nat -> A) h n : forall s i,
  upd (map g (seq s n)) i h = map (fun e => if (e =? s + i)%nat then h (g e) else g e) (seq s n).
Proof.
  induction n as [|n IH]; intros s i; cbn [seq map upd]; [destruct i; reflexivity|].
  destruct i as [|i]; cbn [upd].
  - rewrite Nat.add_0_r, Nat.eqb_refl. f_equal. apply map_ext_in. intros e He.
    apply in_seq in He. destruct (Nat.eqb_spec e s); [lia|reflexivity].
  - destruct (Nat.eqb_spec s (s + S i)); [lia|]. f_equal. rewrite IH.
    apply map_ext. intros e. replace (S s + i)%nat with (s + S i)%nat by lia. reflexivity.
Qed.

Section Pairs.
Context {P E : Type} (body : P -> P -> list E).

Lemma countb_pair_events (Q : E -> bool) l :
  countb Q (pair_events body l)
  = sumZ (map (fun p => countb Q (body (fst p) (snd p))) (spairs l)).
Proof.
  induction l as [|x xs IH]; [reflexivity|]. cbn [pair_events spairs].
  rewrite countb_app, countb_flat_map, IH, map_app, sumZ_app, map_map. reflexivity.
Qed.

Lemma in_pair_events l ev :
  In ev (pair_events body l) -> exists x y, In x l /\ In y l /\ In ev (body x y).
Proof.
  induction l as [|x xs IH]; cbn [pair_events]; [contradiction|]. intros H.
  apply in_app_or in H as [H|H].
  - apply in_flat_map in H as (y & Hy & Hev). exists x, y. cbn. auto.
  - apply IH in H as (a & b & Ha & Hb & Hev). exists a, b. cbn. auto.
Qed.

Variable nE : nat.
Variable X : list (Z * P).
Hypothesis Hex : forall r, In r X -> 0 <= fst r < Z.of_nat nE.

Lemma buckets_eq :
  buckets nE X = map (fun e => map snd (filter (fun r => fst r =? Z.of_nat e) X)) (seq 0 nE).
Proof.
  unfold buckets. revert Hex. induction X as [|r rs IH] using rev_ind; intros Hr.
  - cbn. symmetry. apply map_const_seq.
  - rewrite fold_left_app. cbn [fold_left].
    rewrite IH by (intros; apply Hr; apply in_or_app; auto).
    rewrite upd_map_seq. apply map_ext_in. intros e He. cbn [plus].
    rewrite filter_app, map_app. cbn [filter].
    specialize (Hr r (in_or_app _ _ _ (or_intror (in_eq _ _)))).
    destruct (Nat.eqb_spec e (Z.to_nat (fst r))); destruct (Z.eqb_spec (fst r) (Z.of_nat e));
      try lia; cbn [map]; [reflexivity|symmetry; apply app_nil_r].
Qed.

Lemma bucket_sum (c : (Z * P) * (Z * P) -> Z) (L : list ((Z * P) * (Z * P))) :
  (forall p, In p L -> 0 <= fst (fst p) < Z.of_nat nE) ->
  sumZ (map (fun e => sumZ (map c (filter (fun p => (fst (fst p) =? Z.of_nat e)
                                                    && (fst (snd p) =? Z.of_nat e)) L)))
            (seq 0 nE))
  = sumZ (map (fun p => if fst (fst p) =? fst (snd p) then c p else 0) L).
Proof.
  induction L as [|p ps IH]; intros Hr.
  - cbn [filter map sumZ fold_right]. apply sumZ_map_zero.
  - cbn [map sumZ fold_right]. fold (sumZ (map (fun p => if fst (fst p) =? fst (snd p) then c p else 0) ps)).
    rewrite <- IH by (intros; apply Hr; apply in_cons; assumption).
    rewrite <- (indicator_sum (fst (fst p)) (fst (snd p)) (c p) nE) by (apply Hr; apply in_eq).
    rewrite <- sumZ_map_add. apply sumZ_map_ext_in. intros e _. cbn [filter].
    destruct ((fst (fst p) =? Z.of_nat e) && (fst (snd p) =? Z.of_nat e)); cbn [map sumZ fold_right];
      reflexivity.
Qed.

(* the statements executed by the bucket loops, counted by any predicate, are a sum over the
   same-example pairs of rows of the table *)
Lemma events_count (Q : E -> bool) :
  countb Q (flat_map (pair_events body) (buckets nE X))
  = sumZ (map (fun p => if fst (fst p) =? fst (snd p)
                        then countb Q (body (snd (fst p)) (snd (snd p))) else 0) (spairs X)).
Proof.
  rewrite <- (bucket_sum (fun p => countb Q (body (snd (fst p)) (snd (snd p))))).
  - rewrite buckets_eq, countb_flat_map, map_map. apply sumZ_map_ext_in. intros e _.
    rewrite countb_pair_events, spairs_map, spairs_filter, map_map. reflexivity.
  - intros p Hp. apply in_spairs in Hp as [H1 _]. apply Hex. exact H1.
Qed.

Lemma events_Forall (R : E -> Prop) :
  (forall r1 r2, In r1 X -> In r2 X -> Forall R (body (snd r1) (snd r2))) ->
  Forall R (flat_map (pair_events body) (buckets nE X)).
Proof.
  intros H. rewrite buckets_eq. apply Forall_forall. intros ev Hev.
  apply in_flat_map in Hev as (l & Hl & Hev). apply in_map_iff in Hl as (e & <- & _).
  apply in_pair_events in Hev as (x & y & Hx & Hy & Hev).
  apply in_map_iff in Hx as (r1 & <- & H1). apply filter_In in H1 as [H1 _].
  apply in_map_iff in Hy as (r2 & <- & H2). apply filter_In in H2 as [H2 _].
  specialize (H r1 r2 H1 H2). rewrite Forall_forall in H. apply H. exact Hev.
Qed.
End Pairs.

(* ================================================================================= *)
(* E. pairwise_annotations and pairwise_annotations_spacing                            *)
(* ================================================================================= *)

Lemma npidx_ok n i : 0 <= i < Z.of_nat n -> npidx n i = Ok (Z.to_nat i).
Proof.
  intros H. unfold npidx. destruct (Z.leb_spec 0 i); [|lia].
  destruct (Z.ltb_spec i (Z.of_nat n)); [|lia]. reflexivity.
Qed.

Lemma flat_inj_nat (a b a' b' n : nat) : (b < n)%nat -> (b' < n)%nat ->
  (a * n + b = a' * n + b')%nat -> a = a' /\ b = b'.
Proof.
  intros Hb Hb' E.
  destruct (flat_inj (Z.of_nat a) (Z.of_nat b) (Z.of_nat a') (Z.of_nat b') (Z.of_nat n)); lia.
Qed.

Lemma off2_eqb n a b a' b' : (b < n)%nat -> (b' < n)%nat ->
  (a' * n + b' =? a * n + b)%nat = ((a' =? a)%nat && (b' =? b)%nat).
Proof.
  intros Hb Hb'. destruct (Nat.eqb_spec (a' * n + b') (a * n + b)) as [E|E].
  - apply flat_inj_nat in E as [-> ->]; try assumption. rewrite !Nat.eqb_refl. reflexivity.
  - destruct (Nat.eqb_spec a' a); destruct (Nat.eqb_spec b' b); cbn [andb]; try reflexivity.
    subst. contradiction.
Qed.

Lemma off3_eqb n m a b d a' b' d' : (b < n)%nat -> (b' < n)%nat -> (d < m)%nat -> (d' < m)%nat ->
  ((a' * n + b') * m + d' =? (a * n + b) * m + d)%nat
  = ((a' =? a)%nat && (b' =? b)%nat && (d' =? d)%nat).
Proof.
  intros Hb Hb' Hd Hd'. rewrite off2_eqb by assumption. rewrite off2_eqb by assumption. reflexivity.
Qed.

Lemma to_nat_eqb u a : 0 <= u -> (Z.to_nat u =? a)%nat = (u =? Z.of_nat a).
Proof. intros. destruct (Nat.eqb_spec (Z.to_nat u) a); destruct (Z.eqb_spec u (Z.of_nat a)); lia. Qed.

Lemma shape_guard (shape : option Z) nA0 : 0 <= nA0 ->
  match shape with Some s => nA0 <=? s | None => true end = true ->
  exists nA, nA0 <= nA /\
    match shape with
    | None => Ok nA0
    | Some s => ensure negb (nA0 >? s) ;; Ok s
    end = Ok nA /\ dim_ok shape nA0 (Z.to_nat nA) = true.
Proof.
  intros H0 H. destruct shape as [s|].
  - exists s. split; [lia|]. split.
    + replace (negb (nA0 >? s)) with true by lia. reflexivity.
    + cbn [dim_ok]. lia.
  - exists nA0. split; [lia|]. split; [reflexivity|]. cbn [dim_ok]. lia.
Qed.

Definition ev2_eqb (a b : nat) (ev : Z * Z) : bool :=
  (fst ev =? Z.of_nat a) && (snd ev =? Z.of_nat b).

Lemma ind_add (b1 b2 b : bool) : (b = b1 || b2) -> (b1 && b2 = false) ->
  (if b1 then 1 else 0) + ((if b2 then 1 else 0) + 0) = if b then 1 else 0.
Proof. intros -> H. destruct b1, b2; cbn in *; try discriminate; reflexivity. Qed.

Lemma pw_pair_count a b x y :
  countb (ev2_eqb a b) (pw_body true x y) = if umatch a b x y then 1 else 0.
Proof.
  unfold pw_body, umatch, ev2_eqb. cbn [andb]. rewrite countb_cons. cbn [fst snd].
  destruct (Z.eqb_spec x y) as [->|Hxy]; cbn [negb].
  - rewrite countb_nil. rewrite Z.add_0_r.
    destruct (y =? Z.of_nat a) eqn:E1, (y =? Z.of_nat b) eqn:E2; reflexivity.
  - rewrite countb_cons, countb_nil. cbn [fst snd]. apply ind_add; lia.
Qed.

Theorem pairwise_spec X sym shape :
  spec_ok (CPair X sym shape) (pairwise_annotations X sym shape) = true.
Proof.
  unfold spec_ok.
  destruct (table_ok X && sym && _) eqn:Hs; [|reflexivity].
  apply andb_true_iff in Hs as [Hs Hshape]. apply andb_true_iff in Hs as [Ht Hsym]. subst sym.
  apply table_facts in Ht as (Hne & Hnn & HmE & HmA & Hrow).
  unfold pairwise_annotations. rewrite Hne, Hnn. cbn [guard bind]. rewrite HmE, HmA.
  pose proof (largest_nonneg (map fst X)) as HpE. pose proof (largest_nonneg (map snd X)) as HpA.
  set (nA0 := largest (map snd X) + 1) in *.
  destruct (shape_guard shape nA0 ltac:(lia) Hshape) as (nA & HA & Hg & Hd).
  rewrite Hg. cbn [bind].
  set (n := Z.to_nat nA). set (nE := Z.to_nat (largest (map fst X) + 1)).
  assert (Hex : forall r, In r X -> 0 <= fst r < Z.of_nat nE).
  { intros r Hr. apply Hrow in Hr. unfold nE. lia. }
  set (evs := flat_map (pair_events (pw_body true)) (buckets nE X)).
  assert (Hin : forall ev, In ev evs -> 0 <= fst ev < nA /\ 0 <= snd ev < nA).
  { apply Forall_forall. apply events_Forall; [exact Hex|]. intros r1 r2 H1 H2.
    apply Hrow in H1. apply Hrow in H2. unfold pw_body.
    constructor; [cbn; lia|]. destruct (true && _); constructor; [cbn; lia|constructor]. }
  rewrite (mapM_ok _ (fun ev => Z.to_nat (fst ev) * n + Z.to_nat (snd ev))%nat).
  2:{ intros ev Hev. apply Hin in Hev. unfold off2.
      rewrite !npidx_ok by (unfold n; lia). reflexivity. }
  cbn [bind]. rewrite length_reshape. fold n in Hd. rewrite Hd. cbn [andb].
  apply mat_ok_reshape.
  - rewrite length_accum, repeat_length. reflexivity.
  - intros a b Ha Hb.
    rewrite nth_accum_ones by (rewrite repeat_length; nia).
    rewrite nth_repeat0, countb_map, Z.add_0_l.
    transitivity (countb (ev2_eqb a b) evs).
    { apply countb_ext_in. intros ev Hev. apply Hin in Hev. unfold ev2_eqb.
      rewrite off2_eqb by (unfold n; lia). rewrite !to_nat_eqb by lia. reflexivity. }
    unfold evs. rewrite events_count by exact Hex.
    unfold pair_entry, same_example. rewrite countb_filter, upairs_spairs.
    apply sumZ_map_ext_in. intros p _.
    destruct (fst (fst p) =? fst (snd p)); [|reflexivity]. apply pw_pair_count.
Qed.

Definition ev3_eqb (a b d : nat) (ev : Z * Z * Z) : bool :=
  (fst (fst ev) =? Z.of_nat a) && (snd (fst ev) =? Z.of_nat b) && (snd ev =? Z.of_nat d).

Lemma ind_one (b1 b : bool) : b = b1 -> (if b1 then 1 else 0) + 0 = if b then 1 else 0.
Proof. intros ->. destruct b1; reflexivity. Qed.

Lemma ind_zero (b : bool) : b = false -> (if b then 1 else 0) + 0 = 0.
Proof. intros ->. reflexivity. Qed.

Lemma ind_none (b : bool) : b = false -> 0 = if b then 1 else 0.
Proof. intros ->. reflexivity. Qed.

(* one pair of rows of the same example: the statements the loop body executes hit cell (a, b, d)
   once if the pair has annotations {a, b}, does not overlap and has gap d, and never otherwise *)
Lemma sp_pair_count maxd a b d x y :
  start_of x < end_of x -> start_of y < end_of y -> Z.of_nat d < maxd ->
  countb (ev3_eqb a b d) (sp_body Z.sub skip_now maxd true x y)
  = if umatch a b (ann_of x) (ann_of y)
    then (if negb (overlapping x y) && (gap x y =? Z.of_nat d) then 1 else 0) else 0.
Proof.
  destruct x as [[a0 s0] e0], y as [[a1 s1] e1].
  unfold overlapping, gap, umatch, sp_body, skip_now, ev3_eqb, start_of, end_of, ann_of.
  cbn [fst snd andb]. intros H0 H1 Hd.
  destruct (Z.ltb_spec s0 s1) as [Hs|Hs].
  - destruct ((s1 - e0 <? 0) || (s1 - e0 >=? maxd)) eqn:Hk.
    + rewrite countb_nil.
      destruct ((a0 =? Z.of_nat a) && (a1 =? Z.of_nat b) || (a0 =? Z.of_nat b) && (a1 =? Z.of_nat a));
        [|reflexivity]. apply ind_none. lia.
    + destruct (Z.eqb_spec a0 a1) as [->|Ha]; cbn [negb].
      * rewrite countb_cons, countb_nil. cbn [fst snd].
        destruct ((a1 =? Z.of_nat a) && (a1 =? Z.of_nat b) || (a1 =? Z.of_nat b) && (a1 =? Z.of_nat a)) eqn:Hm.
        -- apply ind_one. lia.
        -- apply ind_zero. lia.
      * rewrite !countb_cons, countb_nil. cbn [fst snd].
        destruct ((a0 =? Z.of_nat a) && (a1 =? Z.of_nat b) || (a0 =? Z.of_nat b) && (a1 =? Z.of_nat a)) eqn:Hm.
        -- apply ind_add; lia.
        -- replace ((a0 =? Z.of_nat a) && (a1 =? Z.of_nat b) && (s1 - e0 =? Z.of_nat d)) with false by lia.
           replace ((a1 =? Z.of_nat a) && (a0 =? Z.of_nat b) && (s1 - e0 =? Z.of_nat d)) with false by lia.
           reflexivity.
  - destruct ((s0 - e1 <? 0) || (s0 - e1 >=? maxd)) eqn:Hk.
    + rewrite countb_nil.
      destruct ((a0 =? Z.of_nat a) && (a1 =? Z.of_nat b) || (a0 =? Z.of_nat b) && (a1 =? Z.of_nat a));
        [|reflexivity]. apply ind_none. lia.
    + destruct (Z.eqb_spec a0 a1) as [->|Ha]; cbn [negb].
      * rewrite countb_cons, countb_nil. cbn [fst snd].
        destruct ((a1 =? Z.of_nat a) && (a1 =? Z.of_nat b) || (a1 =? Z.of_nat b) && (a1 =? Z.of_nat a)) eqn:Hm.
        -- apply ind_one. lia.
        -- apply ind_zero. lia.
      * rewrite !countb_cons, countb_nil. cbn [fst snd].
        destruct ((a0 =? Z.of_nat a) && (a1 =? Z.of_nat b) || (a0 =? Z.of_nat b) && (a1 =? Z.of_nat a)) eqn:Hm.
        -- apply ind_add; lia.
        -- replace ((a1 =? Z.of_nat a) && (a0 =? Z.of_nat b) && (s0 - e1 =? Z.of_nat d)) with false by lia.
           replace ((a0 =? Z.of_nat a) && (a1 =? Z.of_nat b) && (s0 - e1 =? Z.of_nat d)) with false by lia.
           reflexivity.
Qed.

Lemma sumZ_map_filter {A} (f : A -> Z) (s : A -> bool) l :
  sumZ (map f (filter s l)) = sumZ (map (fun x => if s x then f x else 0) l).
Proof.
  induction l as [|x xs IH]; [reflexivity|]. cbn [filter map sumZ fold_right].
  destruct (s x); cbn [map sumZ fold_right]; unfold sumZ in IH; rewrite IH; reflexivity.
Qed.

Lemma stable_facts (X : list srow) : stable_ok X = true ->
  nonempty X = true /\
  forallb srow_nonneg X = true /\
  maxl (map fst X) = largest (map fst X) /\
  maxl (map (fun r : srow => fst (fst (snd r))) X) = largest (map (fun r => ann_of (snd r)) X) /\
  forall r, In r X ->
    0 <= fst r < largest (map fst X) + 1 /\
    0 <= ann_of (snd r) < largest (map (fun r => ann_of (snd r)) X) + 1 /\
    0 <= start_of (snd r) < end_of (snd r).
Proof.
  unfold stable_ok. intros H. apply andb_true_iff in H as [Hne Hnn].
  assert (Hrow : forall r, In r X ->
            0 <= fst r /\ 0 <= ann_of (snd r) /\ 0 <= start_of (snd r) < end_of (snd r)).
  { intros r Hr. rewrite forallb_forall in Hnn. apply Hnn in Hr. lia. }
  split; [exact Hne|]. split.
  { apply forallb_forall. intros [e [[a s] en]] Hr. apply Hrow in Hr.
    unfold ann_of, start_of, end_of in Hr. cbn [fst snd] in Hr. unfold srow_nonneg. lia. }
  split.
  { apply maxl_largest. intros x Hx. apply in_map_iff in Hx as (r & <- & Hr). apply Hrow; auto. }
  split.
  { apply maxl_largest. intros x Hx. apply in_map_iff in Hx as (r & <- & Hr).
    apply Hrow in Hr. unfold ann_of in *. lia. }
  intros r Hr. pose proof (Hrow r Hr) as (H1 & H2 & H3).
  pose proof (largest_ge (map fst X) (fst r) (in_map fst _ _ Hr)).
  pose proof (largest_ge (map (fun r => ann_of (snd r)) X) (ann_of (snd r))
                (in_map (fun r => ann_of (snd r)) _ _ Hr)).
  lia.
Qed.

Lemma length_reshape3 {A} na nb nd (l : list A) : length (reshape3 na nb nd l) = na.
Proof. unfold reshape3. rewrite map_length, length_reshape. reflexivity. Qed.

Lemma flat3_lt (a b d na nb nd : nat) : (a < na)%nat -> (b < nb)%nat -> (d < nd)%nat ->
  ((a * nb + b) * nd + d < na * nb * nd)%nat.
Proof.
  intros Ha Hb Hd.
  assert (H1 : ((a + 1) * nb <= na * nb)%nat) by (apply Nat.mul_le_mono_r; lia).
  assert (H2 : ((a * nb + b + 1) * nd <= na * nb * nd)%nat) by (apply Nat.mul_le_mono_r; lia).
  lia.
Qed.

Theorem spacing_spec X maxd sym shape :
  spec_ok (CSpacing X maxd sym shape) (pairwise_annotations_spacing X maxd sym shape) = true.
Proof.
  unfold spec_ok.
  destruct (stable_ok X && sym && (0 <=? maxd) && _) eqn:Hs; [|reflexivity].
  apply andb_true_iff in Hs as [Hs Hshape]. apply andb_true_iff in Hs as [Hs Hmax].
  apply andb_true_iff in Hs as [Ht Hsym]. subst sym.
  apply stable_facts in Ht as (Hne & Hnn & HmE & HmA & Hrow).
  unfold pairwise_annotations_spacing, spacing_gen. unfold srow in *. rewrite Hne, Hnn. cbn [guard bind].
  rewrite HmE, HmA.
  pose proof (largest_nonneg (map fst X)) as HpE.
  pose proof (largest_nonneg (map (fun r : Z * (Z * Z * Z) => ann_of (snd r)) X)) as HpA.
  set (nA0 := largest (map (fun r : Z * (Z * Z * Z) => ann_of (snd r)) X) + 1) in *.
  destruct (shape_guard shape nA0 ltac:(lia) Hshape) as (nA & HA & Hg & Hd).
  rewrite Hg. cbn [bind]. rewrite Hmax. cbn [guard bind].
  set (n := Z.to_nat nA). set (m := Z.to_nat maxd).
  set (nE := Z.to_nat (largest (map fst X) + 1)).
  assert (Hex : forall r, In r X -> 0 <= fst r < Z.of_nat nE).
  { intros r Hr. apply Hrow in Hr. unfold nE. lia. }
  set (evs := flat_map (pair_events (sp_body Z.sub skip_now maxd true)) (buckets nE X)).
  assert (Hin : forall ev, In ev evs ->
            0 <= fst (fst ev) < nA /\ 0 <= snd (fst ev) < nA /\ 0 <= snd ev < maxd).
  { apply Forall_forall. apply events_Forall; [exact Hex|]. intros r1 r2 H1 H2.
    apply Hrow in H1. apply Hrow in H2.
    destruct (snd r1) as [[a0 s0] e0]. destruct (snd r2) as [[a1 s1] e1].
    unfold ann_of, start_of, end_of in H1, H2. cbn [fst snd] in H1, H2.
    unfold sp_body, skip_now.
    destruct (s0 <? s1).
    - destruct ((s1 - e0 <? 0) || (s1 - e0 >=? maxd)) eqn:Hk; [constructor|].
      constructor; [cbn; lia|]. destruct (true && _); constructor; [cbn; lia|constructor].
    - destruct ((s0 - e1 <? 0) || (s0 - e1 >=? maxd)) eqn:Hk; [constructor|].
      constructor; [cbn; lia|]. destruct (true && _); constructor; [cbn; lia|constructor]. }
  rewrite (mapM_ok _ (fun ev => (Z.to_nat (fst (fst ev)) * n + Z.to_nat (snd (fst ev))) * m
                                + Z.to_nat (snd ev))%nat).
  2:{ intros [[ea eb] ed] Hev. apply Hin in Hev. cbn [fst snd] in Hev. unfold off3.
      rewrite !npidx_ok by (unfold n, m; lia). reflexivity. }
  cbn [bind]. rewrite length_reshape3.
  fold n in Hd. rewrite Hd. cbn [andb].
  apply cube_ok_reshape3.
  - rewrite length_accum, repeat_length. reflexivity.
  - intros a b d Ha Hb Hdd.
    rewrite nth_accum_ones by (rewrite repeat_length; apply flat3_lt; assumption).
    rewrite nth_repeat0, countb_map, Z.add_0_l.
    transitivity (countb (ev3_eqb a b d) evs).
    { apply countb_ext_in. intros ev Hev. apply Hin in Hev. unfold ev3_eqb.
      rewrite off3_eqb by (unfold n, m; lia). rewrite !to_nat_eqb by lia. reflexivity. }
    unfold evs. rewrite events_count by exact Hex.
    unfold spacing_entry, same_example. rewrite countb_filter, sumZ_map_filter, upairs_spairs.
    apply sumZ_map_ext_in. intros p Hp. apply in_spairs in Hp as [Hp1 Hp2].
    apply Hrow in Hp1. apply Hrow in Hp2.
    destruct (fst (fst p) =? fst (snd p)); [|reflexivity].
    apply sp_pair_count; unfold m in Hdd; lia.
Qed.

(* the behaviour before commit 066359c violates the property: an overlapping pair (gap -2) is
   counted at distance max_distance-2, and a pair exactly max_distance apart raises *)
Lemma spacing_v0_refuted_overlap : exists c, spec_ok c (model_v0 c) = false.
Proof. exists (CSpacing [(0, (0, 0, 5)); (0, (1, 3, 8))] 10 true None). vm_compute. reflexivity. Qed.

Lemma spacing_v0_refuted_boundary : exists c, spec_ok c (model_v0 c) = false.
Proof. exists (CSpacing [(0, (0, 0, 5)); (0, (1, 15, 18))] 10 true None). vm_compute. reflexivity. Qed.

(* a uint8 table before commit dc1e643: the gap -2 of two overlapping spans wraps to 254 and
   is counted when max_distance = 255 *)
Lemma spacing_u8_refuted_lemma : exists c, spec_ok c (model_u8 c) = false.
Proof. exists (CSpacing [(0, (0, 0, 5)); (0, (1, 3, 8))] 255 true None). vm_compute. reflexivity. Qed.

(* ================================================================================= *)
(* F. k-mers: the positional code is a bijection                                       *)
(* ================================================================================= *)

(* what the convolution computes on a window of letters: sum_j w_j n^j *)
Fixpoint code (n : Z) (w : list Z) : Z :=
  match w with
  | [] => 0
  | c :: r => c + n * code n r
  end.

Definition letters (n : Z) (w : list Z) : Prop := Forall (fun c => 0 <= c < n) w.

Lemma kmer_of_length n k : forall j, length (kmer_of n k j) = k.
Proof. induction k as [|k IH]; intros j; cbn [kmer_of length]; [reflexivity|]. rewrite IH. reflexivity. Qed.

Lemma kmer_of_letters n k : 0 < n -> forall j, letters n (kmer_of n k j).
Proof.
  intros Hn. induction k as [|k IH]; intros j; cbn [kmer_of]; constructor; [|apply IH].
  apply Z.mod_pos_bound. exact Hn.
Qed.

Lemma code_kmer_of n k : 0 < n -> forall j, 0 <= j < n ^ Z.of_nat k -> code n (kmer_of n k j) = j.
Proof.
  intros Hn. induction k as [|k IH]; intros j Hj; cbn [kmer_of code].
  - cbn in Hj. lia.
  - rewrite Nat2Z.inj_succ, Z.pow_succ_r in Hj by lia.
    rewrite IH.
    + rewrite (Z.div_mod j n) at 3 by lia. lia.
    + split; [apply Z.div_pos; lia|]. apply Z.div_lt_upper_bound; lia.
Qed.

Lemma code_range n w : 0 < n -> letters n w -> 0 <= code n w < n ^ Z.of_nat (length w).
Proof.
  intros Hn. induction 1 as [|c r Hc Hr IH]; cbn [code length]; [cbn; lia|].
  rewrite Nat2Z.inj_succ, Z.pow_succ_r by lia.
  assert (0 <= n * code n r) by (apply Z.mul_nonneg_nonneg; lia).
  assert (n * (code n r + 1) <= n * n ^ Z.of_nat (length r)) by (apply Z.mul_le_mono_nonneg_l; lia).
  lia.
Qed.

Lemma kmer_of_code n w : 0 < n -> letters n w -> kmer_of n (length w) (code n w) = w.
Proof.
  intros Hn. induction 1 as [|c r Hc Hr IH]; cbn [code length kmer_of]; [reflexivity|].
  f_equal.
  - symmetry. apply Z.mod_unique_pos with (q := code n r); lia.
  - replace ((c + n * code n r) / n) with (code n r); [exact IH|].
    apply Z.div_unique_pos with (r := c); lia.
Qed.

(* w |-> sum_j w_j n^j is a bijection from the words of length k over [0,n) onto [0, n^k),
   with inverse kmer_of *)
Theorem kmer_code_bijective_lemma (n : Z) (k : nat) : 0 < n ->
  (forall w, length w = k -> letters n w ->
     0 <= code n w < n ^ Z.of_nat k /\ kmer_of n k (code n w) = w) /\
  (forall j, 0 <= j < n ^ Z.of_nat k ->
     length (kmer_of n k j) = k /\ letters n (kmer_of n k j) /\ code n (kmer_of n k j) = j).
Proof.
  intros Hn. split.
  - intros w <- Hw. split; [apply code_range|apply kmer_of_code]; assumption.
  - intros j Hj. split; [apply kmer_of_length|]. split; [apply kmer_of_letters|apply code_kmer_of]; assumption.
Qed.

(* ---------- windows ---------- *)

Lemma skipn_nth_cons {A} (d : A) l : forall p, (p < length l)%nat ->
  skipn p l = nth p l d :: skipn (S p) l.
Proof.
  induction l as [|x xs IH]; intros [|p] H; cbn [length] in H; try lia; [reflexivity|].
  cbn [skipn nth]. rewrite IH by lia. reflexivity.
Qed.

Lemma window_map_nth {A} (d : A) l k : forall p, (p + k <= length l)%nat ->
  firstn k (skipn p l) = map (fun j => nth (p + j) l d) (seq 0 k).
Proof.
  induction k as [|k IH]; intros p H; [reflexivity|].
  rewrite (skipn_nth_cons d) by lia. cbn [firstn seq map]. rewrite Nat.add_0_r. f_equal.
  rewrite IH by lia. rewrite <- seq_shift, map_map. apply map_ext. intros j.
  f_equal. lia.
Qed.

Lemma sumZ_map_scale {A} (c : Z) (f : A -> Z) l : sumZ (map (fun x => c * f x) l) = c * sumZ (map f l).
Proof. unfold sumZ. induction l as [|x xs IH]; cbn [map fold_right]; lia. Qed.

Lemma code_map_seq n (x : nat -> Z) k : forall s,
  code n (map x (seq s k)) = sumZ (map (fun j => x (s + j)%nat * n ^ Z.of_nat j) (seq 0 k)).
Proof.
  induction k as [|k IH]; intros s; [reflexivity|].
  cbn [seq map code]. rewrite IH. rewrite <- seq_shift, map_map.
  cbn [sumZ fold_right]. fold (sumZ (map (fun j => x (s + S j)%nat * n ^ Z.of_nat (S j)) (seq 0 k))).
  rewrite <- sumZ_map_scale. rewrite Nat.add_0_r. change (n ^ Z.of_nat 0) with 1.
  f_equal; [lia|]. apply sumZ_map_ext_in. intros j _.
  rewrite Nat2Z.inj_succ, Z.pow_succ_r by lia. replace (S s + j)%nat with (s + S j)%nat by lia. lia.
Qed.

(* ---------- one-hot columns ---------- *)

Definition bits (c : col) : Prop := Forall (fun v => v = 0 \/ v = 1) c.

Lemma dot_zero (c : col) : bits c -> col_sum c = 0 -> forall g : nat -> Z,
  sumZ (map (fun i => nth i c 0 * g i) (seq 0 (length c))) = 0.
Proof.
  induction 1 as [|v r Hv Hr IH]; intros Hs g; [reflexivity|].
  assert (Hnn : 0 <= col_sum r).
  { clear -Hr. induction Hr as [|v r Hv _ IH]; cbn; [lia|]. unfold col_sum in IH. lia. }
  cbn [col_sum fold_right] in Hs. fold (col_sum r) in Hs.
  cbn [length seq map sumZ fold_right nth]. rewrite <- seq_shift, map_map.
  cbn [nth]. fold (sumZ (map (fun i => nth i r 0 * g (S i)) (seq 0 (length r)))).
  rewrite (IH ltac:(lia) (fun i => g (S i))). lia.
Qed.

Lemma dot_onehot (c : col) : bits c -> col_sum c = 1 -> forall g : nat -> Z,
  sumZ (map (fun i => nth i c 0 * g i) (seq 0 (length c))) = g (Z.to_nat (decode c))
  /\ 0 <= decode c < Z.of_nat (length c).
Proof.
  induction 1 as [|v r Hv Hr IH]; intros Hs g; [cbn in Hs; lia|].
  cbn [col_sum fold_right] in Hs. fold (col_sum r) in Hs.
  cbn [length seq map sumZ fold_right nth decode]. rewrite <- seq_shift, map_map.
  cbn [nth]. fold (sumZ (map (fun i => nth i r 0 * g (S i)) (seq 0 (length r)))).
  destruct Hv as [-> | ->].
  - destruct (IH ltac:(lia) (fun i => g (S i))) as [E Hd]. rewrite E. cbn [Z.eqb].
    replace (Z.to_nat (1 + decode r)) with (S (Z.to_nat (decode r))) by lia. split; lia.
  - rewrite (dot_zero r Hr ltac:(lia) (fun i => g (S i))). rewrite Z.eqb_refl. cbn [Z.to_nat]. split; lia.
Qed.

Lemma col_valid_facts n c : col_valid n c = true -> length c = n /\ bits c /\ col_sum c = 1.
Proof.
  unfold col_valid. intros H. apply andb_true_iff in H as [H H3]. apply andb_true_iff in H as [H1 H2].
  split; [apply Nat.eqb_eq; exact H1|]. split; [|lia].
  apply Forall_forall. intros v Hv. rewrite forallb_forall in H2. apply H2 in Hv. lia.
Qed.

(* ================================================================================= *)
(* G. kmers                                                                            *)
(* ================================================================================= *)

Lemma Qc_eq_bool_refl x : Qc_eq_bool x x = true.
Proof. unfold Qc_eq_bool. destruct (Qc_eq_dec x x); [reflexivity|contradiction]. Qed.

Lemma nth_repeat_same {A} (d : A) n : forall j, nth j (repeat d n) d = d.
Proof. induction n as [|n IH]; intros [|j]; cbn; auto. Qed.

Lemma combine_map_map {A B C} (f : A -> B) (g : A -> C) l :
  combine (map f l) (map g l) = map (fun x => (f x, g x)) l.
Proof. induction l as [|x xs IH]; cbn [map combine]; [reflexivity|]. rewrite IH. reflexivity. Qed.

Lemma combine_map2 {A B C D} (f : A -> C) (g : B -> D) l1 l2 :
  combine (map f l1) (map g l2) = map (fun p => (f (fst p), g (snd p))) (combine l1 l2).
Proof.
  revert l2; induction l1 as [|x xs IH]; intros [|y ys]; cbn [map combine fst snd]; try reflexivity.
  rewrite IH. reflexivity.
Qed.

Lemma filter_map_comm {A B} (f : B -> bool) (h : A -> B) l :
  filter f (map h l) = map h (filter (fun x => f (h x)) l).
Proof.
  induction l as [|x xs IH]; cbn [map filter]; [reflexivity|]. rewrite IH.
  destruct (f (h x)); reflexivity.
Qed.

Lemma mapM_map {A B C} (f : B -> res C) (h : A -> B) l : mapM f (map h l) = mapM (fun x => f (h x)) l.
Proof. induction l as [|x xs IH]; cbn [map mapM]; [reflexivity|]. rewrite IH. reflexivity. Qed.

Lemma mapM_Forall2 {A B} (f : A -> res B) (R : A -> B -> Prop) l :
  (forall x, In x l -> exists y, f x = Ok y /\ R x y) ->
  exists ys, mapM f l = Ok ys /\ Forall2 R l ys.
Proof.
  induction l as [|x xs IH]; intros H.
  - exists []. split; [reflexivity|constructor].
  - destruct (H x (in_eq _ _)) as (y & Hy & Ry).
    destruct IH as (ys & Hys & Rys); [intros; apply H; apply in_cons; assumption|].
    exists (y :: ys). split; [|constructor; assumption].
    cbn [mapM]. rewrite Hy. cbn [bind]. rewrite Hys. reflexivity.
Qed.

Lemma Forall2_nth {A B} (R : A -> B -> Prop) l ys : Forall2 R l ys ->
  length l = length ys /\ forall b d1 d2, (b < length l)%nat -> R (nth b l d1) (nth b ys d2).
Proof.
  induction 1 as [|x y l ys Hxy _ [IHl IHn]]; split; cbn [length]; try lia.
  intros [|b] d1 d2 Hb; cbn [nth]; [exact Hxy|]. apply IHn. lia.
Qed.

Lemma conv_score_window k s p : (p + k <= length s)%nat ->
  conv_score k s p = qtotal (firstn k (skipn p s)).
Proof.
  intros H. unfold conv_score, qtotal, qsum. rewrite (window_map_nth 0%Qc) by exact H.
  rewrite fold_symmetric.
  - f_equal. apply map_ext. intros j. apply Qcmult_1_r.
  - intros x y z. apply Qcplus_assoc.
  - intros y. apply Qcplus_comm.
Qed.

Section Row.
Variables (n L k : nat) (cols : dna).
Hypothesis Hlen : length cols = L.
Hypothesis Hval : dna_valid n cols = true.
Hypothesis Hk : (1 <= k <= L)%nat.

Lemma col_at p : (p < L)%nat -> col_valid n (nth p cols []) = true.
Proof.
  intros Hp. unfold dna_valid in Hval. rewrite forallb_forall in Hval. apply Hval.
  apply nth_In. lia.
Qed.

Lemma n_pos : 0 < Z.of_nat n.
Proof.
  destruct (col_valid_facts n _ (col_at 0%nat ltac:(lia))) as (Hl & Hb & Hs).
  destruct (dot_onehot _ Hb Hs (fun _ => 0)) as [_ Hd]. lia.
Qed.

Lemma chars_letters : letters (Z.of_nat n) (map decode cols).
Proof.
  apply Forall_forall. intros x Hx. apply in_map_iff in Hx as (c & <- & Hc).
  unfold dna_valid in Hval. rewrite forallb_forall in Hval. apply Hval in Hc.
  destruct (col_valid_facts n c Hc) as (Hl & Hb & Hs).
  destruct (dot_onehot c Hb Hs (fun _ => 0)) as [_ Hd]. lia.
Qed.

Lemma window_letters p : (p + k <= L)%nat ->
  letters (Z.of_nat n) (firstn k (skipn p (map decode cols))) /\
  length (firstn k (skipn p (map decode cols))) = k.
Proof.
  intros Hp. rewrite (window_map_nth 0) by (rewrite map_length; lia). split.
  - apply Forall_forall. intros x Hx. apply in_map_iff in Hx as (j & <- & Hj). apply in_seq in Hj.
    pose proof chars_letters as Hc. unfold letters in Hc. rewrite Forall_forall in Hc. apply Hc.
    apply nth_In. rewrite map_length. lia.
  - rewrite map_length, seq_length. reflexivity.
Qed.

Lemma conv_code_eq p : (p + k <= L)%nat ->
  conv_code n k cols p = code (Z.of_nat n) (firstn k (skipn p (map decode cols))).
Proof.
  intros Hp. rewrite (window_map_nth 0) by (rewrite map_length; lia).
  rewrite code_map_seq. unfold conv_code. apply sumZ_map_ext_in. intros j Hj. apply in_seq in Hj.
  cbn [plus].
  destruct (col_valid_facts n _ (col_at (p + j)%nat ltac:(lia))) as (Hl & Hb & Hs).
  destruct (dot_onehot _ Hb Hs (fun c => Z.of_nat c * Z.of_nat n ^ Z.of_nat j)) as [E Hd].
  rewrite Hl in E. rewrite E.
  replace (nth (p + j) (map decode cols) 0) with (decode (nth (p + j) cols []))
    by (symmetry; apply (map_nth decode cols [] (p + j))).
  rewrite Z2Nat.id by lia. reflexivity.
Qed.

Lemma conv_code_range p : (p + k <= L)%nat -> 0 <= conv_code n k cols p < Z.of_nat (n ^ k).
Proof.
  intros Hp. rewrite conv_code_eq by exact Hp.
  destruct (window_letters p Hp) as [Hw Hl].
  pose proof (code_range (Z.of_nat n) _ n_pos Hw) as H. rewrite Hl in H.
  rewrite Nat2Z.inj_pow. exact H.
Qed.

Lemma conv_code_match p j : (p + k <= L)%nat -> (j < n ^ k)%nat ->
  (conv_code n k cols p =? Z.of_nat j)
  = occurs (map decode cols) k (kmer_of (Z.of_nat n) k (Z.of_nat j)) p.
Proof.
  intros Hp Hj. unfold occurs. rewrite conv_code_eq by exact Hp.
  destruct (window_letters p Hp) as [Hw Hl].
  set (w := firstn k (skipn p (map decode cols))) in *.
  assert (HZ : forall x y : Z, (x =? y) = true <-> x = y) by (intros; apply Z.eqb_eq).
  pose proof (list_eqb_spec Z.eqb HZ w (kmer_of (Z.of_nat n) k (Z.of_nat j))) as Hspec.
  assert (Hjr : 0 <= Z.of_nat j < Z.of_nat n ^ Z.of_nat k) by (rewrite <- Nat2Z.inj_pow; lia).
  destruct (Z.eqb_spec (code (Z.of_nat n) w) (Z.of_nat j)) as [E|E];
    destruct (list_eqb Z.eqb w (kmer_of (Z.of_nat n) k (Z.of_nat j))) eqn:El; try reflexivity.
  - assert (w = kmer_of (Z.of_nat n) k (Z.of_nat j)).
    { rewrite <- E, <- Hl. symmetry. apply kmer_of_code; [apply n_pos|exact Hw]. }
    apply Hspec in H. congruence.
  - exfalso. apply E. destruct Hspec as [Hs _]. rewrite (Hs eq_refl).
    apply code_kmer_of; [apply n_pos|exact Hjr].
Qed.

Lemma row_counts :
  exists y, scatter_add Z.add (repeat 0 (n ^ k)%nat)
              (map (conv_code n k cols) (seq 0 (L - k + 1))) (repeat 1 (L - k + 1)) = Ok y /\
    vec_ok (n ^ k)
      (fun j => countb (occurs (map decode cols) k (kmer_of (Z.of_nat n) k (Z.of_nat j)))
                       (seq 0 (L - k + 1))) y = true.
Proof.
  destruct (scatter_ones (n ^ k) (map (conv_code n k cols) (seq 0 (L - k + 1))) (L - k + 1))
    as (y & Hy & Hl & Hn).
  - rewrite map_length, seq_length. lia.
  - intros i Hi. apply in_map_iff in Hi as (p & <- & Hp). apply in_seq in Hp.
    apply conv_code_range. lia.
  - exists y. split; [exact Hy|]. apply vec_ok_intro; [exact Hl|].
    intros j Hj. rewrite Hn by exact Hj. rewrite countb_map. apply countb_ext_in.
    intros p Hp. apply in_seq in Hp. apply conv_code_match; lia.
Qed.

Lemma row_scores (s : list Qc) : length s = L ->
  exists y, scatter_add Qcplus (repeat 0%Qc (n ^ k)%nat)
              (map (conv_code n k cols) (seq 0 (L - k + 1)))
              (map (conv_score k s) (seq 0 (L - k + 1))) = Ok y /\
    qvec_ok (n ^ k)
      (fun j => qtotal (map (fun p => qtotal (firstn k (skipn p s)))
                            (filter (occurs (map decode cols) k (kmer_of (Z.of_nat n) k (Z.of_nat j)))
                                    (seq 0 (L - k + 1))))) y = true.
Proof.
  intros Hs. unfold scatter_add. rewrite !map_length, Nat.leb_refl. cbn [guard bind].
  rewrite (mapM_ok _ Z.to_nat).
  2:{ intros i Hi. apply in_map_iff in Hi as (p & <- & Hp). apply in_seq in Hp.
      pose proof (conv_code_range p ltac:(lia)) as Hr. unfold tidx. rewrite repeat_length.
      destruct (Z.leb_spec 0 (conv_code n k cols p)); [|lia].
      destruct (Z.ltb_spec (conv_code n k cols p) (Z.of_nat (n ^ k))); [|lia]. reflexivity. }
  cbn [bind]. eexists. split; [reflexivity|].
  unfold qvec_ok. rewrite length_accum, repeat_length, Nat.eqb_refl. cbn [andb].
  apply forallb_seq. intros j Hj.
  rewrite nth_accum by (rewrite repeat_length; exact Hj). rewrite nth_repeat_same.
  rewrite map_map, combine_map_map, filter_map_comm, map_map. cbn [fst snd].
  unfold qtotal at 1.
  replace (filter (fun x => (Z.to_nat (conv_code n k cols x) =? j)%nat) (seq 0 (L - k + 1)))
    with (filter (occurs (map decode cols) k (kmer_of (Z.of_nat n) k (Z.of_nat j))) (seq 0 (L - k + 1))).
  2:{ apply filter_ext_in. intros p Hp. apply in_seq in Hp.
      pose proof (conv_code_range p ltac:(lia)) as Hr.
      rewrite to_nat_eqb by lia. symmetry. apply conv_code_match; lia. }
  replace (map (fun x => conv_score k s x)
             (filter (occurs (map decode cols) k (kmer_of (Z.of_nat n) k (Z.of_nat j))) (seq 0 (L - k + 1))))
    with (map (fun p => qtotal (firstn k (skipn p s)))
             (filter (occurs (map decode cols) k (kmer_of (Z.of_nat n) k (Z.of_nat j))) (seq 0 (L - k + 1)))).
  2:{ apply map_ext_in. intros p Hp. apply filter_In in Hp as [Hp _]. apply in_seq in Hp.
      symmetry. apply conv_score_window. lia. }
  apply Qc_eq_bool_refl.
Qed.
End Row.

Lemma seqs_facts n L X : seqs_ok n L X = true ->
  forallb (fun s => (length s =? L)%nat && forallb (fun c => (length c =? n)%nat) s) X = true /\
  forall cols, In cols X -> length cols = L /\ dna_valid n cols = true.
Proof.
  unfold seqs_ok, cols_valid. intros H. apply andb_true_iff in H as [H1 H2].
  rewrite forallb_forall in H1, H2.
  assert (Hc : forall cols, In cols X -> length cols = L /\ dna_valid n cols = true).
  { intros cols Hc. split; [apply Nat.eqb_eq; apply H1; exact Hc|apply H2; exact Hc]. }
  split; [|exact Hc]. apply forallb_forall. intros s Hs. destruct (Hc s Hs) as [Hl Hv].
  rewrite Hl, Nat.eqb_refl. cbn [andb]. apply forallb_forall. intros c Hcin.
  unfold dna_valid in Hv. rewrite forallb_forall in Hv. apply Hv in Hcin.
  apply col_valid_facts in Hcin as (Hlc & _). rewrite Hlc. apply Nat.eqb_refl.
Qed.

Theorem kmers_spec n L X k scores :
  spec_ok (CKmers n L X k scores) (kmers n L X k scores) = true.
Proof.
  unfold spec_ok.
  destruct (seqs_ok n L X && (1 <=? k)%nat && (k <=? L)%nat) eqn:Hs; [|reflexivity].
  apply andb_true_iff in Hs as [Hs Hk2]. apply andb_true_iff in Hs as [Hs Hk1].
  apply seqs_facts in Hs as [Hg Hcols].
  assert (Hk : (1 <= k <= L)%nat) by lia.
  unfold kmers. rewrite Hg. cbn [guard bind]. rewrite Hk1, Hk2. cbn [andb guard bind].
  destruct scores as [SC|].
  - destruct (all2b (fun _ s => (length s =? L)%nat) X SC) eqn:Ha; cbn [guard bind negb]; [|reflexivity].
    unfold all2b in Ha. apply andb_true_iff in Ha as [HlenSC Hall].
    apply Nat.eqb_eq in HlenSC. rewrite forallb_forall in Hall.
    rewrite combine_map2, mapM_map. cbn [fst snd].
    destruct (mapM_Forall2
      (fun x : dna * list Qc =>
         scatter_add Qcplus (repeat 0%Qc (n ^ k)%nat)
           (map (conv_code n k (fst x)) (seq 0 (L - k + 1)))
           (map (conv_score k (snd x)) (seq 0 (L - k + 1))))
      (fun x y => qvec_ok (n ^ k)
         (fun j => qtotal (map (fun p => qtotal (firstn k (skipn p (snd x))))
                    (filter (occurs (map decode (fst x)) k (kmer_of (Z.of_nat n) k (Z.of_nat j)))
                            (seq 0 (L - k + 1))))) y = true)
      (combine X SC)) as (rows & Hrows & HR).
    { intros [cols s] Hin. cbn [fst snd].
      pose proof (Hall _ Hin) as Hls. cbn [fst snd] in Hls. apply Nat.eqb_eq in Hls.
      apply in_combine_l in Hin. destruct (Hcols cols Hin) as [Hl Hv].
      apply row_scores; assumption. }
    rewrite Hrows. cbn [bind].
    apply Forall2_nth in HR as [HRl HRn]. rewrite combine_length, <- HlenSC, Nat.min_id in HRl, HRn.
    unfold qmat_ok. rewrite <- HRl, Nat.eqb_refl. cbn [andb].
    apply forallb_seq. intros b Hb.
    specialize (HRn b ([], []) [] Hb). rewrite combine_nth in HRn by exact HlenSC.
    cbn [fst snd] in HRn. exact HRn.
  - rewrite mapM_map.
    destruct (mapM_Forall2
      (fun cols : dna =>
         scatter_add Z.add (repeat 0 (n ^ k)%nat)
           (map (conv_code n k cols) (seq 0 (L - k + 1))) (repeat 1 (L - k + 1)))
      (fun cols y => vec_ok (n ^ k)
         (fun j => countb (occurs (map decode cols) k (kmer_of (Z.of_nat n) k (Z.of_nat j)))
                          (seq 0 (L - k + 1))) y = true)
      X) as (rows & Hrows & HR).
    { intros cols Hin. destruct (Hcols cols Hin) as [Hl Hv]. apply row_counts; assumption. }
    rewrite Hrows. cbn [bind].
    apply Forall2_nth in HR as [HRl HRn].
    unfold mat_ok. rewrite <- HRl, Nat.eqb_refl. cbn [andb].
    apply forallb_seq. intros b Hb. apply (HRn b [] [] Hb).
Qed.

(* every call *)
Theorem c18_all c : spec_ok c (model c) = true.
Proof.
  destruct c; cbn [model].
  - apply count_spec.
  - apply pairwise_spec.
  - apply spacing_spec.
  - apply kmers_spec.
Qed.
