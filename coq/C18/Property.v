(* C18 - property theorems only.  Each is closed by [exact] of a lemma from Proofs.v. *)
From TM Require Import Base.Prelude Base.OneHot C18.Model C18.Spec C18.Lib C18.Proofs.
From Coq Require Import QArith Qcanon.
Open Scope Z_scope.

(* count_annotations, for every table, explicit shape and dim: with a non-empty table of
   non-negative entries and a shape that can hold it, the call returns; entry (e, a) of the
   matrix is the number of rows equal to (e, a); dim=0 / dim=1 return the column / row sums of
   that matrix; the axes have exactly the explicit sizes (or, without a shape, at least
   largest index + 1) *)
Theorem c18_count_spec : forall X shape dim,
  spec_ok (CCount X shape dim) (model (CCount X shape dim)) = true.
Proof. exact count_spec. Qed.
Print Assumptions c18_count_spec.

(* pairwise_annotations (symmetric): entry (a, b) is the number of index pairs i<j of rows in the
   same example whose annotations are {a, b} - symmetric by construction, a pair with a = b
   counted once *)
Theorem c18_pairwise_spec : forall X sym shape,
  spec_ok (CPair X sym shape) (model (CPair X sym shape)) = true.
Proof. exact pairwise_spec. Qed.
Print Assumptions c18_pairwise_spec.

(* pairwise_annotations_spacing (symmetric, spans non-empty, any max_distance >= 0): the call
   returns (never raises) and entry (a, b, d), 0 <= d < max_distance, is the number of such pairs
   that do not overlap and whose gap from the end of the left span to the start of the right
   one is d; overlapping pairs and pairs at max_distance or beyond are in no cell *)
Theorem c18_spacing_spec : forall X maxd sym shape,
  spec_ok (CSpacing X maxd sym shape) (model (CSpacing X maxd sym shape)) = true.
Proof. exact spacing_spec. Qed.
Print Assumptions c18_spacing_spec.

(* kmers, for every alphabet size, batch, length, 1 <= k <= L, one-hot input: entry j of row b is
   the number of positions where the j-th k-mer occurs - with scores, the sum over those
   occurrences of the scores of the k covered positions *)
Theorem c18_kmers_spec : forall n L X k scores,
  spec_ok (CKmers n L X k scores) (model (CKmers n L X k scores)) = true.
Proof. exact kmers_spec. Qed.
Print Assumptions c18_kmers_spec.

Theorem c18_all : forall c, spec_ok c (model c) = true.
Proof. exact Proofs.c18_all. Qed.
Print Assumptions c18_all.

(* "the j-th k-mer" is well defined: the positional code sum_j w_j n^j the implementation
   computes is a bijection from [0,n)^k onto [0, n^k), inverted by Spec.kmer_of *)
Theorem kmer_code_bijective : forall (n : Z) (k : nat), 0 < n ->
  (forall w, length w = k -> letters n w ->
     0 <= code n w < n ^ Z.of_nat k /\ kmer_of n k (code n w) = w) /\
  (forall j, 0 <= j < n ^ Z.of_nat k ->
     length (kmer_of n k j) = k /\ letters n (kmer_of n k j) /\ code n (kmer_of n k j) = j).
Proof. exact kmer_code_bijective_lemma. Qed.
Print Assumptions kmer_code_bijective.

(* the pre-fix behaviour (guard "d > max_distance" only) violates the property *)
Theorem spacing_v0_refuted : exists c, spec_ok c (model_v0 c) = false.
Proof. exact spacing_v0_refuted_overlap. Qed.
Theorem spacing_v0_refuted_at_max_distance : exists c, spec_ok c (model_v0 c) = false.
Proof. exact spacing_v0_refuted_boundary. Qed.

(* a uint8 table before commit dc1e643 (distance arithmetic in the table's dtype) *)
Theorem spacing_u8_refuted : exists c, spec_ok c (model_u8 c) = false.
Proof. exact spacing_u8_refuted_lemma. Qed.

(* the spec is not vacuous: in-scope calls exist, and on them a wrong count, a missing cell or a
   raise is rejected *)
Example spec_rejects_wrapped_overlap :
  spec_ok (CSpacing [(0, (0, 0, 5)); (0, (1, 3, 8))] 3 true None)
          (Ok (T3 [[[0; 0; 0]; [0; 1; 0]]; [[0; 1; 0]; [0; 0; 0]]])) = false
  /\ spec_ok (CSpacing [(0, (0, 0, 5)); (0, (1, 3, 8))] 3 true None) Err = false
  /\ spec_ok (CSpacing [(0, (0, 0, 5)); (0, (1, 3, 8))] 3 true None)
             (Ok (T3 [[[0; 0; 0]; [0; 0; 0]]; [[0; 0; 0]; [0; 0; 0]]])) = true.
Proof. vm_compute. repeat split. Qed.

Example spec_rejects_wrong_counts :
  spec_ok (CCount [(0, 1); (2, 1); (0, 1)] None DNone) (Ok (T2 [[0; 1]; [0; 0]; [0; 1]])) = false
  /\ spec_ok (CPair [(0, 1); (0, 1); (0, 2)] true None) (Ok (T2 [[0; 0; 0]; [0; 2; 2]; [0; 2; 0]])) = false
  /\ spec_ok (CKmers 2 3 [[[1; 0]; [0; 1]; [0; 1]]] 2 None) (Ok (T2 [[0; 1; 0; 1]])) = false
  /\ spec_ok (CKmers 2 3 [[[1; 0]; [0; 1]; [0; 1]]] 2 None) (Ok (T2 [[0; 0; 1; 1]])) = true.
Proof. vm_compute. repeat split. Qed.
