(* C18 library: generic facts about counting, sums of indicators, buffers (upd/accum/scatter_add)
   and reshape, used by C18/Proofs.v. *)
From TM Require Import Base.Prelude Base.OneHot Base.PyList C18.Model C18.Spec.
From Coq Require Import QArith Qcanon Sorting.Sorted.
Open Scope Z_scope.

(* ================================================================================= *)
(* A. generic list facts                                                               *)
(* ================================================================================= *)

Lemma forallb_seq (f : nat -> bool) n :
  forallb f (seq 0 n) = true <-> (forall q, (q < n)%nat -> f q = true).
Proof.
  rewrite forallb_forall. split; intros H q Hq.
  - apply H. apply in_seq. lia.
  - apply in_seq in Hq. apply H. lia.
Qed.

Lemma countb_cons {A} (f : A -> bool) x l :
  countb f (x :: l) = (if f x then 1 else 0) + countb f l.
Proof. unfold countb. cbn [filter]. destruct (f x); cbn [length]; lia. Qed.

Lemma countb_nil {A} (f : A -> bool) : countb f [] = 0.
Proof. reflexivity. Qed.

Lemma countb_ext_in {A} (f g : A -> bool) l :
  (forall x, In x l -> f x = g x) -> countb f l = countb g l.
Proof.
  induction l as [|x xs IH]; intros H; [reflexivity|].
  rewrite !countb_cons, IH, (H x); auto using in_eq, in_cons.
Qed.

Lemma countb_map {A B} (f : B -> bool) (g : A -> B) l :
  countb f (map g l) = countb (fun x => f (g x)) l.
Proof.
  induction l as [|x xs IH]; [reflexivity|]. cbn [map]. rewrite !countb_cons, IH. reflexivity.
Qed.

Lemma countb_app {A} (f : A -> bool) l1 l2 : countb f (l1 ++ l2) = countb f l1 + countb f l2.
Proof.
  induction l1 as [|x xs IH]; [reflexivity|]. cbn [app]. rewrite !countb_cons, IH. lia.
Qed.

Lemma sumZ_app l1 l2 : sumZ (l1 ++ l2) = sumZ l1 + sumZ l2.
Proof. unfold sumZ. induction l1 as [|x xs IH]; cbn [app fold_right]; lia. Qed.

Lemma sumZ_map_add {A} (f g : A -> Z) l :
  sumZ (map (fun x => f x + g x) l) = sumZ (map f l) + sumZ (map g l).
Proof. unfold sumZ. induction l as [|x xs IH]; cbn [map fold_right]; lia. Qed.

Lemma sumZ_map_ext_in {A} (f g : A -> Z) l :
  (forall x, In x l -> f x = g x) -> sumZ (map f l) = sumZ (map g l).
Proof. intros H. f_equal. apply map_ext_in. exact H. Qed.

Lemma sumZ_map_zero {A} (l : list A) : sumZ (map (fun _ => 0) l) = 0.
Proof. unfold sumZ. induction l; cbn [map fold_right]; lia. Qed.

Lemma countb_sum {A} (f : A -> bool) l : countb f l = sumZ (map (fun x => if f x then 1 else 0) l).
Proof.
  induction l as [|x xs IH]; [reflexivity|]. rewrite countb_cons, IH. reflexivity.
Qed.

Lemma countb_flat_map {A B} (f : B -> bool) (g : A -> list B) l :
  countb f (flat_map g l) = sumZ (map (fun x => countb f (g x)) l).
Proof.
  induction l as [|x xs IH]; [reflexivity|]. cbn [flat_map map sumZ fold_right].
  rewrite countb_app, IH. reflexivity.
Qed.

Lemma countb_filter {A} (f s : A -> bool) l :
  countb f (filter s l) = sumZ (map (fun x => if s x then (if f x then 1 else 0) else 0) l).
Proof.
  induction l as [|x xs IH]; [reflexivity|]. cbn [filter map sumZ fold_right].
  destruct (s x); [rewrite countb_cons|]; rewrite IH; reflexivity.
Qed.

(* the sum over e < n of an indicator of "u = e and v = e" *)
Lemma indicator_sum (u v c : Z) n : 0 <= u < Z.of_nat n ->
  sumZ (map (fun e => if (u =? Z.of_nat e) && (v =? Z.of_nat e) then c else 0) (seq 0 n))
  = if u =? v then c else 0.
Proof.
  induction n as [|n IH]; intros Hu; [lia|].
  rewrite seq_S, map_app, sumZ_app. cbn [map sumZ fold_right plus].
  destruct (Z.eq_dec u (Z.of_nat n)) as [E|E].
  - assert (Hz : sumZ (map (fun e => if (u =? Z.of_nat e) && (v =? Z.of_nat e) then c else 0)
                           (seq 0 n)) = 0).
    { etransitivity; [|apply (sumZ_map_zero (seq 0 n))]. apply sumZ_map_ext_in. intros e He.
      apply in_seq in He. destruct (u =? Z.of_nat e) eqn:E1; [lia|reflexivity]. }
    rewrite Hz. subst u. rewrite Z.eqb_refl. cbn [andb].
    rewrite (Z.eqb_sym (Z.of_nat n) v). destruct (v =? Z.of_nat n); lia.
  - rewrite IH by lia. destruct (u =? Z.of_nat n) eqn:E1; [lia|]. cbn [andb]. lia.
Qed.

Lemma indicator_sum1 (u c : Z) n : 0 <= u < Z.of_nat n ->
  sumZ (map (fun e => if u =? Z.of_nat e then c else 0) (seq 0 n)) = c.
Proof.
  intros Hu.
  transitivity (sumZ (map (fun e => if (u =? Z.of_nat e) && (u =? Z.of_nat e) then c else 0)
                          (seq 0 n))).
  - apply sumZ_map_ext_in. intros e _. destruct (u =? Z.of_nat e); reflexivity.
  - rewrite indicator_sum by exact Hu. rewrite Z.eqb_refl. reflexivity.
Qed.

(* mapM of a function that succeeds everywhere *)
Lemma mapM_ok {A B} (f : A -> res B) (g : A -> B) l :
  (forall x, In x l -> f x = Ok (g x)) -> mapM f l = Ok (map g l).
Proof.
  induction l as [|x xs IH]; intros H; [reflexivity|].
  cbn [mapM map]. rewrite (H x) by apply in_eq. cbn [bind].
  rewrite IH by (intros; apply H; apply in_cons; assumption). reflexivity.
Qed.

(* ---------- buffers ---------- *)

Lemma length_upd {A} (l : list A) i f : length (upd l i f) = length l.
Proof. revert i; induction l as [|x xs IH]; intros [|i]; cbn; auto. Qed.

Lemma nth_upd {A} (l : list A) i f j d :
  nth j (upd l i f) d = if (i =? j)%nat && (i <? length l)%nat then f (nth j l d) else nth j l d.
Proof.
  revert i j; induction l as [|x xs IH]; intros i j.
  - destruct i, j; cbn; rewrite ?andb_false_r; reflexivity.
  - destruct i, j; cbn [upd nth length]; try reflexivity.
    rewrite IH. reflexivity.
Qed.

Lemma length_accum {A} (add : A -> A -> A) evs : forall y, length (accum add y evs) = length y.
Proof.
  induction evs as [|[i w] r IH]; intros y; cbn [accum]; [reflexivity|].
  rewrite IH, length_upd. reflexivity.
Qed.

Lemma nth_accum {A} (add : A -> A -> A) evs : forall y j d, (j < length y)%nat ->
  nth j (accum add y evs) d
  = fold_left add (map snd (filter (fun ev => (fst ev =? j)%nat) evs)) (nth j y d).
Proof.
  induction evs as [|[i w] r IH]; intros y j d Hj; cbn [accum filter fst]; [reflexivity|].
  rewrite IH by (rewrite length_upd; exact Hj). rewrite nth_upd.
  destruct (Nat.eqb_spec i j) as [->|Hij]; cbn [andb map snd fold_left].
  - destruct (Nat.ltb_spec j (length y)); [reflexivity|lia].
  - reflexivity.
Qed.

Lemma nth_accum_ones offs : forall y j, (j < length y)%nat ->
  nth j (accum Z.add y (map (fun o => (o, 1)) offs)) 0
  = nth j y 0 + countb (fun o => (o =? j)%nat) offs.
Proof.
  induction offs as [|i r IH]; intros y j Hj; cbn [map accum].
  - rewrite countb_nil. lia.
  - rewrite IH by (rewrite length_upd; exact Hj). rewrite nth_upd, countb_cons.
    destruct (Nat.eqb_spec i j) as [->|Hij]; cbn [andb].
    + destruct (Nat.ltb_spec j (length y)); lia.
    + lia.
Qed.

Lemma nth_repeat0 n j : nth j (repeat 0 n) 0 = 0.
Proof. revert j; induction n as [|n IH]; intros [|j]; cbn; auto. Qed.

Lemma combine_repeat {A} (offs : list nat) (w : A) m : (length offs <= m)%nat ->
  combine offs (repeat w m) = map (fun o => (o, w)) offs.
Proof.
  revert m; induction offs as [|o r IH]; intros m H; [reflexivity|].
  destruct m; cbn in *; [lia|]. rewrite IH by lia. reflexivity.
Qed.

(* scatter_add_ of ones into zeros: every index accepted, cell j counts the indices equal to j *)
Lemma scatter_ones n idx m : (length idx <= m)%nat ->
  (forall i, In i idx -> 0 <= i < Z.of_nat n) ->
  exists y, scatter_add Z.add (repeat 0 n) idx (repeat 1 m) = Ok y /\ length y = n /\
    forall j, (j < n)%nat -> nth j y 0 = countb (fun i => i =? Z.of_nat j) idx.
Proof.
  intros Hm Hr. unfold scatter_add. rewrite repeat_length.
  destruct (Nat.leb_spec (length idx) m); [|lia]. cbn [guard bind].
  rewrite (mapM_ok _ Z.to_nat).
  2:{ intros i Hi. apply Hr in Hi. unfold tidx. rewrite repeat_length.
      destruct (Z.leb_spec 0 i); [|lia]. destruct (Z.ltb_spec i (Z.of_nat n)); [|lia]. reflexivity. }
  cbn [bind]. eexists; split; [reflexivity|]. split.
  - rewrite length_accum, repeat_length. reflexivity.
  - intros j Hj. rewrite combine_repeat by (rewrite map_length; exact Hm).
    rewrite nth_accum_ones by (rewrite repeat_length; exact Hj).
    rewrite nth_repeat0, countb_map. cbn. apply countb_ext_in. intros i Hi. apply Hr in Hi.
    destruct (Nat.eqb_spec (Z.to_nat i) j); destruct (Z.eqb_spec i (Z.of_nat j)); lia.
Qed.

(* ---------- reshape ---------- *)

Lemma length_reshape {A} r c (l : list A) : length (reshape r c l) = r.
Proof. revert l; induction r as [|r IH]; intros l; cbn; auto. Qed.

Lemma skipn_add {A} a b (l : list A) : skipn a (skipn b l) = skipn (b + a) l.
Proof.
  revert l; induction b as [|b IH]; intros l; [reflexivity|].
  destruct l as [|x xs]; cbn [skipn plus].
  - destruct a; reflexivity.
  - apply IH.
Qed.

Lemma nth_reshape {A} r c (l : list A) e : (e < r)%nat ->
  nth e (reshape r c l) [] = firstn c (skipn (e * c) l).
Proof.
  revert l e; induction r as [|r IH]; intros l [|e] He; cbn [reshape nth]; try lia.
  - reflexivity.
  - rewrite IH by lia. rewrite skipn_add. reflexivity.
Qed.

Lemma nth_nth_reshape {A} r c (l : list A) e a d : (e < r)%nat -> (a < c)%nat ->
  nth a (nth e (reshape r c l) []) d = nth (e * c + a) l d.
Proof.
  intros He Ha. rewrite nth_reshape by exact He. rewrite nth_firstn by exact Ha.
  apply nth_skipn.
Qed.

Lemma length_nth_reshape {A} r c (l : list A) e : (e < r)%nat -> length l = (r * c)%nat ->
  length (nth e (reshape r c l) []) = c.
Proof.
  intros He Hl. rewrite nth_reshape by exact He. rewrite firstn_length, skipn_length. nia.
Qed.

Lemma vec_ok_intro n f v : length v = n -> (forall i, (i < n)%nat -> nth i v 0 = f i) ->
  vec_ok n f v = true.
Proof.
  intros Hl H. unfold vec_ok. rewrite Hl, Nat.eqb_refl. cbn [andb]. apply forallb_seq.
  intros i Hi. rewrite H by exact Hi. apply Z.eqb_refl.
Qed.

Lemma mat_ok_reshape nr nc f y : length y = (nr * nc)%nat ->
  (forall e a, (e < nr)%nat -> (a < nc)%nat -> nth (e * nc + a) y 0 = f e a) ->
  mat_ok nr nc f (reshape nr nc y) = true.
Proof.
  intros Hl H. unfold mat_ok. rewrite length_reshape, Nat.eqb_refl. cbn [andb].
  apply forallb_seq. intros e He. apply vec_ok_intro.
  - apply length_nth_reshape; assumption.
  - intros a Ha. rewrite nth_nth_reshape by assumption. apply H; assumption.
Qed.

Lemma cube_ok_reshape3 na nb nd f y : length y = (na * nb * nd)%nat ->
  (forall a b d, (a < na)%nat -> (b < nb)%nat -> (d < nd)%nat ->
     nth ((a * nb + b) * nd + d) y 0 = f a b d) ->
  cube_ok na nb nd f (reshape3 na nb nd y) = true.
Proof.
  intros Hl H. unfold cube_ok, reshape3. rewrite map_length, length_reshape, Nat.eqb_refl.
  cbn [andb]. apply forallb_seq. intros a Ha.
  rewrite nth_indep with (d' := reshape nb nd []) by (rewrite map_length, length_reshape; exact Ha).
  rewrite map_nth. rewrite nth_reshape by exact Ha.
  apply mat_ok_reshape.
  - rewrite firstn_length, skipn_length. nia.
  - intros b d Hb Hd. rewrite nth_firstn by nia. rewrite nth_skipn.
    rewrite <- (H a b d Ha Hb Hd). f_equal. nia.
Qed.

(* row-major offsets are injective on in-range coordinates *)
Lemma flat_inj (a b a' b' n : Z) : 0 <= b < n -> 0 <= b' < n -> a * n + b = a' * n + b' ->
  a = a' /\ b = b'.
Proof.
  intros Hb Hb' E.
  assert (a = a').
  { destruct (Z.lt_trichotomy a a') as [H|[H|H]]; [exfalso|exact H|exfalso].
    - assert ((a' - a) * n >= 1 * n) by (apply Zmult_ge_compat_r; lia). lia.
    - assert ((a - a') * n >= 1 * n) by (apply Zmult_ge_compat_r; lia). lia. }
  subst a'. split; [reflexivity|lia].
Qed.
