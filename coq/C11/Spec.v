(* C11 spec: "the p-value of a score bin is the exact probability that a uniformly random
   sequence of the motif's length attains a discretised score of at least that bin", stated
   by explicit enumeration of all A^w sequences, independently of the dynamic programme.

   A second, fast evaluator of the same numbers ([fast_ge], a pull-form convolution) is
   defined here as well; Proofs.v shows it equal to the enumeration, so that the spec can be
   evaluated by vm_compute on motifs of width 30.                                          *)
From TM Require Import Base.Prelude C11.Model.
Open Scope Z_scope.

(* ---- the reference semantics: enumeration ---------------------------------------------- *)

(* all index sequences of length w over an alphabet of A characters *)
Fixpoint all_seqs (A w : nat) : list (list nat) :=
  match w with
  | O => [[]]
  | S w' => flat_map (fun a => map (cons a) (all_seqs A w')) (seq 0 A)
  end.

(* discretised score of a sequence: sum over positions of the integerised entry *)
Fixpoint score (M : imat) (s : list nat) : Z :=
  match M, s with
  | c :: M', a :: s' => nth a c 0 + score M' s'
  | _, _ => 0
  end.

Definition alpha (M : imat) : nat := length (hd [] M).
Definition scores (M : imat) : list Z := map (score M) (all_seqs (alpha M) (length M)).

Definition count_if (p : Z -> bool) (l : list Z) : Z := Z.of_nat (length (filter p l)).
(* number of sequences with score = s, with score >= b *)
Definition count_eq (M : imat) (s : Z) : Z := count_if (fun t => t =? s) (scores M).
Definition count_ge (M : imat) (b : Z) : Z := count_if (fun t => b <=? t) (scores M).

(* lowest / highest attainable score, by enumeration *)
Definition list_min (l : list Z) : Z := fold_right Z.min (hd 0 l) l.
Definition list_max (l : list Z) : Z := fold_right Z.max (hd 0 l) l.
Definition lowest (M : imat) : Z := list_min (scores M).
Definition highest (M : imat) : Z := list_max (scores M).

(* the matrices in the property's scope: at least one column, every column lists the same
   number A >= 1 of characters, entries within the code's +-9999999 sentinels *)
Definition wfb (M : imat) : bool :=
  (0 <? length M)%nat && (0 <? alpha M)%nat &&
  forallb (fun c => (length c =? alpha M)%nat &&
                    forallb (fun d => (- SENT <=? d) && (d <=? SENT)) c) M.

(* ---- what the harness observes ----------------------------------------------------------- *)

(* one table entry x of the implementation, converted exactly:  -inf | NaN (or +inf) |
   the float  2.0 ** x = m * 2^e  *)
Inductive cell := CNegInf | CNaN | CV (m e : Z).
Definition outcome := res (Z * list cell).     (* (smallest, table) or "raised" *)

Definition pow2 (k : Z) : Z := 2 ^ k.

(*  | m * 2^e  -  c | <=  1e-9 * c     (c > 0), in integers *)
Definition close (m e c : Z) : bool :=
  if 0 <=? e then Z.abs (m * pow2 e - c) * 1000000000 <=? c
  else Z.abs (m - c * pow2 (- e)) * 1000000000 <=? c * pow2 (- e).

(* entry [x] is the probability  c / 4^w  to floating-point accuracy; zero is exactly -inf;
   never NaN; (never above 1 follows: c <= 4^w) *)
Definition cell_ok (w : Z) (x : cell) (c : Z) : bool :=
  match x with
  | CNegInf => c =? 0
  | CNaN => false
  | CV m e => (0 <? c) && close m (e + 2 * w) c
  end.

(* x <= y * (1 + 1e-12): non-increasing up to the rounding of the final 2.0 ** x *)
Definition cell_le (x y : cell) : bool :=
  match x, y with
  | CNaN, _ | _, CNaN => false
  | CNegInf, _ => true
  | CV m _, CNegInf => m <=? 0
  | CV m1 e1, CV m2 e2 =>
      let e := Z.min e1 e2 in
      m1 * pow2 (e1 - e) * 1000000000000 <=? m2 * pow2 (e2 - e) * 1000000000001
  end.

Definition dcell : cell := CNaN.

(* the property, for an arbitrary "number of sequences with score >= b" function [cge] and
   lowest / highest attainable scores lo hi *)
Definition spec_gen (cge : Z -> Z) (lo hi : Z) (M : imat) (o : outcome) : bool :=
  if wfb M && (alpha M =? 4)%nat then
    match o with
    | Err => false
    | Ok (sm, t) =>
        let n := length t in
        let w := Z.of_nat (length M) in
        (* every attainable bin has a table entry *)
        (sm <=? lo) && (hi <? sm + Z.of_nat n) &&
        (* each entry is the exact tail probability of its bin: 1 at (and below) the lowest
           attainable score, 0 = -inf exactly above the highest, never NaN, never > 1 *)
        forallb (fun i => cell_ok w (nth i t dcell) (cge (sm + Z.of_nat i))) (seq 0 n) &&
        (* non-increasing in the score *)
        forallb (fun i => cell_le (nth (S i) t dcell) (nth i t dcell)) (seq 0 (n - 1))
    end
  else true.     (* outside the scope of the property (no motif / not DNA) *)

Definition spec_ok (M : imat) (o : outcome) : bool :=
  spec_gen (count_ge M) (lowest M) (highest M) M o.

(* ---- fast evaluation of the same numbers -------------------------------------------------- *)

(* a score distribution: counts of the scores base, base+1, ... *)
Fixpoint padd (a b : list Z) : list Z :=
  match a, b with
  | [], _ => b
  | _, [] => a
  | x :: xs, y :: ys => x + y :: padd xs ys
  end.

Definition sum_min (M : imat) : Z := fold_right (fun c a => cmin c + a) 0 M.
Definition sum_max (M : imat) : Z := fold_right (fun c a => cmax c + a) 0 M.

(* distribution of  d + (score of the rest), d ranging over column c: shift and add *)
Definition conv_col (c : list Z) (l : list Z) : list Z :=
  fold_right (fun d acc => padd (repeat 0 (Z.to_nat (d - cmin c)) ++ l) acc) [] c.

(* counts of the scores  sum_min M, sum_min M + 1, ...  *)
Fixpoint fast_dist (M : imat) : list Z :=
  match M with
  | [] => [1]
  | c :: M' => conv_col c (fast_dist M')
  end.

Definition getz (l : list Z) (i : Z) : Z := if i <? 0 then 0 else nth (Z.to_nat i) l 0.

(* tail sums of the distribution, computed once *)
Definition fast_tail (M : imat) : list Z := revcum (fast_dist M).
Definition fast_ge_from (tl : list Z) (base b : Z) : Z :=
  if b <=? base then hd 0 tl else getz tl (b - base).
Definition fast_ge (M : imat) (b : Z) : Z := fast_ge_from (fast_tail M) (sum_min M) b.

Definition spec_ok_fast (M : imat) (o : outcome) : bool :=
  let tl := fast_tail M in
  let base := sum_min M in
  spec_gen (fast_ge_from tl base) base (sum_max M) M o.

(* ---- the model's outcome in the observed vocabulary ---------------------------------------- *)

Definition exact_cell (w : Z) (c : Z) : cell := if c =? 0 then CNegInf else CV c (- (2 * w)).

Definition to_outcome (w : Z) (r : res (Z * list Z)) : outcome :=
  match r with
  | Ok (sm, t) => Ok (sm, map (exact_cell w) t)
  | Err => Err
  end.

Definition model (M : imat) : outcome := to_outcome (Z.of_nat (length M)) (pmap M).

(* the same table computed by the fast evaluator, laid out as the code lays it out *)
Definition model_fast (M : imat) : outcome :=
  match M with
  | [] => Err
  | _ => let tl := fast_tail M in
         let base := sum_min M in
         let sm := smallest M in
         Ok (sm, map (fun i => exact_cell (Z.of_nat (length M))
                                 (fast_ge_from tl base (sm + Z.of_nat i)))
                     (seq 0 (tlen M)))
  end.

Definition model_v0 (stale : list Z) (M : imat) : outcome :=
  to_outcome (Z.of_nat (length M)) (pmap_v0 stale M).

Definition model_fastmath_v0 (M : imat) : outcome :=
  match pmap_fastmath_v0 M with
  | Ok (sm, t) => Ok (sm, map (fun x => match x with
                                        | FC c => exact_cell (Z.of_nat (length M)) c
                                        | FNaN => CNaN
                                        end) t)
  | Err => Err
  end.

(* ---- correspondence ------------------------------------------------------------------------ *)

(* two observed entries agree to 1e-9 relative (-inf only with -inf, NaN with nothing) *)
Definition cell_close (x y : cell) : bool :=
  match x, y with
  | CNegInf, CNegInf => true
  | CV m1 e1, CV m2 e2 =>
      let e := Z.min e1 e2 in
      let a := m1 * pow2 (e1 - e) in let b := m2 * pow2 (e2 - e) in
      Z.abs (a - b) * 1000000000 <=? Z.abs b
  | _, _ => false
  end.

Definition outcome_eqb (o1 o2 : outcome) : bool :=
  match o1, o2 with
  | Ok (s1, t1), Ok (s2, t2) =>
      (s1 =? s2) && (length t1 =? length t2)%nat &&
      forallb (fun p => cell_close (fst p) (snd p)) (combine t1 t2)
  | Err, Err => true
  | _, _ => false
  end.

(* Tables of more than 20000 bins (24 zero-containing columns at bin 0.01 reach 45000): the exact
   DP over lists is not affordable inside vm_compute, so for such a case only the clauses of the
   property that are linear in the table length are evaluated: the offset is the model's
   [smallest] and the length the model's [tlen] (so every attainable bin has an entry), every
   entry up to the lowest attainable score (sum of the column minima) is 1 to 1e-9, every entry
   above the highest attainable score (sum of the column maxima) is -inf, no entry is NaN, the
   entries are non-increasing.  (Instances of the clauses of [spec_gen]; not covered by a theorem.) *)
Fixpoint mono_cells (l : list cell) : bool :=
  match l with
  | x :: ((y :: _) as r) => cell_le y x && mono_cells r
  | _ => true
  end.

Definition big_ok (M : imat) (o : outcome) : bool :=
  match o with
  | Err => false
  | Ok (sm, t) =>
      let w := Z.of_nat (length M) in
      let lo := sum_min M in let hi := sum_max M in
      wfb M && (alpha M =? 4)%nat &&
      (sm =? smallest M) && (length t =? tlen M)%nat &&
      (sm <=? lo) && (hi <? sm + Z.of_nat (length t)) &&
      forallb (fun x => cell_ok w x (4 ^ w)) (firstn (Z.to_nat (lo - sm + 1)) t) &&
      forallb (fun x => cell_ok w x 0) (skipn (Z.to_nat (hi - sm + 1)) t) &&
      forallb (fun x => match x with CNaN => false | _ => true end) t &&
      mono_cells t
  end.

Definition case := (imat * outcome)%type.

(* The implementation's table is compared with the model and judged by the spec.  Both are
   evaluated through the fast evaluator (proved equal: Proofs.model_fast_eq,
   Proofs.spec_ok_fast_eq); for small instances the code-shaped model and the enumeration
   spec are evaluated as well. *)
Definition check_case (c : case) : nat :=
  let '(M, o) := c in
  if Nat.leb 20000 (tlen M) then verdict true (big_ok M o) else
  let small_model := (Nat.leb (tlen M) 400) in
  let small_enum := (Nat.leb (length M) 5) && (Nat.leb (tlen M) 400) in
  verdict (outcome_eqb o (model_fast M) && (if small_model then outcome_eqb o (model M) else true))
          (spec_ok_fast M o && (if small_enum then spec_ok M o else true)).
