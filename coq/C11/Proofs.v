(* C11 proofs.  Road map:
   1. finite sums, counting by filter;
   2. the enumeration obeys both convolution recurrences (peel the first column, peel the last);
   3. attainable scores lie between the sums of the column minima / maxima, both attained;
   4. the code-shaped DP: every access in bounds, every cell = the enumeration count;
   5. reverse cumulation = tail counts; the properties of the tail;
   6. the fast evaluator computes the same numbers;
   7. the model's outcome satisfies the boolean spec; refutations of the pre-fix behaviour. *)
From TM Require Import Base.Prelude C11.Model C11.Spec.
Open Scope Z_scope.

(* ---------------------------------------------------------------------------------------- *)
(* 1. sums and counts                                                                        *)

Fixpoint sumZ (l : list Z) : Z := match l with [] => 0 | x :: xs => x + sumZ xs end.

Lemma sumZ_app l1 l2 : sumZ (l1 ++ l2) = sumZ l1 + sumZ l2.
Proof. induction l1; cbn; lia. Qed.

Lemma sumZ_map_add {T} (f g : T -> Z) l :
  sumZ (map (fun x => f x + g x) l) = sumZ (map f l) + sumZ (map g l).
Proof. induction l; cbn; lia. Qed.

Lemma sumZ_map_ext {T} (f g : T -> Z) l :
  (forall x, In x l -> f x = g x) -> sumZ (map f l) = sumZ (map g l).
Proof.
  induction l as [|a l IH]; intros H; cbn; [reflexivity|].
  rewrite H by (left; reflexivity). rewrite IH; [reflexivity|]. intros; apply H; right; assumption.
Qed.

Lemma sumZ_map_zero {T} (l : list T) : sumZ (map (fun _ => 0) l) = 0.
Proof. induction l; cbn; lia. Qed.

Lemma sumZ_swap {S T} (f : S -> T -> Z) l1 l2 :
  sumZ (map (fun x => sumZ (map (f x) l2)) l1) =
  sumZ (map (fun y => sumZ (map (fun x => f x y) l1)) l2).
Proof.
  induction l1 as [|a l1 IH]; cbn.
  - rewrite sumZ_map_zero. reflexivity.
  - rewrite IH. rewrite <- sumZ_map_add. reflexivity.
Qed.

Lemma sumZ_nonneg l : (forall x, In x l -> 0 <= x) -> 0 <= sumZ l.
Proof.
  induction l as [|a l IH]; intros H; cbn; [lia|].
  assert (0 <= a) by (apply H; left; reflexivity).
  assert (0 <= sumZ l) by (apply IH; intros; apply H; right; assumption). lia.
Qed.

Lemma count_if_nil p : count_if p [] = 0.
Proof. reflexivity. Qed.

Lemma count_if_cons p x l : count_if p (x :: l) = (if p x then 1 else 0) + count_if p l.
Proof. unfold count_if. cbn. destruct (p x); cbn [length]; lia. Qed.

Lemma count_if_app p l1 l2 : count_if p (l1 ++ l2) = count_if p l1 + count_if p l2.
Proof. unfold count_if. rewrite filter_app, app_length. lia. Qed.

Lemma count_if_map p (g : Z -> Z) l : count_if p (map g l) = count_if (fun x => p (g x)) l.
Proof. induction l as [|a l IH]; [reflexivity|]. cbn [map]. rewrite !count_if_cons, IH. reflexivity. Qed.

Lemma count_if_flat_map {T} p (f : T -> list Z) l :
  count_if p (flat_map f l) = sumZ (map (fun x => count_if p (f x)) l).
Proof. induction l as [|a l IH]; [reflexivity|]. cbn. rewrite count_if_app, IH. reflexivity. Qed.

Lemma count_if_ext p q l : (forall x, p x = q x) -> count_if p l = count_if q l.
Proof. intros H. induction l as [|a l IH]; [reflexivity|]. rewrite !count_if_cons, IH, H. reflexivity. Qed.

Lemma count_if_nonneg p l : 0 <= count_if p l.
Proof. unfold count_if. lia. Qed.

Lemma count_if_zero p l : (forall x, In x l -> p x = false) -> count_if p l = 0.
Proof.
  induction l as [|a l IH]; intros H; [reflexivity|].
  rewrite count_if_cons, H by (left; reflexivity). rewrite IH; [lia|]. intros; apply H; right; assumption.
Qed.

Lemma count_if_pos p l : count_if p l <> 0 -> exists x, In x l /\ p x = true.
Proof.
  induction l as [|a l IH]; [rewrite count_if_nil; lia|].
  rewrite count_if_cons. destruct (p a) eqn:E.
  - intros _. exists a. split; [left; reflexivity | assumption].
  - intros H. destruct IH as [x [Hx Hp]]; [lia|]. exists x. split; [right|]; assumption.
Qed.

Lemma count_if_all p l : (forall x, In x l -> p x = true) -> count_if p l = Z.of_nat (length l).
Proof.
  induction l as [|a l IH]; intros H; [reflexivity|].
  rewrite count_if_cons, H by (left; reflexivity). rewrite IH by (intros; apply H; right; assumption).
  cbn [length]. lia.
Qed.

Lemma count_if_mono p q l : (forall x, p x = true -> q x = true) -> count_if p l <= count_if q l.
Proof.
  intros H. induction l as [|a l IH]; [rewrite !count_if_nil; lia|].
  rewrite !count_if_cons. destruct (p a) eqn:E.
  - rewrite (H _ E). lia.
  - destruct (q a); lia.
Qed.

(* ---------------------------------------------------------------------------------------- *)
(* 2. the two recurrences of the enumeration                                                  *)

Definition scoresA (A : nat) (M : imat) : list Z := map (score M) (all_seqs A (length M)).
Definition cntA (A : nat) (M : imat) (p : Z -> bool) : Z := count_if p (scoresA A M).

Definition colsA (A : nat) (M : imat) : Prop := Forall (fun c => length c = A) M.

Lemma map_nth_seq (c : list Z) : map (fun a => nth a c 0) (seq 0 (length c)) = c.
Proof.
  induction c as [|x c IH]; [reflexivity|].
  cbn [length seq map nth]. f_equal. rewrite <- seq_shift, map_map. exact IH.
Qed.

Lemma flat_map_map {S T U} (g : T -> list U) (h : S -> T) l :
  flat_map g (map h l) = flat_map (fun x => g (h x)) l.
Proof. induction l; cbn; congruence. Qed.

Lemma map_flat_map {S T U} (g : T -> U) (f : S -> list T) l :
  map g (flat_map f l) = flat_map (fun x => map g (f x)) l.
Proof. induction l; cbn; [reflexivity|]. rewrite map_app. congruence. Qed.

Lemma flat_map_nth_seq {U} (g : Z -> list U) c :
  flat_map g c = flat_map (fun a => g (nth a c 0)) (seq 0 (length c)).
Proof. rewrite <- (flat_map_map g (fun a => nth a c 0)), map_nth_seq. reflexivity. Qed.

Lemma scoresA_nil A : scoresA A [] = [0].
Proof. reflexivity. Qed.

Lemma scoresA_cons A c M : length c = A ->
  scoresA A (c :: M) = flat_map (fun d => map (Z.add d) (scoresA A M)) c.
Proof.
  intros Hc. unfold scoresA. cbn [length all_seqs].
  rewrite map_flat_map.
  rewrite (flat_map_nth_seq _ c), Hc.
  apply flat_map_ext. intros a. rewrite !map_map. reflexivity.
Qed.

Lemma cntA_nil A p : cntA A [] p = if p 0 then 1 else 0.
Proof. unfold cntA. rewrite scoresA_nil, count_if_cons, count_if_nil. lia. Qed.

(* peel the first column *)
Lemma cntA_cons A c M p : length c = A ->
  cntA A (c :: M) p = sumZ (map (fun d => cntA A M (fun t => p (d + t))) c).
Proof.
  intros Hc. unfold cntA. rewrite scoresA_cons by assumption.
  rewrite count_if_flat_map. apply sumZ_map_ext. intros d _. apply count_if_map.
Qed.

(* peel the last column: the recurrence the code's left-to-right DP uses *)
Lemma cntA_snoc A c M : length c = A -> colsA A M -> forall p,
  cntA A (M ++ [c]) p = sumZ (map (fun d => cntA A M (fun t => p (t + d))) c).
Proof.
  intros Hc HM. induction HM as [|c0 M Hc0 HM IH]; intros p.
  - cbn [app]. rewrite cntA_cons by assumption. apply sumZ_map_ext. intros d _.
    rewrite !cntA_nil. rewrite Z.add_0_r, Z.add_0_l. reflexivity.
  - cbn [app]. rewrite cntA_cons by assumption.
    rewrite (sumZ_map_ext _ (fun d0 => sumZ (map (fun d => cntA A M (fun t => p (d0 + (t + d)))) c))).
    2:{ intros d0 _. rewrite IH. reflexivity. }
    rewrite sumZ_swap. apply sumZ_map_ext. intros d _.
    rewrite cntA_cons by assumption. apply sumZ_map_ext. intros d0 _.
    apply count_if_ext. intros t. f_equal. lia.
Qed.

Lemma colsA_app A M1 M2 : colsA A (M1 ++ M2) <-> colsA A M1 /\ colsA A M2.
Proof. apply Forall_app. Qed.

(* ---------------------------------------------------------------------------------------- *)
(* 3. range of the attainable scores                                                          *)

Lemma fold_min_spec c : forall a,
  let m := fold_left Z.min c a in
  m <= a /\ (forall d, In d c -> m <= d) /\ (m = a \/ In m c).
Proof.
  induction c as [|x c IH]; intros a; cbn.
  - split; [lia|]. split; [intros d []|]. left; reflexivity.
  - destruct (IH (Z.min a x)) as [H1 [H2 H3]]. split; [lia|]. split.
    + intros d [<- | Hd]; [lia | apply H2; assumption].
    + destruct H3 as [H3 | H3]; [|right; right; assumption].
      destruct (Z.min_spec a x) as [[_ E] | [_ E]]; [left | right; left]; lia.
Qed.

Lemma fold_max_spec c : forall a,
  let m := fold_left Z.max c a in
  a <= m /\ (forall d, In d c -> d <= m) /\ (m = a \/ In m c).
Proof.
  induction c as [|x c IH]; intros a; cbn.
  - split; [lia|]. split; [intros d []|]. left; reflexivity.
  - destruct (IH (Z.max a x)) as [H1 [H2 H3]]. split; [lia|]. split.
    + intros d [<- | Hd]; [lia | apply H2; assumption].
    + destruct H3 as [H3 | H3]; [|right; right; assumption].
      destruct (Z.max_spec a x) as [[_ E] | [_ E]]; [right; left | left]; lia.
Qed.

Lemma cmin_le c d : In d c -> cmin c <= d.
Proof. intros H. apply (fold_min_spec c SENT). assumption. Qed.
Lemma cmax_ge c d : In d c -> d <= cmax c.
Proof. intros H. apply (fold_max_spec c (- SENT)). assumption. Qed.

Definition bounded_col (c : list Z) : Prop := forall d, In d c -> - SENT <= d <= SENT.

Lemma cmin_in c : c <> [] -> bounded_col c -> In (cmin c) c.
Proof.
  intros Hne Hb. destruct (fold_min_spec c SENT) as [H1 [H2 [H3 | H3]]]; [|exact H3].
  destruct c as [|x c]; [congruence|].
  assert (Hx : In x (x :: c)) by (left; reflexivity).
  pose proof (H2 x Hx). pose proof (Hb x Hx). fold (cmin (x :: c)) in *.
  replace (cmin (x :: c)) with x by lia. exact Hx.
Qed.

Lemma cmax_in c : c <> [] -> bounded_col c -> In (cmax c) c.
Proof.
  intros Hne Hb. destruct (fold_max_spec c (- SENT)) as [H1 [H2 [H3 | H3]]]; [|exact H3].
  destruct c as [|x c]; [congruence|].
  assert (Hx : In x (x :: c)) by (left; reflexivity).
  pose proof (H2 x Hx). pose proof (Hb x Hx). fold (cmax (x :: c)) in *.
  replace (cmax (x :: c)) with x by lia. exact Hx.
Qed.

Lemma sum_min_app M1 M2 : sum_min (M1 ++ M2) = sum_min M1 + sum_min M2.
Proof. unfold sum_min. induction M1; cbn; lia. Qed.
Lemma sum_max_app M1 M2 : sum_max (M1 ++ M2) = sum_max M1 + sum_max M2.
Proof. unfold sum_max. induction M1; cbn; lia. Qed.

Lemma scores_range A M : colsA A M ->
  forall t, In t (scoresA A M) -> sum_min M <= t <= sum_max M.
Proof.
  induction 1 as [|c M Hc HM IH]; intros t Ht.
  - rewrite scoresA_nil in Ht. destruct Ht as [<- | []]. cbn. lia.
  - rewrite scoresA_cons in Ht by assumption.
    apply in_flat_map in Ht as [d [Hd Ht]]. apply in_map_iff in Ht as [t' [<- Ht']].
    specialize (IH _ Ht'). pose proof (cmin_le _ _ Hd). pose proof (cmax_ge _ _ Hd).
    unfold sum_min, sum_max in *. cbn. lia.
Qed.

Lemma cnt_zero_outside A M s : colsA A M -> s < sum_min M \/ sum_max M < s ->
  cntA A M (fun t => t =? s) = 0.
Proof.
  intros HM Hs. apply count_if_zero. intros t Ht.
  pose proof (scores_range _ _ HM _ Ht). lia.
Qed.

Lemma cnt_pos_range A M s : colsA A M -> cntA A M (fun t => t =? s) <> 0 ->
  sum_min M <= s <= sum_max M.
Proof.
  intros HM H. apply count_if_pos in H as [t [Ht E]].
  pose proof (scores_range _ _ HM _ Ht). lia.
Qed.

Definition wfA (A : nat) (M : imat) : Prop :=
  (0 < A)%nat /\ Forall (fun c => length c = A /\ bounded_col c) M.

Lemma wfA_cols A M : wfA A M -> colsA A M.
Proof. intros [_ H]. eapply Forall_impl; [|exact H]. intros c [Hc _]; exact Hc. Qed.

Lemma sum_min_attained A M : wfA A M -> In (sum_min M) (scoresA A M).
Proof.
  intros [HA H]. induction H as [|c M [Hc Hb] HM IH].
  - left; reflexivity.
  - rewrite scoresA_cons by assumption. apply in_flat_map. exists (cmin c). split.
    + apply cmin_in; [|assumption]. destruct c; [cbn in Hc; lia | discriminate].
    + apply in_map_iff. exists (sum_min M). split; [reflexivity | exact IH].
Qed.

Lemma sum_max_attained A M : wfA A M -> In (sum_max M) (scoresA A M).
Proof.
  intros [HA H]. induction H as [|c M [Hc Hb] HM IH].
  - left; reflexivity.
  - rewrite scoresA_cons by assumption. apply in_flat_map. exists (cmax c). split.
    + apply cmax_in; [|assumption]. destruct c; [cbn in Hc; lia | discriminate].
    + apply in_map_iff. exists (sum_max M). split; [reflexivity | exact IH].
Qed.

Lemma list_min_spec l m : In m l -> (forall t, In t l -> m <= t) -> list_min l = m.
Proof.
  intros Hin Hle. unfold list_min.
  assert (G : forall a l', (forall t, In t l' -> m <= t) -> m <= a ->
              m <= fold_right Z.min a l' /\ (In m l' -> fold_right Z.min a l' = m)).
  { intros a l'. induction l' as [|x l' IH]; intros H Ha; cbn.
    - split; [assumption | intros []].
    - destruct IH as [I1 I2]; [intros; apply H; right; assumption | assumption |].
      assert (m <= x) by (apply H; left; reflexivity). split; [lia|].
      intros [-> | Hm]; [lia | rewrite I2 by assumption; lia]. }
  destruct l as [|x l]; [destruct Hin|]. cbn [hd].
  apply G; auto. apply Hle. left; reflexivity.
Qed.

Lemma list_max_spec l m : In m l -> (forall t, In t l -> t <= m) -> list_max l = m.
Proof.
  intros Hin Hle. unfold list_max.
  assert (G : forall a l', (forall t, In t l' -> t <= m) -> a <= m ->
              fold_right Z.max a l' <= m /\ (In m l' -> fold_right Z.max a l' = m)).
  { intros a l'. induction l' as [|x l' IH]; intros H Ha; cbn.
    - split; [assumption | intros []].
    - destruct IH as [I1 I2]; [intros; apply H; right; assumption | assumption |].
      assert (x <= m) by (apply H; left; reflexivity). split; [lia|].
      intros [-> | Hm]; [lia | rewrite I2 by assumption; lia]. }
  destruct l as [|x l]; [destruct Hin|]. cbn [hd].
  apply G; auto. apply Hle. left; reflexivity.
Qed.

(* ---------------------------------------------------------------------------------------- *)
(* 4. the code-shaped dynamic programme                                                       *)

Lemma getz_nonneg l i : 0 <= i -> getz l i = nth (Z.to_nat i) l 0.
Proof. intros H. unfold getz. destruct (i <? 0) eqn:E; [lia | reflexivity]. Qed.

Lemma getz_neg l i : i < 0 -> getz l i = 0.
Proof. intros H. unfold getz. destruct (i <? 0) eqn:E; [reflexivity | lia]. Qed.

Lemma getz_beyond l i : Z.of_nat (length l) <= i -> getz l i = 0.
Proof. intros H. rewrite getz_nonneg by lia. apply nth_overflow. lia. Qed.

Lemma getz_cons x xs i : getz (x :: xs) i = if i =? 0 then x else getz xs (i - 1).
Proof.
  destruct (Z.ltb_spec i 0) as [H | H].
  - rewrite !getz_neg by lia. destruct (i =? 0) eqn:E; [lia | reflexivity].
  - destruct (Z.eqb_spec i 0) as [-> | H0]; [reflexivity|].
    rewrite !getz_nonneg by lia. replace (Z.to_nat i) with (S (Z.to_nat (i - 1))) by lia. reflexivity.
Qed.

Lemma nth_repeat0 n k : nth k (repeat 0 n) 0 = 0.
Proof. revert k; induction n; intros [|k]; cbn; auto. Qed.

Lemma getz_repeat0 n i : getz (repeat 0 n) i = 0.
Proof. unfold getz. destruct (i <? 0); [reflexivity | apply nth_repeat0]. Qed.

Lemma add_nat_ok : forall l i v, (i < length l)%nat ->
  exists l', add_nat i v l = Ok l' /\ length l' = length l /\
             forall k, nth k l' 0 = nth k l 0 + (if (k =? i)%nat then v else 0).
Proof.
  induction l as [|x xs IH]; intros i v Hi; cbn in Hi; [lia|].
  destruct i as [|i].
  - eexists. split; [reflexivity|]. split; [reflexivity|].
    intros [|k]; cbn; lia.
  - destruct (IH i v) as [r [E [Hl Hn]]]; [lia|]. cbn [add_nat]. rewrite E. cbn.
    eexists. split; [reflexivity|]. split; [cbn; lia|].
    intros [|k]; cbn [nth]; [cbn; lia|]. rewrite Hn. reflexivity.
Qed.

Lemma add_at_ok l i v : 0 <= i < Z.of_nat (length l) ->
  exists l', add_at i v l = Ok l' /\ length l' = length l /\
             forall t, getz l' t = getz l t + (if t =? i then v else 0).
Proof.
  intros Hi. unfold add_at. destruct (i <? 0) eqn:E; [lia|].
  destruct (add_nat_ok l (Z.to_nat i) v) as [l' [E' [Hl Hn]]]; [lia|].
  exists l'. split; [exact E'|]. split; [exact Hl|].
  intros t. destruct (Z.ltb_spec t 0) as [Ht | Ht].
  - rewrite !getz_neg by lia. destruct (t =? i) eqn:E2; lia.
  - rewrite !getz_nonneg by lia. rewrite Hn.
    destruct (Nat.eqb_spec (Z.to_nat t) (Z.to_nat i)); destruct (Z.eqb_spec t i); lia.
Qed.

Lemma push_row_ok : forall c j x acc,
  (forall d, In d c -> 0 <= j + d < Z.of_nat (length acc)) ->
  exists acc', push_row c j x acc = Ok acc' /\ length acc' = length acc /\
    forall t, getz acc' t = getz acc t + sumZ (map (fun d => if t =? j + d then x else 0) c).
Proof.
  induction c as [|d ds IH]; intros j x acc H.
  - exists acc. split; [reflexivity|]. split; [reflexivity|]. intros t; cbn; lia.
  - destruct (add_at_ok acc (j + d) x) as [a1 [E1 [L1 G1]]]; [apply H; left; reflexivity|].
    destruct (IH j x a1) as [a2 [E2 [L2 G2]]].
    { intros d' Hd'. rewrite L1. apply H. right; assumption. }
    exists a2. cbn [push_row]. rewrite E1. cbn. split; [exact E2|]. split; [congruence|].
    intros t. rewrite G2, G1. cbn. lia.
Qed.

Lemma init_col_push_row c sm acc : init_col c sm acc = push_row c (- sm) 1 acc.
Proof.
  revert acc; induction c as [|d ds IH]; intros acc; [reflexivity|].
  cbn. replace (d - sm) with (- sm + d) by lia.
  destruct (add_at (- sm + d) 1 acc); cbn; [apply IH | reflexivity].
Qed.

(* what the scatter loop adds to cell t *)
Fixpoint pushsum (c old : list Z) (j t : Z) : Z :=
  match old with
  | [] => 0
  | x :: xs => sumZ (map (fun d => if t =? j + d then x else 0) c) + pushsum c xs (j + 1) t
  end.

Lemma push_ok : forall c old j acc,
  (forall k x, nth_error old k = Some x -> x <> 0 ->
     forall d, In d c -> 0 <= j + Z.of_nat k + d < Z.of_nat (length acc)) ->
  exists acc', push c old j acc = Ok acc' /\ length acc' = length acc /\
    forall t, getz acc' t = getz acc t + pushsum c old j t.
Proof.
  intros c old. induction old as [|x xs IH]; intros j acc H.
  - exists acc. split; [reflexivity|]. split; [reflexivity|]. intros; cbn; lia.
  - cbn [push pushsum]. destruct (Z.eqb_spec x 0) as [-> | Hx].
    + destruct (IH (j + 1) acc) as [a [E [L G]]].
      { intros k y Hk Hy d Hd. specialize (H (S k) y Hk Hy d Hd). lia. }
      exists a. split; [exact E|]. split; [exact L|]. intros t. rewrite G.
      rewrite (sumZ_map_ext _ (fun _ => 0)) by (intros; destruct (_ =? _); reflexivity).
      rewrite sumZ_map_zero. lia.
    + destruct (push_row_ok c j x acc) as [a1 [E1 [L1 G1]]].
      { intros d Hd. specialize (H O x eq_refl Hx d Hd). cbn in H. lia. }
      destruct (IH (j + 1) a1) as [a [E [L G]]].
      { intros k y Hk Hy d Hd. rewrite L1. specialize (H (S k) y Hk Hy d Hd). lia. }
      exists a. rewrite E1. cbn. split; [exact E|]. split; [congruence|].
      intros t. rewrite G, G1. lia.
Qed.

Lemma pushsum_eq c : forall old j t,
  pushsum c old j t = sumZ (map (fun d => getz old (t - d - j)) c).
Proof.
  induction old as [|x xs IH]; intros j t; cbn [pushsum].
  - rewrite (sumZ_map_ext _ (fun _ => 0)); [rewrite sumZ_map_zero; reflexivity|].
    intros d _. unfold getz. destruct (_ <? 0); [reflexivity|]. destruct (Z.to_nat _); reflexivity.
  - rewrite IH, <- sumZ_map_add. apply sumZ_map_ext. intros d _.
    rewrite getz_cons. replace (t - d - j - 1) with (t - d - (j + 1)) by lia.
    destruct (Z.eqb_spec t (j + d)); destruct (Z.eqb_spec (t - d - j) 0); try lia.
    rewrite getz_neg by lia. lia.
Qed.

(* [l] holds, cell by cell, the number of sequences of the prefix P with each score sm+k *)
Definition repr (A : nat) (sm : Z) (n : nat) (P : imat) (l : list Z) : Prop :=
  length l = n /\ forall k, (k < n)%nat -> nth k l 0 = cntA A P (fun t => t =? sm + Z.of_nat k).

Lemma repr_getz A sm n P l i : colsA A P -> repr A sm n P l ->
  sm <= sum_min P -> sum_max P < sm + Z.of_nat n ->
  getz l i = cntA A P (fun t => t =? sm + i).
Proof.
  intros HP [Hl Hn] H1 H2.
  destruct (Z.ltb_spec i 0) as [Hi | Hi].
  - rewrite getz_neg by lia. symmetry. apply cnt_zero_outside; [assumption | lia].
  - destruct (Z.ltb_spec i (Z.of_nat n)) as [Hi2 | Hi2].
    + rewrite getz_nonneg by lia. rewrite Hn by lia. apply count_if_ext. intros t. f_equal. lia.
    + rewrite getz_beyond by lia. symmetry. apply cnt_zero_outside; [assumption | lia].
Qed.

Lemma push_step A sm n P c old : colsA A P -> length c = A -> repr A sm n P old ->
  sm <= sum_min P -> sum_max P < sm + Z.of_nat n ->
  sm <= sum_min (P ++ [c]) -> sum_max (P ++ [c]) < sm + Z.of_nat n ->
  exists new, push c old 0 (repeat 0 n) = Ok new /\ repr A sm n (P ++ [c]) new.
Proof.
  intros HP Hc Hr H1 H2 H3 H4.
  rewrite sum_min_app in H3. rewrite sum_max_app in H4. cbn in H3, H4.
  destruct (push_ok c old 0 (repeat 0 n)) as [new [E [L G]]].
  { intros k x Hk Hx d Hd. rewrite repeat_length.
    assert (Hkn : (k < n)%nat).
    { destruct Hr as [Hl _]. rewrite <- Hl. apply nth_error_Some. congruence. }
    assert (Hx' : cntA A P (fun t => t =? sm + Z.of_nat k) <> 0).
    { destruct Hr as [_ Hn]. rewrite <- Hn by assumption.
      erewrite nth_error_nth by eassumption. assumption. }
    apply cnt_pos_range in Hx'; [|assumption].
    pose proof (cmin_le _ _ Hd). pose proof (cmax_ge _ _ Hd). lia. }
  exists new. split; [exact E|]. rewrite repeat_length in L. split; [exact L|].
  intros k Hk.
  specialize (G (Z.of_nat k)). rewrite getz_nonneg in G by lia. rewrite Nat2Z.id in G.
  rewrite G, getz_repeat0, pushsum_eq. cbn.
  rewrite cntA_snoc by assumption. apply sumZ_map_ext. intros d _.
  rewrite (repr_getz A sm n P old) by assumption.
  apply count_if_ext. intros t.
  destruct (Z.eqb_spec t (sm + (Z.of_nat k - d - 0))); destruct (Z.eqb_spec (t + d) (sm + Z.of_nat k)); lia.
Qed.

Lemma columns_ok A sm n : forall R P old, colsA A P -> colsA A R -> repr A sm n P old ->
  sm <= sum_min P -> sum_max P < sm + Z.of_nat n ->
  (forall Q R', R = Q ++ R' -> sm <= sum_min (P ++ Q) /\ sum_max (P ++ Q) < sm + Z.of_nat n) ->
  exists fin, columns R n old = Ok fin /\ repr A sm n (P ++ R) fin.
Proof.
  induction R as [|c R IH]; intros P old HP HR Hr H1 H2 Hpre.
  - exists old. rewrite app_nil_r. split; [reflexivity | assumption].
  - apply Forall_cons_iff in HR as [Hc HR'].
    destruct (Hpre [c] R eq_refl) as [H3 H4].
    destruct (push_step A sm n P c old) as [new [E Hn]]; try assumption.
    destruct (IH (P ++ [c]) new) as [fin [E2 Hf]]; try assumption.
    { apply colsA_app. split; [assumption | constructor; [assumption | constructor]]. }
    { intros Q R' ->. rewrite <- app_assoc. apply (Hpre (c :: Q) R'). reflexivity. }
    exists fin. cbn [columns]. rewrite E. cbn. split; [exact E2|].
    rewrite <- app_assoc in Hf. exact Hf.
Qed.

(* the bounds loop dominates every non-empty prefix *)
Lemma bounds_loop_spec : forall R mn mx sm lg,
  let r := bounds_loop R mn mx sm lg in
  fst r <= sm /\ lg <= snd r /\
  forall Q R', Q <> [] -> R = Q ++ R' -> fst r <= mn + sum_min Q /\ mx + sum_max Q <= snd r.
Proof.
  induction R as [|c R IH]; intros mn mx sm lg; cbn [bounds_loop fst snd].
  - split; [lia|]. split; [lia|]. intros Q R' HQ E. destruct Q; [congruence | discriminate].
  - destruct (IH (mn + cmin c) (mx + cmax c) (Z.min sm (mn + cmin c)) (Z.max lg (mx + cmax c)))
      as [I1 [I2 I3]].
    split; [lia|]. split; [lia|].
    intros Q R' HQ E. destruct Q as [|c' Q]; [congruence|]. injection E as <- ->.
    destruct Q as [|c'' Q].
    + unfold sum_min, sum_max. cbn [fold_right]. lia.
    + destruct (I3 (c'' :: Q) R') as [J1 J2]; [discriminate | reflexivity |].
      unfold sum_min, sum_max in *. cbn [fold_right] in *. lia.
Qed.

Lemma prefix_bounds M Q R' : Q <> [] -> M = Q ++ R' ->
  smallest M <= sum_min Q /\ sum_max Q + Z.of_nat (length M) <= largest M.
Proof.
  intros HQ E. unfold smallest, largest.
  destruct (bounds_loop_spec M 0 0 SENT (- SENT)) as [_ [_ H]].
  destruct (H Q R' HQ E). lia.
Qed.

Lemma sum_min_le_max A M : colsA A M -> (0 < A)%nat -> sum_min M <= sum_max M.
Proof.
  intros H HA. induction H as [|c M Hc HM IH]; [cbn; lia|].
  unfold sum_min, sum_max in *. cbn.
  destruct c as [|d c]; [cbn in Hc; lia|].
  assert (Hd : In d (d :: c)) by (left; reflexivity).
  pose proof (cmin_le _ _ Hd). pose proof (cmax_ge _ _ Hd). lia.
Qed.

Lemma tlen_spec A M : colsA A M -> (0 < A)%nat -> M <> [] ->
  Z.of_nat (tlen M) = largest M - smallest M + 1 /\
  forall Q R', Q <> [] -> M = Q ++ R' ->
    smallest M <= sum_min Q /\ sum_max Q + Z.of_nat (length M) < smallest M + Z.of_nat (tlen M).
Proof.
  intros HM HA Hne.
  assert (Hfull : smallest M <= sum_min M /\ sum_max M + Z.of_nat (length M) <= largest M).
  { apply (prefix_bounds M M []); [assumption | rewrite app_nil_r; reflexivity]. }
  pose proof (sum_min_le_max A M HM HA).
  assert (Hlen : Z.of_nat (tlen M) = largest M - smallest M + 1) by (unfold tlen; lia).
  split; [exact Hlen|]. intros Q R' HQ E.
  destruct (prefix_bounds M Q R' HQ E). lia.
Qed.

Definition wfM (M : imat) : Prop := M <> [] /\ (0 < alpha M)%nat /\ colsA (alpha M) M.

(* dp_in_bounds + dp_counts: for every matrix with at least one column and equally long,
   non-empty columns the DP performs no out-of-range access (it returns Ok), and cell k of its
   result is the number of sequences whose score is  smallest + k  *)
Theorem dp_ok M : wfM M ->
  exists pdf, dp M = Ok pdf /\ length pdf = tlen M /\
    forall k, (k < tlen M)%nat -> nth k pdf 0 = count_eq M (smallest M + Z.of_nat k).
Proof.
  intros [Hne [HA HM]]. set (A := alpha M) in *.
  destruct (tlen_spec A M HM HA Hne) as [Hlen Hpre].
  destruct M as [|c R]; [congruence|]. clear Hne.
  pose proof HM as HM0. apply Forall_cons_iff in HM0 as [Hc HR].
  set (M := c :: R) in *. set (n := tlen M) in *. set (sm := smallest M) in *.
  destruct (Hpre [c] R) as [B1 B2]; [discriminate | reflexivity |].
  assert (Hinit : exists old, init_col c sm (repeat 0 n) = Ok old /\ repr A sm n [c] old).
  { rewrite init_col_push_row.
    destruct (push_row_ok c (- sm) 1 (repeat 0 n)) as [old [E [L G]]].
    { intros d Hd. rewrite repeat_length. pose proof (cmin_le _ _ Hd). pose proof (cmax_ge _ _ Hd).
      unfold sum_min, sum_max in B1, B2. cbn in B1, B2. lia. }
    exists old. split; [exact E|]. rewrite repeat_length in L. split; [exact L|].
    intros k Hk. specialize (G (Z.of_nat k)). rewrite getz_nonneg in G by lia.
    rewrite Nat2Z.id in G. rewrite G, getz_repeat0. cbn.
    rewrite cntA_cons by assumption. apply sumZ_map_ext. intros d _. rewrite cntA_nil.
    destruct (Z.eqb_spec (Z.of_nat k) (- sm + d)); destruct (Z.eqb_spec (d + 0) (sm + Z.of_nat k)); lia. }
  destruct Hinit as [old [E0 Hr0]].
  destruct (columns_ok A sm n R [c] old) as [fin [E Hf]]; try assumption.
  - constructor; [assumption | constructor].
  - lia.
  - intros Q R' ->. destruct (Hpre (c :: Q) R'); [discriminate | reflexivity |]. cbn [app]. lia.
  - exists fin.
    change (dp M) with (do old <- init_col c sm (repeat 0 n) ;; columns R n old).
    rewrite E0. cbn [bind]. split; [exact E|].
    destruct Hf as [Hl Hn]. split; [exact Hl|]. intros k Hk. rewrite Hn by assumption. reflexivity.
Qed.

(* ---------------------------------------------------------------------------------------- *)
(* 5. reverse cumulation = tail counts                                                        *)

Lemma revcum_length l : length (revcum l) = length l.
Proof. induction l; cbn; congruence. Qed.

Lemma revcum_hd l : hd 0 (revcum l) = sumZ l.
Proof. induction l as [|x xs IH]; [reflexivity|]. cbn [revcum hd sumZ]. rewrite IH. reflexivity. Qed.

Lemma revcum_nth : forall l i, nth i (revcum l) 0 = sumZ (skipn i l).
Proof.
  induction l as [|x xs IH]; intros i.
  - destruct i; reflexivity.
  - destruct i as [|i].
    + change (nth 0 (revcum (x :: xs)) 0) with (hd 0 (revcum (x :: xs))). apply revcum_hd.
    + cbn [revcum nth skipn]. apply IH.
Qed.

Lemma sumZ_skipn_seq : forall l j,
  sumZ (skipn j l) = sumZ (map (fun k => nth k l 0) (seq j (length l - j))).
Proof.
  induction l as [|x xs IH]; intros j.
  - destruct j; reflexivity.
  - destruct j as [|j]; cbn [skipn].
    + specialize (IH O). change (skipn 0 xs) with xs in IH. rewrite Nat.sub_0_r in IH.
      cbn [length Nat.sub seq map sumZ nth]. f_equal.
      rewrite IH, <- seq_shift, map_map. reflexivity.
    + rewrite IH. cbn [length Nat.sub]. rewrite <- seq_shift, map_map. reflexivity.
Qed.

Lemma count_if_ext_in p q l : (forall x, In x l -> p x = q x) -> count_if p l = count_if q l.
Proof.
  induction l as [|a l IH]; intros H; [reflexivity|].
  rewrite !count_if_cons, IH, H; [reflexivity | left; reflexivity | intros; apply H; right; assumption].
Qed.

Lemma indicator_sum base t : forall m j,
  sumZ (map (fun k => if t =? base + Z.of_nat k then 1 else 0) (seq j m)) =
  if (base + Z.of_nat j <=? t) && (t <? base + Z.of_nat j + Z.of_nat m) then 1 else 0.
Proof.
  induction m as [|m IH]; intros j; cbn [seq map sumZ].
  - destruct (Z.leb_spec (base + Z.of_nat j) t); destruct (Z.ltb_spec t (base + Z.of_nat j + Z.of_nat 0)); cbn; lia.
  - rewrite IH.
    destruct (Z.eqb_spec t (base + Z.of_nat j));
    destruct (Z.leb_spec (base + Z.of_nat (S j)) t);
    destruct (Z.ltb_spec t (base + Z.of_nat (S j) + Z.of_nat m));
    destruct (Z.leb_spec (base + Z.of_nat j) t);
    destruct (Z.ltb_spec t (base + Z.of_nat j + Z.of_nat (S m))); cbn; lia.
Qed.

Lemma hist_sum base L : forall j m,
  sumZ (map (fun k => count_if (fun t => t =? base + Z.of_nat k) L) (seq j m)) =
  count_if (fun t => (base + Z.of_nat j <=? t) && (t <? base + Z.of_nat j + Z.of_nat m)) L.
Proof.
  induction L as [|t L IH]; intros j m.
  - rewrite count_if_nil. apply sumZ_map_zero.
  - rewrite count_if_cons, <- IH, <- indicator_sum, <- sumZ_map_add.
    apply sumZ_map_ext. intros k _. rewrite count_if_cons. reflexivity.
Qed.

(* a list l that is the histogram (from [base]) of the scores L has the tail counts as its
   suffix sums *)
Lemma tail_sum l base L :
  (forall i, getz l i = count_if (fun t => t =? base + i) L) ->
  forall j, (j <= length l)%nat ->
  sumZ (skipn j l) = count_if (fun t => base + Z.of_nat j <=? t) L.
Proof.
  intros H j Hj.
  assert (Hrange : forall t, In t L -> base <= t < base + Z.of_nat (length l)).
  { intros t Ht.
    assert (Hc : count_if (fun u => u =? t) L <> 0).
    { clear - Ht. induction L as [|a L IH]; [destruct Ht|]. rewrite count_if_cons.
      pose proof (count_if_nonneg (fun u => u =? t) L).
      destruct Ht as [-> | Ht]; [rewrite Z.eqb_refl; lia|]. destruct (a =? t); lia. }
    specialize (H (t - base)). replace (base + (t - base)) with t in H by lia.
    destruct (Z.ltb_spec (t - base) 0); [rewrite getz_neg in H by lia; lia|].
    destruct (Z.ltb_spec (t - base) (Z.of_nat (length l))); [lia|].
    rewrite getz_beyond in H by lia. lia. }
  rewrite sumZ_skipn_seq.
  rewrite (sumZ_map_ext _ (fun k => count_if (fun t => t =? base + Z.of_nat k) L)).
  2:{ intros k _. rewrite <- H, getz_nonneg by lia. rewrite Nat2Z.id. reflexivity. }
  rewrite hist_sum. apply count_if_ext_in. intros t Ht. specialize (Hrange t Ht).
  destruct (Z.leb_spec (base + Z.of_nat j) t); destruct (Z.ltb_spec t (base + Z.of_nat j + Z.of_nat (length l - j))); cbn; lia.
Qed.

Lemma scores_alpha M : scores M = scoresA (alpha M) M.
Proof. reflexivity. Qed.

(* sf_exact: entry i of the returned table is the number of sequences with score >= smallest+i *)
Theorem pmap_ok M : wfM M ->
  exists t, pmap M = Ok (smallest M, t) /\ length t = tlen M /\
    forall i, (i < tlen M)%nat -> nth i t 0 = count_ge M (smallest M + Z.of_nat i).
Proof.
  intros HW. destruct (dp_ok M HW) as [pdf [E [L Hn]]].
  destruct HW as [Hne [HA HM]].
  destruct (tlen_spec _ M HM HA Hne) as [Hlen Hpre].
  destruct (Hpre M []) as [B1 B2]; [assumption | rewrite app_nil_r; reflexivity |].
  exists (revcum pdf). unfold pmap. rewrite E. cbn [bind]. split; [reflexivity|].
  split; [rewrite revcum_length; exact L|].
  intros i Hi. rewrite revcum_nth.
  apply (tail_sum pdf (smallest M) (scores M)); [|lia].
  intros k. destruct (Z.ltb_spec k 0) as [Hk | Hk].
  - rewrite getz_neg by lia. symmetry. rewrite scores_alpha. apply (cnt_zero_outside _ _ _ HM). lia.
  - destruct (Z.ltb_spec k (Z.of_nat (tlen M))) as [Hk2 | Hk2].
    + rewrite getz_nonneg by lia. rewrite Hn by lia. unfold count_eq. apply count_if_ext.
      intros t. f_equal. lia.
    + rewrite getz_beyond by lia. symmetry. rewrite scores_alpha. apply (cnt_zero_outside _ _ _ HM). lia.
Qed.

(* facts about the enumeration itself *)
Lemma all_seqs_length A : forall w, length (all_seqs A w) = (A ^ w)%nat.
Proof.
  induction w as [|w IH]; [reflexivity|]. cbn [all_seqs].
  assert (G : forall l : list nat, length (flat_map (fun a => map (cons a) (all_seqs A w)) l)
                                   = (length l * A ^ w)%nat).
  { induction l as [|a l IHl]; [reflexivity|]. cbn. rewrite app_length, map_length, IHl, IH. lia. }
  rewrite G, seq_length. cbn. lia.
Qed.

Lemma scores_length M : Z.of_nat (length (scores M)) = Z.of_nat (alpha M) ^ Z.of_nat (length M).
Proof. unfold scores. rewrite map_length, all_seqs_length, Nat2Z.inj_pow. reflexivity. Qed.

Lemma count_ge_antitone M b b' : b <= b' -> count_ge M b' <= count_ge M b.
Proof. intros H. apply count_if_mono. intros x Hx. lia. Qed.

Lemma count_ge_le_total M b : 0 <= count_ge M b <= Z.of_nat (alpha M) ^ Z.of_nat (length M).
Proof.
  rewrite <- scores_length. split; [apply count_if_nonneg|]. unfold count_ge.
  rewrite <- (count_if_all (fun _ => true) (scores M)) by reflexivity.
  apply count_if_mono. reflexivity.
Qed.

Definition wfB (M : imat) : Prop := M <> [] /\ wfA (alpha M) M.

Lemma wfB_wfM M : wfB M -> wfM M.
Proof. intros [Hne HW]. split; [assumption|]. split; [apply HW | apply wfA_cols; assumption]. Qed.

(* lowest / highest attainable score = sum of the column minima / maxima *)
Theorem lowest_is_sum_min M : wfB M -> lowest M = sum_min M.
Proof.
  intros [Hne HW]. unfold lowest. rewrite scores_alpha. apply list_min_spec.
  - apply sum_min_attained; assumption.
  - intros t Ht. apply (scores_range _ _ (wfA_cols _ _ HW) _ Ht).
Qed.

Theorem highest_is_sum_max M : wfB M -> highest M = sum_max M.
Proof.
  intros [Hne HW]. unfold highest. rewrite scores_alpha. apply list_max_spec.
  - apply sum_max_attained; assumption.
  - intros t Ht. apply (scores_range _ _ (wfA_cols _ _ HW) _ Ht).
Qed.

Lemma count_ge_total M b : wfB M -> b <= lowest M ->
  count_ge M b = Z.of_nat (alpha M) ^ Z.of_nat (length M).
Proof.
  intros HW Hb. rewrite <- scores_length. apply count_if_all. intros t Ht.
  rewrite lowest_is_sum_min in Hb by assumption. destruct HW as [_ HW].
  pose proof (scores_range _ _ (wfA_cols _ _ HW) t Ht). lia.
Qed.

Lemma count_ge_zero M b : wfB M -> highest M < b -> count_ge M b = 0.
Proof.
  intros HW Hb. apply count_if_zero. intros t Ht.
  rewrite highest_is_sum_max in Hb by assumption. destruct HW as [_ HW].
  pose proof (scores_range _ _ (wfA_cols _ _ HW) t Ht). lia.
Qed.

Lemma count_ge_pos M b : wfB M -> b <= highest M -> 0 < count_ge M b.
Proof.
  intros HW Hb. rewrite highest_is_sum_max in Hb by assumption. destruct HW as [_ HW].
  pose proof (sum_max_attained _ _ HW) as Hin.
  assert (count_ge M b <> 0); [|pose proof (count_ge_le_total M b); lia].
  unfold count_ge. rewrite scores_alpha.
  clear - Hin Hb. induction (scoresA (alpha M) M) as [|a l IH]; [destruct Hin|].
  rewrite count_if_cons. pose proof (count_if_nonneg (fun t => b <=? t) l).
  destruct Hin as [-> | Hin].
  - destruct (Z.leb_spec b (sum_max M)); lia.
  - specialize (IH Hin). destruct (b <=? a); lia.
Qed.

(* ---------------------------------------------------------------------------------------- *)
(* 6. the fast evaluator computes the same numbers                                            *)

Lemma getz_nil i : getz [] i = 0.
Proof. unfold getz. destruct (i <? 0); [reflexivity|]. destruct (Z.to_nat i); reflexivity. Qed.

Lemma padd_getz : forall a b i, getz (padd a b) i = getz a i + getz b i.
Proof.
  induction a as [|x xs IH]; intros b i.
  - cbn [padd]. rewrite getz_nil. lia.
  - destruct b as [|y ys]; cbn [padd].
    + rewrite getz_nil. lia.
    + rewrite !getz_cons, IH. destruct (i =? 0); lia.
Qed.

Lemma getz_shift : forall k l i, getz (repeat 0 k ++ l) i = getz l (i - Z.of_nat k).
Proof.
  induction k as [|k IH]; intros l i.
  - cbn [repeat app]. f_equal. lia.
  - cbn [repeat app]. rewrite getz_cons. destruct (Z.eqb_spec i 0) as [-> | Hi].
    + rewrite getz_neg by lia. reflexivity.
    + rewrite IH. f_equal. lia.
Qed.

Lemma conv_fold_getz l m : forall c i, (forall d, In d c -> m <= d) ->
  getz (fold_right (fun d acc => padd (repeat 0 (Z.to_nat (d - m)) ++ l) acc) [] c) i =
  sumZ (map (fun d => getz l (i - (d - m))) c).
Proof.
  induction c as [|d c IH]; intros i H; cbn [fold_right map sumZ].
  - apply getz_nil.
  - rewrite padd_getz, getz_shift, IH by (intros; apply H; right; assumption).
    assert (m <= d) by (apply H; left; reflexivity).
    rewrite Z2Nat.id by lia. reflexivity.
Qed.

Lemma conv_col_getz c l i :
  getz (conv_col c l) i = sumZ (map (fun d => getz l (i - (d - cmin c))) c).
Proof. apply conv_fold_getz. intros d Hd. apply cmin_le; assumption. Qed.

Lemma fast_dist_getz A M : colsA A M -> forall i,
  getz (fast_dist M) i = cntA A M (fun t => t =? sum_min M + i).
Proof.
  induction 1 as [|c M Hc HM IH]; intros i.
  - cbn [fast_dist]. rewrite cntA_nil, getz_cons, getz_nil.
    change (sum_min []) with 0. rewrite Z.add_0_l.
    destruct (Z.eqb_spec i 0); destruct (Z.eqb_spec 0 i); lia.
  - cbn [fast_dist]. rewrite conv_col_getz, cntA_cons by assumption.
    apply sumZ_map_ext. intros d _. rewrite IH. apply count_if_ext. intros t.
    unfold sum_min. cbn [fold_right]. fold (sum_min M).
    destruct (Z.eqb_spec t (sum_min M + (i - (d - cmin c))));
    destruct (Z.eqb_spec (d + t) (cmin c + sum_min M + i)); lia.
Qed.

Lemma hist_range l base L :
  (forall i, getz l i = count_if (fun t => t =? base + i) L) ->
  forall t, In t L -> base <= t < base + Z.of_nat (length l).
Proof.
  intros H t Ht.
  assert (Hc : count_if (fun u => u =? t) L <> 0).
  { clear - Ht. induction L as [|a L IH]; [destruct Ht|]. rewrite count_if_cons.
    pose proof (count_if_nonneg (fun u => u =? t) L).
    destruct Ht as [-> | Ht]; [rewrite Z.eqb_refl; lia|]. destruct (a =? t); lia. }
  specialize (H (t - base)). replace (base + (t - base)) with t in H by lia.
  destruct (Z.ltb_spec (t - base) 0); [rewrite getz_neg in H by lia; lia|].
  destruct (Z.ltb_spec (t - base) (Z.of_nat (length l))); [lia|].
  rewrite getz_beyond in H by lia. lia.
Qed.

Theorem fast_ge_correct M : colsA (alpha M) M -> forall b, fast_ge M b = count_ge M b.
Proof.
  intros HM b. unfold fast_ge, fast_ge_from, fast_tail, count_ge.
  pose proof (fast_dist_getz _ M HM) as Hg. fold (scores M) in *.
  set (fd := fast_dist M) in *. set (base := sum_min M) in *.
  assert (Hg' : forall i, getz fd i = count_if (fun t => t =? base + i) (scores M)) by exact Hg.
  pose proof (hist_range fd base (scores M) Hg') as Hrange.
  destruct (Z.leb_spec b base) as [Hb | Hb].
  - rewrite revcum_hd. change (sumZ fd) with (sumZ (skipn 0 fd)).
    rewrite (tail_sum fd base (scores M) Hg' 0%nat) by lia.
    apply count_if_ext_in. intros t Ht. specialize (Hrange t Ht).
    destruct (Z.leb_spec (base + Z.of_nat 0) t); destruct (Z.leb_spec b t); lia.
  - rewrite getz_nonneg by lia. set (j := Z.to_nat (b - base)).
    destruct (Nat.le_gt_cases j (length fd)) as [Hj | Hj].
    + rewrite revcum_nth, (tail_sum fd base (scores M) Hg' j Hj).
      apply count_if_ext. intros t. f_equal. lia.
    + rewrite nth_overflow by (rewrite revcum_length; lia).
      symmetry. apply count_if_zero. intros t Ht. specialize (Hrange t Ht). lia.
Qed.

(* ---------------------------------------------------------------------------------------- *)
(* 7. the boolean spec                                                                        *)

Lemma wfb_wfB M : wfb M = true -> wfB M.
Proof.
  unfold wfb. intros H. apply andb_true_iff in H as [H H3]. apply andb_true_iff in H as [H1 H2].
  split; [destruct M; [discriminate | discriminate]|].
  split; [lia|]. apply Forall_forall. intros c Hc.
  rewrite forallb_forall in H3. specialize (H3 c Hc). apply andb_true_iff in H3 as [H4 H5].
  split; [lia|]. intros d Hd. rewrite forallb_forall in H5. specialize (H5 d Hd). lia.
Qed.

Lemma forallb_ext' {T} (f g : T -> bool) l : (forall x, f x = g x) -> forallb f l = forallb g l.
Proof. intros H. induction l as [|a l IH]; [reflexivity|]. cbn. rewrite H, IH. reflexivity. Qed.

Lemma spec_gen_ext cge1 cge2 lo1 lo2 hi1 hi2 M o :
  (wfb M = true -> (forall b, cge1 b = cge2 b) /\ lo1 = lo2 /\ hi1 = hi2) ->
  spec_gen cge1 lo1 hi1 M o = spec_gen cge2 lo2 hi2 M o.
Proof.
  intros H. unfold spec_gen. destruct (wfb M) eqn:W; [|reflexivity].
  destruct (H eq_refl) as [Hc [-> ->]]. cbn [andb].
  destruct (alpha M =? 4)%nat; [|reflexivity]. destruct o as [[sm t]|]; [|reflexivity].
  f_equal. f_equal. apply forallb_ext'. intros i. rewrite Hc. reflexivity.
Qed.

(* the fast spec is the enumeration spec, for every matrix and every observed outcome *)
Theorem spec_ok_fast_eq M o : spec_ok_fast M o = spec_ok M o.
Proof.
  unfold spec_ok_fast, spec_ok. apply spec_gen_ext. intros W. apply wfb_wfB in W.
  split; [|split].
  - intros b. apply (fast_ge_correct M). apply wfA_cols. apply W.
  - symmetry. apply lowest_is_sum_min. assumption.
  - symmetry. apply highest_is_sum_max. assumption.
Qed.

Lemma nth_map_seq {T} (f : nat -> T) n i d : (i < n)%nat -> nth i (map f (seq 0 n)) d = f i.
Proof.
  intros H. rewrite (nth_indep _ d (f O)) by (rewrite map_length, seq_length; assumption).
  rewrite (map_nth f (seq 0 n) O i), seq_nth by assumption. reflexivity.
Qed.

Lemma pmap_table M : wfM M ->
  pmap M = Ok (smallest M, map (fun i => count_ge M (smallest M + Z.of_nat i)) (seq 0 (tlen M))).
Proof.
  intros HW. destruct (pmap_ok M HW) as [t [E [L Hn]]]. rewrite E. do 2 f_equal.
  apply (nth_ext _ _ 0 0).
  - rewrite map_length, seq_length. exact L.
  - intros i Hi. rewrite L in Hi. rewrite Hn by assumption.
    rewrite nth_map_seq by assumption. reflexivity.
Qed.

Theorem model_fast_eq M : wfM M -> model_fast M = model M.
Proof.
  intros HW. unfold model, model_fast. rewrite (pmap_table M HW). cbn [to_outcome].
  destruct HW as [Hne [HA HM]]. destruct M as [|c R]; [congruence|].
  do 2 f_equal. rewrite map_map. apply map_ext. intros i. f_equal.
  apply (fast_ge_correct (c :: R)). assumption.
Qed.

Lemma cell_ok_exact w c : 0 <= c -> cell_ok w (exact_cell w c) c = true.
Proof.
  intros Hc. unfold exact_cell. destruct (Z.eqb_spec c 0) as [-> | Hz]; [reflexivity|].
  cbn [cell_ok]. replace (- (2 * w) + 2 * w) with 0 by lia. unfold close. cbn [Z.leb].
  change (pow2 0) with 1. apply andb_true_iff. split; [lia|].
  replace (c * 1 - c) with 0 by lia. cbn. lia.
Qed.

Lemma cell_le_exact w c' c : 0 <= c' <= c -> cell_le (exact_cell w c') (exact_cell w c) = true.
Proof.
  intros H. unfold exact_cell.
  destruct (Z.eqb_spec c' 0) as [-> | Hz']; destruct (Z.eqb_spec c 0) as [-> | Hz]; try reflexivity; try lia.
  cbn [cell_le]. rewrite Z.min_id, Z.sub_diag. change (pow2 0) with 1. nia.
Qed.

(* the model's table satisfies the property, for every matrix *)
Theorem spec_model M : spec_ok M (model M) = true.
Proof.
  unfold spec_ok, spec_gen. destruct (wfb M) eqn:W; [|reflexivity]. cbn [andb].
  destruct (alpha M =? 4)%nat eqn:A4; [|reflexivity].
  apply wfb_wfB in W. pose proof (wfB_wfM M W) as HW.
  unfold model. rewrite (pmap_table M HW). cbn [to_outcome].
  set (sm := smallest M). set (n := tlen M). set (w := Z.of_nat (length M)).
  set (t := map (exact_cell w) (map (fun i => count_ge M (sm + Z.of_nat i)) (seq 0 n))).
  assert (Lt : length t = n) by (unfold t; rewrite !map_length, seq_length; reflexivity).
  assert (Nt : forall i, (i < n)%nat -> nth i t dcell = exact_cell w (count_ge M (sm + Z.of_nat i))).
  { intros i Hi. unfold t. rewrite map_map. rewrite nth_map_seq by assumption. reflexivity. }
  destruct HW as [Hne [HA HM]].
  destruct (tlen_spec _ M HM HA Hne) as [Hlen Hpre].
  destruct (Hpre M []) as [B1 B2]; [assumption | rewrite app_nil_r; reflexivity |].
  rewrite Lt. fold n in B2. fold sm in B1, B2.
  rewrite (lowest_is_sum_min M W), (highest_is_sum_max M W).
  repeat (apply andb_true_iff; split).
  - lia.
  - lia.
  - apply forallb_forall. intros i Hi. apply in_seq in Hi. rewrite Nt by lia.
    apply cell_ok_exact. apply count_ge_le_total.
  - apply forallb_forall. intros i Hi. apply in_seq in Hi. rewrite !Nt by lia.
    apply cell_le_exact. split; [apply count_ge_le_total | apply count_ge_antitone; lia].
Qed.

(* ---- corollaries stated on the returned table ------------------------------------------- *)

Theorem sf_props M : wfB M ->
  exists t, pmap M = Ok (smallest M, t) /\ length t = tlen M /\
    let sm := smallest M in let total := Z.of_nat (alpha M) ^ Z.of_nat (length M) in
    (* every attainable bin has an entry *)
    sm <= lowest M /\ highest M < sm + Z.of_nat (tlen M) /\
    (* 1 at (and below) the lowest attainable score *)
    (forall i, (i < tlen M)%nat -> sm + Z.of_nat i <= lowest M -> nth i t 0 = total) /\
    (* non-increasing, between 0 and the total *)
    (forall i j, (i <= j < tlen M)%nat -> 0 <= nth j t 0 /\ nth j t 0 <= nth i t 0 /\ nth i t 0 <= total) /\
    (* zero exactly above the highest attainable score *)
    (forall i, (i < tlen M)%nat -> (nth i t 0 = 0 <-> highest M < sm + Z.of_nat i)).
Proof.
  intros W. pose proof (wfB_wfM M W) as HW.
  destruct (pmap_ok M HW) as [t [E [L Hn]]]. exists t. split; [exact E|]. split; [exact L|].
  destruct HW as [Hne [HA HM]].
  destruct (tlen_spec _ M HM HA Hne) as [Hlen Hpre].
  destruct (Hpre M []) as [B1 B2]; [assumption | rewrite app_nil_r; reflexivity |].
  cbn zeta. rewrite (lowest_is_sum_min M W), (highest_is_sum_max M W).
  split; [lia|]. split; [lia|]. split; [|split].
  - intros i Hi Hlo. rewrite Hn by assumption. apply count_ge_total; [assumption|].
    rewrite (lowest_is_sum_min M W). assumption.
  - intros i j Hij. rewrite !Hn by lia.
    pose proof (count_ge_le_total M (smallest M + Z.of_nat j)).
    pose proof (count_ge_le_total M (smallest M + Z.of_nat i)).
    pose proof (count_ge_antitone M (smallest M + Z.of_nat i) (smallest M + Z.of_nat j)). lia.
  - intros i Hi. rewrite Hn by assumption. split.
    + intros Hz. destruct (Z.lt_ge_cases (sum_max M) (smallest M + Z.of_nat i)) as [|Hge]; [assumption|].
      pose proof (count_ge_pos M (smallest M + Z.of_nat i) W) as Hp.
      rewrite (highest_is_sum_max M W) in Hp. specialize (Hp Hge). lia.
    + intros Hgt. apply count_ge_zero; [assumption|]. rewrite (highest_is_sum_max M W). assumption.
Qed.

(* ---- the pre-fix behaviours violate the spec --------------------------------------------- *)

Lemma dp_w1_v0_refuted : exists stale M, spec_ok M (model_v0 stale M) = false.
Proof. exists [5; 5; 5; 5; 5], [[0; 1; 2; 3]]. vm_compute. reflexivity. Qed.

Lemma fastmath_v0_refuted : exists M, spec_ok M (model_fastmath_v0 M) = false.
Proof. exists [[0; 1; 2; 3]; [0; 1; 2; 3]]. vm_compute. reflexivity. Qed.

(* the hypotheses are satisfiable, and the whole chain computes *)
Example c11_example :
  let M := [[-3; 0; 1; 2]; [0; 0; -5; 4]; [1; 1; 1; 1]] in
  wfb M = true /\ pmap M = Ok (-8, [64; 64; 60; 60; 60; 56; 52; 40; 40; 40; 32; 20; 12; 12; 8; 4; 0; 0; 0]) /\
  model_fast M = model M /\ spec_ok M (model M) = true.
Proof. vm_compute. repeat split. Qed.
