(* C11 - property theorems only.  Each is closed by [exact] of a lemma from Proofs.v.
   M ranges over ALL integer score matrices (list of w columns of A entries each). *)
From TM Require Import Base.Prelude C11.Model C11.Spec C11.Proofs.
Open Scope Z_scope.

(* The property: for every integerised PWM the table the model of _pwm_to_mapping returns
   satisfies the enumeration spec (each entry = #{sequences with score >= bin} / 4^w exactly,
   -inf exactly where that number is 0, every attainable bin present, non-increasing). *)
Theorem c11_table_is_exact_tail : forall M, spec_ok M (model M) = true.
Proof. exact spec_model. Qed.
Print Assumptions c11_table_is_exact_tail.

(* dp_in_bounds + dp_counts: for every matrix with >= 1 column and equally long non-empty
   columns (w = 1 included) no array access of the DP is out of range (the model returns Ok;
   an out-of-range index would make it Err) and cell k counts the sequences of score smallest+k *)
Theorem c11_dp_counts_in_bounds : forall M, wfM M ->
  exists pdf, dp M = Ok pdf /\ length pdf = tlen M /\
    forall k, (k < tlen M)%nat -> nth k pdf 0 = count_eq M (smallest M + Z.of_nat k).
Proof. exact dp_ok. Qed.
Print Assumptions c11_dp_counts_in_bounds.

(* sf_exact *)
Theorem c11_sf_exact : forall M, wfM M ->
  exists t, pmap M = Ok (smallest M, t) /\ length t = tlen M /\
    forall i, (i < tlen M)%nat -> nth i t 0 = count_ge M (smallest M + Z.of_nat i).
Proof. exact pmap_ok. Qed.
Print Assumptions c11_sf_exact.

(* sf_one_at_lowest, sf_antitone, sf_zero_above_highest, coverage of the attainable bins *)
Theorem c11_sf_props : forall M, wfB M ->
  exists t, pmap M = Ok (smallest M, t) /\ length t = tlen M /\
    let sm := smallest M in let total := Z.of_nat (alpha M) ^ Z.of_nat (length M) in
    sm <= lowest M /\ highest M < sm + Z.of_nat (tlen M) /\
    (forall i, (i < tlen M)%nat -> sm + Z.of_nat i <= lowest M -> nth i t 0 = total) /\
    (forall i j, (i <= j < tlen M)%nat -> 0 <= nth j t 0 /\ nth j t 0 <= nth i t 0 /\ nth i t 0 <= total) /\
    (forall i, (i < tlen M)%nat -> (nth i t 0 = 0 <-> highest M < sm + Z.of_nat i)).
Proof. exact sf_props. Qed.
Print Assumptions c11_sf_props.

(* lowest / highest attainable score (by enumeration) = sum of the column minima / maxima *)
Theorem c11_lowest : forall M, wfB M -> lowest M = sum_min M.
Proof. exact lowest_is_sum_min. Qed.
Theorem c11_highest : forall M, wfB M -> highest M = sum_max M.
Proof. exact highest_is_sum_max. Qed.
Print Assumptions c11_lowest.

(* the evaluators used on the correspondence cases are the objects of the theorems above *)
Theorem c11_spec_fast_is_spec : forall M o, spec_ok_fast M o = spec_ok M o.
Proof. exact spec_ok_fast_eq. Qed.
Theorem c11_model_fast_is_model : forall M, wfM M -> model_fast M = model M.
Proof. exact model_fast_eq. Qed.
Print Assumptions c11_spec_fast_is_spec.
Print Assumptions c11_model_fast_is_model.

(* hypotheses satisfiable; the chain computes *)
Example c11_hypotheses_satisfiable :
  let M := [[-3; 0; 1; 2]; [0; 0; -5; 4]; [1; 1; 1; 1]] in
  wfb M = true /\ pmap M = Ok (-8, [64; 64; 60; 60; 60; 56; 52; 40; 40; 40; 32; 20; 12; 12; 8; 4; 0; 0; 0]) /\
  model_fast M = model M /\ spec_ok M (model M) = true.
Proof. exact c11_example. Qed.

(* pre-fix behaviours (kept as model_v0 / model_fastmath_v0) violate the spec *)
Lemma c11_dp_w1_v0_refuted : exists stale M, spec_ok M (model_v0 stale M) = false.
Proof. exact dp_w1_v0_refuted. Qed.
Lemma c11_fastmath_v0_refuted : exists M, spec_ok M (model_fastmath_v0 M) = false.
Proof. exact fastmath_v0_refuted. Qed.
