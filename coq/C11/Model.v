(* C11 model: tangermeme/tools/fimo.py  _pwm_to_mapping  (after the fix: commits 7521ead, 6afbc4e).

   The code works in log2 space on float64 arrays; the model works on the exact quantity those
   floats stand for.  After column i (0-based) a cell holds  log2 (c * 4^-(i+1))  where c is a
   number of length-(i+1) prefixes; the model stores c : Z.   -inf  <->  0,
   logaddexp2 (a, log_bg + x)  <->  a + x  (one more factor 4^-1 in the unit),
   logaddexp2 (a, b) in the reverse cumulation  <->  a + b.
   Arrays are lists; every array access of the code goes through [add_at], which returns [Err]
   when the index is outside [0, len): numba does not bounds-check, so such an access would be
   undefined behaviour.  No proofs here.                                                      *)
From TM Require Import Base.Prelude.
Open Scope Z_scope.

(* the integerised PWM  int_log_pwm = round(log_pwm / bin_size), given as the list of its
   columns (motif positions); a column lists the scores of the A characters              *)
Definition imat := list (list Z).

Definition SENT : Z := 9999999.
(* for j in range(n): log_pwm_min = min(log_pwm_min, int_log_pwm[j, i])   (start 9999999) *)
Definition cmin (c : list Z) : Z := fold_left Z.min c SENT.
Definition cmax (c : list Z) : Z := fold_left Z.max c (- SENT).

(* the first loop: running sums of the column minima / maxima and their extremes over all
   prefixes *)
Fixpoint bounds_loop (M : imat) (mn mx sm lg : Z) : Z * Z :=
  match M with
  | [] => (sm, lg)
  | c :: M' => let mn' := mn + cmin c in
               let mx' := mx + cmax c in
               bounds_loop M' mn' mx' (Z.min sm mn') (Z.max lg mx')
  end.

Definition smallest (M : imat) : Z := fst (bounds_loop M 0 0 SENT (- SENT)).
(* largest += l *)
Definition largest (M : imat) : Z := snd (bounds_loop M 0 0 SENT (- SENT)) + Z.of_nat (length M).
(* numpy.empty(largest - smallest + 1) *)
Definition tlen (M : imat) : nat := Z.to_nat (largest M - smallest M + 1).

(* a[i] = logaddexp2(a[i], v) *)
Fixpoint add_nat (i : nat) (v : Z) (l : list Z) : res (list Z) :=
  match l, i with
  | [], _ => Err
  | x :: xs, O => Ok (x + v :: xs)
  | x :: xs, S i' => do r <- add_nat i' v xs ;; Ok (x :: r)
  end.
Definition add_at (i v : Z) (l : list Z) : res (list Z) :=
  if i <? 0 then Err else add_nat (Z.to_nat i) v l.

(* for i in range(n): idx = int_log_pwm[i, 0] - smallest
                      old_logpdf[idx] = logaddexp2(old_logpdf[idx], log_bg) *)
Fixpoint init_col (c : list Z) (sm : Z) (old : list Z) : res (list Z) :=
  match c with
  | [] => Ok old
  | d :: ds => do old' <- add_at (d - sm) 1 old ;; init_col ds sm old'
  end.

(* for k in range(n): idx = j + int_log_pwm[k, i]
                      logpdf[idx] = logaddexp2(logpdf[idx], log_bg + x) *)
Fixpoint push_row (c : list Z) (j x : Z) (acc : list Z) : res (list Z) :=
  match c with
  | [] => Ok acc
  | d :: ds => do acc' <- add_at (j + d) x acc ;; push_row ds j x acc'
  end.

(* for j, x in enumerate(old_logpdf): if x != -inf: ... *)
Fixpoint push (c : list Z) (old : list Z) (j : Z) (acc : list Z) : res (list Z) :=
  match old with
  | [] => Ok acc
  | x :: xs => if x =? 0 then push c xs (j + 1) acc
               else do acc' <- push_row c j x acc ;; push c xs (j + 1) acc'
  end.

(* for i in range(1, l): logpdf[:] = -inf; scatter; old_logpdf[:] = logpdf[:] *)
Fixpoint columns (M : imat) (n : nat) (old : list Z) : res (list Z) :=
  match M with
  | [] => Ok old
  | c :: M' => do new <- push c old 0 (repeat 0 n) ;; columns M' n new
  end.

(* the pmf after the last column, as counts; for l = 1 the fix copies old_logpdf into logpdf *)
Definition dp (M : imat) : res (list Z) :=
  match M with
  | [] => Err                                   (* int_log_pwm[i, 0] does not exist *)
  | c :: M' => let n := tlen M in
               do old <- init_col c (smallest M) (repeat 0 n) ;;
               columns M' n old
  end.

(* for i in range(len(logpdf) - 2, -1, -1): logpdf[i] = logaddexp2(logpdf[i], logpdf[i+1]) *)
Fixpoint revcum (l : list Z) : list Z :=
  match l with
  | [] => []
  | x :: xs => let r := revcum xs in (x + hd 0 r) :: r
  end.

(* return smallest, logpdf : cell b holds #{sequences with integer score >= smallest + b} *)
Definition pmap (M : imat) : res (Z * list Z) :=
  do pdf <- dp M ;; Ok (smallest M, revcum pdf).

(* ---- pre-fix behaviours, kept for the refutation lemmas ------------------------------- *)

(* before 6afbc4e: for l = 1 the loop over columns never runs and the reverse cumulation is
   applied to the never-written numpy.empty buffer [stale] *)
Definition dp_v0 (stale : list Z) (M : imat) : res (list Z) :=
  match M with
  | [c] => do _ <- init_col c (smallest M) (repeat 0 (tlen M)) ;; Ok (firstn (tlen M) stale)
  | _ => dp M
  end.
Definition pmap_v0 (stale : list Z) (M : imat) : res (Z * list Z) :=
  do pdf <- dp_v0 stale M ;; Ok (smallest M, revcum pdf).

(* before 7521ead: logaddexp2 compiled with fastmath=True.  As observed on the pinned
   numba/LLVM build the guard for two -inf operands is dropped, giving NaN, and max/min
   treat a NaN operand as absent (vmax = vmin = the other operand, result x + log2(2) ). *)
Inductive fcell := FC (c : Z) | FNaN.
Definition ladd_v0 (x y : fcell) : fcell :=
  match x, y with
  | FC a, FC b => if (a =? 0) && (b =? 0) then FNaN else FC (a + b)
  | FC a, FNaN => if a =? 0 then FNaN else FC (2 * a)
  | FNaN, FC b => if b =? 0 then FNaN else FC (2 * b)
  | FNaN, FNaN => FNaN
  end.
Fixpoint revcum_v0 (l : list Z) : list fcell :=
  match l with
  | [] => []
  | [x] => [FC x]
  | x :: xs => let r := revcum_v0 xs in ladd_v0 (FC x) (hd FNaN r) :: r
  end.
Definition pmap_fastmath_v0 (M : imat) : res (Z * list fcell) :=
  do pdf <- dp M ;; Ok (smallest M, revcum_v0 pdf).
