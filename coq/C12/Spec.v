(* C12 spec: "fimo reports a hit for exactly those windows - every start 0..L-w of every
   sequence, forward strand and (when requested) reverse-complemented motif - whose log-odds
   score exceeds the score threshold implied by the p-value threshold; sequence, start, end,
   strand, score and p-value of each hit are correct; dim=0, dim=1 and return_counts describe
   the same hit set".

   Written pointwise and independently of the model: scores are sums over positions addressed
   by index (the reverse strand by the mirrored, complemented entry, no matrix is built); the
   threshold is the least integer bin whose exact tail probability (C11, [fast_ge] = the
   enumeration count by C11.spec_ok_fast_eq / fast_ge_correct) is below the p-value threshold,
   taken from the FORWARD matrix for both strands; rational arithmetic is QArith's.
   Float results of the implementation are compared within 1e-9; windows whose exact score is
   within 1e-9 of the threshold may or may not be reported.                                   *)
From TM Require Import Base.Prelude C11.Model C11.Spec C12.Model.
From Coq Require Import QArith Qabs.
Open Scope Z_scope.

Fixpoint sumz (l : list Z) : Z := match l with [] => 0 | x :: xs => x + sumz xs end.

(* literal printer of the harness *)
Definition mkQ (n : Z) (d : positive) : Q := Qmake n d.
Arguments mkQ _%Z _%positive.

Definition tol : Q := 1 # 1000000000.
Definition Qltb (a b : Q) : bool := negb (Qle_bool b a).
Definition Qtrunc (q : Q) : Z := Z.quot (Qnum q) (Zpos (Qden q)).     (* toward zero *)

(* ---- scope -------------------------------------------------------------------------------- *)

(* |entry / bin - r| <= 1/2 : r is a nearest integer of the log-odds entry in units of bin *)
Definition rounded1 (K : Z) (bin : Q) (e r : Z) : bool :=
  Z.abs (2 * e * Zpos (Qden bin) - 2 * r * (2 ^ K * Qnum bin)) <=? 2 ^ K * Qnum bin.

Definition col_ok (K : Z) (bin : Q) (lc ic : list Z) : bool :=
  (length lc =? 4)%nat && (length ic =? 4)%nat &&
  forallb (fun p => rounded1 K bin (fst p) (snd p)) (combine lc ic) &&
  (0 <=? cmax ic).          (* a column of probabilities has an entry >= 1/4 *)

Definition motif_ok (K : Z) (bin : Q) (m : motif) : bool :=
  (0 <? length (lo m))%nat && (length (lo m) =? length (im m))%nat && wfb (im m) &&
  forallb (fun p => col_ok K bin (fst p) (snd p)) (combine (lo m) (im m)).

Definition scope (c : call) : bool :=
  (0 <=? cK c) && (0 <? Qnum (cbin c)) &&
  (0 <? Qnum (cthr c)) && (Qnum (cthr c) <=? Zpos (Qden (cthr c))) &&
  (0 <? length (cmotifs c))%nat && forallb (motif_ok (cK c) (cbin c)) (cmotifs c) &&
  forallb (forallb (fun x => (-1 <=? x) && (x <=? 3))) (cseqs c).

(* ---- expected values, pointwise ------------------------------------------------------------ *)

(* log-odds numerator of character x at motif position j; the reverse-complemented motif has
   at position j, character x the forward entry of position w-1-j, character 3-x *)
Definition spec_entry (lo : list (list Z)) (plus : bool) (j : nat) (x : Z) : Z :=
  if x =? -1 then 0
  else if plus then nth (Z.to_nat x) (nth j lo []) 0
  else nth (Z.to_nat (3 - x)) (nth (length lo - 1 - j) lo []) 0.

(* sum over motif positions j of the entry for the character at sequence position i + j
   (position i + j is position j of the sequence with its first i characters dropped) *)
Definition spec_score (lo : list (list Z)) (plus : bool) (s : list Z) (i : nat) : Z :=
  let t := skipn i s in
  sumz (map (fun j => spec_entry lo plus j (nth j t (-1))) (seq 0 (length lo))).

(* exact tail probability of integer bin b, from a precomputed tail list *)
Definition tailp (tl : list Z) (base : Z) (w : nat) (b : Z) : Q := probQ (fast_ge_from tl base b) w.

(* least bin whose tail probability is below the threshold *)
Definition spec_b0 (tl : list Z) (base hi : Z) (w : nat) (thr : Q) : option Z :=
  find (fun b => Qltb (tailp tl base w b) thr)
       (map (fun k => base + Z.of_nat k) (seq 0 (Z.to_nat (hi - base + 2)))).

(* the same search walking the tail list once (equal: Proofs.spec_b0_fast_eq) *)
Definition spec_b0_fast (tl : list Z) (base hi : Z) (w : nat) (thr : Q) : option Z :=
  let m := Z.to_nat (hi - base + 2) in
  match find (fun p => Qltb (probQ (snd p) w) thr)
             (combine (map (fun k => base + Z.of_nat k) (seq 0 m)) (firstn m (tl ++ repeat 0 m))) with
  | Some p => Some (fst p)
  | None => None
  end.

Inductive wclass := WHit | WMiss | WAmb.

Definition classify (T : option Q) (sQ : Q) : wclass :=
  match T with
  | None => WMiss
  | Some t => if Qltb (t + tol)%Q sQ then WHit else if Qltb sQ (t - tol)%Q then WMiss else WAmb
  end.

(* A window consisting only of unknown characters has the float score 0.0 exactly (nothing is
   added), and the float threshold (idx+smallest)*bin_size has the sign of its exact value and is
   0.0 exactly when the threshold bin is 0: the comparison is decided exactly, no band. *)
Definition all_unknown (s : list Z) (i w : nat) : bool :=
  forallb (fun x => x =? -1) (firstn w (skipn i s)).

Definition wcls (tie : bool) (T : option Q) (s : list Z) (i w : nat) (sQ : Q) : wclass :=
  if tie then WAmb        (* some bin's exact p-value equals the threshold: the threshold bin is not decidable in floats *)
  else if all_unknown s i w then
    match T with
    | None => WMiss
    | Some t => if Qltb t sQ then WHit else WMiss
    end
  else classify T sQ.

Definition same_key (k : Z) (plus : bool) (l i : Z) (h : hit) : bool :=
  (h_motif h =? k) && Bool.eqb (h_plus h) plus && (h_seq h =? l) && (h_start h =? i).

Definition count_key (hs : list hit) (k : Z) (plus : bool) (l i : Z) : Z :=
  Z.of_nat (length (filter (same_key k plus l i) hs)).

Definition Qclose (x y scale : Q) : bool := Qle_bool (Qabs (x - y)%Q) (tol * scale)%Q.
Definition Qmax1 (x : Q) : Q := if Qle_bool 1 (Qabs x) then Qabs x else 1.

Definition strands (rc : bool) : list bool := if rc then [true; false] else [true].

(* per-motif context: tail list, base, highest, width, threshold bin *)
Record mctx := MC { m_tl : list Z; m_base : Z; m_w : nat; m_T : option Q; m_tie : bool }.
Definition mctx_of (c : call) (m : motif) : mctx :=
  let tl := fast_tail (im m) in
  let base := sum_min (im m) in
  let w := length (lo m) in
  MC tl base w
     (match spec_b0_fast tl base (sum_max (im m)) w (cthr c) with
      | None => None
      | Some b0 => Some (inject_Z b0 * cbin c)%Q
      end)
     (* a table entry within 1e-9 (relative) of the p-value threshold: `table < log_threshold` is
        decided by float rounding (only dyadic thresholds such as 0.5 or 1/16 can do this) *)
     (existsb (fun cnt => Qclose (probQ cnt w) (cthr c) (cthr c)) tl).

(* the p-value of a window score: the table entry of its bin int(score / bin); when the
   quotient is within 1e-9 of an integer either neighbouring bin is accepted *)
Definition p_ok (c : call) (x : mctx) (sQ p : Q) : bool :=
  let q := (sQ / cbin c)%Q in
  existsb (fun b => let e := tailp (m_tl x) (m_base x) (m_w x) b in Qclose p e e)
          [Qtrunc q; Qtrunc (q - tol)%Q; Qtrunc (q + tol)%Q].

Definition hit_ok (c : call) (ctxs : list mctx) (h : hit) : bool :=
  let n := length (cmotifs c) in
  (0 <=? h_motif h) && (h_motif h <? Z.of_nat n) &&
  (h_plus h || crc c) &&
  (0 <=? h_seq h) && (h_seq h <? Z.of_nat (length (cseqs c))) &&
  let m := nth (Z.to_nat (h_motif h)) (cmotifs c) (Mo [] []) in
  let x := nth (Z.to_nat (h_motif h)) ctxs (MC [] 0 0 None false) in
  let s := nth (Z.to_nat (h_seq h)) (cseqs c) [] in
  let w := Z.of_nat (length (lo m)) in
  (0 <=? h_start h) && (h_start h + w <=? Z.of_nat (length s)) && (h_end h =? h_start h + w) &&
  let sQ := scoreQ (cK c) (spec_score (lo m) (h_plus h) s (Z.to_nat (h_start h))) in
  (match wcls (m_tie x) (m_T x) s (Z.to_nat (h_start h)) (length (lo m)) sQ with WMiss => false | _ => true end) &&
  Qclose (h_score h) sQ (Qmax1 sQ) &&
  p_ok c x sQ (h_p h) &&
  (Qltb (h_p h) (cthr c) || Qclose (h_p h) (cthr c) (cthr c)).

(* every window is reported exactly once if it is a hit, never if it is not *)
Definition windows_ok (c : call) (ctxs : list mctx) (hs : list hit) : bool :=
  forallb (fun k =>
    let m := nth k (cmotifs c) (Mo [] []) in
    let x := nth k ctxs (MC [] 0 0 None false) in
    let w := length (lo m) in
    forallb (fun plus =>
      forallb (fun l =>
        let s := nth l (cseqs c) [] in
        forallb (fun i =>
          let sQ := scoreQ (cK c) (spec_score (lo m) plus s i) in
          let n := count_key hs (Z.of_nat k) plus (Z.of_nat l) (Z.of_nat i) in
          match wcls (m_tie x) (m_T x) s i w sQ with
          | WHit => n =? 1
          | WMiss => n =? 0
          | WAmb => n <=? 1
          end) (seq 0 (length s + 1 - w)))
        (seq 0 (length (cseqs c))))
      (strands (crc c)))
    (seq 0 (length (cmotifs c))).

Definition hits_ok (c : call) (ctxs : list mctx) (hs : list hit) : bool :=
  forallb (hit_ok c ctxs) hs && windows_ok c ctxs hs.

(* number of windows of motif k in a class *)
Definition count_class (c : call) (ctxs : list mctx) (k : nat) (cls : wclass) : Z :=
  let m := nth k (cmotifs c) (Mo [] []) in
  let x := nth k ctxs (MC [] 0 0 None false) in
  let w := length (lo m) in
  sumz (map (fun plus =>
    sumz (map (fun l =>
      let s := nth l (cseqs c) [] in
      Z.of_nat (length (filter (fun i =>
        match wcls (m_tie x) (m_T x) s i w (scoreQ (cK c) (spec_score (lo m) plus s i)), cls with
        | WHit, WHit | WAmb, WAmb => true
        | _, _ => false
        end) (seq 0 (length s + 1 - w)))))
      (seq 0 (length (cseqs c)))))
    (strands (crc c))).

Fixpoint nodupz (l : list Z) : bool :=
  match l with [] => true | x :: xs => negb (existsb (Z.eqb x) xs) && nodupz xs end.

Definition spec_ok (c : call) (o : outcome) : bool :=
  if scope c then
    let ctxs := map (mctx_of c) (cmotifs c) in
    let n := length (cmotifs c) in
    match cmode c, o with
    | Dim0, Ok (ODim0 g) =>
        (* one frame per motif, holding that motif's hits; together: the hit set *)
        (length g =? n)%nat &&
        forallb (fun k => forallb (fun h => h_motif h =? Z.of_nat k) (nth k g [])) (seq 0 n) &&
        hits_ok c ctxs (concat g)
    | Dim1, Ok (ODim1 g) =>
        (* one non-empty frame per sequence that has a hit; together: the same hit set *)
        forallb (fun grp => match grp with
                            | [] => false
                            | h :: _ => forallb (fun h' => h_seq h' =? h_seq h) grp
                            end) g &&
        nodupz (map (fun grp => match grp with [] => -1 | h :: _ => h_seq h end) g) &&
        hits_ok c ctxs (concat g)
    | Counts, Ok (OCounts cs) =>
        (* the cardinalities of the same hit set, per motif *)
        (length cs =? n)%nat &&
        forallb (fun k => let lower := count_class c ctxs k WHit in
                          let v := nth k cs (-1) in
                          (lower <=? v) && (v <=? lower + count_class c ctxs k WAmb)) (seq 0 n)
    | _, _ => false
    end
  else true.

(* ---- correspondence -------------------------------------------------------------------------- *)

Definition model (c : call) : outcome := fimo c.

(* some window is within 1e-9 of its threshold, or some reported window within 1e-9 of a bin
   edge: the float implementation may legitimately differ from the exact model there *)
Definition has_amb (c : call) : bool :=
  let ctxs := map (mctx_of c) (cmotifs c) in
  existsb (fun k =>
    let m := nth k (cmotifs c) (Mo [] []) in
    let x := nth k ctxs (MC [] 0 0 None false) in
    existsb (fun plus =>
      existsb (fun l =>
        let s := nth l (cseqs c) [] in
        existsb (fun i =>
          let sQ := scoreQ (cK c) (spec_score (lo m) plus s i) in
          match wcls (m_tie x) (m_T x) s i (length (lo m)) sQ with
          | WAmb => true
          | WMiss => false
          | WHit => let q := (sQ / cbin c)%Q in
                    negb ((Qtrunc q =? Qtrunc (q - tol)%Q) && (Qtrunc q =? Qtrunc (q + tol)%Q))
          end) (seq 0 (length s + 1 - length (lo m))))
        (seq 0 (length (cseqs c))))
      (strands (crc c)))
    (seq 0 (length (cmotifs c))).

Definition hit_close (h1 h2 : hit) : bool :=
  same_key (h_motif h1) (h_plus h1) (h_seq h1) (h_start h1) h2 && (h_end h1 =? h_end h2) &&
  Qclose (h_score h1) (h_score h2) (Qmax1 (h_score h2)) && Qclose (h_p h1) (h_p h2) (h_p h2).

Definition group_eqb (g1 g2 : list hit) : bool :=
  (length g1 =? length g2)%nat &&
  forallb (fun h => existsb (hit_close h) g2) g1 &&
  forallb (fun h => existsb (fun h' => hit_close h' h) g1) g2.

Definition groups_eqb (a b : list (list hit)) : bool :=
  (length a =? length b)%nat && forallb (fun p => group_eqb (fst p) (snd p)) (combine a b).

Definition outcome_eqb (o1 o2 : outcome) : bool :=
  match o1, o2 with
  | Ok (ODim0 a), Ok (ODim0 b) | Ok (ODim1 a), Ok (ODim1 b) => groups_eqb a b
  | Ok (OCounts a), Ok (OCounts b) => list_eqb Z.eqb a b
  | Err, Err => true
  | _, _ => false
  end.

Definition case := (call * outcome)%type.

Definition check_case (cs : case) : nat :=
  let '(c, o) := cs in
  verdict (if outcome_eqb o (fimo_fast c) then true else scope c && has_amb c) (spec_ok c o).
