(* C12 - property theorems only.  Each is closed by [exact] of a lemma from Proofs.v.
   c ranges over ALL calls (any number / width of motifs, any sequences, any K, bin, threshold,
   both reverse_complement settings, all three output modes). *)
From TM Require Import Base.Prelude C11.Model C11.Spec C11.Proofs C12.Model C12.Spec C12.Proofs.
From Coq Require Import QArith.
Open Scope Z_scope.

(* The property: the outcome of the model of fimo() satisfies the pointwise spec - every window
   0..L-w of every sequence, on the strands requested, is reported exactly once iff its exact
   score exceeds the threshold implied by the p-value threshold (never when it is below it), each
   hit's motif, sequence, start, end, strand, score and p-value are the window's, the p-value is
   below the threshold, dim=0 / dim=1 / return_counts describe that one hit set; no table lookup
   is out of range (an out-of-range index would make the model Err, which the spec rejects).
   In scope = [scope c]: log-odds within half a bin of the integerised entries, columns with a
   non-negative integer maximum (true of probability columns), 0 < threshold <= 1. *)
Theorem c12_hits_exact : forall c, spec_ok c (model c) = true.
Proof. exact spec_model. Qed.
Print Assumptions c12_hits_exact.

(* scan_windows *)
Theorem c12_scan_windows : forall L w,
  NoDup (starts L w) /\ forall i, In i (starts L w) <-> (i + w <= L)%nat.
Proof. exact scan_windows. Qed.
Print Assumptions c12_scan_windows.

(* hit_iff, with fields and p-value below the threshold *)
Theorem c12_hit_iff : forall c, cgood c ->
  (forall h, In h (all_hits c) ->
     exists k m plus l s i,
       nth_error (cmotifs c) k = Some m /\ (plus = true \/ crc c = true) /\
       nth_error (cseqs c) l = Some s /\ (i + length (lo m) <= length s)%nat /\
       h = mk_hit (cK c) (cbin c) (count_ge (im m)) (lo m) (Z.of_nat k) (Z.of_nat l) plus s i /\
       (inject_Z (b0of c m) * cbin c < scoreQ (cK c) (spec_score (lo m) plus s i))%Q /\
       (h_p h < cthr c)%Q) /\
  (forall k m plus l s i,
     nth_error (cmotifs c) k = Some m -> (plus = true \/ crc c = true) ->
     nth_error (cseqs c) l = Some s -> (i + length (lo m) <= length s)%nat ->
     (inject_Z (b0of c m) * cbin c < scoreQ (cK c) (spec_score (lo m) plus s i))%Q ->
     In (mk_hit (cK c) (cbin c) (count_ge (im m)) (lo m) (Z.of_nat k) (Z.of_nat l) plus s i) (all_hits c) /\
     count_key (all_hits c) (Z.of_nat k) plus (Z.of_nat l) (Z.of_nat i) = 1).
Proof. exact hit_iff. Qed.
Print Assumptions c12_hit_iff.

(* the model's outcome is the explicit hit list in the three views (regroup) *)
Theorem c12_regroup : forall c, cgood c ->
  let g0 := pgroups c (cmotifs c) 0 in
  let g1 := by_seq (length (cseqs c)) (all_hits c) in
  (fimo c = match cmode c with
            | Dim0 => Ok (ODim0 g0) | Dim1 => Ok (ODim1 g1)
            | Counts => Ok (OCounts (map (fun g => Z.of_nat (length g)) g0)) end) /\
  concat g0 = all_hits c /\
  (forall h, In h (concat g1) <-> In h (all_hits c)) /\
  (forall k plus l i, count_key (concat g1) k plus l i = count_key (all_hits c) k plus l i) /\
  (forall g, In g g1 -> g <> [] /\ exists l, forall h, In h g -> h_seq h = l).
Proof. exact regroup. Qed.
Print Assumptions c12_regroup.

(* rc_mirror (exact arithmetic): window i of rc(seq) on one strand = window L-w-i of seq on the
   other strand: same pass/fail, same score, same p-value, mirrored coordinates *)
Theorem c12_rc_mirror : forall c m plus s i, chars_ok s -> (i + length (lo m) <= length s)%nat ->
  let i' := (length s - length (lo m) - i)%nat in
  passw c m plus (rcseq s) i = passw c m (negb plus) s i' /\
  forall k l l',
    let h := mk_hit (cK c) (cbin c) (count_ge (im m)) (lo m) k l plus (rcseq s) i in
    let h' := mk_hit (cK c) (cbin c) (count_ge (im m)) (lo m) k l' (negb plus) s i' in
    h_score h = h_score h' /\ h_p h = h_p h' /\ h_plus h = negb (h_plus h') /\
    h_start h' = Z.of_nat (length s) - h_end h /\ h_end h' = Z.of_nat (length s) - h_start h.
Proof. exact rc_mirror. Qed.
Print Assumptions c12_rc_mirror.

(* the reverse-complemented integer matrix has the same tail counts, hence the same table
   values and the same score threshold on both strands *)
Theorem c12_rc_same_distribution : forall M b, M <> [] -> colsA (alpha M) M ->
  count_ge (rc_mat M) b = count_ge M b.
Proof. exact count_ge_rc. Qed.
Print Assumptions c12_rc_same_distribution.

(* what vm_compute runs on the correspondence cases is the model of the theorems *)
Theorem c12_fimo_fast_is_fimo : forall c, cgood c -> fimo_fast c = fimo c.
Proof. exact fimo_fast_eq. Qed.
Theorem c12_scope_good : forall c, scope c = true -> cgood c.
Proof. exact scope_good. Qed.
Print Assumptions c12_fimo_fast_is_fimo.

Example c12_hypotheses_satisfiable :
  scope (c_small Dim0) = true /\
  fimo (c_small Dim0) = Ok (ODim0 [[Hit 0 0 1 3 true (mkQ 4 1) (mkQ 1 16)]]) /\
  fimo (c_small Counts) = Ok (OCounts [1]) /\
  fimo_fast (c_small Dim1) = fimo (c_small Dim1) /\
  spec_ok (c_small Dim1) (fimo (c_small Dim1)) = true.
Proof. exact c12_example. Qed.

(* pre-fix behaviours violate the spec on in-scope calls *)
Lemma c12_scan_v0_last_window_refuted : exists c, scope c = true /\ spec_ok c (fimo_v0_last_window c) = false.
Proof. exact scan_v0_last_window_refuted. Qed.
Lemma c12_counts_v0_refuted : exists c, scope c = true /\ spec_ok c (fimo_v0_counts c) = false.
Proof. exact counts_v0_refuted. Qed.
Lemma c12_f32_threshold_v0_refuted : exists c, scope c = true /\ spec_ok c (fimo_v0_f32 c) = false.
Proof. exact f32_threshold_v0_refuted. Qed.
