(* C12 proofs.  Road map:
   A. the reverse-complemented matrix has the same score distribution (tail counts);
   B. the integer decisions of the model are the rational ones (QArith) of the spec;
   C. the window score of the model is the pointwise sum of the spec, on both strands;
   D. thresholds: the first table entry below the p-value threshold is the least such bin;
   E. a window passing the threshold test has its bin inside the table (given the rounding
      relation between log-odds and integerised entries) and a p-value below the threshold;
   F. the scan of one sequence / one motif / all motifs as explicit lists, their key counts;
   G. the boolean spec holds of the model's outcome (Dim0, Dim1, Counts);
   H. rc_mirror, regroup, refutations of the pre-fix behaviours. *)
From TM Require Import Base.Prelude Base.PyList C11.Model C11.Spec C11.Proofs C12.Model C12.Spec.
From Coq Require Import QArith Qabs Lqa.
Open Scope Z_scope.

(* ---------------------------------------------------------------------------------------- *)
(* A. reverse complement of the integer matrix                                               *)

Lemma sumZ_rev l : sumZ (rev l) = sumZ l.
Proof. induction l as [|x l IH]; [reflexivity|]. cbn [rev]. rewrite sumZ_app, IH. cbn. lia. Qed.

Lemma rc_mat_cons (c : list Z) M : rc_mat (c :: M) = rc_mat M ++ [rev c].
Proof. reflexivity. Qed.

Lemma rc_mat_length M : length (rc_mat M) = length M.
Proof. unfold rc_mat. rewrite rev_length, map_length. reflexivity. Qed.

Lemma colsA_rc A M : colsA A M -> colsA A (rc_mat M).
Proof.
  induction 1 as [|c M Hc HM IH]; [constructor|].
  rewrite rc_mat_cons. apply colsA_app. split; [assumption|].
  constructor; [rewrite rev_length; assumption | constructor].
Qed.

Lemma cntA_rc A M : colsA A M -> forall p, cntA A (rc_mat M) p = cntA A M p.
Proof.
  induction 1 as [|c M Hc HM IH]; intros p; [reflexivity|].
  rewrite rc_mat_cons, cntA_snoc by (try apply colsA_rc; try rewrite rev_length; assumption).
  rewrite cntA_cons by assumption. rewrite map_rev, sumZ_rev.
  apply sumZ_map_ext. intros d _. rewrite IH. apply count_if_ext. intros t. f_equal. lia.
Qed.

Lemma alpha_rc A M : M <> [] -> colsA A M -> alpha (rc_mat M) = A.
Proof.
  intros Hne HM. pose proof (colsA_rc A M HM) as H.
  unfold alpha. destruct (rc_mat M) as [|c R] eqn:E.
  - apply (f_equal (@length _)) in E. rewrite rc_mat_length in E. destruct M; [congruence | discriminate].
  - apply Forall_cons_iff in H as [Hc _]. exact Hc.
Qed.

Lemma alpha_colsA A M : M <> [] -> colsA A M -> alpha M = A.
Proof. intros Hne H. destruct M as [|c R]; [congruence|]. apply Forall_cons_iff in H as [Hc _]. exact Hc. Qed.

Lemma count_ge_rc M b : M <> [] -> colsA (alpha M) M -> count_ge (rc_mat M) b = count_ge M b.
Proof.
  intros Hne HM. unfold count_ge. rewrite !scores_alpha.
  rewrite (alpha_rc (alpha M) M Hne HM). apply (cntA_rc _ _ HM).
Qed.

Lemma wfB_rc M : wfB M -> wfB (rc_mat M).
Proof.
  intros [Hne [HA HF]].
  assert (Hne' : rc_mat M <> []).
  { intros E. apply (f_equal (@length _)) in E. rewrite rc_mat_length in E. destruct M; [congruence | discriminate]. }
  split; [exact Hne'|].
  assert (HM : colsA (alpha M) M) by (eapply Forall_impl; [|exact HF]; intros c [Hc _]; exact Hc).
  rewrite (alpha_rc (alpha M) M Hne HM). split; [exact HA|].
  unfold rc_mat. apply Forall_rev. apply Forall_map. eapply Forall_impl; [|exact HF].
  intros c [Hc Hb]. split; [rewrite rev_length; exact Hc|].
  intros d Hd. apply Hb. apply in_rev. exact Hd.
Qed.

(* ---------------------------------------------------------------------------------------- *)
(* B. integer decisions = rational decisions                                                  *)

Lemma Qltb_lt a b : Qltb a b = true <-> (a < b)%Q.
Proof.
  unfold Qltb. rewrite negb_true_iff. split.
  - intros H. apply Qnot_le_lt. intros Hle. apply Qle_bool_iff in Hle. congruence.
  - intros H. destruct (Qle_bool b a) eqn:E; [|reflexivity].
    apply Qle_bool_iff in E. apply Qlt_not_le in H. contradiction.
Qed.

Lemma Qltb_false a b : Qltb a b = false <-> (b <= a)%Q.
Proof.
  unfold Qltb. rewrite negb_false_iff. apply Qle_bool_iff.
Qed.

Lemma pow2_pos K : 0 <= K -> 0 < 2 ^ K.
Proof. intros. apply Z.pow_pos_nonneg; lia. Qed.

Lemma pow4_pos w : 0 < pow4 w.
Proof. unfold pow4. apply Z.pow_pos_nonneg; lia. Qed.

Lemma probQ_below cnt w thr : Qltb (probQ cnt w) thr = p_below cnt (pow4 w) thr.
Proof.
  unfold Qltb, Qle_bool, probQ, p_below. cbn [Qnum Qden].
  rewrite Z2Pos.id by apply pow4_pos.
  destruct (Z.leb_spec (Qnum thr * pow4 w) (cnt * Zpos (Qden thr)));
  destruct (Z.ltb_spec (cnt * Zpos (Qden thr)) (Qnum thr * pow4 w)); cbn; lia.
Qed.

Lemma passes_Qltb K bin b sZ : 0 <= K ->
  passes K bin b sZ = Qltb (inject_Z b * bin)%Q (scoreQ K sZ).
Proof.
  intros HK. unfold passes, Qltb, Qle_bool, scoreQ. cbn [Qnum Qden Qmult inject_Z].
  rewrite Z2Pos.id by (apply pow2_pos; assumption).
  rewrite Pos2Z.inj_mul. cbn [Z.mul]. 
  destruct (Z.leb_spec (sZ * Zpos (1 * Qden bin)) (b * Qnum bin * 2 ^ K));
  destruct (Z.ltb_spec (b * Qnum bin * 2 ^ K) (sZ * Zpos (Qden bin))); cbn; lia.
Qed.

Lemma score_bin_Qtrunc K bin sZ : 0 <= K -> 0 < Qnum bin ->
  score_bin K bin sZ = Qtrunc (scoreQ K sZ / bin)%Q.
Proof.
  intros HK Hb. unfold score_bin, Qtrunc, scoreQ, Qdiv, Qinv.
  destruct (Qnum bin) as [|p|p] eqn:E; try lia.
  cbn [Qnum Qden Qmult]. rewrite Pos2Z.inj_mul. rewrite Z2Pos.id by (apply pow2_pos; assumption).
  reflexivity.
Qed.

(* ---------------------------------------------------------------------------------------- *)
(* C. window scores                                                                           *)

Lemma sumz_sumZ l : sumz l = sumZ l.
Proof. induction l as [|x l IH]; [reflexivity|]. cbn. rewrite IH. reflexivity. Qed.

Lemma sumz_map_ext {T} (f g : T -> Z) l :
  (forall x, In x l -> f x = g x) -> sumz (map f l) = sumz (map g l).
Proof. rewrite !sumz_sumZ. apply sumZ_map_ext. Qed.

Lemma sumz_map_zero {T} (l : list T) : sumz (map (fun _ => 0) l) = 0.
Proof. rewrite sumz_sumZ. apply sumZ_map_zero. Qed.

Lemma entry_unknown col : entry col (-1) = 0.
Proof. reflexivity. Qed.

Lemma wscore_sum : forall cols win,
  wscore cols win =
  sumz (map (fun j => entry (nth j cols []) (nth j win (-1))) (seq 0 (length cols))).
Proof.
  induction cols as [|col cols IH]; intros win; [reflexivity|].
  destruct win as [|x win].
  - cbn [wscore]. rewrite (sumz_map_ext _ (fun _ => 0)); [rewrite sumz_map_zero; reflexivity|].
    intros j _. destruct j; reflexivity.
  - cbn [wscore length seq map sumz nth]. f_equal.
    rewrite IH, <- seq_shift, map_map. reflexivity.
Qed.

Lemma window_nth (s : list Z) i w j : (j < w)%nat ->
  nth j (firstn w (skipn i s)) (-1) = nth (i + j) s (-1).
Proof. intros H. rewrite nth_firstn by assumption. apply nth_skipn. Qed.

Definition cols4 (lo : list (list Z)) : Prop := Forall (fun c => length c = 4%nat) lo.
Definition chars_ok (s : list Z) : Prop := Forall (fun x => -1 <= x <= 3) s.

Lemma spec_score_nth lo plus s i :
  spec_score lo plus s i =
  sumz (map (fun j => spec_entry lo plus j (nth (i + j) s (-1))) (seq 0 (length lo))).
Proof. unfold spec_score. apply sumz_map_ext. intros j _. rewrite nth_skipn. reflexivity. Qed.

Lemma wscore_spec_plus lo s i :
  wscore lo (firstn (length lo) (skipn i s)) = spec_score lo true s i.
Proof.
  rewrite wscore_sum, spec_score_nth. apply sumz_map_ext. intros j Hj. apply in_seq in Hj.
  rewrite window_nth by lia. reflexivity.
Qed.

Lemma nth_rc_mat (lo : list (list Z)) j : (j < length lo)%nat ->
  nth j (rc_mat lo) [] = rev (nth (length lo - 1 - j) lo []).
Proof.
  intros Hj. unfold rc_mat. rewrite rev_nth by (rewrite map_length; assumption).
  rewrite map_length. change [] with (rev (@nil Z)) at 1. rewrite map_nth.
  f_equal. f_equal. lia.
Qed.

Lemma chars_nth s k : chars_ok s -> -1 <= nth k s (-1) <= 3.
Proof.
  intros H. destruct (Nat.lt_ge_cases k (length s)) as [Hk | Hk].
  - unfold chars_ok in H. rewrite Forall_forall in H. apply H. apply nth_In. assumption.
  - rewrite nth_overflow by assumption. lia.
Qed.

Lemma entry_rev col x : length col = 4%nat -> -1 <= x <= 3 ->
  entry (rev col) x = if x =? -1 then 0 else nth (Z.to_nat (3 - x)) col 0.
Proof.
  intros Hc Hx. unfold entry. destruct (Z.eqb_spec x (-1)); [reflexivity|].
  rewrite rev_nth by lia. f_equal. lia.
Qed.

Lemma wscore_spec_minus lo s i : cols4 lo -> chars_ok s ->
  wscore (rc_mat lo) (firstn (length lo) (skipn i s)) = spec_score lo false s i.
Proof.
  intros H4 Hs. rewrite wscore_sum, rc_mat_length, spec_score_nth.
  apply sumz_map_ext. intros j Hj. apply in_seq in Hj.
  rewrite window_nth by lia. rewrite nth_rc_mat by lia.
  unfold spec_entry. apply entry_rev.
  - unfold cols4 in H4. rewrite Forall_forall in H4. apply H4. apply nth_In. lia.
  - apply chars_nth. assumption.
Qed.

(* ---------------------------------------------------------------------------------------- *)
(* D. thresholds                                                                              *)

Definition gleast (P : Z -> bool) (r : Z) : Prop := P r = true /\ forall j, j < r -> P j = false.

Lemma gleast_unique P r1 r2 : gleast P r1 -> gleast P r2 -> r1 = r2.
Proof.
  intros [H1 L1] [H2 L2]. destruct (Z.lt_trichotomy r1 r2) as [H | [H | H]]; [|assumption|].
  - rewrite (L2 r1 H) in H1. discriminate.
  - rewrite (L1 r2 H) in H2. discriminate.
Qed.

Lemma first_below_spec tot thr : forall t i,
  match first_below t tot thr i with
  | Some r => i <= r < i + Z.of_nat (length t) /\
              p_below (nth (Z.to_nat (r - i)) t 0) tot thr = true /\
              forall j, i <= j < r -> p_below (nth (Z.to_nat (j - i)) t 0) tot thr = false
  | None => forall j, i <= j < i + Z.of_nat (length t) ->
              p_below (nth (Z.to_nat (j - i)) t 0) tot thr = false
  end.
Proof.
  induction t as [|c t IH]; intros i; cbn [first_below].
  - intros j Hj. cbn in Hj. lia.
  - destruct (p_below c tot thr) eqn:E.
    + split; [cbn [length]; lia|]. split; [rewrite Z.sub_diag; exact E|]. intros j Hj. lia.
    + specialize (IH (i + 1)). destruct (first_below t tot thr (i + 1)) as [r|].
      * destruct IH as [H1 [H2 H3]]. split; [cbn [length]; lia|]. split.
        -- replace (Z.to_nat (r - i)) with (S (Z.to_nat (r - (i + 1)))) by lia. exact H2.
        -- intros j Hj. destruct (Z.eq_dec j i) as [-> | Hne]; [rewrite Z.sub_diag; exact E|].
           replace (Z.to_nat (j - i)) with (S (Z.to_nat (j - (i + 1)))) by lia. apply H3. lia.
      * intros j Hj. cbn [length] in Hj. destruct (Z.eq_dec j i) as [-> | Hne]; [rewrite Z.sub_diag; exact E|].
        replace (Z.to_nat (j - i)) with (S (Z.to_nat (j - (i + 1)))) by lia. apply IH. lia.
Qed.

Lemma find_seq_spec (P : Z -> bool) base : forall m a,
  match find P (map (fun k => base + Z.of_nat k) (seq a m)) with
  | Some r => base + Z.of_nat a <= r < base + Z.of_nat a + Z.of_nat m /\ P r = true /\
              forall j, base + Z.of_nat a <= j < r -> P j = false
  | None => forall j, base + Z.of_nat a <= j < base + Z.of_nat a + Z.of_nat m -> P j = false
  end.
Proof.
  induction m as [|m IH]; intros a; cbn [seq map find].
  - intros j Hj. lia.
  - destruct (P (base + Z.of_nat a)) eqn:E.
    + split; [lia|]. split; [exact E|]. intros j Hj. lia.
    + specialize (IH (S a)). destruct (find P (map (fun k => base + Z.of_nat k) (seq (S a) m))) as [r|].
      * destruct IH as [H1 [H2 H3]]. split; [lia|]. split; [exact H2|].
        intros j Hj. destruct (Z.eq_dec j (base + Z.of_nat a)) as [-> | Hne]; [exact E|]. apply H3. lia.
      * intros j Hj. destruct (Z.eq_dec j (base + Z.of_nat a)) as [-> | Hne]; [exact E|]. apply IH. lia.
Qed.

(* the threshold predicate on integer bins, for the forward matrix M *)
Definition Pb (M : imat) (thr : Q) (b : Z) : bool := p_below (count_ge M b) (pow4 (length M)) thr.

Definition thr_ok (thr : Q) : Prop := 0 < Qnum thr <= Zpos (Qden thr).

Lemma total4 M : alpha M = 4%nat -> Z.of_nat (alpha M) ^ Z.of_nat (length M) = pow4 (length M).
Proof. intros ->. reflexivity. Qed.

Lemma Pb_low M thr b : wfB M -> alpha M = 4%nat -> thr_ok thr -> b <= lowest M -> Pb M thr b = false.
Proof.
  intros W A4 [T1 T2] Hb. unfold Pb, p_below. rewrite (count_ge_total M b W Hb), (total4 M A4).
  pose proof (pow4_pos (length M)). apply Z.ltb_ge. nia.
Qed.

Lemma Pb_high M thr b : wfB M -> thr_ok thr -> highest M < b -> Pb M thr b = true.
Proof.
  intros W [T1 T2] Hb. unfold Pb, p_below. rewrite (count_ge_zero M b W Hb).
  pose proof (pow4_pos (length M)). apply Z.ltb_lt. nia.
Qed.

Lemma Pb_mono M thr b b' : b <= b' -> Pb M thr b = true -> Pb M thr b' = true.
Proof.
  intros Hb. unfold Pb, p_below. rewrite !Z.ltb_lt. pose proof (count_ge_antitone M b b' Hb). nia.
Qed.

(* the spec's threshold bin is the global least bin below the p-value threshold *)
Lemma spec_b0_gleast M thr : wfB M -> alpha M = 4%nat -> thr_ok thr ->
  exists b0, spec_b0 (fast_tail M) (sum_min M) (sum_max M) (length M) thr = Some b0 /\
             gleast (Pb M thr) b0 /\ sum_min M < b0 <= sum_max M + 1.
Proof.
  intros W A4 HT. unfold spec_b0.
  pose proof (lowest_is_sum_min M W) as Hlo. pose proof (highest_is_sum_max M W) as Hhi.
  assert (HM : colsA (alpha M) M) by (apply wfA_cols; apply W).
  assert (Hle : sum_min M <= sum_max M).
  { apply (sum_min_le_max (alpha M)); [assumption | apply W]. }
  set (P := fun b => Qltb (tailp (fast_tail M) (sum_min M) (length M) b) thr).
  assert (HP : forall b, P b = Pb M thr b).
  { intros b. unfold P, tailp. rewrite probQ_below. unfold Pb. f_equal.
    apply (fast_ge_correct M HM). }
  pose proof (find_seq_spec P (sum_min M) (Z.to_nat (sum_max M - sum_min M + 2)) 0) as F.
  destruct (find P _) as [r|].
  - destruct F as [F1 [F2 F3]]. exists r. split; [reflexivity|].
    assert (G : gleast (Pb M thr) r).
    { split; [rewrite <- HP; exact F2|]. intros j Hj.
      destruct (Z.le_gt_cases j (sum_min M)) as [Hlow | Hlow].
      - apply Pb_low; try assumption. lia.
      - rewrite <- HP. apply F3. lia. }
    split; [exact G|]. split.
    + destruct (Z.le_gt_cases r (sum_min M)) as [Hc | Hc]; [|exact Hc].
      destruct G as [G1 _]. rewrite Pb_low in G1; try assumption; [discriminate | lia].
    + destruct (Z.le_gt_cases r (sum_max M + 1)) as [Hc | Hc]; [exact Hc|].
      destruct G as [_ G2].
      specialize (G2 (sum_max M + 1) Hc). rewrite Pb_high in G2; try assumption; [discriminate | lia].
  - exfalso. specialize (F (sum_max M + 1)). rewrite HP, Pb_high in F; try assumption; [|lia].
    assert (false = true -> False) by discriminate. apply H. symmetry. apply F. lia.
Qed.

Lemma Pb_transfer M Mo thr : length Mo = length M -> (forall b, count_ge Mo b = count_ge M b) ->
  forall b, Pb Mo thr b = Pb M thr b.
Proof. intros HL HC b. unfold Pb. rewrite HL, HC. reflexivity. Qed.

(* the model's threshold: table of the oriented matrix Mo, first entry below the threshold *)
Lemma model_thr M Mo thr : wfB Mo -> alpha Mo = 4%nat -> thr_ok thr ->
  length Mo = length M -> (forall b, count_ge Mo b = count_ge M b) ->
  let sm := smallest Mo in let n := tlen Mo in
  let tab := map (fun i => count_ge Mo (sm + Z.of_nat i)) (seq 0 n) in
  pmap Mo = Ok (sm, tab) /\
  sum_max Mo + Z.of_nat (length Mo) < sm + Z.of_nat n /\
  exists i0, first_below tab (pow4 (length Mo)) thr 0 = Some i0 /\ 0 <= i0 /\ gleast (Pb M thr) (i0 + sm).
Proof.
  intros W A4 HT HL HC sm n tab. pose proof (wfB_wfM Mo W) as HW.
  split; [apply pmap_table; assumption|].
  destruct HW as [Hne [HA HM]].
  destruct (tlen_spec _ Mo HM HA Hne) as [Hlen Hpre].
  destruct (Hpre Mo []) as [B1 B2]; [assumption | rewrite app_nil_r; reflexivity |].
  fold sm n in B1, B2. split; [exact B2|].
  pose proof (lowest_is_sum_min Mo W) as Hlo. pose proof (highest_is_sum_max Mo W) as Hhi.
  assert (Hw : (0 < length Mo)%nat) by (destruct Mo; [congruence | cbn; lia]).
  assert (Hle : sum_min Mo <= sum_max Mo) by (apply (sum_min_le_max (alpha Mo)); assumption).
  assert (Ltab : length tab = n) by (unfold tab; rewrite map_length, seq_length; reflexivity).
  assert (Ntab : forall j, 0 <= j < Z.of_nat n ->
            p_below (nth (Z.to_nat (j - 0)) tab 0) (pow4 (length Mo)) thr = Pb M thr (j + sm)).
  { intros j Hj. unfold tab. rewrite nth_map_seq by lia. rewrite <- (Pb_transfer M Mo thr HL HC).
    unfold Pb. do 2 f_equal. lia. }
  pose proof (first_below_spec (pow4 (length Mo)) thr tab 0) as F. rewrite Ltab in F.
  destruct (first_below tab (pow4 (length Mo)) thr 0) as [r|].
  - destruct F as [F1 [F2 F3]]. exists r. split; [reflexivity|]. split; [lia|]. split.
    + rewrite <- Ntab by lia. exact F2.
    + intros j Hj. destruct (Z.lt_ge_cases j sm) as [Hlow | Hlow].
      * rewrite <- (Pb_transfer M Mo thr HL HC). apply Pb_low; try assumption. lia.
      * replace j with ((j - sm) + sm) by lia. rewrite <- Ntab by lia. apply F3. lia.
  - exfalso. specialize (F (sum_max Mo + 1 - sm)). rewrite Ntab in F by lia.
    rewrite <- (Pb_transfer M Mo thr HL HC), Pb_high in F; try assumption; [|lia].
    assert (false = true -> False) by discriminate. apply H. symmetry. apply F. lia.
Qed.

(* ---------------------------------------------------------------------------------------- *)
(* E. a passing window lands inside the table                                                 *)

Section Bounds.
  Variables (K : Z) (bin : Q).
  Hypothesis HK : 0 <= K.
  Hypothesis Hbin : 0 < Qnum bin.
  Let D := 2 ^ K * Qnum bin.
  Let bd := Zpos (Qden bin).

  Definition ent_rel (e r : Z) : Prop := Z.abs (2 * e * bd - 2 * r * D) <= D.
  Definition col_rel (lc ic : list Z) : Prop :=
    length lc = 4%nat /\ length ic = 4%nat /\
    (forall a, (a < 4)%nat -> ent_rel (nth a lc 0) (nth a ic 0)) /\ 0 <= cmax ic.
  Definition mat_rel (lo : list (list Z)) (im : imat) : Prop := Forall2 col_rel lo im.

  Lemma D_pos : 0 < D.
  Proof. unfold D. pose proof (pow2_pos K HK). nia. Qed.

  Lemma score_upper : forall lo im, mat_rel lo im -> forall win, chars_ok win ->
    2 * wscore lo win * bd <= (2 * sum_max im + Z.of_nat (length im)) * D /\ 0 <= sum_max im.
  Proof.
    pose proof D_pos as HD.
    induction 1 as [|lc ic lo im [H1 [H2 [H3 H4]]] HR IH]; intros win Hw.
    - cbn. lia.
    - unfold sum_max. cbn [fold_right length]. fold (sum_max im).
      destruct win as [|x win].
      + destruct (IH [] (Forall_nil _)) as [_ I2]. cbn [wscore]. split; [nia | lia].
      + apply Forall_cons_iff in Hw as [Hx Hw]. destruct (IH win Hw) as [I1 I2].
        cbn [wscore]. split; [|lia].
        assert (He : 2 * entry lc x * bd <= (2 * cmax ic + 1) * D).
        { unfold entry. destruct (Z.eqb_spec x (-1)); [nia|].
          assert (Ha : (Z.to_nat x < 4)%nat) by lia.
          specialize (H3 _ Ha). unfold ent_rel in H3.
          assert (nth (Z.to_nat x) ic 0 <= cmax ic).
          { apply cmax_ge. apply nth_In. lia. }
          nia. }
        rewrite Nat2Z.inj_succ. nia.
  Qed.

  Lemma quot_upper x q w : 0 <= q -> 0 <= w -> 2 * x <= (2 * q + w) * D -> Z.quot x D <= q + w.
  Proof.
    pose proof D_pos as HD. intros Hq Hw H.
    destruct (Z.le_gt_cases 0 x) as [Hx | Hx].
    - rewrite Z.quot_div_nonneg by lia. nia.
    - replace x with (- (- x)) by lia. rewrite Z.quot_opp_l by lia.
      rewrite Z.quot_div_nonneg by lia.
      assert (0 <= (- x) / D) by (apply Z.div_pos; lia). lia.
  Qed.

  Lemma quot_lower x b : b * D < x -> b <= Z.quot x D.
  Proof.
    pose proof D_pos as HD. intros H.
    destruct (Z.le_gt_cases 0 x) as [Hx | Hx].
    - rewrite Z.quot_div_nonneg by lia. nia.
    - replace x with (- (- x)) by lia. rewrite Z.quot_opp_l by lia.
      rewrite Z.quot_div_nonneg by lia. nia.
  Qed.

  (* a window that passes  b*bin < score  has  b <= int(score/bin) <= sum_max + w *)
  Lemma bin_range lo im win b : mat_rel lo im -> chars_ok win ->
    passes K bin b (wscore lo win) = true ->
    b <= score_bin K bin (wscore lo win) <= sum_max im + Z.of_nat (length im).
  Proof.
    intros HR Hw Hp. destruct (score_upper lo im HR win Hw) as [U1 U2].
    unfold passes in Hp. apply Z.ltb_lt in Hp. unfold score_bin. fold bd D. split.
    - apply quot_lower. unfold D. fold bd in Hp. nia.
    - apply quot_upper; [assumption | lia | nia].
  Qed.

  Lemma mat_rel_rc lo im : mat_rel lo im -> mat_rel (rc_mat lo) (rc_mat im).
  Proof.
    induction 1 as [|lc ic lo im [H1 [H2 [H3 H4]]] HR IH]; [constructor|].
    rewrite !rc_mat_cons. apply Forall2_app; [exact IH|]. constructor; [|constructor].
    split; [rewrite rev_length; exact H1|]. split; [rewrite rev_length; exact H2|]. split.
    - intros a Ha. rewrite !rev_nth by lia. rewrite H1, H2. apply H3. lia.
    - destruct (fold_max_spec ic (- SENT)) as [_ [_ [E | Hin]]].
      + fold (cmax ic) in E. unfold SENT in *. lia.
      + fold (cmax ic) in Hin. apply Z.le_trans with (cmax ic); [exact H4|].
        apply cmax_ge. apply in_rev. rewrite rev_involutive. exact Hin.
  Qed.

  Lemma mat_rel_length lo im : mat_rel lo im -> length lo = length im.
  Proof. induction 1; cbn; congruence. Qed.

  Lemma mat_rel_cols4 lo im : mat_rel lo im -> cols4 lo.
  Proof. induction 1 as [|? ? ? ? [H1 _]]; constructor; assumption. Qed.
End Bounds.

(* ---------------------------------------------------------------------------------------- *)
(* F. the scan as explicit lists                                                              *)

Definition orient (m : motif) (plus : bool) : motif := if plus then m else rc_motif m.

Section ScanPure.
  Variables (K : Z) (bin : Q).
  Hypothesis HK : 0 <= K.
  Hypothesis Hbin : 0 < Qnum bin.

  (* hits of one sequence, one motif orientation: forward log-odds lo_f addressed pointwise *)
  Definition mk_hit (cntf : Z -> Z) (lo_f : list (list Z)) (k l : Z) (plus : bool) (s : list Z)
             (i : nat) : hit :=
    let w := length lo_f in
    let sZ := spec_score lo_f plus s i in
    Hit k l (Z.of_nat i) (Z.of_nat (i + w)) plus (scoreQ K sZ) (probQ (cntf (score_bin K bin sZ)) w).

  Definition pblock (cntf : Z -> Z) (lo_f : list (list Z)) (b k l : Z) (plus : bool)
             (s : list Z) (st : list nat) : list hit :=
    map (mk_hit cntf lo_f k l plus s)
        (filter (fun i => passes K bin b (spec_score lo_f plus s i)) st).

  Fixpoint pseqs (cntf : Z -> Z) (lo_f : list (list Z)) (b k : Z) (plus : bool)
           (ss : list (list Z)) (l : Z) : list hit :=
    match ss with
    | [] => []
    | s :: ss' => pblock cntf lo_f b k l plus s (starts (length s) (length lo_f)) ++
                  pseqs cntf lo_f b k plus ss' (l + 1)
    end.

  Lemma scan_starts_pure cntf lo_f mo sm tab b k l plus s : length (lo mo) = length lo_f ->
    forall st,
    (forall i, In i st ->
       wscore (lo mo) (firstn (length (lo mo)) (skipn i s)) = spec_score lo_f plus s i) ->
    (forall i, In i st -> passes K bin b (spec_score lo_f plus s i) = true ->
       0 <= score_bin K bin (spec_score lo_f plus s i) - sm /\
       nth_error tab (Z.to_nat (score_bin K bin (spec_score lo_f plus s i) - sm)) =
       Some (cntf (score_bin K bin (spec_score lo_f plus s i)))) ->
    scan_starts passes K bin mo sm tab b k l plus s st = Ok (pblock cntf lo_f b k l plus s st).
  Proof.
    intros HL. induction st as [|i st IH]; intros Hsc Hin; [reflexivity|].
    cbn [scan_starts]. rewrite (Hsc i) by (left; reflexivity).
    unfold pblock. cbn [filter].
    rewrite IH; [| intros j Hj; apply Hsc; right; assumption
                 | intros j Hj Hp; apply Hin; [right; assumption | assumption]].
    destruct (passes K bin b (spec_score lo_f plus s i)) eqn:E; [|reflexivity].
    destruct (Hin i (or_introl eq_refl) E) as [H0 H1].
    replace (0 <=? score_bin K bin (spec_score lo_f plus s i) - sm) with true by (symmetry; apply Z.leb_le; exact H0).
    cbn [guard bind]. rewrite H1. cbn [bind map]. unfold mk_hit at 2. rewrite HL. reflexivity.
  Qed.

  Lemma scan_seqs_pure cntf lo_f mo sm tab b k plus : length (lo mo) = length lo_f ->
    forall ss l,
    (forall s i, In s ss ->
       wscore (lo mo) (firstn (length (lo mo)) (skipn i s)) = spec_score lo_f plus s i) ->
    (forall s i, In s ss -> passes K bin b (spec_score lo_f plus s i) = true ->
       0 <= score_bin K bin (spec_score lo_f plus s i) - sm /\
       nth_error tab (Z.to_nat (score_bin K bin (spec_score lo_f plus s i) - sm)) =
       Some (cntf (score_bin K bin (spec_score lo_f plus s i)))) ->
    scan_seqs starts passes K bin mo sm tab b k plus ss l = Ok (pseqs cntf lo_f b k plus ss l).
  Proof.
    intros HL. induction ss as [|s ss IH]; intros l Hsc Hin; [reflexivity|].
    cbn [scan_seqs pseqs].
    rewrite (scan_starts_pure cntf lo_f mo sm tab b k l plus s HL).
    - cbn [bind]. rewrite IH; [rewrite HL; reflexivity | |].
      + intros s' i Hs'. apply Hsc. right; assumption.
      + intros s' i Hs'. apply Hin. right; assumption.
    - intros i _. apply Hsc. left; reflexivity.
    - intros i _. apply Hin. left; reflexivity.
  Qed.
End ScanPure.

Lemma nth_error_map_seq {T} (f : nat -> T) n i : (i < n)%nat ->
  nth_error (map f (seq 0 n)) i = Some (f i).
Proof.
  intros H. rewrite (nth_error_nth' _ (f O)) by (rewrite map_length, seq_length; assumption).
  rewrite nth_map_seq by assumption. reflexivity.
Qed.

Lemma in_firstn' {T} : forall n (l : list T) x, In x (firstn n l) -> In x l.
Proof. induction n; intros [|a l] x H; cbn in *; try contradiction. destruct H; [left | right]; auto. Qed.
Lemma in_skipn' {T} : forall n (l : list T) x, In x (skipn n l) -> In x l.
Proof. induction n; intros [|a l] x H; cbn in *; try contradiction; auto. Qed.

(* what the scope check gives for one motif *)
Definition mgood (K : Z) (bin : Q) (m : motif) : Prop :=
  mat_rel K bin (lo m) (im m) /\ wfB (im m) /\ alpha (im m) = 4%nat /\ (0 < length (lo m))%nat.

Lemma orient_good K bin m plus : 0 <= K -> 0 < Qnum bin -> mgood K bin m ->
  mat_rel K bin (lo (orient m plus)) (im (orient m plus)) /\ wfB (im (orient m plus)) /\
  alpha (im (orient m plus)) = 4%nat /\ length (lo (orient m plus)) = length (lo m) /\
  length (im (orient m plus)) = length (im m) /\
  (forall b, count_ge (im (orient m plus)) b = count_ge (im m) b).
Proof.
  intros HK Hbin [HR [W [A4 Hw]]]. destruct plus; cbn [orient rc_motif lo im].
  - split; [assumption|]. split; [assumption|]. split; [assumption|].
    split; [reflexivity|]. split; [reflexivity|]. reflexivity.
  - assert (Hne : im m <> []) by apply W.
    assert (HM : colsA (alpha (im m)) (im m)) by (apply wfA_cols; apply W).
    split; [apply mat_rel_rc; assumption|]. split; [apply wfB_rc; assumption|].
    split; [rewrite (alpha_rc _ _ Hne HM); exact A4|].
    split; [apply rc_mat_length|]. split; [apply rc_mat_length|].
    intros b. apply count_ge_rc; assumption.
Qed.

(* one motif orientation: the model's scan is the explicit list, with the spec's threshold *)
Lemma scan_motif_pure K bin thr ss k plus m : 0 <= K -> 0 < Qnum bin -> thr_ok thr ->
  mgood K bin m -> Forall chars_ok ss ->
  exists b0, spec_b0 (fast_tail (im m)) (sum_min (im m)) (sum_max (im m)) (length (im m)) thr = Some b0 /\
    gleast (Pb (im m) thr) b0 /\
    scan_motif starts passes pmap K bin thr ss k plus (orient m plus) =
    Ok (pseqs K bin (count_ge (im m)) (lo m) b0 k plus ss 0).
Proof.
  intros HK Hbin HT G Hss.
  destruct (orient_good K bin m plus HK Hbin G) as [HR [W [A4 [HLlo [HLim HC]]]]].
  destruct G as [HR0 [W0 [A40 Hw0]]].
  destruct (spec_b0_gleast (im m) thr W0 A40 HT) as [b0 [Eb0 [Gb0 _]]].
  exists b0. split; [exact Eb0|]. split; [exact Gb0|].
  set (mo := orient m plus) in *.
  destruct (model_thr (im m) (im mo) thr W A4 HT HLim HC) as [Epm [Bn [i0 [Ef [Hi0 Gi0]]]]].
  unfold scan_motif. rewrite Epm. cbn [bind]. rewrite Ef.
  assert (Eb : i0 + smallest (im mo) = b0) by (apply (gleast_unique _ _ _ Gi0 Gb0)).
  rewrite Eb.
  assert (Hsc : forall s i, In s ss ->
            wscore (lo mo) (firstn (length (lo mo)) (skipn i s)) = spec_score (lo m) plus s i).
  { intros s i Hs. unfold mo. destruct plus; cbn [orient rc_motif lo].
    - apply wscore_spec_plus.
    - rewrite rc_mat_length. apply wscore_spec_minus.
      + apply (mat_rel_cols4 K bin _ _ HR0).
      + rewrite Forall_forall in Hss. apply Hss. assumption. }
  apply scan_seqs_pure; [exact HLlo | exact Hsc |].
  intros s i Hs Hp.
  rewrite <- (Hsc s i Hs) in Hp |- *.
  assert (Hchars : chars_ok (firstn (length (lo mo)) (skipn i s))).
  { rewrite Forall_forall in Hss. specialize (Hss s Hs). unfold chars_ok in *.
    rewrite Forall_forall in *. intros x Hx. apply Hss.
    apply in_firstn' in Hx. apply in_skipn' in Hx. exact Hx. }
  destruct (bin_range K bin HK Hbin (lo mo) (im mo) _ b0 HR Hchars Hp) as [R1 R2].
  set (q := score_bin K bin (wscore (lo mo) (firstn (length (lo mo)) (skipn i s)))) in *.
  split; [lia|].
  rewrite nth_error_map_seq by lia. f_equal. rewrite HC. f_equal. lia.
Qed.

(* ---- the whole call as explicit lists ---------------------------------------------------- *)

Definition b0of (c : call) (m : motif) : Z :=
  match spec_b0 (fast_tail (im m)) (sum_min (im m)) (sum_max (im m)) (length (im m)) (cthr c) with
  | Some b => b | None => 0
  end.

(* hits of motif m (index k) on one strand, over all sequences *)
Definition pm (c : call) (plus : bool) (m : motif) (k : Z) : list hit :=
  pseqs (cK c) (cbin c) (count_ge (im m)) (lo m) (b0of c m) k plus (cseqs c) 0.

Fixpoint pmotifs (c : call) (plus : bool) (ms : list motif) (k : Z) : list (list hit) :=
  match ms with
  | [] => []
  | m :: ms' => pm c plus m k :: pmotifs c plus ms' (k + 1)
  end.

Fixpoint pgroups (c : call) (ms : list motif) (k : Z) : list (list hit) :=
  match ms with
  | [] => []
  | m :: ms' => (pm c true m k ++ (if crc c then pm c false m k else [])) :: pgroups c ms' (k + 1)
  end.

Definition cgood (c : call) : Prop :=
  0 <= cK c /\ 0 < Qnum (cbin c) /\ thr_ok (cthr c) /\ cmotifs c <> [] /\
  Forall (mgood (cK c) (cbin c)) (cmotifs c) /\ Forall chars_ok (cseqs c).

Lemma mapMi_pure c plus : 0 <= cK c -> 0 < Qnum (cbin c) -> thr_ok (cthr c) -> Forall chars_ok (cseqs c) ->
  forall ms k, Forall (mgood (cK c) (cbin c)) ms ->
  mapMi (fun k m => scan_motif starts passes pmap (cK c) (cbin c) (cthr c) (cseqs c) k plus (orient m plus)) ms k
  = Ok (pmotifs c plus ms k).
Proof.
  intros HK Hbin HT Hss. induction ms as [|m ms IH]; intros k HG; [reflexivity|].
  apply Forall_cons_iff in HG as [Gm HG]. cbn [mapMi pmotifs].
  destruct (scan_motif_pure (cK c) (cbin c) (cthr c) (cseqs c) k plus m HK Hbin HT Gm Hss) as [b0 [E [_ Es]]].
  rewrite Es. cbn [bind]. rewrite IH by assumption. cbn [bind].
  unfold pm, b0of. rewrite E. reflexivity.
Qed.

Lemma merge_pgroups c : forall ms k,
  merge (pmotifs c true ms k)
        (if crc c then pmotifs c false ms k else map (fun _ => []) ms) = pgroups c ms k.
Proof.
  induction ms as [|m ms IH]; intros k; cbn [pmotifs pgroups map].
  - destruct (crc c); reflexivity.
  - specialize (IH (k + 1)). unfold merge in *. revert IH. destruct (crc c); intros IH;
      cbn [combine map fst snd]; rewrite IH; [reflexivity | rewrite app_nil_r; reflexivity].
Qed.

(* the model's outcome, explicitly *)
Theorem fimo_pure c : cgood c ->
  fimo c = match cmode c with
           | Counts => Ok (OCounts (map (fun g => Z.of_nat (length g)) (pgroups c (cmotifs c) 0)))
           | Dim0 => Ok (ODim0 (pgroups c (cmotifs c) 0))
           | Dim1 => Ok (ODim1 (by_seq (length (cseqs c)) (concat (pgroups c (cmotifs c) 0))))
           end.
Proof.
  intros [HK [Hbin [HT [Hne [HG Hss]]]]]. unfold fimo, fimo_gen. cbv zeta.
  replace (negb (length (cmotifs c) =? 0)%nat) with true by (destruct (cmotifs c); [congruence | reflexivity]).
  cbn [guard bind].
  pose proof (mapMi_pure c true HK Hbin HT Hss (cmotifs c) 0 HG) as E1. cbn [orient] in E1.
  rewrite E1. cbn [bind].
  assert (E : (if crc c
               then mapMi (fun k m => scan_motif starts passes pmap (cK c) (cbin c) (cthr c) (cseqs c) k false (rc_motif m)) (cmotifs c) 0
               else Ok (map (fun _ => []) (cmotifs c)))
              = Ok (if crc c then pmotifs c false (cmotifs c) 0 else map (fun _ => []) (cmotifs c))).
  { destruct (crc c); [|reflexivity].
    pose proof (mapMi_pure c false HK Hbin HT Hss (cmotifs c) 0 HG) as E2. cbn [orient] in E2. exact E2. }
  rewrite E. cbn [bind]. rewrite merge_pgroups. reflexivity.
Qed.

Lemma nth_repeat' {T} (x d : T) n i : (i < n)%nat -> nth i (repeat x n) d = x.
Proof. revert i; induction n; intros [|i] H; cbn; try lia; auto. apply IHn. lia. Qed.

Lemma nth_repeat0' n i : nth i (repeat 0 n) 0 = 0.
Proof. revert i; induction n; intros [|i]; cbn; auto. Qed.

Lemma table_lin_eq tl base sm n :
  table_lin tl base sm n = map (fun i => fast_ge_from tl base (sm + Z.of_nat i)) (seq 0 n).
Proof.
  unfold table_lin. destruct (Z.leb_spec sm base) as [Hle | Hgt]; [|reflexivity].
  set (k := Z.to_nat (base - sm)).
  apply (nth_ext _ _ 0 0).
  - rewrite firstn_length, !app_length, !repeat_length, map_length, seq_length. lia.
  - intros i Hi. rewrite firstn_length, !app_length, !repeat_length in Hi.
    assert (Hin : (i < n)%nat) by lia.
    rewrite nth_firstn by assumption. rewrite nth_map_seq by assumption.
    unfold fast_ge_from.
    destruct (Nat.lt_ge_cases i k) as [Hk | Hk].
    + rewrite app_nth1 by (rewrite repeat_length; assumption). rewrite nth_repeat' by assumption.
      replace (sm + Z.of_nat i <=? base) with true by (symmetry; apply Z.leb_le; lia). reflexivity.
    + rewrite app_nth2 by (rewrite repeat_length; assumption). rewrite repeat_length.
      assert (Hnth : nth (i - k) (tl ++ repeat 0 n) 0 = nth (i - k) tl 0).
      { destruct (Nat.lt_ge_cases (i - k) (length tl)) as [H1 | H1].
        - apply app_nth1. assumption.
        - rewrite app_nth2 by assumption. rewrite nth_repeat0'. symmetry. apply nth_overflow. assumption. }
      rewrite Hnth.
      destruct (Z.leb_spec (sm + Z.of_nat i) base) as [Hb | Hb].
      * replace (i - k)%nat with 0%nat by lia. destruct tl; reflexivity.
      * rewrite getz_nonneg by lia. f_equal. lia.
Qed.

(* the fast table is C11's table *)
Lemma pmap_fast_eq M : wfM M -> pmap_fast M = pmap M.
Proof.
  intros HW. rewrite (pmap_table M HW). destruct HW as [Hne [HA HM]].
  unfold pmap_fast. destruct M as [|c R]; [congruence|]. rewrite table_lin_eq. do 2 f_equal.
  apply map_ext. intros i. apply (fast_ge_correct (c :: R) HM).
Qed.

Lemma mapMi_ext {A B} (f g : Z -> A -> res B) : forall l k,
  (forall x k', In x l -> f k' x = g k' x) -> mapMi f l k = mapMi g l k.
Proof.
  induction l as [|x l IH]; intros k H; [reflexivity|]. cbn [mapMi].
  rewrite (H x k) by (left; reflexivity). rewrite (IH (k + 1)); [reflexivity|].
  intros y k' Hy. apply H. right; assumption.
Qed.

Theorem fimo_fast_eq c : cgood c -> fimo_fast c = fimo c.
Proof.
  intros [HK [Hbin [HT [Hne [HG Hss]]]]]. unfold fimo_fast, fimo, fimo_gen. cbv zeta.
  assert (E : forall plus m k, In m (cmotifs c) ->
            scan_motif starts passes pmap_fast (cK c) (cbin c) (cthr c) (cseqs c) k plus (orient m plus) =
            scan_motif starts passes pmap (cK c) (cbin c) (cthr c) (cseqs c) k plus (orient m plus)).
  { intros plus m k Hm. rewrite Forall_forall in HG. specialize (HG m Hm).
    destruct (orient_good _ _ m plus HK Hbin HG) as [_ [W _]].
    unfold scan_motif. rewrite (pmap_fast_eq _ (wfB_wfM _ W)). reflexivity. }
  rewrite (mapMi_ext _ (fun k m => scan_motif starts passes pmap (cK c) (cbin c) (cthr c) (cseqs c) k true m))
    by (intros m k Hm; apply (E true m k Hm)).
  destruct (crc c); [|reflexivity].
  rewrite (mapMi_ext (fun k m => scan_motif starts passes pmap_fast (cK c) (cbin c) (cthr c) (cseqs c) k false (rc_motif m))
                     (fun k m => scan_motif starts passes pmap (cK c) (cbin c) (cthr c) (cseqs c) k false (rc_motif m)))
    by (intros m k Hm; apply (E false m k Hm)).
  reflexivity.
Qed.

(* ---------------------------------------------------------------------------------------- *)
(* G. the boolean spec holds of the explicit lists                                            *)

Lemma count_key_app hs1 hs2 k plus l i :
  count_key (hs1 ++ hs2) k plus l i = count_key hs1 k plus l i + count_key hs2 k plus l i.
Proof. unfold count_key. rewrite filter_app, app_length. lia. Qed.

Lemma count_key_zero hs k plus l i :
  (forall h, In h hs -> same_key k plus l i h = false) -> count_key hs k plus l i = 0.
Proof.
  intros H. unfold count_key. induction hs as [|h hs IH]; [reflexivity|].
  cbn [filter]. rewrite H by (left; reflexivity). apply IH. intros; apply H; right; assumption.
Qed.

Lemma count_key_cons h hs k plus l i :
  count_key (h :: hs) k plus l i = (if same_key k plus l i h then 1 else 0) + count_key hs k plus l i.
Proof. unfold count_key. cbn [filter]. destruct (same_key k plus l i h); cbn [length]; lia. Qed.

Lemma count_key_nonneg hs k plus l i : 0 <= count_key hs k plus l i.
Proof. unfold count_key. lia. Qed.

Section Lists.
  Variable c : call.
  Let K := cK c.
  Let bin := cbin c.

  Definition passw (m : motif) (plus : bool) (s : list Z) (i : nat) : bool :=
    passes K bin (b0of c m) (spec_score (lo m) plus s i).

  (* labels *)
  Lemma pblock_label cntf lo_f b k l plus s st :
    Forall (fun h => h_motif h = k /\ h_plus h = plus /\ h_seq h = l)
           (pblock K bin cntf lo_f b k l plus s st).
  Proof. unfold pblock. apply Forall_map. apply Forall_forall. intros i _. cbn. auto. Qed.

  Lemma pseqs_label cntf lo_f b k plus : forall ss l,
    Forall (fun h => h_motif h = k /\ h_plus h = plus /\ l <= h_seq h < l + Z.of_nat (length ss))
           (pseqs K bin cntf lo_f b k plus ss l).
  Proof.
    induction ss as [|s ss IH]; intros l; [constructor|]. cbn [pseqs length].
    apply Forall_app. split.
    - eapply Forall_impl; [|apply pblock_label]. cbn. intros h [H1 [H2 H3]].
      split; [assumption|]. split; [assumption|]. lia.
    - eapply Forall_impl; [|apply IH]. cbn. intros h [H1 [H2 H3]].
      split; [assumption|]. split; [assumption|]. lia.
  Qed.

  (* one block: a window start is present once iff it passes *)
  Lemma count_pblock cntf lo_f b k l plus s i : forall m a,
    count_key (pblock K bin cntf lo_f b k l plus s (seq a m)) k plus l (Z.of_nat i) =
    if ((a <=? i) && (i <? a + m))%nat && passes K bin b (spec_score lo_f plus s i) then 1 else 0.
  Proof.
    induction m as [|m IH]; intros a.
    - assert (E : ((a <=? i) && (i <? a + 0))%nat = false).
      { destruct (Nat.leb_spec a i); destruct (Nat.ltb_spec i (a + 0)); cbn; try reflexivity; lia. }
      rewrite E. reflexivity.
    - cbn [seq]. unfold pblock. cbn [filter].
      specialize (IH (S a)). unfold pblock in IH.
      destruct (passes K bin b (spec_score lo_f plus s a)) eqn:Pa.
      + cbn [map]. rewrite count_key_cons, IH.
        unfold same_key, mk_hit. cbn [h_motif h_plus h_seq h_start].
        rewrite !Z.eqb_refl, Bool.eqb_reflx. cbn [andb].
        destruct (Nat.eq_dec a i) as [-> | Hne].
        * rewrite Z.eqb_refl, Pa.
          destruct (Nat.leb_spec i i); destruct (Nat.ltb_spec i (i + S m));
          destruct (Nat.leb_spec (S i) i); destruct (Nat.ltb_spec i (S i + m)); cbn; lia.
        * replace (Z.of_nat a =? Z.of_nat i) with false by (symmetry; apply Z.eqb_neq; lia).
          destruct (Nat.leb_spec a i); destruct (Nat.ltb_spec i (a + S m));
          destruct (Nat.leb_spec (S a) i); destruct (Nat.ltb_spec i (S a + m)); cbn; try lia;
          destruct (passes K bin b (spec_score lo_f plus s i)); lia.
      + rewrite IH. destruct (Nat.eq_dec a i) as [-> | Hne].
        * rewrite Pa. rewrite !andb_false_r.
          destruct (Nat.leb_spec (S i) i); cbn; [lia | reflexivity].
        * destruct (Nat.leb_spec a i); destruct (Nat.ltb_spec i (a + S m));
          destruct (Nat.leb_spec (S a) i); destruct (Nat.ltb_spec i (S a + m)); cbn; try lia;
          destruct (passes K bin b (spec_score lo_f plus s i)); lia.
  Qed.

  (* all sequences: only the block of sequence l0 + j can contain the key *)
  Lemma count_pseqs cntf lo_f b k plus i : forall ss l0 j s, nth_error ss j = Some s ->
    count_key (pseqs K bin cntf lo_f b k plus ss l0) k plus (l0 + Z.of_nat j) i =
    count_key (pblock K bin cntf lo_f b k (l0 + Z.of_nat j) plus s (starts (length s) (length lo_f)))
              k plus (l0 + Z.of_nat j) i.
  Proof.
    induction ss as [|s0 ss IH]; intros l0 j s Hj; [destruct j; discriminate|].
    cbn [pseqs]. rewrite count_key_app. destruct j as [|j].
    - injection Hj as ->. rewrite Z.add_0_r.
      rewrite (count_key_zero (pseqs _ _ _ _ _ _ _ ss (l0 + 1))); [lia|].
      intros h Hh. pose proof (pseqs_label cntf lo_f b k plus ss (l0 + 1)) as HL.
      rewrite Forall_forall in HL. destruct (HL h Hh) as [_ [_ H3]].
      unfold same_key. replace (h_seq h =? l0) with false by (symmetry; apply Z.eqb_neq; lia).
      rewrite andb_false_r. reflexivity.
    - cbn [nth_error] in Hj.
      rewrite (count_key_zero (pblock _ _ _ _ _ _ _ _ _ _)).
      + replace (l0 + Z.of_nat (S j)) with ((l0 + 1) + Z.of_nat j) by lia. rewrite (IH (l0 + 1) j s Hj). lia.
      + intros h Hh. pose proof (pblock_label cntf lo_f b k l0 plus s0 (starts (length s0) (length lo_f))) as HL.
        rewrite Forall_forall in HL. destruct (HL h Hh) as [_ [_ H3]].
        unfold same_key. replace (h_seq h =? l0 + Z.of_nat (S j)) with false by (symmetry; apply Z.eqb_neq; lia).
        rewrite andb_false_r. reflexivity.
  Qed.

  Lemma pm_label plus m k :
    Forall (fun h => h_motif h = k /\ h_plus h = plus /\ 0 <= h_seq h < Z.of_nat (length (cseqs c)))
           (pm c plus m k).
  Proof.
    unfold pm. eapply Forall_impl; [|apply pseqs_label]. cbn. intros h [H1 [H2 H3]].
    split; [assumption|]. split; [assumption|]. lia.
  Qed.

  Definition group (m : motif) (k : Z) : list hit :=
    pm c true m k ++ (if crc c then pm c false m k else []).

  Lemma group_label m k :
    Forall (fun h => h_motif h = k /\ (h_plus h = true \/ crc c = true) /\
                     0 <= h_seq h < Z.of_nat (length (cseqs c))) (group m k).
  Proof.
    unfold group. apply Forall_app. split.
    - eapply Forall_impl; [|apply pm_label]. cbn. intros h [H1 [H2 H3]]. auto.
    - destruct (crc c); [|constructor].
      eapply Forall_impl; [|apply pm_label]. cbn. intros h [H1 [H2 H3]]. auto.
  Qed.

  Lemma pgroups_label : forall ms k0,
    Forall (fun h => k0 <= h_motif h < k0 + Z.of_nat (length ms)) (concat (pgroups c ms k0)).
  Proof.
    induction ms as [|m ms IH]; intros k0; [constructor|]. cbn [pgroups concat length].
    apply Forall_app. split.
    - eapply Forall_impl; [|apply (group_label m k0)]. cbn. intros h [H1 _]. lia.
    - eapply Forall_impl; [|apply IH]. cbn. intros h H. lia.
  Qed.

  (* all motifs: only the group of motif k0 + j can contain the key *)
  Lemma count_pgroups plus l i : forall ms k0 j m, nth_error ms j = Some m ->
    count_key (concat (pgroups c ms k0)) (k0 + Z.of_nat j) plus l i =
    count_key (group m (k0 + Z.of_nat j)) (k0 + Z.of_nat j) plus l i.
  Proof.
    induction ms as [|m0 ms IH]; intros k0 j m Hj; [destruct j; discriminate|].
    cbn [pgroups concat]. fold (group m0 k0). rewrite count_key_app. destruct j as [|j].
    - injection Hj as ->. rewrite Z.add_0_r.
      rewrite (count_key_zero (concat _)); [lia|].
      intros h Hh. pose proof (pgroups_label ms (k0 + 1)) as HL.
      rewrite Forall_forall in HL. specialize (HL h Hh).
      unfold same_key. replace (h_motif h =? k0) with false by (symmetry; apply Z.eqb_neq; lia).
      reflexivity.
    - cbn [nth_error] in Hj. rewrite (count_key_zero (group m0 k0)).
      + replace (k0 + Z.of_nat (S j)) with ((k0 + 1) + Z.of_nat j) by lia. rewrite (IH (k0 + 1) j m Hj). lia.
      + intros h Hh. pose proof (group_label m0 k0) as HL.
        rewrite Forall_forall in HL. destruct (HL h Hh) as [H1 _].
        unfold same_key. replace (h_motif h =? k0 + Z.of_nat (S j)) with false by (symmetry; apply Z.eqb_neq; lia).
        reflexivity.
  Qed.

  (* the key count of the whole hit list, in closed form *)
  Lemma count_all k plus l i m s :
    nth_error (cmotifs c) k = Some m -> nth_error (cseqs c) l = Some s ->
    (plus = true \/ crc c = true) ->
    count_key (concat (pgroups c (cmotifs c) 0)) (Z.of_nat k) plus (Z.of_nat l) (Z.of_nat i) =
    if (i <? length s + 1 - length (lo m))%nat && passw m plus s i then 1 else 0.
  Proof.
    intros Hk Hl Hp.
    pose proof (count_pgroups plus (Z.of_nat l) (Z.of_nat i) (cmotifs c) 0 k m Hk) as E.
    rewrite Z.add_0_l in E. rewrite E. clear E. unfold group. rewrite count_key_app.
    assert (Hown : forall pl, count_key (pm c pl m (Z.of_nat k)) (Z.of_nat k) pl (Z.of_nat l) (Z.of_nat i) =
              if (i <? length s + 1 - length (lo m))%nat && passw m pl s i then 1 else 0).
    { intros pl. unfold pm.
      pose proof (count_pseqs (count_ge (im m)) (lo m) (b0of c m) (Z.of_nat k) pl (Z.of_nat i) (cseqs c) 0 l s Hl) as E.
      rewrite Z.add_0_l in E. unfold K, bin in E. rewrite E. unfold starts.
      pose proof (count_pblock (count_ge (im m)) (lo m) (b0of c m) (Z.of_nat k) (Z.of_nat l) pl s i
                               (length s + 1 - length (lo m)) 0) as E2.
      unfold K, bin in E2. rewrite E2. unfold passw, K, bin.
      cbn [Nat.leb andb Nat.add]. reflexivity. }
    assert (Hother : forall pl, pl <> plus ->
              count_key (pm c pl m (Z.of_nat k)) (Z.of_nat k) plus (Z.of_nat l) (Z.of_nat i) = 0).
    { intros pl Hne. apply count_key_zero. intros h Hh.
      pose proof (pm_label pl m (Z.of_nat k)) as HL. rewrite Forall_forall in HL.
      destruct (HL h Hh) as [_ [H2 _]]. unfold same_key. rewrite H2.
      replace (Bool.eqb pl plus) with false by (destruct pl, plus; try reflexivity; congruence).
      rewrite andb_false_r. reflexivity. }
    destruct plus.
    - rewrite Hown. destruct (crc c); [rewrite Hother by discriminate | rewrite (count_key_zero [])]; try lia.
      intros h [].
    - destruct Hp as [Hp | Hp]; [discriminate|]. rewrite Hp, Hown, Hother by discriminate. lia.
  Qed.
End Lists.

(* ---- rational facts ------------------------------------------------------------------------ *)

Lemma classify_pass T sQ : Qltb T sQ = true -> classify (Some T) sQ <> WMiss.
Proof.
  intros H. apply Qltb_lt in H. unfold classify.
  destruct (Qltb (T + tol) sQ); [discriminate|].
  destruct (Qltb sQ (T - tol)) eqn:E; [|discriminate].
  apply Qltb_lt in E. unfold tol in E. exfalso. lra.
Qed.

Lemma classify_nopass T sQ : Qltb T sQ = false -> classify (Some T) sQ <> WHit.
Proof.
  intros H. apply Qltb_false in H. unfold classify.
  destruct (Qltb (T + tol) sQ) eqn:E.
  - apply Qltb_lt in E. unfold tol in E. exfalso. lra.
  - destruct (Qltb sQ (T - tol)); discriminate.
Qed.

Lemma Qclose_refl x scale : (0 <= scale)%Q -> Qclose x x scale = true.
Proof.
  intros H. unfold Qclose. apply Qle_bool_iff.
  setoid_replace (x - x)%Q with 0%Q by ring. cbn [Qabs Qnum Z.abs].
  change (0 # 1)%Q with 0%Q. apply Qmult_le_0_compat; [unfold tol; lra | exact H].
Qed.

Lemma Qmax1_nonneg x : (0 <= Qmax1 x)%Q.
Proof. unfold Qmax1. destruct (Qle_bool 1 (Qabs x)); [apply Qabs_nonneg | lra]. Qed.

Lemma probQ_nonneg cnt w : 0 <= cnt -> (0 <= probQ cnt w)%Q.
Proof. intros H. unfold probQ, Qle. cbn. lia. Qed.

(* ---- membership ------------------------------------------------------------------------------ *)

Section Members.
  Variable c : call.

  Lemma in_pblock cntf lo_f b k l plus s st h :
    In h (pblock (cK c) (cbin c) cntf lo_f b k l plus s st) ->
    exists i, In i st /\ passes (cK c) (cbin c) b (spec_score lo_f plus s i) = true /\
              h = mk_hit (cK c) (cbin c) cntf lo_f k l plus s i.
  Proof.
    unfold pblock. intros H. apply in_map_iff in H as [i [E Hi]]. apply filter_In in Hi as [Hi Hp].
    exists i. auto.
  Qed.

  Lemma in_pseqs cntf lo_f b k plus h : forall ss l0,
    In h (pseqs (cK c) (cbin c) cntf lo_f b k plus ss l0) ->
    exists j s, nth_error ss j = Some s /\
      In h (pblock (cK c) (cbin c) cntf lo_f b k (l0 + Z.of_nat j) plus s (starts (length s) (length lo_f))).
  Proof.
    induction ss as [|s ss IH]; intros l0 H; [destruct H|]. cbn [pseqs] in H.
    apply in_app_or in H as [H | H].
    - exists O, s. split; [reflexivity|]. rewrite Z.add_0_r. exact H.
    - destruct (IH (l0 + 1) H) as [j [s' [E Hin]]]. exists (S j), s'. split; [exact E|].
      replace (l0 + Z.of_nat (S j)) with (l0 + 1 + Z.of_nat j) by lia. exact Hin.
  Qed.

  Lemma in_pgroups h : forall ms k0, In h (concat (pgroups c ms k0)) ->
    exists j m, nth_error ms j = Some m /\ In h (group c m (k0 + Z.of_nat j)).
  Proof.
    induction ms as [|m ms IH]; intros k0 H; [destruct H|]. cbn [pgroups concat] in H.
    apply in_app_or in H as [H | H].
    - exists O, m. split; [reflexivity|]. rewrite Z.add_0_r. exact H.
    - destruct (IH (k0 + 1) H) as [j [m' [E Hin]]]. exists (S j), m'. split; [exact E|].
      replace (k0 + Z.of_nat (S j)) with (k0 + 1 + Z.of_nat j) by lia. exact Hin.
  Qed.

  (* every hit of the model is the hit of a window that passes *)
  Lemma member_form h : In h (concat (pgroups c (cmotifs c) 0)) ->
    exists k m plus l s i,
      nth_error (cmotifs c) k = Some m /\ (plus = true \/ crc c = true) /\
      nth_error (cseqs c) l = Some s /\ (i < length s + 1 - length (lo m))%nat /\
      passw c m plus s i = true /\
      h = mk_hit (cK c) (cbin c) (count_ge (im m)) (lo m) (Z.of_nat k) (Z.of_nat l) plus s i.
  Proof.
    intros H. destruct (in_pgroups h _ _ H) as [k [m [Ek Hg]]]. rewrite Z.add_0_l in Hg.
    unfold group in Hg.
    assert (Hpm : exists plus, (plus = true \/ crc c = true) /\ In h (pm c plus m (Z.of_nat k))).
    { apply in_app_or in Hg as [Hg | Hg]; [exists true; auto|].
      destruct (crc c) eqn:R; [exists false; auto | destruct Hg]. }
    destruct Hpm as [plus [Hp Hin]]. unfold pm in Hin.
    destruct (in_pseqs _ _ _ _ _ _ _ _ Hin) as [l [s [El Hb]]]. rewrite Z.add_0_l in Hb.
    destruct (in_pblock _ _ _ _ _ _ _ _ _ Hb) as [i [Hi [Hpass E]]].
    unfold starts in Hi. apply in_seq in Hi.
    exists k, m, plus, l, s, i. repeat split; try assumption. lia.
  Qed.
End Members.

(* ---- the per-motif context of the spec ------------------------------------------------------ *)

Lemma find_map_pair {S} (P : Z -> bool) (P' : Z * S -> bool) (g : nat -> Z) (cf : nat -> S) : forall ks,
  (forall k, In k ks -> P (g k) = P' (g k, cf k)) ->
  match find P' (map (fun k => (g k, cf k)) ks) with Some p => Some (fst p) | None => None end =
  find P (map g ks).
Proof.
  induction ks as [|k ks IH]; intros H; [reflexivity|]. cbn [map find].
  rewrite <- (H k (or_introl eq_refl)). destruct (P (g k)); [reflexivity|].
  apply IH. intros k' Hk'. apply H. right; assumption.
Qed.

Lemma combine_map_seq {S T} (g : nat -> S) (cf : nat -> T) ks :
  combine (map g ks) (map cf ks) = map (fun k => (g k, cf k)) ks.
Proof. induction ks; cbn; congruence. Qed.

Lemma spec_b0_fast_eq tl base hi w thr : spec_b0_fast tl base hi w thr = spec_b0 tl base hi w thr.
Proof.
  unfold spec_b0_fast, spec_b0. set (m := Z.to_nat (hi - base + 2)).
  assert (E : firstn m (tl ++ repeat 0 m) =
              map (fun k => fast_ge_from tl base (base + Z.of_nat k)) (seq 0 m)).
  { apply (nth_ext _ _ 0 0).
    - rewrite firstn_length, app_length, repeat_length, map_length, seq_length. lia.
    - intros i Hi. rewrite firstn_length, app_length, repeat_length in Hi.
      assert (Him : (i < m)%nat) by lia.
      rewrite nth_firstn by assumption. rewrite nth_map_seq by assumption.
      assert (Hnth : nth i (tl ++ repeat 0 m) 0 = nth i tl 0).
      { destruct (Nat.lt_ge_cases i (length tl)) as [H1 | H1].
        - apply app_nth1. assumption.
        - rewrite app_nth2 by assumption. rewrite nth_repeat0'. symmetry. apply nth_overflow. assumption. }
      rewrite Hnth. unfold fast_ge_from.
      destruct (Z.leb_spec (base + Z.of_nat i) base) as [Hb | Hb].
      + replace i with 0%nat by lia. destruct tl; reflexivity.
      + rewrite getz_nonneg by lia. f_equal. lia. }
  rewrite E, combine_map_seq.
  apply (find_map_pair (fun b => Qltb (tailp tl base w b) thr)). intros k _. reflexivity.
Qed.

Lemma mctx_facts c m : thr_ok (cthr c) -> mgood (cK c) (cbin c) m ->
  (exists tie, mctx_of c m = MC (fast_tail (im m)) (sum_min (im m)) (length (lo m))
                   (Some (inject_Z (b0of c m) * cbin c)%Q) tie) /\
  gleast (Pb (im m) (cthr c)) (b0of c m).
Proof.
  intros HT [HR [W [A4 Hw]]].
  destruct (spec_b0_gleast (im m) (cthr c) W A4 HT) as [b0 [E [G _]]].
  unfold mctx_of, b0of. rewrite spec_b0_fast_eq, (mat_rel_length _ _ _ _ HR), E.
  split; [eexists; reflexivity | exact G].
Qed.

Lemma tailp_count m w b : wfB (im m) ->
  tailp (fast_tail (im m)) (sum_min (im m)) w b = probQ (count_ge (im m) b) w.
Proof.
  intros W. unfold tailp. f_equal. apply (fast_ge_correct (im m)). apply wfA_cols. apply W.
Qed.

Section HitOk.
  Variable c : call.
  Hypothesis G : cgood c.

  Lemma window_class k m plus s i : nth_error (cmotifs c) k = Some m ->
    let sQ := scoreQ (cK c) (spec_score (lo m) plus s i) in
    let X := nth k (map (mctx_of c) (cmotifs c)) (MC [] 0 0 None false) in
    (passw c m plus s i = true -> wcls (m_tie X) (m_T X) s i (length (lo m)) sQ <> WMiss) /\
    (passw c m plus s i = false -> wcls (m_tie X) (m_T X) s i (length (lo m)) sQ <> WHit).
  Proof.
    intros Ek sQ X. destruct G as [HK [Hbin [HT [Hne [HG Hss]]]]].
    assert (Gm : mgood (cK c) (cbin c) m).
    { rewrite Forall_forall in HG. apply HG. eapply nth_error_In; eassumption. }
    destruct (mctx_facts c m HT Gm) as [[tie Ex] _].
    assert (EX : X = MC (fast_tail (im m)) (sum_min (im m)) (length (lo m))
                        (Some (inject_Z (b0of c m) * cbin c)%Q) tie).
    { unfold X. rewrite (nth_error_nth _ _ _ (map_nth_error (mctx_of c) k (cmotifs c) Ek)). exact Ex. }
    rewrite EX. cbn [m_tie m_T]. unfold passw. rewrite (passes_Qltb _ _ _ _ HK). unfold wcls.
    destruct tie; [split; discriminate|].
    destruct (all_unknown s i (length (lo m))).
    - fold sQ. split; intros H; rewrite H; discriminate.
    - split; [apply classify_pass | apply classify_nopass].
  Qed.

  Lemma hit_ok_member k m plus l s i :
    nth_error (cmotifs c) k = Some m -> (plus = true \/ crc c = true) ->
    nth_error (cseqs c) l = Some s -> (i < length s + 1 - length (lo m))%nat ->
    passw c m plus s i = true ->
    hit_ok c (map (mctx_of c) (cmotifs c))
           (mk_hit (cK c) (cbin c) (count_ge (im m)) (lo m) (Z.of_nat k) (Z.of_nat l) plus s i) = true.
  Proof.
    intros Ek Hp El Hi Hpass.
    destruct (window_class k m plus s i Ek) as [Hcls _]. specialize (Hcls Hpass).
    destruct G as [HK [Hbin [HT [Hne [HG Hss]]]]].
    assert (Gm : mgood (cK c) (cbin c) m).
    { rewrite Forall_forall in HG. apply HG. eapply nth_error_In; eassumption. }
    destruct (mctx_facts c m HT Gm) as [[tie Ex] Gb]. destruct Gm as [HR [W [A4 Hw]]].
    assert (Hk : (k < length (cmotifs c))%nat) by (apply nth_error_Some; congruence).
    assert (Hl : (l < length (cseqs c))%nat) by (apply nth_error_Some; congruence).
    unfold hit_ok, mk_hit. cbn [h_motif h_plus h_seq h_start h_end h_score h_p]. cbv zeta.
    rewrite !Nat2Z.id.
    rewrite (nth_error_nth _ _ _ Ek), (nth_error_nth _ _ _ El).
    rewrite (nth_error_nth _ _ _ (map_nth_error (mctx_of c) k (cmotifs c) Ek)) in Hcls |- *.
    rewrite Ex in Hcls |- *. cbn [m_T m_tl m_base m_w m_tie] in Hcls |- *.
    set (sZ := spec_score (lo m) plus s i) in *.
    set (sQ := scoreQ (cK c) sZ) in *.
    set (q := score_bin (cK c) (cbin c) sZ).
    (* the bin of a passing window is at or above the threshold bin *)
    assert (Hq : b0of c m <= q).
    { unfold passw in Hpass. fold sZ in Hpass. unfold passes in Hpass. apply Z.ltb_lt in Hpass.
      unfold q, score_bin. apply (quot_lower (cK c) (cbin c) HK Hbin). nia. }
    repeat (apply andb_true_iff; split).
    - lia.
    - lia.
    - destruct Hp as [-> | ->]; [reflexivity | apply orb_true_r].
    - lia.
    - lia.
    - lia.
    - apply Z.leb_le. lia.
    - apply Z.eqb_eq. lia.
    - destruct (wcls _ _ _ _ _ sQ); [reflexivity | congruence | reflexivity].
    - apply Qclose_refl. apply Qmax1_nonneg.
    - unfold p_ok. cbn [existsb]. unfold sQ. rewrite <- (score_bin_Qtrunc _ _ _ HK Hbin). fold q.
      rewrite (tailp_count m _ q W).
      rewrite Qclose_refl; [reflexivity|]. apply probQ_nonneg. apply count_ge_le_total.
    - apply orb_true_iff. left. rewrite probQ_below.
      rewrite (mat_rel_length _ _ _ _ HR).
      change (p_below (count_ge (im m) q) (pow4 (length (im m))) (cthr c)) with (Pb (im m) (cthr c) q).
      apply (Pb_mono _ _ (b0of c m)); [exact Hq | apply Gb].
  Qed.

  Lemma hits_forall : forallb (hit_ok c (map (mctx_of c) (cmotifs c))) (concat (pgroups c (cmotifs c) 0)) = true.
  Proof.
    apply forallb_forall. intros h Hh.
    destruct (member_form c h Hh) as [k [m [plus [l [s [i [Ek [Hp [El [Hi [Hpass ->]]]]]]]]]]].
    apply hit_ok_member; assumption.
  Qed.

  (* every window: reported once iff it passes *)
  Lemma windows_all hs :
    (forall k plus l i m s, nth_error (cmotifs c) k = Some m -> nth_error (cseqs c) l = Some s ->
       (plus = true \/ crc c = true) -> (i < length s + 1 - length (lo m))%nat ->
       count_key hs (Z.of_nat k) plus (Z.of_nat l) (Z.of_nat i) = if passw c m plus s i then 1 else 0) ->
    windows_ok c (map (mctx_of c) (cmotifs c)) hs = true.
  Proof.
    intros Hcount. unfold windows_ok.
    apply forallb_forall. intros k Hk. apply in_seq in Hk.
    destruct (nth_error (cmotifs c) k) as [m|] eqn:Ek; [|apply nth_error_None in Ek; lia].
    rewrite (nth_error_nth _ _ _ Ek).
    apply forallb_forall. intros plus Hplus.
    assert (Hp : plus = true \/ crc c = true).
    { unfold strands in Hplus. destruct (crc c); [auto|]. destruct Hplus as [<- | []]. auto. }
    apply forallb_forall. intros l Hl. apply in_seq in Hl.
    destruct (nth_error (cseqs c) l) as [s|] eqn:El; [|apply nth_error_None in El; lia].
    rewrite (nth_error_nth _ _ _ El).
    apply forallb_forall. intros i Hi. apply in_seq in Hi.
    rewrite (Hcount k plus l i m s Ek El Hp) by lia.
    destruct (window_class k m plus s i Ek) as [C1 C2].
    destruct (passw c m plus s i).
    - specialize (C1 eq_refl). destruct (wcls _ _ _ _ _ _); [reflexivity | congruence | reflexivity].
    - specialize (C2 eq_refl). destruct (wcls _ _ _ _ _ _); [congruence | reflexivity | reflexivity].
  Qed.

  Lemma windows_model : windows_ok c (map (mctx_of c) (cmotifs c)) (concat (pgroups c (cmotifs c) 0)) = true.
  Proof.
    apply windows_all. intros k plus l i m s Ek El Hp Hi.
    rewrite (count_all c k plus l i m s Ek El Hp).
    replace (i <? length s + 1 - length (lo m))%nat with true by (symmetry; apply Nat.ltb_lt; exact Hi).
    reflexivity.
  Qed.
End HitOk.

(* ---- scope reflection ------------------------------------------------------------------------ *)

Lemma forallb_combine_Forall2 {S T} (f : S * T -> bool) (R : S -> T -> Prop) :
  (forall a b, f (a, b) = true -> R a b) ->
  forall l1 l2, length l1 = length l2 -> forallb f (combine l1 l2) = true -> Forall2 R l1 l2.
Proof.
  intros HR. induction l1 as [|a l1 IH]; intros [|b l2] HL H; cbn in HL; try discriminate; [constructor|].
  cbn in H. apply andb_true_iff in H as [H1 H2]. constructor; [apply HR; exact H1 | apply IH; [lia | exact H2]].
Qed.

Lemma col_ok_rel K bin lc ic : col_ok K bin lc ic = true -> col_rel K bin lc ic.
Proof.
  unfold col_ok. intros H. apply andb_true_iff in H as [H H4]. apply andb_true_iff in H as [H H3].
  apply andb_true_iff in H as [H1 H2]. apply Nat.eqb_eq in H1, H2.
  split; [exact H1|]. split; [exact H2|]. split; [|lia].
  intros a Ha. rewrite forallb_forall in H3.
  assert (Hin : In (nth a lc 0, nth a ic 0) (combine lc ic)).
  { rewrite <- combine_nth by lia. apply nth_In. rewrite combine_length. lia. }
  specialize (H3 _ Hin). unfold rounded1 in H3. cbn [fst snd] in H3. unfold ent_rel. lia.
Qed.

Lemma motif_ok_good K bin m : motif_ok K bin m = true -> mgood K bin m.
Proof.
  unfold motif_ok. intros H. apply andb_true_iff in H as [H H4]. apply andb_true_iff in H as [H H3].
  apply andb_true_iff in H as [H1 H2]. apply Nat.ltb_lt in H1. apply Nat.eqb_eq in H2.
  assert (HR : mat_rel K bin (lo m) (im m)).
  { apply (forallb_combine_Forall2 (fun p => col_ok K bin (fst p) (snd p))); [|exact H2 | exact H4].
    intros a b Hab. apply col_ok_rel. exact Hab. }
  split; [exact HR|]. split; [apply wfb_wfB; exact H3|]. split; [|exact H1].
  unfold alpha. destruct HR as [|lc ic lo' im' [_ [Hic _]] _]; [cbn in H1; lia|]. exact Hic.
Qed.

Lemma scope_good c : scope c = true -> cgood c.
Proof.
  unfold scope. intros H.
  apply andb_true_iff in H as [H H7]. apply andb_true_iff in H as [H H6].
  apply andb_true_iff in H as [H H5]. apply andb_true_iff in H as [H H4].
  apply andb_true_iff in H as [H H3]. apply andb_true_iff in H as [H1 H2].
  split; [lia|]. split; [lia|]. split; [unfold thr_ok; lia|].
  split; [destruct (cmotifs c); [discriminate | discriminate]|]. split.
  - apply Forall_forall. intros m Hm. rewrite forallb_forall in H6. apply motif_ok_good. apply H6. exact Hm.
  - apply Forall_forall. intros s Hs. rewrite forallb_forall in H7. specialize (H7 s Hs).
    apply Forall_forall. intros x Hx. rewrite forallb_forall in H7. specialize (H7 x Hx). lia.
Qed.

(* ---- regrouping ------------------------------------------------------------------------------ *)

Lemma pgroups_length c : forall ms k0, length (pgroups c ms k0) = length ms.
Proof. induction ms; intros k0; cbn; [reflexivity | rewrite IHms; reflexivity]. Qed.

Lemma pgroups_nth c : forall ms k0 j m, nth_error ms j = Some m ->
  nth j (pgroups c ms k0) [] = group c m (k0 + Z.of_nat j).
Proof.
  induction ms as [|m0 ms IH]; intros k0 j m Hj; [destruct j; discriminate|].
  destruct j as [|j]; cbn [pgroups nth].
  - injection Hj as ->. rewrite Z.add_0_r. reflexivity.
  - cbn [nth_error] in Hj. rewrite (IH (k0 + 1) j m Hj). f_equal. lia.
Qed.

Lemma count_key_filter_split hs (p q : hit -> bool) k plus l i :
  (forall h, p h && q h = false) ->
  count_key (filter p hs) k plus l i + count_key (filter q hs) k plus l i =
  count_key (filter (fun h => p h || q h) hs) k plus l i.
Proof.
  intros Hd. induction hs as [|h hs IH]; [reflexivity|]. cbn [filter].
  specialize (Hd h). destruct (p h), (q h); cbn [orb andb] in *; try discriminate;
    rewrite ?count_key_cons; lia.
Qed.

Lemma count_by_seq_aux hs k plus l i : forall n,
  count_key (concat (map (fun l' => filter (fun h => h_seq h =? Z.of_nat l') hs) (seq 0 n))) k plus l i =
  count_key (filter (fun h => (0 <=? h_seq h) && (h_seq h <? Z.of_nat n)) hs) k plus l i.
Proof.
  induction n as [|n IH].
  - cbn [seq map concat]. symmetry. apply count_key_zero. intros h Hh. apply filter_In in Hh as [_ Hh]. lia.
  - rewrite seq_S, map_app, concat_app, count_key_app, IH. cbn [map concat Nat.add]. rewrite app_nil_r.
    rewrite count_key_filter_split by (intros h; lia).
    f_equal. apply filter_ext. intros h. lia.
Qed.

Lemma concat_filter_nonempty {T} (ll : list (list T)) :
  concat (filter (fun g => negb (Nat.eqb (length g) 0)) ll) = concat ll.
Proof.
  induction ll as [|g ll IH]; [reflexivity|]. cbn [filter].
  destruct g as [|x g]; cbn [length Nat.eqb negb concat]; [exact IH|]. cbn. rewrite IH. reflexivity.
Qed.

Lemma count_by_seq hs n k plus l i :
  Forall (fun h => 0 <= h_seq h < Z.of_nat n) hs ->
  count_key (concat (by_seq n hs)) k plus l i = count_key hs k plus l i.
Proof.
  intros H. unfold by_seq. rewrite concat_filter_nonempty, count_by_seq_aux. f_equal.
  rewrite Forall_forall in H. clear - H. induction hs as [|h hs IH]; [reflexivity|].
  cbn [filter]. pose proof (H h (or_introl eq_refl)).
  replace ((0 <=? h_seq h) && (h_seq h <? Z.of_nat n)) with true by lia.
  f_equal. apply IH. intros; apply H; right; assumption.
Qed.

Lemma in_by_seq hs n g : In g (by_seq n hs) ->
  exists l, (l < n)%nat /\ g = filter (fun h => h_seq h =? Z.of_nat l) hs /\ g <> [].
Proof.
  unfold by_seq. intros H. apply filter_In in H as [H Hne]. apply in_map_iff in H as [l [E Hl]].
  apply in_seq in Hl. exists l. split; [lia|]. split; [symmetry; exact E|].
  destruct g; [discriminate | discriminate].
Qed.

Lemma nodupz_NoDup l : NoDup l -> nodupz l = true.
Proof.
  induction 1 as [|x l Hx HN IH]; [reflexivity|]. cbn [nodupz]. rewrite IH, andb_true_r.
  apply negb_true_iff. destruct (existsb (Z.eqb x) l) eqn:E; [|reflexivity].
  apply existsb_exists in E as [y [Hy Exy]]. apply Z.eqb_eq in Exy. subst. contradiction.
Qed.

Lemma by_seq_ids hs : forall ls, NoDup ls ->
  NoDup (map (fun grp : list hit => match grp with [] => -1 | h :: _ => h_seq h end)
             (filter (fun g => negb (Nat.eqb (length g) 0))
                     (map (fun l' => filter (fun h => h_seq h =? Z.of_nat l') hs) ls))) /\
  forall z, In z (map (fun grp : list hit => match grp with [] => -1 | h :: _ => h_seq h end)
             (filter (fun g => negb (Nat.eqb (length g) 0))
                     (map (fun l' => filter (fun h => h_seq h =? Z.of_nat l') hs) ls))) ->
            exists l', In l' ls /\ z = Z.of_nat l'.
Proof.
  induction ls as [|l0 ls IH]; intros HN.
  - split; [constructor | intros z []].
  - apply NoDup_cons_iff in HN as [Hnot HN]. destruct (IH HN) as [I1 I2]. cbn [map filter].
    destruct (filter (fun h => h_seq h =? Z.of_nat l0) hs) as [|h g] eqn:E.
    + cbn [length Nat.eqb negb]. split; [exact I1|]. intros z Hz. destruct (I2 z Hz) as [l' [H1 H2]].
      exists l'. split; [right; exact H1 | exact H2].
    + cbn [length Nat.eqb negb map].
      assert (Hh : h_seq h = Z.of_nat l0).
      { assert (Hin : In h (filter (fun h => h_seq h =? Z.of_nat l0) hs)) by (rewrite E; left; reflexivity).
        apply filter_In in Hin as [_ Hh]. lia. }
      split.
      * constructor; [|exact I1]. intros Hin. destruct (I2 _ Hin) as [l' [H1 H2]].
        rewrite Hh in H2. apply Nat2Z.inj in H2. subst. contradiction.
      * intros z [<- | Hz]; [exists l0; split; [left; reflexivity | exact Hh]|].
        destruct (I2 z Hz) as [l' [H1 H2]]. exists l'. split; [right; exact H1 | exact H2].
Qed.

(* ---- counts ---------------------------------------------------------------------------------- *)

Lemma filter_len_le {T} (f g : T -> bool) l :
  (forall x, In x l -> f x = true -> g x = true) -> (length (filter f l) <= length (filter g l))%nat.
Proof.
  induction l as [|x l IH]; intros H; [cbn; lia|]. cbn [filter].
  assert (IH' : (length (filter f l) <= length (filter g l))%nat) by (apply IH; intros; apply H; [right|]; assumption).
  destruct (f x) eqn:E; [rewrite (H x (or_introl eq_refl) E); cbn; lia|].
  destruct (g x); cbn; lia.
Qed.

Lemma filter_len_split {T} (g f1 f2 : T -> bool) l :
  (forall x, In x l -> g x = true -> f1 x = true \/ f2 x = true) ->
  (length (filter g l) <= length (filter f1 l) + length (filter f2 l))%nat.
Proof.
  induction l as [|x l IH]; intros H; [cbn; lia|]. cbn [filter].
  assert (IH' : (length (filter g l) <= length (filter f1 l) + length (filter f2 l))%nat)
    by (apply IH; intros; apply H; [right|]; assumption).
  destruct (g x) eqn:E; [|destruct (f1 x), (f2 x); cbn; lia].
  destruct (H x (or_introl eq_refl) E) as [E1 | E2].
  - rewrite E1. destruct (f2 x); cbn; lia.
  - rewrite E2. destruct (f1 x); cbn; lia.
Qed.

Lemma map_nth_seq' {T} (d : T) (l : list T) : map (fun a => nth a l d) (seq 0 (length l)) = l.
Proof.
  induction l as [|x l IH]; [reflexivity|].
  cbn [length seq map nth]. f_equal. rewrite <- seq_shift, map_map. exact IH.
Qed.

Lemma sumz_nth_seq {T} (F : T -> Z) (d : T) (l : list T) :
  sumz (map (fun a => F (nth a l d)) (seq 0 (length l))) = sumz (map F l).
Proof. rewrite <- (map_map (fun a => nth a l d) F), map_nth_seq'. reflexivity. Qed.

Lemma sumz_map_le {T} (f g : T -> Z) l : (forall x, In x l -> f x <= g x) -> sumz (map f l) <= sumz (map g l).
Proof.
  induction l as [|x l IH]; intros H; [cbn; lia|]. cbn [map sumz].
  pose proof (H x (or_introl eq_refl)).
  assert (sumz (map f l) <= sumz (map g l)) by (apply IH; intros; apply H; right; assumption). lia.
Qed.

Lemma sumz_map_add {T} (f g : T -> Z) l : sumz (map (fun x => f x + g x) l) = sumz (map f l) + sumz (map g l).
Proof. induction l; cbn; lia. Qed.

Section CountsOk.
  Variable c : call.
  Hypothesis G : cgood c.

  Definition npass (m : motif) (plus : bool) (s : list Z) : Z :=
    Z.of_nat (length (filter (passw c m plus s) (seq 0 (length s + 1 - length (lo m))))).

  Lemma pseqs_length cntf lo_f b k plus : forall ss l0,
    Z.of_nat (length (pseqs (cK c) (cbin c) cntf lo_f b k plus ss l0)) =
    sumz (map (fun s => Z.of_nat (length (filter (fun i => passes (cK c) (cbin c) b (spec_score lo_f plus s i))
                                                 (seq 0 (length s + 1 - length lo_f))))) ss).
  Proof.
    induction ss as [|s ss IH]; intros l0; [reflexivity|]. cbn [pseqs map sumz].
    rewrite app_length, Nat2Z.inj_add, IH. unfold pblock, starts. rewrite map_length. reflexivity.
  Qed.

  Lemma pm_length plus m k :
    Z.of_nat (length (pm c plus m k)) = sumz (map (npass m plus) (cseqs c)).
  Proof. unfold pm. rewrite pseqs_length. reflexivity. Qed.

  Lemma group_length m k :
    Z.of_nat (length (group c m k)) = sumz (map (fun plus => sumz (map (npass m plus) (cseqs c))) (strands (crc c))).
  Proof.
    unfold group, strands. rewrite app_length, Nat2Z.inj_add, pm_length.
    destruct (crc c); cbn [map sumz]; [rewrite pm_length; lia | cbn; lia].
  Qed.

  Definition wcnt (X : mctx) (m : motif) (plus : bool) (s : list Z) (cls : wclass) : Z :=
    Z.of_nat (length (filter (fun i =>
        match wcls (m_tie X) (m_T X) s i (length (lo m)) (scoreQ (cK c) (spec_score (lo m) plus s i)), cls with
        | WHit, WHit | WAmb, WAmb => true
        | _, _ => false
        end) (seq 0 (length s + 1 - length (lo m))))).

  Lemma count_class_eq ctxs k m cls : nth_error (cmotifs c) k = Some m ->
    count_class c ctxs k cls =
    sumz (map (fun plus => sumz (map (fun s => wcnt (nth k ctxs (MC [] 0 0 None false)) m plus s cls) (cseqs c)))
              (strands (crc c))).
  Proof.
    intros Ek. unfold count_class. rewrite (nth_error_nth _ _ _ Ek).
    apply sumz_map_ext. intros plus _.
    exact (sumz_nth_seq (fun s => wcnt (nth k ctxs (MC [] 0 0 None false)) m plus s cls) [] (cseqs c)).
  Qed.

  Lemma class_bounds k m : nth_error (cmotifs c) k = Some m ->
    let ctxs := map (mctx_of c) (cmotifs c) in
    count_class c ctxs k WHit <= Z.of_nat (length (group c m (Z.of_nat k))) <=
    count_class c ctxs k WHit + count_class c ctxs k WAmb.
  Proof.
    intros Ek ctxs. rewrite group_length, !(count_class_eq ctxs k m _ Ek).
    set (T := nth k ctxs (MC [] 0 0 None false)).
    assert (Hper : forall plus s,
      wcnt T m plus s WHit <= npass m plus s <= wcnt T m plus s WHit + wcnt T m plus s WAmb).
    { intros plus s. unfold wcnt, npass. split.
      - apply inj_le. apply filter_len_le. intros i _ Hi.
        destruct (window_class c G k m plus s i Ek) as [_ C2]. fold ctxs T in C2.
        destruct (passw c m plus s i); [reflexivity|]. specialize (C2 eq_refl).
        destruct (wcls _ _ _ _ _ _); congruence.
      - rewrite <- Nat2Z.inj_add. apply inj_le. apply filter_len_split. intros i _ Hi.
        destruct (window_class c G k m plus s i Ek) as [C1 _]. fold ctxs T in C1. specialize (C1 Hi).
        destruct (wcls _ _ _ _ _ _); [left; reflexivity | congruence | right; reflexivity]. }
    rewrite <- sumz_map_add. split.
    - apply sumz_map_le. intros plus _. apply sumz_map_le. intros s _. apply (Hper plus s).
    - apply sumz_map_le. intros plus _. rewrite <- sumz_map_add. apply sumz_map_le. intros s _. apply (Hper plus s).
  Qed.
End CountsOk.

(* ---- the theorem ------------------------------------------------------------------------------ *)

Theorem spec_model c : spec_ok c (model c) = true.
Proof.
  unfold spec_ok. destruct (scope c) eqn:S; [|reflexivity].
  pose proof (scope_good c S) as G. unfold model. rewrite (fimo_pure c G).
  set (ctxs := map (mctx_of c) (cmotifs c)). set (hs := concat (pgroups c (cmotifs c) 0)).
  assert (Hhits : hits_ok c ctxs hs = true).
  { unfold hits_ok, ctxs, hs. rewrite (hits_forall c G), (windows_model c G). reflexivity. }
  destruct (cmode c).
  - (* Dim0 *)
    rewrite pgroups_length, Nat.eqb_refl. cbn [andb]. fold hs. rewrite Hhits, andb_true_r.
    apply forallb_forall. intros k Hk. apply in_seq in Hk.
    destruct (nth_error (cmotifs c) k) as [m|] eqn:Ek; [|apply nth_error_None in Ek; lia].
    rewrite (pgroups_nth c _ 0 k m Ek). apply forallb_forall. intros h Hh.
    pose proof (group_label c m (0 + Z.of_nat k)) as HL. rewrite Forall_forall in HL.
    destruct (HL h Hh) as [H1 _]. lia.
  - (* Dim1 *)
    fold hs. set (n := length (cseqs c)).
    assert (Hseq : Forall (fun h => 0 <= h_seq h < Z.of_nat n) hs).
    { apply Forall_forall. intros h Hh.
      destruct (in_pgroups c h _ _ Hh) as [j [m [_ Hg]]].
      pose proof (group_label c m (0 + Z.of_nat j)) as HL. rewrite Forall_forall in HL.
      apply (HL h Hg). }
    repeat (apply andb_true_iff; split).
    + apply forallb_forall. intros g Hg. destruct (in_by_seq _ _ _ Hg) as [l [Hl [E Hne]]].
      destruct g as [|h g]; [congruence|]. apply forallb_forall. intros h' Hh'.
      assert (H1 : In h' (filter (fun h => h_seq h =? Z.of_nat l) hs)) by (rewrite <- E; exact Hh').
      assert (H2 : In h (filter (fun h => h_seq h =? Z.of_nat l) hs)) by (rewrite <- E; left; reflexivity).
      apply filter_In in H1 as [_ H1]. apply filter_In in H2 as [_ H2]. lia.
    + apply nodupz_NoDup. apply (by_seq_ids hs (seq 0 n)). apply seq_NoDup.
    + apply forallb_forall. intros h Hh. apply in_concat in Hh as [g [Hg Hh]].
      destruct (in_by_seq _ _ _ Hg) as [l [_ [E _]]]. subst g. apply filter_In in Hh as [Hh _].
      pose proof (hits_forall c G) as HF. rewrite forallb_forall in HF. apply HF. exact Hh.
    + apply (windows_all c G). intros k plus l i m s Ek El Hp Hi.
      rewrite (count_by_seq hs n _ _ _ _ Hseq). unfold hs.
      rewrite (count_all c k plus l i m s Ek El Hp).
      replace (i <? length s + 1 - length (lo m))%nat with true by (symmetry; apply Nat.ltb_lt; exact Hi).
      reflexivity.
  - (* Counts *)
    rewrite map_length, pgroups_length, Nat.eqb_refl. cbn [andb].
    apply forallb_forall. intros k Hk. apply in_seq in Hk.
    destruct (nth_error (cmotifs c) k) as [m|] eqn:Ek; [|apply nth_error_None in Ek; lia].
    assert (Ev : nth k (map (fun g => Z.of_nat (length g)) (pgroups c (cmotifs c) 0)) (-1) =
                 Z.of_nat (length (group c m (Z.of_nat k)))).
    { rewrite (nth_indep _ (-1) (Z.of_nat (length (@nil hit)))) by (rewrite map_length, pgroups_length; lia).
      rewrite (map_nth (fun g => Z.of_nat (length g))). rewrite (pgroups_nth c _ 0 k m Ek). reflexivity. }
    rewrite Ev. pose proof (class_bounds c G k m Ek) as HB. cbv zeta in HB. fold ctxs in HB. lia.
Qed.

(* ---------------------------------------------------------------------------------------- *)
(* H. the named theorems                                                                      *)

(* scan_windows: the scanned starts are exactly 0..L-w, none when L < w *)
Theorem scan_windows L w : NoDup (starts L w) /\ forall i, In i (starts L w) <-> (i + w <= L)%nat.
Proof.
  unfold starts. split; [apply seq_NoDup|]. intros i. rewrite in_seq. lia.
Qed.

Lemma count_key_pos hs k plus l i : count_key hs k plus l i <> 0 ->
  exists h, In h hs /\ same_key k plus l i h = true.
Proof.
  unfold count_key. intros H. destruct (filter (same_key k plus l i) hs) as [|h r] eqn:E; [cbn in H; lia|].
  exists h. apply filter_In. rewrite E. left. reflexivity.
Qed.

Definition all_hits (c : call) : list hit := concat (pgroups c (cmotifs c) 0).

(* hit_iff: a window is reported iff its exact score exceeds the threshold of its motif;
   the reported fields are (motif, sequence, start, start + w, strand, exact score, exact tail
   probability of the score's bin) and that p-value is below the p-value threshold *)
Theorem hit_iff c : cgood c ->
  (forall h, In h (all_hits c) ->
     exists k m plus l s i,
       nth_error (cmotifs c) k = Some m /\ (plus = true \/ crc c = true) /\
       nth_error (cseqs c) l = Some s /\ (i + length (lo m) <= length s)%nat /\
       h = mk_hit (cK c) (cbin c) (count_ge (im m)) (lo m) (Z.of_nat k) (Z.of_nat l) plus s i /\
       (inject_Z (b0of c m) * cbin c < scoreQ (cK c) (spec_score (lo m) plus s i))%Q /\
       (h_p h < cthr c)%Q) /\
  (forall k m plus l s i,
     nth_error (cmotifs c) k = Some m -> (plus = true \/ crc c = true) ->
     nth_error (cseqs c) l = Some s -> (i + length (lo m) <= length s)%nat ->
     (inject_Z (b0of c m) * cbin c < scoreQ (cK c) (spec_score (lo m) plus s i))%Q ->
     In (mk_hit (cK c) (cbin c) (count_ge (im m)) (lo m) (Z.of_nat k) (Z.of_nat l) plus s i) (all_hits c) /\
     count_key (all_hits c) (Z.of_nat k) plus (Z.of_nat l) (Z.of_nat i) = 1).
Proof.
  intros G. pose proof G as [HK [Hbin [HT [Hne [HG Hss]]]]]. split.
  - intros h Hh. destruct (member_form c h Hh) as [k [m [plus [l [s [i [Ek [Hp [El [Hi [Hpass E]]]]]]]]]]].
    exists k, m, plus, l, s, i. repeat (split; [first [assumption | lia]|]).
    split.
    + apply Qltb_lt. rewrite <- (passes_Qltb _ _ _ _ HK). exact Hpass.
    + pose proof (hit_ok_member c G k m plus l s i Ek Hp El Hi Hpass) as HO. rewrite <- E in HO.
      pose proof (hits_forall c G) as HF. clear HF.
      (* the p-value: recompute as in hit_ok_member *)
      assert (Gm : mgood (cK c) (cbin c) m).
      { rewrite Forall_forall in HG. apply HG. eapply nth_error_In; eassumption. }
      destruct (mctx_facts c m HT Gm) as [_ Gb]. destruct Gm as [HR [W [A4 Hw]]].
      subst h. unfold mk_hit. cbn [h_p]. apply Qltb_lt. rewrite probQ_below.
      rewrite (mat_rel_length _ _ _ _ HR).
      change (Pb (im m) (cthr c) (score_bin (cK c) (cbin c) (spec_score (lo m) plus s i)) = true).
      apply (Pb_mono _ _ (b0of c m)); [|apply Gb].
      unfold passw, passes in Hpass. apply Z.ltb_lt in Hpass.
      unfold score_bin. apply (quot_lower (cK c) (cbin c) HK Hbin). nia.
  - intros k m plus l s i Ek Hp El Hi Hlt.
    assert (Hpass : passw c m plus s i = true).
    { unfold passw. rewrite (passes_Qltb _ _ _ _ HK). apply Qltb_lt. exact Hlt. }
    assert (Hc : count_key (all_hits c) (Z.of_nat k) plus (Z.of_nat l) (Z.of_nat i) = 1).
    { unfold all_hits. rewrite (count_all c k plus l i m s Ek El Hp), Hpass.
      replace (i <? length s + 1 - length (lo m))%nat with true by (symmetry; apply Nat.ltb_lt; lia).
      reflexivity. }
    split; [|exact Hc].
    destruct (count_key_pos (all_hits c) _ _ _ _ ltac:(rewrite Hc; discriminate)) as [h [Hh Hkey]].
    destruct (member_form c h Hh) as [k' [m' [plus' [l' [s' [i' [Ek' [_ [El' [_ [_ E]]]]]]]]]]].
    subst h. unfold same_key, mk_hit in Hkey. cbn [h_motif h_plus h_seq h_start] in Hkey.
    apply andb_true_iff in Hkey as [Hkey K4]. apply andb_true_iff in Hkey as [Hkey K3].
    apply andb_true_iff in Hkey as [K1 K2].
    apply Z.eqb_eq in K1, K3, K4. apply Nat2Z.inj in K1, K3, K4. apply Bool.eqb_prop in K2. subst k' l' i' plus'.
    assert (m' = m) by congruence. assert (s' = s) by congruence. subst. exact Hh.
Qed.

(* ---- rc_mirror ---------------------------------------------------------------------------- *)

Definition comp (x : Z) : Z := if x =? -1 then -1 else 3 - x.
Definition rcseq (s : list Z) : list Z := map comp (rev s).

Lemma sumz_app l1 l2 : sumz (l1 ++ l2) = sumz l1 + sumz l2.
Proof. rewrite !sumz_sumZ. apply sumZ_app. Qed.

Lemma sumz_rev_seq (f : nat -> Z) : forall w,
  sumz (map f (seq 0 w)) = sumz (map (fun j => f (w - 1 - j)%nat) (seq 0 w)).
Proof.
  induction w as [|w IH]; [reflexivity|].
  assert (L : sumz (map f (seq 0 (S w))) = sumz (map f (seq 0 w)) + f w).
  { rewrite seq_S, map_app, sumz_app. cbn [map sumz Nat.add]. lia. }
  assert (R : sumz (map (fun j => f (S w - 1 - j)%nat) (seq 0 (S w))) =
              f w + sumz (map (fun j => f (w - 1 - j)%nat) (seq 0 w))).
  { change (seq 0 (S w)) with (0%nat :: seq 1 w). rewrite <- seq_shift, map_cons, map_map.
    change (sumz (?a :: ?l)) with (a + sumz l).
    replace (S w - 1 - 0)%nat with w by lia. f_equal.
    apply sumz_map_ext. intros j _. f_equal. lia. }
  rewrite L, R, IH. lia.
Qed.

Lemma rcseq_nth s p : chars_ok s -> (p < length s)%nat ->
  nth p (rcseq s) (-1) = comp (nth (length s - 1 - p) s (-1)).
Proof.
  intros Hs Hp. unfold rcseq. change (-1) with (comp (-1)) at 1. rewrite map_nth.
  rewrite rev_nth by assumption. f_equal. f_equal. lia.
Qed.

(* the score of the window at i of the reverse-complemented sequence equals the score of the
   mirrored window L-w-i of the sequence on the other strand (exact arithmetic) *)
Theorem rc_mirror_score lo plus s i : chars_ok s -> (i + length lo <= length s)%nat ->
  spec_score lo plus (rcseq s) i = spec_score lo (negb plus) s (length s - length lo - i).
Proof.
  intros Hs Hi. rewrite !spec_score_nth. set (w := length lo). set (L := length s).
  rewrite (sumz_rev_seq (fun j => spec_entry lo (negb plus) j (nth (L - w - i + j) s (-1))) w).
  apply sumz_map_ext. intros j Hj. apply in_seq in Hj.
  rewrite rcseq_nth by (fold L; try assumption; lia). fold L.
  replace (L - w - i + (w - 1 - j))%nat with (L - 1 - (i + j))%nat by lia.
  pose proof (chars_nth s (L - 1 - (i + j)) Hs) as Hx.
  set (x := nth (L - 1 - (i + j)) s (-1)) in *.
  unfold spec_entry, comp. fold w.
  destruct (Z.eqb_spec x (-1)) as [-> | Hne]; [destruct plus; reflexivity|].
  replace (3 - x =? -1) with false by (symmetry; apply Z.eqb_neq; lia).
  destruct plus; cbn [negb].
  - replace (w - 1 - (w - 1 - j))%nat with j by lia. reflexivity.
  - replace (3 - (3 - x)) with x by lia. reflexivity.
Qed.

Lemma rcseq_length s : length (rcseq s) = length s.
Proof. unfold rcseq. rewrite map_length, rev_length. reflexivity. Qed.

(* rc_mirror: with both strands scanned, the hits on rc(seq) are the mirror image of the hits
   on seq with strands exchanged: same motif, start L-w-i, same exact score, same p-value *)
Theorem rc_mirror c m plus s i : chars_ok s -> (i + length (lo m) <= length s)%nat ->
  let i' := (length s - length (lo m) - i)%nat in
  passw c m plus (rcseq s) i = passw c m (negb plus) s i' /\
  forall k l l',
    let h := mk_hit (cK c) (cbin c) (count_ge (im m)) (lo m) k l plus (rcseq s) i in
    let h' := mk_hit (cK c) (cbin c) (count_ge (im m)) (lo m) k l' (negb plus) s i' in
    h_score h = h_score h' /\ h_p h = h_p h' /\ h_plus h = negb (h_plus h') /\
    h_start h' = Z.of_nat (length s) - h_end h /\ h_end h' = Z.of_nat (length s) - h_start h.
Proof.
  intros Hs Hi i'. pose proof (rc_mirror_score (lo m) plus s i Hs Hi) as E. fold i' in E.
  split; [unfold passw; rewrite E; reflexivity|].
  intros k l l' h h'. unfold h, h', mk_hit. cbn [h_score h_p h_plus h_start h_end]. rewrite E.
  split; [reflexivity|]. split; [reflexivity|]. split; [destruct plus; reflexivity|].
  unfold i'. lia.
Qed.

(* ---- regroup ------------------------------------------------------------------------------ *)

(* dim=0, dim=1 and return_counts are views of one hit set: the frames of dim=0 are the groups
   by motif, the frames of dim=1 partition the same multiset by sequence, the counts are the
   cardinalities of the dim=0 groups *)
Theorem regroup c : cgood c ->
  let g0 := pgroups c (cmotifs c) 0 in
  let g1 := by_seq (length (cseqs c)) (all_hits c) in
  (fimo c = match cmode c with
            | Dim0 => Ok (ODim0 g0) | Dim1 => Ok (ODim1 g1)
            | Counts => Ok (OCounts (map (fun g => Z.of_nat (length g)) g0)) end) /\
  concat g0 = all_hits c /\
  (forall h, In h (concat g1) <-> In h (all_hits c)) /\
  (forall k plus l i, count_key (concat g1) k plus l i = count_key (all_hits c) k plus l i) /\
  (forall g, In g g1 -> g <> [] /\ exists l, forall h, In h g -> h_seq h = l).
Proof.
  intros G g0 g1. split; [rewrite (fimo_pure c G); destruct (cmode c); reflexivity|].
  split; [reflexivity|].
  assert (Hseq : Forall (fun h => 0 <= h_seq h < Z.of_nat (length (cseqs c))) (all_hits c)).
  { apply Forall_forall. intros h Hh.
    destruct (in_pgroups c h _ _ Hh) as [j [m [_ Hg]]].
    pose proof (group_label c m (0 + Z.of_nat j)) as HL. rewrite Forall_forall in HL.
    apply (HL h Hg). }
  split; [|split].
  - intros h. split.
    + intros Hh. apply in_concat in Hh as [g [Hg Hh]].
      destruct (in_by_seq _ _ _ Hg) as [l [_ [E _]]]. subst g. apply filter_In in Hh as [Hh _]. exact Hh.
    + intros Hh. rewrite Forall_forall in Hseq. specialize (Hseq h Hh).
      apply in_concat. exists (filter (fun h' => h_seq h' =? Z.of_nat (Z.to_nat (h_seq h))) (all_hits c)).
      split.
      * unfold g1, by_seq. apply filter_In. split.
        -- apply in_map_iff. exists (Z.to_nat (h_seq h)). split; [reflexivity|]. apply in_seq. lia.
        -- assert (Hin : In h (filter (fun h' => h_seq h' =? Z.of_nat (Z.to_nat (h_seq h))) (all_hits c))).
           { apply filter_In. split; [exact Hh | lia]. }
           destruct (filter _ (all_hits c)); [destruct Hin | reflexivity].
      * apply filter_In. split; [exact Hh | lia].
  - intros k plus l i. apply count_by_seq. exact Hseq.
  - intros g Hg. destruct (in_by_seq _ _ _ Hg) as [l [_ [E Hne]]]. split; [exact Hne|].
    exists (Z.of_nat l). intros h Hh. rewrite E in Hh. apply filter_In in Hh as [_ Hh]. lia.
Qed.

(* ---- the pre-fix behaviours violate the spec ---------------------------------------------- *)

Definition c_small (mode : out_mode) : call :=
  Call 0 [Mo [[2; -2; -2; -2]; [-2; 2; -2; -2]] [[2; -2; -2; -2]; [-2; 2; -2; -2]]]
       (mkQ 1 1) (mkQ 1 8) [[3; 0; 1]] false mode.

(* "TAC" scanned with the width-2 motif AC: the only hit is the last window (start 1 = L - w) *)
Lemma scan_v0_last_window_refuted : exists c, scope c = true /\ spec_ok c (fimo_v0_last_window c) = false.
Proof. exists (c_small Dim0). vm_compute. split; reflexivity. Qed.

Lemma counts_v0_refuted : exists c, scope c = true /\ spec_ok c (fimo_v0_counts c) = false.
Proof. exists (c_small Counts). vm_compute. split; reflexivity. Qed.

(* the witness found on the real code (corpus/C12/float32_threshold.json): T = 4.2,
   float32(T) = 4.19999981, window score 4.19999993: reported with the p-value of bin 41 *)
Definition c_f32 : call :=
  Call 23 [Mo [[-30821080; 13669267; -36825844; -2983654]; [2766110; -8132848; -9321904; 6918575];
               [9445842; -64371792; -10837160; 4121320]; [13178260; -4258168; -17606780; -28649856];
               [12278768; -1624304; -17163780; -24990212]; [2821630; -17104292; 10766370; -33751856];
               [-83240928; -17693716; -18097876; 15314601]; [1854166; 6564971; -40415128; 935221]]
              [[-37; 16; -44; -4]; [3; -10; -11; 8]; [11; -77; -13; 5]; [16; -5; -21; -34];
               [15; -2; -20; -30]; [3; -20; 13; -40]; [-99; -21; -22; 18]; [2; 8; -48; 1]]]
       (mkQ 3602879701896397 36028797018963968) (mkQ 5195905665694201 576460752303423488)
       [[1; 2; 3; 1; 1; 2; 3; 1]] false Dim0.

Lemma f32_threshold_v0_refuted : exists c, scope c = true /\ spec_ok c (fimo_v0_f32 c) = false.
Proof. exists c_f32. vm_compute. split; reflexivity. Qed.

(* hypotheses satisfiable; the chain computes *)
Example c12_example :
  scope (c_small Dim0) = true /\
  fimo (c_small Dim0) = Ok (ODim0 [[Hit 0 0 1 3 true (mkQ 4 1) (mkQ 1 16)]]) /\
  fimo (c_small Counts) = Ok (OCounts [1]) /\
  fimo_fast (c_small Dim1) = fimo (c_small Dim1) /\
  spec_ok (c_small Dim1) (fimo (c_small Dim1)) = true.
Proof. vm_compute. repeat split. Qed.
