(* C12 model: tangermeme/tools/fimo.py  fimo() and _fast_hits  (after the fix: commits d15c529,
   1316087, b461da0; tables as in C11 after 7521ead, 6afbc4e).

   Exact arithmetic.  The float log-odds entries  log2(pwm+eps) - log2(0.25)  are handed over
   exactly: every entry is  z * 2^-K  for one K per call, the model sums the integers z, so a
   window score is the rational  sZ / 2^K.  bin_size and the p-value threshold are the exact
   rationals of the doubles.  Tables are the exact tail counts of C11 ([pmap]); a log2 table
   entry x stands for  count / 4^w.   The two float decisions of the scan are modelled by the
   exact ones:   score > thresh          <->   b * bin < sZ / 2^K
                 int(score / bin_size)   <->   truncation toward zero of (sZ / 2^K) / bin.
   Every table lookup goes through [nth_error]; an index outside the table is [Err]
   (numba does not bounds-check).   No proofs here.                                          *)
From TM Require Import Base.Prelude C11.Model C11.Spec.
From Coq Require Import QArith.
Open Scope Z_scope.

Record motif := Mo { lo : list (list Z);      (* log-odds numerators, by motif position *)
                     im : imat }.             (* round(log-odds / bin_size), same layout *)

Inductive out_mode := Dim0 | Dim1 | Counts.

Record call := Call {
  cK : Z;                      (* log-odds entries are z * 2^-K *)
  cmotifs : list motif;        (* forward orientation *)
  cbin : Q;                    (* bin_size *)
  cthr : Q;                    (* threshold *)
  cseqs : list (list Z);       (* character indices 0..3, -1 = unknown (N / all-zero column) *)
  crc : bool;                  (* reverse_complement *)
  cmode : out_mode }.          (* return_counts / dim *)

Record hit := Hit { h_motif : Z; h_seq : Z; h_start : Z; h_end : Z; h_plus : bool;
                    h_score : Q; h_p : Q }.

Inductive outv := ODim0 (g : list (list hit)) | ODim1 (g : list (list hit)) | OCounts (c : list Z).
Definition outcome := res outv.

(* pwm.numpy(force=True)[::-1, ::-1] *)
Definition rc_mat (m : list (list Z)) : list (list Z) := rev (map (@rev Z) m).
Definition rc_motif (m : motif) : motif := Mo (rc_mat (lo m)) (rc_mat (im m)).

Definition pow4 (w : nat) : Z := 4 ^ Z.of_nat w.

(* _score_to_pvals[i] < log_threshold   <->   count / 4^w < threshold *)
Definition p_below (cnt tot : Z) (thr : Q) : bool := cnt * Zpos (Qden thr) <? Qnum thr * tot.

(* idx = numpy.where(table < log_threshold)[0];  idx[0] if len(idx) > 0 *)
Fixpoint first_below (t : list Z) (tot : Z) (thr : Q) (i : Z) : option Z :=
  match t with
  | [] => None
  | cnt :: t' => if p_below cnt tot thr then Some i else first_below t' tot thr (i + 1)
  end.

(* idx = X[start+i+j]; if idx == -1: continue; score += pwm[idx, m_idx] *)
Definition entry (col : list Z) (idx : Z) : Z :=
  if idx =? -1 then 0 else nth (Z.to_nat idx) col 0.
Fixpoint wscore (lo : list (list Z)) (win : list Z) : Z :=
  match lo, win with
  | col :: lo', x :: win' => entry col x + wscore lo' win'
  | _, _ => 0
  end.

(* score > thresh  with  thresh = (idx[0] + smallest) * bin_size *)
Definition passes (K : Z) (bin : Q) (b sZ : Z) : bool :=
  b * Qnum bin * 2 ^ K <? sZ * Zpos (Qden bin).

(* int(score / bin_size) *)
Definition score_bin (K : Z) (bin : Q) (sZ : Z) : Z :=
  Z.quot (sZ * Zpos (Qden bin)) (2 ^ K * Qnum bin).

Definition scoreQ (K sZ : Z) : Q := Qmake sZ (Z.to_pos (2 ^ K)).
Definition probQ (cnt : Z) (w : nat) : Q := Qmake cnt (Z.to_pos (pow4 w)).

(* for i in range(end - start - n + 1)    (numba: an empty range when the bound is <= 0) *)
Definition starts (L w : nat) : list nat := seq 0 (L + 1 - w).
(* before d15c529:  for i in range(end - start - n) *)
Definition starts_v0 (L w : nat) : list nat := seq 0 (L - w).

Section Scan.
  Variable starts_of : nat -> nat -> list nat.
  Variable passes_of : Z -> Q -> Z -> Z -> bool.
  Variable pmap_of : imat -> res (Z * list Z).          (* C11's table: (smallest, tail counts) *)
  Variables (K : Z) (bin : Q).

  (* the window loop of one sequence for one motif orientation; [b] = None is thresh = inf *)
  Fixpoint scan_starts (m : motif) (sm : Z) (tab : list Z) (b : Z) (k l : Z) (plus : bool)
           (s : list Z) (st : list nat) : res (list hit) :=
    match st with
    | [] => Ok []
    | i :: rest =>
        let w := length (lo m) in
        let sZ := wscore (lo m) (firstn w (skipn i s)) in
        if passes_of K bin b sZ then
          let idx := score_bin K bin sZ - sm in
          ensure (0 <=? idx) ;;
          match nth_error tab (Z.to_nat idx) with
          | None => Err
          | Some cnt =>
              do hs <- scan_starts m sm tab b k l plus s rest ;;
              Ok (Hit k l (Z.of_nat i) (Z.of_nat (i + w)) plus (scoreQ K sZ) (probQ cnt w) :: hs)
          end
        else scan_starts m sm tab b k l plus s rest
    end.

  (* for l in range(n_chroms): ... *)
  Fixpoint scan_seqs (m : motif) (sm : Z) (tab : list Z) (b : Z) (k : Z) (plus : bool)
           (ss : list (list Z)) (l : Z) : res (list hit) :=
    match ss with
    | [] => Ok []
    | s :: ss' =>
        do h1 <- scan_starts m sm tab b k l plus s (starts_of (length s) (length (lo m))) ;;
        do h2 <- scan_seqs m sm tab b k plus ss' (l + 1) ;;
        Ok (h1 ++ h2)
    end.

  (* one motif orientation: table, threshold, scan *)
  Definition scan_motif (thr : Q) (ss : list (list Z)) (k : Z) (plus : bool) (m : motif)
    : res (list hit) :=
    do st <- pmap_of (im m) ;;
    let '(sm, tab) := st in
    match first_below tab (pow4 (length (im m))) thr 0 with
    | None => Ok []                                   (* _score_thresholds[i] = inf *)
    | Some i0 => scan_seqs m sm tab (i0 + sm) k plus ss 0
    end.
End Scan.

Fixpoint mapMi {A B} (f : Z -> A -> res B) (l : list A) (i : Z) : res (list B) :=
  match l with
  | [] => Ok []
  | x :: xs => do y <- f i x ;; do ys <- mapMi f xs (i + 1) ;; Ok (y :: ys)
  end.

(* hits[i] + hits[i + n_]  with strand labels; the motif index column *)
Definition merge (fw rv : list (list hit)) : list (list hit) :=
  map (fun p => fst p ++ snd p) (combine fw rv).

(* dim == 1: one frame per sequence that has a hit, ordered by sequence (numpy.unique) *)
Definition by_seq (n : nat) (hs : list hit) : list (list hit) :=
  filter (fun g => negb (Nat.eqb (length g) 0))
         (map (fun l => filter (fun h => h_seq h =? Z.of_nat l) hs) (seq 0 n)).

Definition fimo_gen (starts_of : nat -> nat -> list nat) (passes_of : Z -> Q -> Z -> Z -> bool)
           (pmap_of : imat -> res (Z * list Z)) (c : call) : outcome :=
  let scan := scan_motif starts_of passes_of pmap_of (cK c) (cbin c) (cthr c) (cseqs c) in
  ensure (negb (Nat.eqb (length (cmotifs c)) 0)) ;;      (* numpy.concatenate([]) raises *)
  do fw <- mapMi (fun k m => scan k true m) (cmotifs c) 0 ;;
  do rv <- (if crc c then mapMi (fun k m => scan k false (rc_motif m)) (cmotifs c) 0
            else Ok (map (fun _ => []) (cmotifs c))) ;;
  let groups := merge fw rv in
  match cmode c with
  | Counts => Ok (OCounts (map (fun g => Z.of_nat (length g)) groups))
  | Dim0 => Ok (ODim0 groups)
  | Dim1 => Ok (ODim1 (by_seq (length (cseqs c)) (concat groups)))
  end.

Definition fimo (c : call) : outcome := fimo_gen starts passes pmap c.

(* the same with C11's table computed by the fast evaluator (equal: Proofs.fimo_fast_eq);
   this is what vm_compute runs on the correspondence cases *)
(* [map (fun i => fast_ge_from tl base (sm + i)) (seq 0 n)] in linear time: the total below
   the lowest score, then the tail list, then zeros (equal: Proofs.table_lin_eq) *)
Definition table_lin (tl : list Z) (base sm : Z) (n : nat) : list Z :=
  if sm <=? base then
    firstn n (repeat (hd 0 tl) (Z.to_nat (base - sm)) ++ tl ++ repeat 0 n)
  else map (fun i => fast_ge_from tl base (sm + Z.of_nat i)) (seq 0 n).

Definition pmap_fast (M : imat) : res (Z * list Z) :=
  match M with
  | [] => Err
  | _ => Ok (smallest M, table_lin (fast_tail M) (sum_min M) (smallest M) (tlen M))
  end.
Definition fimo_fast (c : call) : outcome := fimo_gen starts passes pmap_fast c.

(* ---- pre-fix behaviours ------------------------------------------------------------------ *)

(* before d15c529: the last window of every sequence is never scored *)
Definition fimo_v0_last_window (c : call) : outcome := fimo_gen starts_v0 passes pmap c.

(* before 1316087: counts[i] = len(hits[i]) + len(hits[i+n_]) raises IndexError without the
   reverse strand *)
Definition fimo_v0_counts (c : call) : outcome :=
  match cmode c, crc c with
  | Counts, false => Err
  | _, _ => fimo c
  end.

(* before b461da0: the score threshold was stored as float32.  Round-to-nearest-even of a
   positive rational to a 24-bit significand (normal range). *)
Definition round_half_even (n d : Z) : Z :=      (* d > 0 *)
  let q := n / d in let r := n mod d in
  if 2 * r <? d then q else if d <? 2 * r then q + 1 else if Z.even q then q else q + 1.
Definition f32 (x : Q) : Q :=
  let n := Qnum x in let d := Zpos (Qden x) in
  if n =? 0 then x else
  let a := Z.abs n in
  let e := Z.log2 a - Z.log2 d in                    (* 2^(e-1) <= a/d < 2^(e+1) *)
  let below := if 0 <=? e then a <? d * 2 ^ e else a * 2 ^ (- e) <? d in
  let e := if below then e - 1 else e in             (* now 2^e <= a/d < 2^(e+1) *)
  let sh := e - 23 in                                (* unit in the last place: 2^sh *)
  let m := if 0 <=? sh then round_half_even a (d * 2 ^ sh) else round_half_even (a * 2 ^ (- sh)) d in
  let v := if 0 <=? sh then inject_Z (m * 2 ^ sh) else Qmake m (Z.to_pos (2 ^ (- sh))) in
  if n <? 0 then Qopp v else v.

(* score > float32(thresh), exactly *)
Definition passes_f32 (K : Z) (bin : Q) (b sZ : Z) : bool :=
  let t := f32 (Qmult (inject_Z b) bin) in
  Qnum t * 2 ^ K <? sZ * Zpos (Qden t).
Definition fimo_v0_f32 (c : call) : outcome := fimo_gen starts passes_f32 pmap c.
