(* C16 proofs.  Part A: read_meme returns every motif of every file of the grammar.
               Part B: extract_loci - order, windows, omission rule, cap.               *)
From TM Require Import Base.Prelude Base.PyList C16.Model C16.Spec.
From Coq Require Import QArith Qabs Permutation Sorted.
Open Scope Z_scope.

(* ====================================================================================== *)
(*  generic helpers                                                                       *)
(* ====================================================================================== *)

Lemma forallb_Forall {A} (f : A -> bool) l : forallb f l = true <-> Forall (fun x => f x = true) l.
Proof.
  rewrite forallb_forall, Forall_forall. reflexivity.
Qed.

Lemma bytes_eqb_refl s : bytes_eqb s s = true.
Proof. apply list_eqb_spec; [intros; apply Z.eqb_eq | reflexivity]. Qed.

Lemma bytes_eqb_eq a b : bytes_eqb a b = true <-> a = b.
Proof. apply list_eqb_spec. intros; apply Z.eqb_eq. Qed.

(* ====================================================================================== *)
(*  Part A.1: prefixes                                                                    *)
(* ====================================================================================== *)

Lemma prefix_app p : forall s r, prefix_eqb p s = true -> prefix_eqb p (s ++ r) = true.
Proof.
  induction p as [|a p IH]; intros [|b s] r H; cbn in *; try reflexivity; try discriminate.
  apply andb_true_iff in H as [H1 H2]. rewrite H1, IH; auto.
Qed.

Lemma prefix_snoc p x : ~ In x p ->
  forall s, prefix_eqb p (s ++ [x]) = true -> prefix_eqb p s = true.
Proof.
  induction p as [|a p IH]; intros Hx [|b s] H; cbn in *; try reflexivity.
  - apply andb_true_iff in H as [H1 _]. apply Z.eqb_eq in H1. subst. tauto.
  - apply andb_true_iff in H as [H1 H2]. rewrite H1. cbn. apply IH; tauto.
Qed.

(* what the loop sees of a line whose content is c: c followed by "\n", or c itself (last
   line of a file without final newline) *)
Definition line_of (c l : list Z) : Prop := l = c \/ l = c ++ [10].

Lemma prefix_line_false p c l : ~ In 10 p -> line_of c l ->
  prefix_eqb p c = false -> prefix_eqb p l = false.
Proof.
  intros Hp [->| ->] H; auto.
  destruct (prefix_eqb p (c ++ [10])) eqn:E; auto.
  apply prefix_snoc in E; auto. congruence.
Qed.

Lemma prefix_line_true p c l : line_of c l -> prefix_eqb p c = true -> prefix_eqb p l = true.
Proof. intros [->| ->] H; auto using prefix_app. Qed.

Lemma not_in_MOTIF : ~ In 10 MOTIF.
Proof. cbn. intuition discriminate. Qed.
Lemma not_in_MOTIF_ : ~ In 10 MOTIF_.
Proof. cbn. intuition discriminate. Qed.
Lemma not_in_LETTER : ~ In 10 LETTER.
Proof. cbn. intuition discriminate. Qed.

(* ====================================================================================== *)
(*  Part A.2: lines                                                                       *)
(* ====================================================================================== *)

Definition nocrlf (c : list Z) : Prop := Forall (fun x => is_crlf x = false) c.

Lemma okchar_nocrlf c : forallb okchar c = true -> nocrlf c.
Proof.
  intros H. apply forallb_Forall in H. eapply Forall_impl; [|exact H].
  intros a Ha. unfold okchar, is_crlf in *. lia.
Qed.

Lemma split_lines_cons a t : is_crlf a = false ->
  split_lines (a :: t) = match split_lines t with [] => [[a]] | l :: ls => (a :: l) :: ls end.
Proof.
  intros H. unfold is_crlf in H. cbn [split_lines].
  destruct (a =? 10) eqn:E1; [cbn in H; discriminate|].
  destruct (a =? 13) eqn:E2; [rewrite orb_true_r in H; discriminate|]. reflexivity.
Qed.

Lemma split_lines_line c t rest : nocrlf c ->
  split_lines (c ++ term t ++ rest) = (c ++ [10]) :: split_lines rest.
Proof.
  induction 1 as [|a c Ha Hc IH].
  - destruct t; reflexivity.
  - cbn [app]. rewrite split_lines_cons by auto. rewrite IH. reflexivity.
Qed.

Lemma split_lines_last c : nocrlf c -> c <> [] -> split_lines c = [c].
Proof.
  induction 1 as [|a c Ha Hc IH]; intros Hne; [congruence|].
  rewrite split_lines_cons by auto.
  destruct c as [|b c]; [reflexivity|]. rewrite IH by discriminate. reflexivity.
Qed.

Lemma split_render fnl : forall ls,
  Forall (fun l => nocrlf (fst l)) ls -> last_ok fnl ls = true ->
  exists seen, split_lines (render fnl ls) = seen /\ Forall2 line_of (map fst ls) seen.
Proof.
  induction ls as [|l ls IH]; intros Hc Hl.
  - exists []. split; [reflexivity | constructor].
  - inversion Hc as [|? ? Hc1 Hc2]; subst.
    destruct ls as [|l2 ls].
    + cbn [render]. destruct fnl.
      * exists [fst l ++ [10]]. split.
        -- pose proof (split_lines_line (fst l) (snd l) [] Hc1) as E.
           rewrite app_nil_r in E. exact E.
        -- cbn. constructor; [right; reflexivity | constructor].
      * exists [fst l]. split.
        -- rewrite app_nil_r. apply split_lines_last; auto.
           unfold last_ok in Hl. cbn in Hl. destruct (fst l); [discriminate | discriminate].
        -- cbn. constructor; [left; reflexivity | constructor].
    + assert (Hl2 : last_ok fnl (l2 :: ls) = true)
        by (unfold last_ok in *; cbn [last] in Hl; exact Hl).
      destruct (IH Hc2 Hl2) as [seen [E F]].
      exists ((fst l ++ [10]) :: seen). split.
      * change (render fnl (l :: l2 :: ls)) with (fst l ++ term (snd l) ++ render fnl (l2 :: ls)).
        rewrite split_lines_line by auto. rewrite E. reflexivity.
      * cbn [map]. constructor; [right; reflexivity | exact F].
Qed.

(* ====================================================================================== *)
(*  Part A.3: tokens                                                                      *)
(* ====================================================================================== *)

Lemma blank_ws c : blank c = true -> is_ws c = true.
Proof. unfold blank, is_ws. lia. Qed.
Lemma tokchar_not_ws c : tokchar c = true -> is_ws c = false.
Proof. unfold tokchar, is_ws. lia. Qed.
Lemma blank_nocrlf c : blank c = true -> is_crlf c = false.
Proof. unfold blank, is_crlf. lia. Qed.
Lemma tokchar_nocrlf c : tokchar c = true -> is_crlf c = false.
Proof. unfold tokchar, is_crlf. lia. Qed.

Lemma split_ws_skip s r : forallb is_ws s = true -> split_ws (s ++ r) = split_ws r.
Proof.
  induction s as [|a s IH]; intros H; [reflexivity|].
  cbn in H. apply andb_true_iff in H as [H1 H2]. cbn [app split_ws]. rewrite H1. auto.
Qed.

Definition starts_ws (r : list Z) : Prop := r = [] \/ exists c r', r = c :: r' /\ is_ws c = true.

Lemma split_ws_tok tok : tok <> [] -> forallb tokchar tok = true ->
  forall rest, starts_ws rest -> split_ws (tok ++ rest) = tok :: split_ws rest.
Proof.
  induction tok as [|a tok IH]; intros Hne Hc rest Hr; [congruence|].
  cbn in Hc. apply andb_true_iff in Hc as [Ha Hc]. apply tokchar_not_ws in Ha.
  destruct tok as [|b tok].
  - cbn [app split_ws]. rewrite Ha.
    destruct Hr as [->|[c [r' [-> Hcw]]]]; [reflexivity|]. rewrite Hcw. reflexivity.
  - specialize (IH ltac:(discriminate) Hc rest Hr).
    change ((a :: b :: tok) ++ rest) with (a :: (b :: tok) ++ rest).
    assert (Hb : is_ws b = false).
    { cbn in Hc. apply andb_true_iff in Hc as [Hb _]. apply tokchar_not_ws; auto. }
    cbn [split_ws]. rewrite Ha. cbn [app]. rewrite Hb.
    change (b :: tok ++ rest) with ((b :: tok) ++ rest). rewrite IH. reflexivity.
Qed.

Lemma split_ws_toks : forall ts e, wf_toks ts = true -> forallb is_ws e = true ->
  split_ws (toks_txt ts ++ e) = map fst ts.
Proof.
  induction ts as [|[tok sep] ts IH]; intros e Hw He.
  - cbn. rewrite <- (app_nil_r e). rewrite split_ws_skip by auto. reflexivity.
  - cbn [wf_toks fst snd] in Hw.
    apply andb_true_iff in Hw as [Hw Hrest].
    apply andb_true_iff in Hw as [Hw Hne].
    apply andb_true_iff in Hw as [Htok Hsep].
    unfold tok_ok in Htok. apply andb_true_iff in Htok as [Htn Htc].
    unfold toks_txt in *. cbn [flat_map fst snd map].
    rewrite <- !app_assoc.
    assert (Hsw : forallb is_ws sep = true).
    { apply forallb_Forall in Hsep. apply forallb_Forall.
      eapply Forall_impl; [|exact Hsep]. intros; apply blank_ws; auto. }
    rewrite split_ws_tok.
    + rewrite split_ws_skip by auto. rewrite IH by auto. reflexivity.
    + destruct tok; [discriminate | discriminate].
    + exact Htc.
    + destruct sep as [|c sep].
      * destruct ts as [|p ts]; [|discriminate].
        cbn. destruct e as [|c e]; [left; reflexivity|].
        right. exists c, e. split; [reflexivity|]. cbn in He. apply andb_true_iff in He. tauto.
      * right. exists c, (sep ++ flat_map (fun p => fst p ++ snd p) ts ++ e).
        split; [reflexivity|]. cbn in Hsw. apply andb_true_iff in Hsw. tauto.
Qed.

Lemma split_ws_tline t e : wf_tline t = true -> forallb is_ws e = true ->
  split_ws ((t_lead t ++ toks_txt (t_toks t)) ++ e) = map fst (t_toks t).
Proof.
  intros H He. unfold wf_tline in H. apply andb_true_iff in H as [Hl Ht].
  rewrite <- app_assoc. rewrite split_ws_skip.
  - apply split_ws_toks; auto.
  - apply forallb_Forall in Hl. apply forallb_Forall.
    eapply Forall_impl; [|exact Hl]. intros; apply blank_ws; auto.
Qed.

Lemma toks_nocrlf : forall ts, wf_toks ts = true -> nocrlf (toks_txt ts).
Proof.
  induction ts as [|[tok sep] ts IH]; intros Hw; [constructor|].
  cbn [wf_toks fst snd] in Hw.
  apply andb_true_iff in Hw as [Hw Hrest].
  apply andb_true_iff in Hw as [Hw Hne].
  apply andb_true_iff in Hw as [Htok Hsep].
  unfold tok_ok in Htok. apply andb_true_iff in Htok as [_ Htc].
  unfold toks_txt, nocrlf in *. cbn [flat_map fst snd].
  rewrite !Forall_app. repeat split; auto.
  - apply forallb_Forall in Htc. eapply Forall_impl; [|exact Htc]. intros; apply tokchar_nocrlf; auto.
  - apply forallb_Forall in Hsep. eapply Forall_impl; [|exact Hsep]. intros; apply blank_nocrlf; auto.
Qed.

Lemma tline_nocrlf t : wf_tline t = true -> nocrlf (fst (tl_ t)).
Proof.
  intros H. unfold wf_tline in H. apply andb_true_iff in H as [Hl Ht].
  unfold tl_, nocrlf. cbn [fst]. rewrite Forall_app. split.
  - apply forallb_Forall in Hl. eapply Forall_impl; [|exact Hl]. intros; apply blank_nocrlf; auto.
  - apply toks_nocrlf; auto.
Qed.

(* ====================================================================================== *)
(*  Part A.4: strip, replace                                                              *)
(* ====================================================================================== *)

Lemma drop_while_all p a b : forallb p a = true -> drop_while p (a ++ b) = drop_while p b.
Proof.
  induction a as [|x a IH]; intros H; [reflexivity|].
  cbn in H. apply andb_true_iff in H as [H1 H2]. cbn. rewrite H1. auto.
Qed.

Lemma drop_while_id p l : Forall (fun x => p x = false) l -> drop_while p l = l.
Proof. destruct 1 as [|x l Hx Hl]; cbn; [reflexivity | rewrite Hx; reflexivity]. Qed.

Lemma strip_line c l : nocrlf c -> line_of c l -> strip_crlf l = c.
Proof.
  intros Hc Hl. unfold strip_crlf.
  assert (E1 : drop_while is_crlf l = l \/ (c = [] /\ drop_while is_crlf l = [])).
  { destruct Hl as [->| ->].
    - left. apply drop_while_id; auto.
    - destruct c as [|a c].
      + right. split; reflexivity.
      + left. inversion Hc as [|? ? Ha Hc']; subst. cbn. rewrite Ha. reflexivity. }
  destruct E1 as [E1|[-> E1]]; rewrite E1; [|reflexivity].
  assert (Hr : Forall (fun x => is_crlf x = false) (rev c)) by (apply Forall_rev; exact Hc).
  destruct Hl as [->| ->].
  - rewrite drop_while_id by auto. apply rev_involutive.
  - rewrite rev_app_distr. cbn [rev app].
    change (10 :: rev c) with ([10] ++ rev c).
    rewrite drop_while_all by reflexivity.
    rewrite drop_while_id by auto. apply rev_involutive.
Qed.

Lemma rm_id : forall s, no_occ s = true -> rm_motif 0 s = s.
Proof.
  induction s as [|a s IH]; intros H; [reflexivity|].
  cbn [no_occ] in H. apply andb_true_iff in H as [H1 H2].
  cbn [rm_motif]. apply negb_true_iff in H1. rewrite H1. rewrite IH; auto.
Qed.

Lemma no_occ_snoc : forall s, no_occ s = true -> no_occ (s ++ [10]) = true.
Proof.
  induction s as [|a s IH]; intros H; [reflexivity|].
  cbn [no_occ] in H. apply andb_true_iff in H as [H1 H2].
  change ((a :: s) ++ [10]) with (a :: s ++ [10]). cbn [no_occ].
  rewrite IH by auto. rewrite andb_true_r.
  apply negb_true_iff. apply negb_true_iff in H1.
  destruct (prefix_eqb MOTIF_ (a :: s ++ [10])) eqn:E; auto.
  change (a :: s ++ [10]) with ((a :: s) ++ [10]) in E.
  apply prefix_snoc in E; [congruence | apply not_in_MOTIF_].
Qed.

Lemma rm_MOTIF_ r : rm_motif 0 (MOTIF_ ++ r) = rm_motif 0 r.
Proof. reflexivity. Qed.

Lemma name_of_line name l : forallb okchar name = true -> no_occ name = true ->
  line_of (MOTIF_ ++ name) l -> name_of l = name.
Proof.
  intros Hok Hno Hl. unfold name_of.
  assert (Hl' : line_of name (rm_motif 0 l)).
  { destruct Hl as [->| ->].
    - left. rewrite rm_MOTIF_. apply rm_id; auto.
    - right. rewrite <- app_assoc. rewrite rm_MOTIF_. apply rm_id. apply no_occ_snoc; auto. }
  eapply strip_line; eauto. apply okchar_nocrlf; auto.
Qed.

(* ====================================================================================== *)
(*  Part A.5: what each kind of line does to the state machine                            *)
(* ====================================================================================== *)

Lemma ws_tail c l : line_of c l -> exists e, l = c ++ e /\ forallb is_ws e = true.
Proof.
  intros [->| ->]; [exists []; rewrite app_nil_r | exists [10]]; auto.
Qed.

Lemma raw_line_not (p : list Z) forbidden r l : ~ In 10 p -> In p forbidden ->
  wf_raw forbidden r = true -> line_of (r_txt r) l -> prefix_eqb p l = false.
Proof.
  intros Hp Hin Hw Hl. unfold wf_raw in Hw. apply andb_true_iff in Hw as [_ Hf].
  rewrite forallb_forall in Hf. specialize (Hf p Hin). apply negb_true_iff in Hf.
  eapply prefix_line_false; eauto.
Qed.

Lemma width_of_line w t l : wf_letter w t = true -> line_of (fst (tl_ t)) l ->
  prefix_eqb LETTER l = true /\ width_of l = Ok w.
Proof.
  intros Hw Hl. unfold wf_letter in Hw.
  apply andb_true_iff in Hw as [Hw H5].
  apply andb_true_iff in Hw as [Hw H0].
  apply andb_true_iff in Hw as [Hw Hlead].
  destruct (t_lead t) as [|x lead] eqn:El; [|discriminate].
  split.
  - eapply prefix_line_true; eauto. unfold tl_. cbn [fst]. rewrite El. cbn [app].
    destruct (t_toks t) as [|[tok sep] ts]; [discriminate|].
    unfold toks_txt. cbn [flat_map fst snd]. rewrite <- app_assoc. apply prefix_app. exact H0.
  - destruct (ws_tail _ _ Hl) as [e [-> He]]. unfold tl_. cbn [fst].
    unfold width_of. rewrite split_ws_tline by auto.
    destruct (nth_error (t_toks t) 5) as [p|] eqn:E5; [|discriminate].
    rewrite (map_nth_error fst 5 (t_toks t) E5). cbn [opt_res bind].
    destruct (parse_nat (fst p)) as [v|]; [|discriminate]. cbn [opt_res bind].
    apply Z.eqb_eq in H5. subst v. rewrite Nat2Z.id. reflexivity.
Qed.

Lemma mapM_tok_val : forall ts,
  forallb (fun p : list Z * list Z => match parse_dec (fst p) with Some _ => true | None => false end) ts = true ->
  mapM (fun t => opt_res (parse_dec t)) (map fst ts) = Ok (map (fun p => tok_val (fst p)) ts).
Proof.
  induction ts as [|p ts IH]; intros H; [reflexivity|].
  cbn in H. apply andb_true_iff in H as [H1 H2].
  cbn [map mapM]. unfold tok_val at 1.
  destruct (parse_dec (fst p)) as [q|]; [|discriminate]. cbn [opt_res bind].
  rewrite IH by auto. reflexivity.
Qed.

Lemma parse_row_line t l : wf_row t = true -> line_of (fst (tl_ t)) l ->
  parse_row l = Ok (row_vals t).
Proof.
  intros Hw Hl. unfold wf_row in Hw.
  apply andb_true_iff in Hw as [Hw Hd]. apply andb_true_iff in Hw as [Hw H4].
  unfold parse_row. rewrite (strip_line _ _ (tline_nocrlf _ Hw) Hl).
  unfold tl_. cbn [fst].
  rewrite <- (app_nil_r (t_lead t ++ toks_txt (t_toks t))).
  rewrite split_ws_tline by auto.
  rewrite mapM_tok_val by auto. cbn [bind]. unfold row_vals.
  apply Nat.eqb_eq in H4.
  destruct (t_toks t) as [|p1 [|p2 [|p3 [|p4 [|p5 ts]]]]]; try discriminate. reflexivity.
Qed.

(* ====================================================================================== *)
(*  Part A.6: the state machine over the lines of the grammar                             *)
(* ====================================================================================== *)

Lemma parse_skip_S0 n keys : forall ls rest,
  Forall (fun l => prefix_eqb MOTIF l = false) ls ->
  parse_lines n keys S0 (ls ++ rest) = parse_lines n keys S0 rest.
Proof.
  induction 1 as [|l ls Hl Hls IH]; [reflexivity|].
  cbn [app parse_lines]. rewrite Hl. exact IH.
Qed.

Lemma parse_skip_S1 n keys nm : forall ls rest,
  Forall (fun l => prefix_eqb LETTER l = false) ls ->
  parse_lines n keys (S1 nm) (ls ++ rest) = parse_lines n keys (S1 nm) rest.
Proof.
  induction 1 as [|l ls Hl Hls IH]; [reflexivity|].
  cbn [app parse_lines]. rewrite Hl. exact IH.
Qed.

(* what the code does when a motif is complete: store it, stop if the dict is full *)
Definition commit (n : option Z) (keys : list (list Z)) (m : motif) (rest : list (list Z))
  : res (list motif) :=
  if full n (key_add keys (fst m)) then Ok [m]
  else do ms <- parse_lines n (key_add keys (fst m)) S0 rest ;; Ok (m :: ms).

Lemma parse_rows n keys nm w : forall ls vals,
  Forall2 (fun l v => parse_row l = Ok v) ls vals -> vals <> [] ->
  forall done rest, (length done + length vals = w)%nat ->
  parse_lines n keys (S2 nm w done) (ls ++ rest) =
  commit n keys (nm, transpose4 (done ++ vals)) rest.
Proof.
  induction 1 as [|l v ls vals Hv Hrest IH]; intros Hne done rest Hlen; [congruence|].
  cbn [app parse_lines]. rewrite Hv. cbn [bind].
  destruct vals as [|v2 vals].
  - assert (Els : ls = []) by (inversion Hrest; reflexivity). subst ls. cbn [length] in Hlen.
    replace (length (done ++ [v]) =? w)%nat with true
      by (symmetry; apply Nat.eqb_eq; rewrite app_length; cbn; lia).
    reflexivity.
  - replace (length (done ++ [v]) =? w)%nat with false
      by (symmetry; apply Nat.eqb_neq; rewrite app_length; cbn in *; lia).
    rewrite IH; [|discriminate|rewrite app_length; cbn in *; lia].
    rewrite <- app_assoc. reflexivity.
Qed.

Lemma Forall2_map_l {A B C} (R : B -> C -> Prop) (f : A -> B) l l' :
  Forall2 R (map f l) l' <-> Forall2 (fun a c => R (f a) c) l l'.
Proof.
  revert l'; induction l as [|a l IH]; intros l'; split; intros H; inversion H; subst;
    cbn; constructor; auto; apply IH; auto.
Qed.

Lemma lines_Forall {A} (g : A -> line) (P : A -> Prop) (Q : list Z -> Prop) :
  (forall a l, P a -> line_of (fst (g a)) l -> Q l) ->
  forall xs ls, Forall P xs -> Forall2 line_of (map fst (map g xs)) ls -> Forall Q ls.
Proof.
  intros H. induction xs as [|a xs IH]; intros ls HP HF; cbn in HF; inversion HF; subst.
  - constructor.
  - inversion HP; subst. constructor; eauto.
Qed.

Lemma lines_Forall2 {A B} (g : A -> line) (h : A -> B) (P : A -> Prop) (R : list Z -> B -> Prop) :
  (forall a l, P a -> line_of (fst (g a)) l -> R l (h a)) ->
  forall xs ls, Forall P xs -> Forall2 line_of (map fst (map g xs)) ls -> Forall2 R ls (map h xs).
Proof.
  intros H. induction xs as [|a xs IH]; intros ls HP HF; cbn in HF; inversion HF; subst.
  - constructor.
  - inversion HP; subst. cbn. constructor; eauto.
Qed.

Lemma matrix_transpose b : matrix_of b = transpose4 (map row_vals (b_rows b)).
Proof.
  unfold matrix_of, transpose4. apply map_ext. intros a. rewrite map_map. reflexivity.
Qed.

Lemma parse_block n keys b : wf_block b = true ->
  forall bl rest, Forall2 line_of (map fst (block_lines b)) bl ->
  parse_lines n keys S0 (bl ++ rest) = commit n keys (b_name b, matrix_of b) rest.
Proof.
  intros Hw bl rest Hbl. unfold wf_block in Hw.
  apply andb_true_iff in Hw as [Hw Hsep]. apply andb_true_iff in Hw as [Hw Hrows].
  apply andb_true_iff in Hw as [Hw Hlet]. apply andb_true_iff in Hw as [Hw Hmid].
  apply andb_true_iff in Hw as [Hok Hno].
  unfold block_lines in Hbl. cbn [map fst] in Hbl.
  inversion Hbl as [|c0 l0 cs bl1 Hl0 Hbl1]; subst. clear Hbl.
  rewrite map_app in Hbl1. apply Forall2_app_inv_l in Hbl1 as [lmid [bl2 [Hm [Hbl2 ->]]]].
  cbn [map] in Hbl2. inversion Hbl2 as [|c1 l1 cs2 bl3 Hl1 Hbl3]; subst. clear Hbl2.
  rewrite map_app in Hbl3. apply Forall2_app_inv_l in Hbl3 as [lrows [lsep [Hr [Hs ->]]]].
  (* MOTIF line *)
  cbn [app parse_lines].
  rewrite (prefix_line_true MOTIF _ _ Hl0) by reflexivity.
  rewrite (name_of_line _ _ Hok Hno Hl0).
  (* lines before the matrix *)
  rewrite <- app_assoc. rewrite parse_skip_S1.
  2:{ apply forallb_Forall in Hmid.
      refine (lines_Forall rl _ _ _ _ _ Hmid Hm). intros a l Ha Hl.
      eapply (raw_line_not LETTER [LETTER; MOTIF] a l not_in_LETTER);
        [left; reflexivity | assumption | exact Hl]. }
  (* letter line *)
  destruct (width_of_line _ _ _ Hlet Hl1) as [Hp Hwd].
  cbn [app parse_lines]. rewrite Hp, Hwd. cbn [bind].
  (* separators are skipped in state S0 *)
  assert (Hskip : forall k0 r0, parse_lines n k0 S0 (lsep ++ r0) = parse_lines n k0 S0 r0).
  { intros k0 r0. apply parse_skip_S0.
    apply forallb_Forall in Hsep.
    refine (lines_Forall rl _ _ _ _ _ Hsep Hs). intros a l Ha Hl.
    eapply (raw_line_not MOTIF [MOTIF] a l not_in_MOTIF);
      [left; reflexivity | assumption | exact Hl]. }
  assert (Hc : forall m, commit n keys m (lsep ++ rest) = commit n keys m rest).
  { intros m. unfold commit. rewrite Hskip. reflexivity. }
  rewrite matrix_transpose.
  destruct (b_rows b) as [|t0 rows] eqn:Erows.
  - (* w = 0 *)
    inversion Hr; subst. cbn [length Nat.eqb app map].
    change (commit n keys (b_name b, transpose4 []) (lsep ++ rest) =
            commit n keys (b_name b, transpose4 []) rest). apply Hc.
  - cbn [length Nat.eqb].
    rewrite <- app_assoc.
    rewrite parse_rows with (vals := map row_vals (t0 :: rows)).
    + apply Hc.
    + apply forallb_Forall in Hrows.
      refine (lines_Forall2 tl_ row_vals _ _ _ _ _ Hrows Hr). intros a l Ha Hl.
      apply parse_row_line; auto.
    + discriminate.
    + cbn [length]. rewrite map_length. reflexivity.
Qed.

(* the assignments executed on a file whose motifs are ms, k keys being in the dict already:
   all of them, or up to the one that fills the dict *)
Definition fulln (n : option Z) (k : nat) : bool :=
  match n with Some v => Z.of_nat k =? v | None => false end.

Fixpoint cut (n : option Z) (k : nat) (ms : list motif) : list motif :=
  match ms with
  | [] => []
  | m :: t => if fulln n (S k) then [m] else m :: cut n (S k) t
  end.

Lemma nodupb_app_l : forall l1 x l2, nodupb (l1 ++ x :: l2) = true ->
  forallb (fun y => negb (bytes_eqb y x)) l1 = true.
Proof.
  induction l1 as [|y l1 IH]; intros x l2 H; [reflexivity|].
  cbn in H. apply andb_true_iff in H as [H1 H2]. cbn.
  rewrite (IH _ _ H2), andb_true_r.
  apply negb_true_iff in H1. rewrite existsb_app in H1. apply orb_false_iff in H1 as [_ H1].
  cbn in H1. apply orb_false_iff in H1 as [H1 _]. rewrite H1. reflexivity.
Qed.

Lemma key_add_fresh keys k : forallb (fun y => negb (bytes_eqb y k)) keys = true ->
  key_add keys k = keys ++ [k].
Proof.
  intros H. unfold key_add.
  replace (existsb (fun e => bytes_eqb e k) keys) with false; [reflexivity|].
  symmetry. induction keys as [|y keys IH]; [reflexivity|].
  cbn in *. apply andb_true_iff in H as [H1 H2]. apply negb_true_iff in H1.
  rewrite H1. cbn. apply IH; auto.
Qed.

Lemma parse_blocks n : forall bs keys seen,
  forallb wf_block bs = true ->
  Forall2 line_of (map fst (flat_map block_lines bs)) seen ->
  nodupb (keys ++ map b_name bs) = true ->
  parse_lines n keys S0 seen = Ok (cut n (length keys) (map (fun b => (b_name b, matrix_of b)) bs)).
Proof.
  induction bs as [|b bs IH]; intros keys seen Hw Hs Hn.
  - inversion Hs; subst. reflexivity.
  - cbn in Hw. apply andb_true_iff in Hw as [Hb Hbs].
    cbn [flat_map] in Hs. rewrite map_app in Hs.
    apply Forall2_app_inv_l in Hs as [bl [rest [H1 [H2 ->]]]].
    rewrite (parse_block n keys b Hb bl rest H1).
    cbn [map] in Hn. unfold commit. cbn [fst].
    rewrite key_add_fresh by (eapply nodupb_app_l; eauto).
    cbn [map cut]. unfold full. rewrite app_length. cbn [length]. rewrite Nat.add_1_r.
    fold (fulln n (S (length keys))).
    destruct (fulln n (S (length keys))); [reflexivity|].
    rewrite (IH (keys ++ [b_name b]) rest Hbs H2).
    + rewrite app_length. cbn [length]. rewrite Nat.add_1_r. reflexivity.
    + rewrite <- app_assoc. exact Hn.
Qed.

Lemma parse_file n g seen : wf_file g = true ->
  Forall2 line_of (map fst (file_lines g)) seen ->
  parse_lines n [] S0 seen = Ok (cut n 0 (motifs_of g)).
Proof.
  intros Hw Hs. unfold wf_file in Hw.
  apply andb_true_iff in Hw as [Hw _]. apply andb_true_iff in Hw as [Hw Hnd].
  apply andb_true_iff in Hw as [Hh Hb].
  unfold file_lines in Hs. rewrite map_app in Hs.
  apply Forall2_app_inv_l in Hs as [lh [lb [H1 [H2 ->]]]].
  rewrite parse_skip_S0.
  - apply (parse_blocks n (f_blocks g) [] lb); auto.
  - apply forallb_Forall in Hh.
    refine (lines_Forall rl _ _ _ _ _ Hh H1). intros a l Ha Hl.
    eapply (raw_line_not MOTIF [MOTIF] a l not_in_MOTIF);
      [left; reflexivity | assumption | exact Hl].
Qed.

Lemma cut_none : forall ms k, cut None k ms = ms.
Proof. induction ms as [|m t IH]; intros k; cbn; [reflexivity | rewrite IH; reflexivity]. Qed.

Lemma cut_some v : forall ms k, Z.of_nat k < v ->
  cut (Some v) k ms = firstn (Z.to_nat v - k) ms.
Proof.
  induction ms as [|m t IH]; intros k Hk; cbn [cut fulln]; [rewrite firstn_nil; reflexivity|].
  destruct (Z.of_nat (S k) =? v) eqn:E.
  - replace (Z.to_nat v - k)%nat with 1%nat by lia. reflexivity.
  - replace (Z.to_nat v - k)%nat with (S (Z.to_nat v - S k)) by lia.
    cbn [firstn]. rewrite IH by lia. reflexivity.
Qed.

Lemma cut_prefix n : forall ms k, exists j, cut n k ms = firstn j ms.
Proof.
  induction ms as [|m t IH]; intros k; cbn [cut]; [exists 0%nat; reflexivity|].
  destruct (fulln n (S k)); [exists 1%nat; reflexivity|].
  destruct (IH (S k)) as [j E]. exists (S j). cbn [firstn]. rewrite E. reflexivity.
Qed.

(* ====================================================================================== *)
(*  Part A.7: the dict, the whole file                                                    *)
(* ====================================================================================== *)

Lemma dict_set_fresh : forall d m,
  forallb (fun y => negb (bytes_eqb y (fst m))) (map fst d) = true -> dict_set d m = d ++ [m].
Proof.
  induction d as [|e d IH]; intros m H; [reflexivity|].
  cbn in H. apply andb_true_iff in H as [H1 H2]. apply negb_true_iff in H1.
  cbn [dict_set]. rewrite H1. rewrite IH by auto. reflexivity.
Qed.

Lemma dict_fold : forall ms acc, nodupb (map fst acc ++ map fst ms) = true ->
  fold_left dict_set ms acc = acc ++ ms.
Proof.
  induction ms as [|m ms IH]; intros acc H; cbn [fold_left]; [rewrite app_nil_r; reflexivity|].
  cbn [map] in H. rewrite dict_set_fresh by (eapply nodupb_app_l; eauto).
  rewrite IH.
  - rewrite <- app_assoc. reflexivity.
  - rewrite map_app, <- app_assoc. exact H.
Qed.

Lemma dict_of_nodup ms : nodupb (map fst ms) = true -> dict_of ms = ms.
Proof. intros H. unfold dict_of. rewrite dict_fold; auto. Qed.

Lemma raw_nocrlf f r : wf_raw f r = true -> nocrlf (fst (rl r)).
Proof.
  unfold wf_raw. intros H. apply andb_true_iff in H as [H _]. apply okchar_nocrlf; auto.
Qed.

Lemma Forall_map_iff {A B} (f : A -> B) (P : B -> Prop) l :
  Forall P (map f l) <-> Forall (fun a => P (f a)) l.
Proof. rewrite !Forall_forall. split; intros H x Hx.
  - apply H. apply in_map; auto.
  - apply in_map_iff in Hx as [a [<- Ha]]. auto.
Qed.

Lemma block_nocrlf b : wf_block b = true -> Forall (fun l => nocrlf (fst l)) (block_lines b).
Proof.
  intros Hw. unfold wf_block in Hw.
  apply andb_true_iff in Hw as [Hw Hsep]. apply andb_true_iff in Hw as [Hw Hrows].
  apply andb_true_iff in Hw as [Hw Hlet]. apply andb_true_iff in Hw as [Hw Hmid].
  apply andb_true_iff in Hw as [Hok Hno].
  unfold block_lines. constructor.
  - cbn [fst]. unfold nocrlf. rewrite Forall_app. split.
    + repeat constructor.
    + apply okchar_nocrlf; auto.
  - rewrite Forall_app. split.
    + apply Forall_map_iff. apply forallb_Forall in Hmid.
      eapply Forall_impl; [|exact Hmid]. intros a Ha. exact (raw_nocrlf _ _ Ha).
    + constructor.
      * apply tline_nocrlf. unfold wf_letter in Hlet.
        apply andb_true_iff in Hlet as [Hlet _]. apply andb_true_iff in Hlet as [Hlet _].
        apply andb_true_iff in Hlet as [Hlet _]. exact Hlet.
      * rewrite Forall_app. split.
        -- apply Forall_map_iff. apply forallb_Forall in Hrows.
           eapply Forall_impl; [|exact Hrows]. intros a Ha. apply tline_nocrlf.
           unfold wf_row in Ha. apply andb_true_iff in Ha as [Ha _].
           apply andb_true_iff in Ha as [Ha _]. exact Ha.
        -- apply Forall_map_iff. apply forallb_Forall in Hsep.
           eapply Forall_impl; [|exact Hsep]. intros a Ha. exact (raw_nocrlf _ _ Ha).
Qed.

Lemma file_nocrlf g : wf_file g = true -> Forall (fun l => nocrlf (fst l)) (file_lines g).
Proof.
  intros Hw. unfold wf_file in Hw.
  apply andb_true_iff in Hw as [Hw _]. apply andb_true_iff in Hw as [Hw _].
  apply andb_true_iff in Hw as [Hh Hb].
  unfold file_lines. rewrite Forall_app. split.
  - apply Forall_map_iff. apply forallb_Forall in Hh.
    eapply Forall_impl; [|exact Hh]. intros a Ha. exact (raw_nocrlf _ _ Ha).
  - apply forallb_Forall in Hb. rewrite Forall_forall. intros l Hl.
    apply in_flat_map in Hl as [b [Hb1 Hb2]].
    rewrite Forall_forall in Hb. specialize (Hb b Hb1).
    pose proof (block_nocrlf b Hb) as Hn. rewrite Forall_forall in Hn. auto.
Qed.

Lemma nodupb_firstn : forall (l : list (list Z)) j, nodupb l = true -> nodupb (firstn j l) = true.
Proof.
  induction l as [|x l IH]; intros j H; [rewrite firstn_nil; reflexivity|].
  destruct j; [reflexivity|]. cbn [firstn nodupb] in *.
  apply andb_true_iff in H as [H1 H2]. rewrite IH by auto. rewrite andb_true_r.
  apply negb_true_iff. apply negb_true_iff in H1.
  destruct (existsb (bytes_eqb x) (firstn j l)) eqn:E; [|reflexivity].
  apply existsb_exists in E as [y [Hy1 Hy2]].
  assert (Hin : In y l) by (rewrite <- (firstn_skipn j l); apply in_or_app; left; exact Hy1).
  assert (existsb (bytes_eqb x) l = true) by (apply existsb_exists; eauto). congruence.
Qed.

(* every file of the grammar, any n_motifs: the assignments are those of [cut] *)
Lemma read_meme_cut n g : wf_file g = true ->
  read_meme n (render_file g) = Ok (cut n 0 (motifs_of g)).
Proof.
  intros Hw. unfold read_meme, render_file.
  assert (Hlast : last_ok (f_final_nl g) (file_lines g) = true).
  { unfold wf_file in Hw. apply andb_true_iff in Hw as [_ Hw]. exact Hw. }
  destruct (split_render (f_final_nl g) (file_lines g) (file_nocrlf g Hw) Hlast) as [seen [E F]].
  rewrite E. rewrite (parse_file n g seen Hw F). cbn [bind].
  rewrite dict_of_nodup; [reflexivity|].
  destruct (cut_prefix n (motifs_of g) 0) as [j ->].
  rewrite <- firstn_map. apply nodupb_firstn.
  unfold motifs_of. rewrite map_map. cbn [fst].
  unfold wf_file in Hw. apply andb_true_iff in Hw as [Hw _]. apply andb_true_iff in Hw as [_ Hw].
  exact Hw.
Qed.

(* every file of the grammar: all motifs, in file order, with exactly their rows *)
Lemma read_meme_complete g : wf_file g = true -> read_meme None (render_file g) = Ok (motifs_of g).
Proof. intros Hw. rewrite read_meme_cut by auto. rewrite cut_none. reflexivity. Qed.

(* n_motifs = k >= 1: the first k motifs *)
Lemma read_meme_first k g : wf_file g = true -> 1 <= k ->
  read_meme (Some k) (render_file g) = Ok (firstn (Z.to_nat k) (motifs_of g)).
Proof.
  intros Hw Hk. rewrite read_meme_cut by auto. rewrite cut_some by lia.
  rewrite Nat.sub_0_r. reflexivity.
Qed.

(* ---- the pointwise spec holds for the motifs of the file *)
Lemma qclose_refl x : qclose x x = true.
Proof.
  unfold qclose. apply Qle_bool_iff.
  assert (E : (x - x == 0)%Q) by ring.
  rewrite E. cbn [Qabs]. 
  assert (E2 : (Qabs 0 * (1000000000000 # 1) == 0)%Q) by reflexivity.
  rewrite E2.
  pose proof (Qabs_nonneg x) as Hx.
  apply Qle_trans with (y := (1 + 0)%Q); [discriminate|].
  apply Qplus_le_r. exact Hx.
Qed.

Lemma nth_map_seq {A} (F : nat -> A) n a d : (a < n)%nat -> nth a (map F (seq 0 n)) d = F a.
Proof.
  intros H. rewrite nth_indep with (d' := F 0%nat) by (rewrite map_length, seq_length; auto).
  rewrite map_nth. rewrite seq_nth by auto. reflexivity.
Qed.

Lemma motif_ok_self b : motif_ok b (b_name b, matrix_of b) = true.
Proof.
  unfold motif_ok. cbn [fst snd]. rewrite bytes_eqb_refl. cbn [andb].
  assert (L4 : length (matrix_of b) = 4%nat) by (unfold matrix_of; rewrite map_length; reflexivity).
  rewrite L4. cbn [Nat.eqb andb].
  apply forallb_forall. intros a Ha. apply in_seq in Ha.
  unfold matrix_of. rewrite nth_map_seq by lia.
  rewrite map_length, Nat.eqb_refl. cbn [andb].
  apply forallb_forall. intros p Hp. apply in_seq in Hp.
  set (d := mkT [] [] false).
  set (G := fun t : tline => nth a (row_vals t) 0%Q).
  assert (Gd : G d = 0%Q) by (unfold G, d, row_vals; cbn; destruct a; reflexivity).
  rewrite <- Gd at 1. rewrite map_nth. unfold G, row_vals.
  set (H := fun p0 : list Z * list Z => tok_val (fst p0)).
  assert (Hd : H ([], []) = 0%Q) by reflexivity.
  rewrite <- Hd at 1. rewrite map_nth. unfold H. apply qclose_refl.
Qed.

Lemma all2_motifs bs : all2 motif_ok bs (map (fun b => (b_name b, matrix_of b)) bs) = true.
Proof.
  unfold all2. rewrite map_length, Nat.eqb_refl. cbn [andb].
  induction bs as [|b bs IH]; [reflexivity|].
  cbn [map combine forallb fst snd]. rewrite motif_ok_self. exact IH.
Qed.

Lemma meme_spec g n : spec_ok (CMeme g n) (model (CMeme g n)) = true.
Proof.
  cbn [spec_ok model]. unfold spec_meme.
  destruct (wf_file g) eqn:Hw; [|reflexivity].
  destruct n as [k|].
  - destruct (1 <=? k) eqn:Hk; [|reflexivity].
    rewrite read_meme_first by (auto; lia). cbn [bind].
    unfold motifs_of. rewrite firstn_map. apply all2_motifs.
  - rewrite read_meme_complete by auto. cbn [bind]. apply all2_motifs.
Qed.

(* ====================================================================================== *)
(*  Part B.1: _interleave_loci = round-robin merge                                        *)
(* ====================================================================================== *)

Section Interleave.
Context {A : Type}.
Notation kv := (Z * A)%type.
Definition kle (a b : kv) : Prop := fst a <= fst b.
Definition klt (a b : kv) : Prop := fst a < fst b.

Lemma ins_perm (p : kv) l : Permutation (ins p l) (p :: l).
Proof.
  induction l as [|q t IH]; cbn; [reflexivity|].
  destruct (fst p <? fst q); [reflexivity|].
  transitivity (q :: p :: t); [apply perm_skip; exact IH | apply perm_swap].
Qed.

Lemma isort_perm (l : list kv) : Permutation (isort l) l.
Proof.
  induction l as [|a l IH]; cbn; [reflexivity|].
  transitivity (a :: isort l); [apply ins_perm | apply perm_skip; exact IH].
Qed.

Lemma ins_sorted (p : kv) l : StronglySorted kle l -> StronglySorted kle (ins p l).
Proof.
  induction l as [|q t IH]; intros H; cbn.
  - repeat constructor.
  - inversion H as [|? ? Ht Hq]; subst.
    destruct (fst p <? fst q) eqn:E.
    + constructor; [exact H|]. constructor; [unfold kle; lia|].
      eapply Forall_impl; [|exact Hq]. unfold kle. intros; lia.
    + constructor; [apply IH; exact Ht|].
      apply Forall_forall. intros y Hy.
      apply (Permutation_in _ (ins_perm p t)) in Hy. destruct Hy as [<-|Hy].
      * unfold kle. lia.
      * rewrite Forall_forall in Hq. auto.
Qed.

Lemma isort_sorted (l : list kv) : StronglySorted kle (isort l).
Proof. induction l as [|a l IH]; cbn; [constructor | apply ins_sorted; exact IH]. Qed.

Lemma sorted_unique : forall l1 l2 : list kv,
  StronglySorted klt l1 -> StronglySorted kle l2 -> Permutation l1 l2 -> l1 = l2.
Proof.
  induction l1 as [|a l1 IH]; intros l2 H1 H2 HP.
  - apply Permutation_nil in HP. auto.
  - destruct l2 as [|b l2]; [apply Permutation_sym, Permutation_nil in HP; discriminate|].
    inversion H1 as [|? ? H1t H1a]; subst. inversion H2 as [|? ? H2t H2b]; subst.
    rewrite Forall_forall in H1a, H2b.
    assert (Hb : In b (a :: l1)) by (apply (Permutation_in _ (Permutation_sym HP)); left; auto).
    assert (Ha : In a (b :: l2)) by (apply (Permutation_in _ HP); left; auto).
    assert (E : a = b).
    { destruct Hb as [Hb|Hb]; [auto|]. destruct Ha as [Ha|Ha]; [auto|].
      specialize (H1a _ Hb). specialize (H2b _ Ha). unfold klt, kle in *. lia. }
    subst b. f_equal. apply IH; auto. eapply Permutation_cons_inv; eauto.
Qed.

Lemma SS_app (R : kv -> kv -> Prop) l1 l2 :
  StronglySorted R l1 -> StronglySorted R l2 ->
  (forall a b, In a l1 -> In b l2 -> R a b) -> StronglySorted R (l1 ++ l2).
Proof.
  induction l1 as [|a l1 IH]; intros H1 H2 H; cbn; [exact H2|].
  inversion H1 as [|? ? Ht Ha]; subst. constructor.
  - apply IH; auto. intros; apply H; auto. right; auto.
  - rewrite Forall_app. split; [exact Ha|].
    apply Forall_forall. intros b Hb. apply H; auto. left; auto.
Qed.

(* the labelled frames, one per set *)
Fixpoint labs (n i r : Z) (sets : list (list A)) : list (list kv) :=
  match sets with
  | [] => []
  | s :: ss => label n i r s :: labs n (i + 1) r ss
  end.

Lemma label_sets_concat n : forall sets i, label_sets n i sets = concat (labs n i 0 sets).
Proof. induction sets as [|s ss IH]; intros i; cbn; [reflexivity | rewrite IH; reflexivity]. Qed.

Lemma map_snd_label n i : forall (s : list A) r, map snd (label n i r s) = s.
Proof. induction s as [|x s IH]; intros r; cbn; [reflexivity | rewrite IH; reflexivity]. Qed.

Lemma map_snd_labs n r : forall sets i, map (map snd) (labs n i r sets) = sets.
Proof.
  induction sets as [|s ss IH]; intros i; cbn; [reflexivity|].
  rewrite map_snd_label, IH. reflexivity.
Qed.

Lemma labs_length n r : forall sets i, length (labs n i r sets) = length sets.
Proof. induction sets as [|s ss IH]; intros i; cbn; [reflexivity | rewrite IH; reflexivity]. Qed.

Lemma tails_labs n r : forall sets i, tails (labs n i r sets) = labs n i (r + 1) (tails sets).
Proof.
  induction sets as [|s ss IH]; intros i; cbn; [reflexivity|].
  unfold tails in IH. rewrite IH. destruct s; reflexivity.
Qed.

Lemma heads_labs_keys n r : forall sets i,
  Forall (fun q : kv => r * n + i <= fst q < r * n + i + Z.of_nat (length sets))
         (heads (labs n i r sets)) /\
  StronglySorted klt (heads (labs n i r sets)).
Proof.
  induction sets as [|s ss IH]; intros i.
  - cbn. split; constructor.
  - destruct (IH (i + 1)) as [IH1 IH2].
    assert (B : Forall (fun q : kv => r * n + i + 1 <= fst q < r * n + i + Z.of_nat (length (s :: ss)))
                       (heads (labs n (i + 1) r ss))).
    { eapply Forall_impl; [|exact IH1]. cbn [length]. intros q Hq. lia. }
    cbn [labs]. unfold heads in *. cbn [flat_map].
    destruct s as [|x t]; cbn [label app].
    + split; [|exact IH2]. eapply Forall_impl; [|exact B]. intros q Hq. cbn beta in *. lia.
    + split.
      * constructor; [cbn [fst length]; lia|].
        eapply Forall_impl; [|exact B]. intros q Hq. cbn beta in *. lia.
      * constructor; [exact IH2|].
        eapply Forall_impl; [|exact B]. intros q Hq. unfold klt. cbn beta in Hq. cbn [fst]. lia.
Qed.

Lemma rr_lab_lb n i : 0 <= n -> 0 <= i -> forall f r sets,
  Forall (fun q : kv => r * n <= fst q) (rr_fuel f (labs n i r sets)).
Proof.
  intros Hn Hi. induction f as [|f IH]; intros r sets; cbn [rr_fuel]; [constructor|].
  rewrite Forall_app. split.
  - destruct (heads_labs_keys n r sets i) as [H _].
    eapply Forall_impl; [|exact H]. intros q Hq. cbn beta in *. lia.
  - rewrite tails_labs. eapply Forall_impl; [|apply (IH (r + 1))].
    intros q Hq. cbn beta in *. nia.
Qed.

Lemma rr_lab_sorted n i : 0 <= i -> forall f r sets, i + Z.of_nat (length sets) <= n ->
  StronglySorted klt (rr_fuel f (labs n i r sets)).
Proof.
  intros Hi. induction f as [|f IH]; intros r sets Hn; cbn [rr_fuel]; [constructor|].
  destruct (heads_labs_keys n r sets i) as [H1 H2].
  apply SS_app; auto.
  - rewrite tails_labs. apply IH. unfold tails. rewrite map_length. exact Hn.
  - intros a b Ha Hb. rewrite tails_labs in Hb.
    rewrite Forall_forall in H1. specialize (H1 _ Ha).
    assert (Hn0 : 0 <= n) by lia.
    pose proof (rr_lab_lb n i Hn0 Hi f (r + 1) (tails sets)) as L.
    rewrite Forall_forall in L. specialize (L _ Hb). unfold klt. cbn beta in *. nia.
Qed.

End Interleave.

Section RoundRobin.
Context {A B : Type}.

Lemma heads_map (g : A -> B) sets : heads (map (map g) sets) = map g (heads sets).
Proof.
  unfold heads. induction sets as [|s ss IH]; cbn; [reflexivity|].
  rewrite map_app, IH. destruct s; reflexivity.
Qed.

Lemma tails_map (g : A -> B) sets : tails (map (map g) sets) = map (map g) (tails sets).
Proof.
  unfold tails. rewrite !map_map. apply map_ext. intros s. destruct s; reflexivity.
Qed.

Lemma rr_fuel_map (g : A -> B) : forall f sets,
  rr_fuel f (map (map g) sets) = map g (rr_fuel f sets).
Proof.
  induction f as [|f IH]; intros sets; cbn [rr_fuel]; [reflexivity|].
  rewrite heads_map, tails_map, IH, map_app. reflexivity.
Qed.

Lemma maxlen_map (g : A -> B) sets : maxlen (map (map g) sets) = maxlen sets.
Proof.
  unfold maxlen. induction sets as [|s ss IH]; cbn; [reflexivity|].
  rewrite map_length, IH. reflexivity.
Qed.
End RoundRobin.

Section RRPerm.
Context {A : Type}.

Lemma perm_peel : forall S : list (list A), Permutation (concat S) (heads S ++ concat (tails S)).
Proof.
  induction S as [|s S IH]; cbn; [reflexivity|].
  unfold heads, tails in *. cbn [flat_map map concat].
  destruct s as [|x t]; cbn [app tl].
  - exact IH.
  - apply perm_skip.
    transitivity (t ++ (flat_map (fun s => match s with [] => [] | x0 :: _ => [x0] end) S
                          ++ concat (map (@tl A) S))).
    + apply Permutation_app_head. exact IH.
    + apply Permutation_app_swap_app.
Qed.

Lemma maxlen_tails (S : list (list A)) : maxlen (tails S) = pred (maxlen S).
Proof.
  unfold maxlen, tails. induction S as [|s S IH]; [reflexivity|].
  cbn [map fold_right]. rewrite IH. destruct s; cbn [length tl]; lia.
Qed.

Lemma maxlen_0 : forall S : list (list A), maxlen S = 0%nat -> concat S = [].
Proof.
  unfold maxlen. induction S as [|s S IH]; intros H; [reflexivity|].
  cbn [fold_right] in H. destruct s as [|x t]; cbn [length] in H; [|lia].
  cbn [concat app]. apply IH. lia.
Qed.

Lemma perm_rr : forall f (S : list (list A)), (maxlen S <= f)%nat ->
  Permutation (concat S) (rr_fuel f S).
Proof.
  induction f as [|f IH]; intros S H; cbn [rr_fuel].
  - rewrite maxlen_0 by lia. reflexivity.
  - transitivity (heads S ++ concat (tails S)); [apply perm_peel|].
    apply Permutation_app_head. apply IH. rewrite maxlen_tails. lia.
Qed.

End RRPerm.

(* order_spec: sorting the rows by idx = row * n_sets + set is the round-robin merge, for
   any number of sets of any (unequal) lengths *)
Theorem interleave_rr {A} (sets : list (list A)) : interleave sets = rr sets.
Proof.
  unfold interleave. set (n := Z.of_nat (length sets)).
  rewrite label_sets_concat. set (L := labs n 0 0 sets).
  assert (E : isort (concat L) = rr_fuel (maxlen L) L).
  { symmetry. apply sorted_unique.
    - apply rr_lab_sorted; [lia | unfold n; lia].
    - apply isort_sorted.
    - transitivity (concat L).
      + symmetry. apply perm_rr. lia.
      + symmetry. apply isort_perm. }
  rewrite E. rewrite <- rr_fuel_map.
  unfold L at 2. rewrite map_snd_labs.
  unfold rr. f_equal.
  transitivity (maxlen (map (map (@snd Z A)) L));
    [symmetry; apply maxlen_map | unfold L; rewrite map_snd_labs; reflexivity].
Qed.

Lemma in_rr {A} (l : A) (S : list (list A)) : In l (rr S) -> exists s, In s S /\ In l s.
Proof.
  intros H. unfold rr in H.
  apply (Permutation_in _ (Permutation_sym (perm_rr (maxlen S) S (le_n _)))) in H.
  apply in_concat in H. destruct H as [s [H1 H2]]. eauto.
Qed.

(* ====================================================================================== *)
(*  Part B.2: windows                                                                     *)
(* ====================================================================================== *)

Lemma firstn_skipn_enum {A} (d : A) (l : list A) a k : (a + k <= length l)%nat ->
  firstn k (skipn a l) = map (fun q => nth (a + q) l d) (seq 0 k).
Proof.
  intros H. apply nth_ext with (d := d) (d' := d).
  - rewrite firstn_length, skipn_length, map_length, seq_length. lia.
  - intros q Hq. rewrite firstn_length, skipn_length in Hq.
    rewrite nth_firstn by lia. rewrite nth_skipn.
    rewrite nth_map_seq by lia. reflexivity.
Qed.

(* a Python slice whose bounds lie inside the list is exactly the enumerated positions *)
Lemma pyslice_enum {A} (d : A) (l : list A) a n :
  0 <= a -> 0 <= n -> a + n <= Z.of_nat (length l) -> pyslice l a (a + n) = slice_enum d l a n.
Proof.
  intros Ha Hn Hl. unfold pyslice, slice_enum, norm.
  replace (a <? 0) with false by lia. replace (a + n <? 0) with false by lia.
  replace (Z.max 0 (Z.min (Z.of_nat (length l)) (a + n)) - Z.max 0 (Z.min (Z.of_nat (length l)) a))
    with n by lia.
  replace (Z.max 0 (Z.min (Z.of_nat (length l)) a)) with a by lia.
  rewrite firstn_skipn_enum with (d := d) by lia.
  apply map_ext. intros q. f_equal. lia.
Qed.

Lemma slice_enum_length {A} (d : A) l a n : length (slice_enum d l a n) = Z.to_nat n.
Proof. unfold slice_enum. rewrite map_length, seq_length. reflexivity. Qed.

(* the expressions of one loop iteration, named *)
Definition edge (x : xcall) (c : chrom) (l : locus) : bool :=
  (mid_of l - Z.max (out_width x) (x_win x / 2) - x_jit x <? 0) ||
  (Z.of_nat (length (c_seq c)) <=? mid_of l + Z.max (out_width x) (x_win x / 2) + x_jit x).

Definition msig (x : xcall) (c : chrom) (l : locus) : list (list Z) :=
  if (x_nsig x =? 0)%nat then []
  else map (fun t => pyslice t (mid_of l - out_width x - x_jit x)
                               (mid_of l + out_width x + x_jit x + x_wout x mod 2))
           (c_sig c).

Definition minsig (x : xcall) (c : chrom) (l : locus) : list (list Z) :=
  if (x_nin x =? 0)%nat then []
  else map (fun t => pyslice t (mid_of l - x_win x / 2 - x_jit x)
                               (mid_of l + x_win x / 2 + x_jit x + x_win x mod 2))
           (c_insig c).

Definition mseq (x : xcall) (c : chrom) (l : locus) : list Z :=
  map (base_code (x_alpha x))
      (pyslice (c_seq c) (mid_of l - x_win x / 2 - x_jit x)
                         (mid_of l + x_win x / 2 + x_jit x + x_win x mod 2)).

Definition mfail (x : xcall) (c : chrom) (l : locus) : bool :=
  negb (x_nsig x =? 0)%nat &&
  (below (x_min x) (sumZ (nth (x_tgt x) (msig x c l) [])) ||
   above (x_max x) (sumZ (nth (x_tgt x) (msig x c l) []))).

Lemma loop_cons x l rest kept c : find_chrom (x_gen x) (l_chr l) = Some c ->
  loop x (l :: rest) kept =
  if edge x c l then loop x rest kept
  else if cap_reached (x_nloci x) kept then Ok []
  else if mfail x c l then loop x rest kept
  else do rows <- loop x rest (kept + 1) ;; Ok ((mseq x c l, msig x c l, minsig x c l) :: rows).
Proof. intros H. cbn [loop]. rewrite H. reflexivity. Qed.

Lemma mid_eq l : mid_of l = midpoint l.
Proof. unfold mid_of, midpoint. lia. Qed.

Definition tracks_fact (n : nat) (c : chrom) (ts : list (list Z)) : Prop :=
  length ts = n /\ forall t, In t ts -> length t = length (c_seq c).

Record scope (x : xcall) : Prop := {
  sc_win : 1 <= x_win x;
  sc_jit : 0 <= x_jit x;
  sc_sig : x_nsig x = 0%nat \/
           (x_nsig x <> 0%nat /\ 1 <= x_wout x /\ (x_tgt x < x_nsig x)%nat /\
            forall c, In c (x_gen x) -> tracks_fact (x_nsig x) c (c_sig c));
  sc_in : x_nin x = 0%nat \/
          (x_nin x <> 0%nat /\
           (forall c, In c (x_gen x) -> tracks_fact (x_nin x) c (c_insig c)) /\
           (x_nsig x <> 0%nat \/ x_wout x / 2 <= x_win x / 2));
  sc_cap : forall n, x_nloci x = Some n -> 0 <= n;
  sc_chr : forall s l, In s (x_sets x) -> In l s -> on_chroms (x_chroms x) l = true ->
           find_chrom (x_gen x) (l_chr l) <> None }.

Lemma tracks_ok_fact n c ts : tracks_ok n (length (c_seq c)) ts = true -> tracks_fact n c ts.
Proof.
  unfold tracks_ok, tracks_fact. intros H. apply andb_true_iff in H as [H1 H2].
  split; [apply Nat.eqb_eq; auto|]. intros t Ht. rewrite forallb_forall in H2.
  apply Nat.eqb_eq. auto.
Qed.

Lemma scope_of x : in_scope x = true -> scope x.
Proof.
  unfold in_scope. intros H.
  apply andb_true_iff in H as [H Hchr]. apply andb_true_iff in H as [H Hcap].
  apply andb_true_iff in H as [H Hin]. apply andb_true_iff in H as [H Hsig].
  apply andb_true_iff in H as [Hwin Hjit].
  constructor; try lia.
  - apply orb_true_iff in Hsig as [Hs|Hs]; [left; apply Nat.eqb_eq; auto|].
    destruct (Nat.eq_dec (x_nsig x) 0) as [E|E]; [left; auto|right].
    apply andb_true_iff in Hs as [Hs Htr]. apply andb_true_iff in Hs as [Hw Ht].
    split; [auto|]. split; [lia|]. split; [lia|].
    intros c Hc. rewrite forallb_forall in Htr. apply tracks_ok_fact. auto.
  - apply orb_true_iff in Hin as [Hs|Hs]; [left; apply Nat.eqb_eq; auto|].
    destruct (Nat.eq_dec (x_nin x) 0) as [E|E]; [left; auto|right].
    apply andb_true_iff in Hs as [Htr Hw]. split; [auto|]. split.
    + intros c Hc. rewrite forallb_forall in Htr. apply tracks_ok_fact. auto.
    + apply orb_true_iff in Hw as [Hw|Hw]; [left|right; lia].
      apply negb_true_iff in Hw. apply Nat.eqb_neq in Hw. auto.
  - intros n E. rewrite E in Hcap. lia.
  - intros s l Hs Hl Hon. rewrite forallb_forall in Hchr. specialize (Hchr s Hs).
    rewrite forallb_forall in Hchr. specialize (Hchr l Hl). rewrite Hon in Hchr. cbn in Hchr.
    destruct (find_chrom (x_gen x) (l_chr l)); [discriminate | discriminate].
Qed.

Lemma find_chrom_in g id c : find_chrom g id = Some c -> In c g.
Proof. unfold find_chrom. intros H. apply find_some in H. tauto. Qed.

(* what out_width is, given the scope: the out half-width when signals are given, otherwise
   something that does not exceed the in half-width *)
Lemma out_width_cases x : scope x ->
  (has_sig x = true /\ out_width x = x_wout x / 2 /\ 1 <= x_wout x) \/
  (has_sig x = false /\ out_width x <= x_win x / 2).
Proof.
  intros [Hw Hj Hs Hi _ _]. unfold has_sig, out_width.
  destruct Hs as [E|[E [Hwo _]]].
  - right. rewrite E. cbn [Nat.eqb negb andb]. split; [reflexivity|].
    destruct Hi as [Ei|[Ei [_ [C|C]]]].
    + rewrite Ei. cbn. lia.
    + congruence.
    + destruct (x_nin x =? 0)%nat; lia.
  - left. apply Nat.eqb_neq in E. rewrite E. cbn [negb andb]. auto.
Qed.

(* the edge rule of the code against the windows of the property *)
Lemma edge_rule x c l : scope x ->
  let len := Z.of_nat (length (c_seq c)) in
  (crosses x l len = true -> edge x c l = true) /\
  (edge x c l = true -> crosses x l len || touches x l len = true).
Proof.
  intros SC len. pose proof (out_width_cases x SC) as OW. destruct SC as [Hw Hj _ _ _ _].
  unfold edge, crosses, touches, lo_in, n_in, lo_out, n_out. rewrite mid_eq. fold len.
  destruct OW as [[Hs [Eo Hwo]]|[Hs Ho]]; rewrite Hs.
  - rewrite Eo. cbn [andb]. unfold midpoint. split; lia.
  - cbn [andb]. rewrite !orb_false_r. unfold midpoint. split; lia.
Qed.

(* window_spec: once the filter has passed, both windows lie inside the chromosome and the
   model's Python slices are exactly the positions lo, ..., lo + n - 1 of the property *)
Lemma window_spec x c l : scope x -> In c (x_gen x) -> edge x c l = false ->
  let len := Z.of_nat (length (c_seq c)) in
  (0 <= lo_in x l /\ lo_in x l + n_in x <= len /\
   mseq x c l = map (base_code (x_alpha x)) (slice_enum 0 (c_seq c) (lo_in x l) (n_in x)) /\
   length (mseq x c l) = Z.to_nat (x_win x + 2 * x_jit x)) /\
  (has_sig x = true ->
   0 <= lo_out x l /\ lo_out x l + n_out x <= len /\
   msig x c l = map (fun t => slice_enum 0 t (lo_out x l) (n_out x)) (c_sig c) /\
   Forall (fun w => length w = Z.to_nat (x_wout x + 2 * x_jit x)) (msig x c l)) /\
  (has_insig x = true ->
   minsig x c l = map (fun t => slice_enum 0 t (lo_in x l) (n_in x)) (c_insig c) /\
   Forall (fun w => length w = Z.to_nat (x_win x + 2 * x_jit x)) (minsig x c l)).
Proof.
  intros SC Hc He len. pose proof (out_width_cases x SC) as OW.
  destruct SC as [Hw Hj Hs Hi _ _].
  unfold edge in He. rewrite mid_eq in He. fold len in He.
  assert (Bin : 0 <= lo_in x l /\ lo_in x l + n_in x <= len /\ 0 <= n_in x).
  { unfold lo_in, n_in. unfold midpoint in *. destruct OW as [[_ [Eo _]]|[_ Ho]]; lia. }
  assert (Sl : forall t, length t = length (c_seq c) ->
     pyslice t (mid_of l - x_win x / 2 - x_jit x) (mid_of l + x_win x / 2 + x_jit x + x_win x mod 2)
     = slice_enum 0 t (lo_in x l) (n_in x)).
  { intros t Ht. rewrite mid_eq.
    replace (midpoint l - x_win x / 2 - x_jit x) with (lo_in x l) by (unfold lo_in; lia).
    replace (midpoint l + x_win x / 2 + x_jit x + x_win x mod 2) with (lo_in x l + n_in x)
      by (unfold lo_in, n_in; lia).
    apply pyslice_enum; rewrite ?Ht; fold len; lia. }
  assert (Ein : mseq x c l = map (base_code (x_alpha x)) (slice_enum 0 (c_seq c) (lo_in x l) (n_in x))).
  { unfold mseq. rewrite Sl by reflexivity. reflexivity. }
  split; [|split].
  - repeat split; try lia; auto.
    rewrite Ein, map_length, slice_enum_length. reflexivity.
  - intros Hhs. destruct OW as [[_ [Eo Hwo]]|[Hs' _]]; [|congruence].
    unfold has_sig in Hhs. apply negb_true_iff in Hhs.
    destruct Hs as [E|[E [_ [_ Htr]]]]; [rewrite E in Hhs; discriminate|].
    rewrite Eo in He.
    assert (Bout : 0 <= lo_out x l /\ lo_out x l + n_out x <= len /\ 0 <= n_out x).
    { unfold lo_out, n_out. unfold midpoint in *. lia. }
    assert (Eout : msig x c l = map (fun t => slice_enum 0 t (lo_out x l) (n_out x)) (c_sig c)).
    { unfold msig. rewrite Hhs. rewrite Eo. rewrite mid_eq. apply map_ext_in. intros t Ht.
      replace (midpoint l - x_wout x / 2 - x_jit x) with (lo_out x l) by (unfold lo_out; lia).
      replace (midpoint l + x_wout x / 2 + x_jit x + x_wout x mod 2) with (lo_out x l + n_out x)
        by (unfold lo_out, n_out; lia).
      destruct (Htr c Hc) as [_ Hlen]. specialize (Hlen t Ht).
      apply pyslice_enum; rewrite ?Hlen; fold len; lia. }
    repeat split; try lia; auto.
    rewrite Eout. apply Forall_forall. intros w Hw'. apply in_map_iff in Hw' as [t [<- _]].
    apply slice_enum_length.
  - intros Hhi. unfold has_insig in Hhi. apply negb_true_iff in Hhi.
    destruct Hi as [E|[E [Htr _]]]; [rewrite E in Hhi; discriminate|].
    assert (Ei : minsig x c l = map (fun t => slice_enum 0 t (lo_in x l) (n_in x)) (c_insig c)).
    { unfold minsig. rewrite Hhi. apply map_ext_in. intros t Ht. apply Sl.
      destruct (Htr c Hc) as [_ Hlen]. auto. }
    split; [exact Ei|].
    rewrite Ei. apply Forall_forall. intros w Hw'. apply in_map_iff in Hw' as [t [<- _]].
    apply slice_enum_length.
Qed.

Lemma model_row x c l : scope x -> In c (x_gen x) -> edge x c l = false ->
  (mseq x c l, msig x c l, minsig x c l) = expected_row x c l.
Proof.
  intros SC Hc He. destruct (window_spec x c l SC Hc He) as [[_ [_ [E1 _]]] [H2 H3]].
  unfold expected_row. rewrite E1. f_equal; [f_equal|].
  - destruct (has_sig x) eqn:Hs.
    + destruct (H2 eq_refl) as [_ [_ [E2 _]]]. exact E2.
    + unfold msig. unfold has_sig in Hs. apply negb_false_iff in Hs. rewrite Hs. reflexivity.
  - destruct (has_insig x) eqn:Hs.
    + destruct (H3 eq_refl) as [E3 _]. exact E3.
    + unfold minsig. unfold has_insig in Hs. apply negb_false_iff in Hs. rewrite Hs. reflexivity.
Qed.

(* ====================================================================================== *)
(*  Part B.3: the loop against the property's omission rule                               *)
(* ====================================================================================== *)

Lemma classify_edge x c l : scope x ->
  find_chrom (x_gen x) (l_chr l) = Some c -> edge x c l = true -> classify x l <> CKeep.
Proof.
  intros SC Hf He. unfold classify. rewrite Hf.
  destruct (edge_rule x c l SC) as [_ H]. specialize (H He).
  destruct (crosses x l (Z.of_nat (length (c_seq c)))); [discriminate|].
  cbn [orb] in H. rewrite H.
  destruct (has_sig x && _); discriminate.
Qed.

Lemma classify_noedge x c l : scope x ->
  find_chrom (x_gen x) (l_chr l) = Some c -> edge x c l = false ->
  classify x l = if mfail x c l then COmit
                 else if touches x l (Z.of_nat (length (c_seq c))) then CFree else CKeep.
Proof.
  intros SC Hf He. unfold classify. rewrite Hf.
  destruct (edge_rule x c l SC) as [H _].
  destruct (crosses x l (Z.of_nat (length (c_seq c)))); [specialize (H eq_refl); congruence|].
  pose proof (model_row x c l SC (find_chrom_in _ _ _ Hf) He) as E.
  unfold mfail. rewrite <- E. cbn [fst snd]. unfold has_sig. reflexivity.
Qed.

Definition capof (x : xcall) (kept : Z) : option nat :=
  match x_nloci x with Some n => Some (Z.to_nat (n - kept)) | None => None end.

Lemma matchr_cap0 x ls rows :
  matchr x ls (Some 0%nat) rows = match rows with [] => true | _ => false end.
Proof. destruct ls; reflexivity. Qed.

Lemma matchr_nil x cap : matchr x [] cap [] = true.
Proof. destruct cap as [[|k]|]; reflexivity. Qed.

Lemma matchr_skip x l ls cap rows : classify x l <> CKeep ->
  matchr x ls cap rows = true -> matchr x (l :: ls) cap rows = true.
Proof.
  intros Hc H. destruct cap as [[|k]|].
  - rewrite matchr_cap0 in *. exact H.
  - cbn [matchr]. destruct (classify x l); [exact H | congruence |].
    destruct (match rows with [] => false | r :: rs => _ end); [reflexivity | exact H].
  - cbn [matchr]. destruct (classify x l); [exact H | congruence |].
    destruct (match rows with [] => false | r :: rs => _ end); [reflexivity | exact H].
Qed.

Lemma matchr_keep x l ls cap r rs : cap <> Some 0%nat -> classify x l <> COmit ->
  row_eqb r (row_of x l) = true -> matchr x ls (dec cap) rs = true ->
  matchr x (l :: ls) cap (r :: rs) = true.
Proof.
  intros Hcap Hc Hr H. destruct cap as [[|k]|]; [congruence| |];
    cbn [matchr]; destruct (classify x l); try congruence; rewrite Hr, H; reflexivity.
Qed.

Lemma zl_eqb_refl l : zl_eqb l l = true.
Proof. apply list_eqb_spec; [intros; apply Z.eqb_eq | reflexivity]. Qed.

Lemma zll_eqb_refl (l : list (list Z)) : list_eqb zl_eqb l l = true.
Proof.
  apply list_eqb_spec; [|reflexivity]. intros a b. apply list_eqb_spec. intros; apply Z.eqb_eq.
Qed.

Lemma row_eqb_refl r : row_eqb r r = true.
Proof. unfold row_eqb. rewrite zl_eqb_refl, !zll_eqb_refl. reflexivity. Qed.

Lemma loop_matchr x : scope x -> forall ls kept,
  (forall l, In l ls -> find_chrom (x_gen x) (l_chr l) <> None) ->
  (forall n, x_nloci x = Some n -> 0 <= kept <= n) ->
  exists rows, loop x ls kept = Ok rows /\ matchr x ls (capof x kept) rows = true.
Proof.
  intros SC. induction ls as [|l ls IH]; intros kept Hin Hk.
  - exists []. split; [reflexivity | apply matchr_nil].
  - pose proof (Hin l (or_introl eq_refl)) as Hf.
    destruct (find_chrom (x_gen x) (l_chr l)) as [c|] eqn:Ec; [clear Hf | congruence].
    assert (Hin' : forall l0, In l0 ls -> find_chrom (x_gen x) (l_chr l0) <> None)
      by (intros; apply Hin; right; auto).
    rewrite (loop_cons x l ls kept c Ec).
    destruct (edge x c l) eqn:Ee.
    + destruct (IH kept Hin' Hk) as [rows [E M]]. exists rows. split; [exact E|].
      apply matchr_skip; auto. eapply classify_edge; eauto.
    + pose proof (classify_noedge x c l SC Ec Ee) as Ecl.
      destruct (cap_reached (x_nloci x) kept) eqn:Ecap.
      * exists []. split; [reflexivity|].
        unfold capof, cap_reached in *. destruct (x_nloci x) as [n|]; [|discriminate].
        apply Z.eqb_eq in Ecap. subst n. rewrite Z.sub_diag. apply matchr_cap0.
      * destruct (mfail x c l) eqn:Ef.
        -- destruct (IH kept Hin' Hk) as [rows [E M]]. exists rows. split; [exact E|].
           apply matchr_skip; auto. rewrite Ecl. discriminate.
        -- assert (Hk' : forall n, x_nloci x = Some n -> 0 <= kept + 1 <= n).
           { intros n En. specialize (Hk n En). unfold cap_reached in Ecap. rewrite En in Ecap. lia. }
           destruct (IH (kept + 1) Hin' Hk') as [rows [E M]].
           exists ((mseq x c l, msig x c l, minsig x c l) :: rows). split; [rewrite E; reflexivity|].
           apply matchr_keep.
           ++ unfold capof, cap_reached in *. destruct (x_nloci x) as [n|]; [|discriminate].
              specialize (Hk n eq_refl). intros E0. injection E0 as E0. lia.
           ++ rewrite Ecl. destruct (touches x l _); discriminate.
           ++ unfold row_of. rewrite Ec.
              rewrite (model_row x c l SC (find_chrom_in _ _ _ Ec) Ee). apply row_eqb_refl.
           ++ replace (dec (capof x kept)) with (capof x (kept + 1)); [exact M|].
              unfold capof, cap_reached in *. destruct (x_nloci x) as [n|]; [|reflexivity].
              specialize (Hk n eq_refl).
              replace (Z.to_nat (n - kept)) with (S (Z.to_nat (n - (kept + 1)))) by lia.
              reflexivity.
Qed.

Lemma loci_spec x : spec_ok (CLoci x) (model (CLoci x)) = true.
Proof.
  cbn [spec_ok model]. unfold spec_loci.
  destruct (in_scope x) eqn:Hs; [|reflexivity].
  pose proof (scope_of x Hs) as SC.
  unfold extract_loci, interleave_loci. rewrite interleave_rr.
  set (ls := rr (map (filter_chroms (x_chroms x)) (x_sets x))).
  destruct (loop_matchr x SC ls 0) as [rows [E M]].
  - intros l Hl. apply in_rr in Hl as [s [Hs1 Hs2]].
    apply in_map_iff in Hs1 as [s0 [<- Hs0]].
    unfold filter_chroms in Hs2. apply filter_In in Hs2 as [Hl1 Hl2].
    eapply (sc_chr x SC); eauto.
  - intros n En. pose proof (sc_cap x SC n En). lia.
  - rewrite E. cbn [bind].
    assert (Ecap : capof x 0 = option_map Z.to_nat (x_nloci x)).
    { unfold capof. destruct (x_nloci x); [|reflexivity]. cbn. rewrite Z.sub_0_r. reflexivity. }
    rewrite Ecap in M.
    destruct rows as [|r rows]; cbn [bind]; exact M.
Qed.

(* the property, for every call *)
Lemma all_spec c : spec_ok c (model c) = true.
Proof. destruct c; [apply meme_spec | apply loci_spec]. Qed.

(* ====================================================================================== *)
(*  Part B.4: omission rule and cap, as separate statements                               *)
(* ====================================================================================== *)

(* a single locus is dropped by the model exactly for the edge rule, the cap, or the counts *)
Lemma omitted_iff x c l kept : find_chrom (x_gen x) (l_chr l) = Some c ->
  (loop x [l] kept = Ok [] <->
   edge x c l = true \/ cap_reached (x_nloci x) kept = true \/ mfail x c l = true).
Proof.
  intros Hf. rewrite (loop_cons x l [] kept c Hf). cbn [loop bind].
  destruct (edge x c l), (cap_reached (x_nloci x) kept), (mfail x c l); split; intros H;
    try reflexivity; try tauto; try discriminate.
  destruct H as [H|[H|H]]; discriminate.
Qed.

Definition nocap (x : xcall) : xcall :=
  mkX (x_gen x) (x_sets x) (x_chroms x) (x_win x) (x_wout x) (x_jit x) (x_nsig x) (x_nin x)
      (x_min x) (x_max x) (x_tgt x) None (x_alpha x).

(* n_loci = n returns the first n rows of what the call without cap returns *)
Lemma loop_cap x n : x_nloci x = Some n -> forall ls kept rows, 0 <= kept <= n ->
  loop (nocap x) ls kept = Ok rows ->
  loop x ls kept = Ok (firstn (Z.to_nat (n - kept)) rows).
Proof.
  intros En. induction ls as [|l ls IH]; intros kept rows Hk H.
  - cbn in H. injection H as <-. rewrite firstn_nil. reflexivity.
  - destruct (find_chrom (x_gen x) (l_chr l)) as [c|] eqn:Ec.
    2:{ cbn [loop] in H. change (x_gen (nocap x)) with (x_gen x) in H. rewrite Ec in H. discriminate. }
    rewrite (loop_cons x l ls kept c Ec).
    rewrite (loop_cons (nocap x) l ls kept c Ec) in H.
    change (edge (nocap x) c l) with (edge x c l) in H.
    change (mfail (nocap x) c l) with (mfail x c l) in H.
    change (mseq (nocap x) c l) with (mseq x c l) in H.
    change (msig (nocap x) c l) with (msig x c l) in H.
    change (minsig (nocap x) c l) with (minsig x c l) in H.
    change (cap_reached (x_nloci (nocap x)) kept) with false in H.
    destruct (edge x c l); [apply IH; auto|].
    rewrite En. cbn [cap_reached].
    destruct (kept =? n) eqn:Ek.
    + apply Z.eqb_eq in Ek. subst. rewrite Z.sub_diag. reflexivity.
    + destruct (mfail x c l); [apply IH; auto|].
      destruct (loop (nocap x) ls (kept + 1)) as [rows'|] eqn:E'; [|discriminate].
      cbn [bind] in H. injection H as <-.
      rewrite (IH (kept + 1) rows') by (auto; lia). cbn [bind].
      replace (Z.to_nat (n - kept)) with (S (Z.to_nat (n - (kept + 1)))) by lia.
      reflexivity.
Qed.

Lemma n_loci_cap x n ls rows : x_nloci x = Some n -> 0 <= n ->
  loop (nocap x) ls 0 = Ok rows ->
  loop x ls 0 = Ok (firstn (Z.to_nat n) rows) /\ (length (firstn (Z.to_nat n) rows) <= Z.to_nat n)%nat.
Proof.
  intros En Hn H. split; [|apply firstn_le_length].
  rewrite (loop_cap x n En ls 0 rows) by (auto; lia). rewrite Z.sub_0_r. reflexivity.
Qed.

(* ====================================================================================== *)
(*  witnesses                                                                             *)
(* ====================================================================================== *)

(* "MEME version 4" / "" / MOTIF m1 (w=1) / "" / MOTIF m2 (w=2), no final newline:
   the file ends on the last row of m2 *)
Definition g_eof : mfile :=
  (mkF [(mkR [77; 69; 77; 69; 32; 118; 101; 114; 115; 105; 111; 110; 32; 52] false); (mkR [] false)] [(mkB [109; 49] false [] (mkT [] [([108; 101; 116; 116; 101; 114; 45; 112; 114; 111; 98; 97; 98; 105; 108; 105; 116; 121], [32]); ([109; 97; 116; 114; 105; 120; 58], [32]); ([97; 108; 101; 110; 103; 116; 104; 61], [32]); ([52], [32]); ([119; 61], [32]); ([49], [])] false) [(mkT [32] [([48; 46; 49], [32]); ([48; 46; 50], [32]); ([48; 46; 51], [32]); ([48; 46; 52], [])] false)] [(mkR [] false)]); (mkB [109; 50] false [] (mkT [] [([108; 101; 116; 116; 101; 114; 45; 112; 114; 111; 98; 97; 98; 105; 108; 105; 116; 121], [32]); ([109; 97; 116; 114; 105; 120; 58], [32]); ([97; 108; 101; 110; 103; 116; 104; 61], [32]); ([52], [32]); ([119; 61], [32]); ([50], [])] false) [(mkT [32] [([48; 46; 55], [32]); ([48; 46; 49], [32]); ([48; 46; 49], [32]); ([48; 46; 49], [])] false); (mkT [32] [([48; 46; 50; 53], [32]); ([48; 46; 50; 53], [32]); ([48; 46; 50; 53], [32]); ([48; 46; 50; 53], [])] false)] [])] false).

(* MOTIF m1 / MOTIF m2 / MOTIF m3, each w=1, no line between a matrix and the next MOTIF
   line; "" and "URL x" after the last; final newline *)
Definition g_adjacent : mfile :=
  (mkF [] [(mkB [109; 49] false [] (mkT [] [([108; 101; 116; 116; 101; 114; 45; 112; 114; 111; 98; 97; 98; 105; 108; 105; 116; 121], [32]); ([109; 97; 116; 114; 105; 120; 58], [32]); ([97; 108; 101; 110; 103; 116; 104; 61], [32]); ([52], [32]); ([119; 61], [32]); ([49], [])] false) [(mkT [32] [([49], [32]); ([48], [32]); ([48], [32]); ([48], [])] false)] []); (mkB [109; 50] false [] (mkT [] [([108; 101; 116; 116; 101; 114; 45; 112; 114; 111; 98; 97; 98; 105; 108; 105; 116; 121], [32]); ([109; 97; 116; 114; 105; 120; 58], [32]); ([97; 108; 101; 110; 103; 116; 104; 61], [32]); ([52], [32]); ([119; 61], [32]); ([49], [])] false) [(mkT [32] [([48], [32]); ([49], [32]); ([48], [32]); ([48], [])] false)] []); (mkB [109; 51] false [] (mkT [] [([108; 101; 116; 116; 101; 114; 45; 112; 114; 111; 98; 97; 98; 105; 108; 105; 116; 121], [32]); ([109; 97; 116; 114; 105; 120; 58], [32]); ([97; 108; 101; 110; 103; 116; 104; 61], [32]); ([52], [32]); ([119; 61], [32]); ([49], [])] false) [(mkT [32] [([48], [32]); ([48], [32]); ([49], [32]); ([48], [])] false)] [(mkR [] false); (mkR [85; 82; 76; 32; 120] false)])] true).

(* the pre-fix parser on these two files: m2 is missing from the first, m2 from the second *)
Lemma v0_eof : wf_file g_eof = true /\
  option_map (map fst) (match read_meme_v0 None (render_file g_eof) with Ok m => Some m | Err => None end)
    = Some [[109; 49]] /\
  spec_ok (CMeme g_eof None) (model_v0 (CMeme g_eof None)) = false.
Proof. repeat split; vm_compute; reflexivity. Qed.

Lemma v0_adjacent : wf_file g_adjacent = true /\
  option_map (map fst) (match read_meme_v0 None (render_file g_adjacent) with Ok m => Some m | Err => None end)
    = Some [[109; 49]; [109; 51]] /\
  spec_ok (CMeme g_adjacent None) (model_v0 (CMeme g_adjacent None)) = false.
Proof. repeat split; vm_compute; reflexivity. Qed.

Lemma v0_refuted_eof : exists c, spec_ok c (model_v0 c) = false.
Proof. exists (CMeme g_eof None). apply v0_eof. Qed.

Lemma v0_refuted_adjacent : exists c, spec_ok c (model_v0 c) = false.
Proof. exists (CMeme g_adjacent None). apply v0_adjacent. Qed.

(* a call of extract_loci inside the scope: one chromosome ACGTNacgtn with one signal track,
   loci at both ends and in the middle, in_window 3, out_window 2, jitter 1: round-robin order
   is mid 1, 7, 2, 8, 5; mid 1 crosses the left end, mid 8 touches the right end (dropped);
   mid 2 touches the left end (kept) *)
Definition x_example : xcall :=
  mkX [mkChrom 1 [65; 67; 71; 84; 78; 97; 99; 103; 116; 110] [[1; 2; 3; 4; 5; 6; 7; 8; 9; 10]]
               [[0; 1; 0; 1; 0; 1; 0; 1; 0; 1]]]
      [[mkLocus 1 1 1; mkLocus 1 2 2; mkLocus 1 5 6]; [mkLocus 1 7 7; mkLocus 1 8 8]]
      None 3 2 1 1 1 None None 0 None [65; 67; 71; 84].

Lemma scope_example : in_scope x_example = true /\ wf_file g_eof = true /\
  extract_loci x_example =
    Ok [([0; 1; 2; 3; -1], [[6; 7; 8; 9]], [[1; 0; 1; 0; 1]]);
        ([0; 1; 2; 3; -1], [[1; 2; 3; 4]], [[0; 1; 0; 1; 0]]);
        ([3; -1; 0; 1; 2], [[4; 5; 6; 7]], [[1; 0; 1; 0; 1]])] /\
  option_map (map fst) (match read_meme (Some 1) (render_file g_adjacent) with Ok m => Some m | Err => None end)
    = Some [[109; 49]].
Proof. repeat split; vm_compute; reflexivity. Qed.
