(* C16 model: io.read_meme (line state machine) and io.extract_loci (+ _interleave_loci).
   Executable, total mirror of the code in /repo/tangermeme/io.py after the fix: commit; no
   proofs here.  Bytes are ASCII codes in Z; a file is a list of bytes.                     *)
From TM Require Import Base.Prelude.
From Coq Require Import QArith Qabs.
Open Scope Z_scope.

Notation bytes := (list Z) (only parsing).

(* ====================================================================================== *)
(*  Part 1: read_meme                                                                     *)
(* ====================================================================================== *)

(* str.split() separators met in ASCII files: space, \t \n \v \f \r *)
Definition is_ws (c : Z) : bool := (c =? 32) || ((9 <=? c) && (c <=? 13)).
Definition is_crlf (c : Z) : bool := (c =? 10) || (c =? 13).

Fixpoint prefix_eqb (p s : bytes) : bool :=
  match p, s with
  | [], _ => true
  | a :: p', b :: s' => (a =? b) && prefix_eqb p' s'
  | _ :: _, [] => false
  end.

Definition MOTIF : bytes := [77; 79; 84; 73; 70].            (* "MOTIF"  *)
Definition MOTIF_ : bytes := [77; 79; 84; 73; 70; 32].       (* "MOTIF " *)
Definition LETTER : bytes := [108; 101; 116; 116; 101; 114]. (* "letter" *)

(* `for line in open(filename, "r")`: universal newlines - "\r\n", "\r" and "\n" all end a
   line and are handed to the loop as "\n"; a last line without terminator is handed as is *)
Fixpoint split_lines (s : bytes) : list bytes :=
  match s with
  | [] => []
  | c :: t =>
      if c =? 10 then [10] :: split_lines t
      else if c =? 13 then
        match t with
        | c2 :: t2 => if c2 =? 10 then [10] :: split_lines t2 else [10] :: split_lines t
        | [] => [[10]]
        end
      else match split_lines t with
           | [] => [[c]]
           | l :: ls => (c :: l) :: ls
           end
  end.

(* str.split() *)
Fixpoint split_ws (s : bytes) : list bytes :=
  match s with
  | [] => []
  | c :: t =>
      if is_ws c then split_ws t
      else match t with
           | [] => [[c]]
           | c2 :: _ =>
               if is_ws c2 then [c] :: split_ws t
               else match split_ws t with
                    | tok :: toks => (c :: tok) :: toks
                    | [] => [[c]]
                    end
           end
  end.

Fixpoint drop_while (p : Z -> bool) (s : bytes) : bytes :=
  match s with
  | [] => []
  | c :: t => if p c then drop_while p t else s
  end.

(* str.strip("\r\n") *)
Definition strip_crlf (s : bytes) : bytes :=
  rev (drop_while is_crlf (rev (drop_while is_crlf s))).

(* str.replace('MOTIF ', ''): every non-overlapping occurrence, left to right.  [skip] counts
   the bytes of the current occurrence still to be dropped. *)
Fixpoint rm_motif (skip : nat) (s : bytes) : bytes :=
  match s with
  | [] => []
  | c :: t =>
      match skip with
      | S k => rm_motif k t
      | O => if prefix_eqb MOTIF_ s then rm_motif 5 t else c :: rm_motif 0 t
      end
  end.

Definition name_of (line : bytes) : bytes := strip_crlf (rm_motif 0 line).

(* decimal digits *)
Definition digit (c : Z) : option Z :=
  if (48 <=? c) && (c <=? 57) then Some (c - 48) else None.

Fixpoint digits_val (acc : Z) (s : bytes) : option Z :=
  match s with
  | [] => Some acc
  | c :: t => match digit c with
              | Some d => digits_val (acc * 10 + d) t
              | None => None
              end
  end.

(* int(token) for the tokens met in the grammar: a non-empty run of decimal digits *)
Definition parse_nat (s : bytes) : option Z :=
  match s with [] => None | _ => digits_val 0 s end.

(* split at the first byte satisfying p: (before, Some after) or (all, None) *)
Fixpoint split_at (p : Z -> bool) (s : bytes) : bytes * option bytes :=
  match s with
  | [] => ([], None)
  | c :: t => if p c then ([], Some t)
              else let '(a, b) := split_at p t in (c :: a, b)
  end.

Definition signed (s : bytes) : Z * bytes :=
  match s with
  | c :: t => if c =? 45 then (-1, t) else if c =? 43 then (1, t) else (1, s)
  | [] => (1, s)
  end.

(* the exact rational a decimal token states:  [+-] digits [. digits] [ (e|E) [+-] digits ]
   (at least one mantissa digit).  This is the reading float(token) rounds to a double. *)
Definition parse_dec (tok : bytes) : option Q :=
  let '(sg, body) := signed tok in
  let '(mant, ex) := split_at (fun c => (c =? 101) || (c =? 69)) body in
  let '(ip, fp) := split_at (fun c => c =? 46) mant in
  let fpd := match fp with Some f => f | None => [] end in
  match ip ++ fpd with
  | [] => None
  | ds =>
      match digits_val 0 ds with
      | None => None
      | Some m =>
          let eo := match ex with
                    | None => Some 0
                    | Some es => let '(esg, eb) := signed es in
                                 match parse_nat eb with Some e => Some (esg * e) | None => None end
                    end in
          match eo with
          | None => None
          | Some e =>
              let sh := e - Z.of_nat (length fpd) in
              Some (if 0 <=? sh then inject_Z (sg * m * 10 ^ sh)
                    else Qmake (sg * m) (Z.to_pos (10 ^ (- sh))))
          end
      end
  end.

Definition opt_res {A} (o : option A) : res A := match o with Some a => Ok a | None => Err end.

(* int(line.split()[5]) *)
Definition width_of (line : bytes) : res nat :=
  do tok <- opt_res (nth_error (split_ws line) 5) ;;
  do w <- opt_res (parse_nat tok) ;;
  Ok (Z.to_nat w).

(* pwm[i] = list(map(float, line.strip("\r\n").split())) into a row of 4 cells
   (numpy broadcasts a single value, rejects every other length) *)
Definition parse_row (line : bytes) : res (list Q) :=
  do vals <- mapM (fun t => opt_res (parse_dec t)) (split_ws (strip_crlf line)) ;;
  match vals with
  | [v] => Ok [v; v; v; v]
  | [_; _; _; _] => Ok vals
  | _ => Err
  end.

(* pwm.T : (w,4) -> (4,w) *)
Definition transpose4 (rows : list (list Q)) : list (list Q) :=
  map (fun a => map (fun r => nth a r 0%Q) rows) (seq 0 4).

Definition motif := (bytes * list (list Q))%type.   (* name, matrix as returned (4 x w) *)

Inductive pstate :=
| S0                                             (* motif is None                       *)
| S1 (name : bytes)                              (* motif set, width is None            *)
| S2 (name : bytes) (w : nat) (rows : list (list Q)).  (* reading rows, i = length rows < w *)

Definition bytes_eqb : bytes -> bytes -> bool := list_eqb Z.eqb.

(* keys of the dict after `motifs[k] = ...` *)
Definition key_add (keys : list bytes) (k : bytes) : list bytes :=
  if existsb (fun e => bytes_eqb e k) keys then keys else keys ++ [k].

(* `n_motifs is not None and len(motifs) == n_motifs` *)
Definition full (n : option Z) (keys : list bytes) : bool :=
  match n with Some k => Z.of_nat (length keys) =? k | None => false end.

(* the loop over lines, current code: after the line has been handled,
   `if width is not None and i == width:` commits the motif, resets the state and breaks when
   the dict has n_motifs keys.  [keys] = keys of the dict so far; the result lists the
   assignments `motifs[name] = matrix` in the order they are executed. *)
Fixpoint parse_lines (n : option Z) (keys : list bytes) (st : pstate) (ls : list bytes)
  : res (list motif) :=
  match ls with
  | [] => Ok []
  | l :: rest =>
      match st with
      | S0 => if prefix_eqb MOTIF l then parse_lines n keys (S1 (name_of l)) rest
              else parse_lines n keys S0 rest
      | S1 nm =>
          if prefix_eqb LETTER l then
            do w <- width_of l ;;
            if (w =? 0)%nat then
              if full n (key_add keys nm) then Ok [(nm, transpose4 [])]
              else do ms <- parse_lines n (key_add keys nm) S0 rest ;; Ok ((nm, transpose4 []) :: ms)
            else parse_lines n keys (S2 nm w []) rest
          else parse_lines n keys (S1 nm) rest
      | S2 nm w rows =>
          do r <- parse_row l ;;
          let rows' := rows ++ [r] in
          if (length rows' =? w)%nat then
            if full n (key_add keys nm) then Ok [(nm, transpose4 rows')]
            else do ms <- parse_lines n (key_add keys nm) S0 rest ;; Ok ((nm, transpose4 rows') :: ms)
          else parse_lines n keys (S2 nm w rows') rest
      end
  end.

(* pre-fix loop (before f15ee24): the motif is committed by the `else` branch, i.e. only
   when one more line is read after the last row - and that line is consumed *)
Fixpoint parse_lines_v0 (n : option Z) (keys : list bytes) (st : pstate) (ls : list bytes)
  : res (list motif) :=
  match ls with
  | [] => Ok []
  | l :: rest =>
      match st with
      | S0 => if prefix_eqb MOTIF l then parse_lines_v0 n keys (S1 (name_of l)) rest
              else parse_lines_v0 n keys S0 rest
      | S1 nm =>
          if prefix_eqb LETTER l then
            do w <- width_of l ;; parse_lines_v0 n keys (S2 nm w []) rest
          else parse_lines_v0 n keys (S1 nm) rest
      | S2 nm w rows =>
          if (length rows <? w)%nat then
            do r <- parse_row l ;; parse_lines_v0 n keys (S2 nm w (rows ++ [r])) rest
          else
            if full n (key_add keys nm) then Ok [(nm, transpose4 rows)]
            else do ms <- parse_lines_v0 n (key_add keys nm) S0 rest ;; Ok ((nm, transpose4 rows) :: ms)
      end
  end.

(* motifs[name] = value on an insertion-ordered dict *)
Fixpoint dict_set (d : list motif) (m : motif) : list motif :=
  match d with
  | [] => [m]
  | e :: d' => if bytes_eqb (fst e) (fst m) then (fst e, snd m) :: d' else e :: dict_set d' m
  end.

Definition dict_of (ms : list motif) : list motif := fold_left dict_set ms [].

Definition read_meme (n : option Z) (file : bytes) : res (list motif) :=
  do ms <- parse_lines n [] S0 (split_lines file) ;; Ok (dict_of ms).

Definition read_meme_v0 (n : option Z) (file : bytes) : res (list motif) :=
  do ms <- parse_lines_v0 n [] S0 (split_lines file) ;; Ok (dict_of ms).

(* ====================================================================================== *)
(*  Part 2: extract_loci                                                                  *)
(* ====================================================================================== *)

(* a chromosome: name (an integer id), reference bases (ASCII, any case), one value array
   per `signals` track and one per `in_signals` track *)
Record chrom := mkChrom { c_id : Z; c_seq : bytes; c_sig : list (list Z); c_insig : list (list Z) }.
Record locus := mkLocus { l_chr : Z; l_start : Z; l_end : Z }.

Record xcall := mkX {
  x_gen : list chrom;
  x_sets : list (list locus);         (* one or several locus sets                       *)
  x_chroms : option (list Z);         (* chroms=                                         *)
  x_win : Z; x_wout : Z; x_jit : Z;   (* in_window, out_window, max_jitter               *)
  x_nsig : nat;                       (* number of signal tracks; 0 = signals=None       *)
  x_nin : nat;                        (* number of in_signal tracks; 0 = in_signals=None *)
  x_min : option Z; x_max : option Z; (* 2*min_counts, 2*max_counts (thresholds may be halves) *)
  x_tgt : nat;                        (* target_idx                                      *)
  x_nloci : option Z;                 (* n_loci                                          *)
  x_alpha : list Z }.                 (* alphabet (upper-case letters); every other character
                                         of the genome is in `ignore`                    *)

(* a returned example: base codes of the sequence window (index of the one-hot row, -1 = all-
   zero column), one value window per signal track, one per in_signal track *)
Definition row := (list Z * list (list Z) * list (list Z))%type.

Fixpoint index_of (b : Z) (l : list Z) (i : Z) : Z :=
  match l with
  | [] => -1
  | a :: t => if a =? b then i else index_of b t (i + 1)
  end.

(* .upper() then one_hot_encode(alphabet, ignore) *)
Definition base_code (alpha : list Z) (b : Z) : Z :=
  index_of (if (97 <=? b) && (b <=? 122) then b - 32 else b) alpha 0.

(* Python slice bound: negative wraps once, then clips to [0, n] *)
Definition norm (n k : Z) : Z := Z.max 0 (Z.min n (if k <? 0 then k + n else k)).

Definition pyslice {A} (l : list A) (a b : Z) : list A :=
  let n := Z.of_nat (length l) in
  firstn (Z.to_nat (norm n b - norm n a)) (skipn (Z.to_nat (norm n a)) l).

Definition find_chrom (g : list chrom) (id : Z) : option chrom :=
  find (fun c => c_id c =? id) g.

(* ---- _interleave_loci *)
Definition on_chroms (cs : option (list Z)) (l : locus) : bool :=
  match cs with None => true | Some ids => existsb (Z.eqb (l_chr l)) ids end.

Definition filter_chroms (cs : option (list Z)) (s : list locus) : list locus :=
  filter (on_chroms cs) s.

(* df['idx'] = arange(len(df)) * len(loci) + i *)
Fixpoint label {A} (n i r : Z) (s : list A) : list (Z * A) :=
  match s with
  | [] => []
  | x :: t => (r * n + i, x) :: label n i (r + 1) t
  end.

(* pandas.concat of the labelled frames *)
Fixpoint label_sets {A} (n i : Z) (sets : list (list A)) : list (Z * A) :=
  match sets with
  | [] => []
  | s :: ss => label n i 0 s ++ label_sets n (i + 1) ss
  end.

(* set_index('idx').sort_index() *)
Fixpoint ins {A} (p : Z * A) (l : list (Z * A)) : list (Z * A) :=
  match l with
  | [] => [p]
  | q :: t => if fst p <? fst q then p :: l else q :: ins p t
  end.
Definition isort {A} (l : list (Z * A)) : list (Z * A) := fold_right ins [] l.

Definition interleave {A} (sets : list (list A)) : list A :=
  map snd (isort (label_sets (Z.of_nat (length sets)) 0 sets)).

Definition interleave_loci (cs : option (list Z)) (sets : list (list locus)) : list locus :=
  interleave (map (filter_chroms cs) sets).

(* ---- the loop of extract_loci *)
Definition sumZ (l : list Z) : Z := fold_right Z.add 0 l.

Definition cap_reached (n : option Z) (kept : Z) : bool :=
  match n with Some k => kept =? k | None => false end.

(* thresholds are stored doubled: total < min  <->  2*total < 2*min *)
Definition below (m : option Z) (v : Z) : bool := match m with Some k => 2 * v <? k | None => false end.
Definition above (m : option Z) (v : Z) : bool := match m with Some k => k <? 2 * v | None => false end.

Definition mid_of (l : locus) : Z := l_start l + (l_end l - l_start l) / 2.

(* out_width: `if signals is None and in_signals is None: out_width = 0` *)
Definition out_width (x : xcall) : Z :=
  if (x_nsig x =? 0)%nat && (x_nin x =? 0)%nat then 0 else x_wout x / 2.

Fixpoint loop (x : xcall) (ls : list locus) (kept : Z) : res (list row) :=
  match ls with
  | [] => Ok []
  | l :: rest =>
      match find_chrom (x_gen x) (l_chr l) with
      | None => Err                                       (* KeyError *)
      | Some c =>
          let j := x_jit x in
          let iw := x_win x / 2 in
          let ow := out_width x in
          let mid := mid_of l in
          let s := mid - Z.max ow iw - j in
          let e := mid + Z.max ow iw + j in
          let len := Z.of_nat (length (c_seq c)) in
          if (s <? 0) || (len <=? e) then loop x rest kept
          else if cap_reached (x_nloci x) kept then Ok []
          else
            let sig := if (x_nsig x =? 0)%nat then []
                       else map (fun t => pyslice t (mid - ow - j) (mid + ow + j + x_wout x mod 2))
                                (c_sig c) in
            let total := sumZ (nth (x_tgt x) sig []) in
            if negb (x_nsig x =? 0)%nat && (below (x_min x) total || above (x_max x) total)
            then loop x rest kept
            else
              let insig := if (x_nin x =? 0)%nat then []
                           else map (fun t => pyslice t (mid - iw - j) (mid + iw + j + x_win x mod 2))
                                    (c_insig c) in
              let sq := map (base_code (x_alpha x))
                            (pyslice (c_seq c) (mid - iw - j) (mid + iw + j + x_win x mod 2)) in
              do rows <- loop x rest (kept + 1) ;; Ok ((sq, sig, insig) :: rows)
      end
  end.

(* numpy.stack([]) raises when nothing was kept *)
Definition extract_loci (x : xcall) : res (list row) :=
  do rows <- loop x (interleave_loci (x_chroms x) (x_sets x)) 0 ;;
  match rows with [] => Err | _ => Ok rows end.
