(* C16 spec: what "loaded loci, signals and motifs are exactly what the files contain" demands,
   as a decidable relation between a call and its outcome.

   read_meme: the call is a MEME file given by its grammar tree (header lines, then blocks
   MOTIF line / other lines / letter-probability line / w rows / separator lines, each line
   with its own LF or CRLF terminator, optional final newline); the outcome must list every
   block's motif, in file order, with the values its row tokens state - whatever the layout.

   extract_loci: the call is a genome (bases + signal arrays), locus sets and the window
   parameters; the outcome must be, in round-robin order, one row per kept locus holding
   exactly the bases / signal values at the positions of the centred windows (enumerated
   position by position), where a locus may be left out only for one of the listed reasons. *)
From TM Require Import Base.Prelude C16.Model.
From Coq Require Import QArith Qabs.
Open Scope Z_scope.

(* ====================================================================================== *)
(*  MEME files of the grammar                                                             *)
(* ====================================================================================== *)

Record rline := mkR { r_txt : bytes; r_crlf : bool }.          (* free-text line            *)
Record tline := mkT { t_lead : bytes;                          (* leading blanks            *)
                      t_toks : list (bytes * bytes);           (* token, blanks after it    *)
                      t_crlf : bool }.
Record mblock := mkB { b_name : bytes; b_crlf : bool;          (* "MOTIF " ++ name          *)
                       b_mid : list rline;                     (* lines before the matrix   *)
                       b_letter : tline;                       (* letter-probability line   *)
                       b_rows : list tline;                    (* the w rows                *)
                       b_sep : list rline }.                   (* blank / URL lines after   *)
Record mfile := mkF { f_header : list rline; f_blocks : list mblock; f_final_nl : bool }.

Definition line := (bytes * bool)%type.      (* content without terminator, CRLF? *)

Definition rl (r : rline) : line := (r_txt r, r_crlf r).
Definition toks_txt (ts : list (bytes * bytes)) : bytes :=
  flat_map (fun p => fst p ++ snd p) ts.
Definition tl_ (t : tline) : line := (t_lead t ++ toks_txt (t_toks t), t_crlf t).

Definition block_lines (b : mblock) : list line :=
  (MOTIF_ ++ b_name b, b_crlf b) :: map rl (b_mid b) ++ tl_ (b_letter b) :: map tl_ (b_rows b)
    ++ map rl (b_sep b).

Definition file_lines (g : mfile) : list line :=
  map rl (f_header g) ++ flat_map block_lines (f_blocks g).

Definition term (crlf : bool) : bytes := if crlf then [13; 10] else [10].

(* the bytes of the file: every line followed by its terminator, the last one only when the
   file has a final newline *)
Fixpoint render (fnl : bool) (ls : list line) : bytes :=
  match ls with
  | [] => []
  | l :: rest =>
      match rest with
      | [] => fst l ++ (if fnl then term (snd l) else [])
      | _ => fst l ++ term (snd l) ++ render fnl rest
      end
  end.

Definition render_file (g : mfile) : bytes := render (f_final_nl g) (file_lines g).

(* ---- well-formedness = membership in the grammar *)
Definition okchar (c : Z) : bool := ((32 <=? c) && (c <=? 126)) || (c =? 9).
Definition blank (c : Z) : bool := (c =? 32) || (c =? 9).
Definition tokchar (c : Z) : bool := (33 <=? c) && (c <=? 126).
Definition nonempty {A} (l : list A) : bool := match l with [] => false | _ => true end.

Definition wf_raw (forbidden : list bytes) (r : rline) : bool :=
  forallb okchar (r_txt r) && forallb (fun p => negb (prefix_eqb p (r_txt r))) forbidden.

Definition tok_ok (t : bytes) : bool := nonempty t && forallb tokchar t.

Fixpoint wf_toks (ts : list (bytes * bytes)) : bool :=
  match ts with
  | [] => true
  | p :: rest =>
      tok_ok (fst p) && forallb blank (snd p) &&
      match rest with [] => true | _ => nonempty (snd p) end && wf_toks rest
  end.

Definition wf_tline (t : tline) : bool := forallb blank (t_lead t) && wf_toks (t_toks t).

(* "MOTIF " does not occur in s *)
Fixpoint no_occ (s : bytes) : bool :=
  match s with
  | [] => true
  | _ :: t => negb (prefix_eqb MOTIF_ s) && no_occ t
  end.

Definition wf_row (t : tline) : bool :=
  wf_tline t && (length (t_toks t) =? 4)%nat &&
  forallb (fun p => match parse_dec (fst p) with Some _ => true | None => false end) (t_toks t).

Definition wf_letter (w : nat) (t : tline) : bool :=
  wf_tline t && negb (nonempty (t_lead t)) &&
  match t_toks t with
  | p :: _ => prefix_eqb LETTER (fst p)
  | [] => false
  end &&
  match nth_error (t_toks t) 5 with
  | Some p => match parse_nat (fst p) with Some v => v =? Z.of_nat w | None => false end
  | None => false
  end.

Definition wf_block (b : mblock) : bool :=
  forallb okchar (b_name b) && no_occ (b_name b) &&
  forallb (wf_raw [LETTER; MOTIF]) (b_mid b) &&
  wf_letter (length (b_rows b)) (b_letter b) &&
  forallb wf_row (b_rows b) &&
  forallb (wf_raw [MOTIF]) (b_sep b).

Fixpoint nodupb (l : list bytes) : bool :=
  match l with
  | [] => true
  | x :: t => negb (existsb (bytes_eqb x) t) && nodupb t
  end.

(* without a final newline the last line must have some content (an empty last line without
   terminator is no line at all) *)
Definition last_ok (fnl : bool) (ls : list line) : bool :=
  fnl || nonempty (fst (last ls ([0], false))).

Definition wf_file (g : mfile) : bool :=
  forallb (wf_raw [MOTIF]) (f_header g) &&
  forallb wf_block (f_blocks g) &&
  nodupb (map b_name (f_blocks g)) &&
  last_ok (f_final_nl g) (file_lines g).

(* ---- what the file states *)
Definition tok_val (t : bytes) : Q := match parse_dec t with Some q => q | None => 0%Q end.
Definition row_vals (t : tline) : list Q := map (fun p => tok_val (fst p)) (t_toks t).

(* the matrix as read_meme returns it, 4 x w: entry (a, p) is token a of row p *)
Definition matrix_of (b : mblock) : list (list Q) :=
  map (fun a => map (fun t => nth a (row_vals t) 0%Q) (b_rows b)) (seq 0 4).

Definition motifs_of (g : mfile) : list motif := map (fun b => (b_name b, matrix_of b)) (f_blocks g).

(* float(token) is the double nearest to the stated decimal: relative error <= 2^-53 *)
Definition qclose (a b : Q) : bool :=
  Qle_bool (Qabs (a - b) * (1000000000000 # 1)) (1 + Qabs b).

Definition rstrip (s : bytes) : bytes := rev (drop_while is_ws (rev s)).

Definition all2 {A B} (f : A -> B -> bool) (l1 : list A) (l2 : list B) : bool :=
  (length l1 =? length l2)%nat && forallb (fun p => f (fst p) (snd p)) (combine l1 l2).

(* pointwise: name (up to trailing whitespace, about which the text is silent) and every
   entry (a, p), a < 4, p < w *)
Definition motif_ok (b : mblock) (m : motif) : bool :=
  bytes_eqb (rstrip (fst m)) (rstrip (b_name b)) &&
  (length (snd m) =? 4)%nat &&
  forallb (fun a =>
             let r := nth a (snd m) [] in
             (length r =? length (b_rows b))%nat &&
             forallb (fun p => qclose (nth p r 0%Q)
                                      (tok_val (fst (nth a (t_toks (nth p (b_rows b) (mkT [] [] false)))
                                                         ([], [])))))
                     (seq 0 (length (b_rows b))))
          (seq 0 4).

(* ====================================================================================== *)
(*  extract_loci                                                                          *)
(* ====================================================================================== *)

(* round-robin merge of the locus sets: first rows, then second rows, ...; a set that has
   run out contributes nothing *)
Definition heads {A} (sets : list (list A)) : list A :=
  flat_map (fun s => match s with [] => [] | x :: _ => [x] end) sets.
Definition tails {A} (sets : list (list A)) : list (list A) := map (@tl A) sets.
Fixpoint rr_fuel {A} (fuel : nat) (sets : list (list A)) : list A :=
  match fuel with
  | O => []
  | S f => heads sets ++ rr_fuel f (tails sets)
  end.
Definition maxlen {A} (sets : list (list A)) : nat :=
  fold_right (fun s m => Nat.max (length s) m) 0%nat sets.
Definition rr {A} (sets : list (list A)) : list A := rr_fuel (maxlen sets) sets.

(* positions a, a+1, ..., a+n-1 of l, one by one *)
Definition slice_enum {A} (d : A) (l : list A) (a n : Z) : list A :=
  map (fun q => nth (Z.to_nat (a + Z.of_nat q)) l d) (seq 0 (Z.to_nat n)).

Definition midpoint (l : locus) : Z := (l_start l + l_end l) / 2.

(* the windows centred on the midpoint: [lo, lo + n) *)
Definition lo_in (x : xcall) (l : locus) : Z := midpoint l - x_win x / 2 - x_jit x.
Definition n_in (x : xcall) : Z := x_win x + 2 * x_jit x.
Definition lo_out (x : xcall) (l : locus) : Z := midpoint l - x_wout x / 2 - x_jit x.
Definition n_out (x : xcall) : Z := x_wout x + 2 * x_jit x.
Definition has_sig (x : xcall) : bool := negb (x_nsig x =? 0)%nat.

Definition crosses (x : xcall) (l : locus) (len : Z) : bool :=
  (lo_in x l <? 0) || (len <? lo_in x l + n_in x) ||
  (has_sig x && ((lo_out x l <? 0) || (len <? lo_out x l + n_out x))).

Definition touches (x : xcall) (l : locus) (len : Z) : bool :=
  (lo_in x l =? 0) || (lo_in x l + n_in x =? len) ||
  (has_sig x && ((lo_out x l =? 0) || (lo_out x l + n_out x =? len))).

Definition has_insig (x : xcall) : bool := negb (x_nin x =? 0)%nat.

(* bases of the in window under the call's alphabet; every signal track on the out window;
   every in_signal track on the in window *)
Definition expected_row (x : xcall) (c : chrom) (l : locus) : row :=
  (map (base_code (x_alpha x)) (slice_enum 0 (c_seq c) (lo_in x l) (n_in x)),
   if has_sig x then map (fun t => slice_enum 0 t (lo_out x l) (n_out x)) (c_sig c) else [],
   if has_insig x then map (fun t => slice_enum 0 t (lo_in x l) (n_in x)) (c_insig c) else []).

Definition zl_eqb : list Z -> list Z -> bool := list_eqb Z.eqb.
Definition row_eqb (r1 r2 : row) : bool :=
  zl_eqb (fst (fst r1)) (fst (fst r2)) && list_eqb zl_eqb (snd (fst r1)) (snd (fst r2)) &&
  list_eqb zl_eqb (snd r1) (snd r2).

Inductive cls := COmit | CKeep | CFree.

(* may / must the locus be omitted (classify is only applied to loci on the requested
   chromosomes, see spec_loci).  A window that crosses a chromosome end has no bases to return:
   the locus must be left out.  A locus whose counts (sum of the exact out-window of track
   target_idx) are outside [min_counts, max_counts] fails the count filters: left out.  A locus
   whose expanded window merely touches a chromosome end may be kept or left out (the text
   allows its omission, the rows it would yield exist).  Every other locus must be kept. *)
Definition classify (x : xcall) (l : locus) : cls :=
  match find_chrom (x_gen x) (l_chr l) with
  | None => COmit
  | Some c =>
      let len := Z.of_nat (length (c_seq c)) in
      if crosses x l len then COmit else
      let total := sumZ (nth (x_tgt x) (snd (fst (expected_row x c l))) []) in
      if has_sig x && (below (x_min x) total || above (x_max x) total) then COmit
      else if touches x l len then CFree else CKeep
  end.

Definition row_of (x : xcall) (l : locus) : row :=
  match find_chrom (x_gen x) (l_chr l) with
  | Some c => expected_row x c l
  | None => ([], [], [])
  end.

Definition dec (cap : option nat) : option nat :=
  match cap with Some (S k) => Some k | other => other end.

(* rows is the list of rows of the kept loci of ls, in order; cap = how many more may be kept *)
Fixpoint matchr (x : xcall) (ls : list locus) (cap : option nat) (rows : list row) : bool :=
  match cap with
  | Some O => match rows with [] => true | _ => false end
  | _ =>
      match ls with
      | [] => match rows with [] => true | _ => false end
      | l :: rest =>
          match classify x l with
          | COmit => matchr x rest cap rows
          | CKeep => match rows with
                     | r :: rs => if row_eqb r (row_of x l) then matchr x rest (dec cap) rs else false
                     | [] => false
                     end
          | CFree => if match rows with
                        | r :: rs => if row_eqb r (row_of x l) then matchr x rest (dec cap) rs else false
                        | [] => false
                        end
                     then true else matchr x rest cap rows
          end
      end
  end.

Definition is_some {A} (o : option A) : bool := match o with Some _ => true | None => false end.

Definition tracks_ok (n : nat) (len : nat) (ts : list (list Z)) : bool :=
  (length ts =? n)%nat && forallb (fun t => (length t =? len)%nat) ts.

(* inputs inside the property's quantifier.  With in_signals but without signals the code
   still lets out_window take part in the edge filter although no out window is returned;
   the text does not say what the "expanded window" is then, so such calls are in scope only
   when the out window lies inside the in window. *)
Definition in_scope (x : xcall) : bool :=
  (1 <=? x_win x) && (0 <=? x_jit x) &&
  ((x_nsig x =? 0)%nat ||
   ((1 <=? x_wout x) && (x_tgt x <? x_nsig x)%nat &&
    forallb (fun c => tracks_ok (x_nsig x) (length (c_seq c)) (c_sig c)) (x_gen x))) &&
  ((x_nin x =? 0)%nat ||
   (forallb (fun c => tracks_ok (x_nin x) (length (c_seq c)) (c_insig c)) (x_gen x) &&
    (negb (x_nsig x =? 0)%nat || (x_wout x / 2 <=? x_win x / 2)))) &&
  match x_nloci x with Some n => 0 <=? n | None => true end &&
  forallb (forallb (fun l => negb (on_chroms (x_chroms x) l) ||
                             is_some (find_chrom (x_gen x) (l_chr l)))) (x_sets x).

(* ====================================================================================== *)
(*  calls, outcomes, the spec                                                             *)
(* ====================================================================================== *)

Inductive call := CMeme (g : mfile) (n_motifs : option Z) | CLoci (x : xcall).
Inductive value := VMeme (ms : list motif) | VLoci (rows : list row).
Definition outcome := res value.

(* n_motifs = None: every motif.  n_motifs = k >= 1: the first k motifs (all of them when the
   file has fewer).  k <= 0 is outside the text. *)
Definition spec_meme (g : mfile) (n : option Z) (o : outcome) : bool :=
  if wf_file g then
    match n with
    | Some k => if 1 <=? k then
                  match o with
                  | Ok (VMeme ms) => all2 motif_ok (firstn (Z.to_nat k) (f_blocks g)) ms
                  | _ => false
                  end
                else true
    | None => match o with
              | Ok (VMeme ms) => all2 motif_ok (f_blocks g) ms
              | _ => false
              end
    end
  else true.

(* Err (numpy.stack of nothing) is accepted exactly when an empty result would be.
   Order clause: the rows are those of the round-robin merge of the locus sets restricted to
   the requested chromosomes ("rows in input order (round-robin interleaved across multiple
   locus sets)": the k-th locus on a requested chromosome of every set comes before the
   (k+1)-th of any set, whatever lies in between in the files), with the loci omitted for an
   edge / count / cap reason taken out of that sequence. *)
Definition spec_loci (x : xcall) (o : outcome) : bool :=
  if in_scope x then
    let cap := option_map Z.to_nat (x_nloci x) in
    match match o with Ok (VLoci rows) => Some rows | Err => Some [] | _ => None end with
    | None => false
    | Some rows => matchr x (rr (map (filter_chroms (x_chroms x)) (x_sets x))) cap rows
    end
  else true.

Definition spec_ok (c : call) (o : outcome) : bool :=
  match c with
  | CMeme g n => spec_meme g n o
  | CLoci x => spec_loci x o
  end.

Definition model (c : call) : outcome :=
  match c with
  | CMeme g n => do ms <- read_meme n (render_file g) ;; Ok (VMeme ms)
  | CLoci x => do rows <- extract_loci x ;; Ok (VLoci rows)
  end.

Definition model_v0 (c : call) : outcome :=
  match c with
  | CMeme g n => do ms <- read_meme_v0 n (render_file g) ;; Ok (VMeme ms)
  | CLoci x => model c
  end.

(* ---- comparison of an observed outcome with the model's *)
Definition motif_close (m1 m2 : motif) : bool :=
  bytes_eqb (fst m1) (fst m2) && all2 (all2 qclose) (snd m1) (snd m2).
Definition motif_eqb (m1 m2 : motif) : bool :=
  bytes_eqb (fst m1) (fst m2) && all2 (all2 Qeq_bool) (snd m1) (snd m2).

Definition value_rel (mrel : motif -> motif -> bool) (v1 v2 : value) : bool :=
  match v1, v2 with
  | VMeme a, VMeme b => all2 mrel a b
  | VLoci a, VLoci b => list_eqb row_eqb a b
  | _, _ => false
  end.
Definition outcome_close : outcome -> outcome -> bool := res_eqb (value_rel motif_close).
Definition outcome_eqb : outcome -> outcome -> bool := res_eqb (value_rel motif_eqb).

(* one correspondence case: the call; the outcome with files (for read_meme: the file as
   drawn); the outcome with in-memory arrays (for read_meme: the same motifs re-written in
   the plain layout); for read_meme a checksum of the very bytes the harness wrote *)
Definition case := (call * outcome * outcome * Z)%type.

Definition file_hash (s : bytes) : Z :=
  fold_left (fun h b => (h * 257 + b + 1) mod 2305843009213693951) s (Z.of_nat (length s)).

Definition file_ok (c : call) (h : Z) : bool :=
  match c with CMeme g _ => file_hash (render_file g) =? h | CLoci _ => true end.

Definition check_case (c : case) : nat :=
  let '(cl, o1, o2, h) := c in
  let m := model cl in
  verdict (outcome_close o1 m && outcome_close o2 m && file_ok cl h)
          (spec_ok cl o1 && spec_ok cl o2 && outcome_eqb o1 o2).

(* a sequence of calls made one after the other in one process on the same files / the same
   in-memory objects (one parameter changed from call to call), plus: were the caller's objects
   (DataFrames, arrays, lists; the tensors returned by earlier calls) left untouched? *)
Definition mcase := (list case * bool)%type.

Definition check_mcase (m : mcase) : nat :=
  let v := fold_right Nat.max 0%nat (map check_case (fst m)) in
  if snd m then v else 2%nat.

(* ---- literal helpers for the harness (harness/c16.py prints these names) *)
(* an exact dyadic rational m / 2^e: what a double is *)
Definition mkd (m e : Z) : Q :=
  if 0 <=? e then Qmake m (Z.to_pos (2 ^ e)) else inject_Z (m * 2 ^ (- e)).

Definition k_lp : list Z := [108; 101; 116; 116; 101; 114; 45; 112; 114; 111; 98; 97; 98; 105; 108; 105; 116; 121].  (* letter-probability *)
Definition k_lprob : list Z := [108; 101; 116; 116; 101; 114; 45; 112; 114; 111; 98].  (* letter-prob *)
Definition k_letter : list Z := [108; 101; 116; 116; 101; 114].  (* letter *)
Definition k_matrix : list Z := [109; 97; 116; 114; 105; 120; 58].  (* matrix: *)
Definition k_alength : list Z := [97; 108; 101; 110; 103; 116; 104; 61].  (* alength= *)
Definition k_w : list Z := [119; 61].  (* w= *)
Definition k_nsites : list Z := [110; 115; 105; 116; 101; 115; 61].  (* nsites= *)
Definition k_E : list Z := [69; 61].  (* E= *)
Definition k_tiny : list Z := [49; 46; 50; 101; 45; 48; 53].  (* 1.2e-05 *)
Definition k_h0 : list Z := [77; 69; 77; 69; 32; 118; 101; 114; 115; 105; 111; 110; 32; 52].  (* MEME version 4 *)
Definition k_h2 : list Z := [65; 76; 80; 72; 65; 66; 69; 84; 61; 32; 65; 67; 71; 84].  (* ALPHABET= ACGT *)
Definition k_h4 : list Z := [115; 116; 114; 97; 110; 100; 115; 58; 32; 43; 32; 45].  (* strands: + - *)
Definition k_h6 : list Z := [66; 97; 99; 107; 103; 114; 111; 117; 110; 100; 32; 108; 101; 116; 116; 101; 114; 32; 102; 114; 101; 113; 117; 101; 110; 99; 105; 101; 115].  (* Background letter frequencies *)
Definition k_h7 : list Z := [65; 32; 48; 46; 50; 53; 32; 67; 32; 48; 46; 50; 53; 32; 71; 32; 48; 46; 50; 53; 32; 84; 32; 48; 46; 50; 53].  (* A 0.25 C 0.25 G 0.25 T 0.25 *)
Definition k_url : list Z := [85; 82; 76; 32; 104; 116; 116; 112; 58; 47; 47; 106; 97; 115; 112; 97; 114; 46; 103; 101; 110; 101; 114; 101; 103; 46; 110; 101; 116; 47; 109; 97; 116; 114; 105; 120; 47; 77; 65; 48; 48; 48; 49; 46; 49].  (* URL http://jaspar.genereg.net/matrix/MA0001.1 *)
