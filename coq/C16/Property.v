(* C16 - property theorems only.  Each is closed by [exact] of a lemma from Proofs.v. *)
From TM Require Import Base.Prelude C16.Model C16.Spec C16.Proofs.
Open Scope Z_scope.

(* for EVERY call - every MEME file of the grammar (any number of motifs, any widths, any
   header / in-between / separator lines incl. none, LF or CRLF per line, with or without
   final newline, any blanks around tokens) and every extract_loci call (any genome, any
   number of locus sets of any lengths, any windows / jitter / filters / cap) - the model's
   outcome satisfies the spec *)
Theorem c16_loaded_exactly : forall c, spec_ok c (model c) = true.
Proof. exact all_spec. Qed.
Print Assumptions c16_loaded_exactly.

(* read_meme_complete: for every file of the grammar the parse is the list of all motifs in
   file order with exactly the values their row tokens state *)
Theorem c16_read_meme_complete : forall g,
  wf_file g = true -> read_meme None (render_file g) = Ok (motifs_of g).
Proof. exact read_meme_complete. Qed.
Print Assumptions c16_read_meme_complete.

(* with n_motifs = k >= 1: the first k motifs of the file (all when there are fewer) *)
Theorem c16_read_meme_first : forall k g, wf_file g = true -> 1 <= k ->
  read_meme (Some k) (render_file g) = Ok (firstn (Z.to_nat k) (motifs_of g)).
Proof. exact read_meme_first. Qed.
Print Assumptions c16_read_meme_first.

(* order_spec: sort by idx = row * n_sets + set  =  round-robin merge, unequal sizes included *)
Theorem c16_order_spec : forall (sets : list (list locus)), interleave sets = rr sets.
Proof. exact (@interleave_rr locus). Qed.
Print Assumptions c16_order_spec.

(* window_spec: whenever the edge filter passed, for odd and even widths and w_in <,=,> w_out,
   both windows lie inside [0, len) and the model's slices are exactly the positions
   lo .. lo + w + 2j - 1 around the midpoint *)
Theorem c16_window_spec : forall x c l,
  scope x -> In c (x_gen x) -> edge x c l = false ->
  let len := Z.of_nat (length (c_seq c)) in
  (0 <= lo_in x l /\ lo_in x l + n_in x <= len /\
   mseq x c l = map (base_code (x_alpha x)) (slice_enum 0 (c_seq c) (lo_in x l) (n_in x)) /\
   length (mseq x c l) = Z.to_nat (x_win x + 2 * x_jit x)) /\
  (has_sig x = true ->
   0 <= lo_out x l /\ lo_out x l + n_out x <= len /\
   msig x c l = map (fun t => slice_enum 0 t (lo_out x l) (n_out x)) (c_sig c) /\
   Forall (fun w => length w = Z.to_nat (x_wout x + 2 * x_jit x)) (msig x c l)) /\
  (has_insig x = true ->
   minsig x c l = map (fun t => slice_enum 0 t (lo_in x l) (n_in x)) (c_insig c) /\
   Forall (fun w => length w = Z.to_nat (x_win x + 2 * x_jit x)) (minsig x c l)).
Proof. exact window_spec. Qed.
Print Assumptions c16_window_spec.

(* omitted_iff: a locus is dropped exactly for the edge rule, the cap or the count filter;
   the edge rule fires on every window that crosses a chromosome end and only on windows that
   touch or cross one *)
Theorem c16_omitted_iff : forall x c l kept,
  find_chrom (x_gen x) (l_chr l) = Some c ->
  (loop x [l] kept = Ok [] <->
   edge x c l = true \/ cap_reached (x_nloci x) kept = true \/ mfail x c l = true).
Proof. exact omitted_iff. Qed.
Print Assumptions c16_omitted_iff.

Theorem c16_edge_rule : forall x c l, scope x ->
  let len := Z.of_nat (length (c_seq c)) in
  (crosses x l len = true -> edge x c l = true) /\
  (edge x c l = true -> crosses x l len || touches x l len = true).
Proof. exact edge_rule. Qed.
Print Assumptions c16_edge_rule.

(* n_loci_cap: the capped call returns the first n rows of the uncapped call *)
Theorem c16_n_loci_cap : forall x n ls rows, x_nloci x = Some n -> 0 <= n ->
  loop (nocap x) ls 0 = Ok rows ->
  loop x ls 0 = Ok (firstn (Z.to_nat n) rows) /\ (length (firstn (Z.to_nat n) rows) <= Z.to_nat n)%nat.
Proof. exact n_loci_cap. Qed.
Print Assumptions c16_n_loci_cap.

(* the hypotheses are satisfiable: a file of the grammar, a call inside the scope *)
Example c16_scope_inhabited : in_scope x_example = true /\ wf_file g_eof = true /\
  extract_loci x_example =
    Ok [([0; 1; 2; 3; -1], [[6; 7; 8; 9]], [[1; 0; 1; 0; 1]]);
        ([0; 1; 2; 3; -1], [[1; 2; 3; 4]], [[0; 1; 0; 1; 0]]);
        ([3; -1; 0; 1; 2], [[4; 5; 6; 7]], [[1; 0; 1; 0; 1]])] /\
  option_map (map fst) (match read_meme (Some 1) (render_file g_adjacent) with Ok m => Some m | Err => None end)
    = Some [[109; 49]].
Proof. exact scope_example. Qed.

(* the parser before commit f15ee24 (motif committed only by the line after its last row)
   violates the spec: file ending on the last row; motifs without a line in between *)
Lemma read_meme_v0_refuted : exists c, spec_ok c (model_v0 c) = false.
Proof. exact v0_refuted_eof. Qed.
Lemma read_meme_v0_refuted_adjacent : exists c, spec_ok c (model_v0 c) = false.
Proof. exact v0_refuted_adjacent. Qed.
