(* C15 spec: the property as a decidable relation between a call and what was observed,
   written position by position and independently of the model's mechanisms (no byte
   table, no arg-max, no index permutation, no reassembly arithmetic).  Where the property
   text is silent (alphabets with repeated or ignored letters, non-ASCII bytes, strings
   with ignored letters decoded without allow_N, complement maps that are not involutions,
   chunk sizes/overlaps/lengths for which no complete chunk exists) spec_ok is true.      *)
From TM Require Import Base.Prelude Base.OneHot Base.PyList C15.Model.
Open Scope Z_scope.

Inductive value :=
| VStr (s : list Z)            (* a string *)
| VTen (X : dna)               (* a tensor (A, L) *)
| VBatch (Xs : list dna).      (* a tensor (N, A, size) or a list of tensors (A, L_i) *)

(* Each call is a short pipeline of API calls; the outcome lists what each stage returned
   (Err = that stage, or one before it, raised). *)
Inductive call :=
| CRound (alpha ign s : list Z) (force allowN : bool)
    (* [ one_hot_encode(s, alpha, ignore=ign) ; characters(that, alpha, force, allow_N) ] *)
| CBack (alpha ign : list Z) (X : dna) (force allowN : bool)
    (* [ characters(X, alpha, force, allow_N) ; one_hot_encode(that, alpha, ignore=ign) ] *)
| CRcStr (m : list (Z * Z)) (allowN : bool) (s : list Z)
    (* [ reverse_complement(s) ; reverse_complement(that) ] *)
| CRcTen (m : list (Z * Z)) (X : dna)
    (* [ reverse_complement(X) ; reverse_complement(that) ] *)
| CRcAgree (m : list (Z * Z)) (ign : list Z) (allowN : bool) (s : list Z)
    (* [ one_hot_encode(reverse_complement(s)) ; reverse_complement(one_hot_encode(s)) ],
       alphabet = the keys of the map *)
| CChunk (size overlap : Z) (xs : list dna).
    (* [ chunk(xs, size, overlap) ; unchunk(that, lengths of xs, overlap) ] *)

Definition outcome := list (res value).

(* ---------- equality on observations ---------- *)
Definition str_eqb : list Z -> list Z -> bool := list_eqb Z.eqb.
Definition value_eqb (a b : value) : bool :=
  match a, b with
  | VStr s, VStr t => str_eqb s t
  | VTen X, VTen Y => dna_eqb X Y
  | VBatch X, VBatch Y => batch_eqb X Y
  | _, _ => false
  end.
Definition outcome_eqb : outcome -> outcome -> bool := list_eqb (res_eqb value_eqb).

(* ---------- scopes ---------- *)
Fixpoint nodupb (l : list Z) : bool :=
  match l with [] => true | x :: xs => negb (mem x xs) && nodupb xs end.

(* a duplicate-free ASCII alphabet of at least one letter, disjoint from the ignore set *)
Definition alpha_scope (alpha ign : list Z) : bool :=
  forallb is_ascii (alpha ++ ign) && nodupb alpha && (1 <=? length alpha)%nat
  && negb (existsb (fun c => mem c alpha) ign).

(* the complement map is an involution on its (distinct, ASCII) keys: every pair (k, v)
   comes with the pair (v, k) *)
Definition cmap_scope (m : list (Z * Z)) : bool :=
  forallb is_ascii (map fst m) && nodupb (map fst m) && (1 <=? length m)%nat
  && forallb (fun kv => existsb (fun kv' => (fst kv' =? snd kv) && (snd kv' =? fst kv)) m) m.

(* ---------- pointwise relations ---------- *)
Definition dcol : col := [].

(* X is the one-hot encoding of s: entry (i, q) is 1 exactly when alpha[i] = s[q] *)
Definition enc_point (alpha s : list Z) (X : dna) : bool :=
  (length X =? length s)%nat &&
  forallb (fun q =>
             let c := nth q X dcol in
             (length c =? length alpha)%nat &&
             forallb (fun i => nth i c 7 =? (if nth i alpha 0 =? nth q s 0 then 1 else 0))
                     (seq 0 (length alpha)))
          (seq 0 (length s)).

(* t is s with every ignored letter replaced by N *)
Definition dec_point (ign s t : list Z) : bool :=
  (length t =? length s)%nat &&
  forallb (fun q => nth q t 0 =? (if mem (nth q s 0) ign then charN else nth q s 0))
          (seq 0 (length s)).

(* a column that some string position can encode to: A entries in {0,1}, at most one 1 *)
Definition col_01 (A : nat) (c : col) : bool :=
  (length c =? A)%nat && forallb (fun v => (v =? 0) || (v =? 1)) c &&
  ((col_sum c =? 1) || (col_sum c =? 0)).

(* every position of x that lies inside a complete chunk [k*step, k*step+size) reappears at
   the same position of o.  Every k whose chunk is complete satisfies k*step <= length x, so
   (step >= 1) k <= length x / step: the enumeration stops there only to keep the numbers small *)
Definition chunk_point (size step : nat) (x o : dna) : bool :=
  forallb (fun k =>
             if (k * step + size <=? length x)%nat
             then forallb (fun j => let p := (k * step + j)%nat in
                                    (p <? length o)%nat && col_eqb (nth p o dcol) (nth p x dcol))
                          (seq 0 size)
             else true)
          (seq 0 (S (length x / step))).

Definition all_seqs (xs ys : list dna) (R : dna -> dna -> bool) : bool :=
  (length ys =? length xs)%nat &&
  forallb (fun i => R (nth i xs []) (nth i ys [])) (seq 0 (length xs)).

(* ---------- the property ---------- *)
Definition spec_ok (c : call) (o : outcome) : bool :=
  match c with
  | CRound alpha ign s force allowN =>
      if alpha_scope alpha ign && forallb is_ascii s then
        if forallb (fun ch => mem ch alpha || mem ch ign) s then
          match o with
          | [Ok (VTen X); d] =>
              enc_point alpha s X &&
              (if existsb (fun ch => mem ch ign) s && negb allowN then true
               else match d with Ok (VStr t) => dec_point ign s t | _ => false end)
          | _ => false
          end
        else match o with Err :: _ => true | _ => false end      (* rejected *)
      else true
  | CBack alpha ign X force allowN =>
      if alpha_scope alpha ign && forallb (col_01 (length alpha)) X
         && (forallb (fun c => col_sum c =? 1) X || (allowN && mem charN ign)) then
        match o with
        | [Ok (VStr _); Ok (VTen Y)] => dna_eqb Y X
        | _ => false
        end
      else true
  | CRcStr m allowN s =>
      if cmap_scope m && forallb (fun ch => mem ch (map fst m) || ((ch =? charN) && allowN)) s then
        match o with
        | [Ok (VStr _); Ok (VStr t)] => str_eqb t s
        | _ => false
        end
      else true
  | CRcTen m X =>
      if cmap_scope m && forallb (fun c => (length c =? length m)%nat) X then
        match o with
        | [Ok (VTen _); Ok (VTen Y)] => dna_eqb Y X
        | _ => false
        end
      else true
  | CRcAgree m ign allowN s =>
      if cmap_scope m && forallb is_ascii ign && negb (existsb (fun ch => mem ch (map fst m)) ign)
         && forallb (fun ch => mem ch (map fst m) || ((ch =? charN) && allowN && mem charN ign)) s then
        match o with
        | [Ok (VTen a); Ok (VTen b)] => dna_eqb a b
        | _ => false
        end
      else true
  | CChunk size overlap xs =>
      if (1 <=? size) && (0 <=? overlap) && (overlap <? size) && (1 <=? length xs)%nat
         && forallb (fun x => size <=? Z.of_nat (length x)) xs then
        match o with
        | [Ok (VBatch _); Ok (VBatch ys)] =>
            all_seqs xs ys (chunk_point (Z.to_nat size) (Z.to_nat (size - overlap)))
        | _ => false
        end
      else true
  end.

(* ---------- the model of each pipeline ---------- *)
Definition stage {A} (f : A -> value) (r : res A) : res value :=
  match r with Ok a => Ok (f a) | Err => Err end.

Definition model_gen (v0_chars v0_unchunk : bool) (c : call) : outcome :=
  let chars := characters_gen v0_chars in
  match c with
  | CRound alpha ign s force allowN =>
      let e := one_hot_encode alpha ign s in
      [stage VTen e; stage VStr (do X <- e ;; chars alpha force allowN X)]
  | CBack alpha ign X force allowN =>
      let d := chars alpha force allowN X in
      [stage VStr d; stage VTen (do t <- d ;; one_hot_encode alpha ign t)]
  | CRcStr m allowN s =>
      let r := rc_str m allowN s in
      [stage VStr r; stage VStr (do t <- r ;; rc_str m allowN t)]
  | CRcTen m X =>
      let r := rc_ten m X in
      [stage VTen r; stage VTen (do Y <- r ;; rc_ten m Y)]
  | CRcAgree m ign allowN s =>
      let keys := map fst m in
      [stage VTen (do t <- rc_str m allowN s ;; one_hot_encode keys ign t);
       stage VTen (do X <- one_hot_encode keys ign s ;; rc_ten m X)]
  | CChunk size overlap xs =>
      let ch := chunk size overlap xs in
      [stage VBatch ch;
       stage VBatch (do X <- ch ;;
                     unchunk_gen v0_unchunk X (map (fun x => Z.of_nat (length x)) xs) overlap)]
  end.

Definition model : call -> outcome := model_gen false false.
Definition model_v0_chars : call -> outcome := model_gen true false.      (* before d995238 *)
Definition model_v0_unchunk : call -> outcome := model_gen false true.    (* before 29aa030 *)

Definition case := (call * outcome)%type.

Definition check_case (c : case) : nat :=
  let '(cl, o) := c in verdict (outcome_eqb o (model cl)) (spec_ok cl o).
