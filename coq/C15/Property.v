(* C15 - property theorems only.  Each is closed by [exact] of a lemma from Proofs.v.
   [model] is the executable mirror of /repo's utils.py (Model.v + the pipelines of Spec.v),
   [spec_ok] the decidable, pointwise statement of the property (Spec.v).  All quantifiers
   are unbounded: every alphabet / ignore set / string / flag / complement map / tensor /
   chunk size / overlap / number and length of sequences; the conditions under which the
   property demands something are tested inside [spec_ok] (it is true outside them).      *)
From TM Require Import Base.Prelude Base.OneHot C15.Model C15.Spec C15.Proofs.
Open Scope Z_scope.

(* one_hot_encode then characters: for every duplicate-free ASCII alphabet disjoint from the
   ignore set and every ASCII string: if all letters are in alphabet+ignore, entry (i,q) of
   the encoding is 1 exactly when alphabet[i] = s[q] (ignored letters give all-zero columns)
   and decoding gives s back with ignored letters as N (whenever allow_N is set or s has no
   ignored letter); if some letter is in neither set the call is rejected *)
Theorem c15_ohe_roundtrip : forall alpha ign s force allowN,
  spec_ok (CRound alpha ign s force allowN) (model (CRound alpha ign s force allowN)) = true.
Proof. exact round_spec. Qed.
Print Assumptions c15_ohe_roundtrip.

(* characters then one_hot_encode gives back every tensor whose columns are one-hot (or
   all-zero, with allow_N and N ignored) *)
Theorem c15_ohe_back : forall alpha ign X force allowN,
  spec_ok (CBack alpha ign X force allowN) (model (CBack alpha ign X force allowN)) = true.
Proof. exact back_spec. Qed.
Print Assumptions c15_ohe_back.

(* reverse_complement twice is the identity on strings, for every involutive complement map *)
Theorem c15_rc_involutive_string : forall m allowN s,
  spec_ok (CRcStr m allowN s) (model (CRcStr m allowN s)) = true.
Proof. exact rcstr_spec. Qed.
Print Assumptions c15_rc_involutive_string.

(* ... and on tensors (any integer entries) *)
Theorem c15_rc_involutive_tensor : forall m X,
  spec_ok (CRcTen m X) (model (CRcTen m X)) = true.
Proof. exact rcten_spec. Qed.
Print Assumptions c15_rc_involutive_tensor.

(* encoding the reverse complement of a string = reverse-complementing its encoding *)
Theorem c15_rc_string_tensor_agree : forall m ign allowN s,
  spec_ok (CRcAgree m ign allowN s) (model (CRcAgree m ign allowN s)) = true.
Proof. exact agree_spec. Qed.
Print Assumptions c15_rc_string_tensor_agree.

(* chunk then unchunk: for every size >= 1, 0 <= overlap < size, any number >= 1 of
   sequences of length >= size: every position inside a complete chunk is reproduced, in
   every sequence - through the one-chunk, two-chunk, many-chunk and overlap = 0 paths *)
Theorem c15_unchunk_chunk : forall size overlap xs,
  spec_ok (CChunk size overlap xs) (model (CChunk size overlap xs)) = true.
Proof. exact chunk_spec. Qed.
Print Assumptions c15_unchunk_chunk.

(* the whole property: every pipeline, every input *)
Theorem c15_all : forall c, spec_ok c (model c) = true.
Proof. exact model_spec. Qed.
Print Assumptions c15_all.

(* the same facts in explicit form *)
Theorem c15_unchunk_chunk_exact : forall size overlap xs,
  1 <= size -> 0 <= overlap < size -> xs <> [] ->
  (forall x, In x xs -> (Z.to_nat size <= length x)%nat) ->
  exists X, chunk size overlap xs = Ok X /\
            unchunk X (map (fun x => Z.of_nat (length x)) xs) overlap
            = Ok (map (fun x => firstn (cov (Z.to_nat size) (Z.to_nat (size - overlap)) x) x) xs).
Proof. exact chunk_unchunk_exact. Qed.
Print Assumptions c15_unchunk_chunk_exact.

Theorem c15_ohe_roundtrip_exact : forall alpha ign s force,
  alpha_scope alpha ign = true -> forallb is_ascii s = true ->
  forallb (fun ch => mem ch alpha || mem ch ign) s = true ->
  exists X, one_hot_encode alpha ign s = Ok X /\
            characters alpha force true X = Ok (map (fun c => if mem c ign then charN else c) s) /\
            (existsb (fun ch => mem ch ign) s = false -> characters alpha force false X = Ok s).
Proof. exact ohe_roundtrip_exact. Qed.
Print Assumptions c15_ohe_roundtrip_exact.

Theorem c15_ohe_rejects : forall alpha ign s,
  alpha_scope alpha ign = true -> forallb is_ascii s = true ->
  forallb (fun ch => mem ch alpha || mem ch ign) s = false ->
  one_hot_encode alpha ign s = Err.
Proof. exact ohe_rejects. Qed.
Print Assumptions c15_ohe_rejects.

Theorem c15_rc_string_exact : forall m allowN s,
  cmap_scope m = true -> forallb (rc_letter m allowN) s = true ->
  exists t, rc_str m allowN s = Ok t /\ rc_str m allowN t = Ok s.
Proof. exact rc_str_involutive. Qed.
Print Assumptions c15_rc_string_exact.

Theorem c15_rc_tensor_exact : forall m X,
  cmap_scope m = true -> forallb (fun c => (length c =? length m)%nat) X = true ->
  exists Y, rc_ten m X = Ok Y /\ rc_ten m Y = Ok X.
Proof. exact rc_ten_involutive. Qed.
Print Assumptions c15_rc_tensor_exact.

(* the hypotheses are satisfiable: each scope test succeeds on an ordinary input, so the
   theorems above are not vacuous *)
Example c15_scopes_inhabited :
  let dna4 := [(65, 84); (67, 71); (71, 67); (84, 65)] in
  alpha_scope [65; 67; 71; 84] [78] = true /\ cmap_scope dna4 = true /\
  model (CRound [65; 67; 71; 84] [78] [71; 78; 65] false true)
    = [Ok (VTen [[0; 0; 1; 0]; [0; 0; 0; 0]; [1; 0; 0; 0]]); Ok (VStr [71; 78; 65])] /\
  model (CRcStr dna4 true [65; 67; 78]) = [Ok (VStr [78; 71; 84]); Ok (VStr [65; 67; 78])] /\
  model (CChunk 5 3 [[[0]; [1]; [2]; [3]; [4]; [5]; [6]; [7]; [8]; [9]]])
    = [Ok (VBatch [[[0]; [1]; [2]; [3]; [4]]; [[2]; [3]; [4]; [5]; [6]]; [[4]; [5]; [6]; [7]; [8]]]);
       Ok (VBatch [[[0]; [1]; [2]; [3]; [4]; [5]; [6]; [7]; [8]]])].
Proof. vm_compute. repeat split. Qed.

(* repaired defects: the pre-fix behaviour violates the property (same witnesses as
   corpus/C15) *)

(* before 29aa030: a lone chunk with overlap > 0 lost overlap//2 positions on the left and
   the rest of the overlap on the right (size 3, overlap 1, one sequence of length 3) *)
Lemma c15_unchunk_single_v0_refuted : exists c, spec_ok c (model_v0_unchunk c) = false.
Proof. exists (CChunk 3 1 [[[1]; [2]; [3]]]). vm_compute. reflexivity. Qed.

(* before d995238: the empty string could be encoded but not decoded (max() over no positions) *)
Lemma c15_characters_empty_v0_refuted : exists c, spec_ok c (model_v0_chars c) = false.
Proof. exists (CRound [65] [78] [] false false). vm_compute. reflexivity. Qed.
