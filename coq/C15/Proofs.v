(* C15 proofs: the model of every pipeline satisfies the pointwise spec, for all inputs. *)
From TM Require Import Base.Prelude Base.OneHot Base.PyList C15.Model C15.Spec.
Open Scope Z_scope.

(* ====================================================================================== *)
(* generic helpers                                                                        *)

Lemma forallb_seq (f : nat -> bool) n :
  forallb f (seq 0 n) = true <-> (forall q, (q < n)%nat -> f q = true).
Proof.
  rewrite forallb_forall. split; intros H q Hq.
  - apply H. apply in_seq. lia.
  - apply in_seq in Hq. apply H. lia.
Qed.

Lemma col_eqb_refl c : col_eqb c c = true.
Proof. apply col_eqb_spec. reflexivity. Qed.
Lemma dna_eqb_refl c : dna_eqb c c = true.
Proof. apply dna_eqb_spec. reflexivity. Qed.
Lemma str_eqb_refl s : str_eqb s s = true.
Proof. apply list_eqb_spec; [intros; apply Z.eqb_eq | reflexivity]. Qed.

Lemma mapM_ok {A B} (f : A -> res B) (g : A -> B) l :
  (forall x, In x l -> f x = Ok (g x)) -> mapM f l = Ok (map g l).
Proof.
  induction l as [|a l IH]; intros H; cbn; [reflexivity|].
  rewrite (H a) by (left; reflexivity). cbn. rewrite IH by (intros; apply H; right; assumption).
  reflexivity.
Qed.

Lemma mapM_err {A B} (f : A -> res B) l x : In x l -> f x = Err -> mapM f l = Err.
Proof.
  induction l as [|a l IH]; intros Hin E; [destruct Hin|]. cbn.
  destruct Hin as [->|Hin].
  - rewrite E. reflexivity.
  - destruct (f a); cbn; [|reflexivity]. rewrite (IH Hin E). reflexivity.
Qed.

Lemma skipn_skipn' {T} a b (l : list T) : skipn a (skipn b l) = skipn (b + a) l.
Proof.
  revert l; induction b as [|b IH]; intros l; [reflexivity|].
  destruct l as [|x xs]; cbn [skipn Nat.add]; [apply skipn_nil | apply IH].
Qed.

Lemma firstn_app_skipn {T} a b (x : list T) : firstn a x ++ firstn b (skipn a x) = firstn (a + b) x.
Proof.
  revert x; induction a as [|a IH]; intros x; [reflexivity|].
  destruct x as [|y ys]; cbn [firstn skipn Nat.add app].
  - rewrite firstn_nil. reflexivity.
  - f_equal. apply IH.
Qed.

(* ====================================================================================== *)
(* chunk followed by unchunk                                                              *)

Section Windows.
  Variables (size step : nat) (x : dna).
  Hypothesis Hstep : (1 <= step)%nat.

  Definition win (k : nat) : dna := firstn size (skipn (k * step) x).

  Lemma win_length k : (k * step + size <= length x)%nat -> length (win k) = size.
  Proof. intros H. unfold win. rewrite firstn_length, skipn_length. lia. Qed.

  (* the part of a middle chunk that is kept *)
  Lemma win_mid k s e' : (k * step + size <= length x)%nat -> size = (step + s + e')%nat ->
    slice_se s e' (win k) = firstn step (skipn (k * step + s) x).
  Proof.
    intros H E. unfold slice_se. rewrite win_length by exact H. unfold win.
    rewrite firstn_firstn, skipn_firstn_comm, skipn_skipn'.
    f_equal. lia.
  Qed.

  Lemma win_tail k s : skipn s (win k) = firstn (size - s) (skipn (k * step + s) x).
  Proof. unfold win. rewrite skipn_firstn_comm, skipn_skipn'. reflexivity. Qed.

  Lemma win_head e' : (size <= length x)%nat ->
    firstn (length (win 0) - e') (win 0) = firstn (size - e') x.
  Proof.
    intros H. rewrite win_length by (cbn; lia). unfold win. cbn [Nat.mul skipn].
    rewrite firstn_firstn. f_equal. lia.
  Qed.

  (* the kept parts of consecutive middle chunks tile a contiguous stretch *)
  Lemma mid_concat s a m :
    concat (map (fun k => firstn step (skipn (k * step + s) x)) (seq a m))
    = firstn (m * step) (skipn (a * step + s) x).
  Proof.
    revert a; induction m as [|m IH]; intros a; [reflexivity|].
    cbn [seq map concat]. rewrite IH.
    replace (S a * step + s)%nat with ((a * step + s) + step)%nat by lia.
    rewrite <- (skipn_skipn' step (a * step + s)%nat x). rewrite firstn_app_skipn. f_equal.
  Qed.

  Lemma windows_eq : windows size step x = map win (seq 0 ((length x - size) / step + 1)).
  Proof. reflexivity. Qed.

  Lemma count_bound : (size <= length x)%nat ->
    ((length x - size) / step * step + size <= length x)%nat.
  Proof.
    intros H. pose proof (Nat.mul_div_le (length x - size) step ltac:(lia)). lia.
  Qed.

  Lemma bound_mono k n : (k <= n)%nat -> (n * step + size <= length x)%nat ->
    (k * step + size <= length x)%nat.
  Proof. intros Hk H. pose proof (Nat.mul_le_mono_r k n step Hk). lia. Qed.

  (* all three reassembly paths (and the overlap = 0 path) give the covered prefix *)
  Lemma join_windows ov : size = (step + ov)%nat -> (size <= length x)%nat ->
    join_gen false ov (windows size step x)
    = Ok (firstn ((length x - size) / step * step + size) x).
  Proof.
    intros E HL. pose proof (count_bound HL) as Hb. rewrite windows_eq.
    remember ((length x - size) / step)%nat as n eqn:En. clear En.
    unfold join_gen. destruct (Nat.ltb_spec 0 ov) as [Hov|Hov].
    - set (s := (ov / 2)%nat). set (e' := (ov - s)%nat).
      assert (Hse : (s + e' = ov)%nat) by (subst s e'; lia).
      assert (He : (1 <= e')%nat) by (subst s e'; lia).
      destruct n as [|[|m]].
      + (* one chunk, returned whole *)
        cbn [Nat.add seq map]. unfold win. cbn [Nat.mul skipn Nat.add]. reflexivity.
      + (* two chunks *)
        cbn [Nat.add seq map]. rewrite win_head by exact HL. rewrite win_tail.
        f_equal. replace (size - e')%nat with (1 * step + s)%nat by lia.
        rewrite firstn_app_skipn. f_equal. lia.
      + (* three or more *)
        replace (S (S m) + 1)%nat with (S (S (S m))) by lia.
        change (seq 0 (S (S (S m)))) with (0%nat :: seq 1 (S (S m))).
        rewrite (seq_S (S m) 1). cbn [map]. rewrite map_app. cbn [map].
        assert (Hj : forall (c0 : dna) (mid : list dna) (cl : dna), (1 <= length mid)%nat ->
                   match c0 :: mid ++ [cl] with
                   | [] => Err
                   | [c] => Ok c
                   | [c0'; c1] => Ok (firstn (length c0' - e') c0' ++ skipn s c1)
                   | c0' :: rest => Ok (firstn (length c0' - e') c0'
                                          ++ concat (map (slice_se s e') (removelast rest))
                                          ++ skipn s (last rest []))
                   end
                   = Ok (firstn (length c0 - e') c0 ++ concat (map (slice_se s e') mid) ++ skipn s cl)).
        { intros c0 mid cl Hm. destruct mid as [|c1 [|c2 mid]]; [cbn in Hm; lia | reflexivity |].
          cbn [app].
          change (c1 :: c2 :: mid ++ [cl]) with ((c1 :: c2 :: mid) ++ [cl]).
          rewrite removelast_last, last_last. reflexivity. }
        rewrite Hj by (rewrite map_length, seq_length; lia). clear Hj.
        rewrite win_head by exact HL. rewrite win_tail.
        rewrite map_map.
        rewrite (map_ext_in (fun k => slice_se s e' (win k))
                            (fun k => firstn step (skipn (k * step + s) x))).
        2:{ intros k Hk. apply in_seq in Hk. apply win_mid; [|lia].
            apply (bound_mono k (S (S m))); [lia | exact Hb]. }
        rewrite mid_concat. f_equal.
        replace (size - e')%nat with (1 * step + s)%nat by lia.
        rewrite app_assoc, firstn_app_skipn.
        replace (1 * step + s + S m * step)%nat with ((1 + S m) * step + s)%nat by lia.
        rewrite firstn_app_skipn. f_equal. lia.
    - (* overlap = 0: plain concatenation *)
      assert (ov = 0)%nat by lia. subst ov.
      replace (n + 1)%nat with (S n) by lia.
      change (seq 0 (S n)) with (0%nat :: seq 1 n). cbn [map].
      change (win 0 :: map win (seq 1 n)) with (map win (seq 0 (S n))).
      f_equal.
      rewrite (map_ext_in win (fun k => firstn step (skipn (k * step + 0) x))).
      2:{ intros k Hk. unfold win. f_equal; [lia | f_equal; lia]. }
      rewrite mid_concat. cbn [Nat.mul Nat.add skipn]. f_equal. lia.
  Qed.

  Lemma windows_length : length (windows size step x) = ((length x - size) / step + 1)%nat.
  Proof. unfold windows. rewrite map_length, seq_length. reflexivity. Qed.
End Windows.

Lemma skipn_app_exact {T} (P Y : list T) : skipn (length P) (P ++ Y) = Y.
Proof. rewrite skipn_app, skipn_all, Nat.sub_diag. reflexivity. Qed.

Lemma firstn_app_exact {T} (P Y : list T) : firstn (length P) (P ++ Y) = P.
Proof. rewrite firstn_app, firstn_all, Nat.sub_diag, firstn_O. apply app_nil_r. Qed.

Section ChunkUnchunk.
  Variables (sz st ov : nat).
  Hypothesis Hst : (1 <= st)%nat.
  Hypothesis Hsz : sz = (st + ov)%nat.

  Definition cov (x : dna) : nat := ((length x - sz) / st * st + sz)%nat.
  Definition cnt (x : dna) : Z := Z.of_nat ((length x - sz) / st + 1).

  Lemma loop_windows xs : (forall x, In x xs -> (sz <= length x)%nat) ->
    forall P, unchunk_loop false ov (P ++ concat (map (windows sz st) xs)) (length P) (map cnt xs)
              = Ok (map (fun x => firstn (cov x) x) xs).
  Proof.
    induction xs as [|x xs IH]; intros Hx P; [reflexivity|].
    cbn [map concat unchunk_loop].
    assert (En : Z.to_nat (cnt x) = length (windows sz st x)).
    { unfold cnt. rewrite Nat2Z.id, windows_length. reflexivity. }
    rewrite En, skipn_app_exact, firstn_app_exact.
    rewrite (join_windows sz st x Hst ov Hsz) by (apply Hx; left; reflexivity).
    cbn [bind]. rewrite <- app_length, app_assoc.
    rewrite IH by (intros; apply Hx; right; assumption). reflexivity.
  Qed.

  Lemma chunk_point_cov x : (sz <= length x)%nat -> chunk_point sz st x (firstn (cov x) x) = true.
  Proof.
    intros HL. unfold chunk_point. apply forallb_forall. intros k _.
    destruct (Nat.leb_spec (k * st + sz) (length x)) as [Hk|Hk]; [|reflexivity].
    apply forallb_seq. intros j Hj. cbv zeta.
    assert (Hkn : (k <= (length x - sz) / st)%nat).
    { apply Nat.div_le_lower_bound; [lia|]. rewrite Nat.mul_comm. lia. }
    pose proof (Nat.mul_le_mono_r _ _ st Hkn) as Hm.
    pose proof (count_bound sz st x Hst HL) as Hb.
    assert (Hp : (k * st + j < cov x)%nat) by (unfold cov; lia).
    rewrite firstn_length. apply andb_true_iff. split.
    - apply Nat.ltb_lt. unfold cov in *. lia.
    - rewrite nth_firstn by exact Hp. apply col_eqb_refl.
  Qed.
End ChunkUnchunk.

Lemma chunk_char size overlap xs :
  1 <= size -> 0 <= overlap < size -> xs <> [] ->
  (forall x, In x xs -> (Z.to_nat size <= length x)%nat) ->
  chunk size overlap xs
  = Ok (concat (map (windows (Z.to_nat size) (Z.to_nat (size - overlap))) xs)).
Proof.
  intros Hs Ho Hne Hx. unfold chunk.
  destruct (Z.ltb_spec 0 size); [|lia]. destruct (Z.leb_spec 0 overlap); [|lia].
  destruct xs as [|x0 xs']; [congruence|]. cbn [length Nat.eqb negb guard bind].
  destruct (Z.ltb_spec 0 (size - overlap)); [|lia]. cbn [guard bind].
  replace (forallb (fun x => size <=? Z.of_nat (length x)) (x0 :: xs')) with true; [reflexivity|].
  symmetry. apply forallb_forall. intros x Hin. specialize (Hx x Hin). lia.
Qed.

Lemma unchunk_chunk_exact size overlap xs :
  1 <= size -> 0 <= overlap < size -> xs <> [] ->
  (forall x, In x xs -> (Z.to_nat size <= length x)%nat) ->
  unchunk (concat (map (windows (Z.to_nat size) (Z.to_nat (size - overlap))) xs))
          (map (fun x => Z.of_nat (length x)) xs) overlap
  = Ok (map (fun x => firstn (cov (Z.to_nat size) (Z.to_nat (size - overlap)) x) x) xs).
Proof.
  intros Hs Ho Hne Hx.
  set (sz := Z.to_nat size). set (st := Z.to_nat (size - overlap)). set (ov := Z.to_nat overlap).
  assert (Hst : (1 <= st)%nat) by (subst st; lia).
  assert (Hsz : sz = (st + ov)%nat) by (subst sz st ov; lia).
  unfold unchunk, unchunk_gen.
  (* X.shape[-1] is the chunk size *)
  assert (Ehd : Z.of_nat (length (hd [] (concat (map (windows sz st) xs)))) = size).
  { destruct xs as [|x0 xs']; [congruence|]. cbn [map concat].
    unfold windows at 1. replace ((length x0 - sz) / st + 1)%nat with (S ((length x0 - sz) / st)) by lia.
    cbn [seq map app hd]. cbn [Nat.mul skipn].
    rewrite firstn_length. specialize (Hx x0 (or_introl eq_refl)). fold sz in Hx. subst sz. lia. }
  rewrite Ehd.
  replace (forallb (fun l => 0 <=? l) (map (fun x => Z.of_nat (length x)) xs)) with true.
  2:{ symmetry. apply forallb_forall. intros l Hl. apply in_map_iff in Hl as [x [<- _]]. lia. }
  cbn [guard bind]. destruct (Z.eqb_spec (size - overlap) 0); [lia|]. cbn [negb guard bind].
  rewrite map_map.
  rewrite (map_ext_in (fun x => (Z.of_nat (length x) - size) / (size - overlap) + 1) (cnt sz st)).
  2:{ intros x Hin. specialize (Hx x Hin). fold sz in Hx. unfold cnt.
      rewrite Nat2Z.inj_add, Nat2Z.inj_div, Nat2Z.inj_sub by exact Hx.
      subst sz st. rewrite !Z2Nat.id by lia. reflexivity. }
  replace (forallb (fun n => 1 <=? n) (map (cnt sz st) xs)) with true.
  2:{ symmetry. apply forallb_forall. intros cn Hcn. apply in_map_iff in Hcn as [x [<- _]].
      unfold cnt. generalize ((length x - sz) / st)%nat. intros; lia. }
  cbn [guard bind].
  apply (loop_windows sz st ov Hst Hsz xs Hx []).
Qed.

Lemma chunk_spec size overlap xs :
  spec_ok (CChunk size overlap xs) (model (CChunk size overlap xs)) = true.
Proof.
  cbn [spec_ok].
  destruct ((1 <=? size) && (0 <=? overlap) && (overlap <? size) && (1 <=? length xs)%nat
            && forallb (fun x => size <=? Z.of_nat (length x)) xs) eqn:Hin; [|reflexivity].
  repeat (apply andb_true_iff in Hin as [Hin ?]).
  assert (Hs : 1 <= size) by lia. assert (Ho : 0 <= overlap < size) by lia.
  assert (Hne : xs <> []) by (destruct xs; [cbn in *; lia | discriminate]).
  assert (Hx : forall x, In x xs -> (Z.to_nat size <= length x)%nat).
  { intros x Hxin. rewrite forallb_forall in H. specialize (H x Hxin). lia. }
  unfold model, model_gen. rewrite (chunk_char size overlap xs Hs Ho Hne Hx).
  cbn [stage bind]. fold unchunk.
  rewrite (unchunk_chunk_exact size overlap xs Hs Ho Hne Hx). cbn [stage].
  unfold all_seqs. rewrite map_length, Nat.eqb_refl. cbn [andb].
  apply forallb_seq. intros i Hi.
  set (g := fun x : dna => firstn (cov (Z.to_nat size) (Z.to_nat (size - overlap)) x) x).
  rewrite (nth_indep (map g xs) [] (g [])) by (rewrite map_length; exact Hi).
  rewrite map_nth. subst g. cbv beta.
  apply chunk_point_cov with (ov := Z.to_nat overlap); [lia | lia |]. apply Hx. apply nth_In. exact Hi.
Qed.

(* ====================================================================================== *)
(* the byte table of one_hot_encode                                                       *)

Lemma upd_length i v t : length (upd i v t) = length t.
Proof. revert i; induction t as [|x xs IH]; intros [|i]; cbn; auto. Qed.

Lemma nth_upd i v t j d :
  nth j (upd i v t) d = if (j =? i)%nat && (i <? length t)%nat then v else nth j t d.
Proof.
  revert i j; induction t as [|x xs IH]; intros i j.
  - cbn [upd length]. replace (i <? 0)%nat with false by (symmetry; apply Nat.ltb_ge; lia).
    rewrite andb_false_r. reflexivity.
  - destruct i as [|i], j as [|j]; cbn [upd nth length]; try reflexivity.
    rewrite IH. reflexivity.
Qed.

Lemma ascii_bound c : is_ascii c = true -> 1 <= c < 128.
Proof. unfold is_ascii. lia. Qed.

Lemma mem_spec c l : mem c l = true <-> In c l.
Proof.
  unfold mem. rewrite existsb_exists. split.
  - intros [x [Hx E]]. apply Z.eqb_eq in E. subst. exact Hx.
  - intros H. exists c. split; [exact H | apply Z.eqb_refl].
Qed.

Lemma mem_false c l : mem c l = false <-> ~ In c l.
Proof. rewrite <- mem_spec. destruct (mem c l); split; congruence. Qed.

Lemma index_of_none c l : index_of c l = None <-> ~ In c l.
Proof.
  induction l as [|x xs IH]; cbn; [tauto|].
  destruct (Z.eqb_spec x c) as [->|Hne].
  - split; [discriminate | intros H; exfalso; apply H; left; reflexivity].
  - destruct (index_of c xs) eqn:E; cbn.
    + split; [discriminate|]. intros H. exfalso.
      assert (Hn : ~ In c xs) by tauto. apply IH in Hn. discriminate.
    + split; [|reflexivity]. intros _ [H|H]; [congruence|]. destruct IH as [IH _]. apply (IH eq_refl H).
Qed.

Lemma index_of_some c l k : index_of c l = Some k -> (k < length l)%nat /\ nth k l 0 = c.
Proof.
  revert k; induction l as [|x xs IH]; intros k; cbn; [discriminate|].
  destruct (Z.eqb_spec x c) as [->|Hne].
  - intros E; injection E as <-. split; [lia | reflexivity].
  - destruct (index_of c xs) as [j|]; cbn; [|discriminate].
    intros E; injection E as <-. destruct (IH j eq_refl). split; [lia | assumption].
Qed.

Lemma nodupb_spec l : nodupb l = true <-> NoDup l.
Proof.
  induction l as [|x xs IH]; cbn; [split; [constructor | reflexivity]|].
  rewrite andb_true_iff, negb_true_iff, mem_false, IH. split.
  - intros [H1 H2]. constructor; assumption.
  - intros H. inversion H. split; assumption.
Qed.

Lemma index_of_nth l k : NoDup l -> (k < length l)%nat -> index_of (nth k l 0) l = Some k.
Proof.
  revert k; induction l as [|x xs IH]; intros k Hnd Hk; [cbn in Hk; lia|].
  inversion Hnd as [|? ? Hnotin Hnd']; subst. destruct k as [|k]; cbn [nth index_of].
  - rewrite Z.eqb_refl. reflexivity.
  - destruct (Z.eqb_spec x (nth k xs 0)) as [E|_].
    + exfalso. apply Hnotin. rewrite E. apply nth_In. cbn in Hk. lia.
    + rewrite IH by (cbn in Hk; auto; lia). reflexivity.
Qed.

Lemma fill_alpha_length alpha : forall i t, length (fill_alpha i alpha t) = length t.
Proof. induction alpha as [|a al IH]; intros i t; cbn; [reflexivity|]. rewrite IH. apply upd_length. Qed.

Lemma fill_ign_length ign : forall t, length (fill_ign ign t) = length t.
Proof. induction ign as [|a al IH]; intros t; cbn; [reflexivity|]. rewrite IH. apply upd_length. Qed.

Lemma fill_alpha_nth alpha : NoDup alpha -> forallb is_ascii alpha = true ->
  forall i t c, length t = 256%nat -> is_ascii c = true ->
  nth (Z.to_nat c) (fill_alpha i alpha t) (-2)
  = match index_of c alpha with Some k => i + Z.of_nat k | None => nth (Z.to_nat c) t (-2) end.
Proof.
  induction alpha as [|a al IH]; intros Hnd Hasc i t c Ht Hc; [reflexivity|].
  inversion Hnd as [|? ? Hnotin Hnd']; subst. cbn [forallb] in Hasc.
  apply andb_true_iff in Hasc as [Ha Hal].
  pose proof (ascii_bound _ Ha). pose proof (ascii_bound _ Hc).
  cbn [fill_alpha index_of]. rewrite IH by (auto; rewrite upd_length; exact Ht).
  rewrite nth_upd, Ht.
  destruct (Z.eqb_spec a c) as [->|Hne].
  - replace (index_of c al) with (@None nat) by (symmetry; apply index_of_none; exact Hnotin).
    rewrite Nat.eqb_refl. replace (Z.to_nat c <? 256)%nat with true by (symmetry; apply Nat.ltb_lt; lia).
    cbn. lia.
  - destruct (index_of c al) as [k|]; cbn [option_map]; [lia|].
    replace (Z.to_nat c =? Z.to_nat a)%nat with false by (symmetry; apply Nat.eqb_neq; lia).
    reflexivity.
Qed.

Lemma fill_ign_nth ign : forallb is_ascii ign = true ->
  forall t c, length t = 256%nat -> is_ascii c = true ->
  nth (Z.to_nat c) (fill_ign ign t) (-2) = if mem c ign then -1 else nth (Z.to_nat c) t (-2).
Proof.
  induction ign as [|a al IH]; intros Hasc t c Ht Hc; [reflexivity|].
  cbn [forallb] in Hasc. apply andb_true_iff in Hasc as [Ha Hal].
  pose proof (ascii_bound _ Ha). pose proof (ascii_bound _ Hc).
  cbn [fill_ign]. rewrite IH by (auto; rewrite upd_length; exact Ht).
  unfold mem. cbn [existsb]. fold (mem c al).
  destruct (mem c al); [rewrite orb_true_r; reflexivity|]. rewrite orb_false_r.
  rewrite nth_upd, Ht.
  destruct (Z.eqb_spec c a) as [->|Hne].
  - rewrite Nat.eqb_refl. replace (Z.to_nat a <? 256)%nat with true by (symmetry; apply Nat.ltb_lt; lia).
    reflexivity.
  - replace (Z.to_nat c =? Z.to_nat a)%nat with false by (symmetry; apply Nat.eqb_neq; lia).
    reflexivity.
Qed.

Lemma table_lookup alpha ign c :
  NoDup alpha -> forallb is_ascii alpha = true -> forallb is_ascii ign = true -> is_ascii c = true ->
  nth (Z.to_nat c) (ohe_table alpha ign) (-2)
  = if mem c ign then -1
    else match index_of c alpha with Some k => Z.of_nat k | None => -2 end.
Proof.
  intros Hnd Ha Hi Hc. unfold ohe_table.
  rewrite fill_ign_nth by (auto; rewrite fill_alpha_length; apply repeat_length).
  destruct (mem c ign); [reflexivity|].
  rewrite fill_alpha_nth by (auto; apply repeat_length).
  destruct (index_of c alpha); [lia|].
  unfold table0. apply nth_repeat.
Qed.

(* ====================================================================================== *)
(* one-hot and all-zero columns                                                           *)

Definition onehot (A k : nat) : col := upd k 1 (repeat 0 A).

Lemma onehot_length A k : length (onehot A k) = A.
Proof. unfold onehot. rewrite upd_length. apply repeat_length. Qed.

Lemma nth_onehot A k i d : (i < A)%nat -> (k < A)%nat ->
  nth i (onehot A k) d = if (i =? k)%nat then 1 else 0.
Proof.
  intros Hi Hk. unfold onehot. rewrite nth_upd, repeat_length.
  replace (k <? A)%nat with true by (symmetry; apply Nat.ltb_lt; lia). rewrite andb_true_r.
  destruct (i =? k)%nat; [reflexivity|].
  rewrite nth_indep with (d' := 0) by (rewrite repeat_length; lia). apply nth_repeat.
Qed.

Lemma nth_zeros A i d : (i < A)%nat -> nth i (repeat 0 A) d = 0.
Proof. intros Hi. rewrite nth_indep with (d' := 0) by (rewrite repeat_length; lia). apply nth_repeat. Qed.

Lemma onehot_O A : onehot (S A) 0 = 1 :: repeat 0 A.
Proof. reflexivity. Qed.
Lemma onehot_S A k : onehot (S A) (S k) = 0 :: onehot A k.
Proof. reflexivity. Qed.

Lemma zeros_facts A : col_sum (repeat 0 A) = 0 /\ count 1 (repeat 0 A) = 0%nat
                      /\ forall d, 0 <= d -> fold_right Z.max d (repeat 0 A) = d.
Proof.
  induction A as [|A (IH1 & IH2 & IH3)]; cbn; [auto|].
  unfold col_sum in IH1. unfold count in IH2. rewrite IH1, IH2. repeat split; auto.
  intros d Hd. rewrite IH3 by exact Hd. lia.
Qed.

Lemma onehot_facts k : forall A, (k < A)%nat ->
  col_sum (onehot A k) = 1 /\ count 1 (onehot A k) = 1%nat /\ find_idx 1 (onehot A k) = k
  /\ forall d, 0 <= d <= 1 -> fold_right Z.max d (onehot A k) = 1.
Proof.
  induction k as [|k IH]; intros [|A] Hk; try lia.
  - rewrite onehot_O. destruct (zeros_facts A) as (Z1 & Z2 & Z3).
    cbn. unfold col_sum in Z1. unfold count in Z2. rewrite Z1, Z2. repeat split; auto.
    intros d Hd. rewrite Z3 by lia. lia.
  - rewrite onehot_S. destruct (IH A ltac:(lia)) as (I1 & I2 & I3 & I4).
    cbn. unfold col_sum in I1. unfold count in I2. rewrite I1, I2, I3. repeat split; auto.
    intros d Hd. rewrite I4 by exact Hd. lia.
Qed.

Lemma onehot_max A k : (k < A)%nat -> maxZ (onehot A k) = 1.
Proof.
  intros Hk. unfold maxZ. apply (onehot_facts k A Hk).
  destruct A as [|A]; [lia|]. destruct k; [rewrite onehot_O | rewrite onehot_S]; cbn; lia.
Qed.

Lemma onehot_argmax A k : (k < A)%nat -> argmax (onehot A k) = k.
Proof. intros Hk. unfold argmax. rewrite onehot_max by exact Hk. apply (onehot_facts k A Hk). Qed.

Lemma onehot_count A k : (k < A)%nat -> count (maxZ (onehot A k)) (onehot A k) = 1%nat.
Proof. intros Hk. rewrite onehot_max by exact Hk. apply (onehot_facts k A Hk). Qed.

(* a column of A entries in {0,1} that sums to 0 / to 1 is the zero / a one-hot column *)
Lemma col01_nonneg c : forallb (fun v => (v =? 0) || (v =? 1)) c = true -> 0 <= col_sum c.
Proof.
  induction c as [|v c IH]; cbn; [lia|]. intros H. apply andb_true_iff in H as [Hv Hc].
  specialize (IH Hc). unfold col_sum in IH. lia.
Qed.

Lemma col01_zero c : forallb (fun v => (v =? 0) || (v =? 1)) c = true -> col_sum c = 0 ->
  c = repeat 0 (length c).
Proof.
  induction c as [|v c IH]; cbn; [reflexivity|]. intros H Hs.
  apply andb_true_iff in H as [Hv Hc]. pose proof (col01_nonneg c Hc) as Hn.
  unfold col_sum in *. assert (v = 0) by lia. subst v. f_equal. apply IH; [exact Hc | lia].
Qed.

Lemma col01_one c : forallb (fun v => (v =? 0) || (v =? 1)) c = true -> col_sum c = 1 ->
  exists k, (k < length c)%nat /\ c = onehot (length c) k.
Proof.
  induction c as [|v c IH]; cbn [length forallb col_sum fold_right]; [lia|]. intros H Hs.
  apply andb_true_iff in H as [Hv Hc]. pose proof (col01_nonneg c Hc) as Hn.
  unfold col_sum in *.
  destruct (Z.eqb_spec v 1) as [->|Hv1].
  - exists 0%nat. split; [lia|]. rewrite onehot_O. f_equal. apply col01_zero; [exact Hc | unfold col_sum; lia].
  - assert (v = 0) by lia. subst v. destruct (IH Hc ltac:(lia)) as (k & Hk & E).
    exists (S k). split; [lia|]. rewrite onehot_S. f_equal. exact E.
Qed.

(* ====================================================================================== *)
(* one_hot_encode / characters                                                            *)

Lemma existsb_false {T} (f : T -> bool) l : existsb f l = false <-> forall x, In x l -> f x = false.
Proof.
  induction l as [|a l IH]; cbn; [split; [intros _ x [] | reflexivity]|].
  rewrite orb_false_iff, IH. split.
  - intros [Ha Hl] x [<-|Hx]; auto.
  - intros H. split; [apply H; left; reflexivity | intros x Hx; apply H; right; exact Hx].
Qed.

Lemma nth_map_lt {A B} (f : A -> B) l q da db : (q < length l)%nat -> nth q (map f l) db = f (nth q l da).
Proof.
  intros Hq. rewrite nth_indep with (d' := f da) by (rewrite map_length; exact Hq). apply map_nth.
Qed.

Record ascope (alpha ign : list Z) : Prop := {
  as_alpha : forallb is_ascii alpha = true;
  as_ign : forallb is_ascii ign = true;
  as_nodup : NoDup alpha;
  as_len : (1 <= length alpha)%nat;
  as_guard : existsb (fun c => mem c alpha) ign = false;
  as_disj : forall c, In c ign -> ~ In c alpha }.

Lemma alpha_scope_facts alpha ign : alpha_scope alpha ign = true -> ascope alpha ign.
Proof.
  unfold alpha_scope. intros H. repeat (apply andb_true_iff in H as [H ?]).
  rewrite forallb_app in H. apply andb_true_iff in H as [Ha Hi].
  apply negb_true_iff in H0.
  constructor; auto.
  - apply nodupb_spec. assumption.
  - apply Nat.leb_le. assumption.
  - intros c Hc. rewrite existsb_false in H0. specialize (H0 c Hc). apply mem_false. exact H0.
Qed.

(* the column a letter is encoded to *)
Definition colf (alpha ign : list Z) (c : Z) : col :=
  if mem c ign then repeat 0 (length alpha)
  else match index_of c alpha with Some k => onehot (length alpha) k | None => [] end.

Lemma ohe_col_letter alpha ign c : ascope alpha ign -> is_ascii c = true ->
  (mem c alpha || mem c ign) = true ->
  ohe_col (length alpha) (nth (Z.to_nat c) (ohe_table alpha ign) (-2)) = Ok (colf alpha ign c).
Proof.
  intros S Hc Hin. rewrite table_lookup by (auto; apply S). unfold colf.
  destruct (mem c ign) eqn:Ei; [reflexivity|]. rewrite orb_false_r in Hin.
  destruct (index_of c alpha) as [k|] eqn:Ek.
  - unfold ohe_col.
    destruct (Z.eqb_spec (Z.of_nat k) (-1)); [lia|]. destruct (Z.eqb_spec (Z.of_nat k) (-2)); [lia|].
    rewrite Nat2Z.id. reflexivity.
  - apply index_of_none in Ek. apply mem_spec in Hin. contradiction.
Qed.

Lemma ohe_col_outside alpha ign c : ascope alpha ign -> is_ascii c = true ->
  (mem c alpha || mem c ign) = false ->
  ohe_col (length alpha) (nth (Z.to_nat c) (ohe_table alpha ign) (-2)) = Err.
Proof.
  intros S Hc Hin. rewrite table_lookup by (auto; apply S).
  apply orb_false_iff in Hin as [Ha Hi]. rewrite Hi.
  replace (index_of c alpha) with (@None nat); [reflexivity|].
  symmetry. apply index_of_none. apply mem_false. exact Ha.
Qed.

Lemma ohe_guards alpha ign s : ascope alpha ign -> forallb is_ascii s = true ->
  one_hot_encode alpha ign s
  = mapM (fun c => ohe_col (length alpha) (nth (Z.to_nat c) (ohe_table alpha ign) (-2))) s.
Proof.
  intros S Hs. unfold one_hot_encode. rewrite (as_guard _ _ S). cbn [negb guard bind].
  rewrite !forallb_app, (as_alpha _ _ S), (as_ign _ _ S), Hs. reflexivity.
Qed.

Lemma ohe_ok alpha ign s : ascope alpha ign -> forallb is_ascii s = true ->
  forallb (fun ch => mem ch alpha || mem ch ign) s = true ->
  one_hot_encode alpha ign s = Ok (map (colf alpha ign) s).
Proof.
  intros S Hs Hin. rewrite ohe_guards by assumption. apply mapM_ok. intros c Hc.
  rewrite forallb_forall in Hs, Hin. apply ohe_col_letter; auto.
Qed.

Lemma ohe_reject alpha ign s : ascope alpha ign -> forallb is_ascii s = true ->
  forallb (fun ch => mem ch alpha || mem ch ign) s = false ->
  one_hot_encode alpha ign s = Err.
Proof.
  intros S Hs Hin. rewrite ohe_guards by assumption.
  assert (exists c, In c s /\ (mem c alpha || mem c ign) = false) as (c & Hc & Ec).
  { clear Hs. induction s as [|a s IH]; cbn in Hin; [discriminate|].
    destruct (mem a alpha || mem a ign) eqn:Ea.
    - destruct (IH Hin) as (c & Hc & Ec). exists c. split; [right; exact Hc | exact Ec].
    - exists a. split; [left; reflexivity | exact Ea]. }
  rewrite forallb_forall in Hs. apply (mapM_err _ s c Hc). apply ohe_col_outside; auto.
Qed.

Lemma colf_length alpha ign c : (mem c alpha || mem c ign) = true ->
  length (colf alpha ign c) = length alpha.
Proof.
  intros Hin. unfold colf. destruct (mem c ign) eqn:Ei; [apply repeat_length|].
  rewrite orb_false_r in Hin. destruct (index_of c alpha) eqn:Ek; [apply onehot_length|].
  apply index_of_none in Ek. apply mem_spec in Hin. contradiction.
Qed.

Lemma colf_entry alpha ign c i : ascope alpha ign -> (mem c alpha || mem c ign) = true ->
  (i < length alpha)%nat ->
  nth i (colf alpha ign c) 7 = if nth i alpha 0 =? c then 1 else 0.
Proof.
  intros S Hin Hi. unfold colf. destruct (mem c ign) eqn:Ei.
  - rewrite nth_zeros by exact Hi. apply mem_spec in Ei.
    destruct (Z.eqb_spec (nth i alpha 0) c) as [E|_]; [|reflexivity].
    exfalso. apply (as_disj _ _ S c Ei). rewrite <- E. apply nth_In. exact Hi.
  - rewrite orb_false_r in Hin. destruct (index_of c alpha) as [k|] eqn:Ek.
    + destruct (index_of_some _ _ _ Ek) as [Hk Enk]. rewrite nth_onehot by assumption.
      destruct (Nat.eqb_spec i k) as [->|Hne].
      * rewrite Enk, Z.eqb_refl. reflexivity.
      * destruct (Z.eqb_spec (nth i alpha 0) c) as [E|_]; [|reflexivity].
        exfalso. apply Hne. pose proof (as_nodup _ _ S) as Hnd.
        rewrite (NoDup_nth alpha 0) in Hnd. apply Hnd; auto. congruence.
    + apply index_of_none in Ek. apply mem_spec in Hin. contradiction.
Qed.

Lemma enc_point_colf alpha ign s : ascope alpha ign ->
  forallb (fun ch => mem ch alpha || mem ch ign) s = true ->
  enc_point alpha s (map (colf alpha ign) s) = true.
Proof.
  intros S Hin. unfold enc_point. rewrite map_length, Nat.eqb_refl. cbn [andb].
  apply forallb_seq. intros q Hq. cbv zeta.
  rewrite (nth_map_lt (colf alpha ign) s q 0) by exact Hq.
  rewrite forallb_forall in Hin. specialize (Hin (nth q s 0) (nth_In _ _ Hq)).
  rewrite colf_length by exact Hin. rewrite Nat.eqb_refl. cbn [andb].
  apply forallb_seq. intros i Hi. apply Z.eqb_eq. apply colf_entry; assumption.
Qed.

Lemma decode_colf alpha ign allowN c : ascope alpha ign -> (mem c alpha || mem c ign) = true ->
  (mem c ign = true -> allowN = true) ->
  decode_col alpha allowN (colf alpha ign c) = if mem c ign then charN else c.
Proof.
  intros S Hin HN. unfold decode_col, colf. destruct (mem c ign) eqn:Ei.
  - rewrite (HN eq_refl). destruct (zeros_facts (length alpha)) as (Z1 & _). rewrite Z1. reflexivity.
  - rewrite orb_false_r in Hin. destruct (index_of c alpha) as [k|] eqn:Ek.
    + destruct (index_of_some _ _ _ Ek) as [Hk Enk].
      destruct (onehot_facts k (length alpha) Hk) as (O1 & _). rewrite O1.
      rewrite andb_false_r. rewrite onehot_argmax by exact Hk. exact Enk.
    + apply index_of_none in Ek. apply mem_spec in Hin. contradiction.
Qed.

Lemma colf_no_tie alpha ign c : (mem c alpha || mem c ign) = true -> mem c ign = false ->
  (1 <? count (maxZ (colf alpha ign c)) (colf alpha ign c))%nat = false.
Proof.
  intros Hin Ei. unfold colf. rewrite Ei. rewrite Ei, orb_false_r in Hin.
  destruct (index_of c alpha) as [k|] eqn:Ek.
  - destruct (index_of_some _ _ _ Ek) as [Hk _]. rewrite onehot_count by exact Hk. reflexivity.
  - apply index_of_none in Ek. apply mem_spec in Hin. contradiction.
Qed.

Lemma tie_guard {T} (f : T -> bool) X force allowN :
  (allowN = false -> existsb f X = false) -> (existsb f X && negb force && negb allowN) = false.
Proof. destruct allowN; intros H; [apply andb_false_r|]. rewrite (H eq_refl). reflexivity. Qed.

Lemma characters_ok alpha force allowN X :
  forallb (fun c => (length c =? length alpha)%nat) X = true -> (1 <= length alpha)%nat ->
  (existsb (fun c => (1 <? count (maxZ c) c)%nat) X && negb force && negb allowN) = false ->
  characters alpha force allowN X = Ok (map (decode_col alpha allowN) X).
Proof.
  intros Hl HA Ht. unfold characters, characters_gen. rewrite Hl. cbn [guard bind].
  destruct (Nat.eqb_spec (length alpha) 0); [lia|]. cbn [negb guard bind andb].
  rewrite Ht. reflexivity.
Qed.

Lemma round_spec alpha ign s force allowN :
  spec_ok (CRound alpha ign s force allowN) (model (CRound alpha ign s force allowN)) = true.
Proof.
  cbn [spec_ok].
  destruct (alpha_scope alpha ign && forallb is_ascii s) eqn:Hsc; [|reflexivity].
  apply andb_true_iff in Hsc as [Hsc Hs]. apply alpha_scope_facts in Hsc as S.
  unfold model, model_gen.
  destruct (forallb (fun ch => mem ch alpha || mem ch ign) s) eqn:Hin.
  - rewrite (ohe_ok alpha ign s S Hs Hin). cbn [stage bind].
    rewrite (enc_point_colf alpha ign s S Hin). cbn [andb].
    destruct (existsb (fun ch => mem ch ign) s && negb allowN) eqn:Hc; [reflexivity|].
    assert (HN : forall c, In c s -> mem c ign = true -> allowN = true).
    { intros c Hcs Hci. apply andb_false_iff in Hc as [Hc|Hc].
      - rewrite existsb_false in Hc. rewrite (Hc c Hcs) in Hci. discriminate.
      - destruct allowN; [reflexivity | discriminate]. }
    pose proof Hin as Hin'. rewrite forallb_forall in Hin'.
    fold characters. rewrite characters_ok.
    + cbn [stage]. unfold dec_point. rewrite !map_length, Nat.eqb_refl. cbn [andb].
      apply forallb_seq. intros q Hq. apply Z.eqb_eq.
      rewrite (nth_map_lt (decode_col alpha allowN) _ q []) by (rewrite map_length; exact Hq).
      rewrite (nth_map_lt (colf alpha ign) s q 0) by exact Hq.
      apply decode_colf; [exact S | apply Hin'; apply nth_In; exact Hq | apply HN; apply nth_In; exact Hq].
    + apply forallb_forall. intros c Hc'. apply in_map_iff in Hc' as (ch & <- & Hch).
      apply Nat.eqb_eq. apply colf_length. auto.
    + apply (as_len _ _ S).
    + apply tie_guard. intros EaN.
      apply existsb_false. intros c Hc'. apply in_map_iff in Hc' as (ch & <- & Hch).
      apply colf_no_tie; auto.
      destruct (mem ch ign) eqn:E; [|reflexivity]. specialize (HN ch Hch E). congruence.
  - rewrite (ohe_reject alpha ign s S Hs Hin). reflexivity.
Qed.

(* ---------- decode then encode ---------- *)

Lemma col_01_cases A c : col_01 A c = true ->
  length c = A /\ ((col_sum c = 1 /\ exists k, (k < A)%nat /\ c = onehot A k)
                   \/ (col_sum c = 0 /\ c = repeat 0 A)).
Proof.
  unfold col_01. intros H. apply andb_true_iff in H as [H Hs]. apply andb_true_iff in H as [Hl H01].
  apply Nat.eqb_eq in Hl. split; [exact Hl|]. subst A.
  apply orb_true_iff in Hs as [Hs|Hs]; apply Z.eqb_eq in Hs.
  - left. split; [exact Hs|]. apply col01_one; assumption.
  - right. split; [exact Hs|]. apply col01_zero; assumption.
Qed.

Lemma back_col alpha ign allowN c : ascope alpha ign -> col_01 (length alpha) c = true ->
  (col_sum c = 1 \/ (allowN = true /\ mem charN ign = true)) ->
  let ch := decode_col alpha allowN c in
  is_ascii ch = true /\ (mem ch alpha || mem ch ign) = true /\ colf alpha ign ch = c.
Proof.
  intros S Hc Hor. destruct (col_01_cases _ _ Hc) as [Hl [[Hs (k & Hk & E)]|[Hs E]]]; cbv zeta.
  - (* one-hot at k: decodes to alpha[k] *)
    unfold decode_col. rewrite Hs. rewrite andb_false_r.
    assert (Ea : argmax c = k) by (rewrite E; apply onehot_argmax; exact Hk). rewrite Ea.
    assert (Hin : In (nth k alpha 0) alpha) by (apply nth_In; exact Hk).
    pose proof (as_alpha _ _ S) as Ha. rewrite forallb_forall in Ha.
    assert (Hni : mem (nth k alpha 0) ign = false).
    { apply mem_false. intros Hi. apply (as_disj _ _ S _ Hi). exact Hin. }
    split; [apply Ha; exact Hin|]. split.
    + apply orb_true_iff. left. apply mem_spec. exact Hin.
    + unfold colf. rewrite Hni. rewrite index_of_nth by (auto; apply S). symmetry. exact E.
  - (* all-zero: decodes to N, which is ignored *)
    destruct Hor as [Hor|[HaN HNi]]; [lia|].
    unfold decode_col. rewrite HaN, Hs. cbn [andb Z.eqb].
    pose proof (as_ign _ _ S) as Hi. rewrite forallb_forall in Hi.
    split; [apply Hi; apply mem_spec; exact HNi|]. split.
    + rewrite HNi. apply orb_true_r.
    + unfold colf. rewrite HNi. symmetry. exact E.
Qed.

Lemma back_spec alpha ign X force allowN :
  spec_ok (CBack alpha ign X force allowN) (model (CBack alpha ign X force allowN)) = true.
Proof.
  cbn [spec_ok].
  destruct (alpha_scope alpha ign && forallb (col_01 (length alpha)) X
            && (forallb (fun c => col_sum c =? 1) X || (allowN && mem charN ign))) eqn:Hsc; [|reflexivity].
  apply andb_true_iff in Hsc as [Hsc Hor]. apply andb_true_iff in Hsc as [Hsc H01].
  apply alpha_scope_facts in Hsc as S.
  rewrite forallb_forall in H01.
  assert (Hcol : forall c, In c X -> col_sum c = 1 \/ (allowN = true /\ mem charN ign = true)).
  { intros c Hc. apply orb_true_iff in Hor as [Hor|Hor].
    - left. rewrite forallb_forall in Hor. apply Z.eqb_eq. apply Hor. exact Hc.
    - right. apply andb_true_iff in Hor. exact Hor. }
  unfold model, model_gen. fold characters.
  rewrite characters_ok.
  - cbn [stage bind].
    rewrite (ohe_ok alpha ign (map (decode_col alpha allowN) X) S).
    + cbn [stage]. rewrite map_map.
      rewrite (map_ext_in _ (fun c => c)).
      * rewrite map_id. apply dna_eqb_refl.
      * intros c Hc. apply (back_col alpha ign allowN c S (H01 c Hc) (Hcol c Hc)).
    + apply forallb_forall. intros ch Hch. apply in_map_iff in Hch as (c & <- & Hc).
      apply (back_col alpha ign allowN c S (H01 c Hc) (Hcol c Hc)).
    + apply forallb_forall. intros ch Hch. apply in_map_iff in Hch as (c & <- & Hc).
      apply (back_col alpha ign allowN c S (H01 c Hc) (Hcol c Hc)).
  - apply forallb_forall. intros c Hc. apply Nat.eqb_eq. apply (col_01_cases _ _ (H01 c Hc)).
  - apply (as_len _ _ S).
  - apply tie_guard. intros EaN.
    apply existsb_false. intros c Hc.
    destruct (Hcol c Hc) as [Hs|[Hf _]]; [|congruence].
    destruct (col_01_cases _ _ (H01 c Hc)) as [_ [[_ (k & Hk & E)]|[Hz _]]]; [|lia].
    rewrite E. rewrite onehot_count by exact Hk. reflexivity.
Qed.

(* ====================================================================================== *)
(* reverse_complement                                                                     *)

Record cscope (m : list (Z * Z)) : Prop := {
  cs_ascii : forallb is_ascii (map fst m) = true;
  cs_nodup : NoDup (map fst m);
  cs_len : (1 <= length m)%nat;
  cs_inv : forall k v, In (k, v) m -> In (v, k) m }.

Lemma cmap_scope_facts m : cmap_scope m = true -> cscope m.
Proof.
  unfold cmap_scope. intros H. repeat (apply andb_true_iff in H as [H ?]).
  constructor; auto.
  - apply nodupb_spec. assumption.
  - apply Nat.leb_le. assumption.
  - intros k v Hkv. rewrite forallb_forall in H0. specialize (H0 (k, v) Hkv).
    apply existsb_exists in H0 as ([k' v'] & Hin & E). cbn [fst snd] in E.
    apply andb_true_iff in E as [E1 E2]. apply Z.eqb_eq in E1, E2. subst. exact Hin.
Qed.

Lemma lookup_some c m v : lookup c m = Some v -> In (c, v) m.
Proof.
  induction m as [|[k0 v0] m IH]; cbn; [discriminate|].
  destruct (Z.eqb_spec k0 c) as [->|_].
  - intros E; injection E as ->. left. reflexivity.
  - intros E. right. apply IH. exact E.
Qed.

Lemma lookup_none c m : lookup c m = None -> ~ In c (map fst m).
Proof.
  induction m as [|[k0 v0] m IH]; cbn; [tauto|].
  destruct (Z.eqb_spec k0 c) as [->|Hne]; [discriminate|].
  intros E [H|H]; [congruence | exact (IH E H)].
Qed.

Lemma lookup_in m k v : NoDup (map fst m) -> In (k, v) m -> lookup k m = Some v.
Proof.
  induction m as [|[k0 v0] m IH]; cbn; [tauto|]. intros Hnd Hin.
  inversion Hnd as [|? ? Hnotin Hnd']; subst.
  destruct (Z.eqb_spec k0 k) as [->|Hne].
  - destruct Hin as [E|Hin]; [congruence|].
    exfalso. apply Hnotin. apply in_map_iff. exists (k, v). split; [reflexivity | exact Hin].
  - destruct Hin as [E|Hin]; [congruence|]. apply IH; assumption.
Qed.

Lemma cmap_fun (m : list (Z * Z)) k a b : NoDup (map fst m) -> In (k, a) m -> In (k, b) m -> a = b.
Proof. intros Hnd Ha Hb. apply (lookup_in m k a Hnd) in Ha. apply (lookup_in m k b Hnd) in Hb. congruence. Qed.

Lemma in_keys (m : list (Z * Z)) k v : In (k, v) m -> In k (map fst m).
Proof. intros H. apply in_map_iff. exists (k, v). split; [reflexivity | exact H]. Qed.

Definition comp (m : list (Z * Z)) (c : Z) : Z := match lookup c m with Some v => v | None => c end.

(* the letters reverse_complement accepts in a string *)
Definition rc_letter (m : list (Z * Z)) (allowN : bool) (c : Z) : bool :=
  mem c (map fst m) || ((c =? charN) && allowN).

Lemma rc_char_ok m allowN c : cscope m -> rc_letter m allowN c = true ->
  rc_char m allowN c = Ok (comp m c) /\ rc_letter m allowN (comp m c) = true
  /\ comp m (comp m c) = c.
Proof.
  intros S Hc. unfold rc_char, comp, rc_letter in *.
  destruct (lookup c m) as [v|] eqn:El.
  - apply lookup_some in El as Hin. apply (cs_inv _ S) in Hin as Hin'.
    split; [reflexivity|]. split.
    + apply orb_true_iff. left. apply mem_spec. apply (in_keys m v c). exact Hin'.
    + rewrite (lookup_in m v c (cs_nodup _ S) Hin'). reflexivity.
  - apply lookup_none in El as Hn. apply mem_false in Hn. rewrite Hn in Hc. cbn [orb] in Hc.
    rewrite Hc. split; [|split].
    + apply andb_true_iff in Hc as [E _]. apply Z.eqb_eq in E. rewrite E. reflexivity.
    + rewrite Hn. reflexivity.
    + rewrite El. reflexivity.
Qed.

Lemma rc_str_ok m allowN s : cscope m -> forallb (rc_letter m allowN) s = true ->
  rc_str m allowN s = Ok (rev (map (comp m) s)).
Proof.
  intros S Hs. unfold rc_str. rewrite (mapM_ok _ (comp m)); [reflexivity|].
  intros c Hc. rewrite forallb_forall in Hs. apply (rc_char_ok m allowN c S (Hs c Hc)).
Qed.

Lemma rcstr_spec m allowN s :
  spec_ok (CRcStr m allowN s) (model (CRcStr m allowN s)) = true.
Proof.
  cbn [spec_ok].
  destruct (cmap_scope m && forallb (fun ch => mem ch (map fst m) || ((ch =? charN) && allowN)) s) eqn:Hsc;
    [|reflexivity].
  apply andb_true_iff in Hsc as [Hsc Hs]. apply cmap_scope_facts in Hsc as S.
  change (forallb (rc_letter m allowN) s = true) in Hs.
  unfold model, model_gen. rewrite (rc_str_ok m allowN s S Hs). cbn [stage bind].
  pose proof Hs as Hs'. rewrite forallb_forall in Hs'.
  rewrite rc_str_ok.
  - cbn [stage]. rewrite map_rev, rev_involutive, map_map.
    rewrite (map_ext_in _ (fun c => c)); [rewrite map_id; apply str_eqb_refl|].
    intros c Hc. apply (rc_char_ok m allowN c S (Hs' c Hc)).
  - exact S.
  - apply forallb_forall. intros c Hc. apply in_rev in Hc. apply in_map_iff in Hc as (c0 & <- & Hc0).
    apply (rc_char_ok m allowN c0 S (Hs' c0 Hc0)).
Qed.

(* ---------- tensors ---------- *)

Definition ix (m : list (Z * Z)) (v : Z) : nat :=
  match index_of v (map fst m) with Some i => i | None => O end.
Definition perm (idxs : list nat) (c : col) : col := map (fun i => nth i c 0) idxs.

Lemma nth_pair (m : list (Z * Z)) j : (j < length m)%nat -> In (nth j (map fst m) 0, nth j (map snd m) 0) m.
Proof.
  intros Hj. rewrite (nth_map_lt fst m j (0, 0) 0), (nth_map_lt snd m j (0, 0) 0) by exact Hj.
  rewrite <- surjective_pairing. apply nth_In. exact Hj.
Qed.

Lemma ix_facts m j : cscope m -> (j < length m)%nat ->
  let i := ix m (nth j (map snd m) 0) in
  index_of (nth j (map snd m) 0) (map fst m) = Some i /\ (i < length m)%nat
  /\ nth i (map fst m) 0 = nth j (map snd m) 0 /\ ix m (nth i (map snd m) 0) = j.
Proof.
  intros S Hj. cbv zeta. pose proof (nth_pair m j Hj) as Hp.
  set (kj := nth j (map fst m) 0) in *. set (vj := nth j (map snd m) 0) in *.
  apply (cs_inv _ S) in Hp as Hq.
  destruct (index_of vj (map fst m)) as [i|] eqn:Ei.
  - assert (Eix : ix m vj = i) by (unfold ix; rewrite Ei; reflexivity). rewrite Eix.
    destruct (index_of_some _ _ _ Ei) as [Hi Eni]. rewrite map_length in Hi.
    split; [reflexivity|]. split; [exact Hi|]. split; [exact Eni|].
    pose proof (nth_pair m i Hi) as Hpi. rewrite Eni in Hpi.
    rewrite (cmap_fun m vj _ _ (cs_nodup _ S) Hpi Hq).
    unfold ix. subst kj. rewrite index_of_nth; [reflexivity | apply S | rewrite map_length; exact Hj].
  - exfalso. apply index_of_none in Ei. apply Ei. apply (in_keys m vj kj). exact Hq.
Qed.

Lemma rc_idxs_ok m : cscope m -> rc_idxs m = Ok (map (ix m) (map snd m)).
Proof.
  intros S. unfold rc_idxs. apply mapM_ok. intros v Hv.
  destruct (In_nth _ _ 0 Hv) as (j & Hj & <-). rewrite map_length in Hj.
  destruct (ix_facts m j S Hj) as (E & _). rewrite E. reflexivity.
Qed.

Lemma pick_ok idxs c : (forall i, In i idxs -> (i < length c)%nat) -> pick idxs c = Ok (perm idxs c).
Proof.
  intros H. unfold pick, perm. apply mapM_ok. intros i Hi.
  rewrite (nth_error_nth' c 0 (H i Hi)). reflexivity.
Qed.

Lemma idxs_bound m i : cscope m -> In i (map (ix m) (map snd m)) -> (i < length m)%nat.
Proof.
  intros S Hi. apply in_map_iff in Hi as (v & <- & Hv).
  destruct (In_nth _ _ 0 Hv) as (j & Hj & <-). rewrite map_length in Hj.
  apply (ix_facts m j S Hj).
Qed.

Lemma rc_ten_ok m X : cscope m -> forallb (fun c => (length c =? length m)%nat) X = true ->
  rc_ten m X = Ok (map (perm (map (ix m) (map snd m))) (rev X)).
Proof.
  intros S HX. unfold rc_ten. rewrite (rc_idxs_ok m S). cbn [bind].
  apply mapM_ok. intros c Hc. apply in_rev in Hc. rewrite forallb_forall in HX.
  specialize (HX c Hc). apply Nat.eqb_eq in HX.
  apply pick_ok. intros i Hi. rewrite HX. apply (idxs_bound m i S Hi).
Qed.

Lemma perm_length idxs c : length (perm idxs c) = length idxs.
Proof. unfold perm. apply map_length. Qed.

Lemma nth_perm m c j : (j < length m)%nat ->
  nth j (perm (map (ix m) (map snd m)) c) 0 = nth (ix m (nth j (map snd m) 0)) c 0.
Proof.
  intros Hj. unfold perm. rewrite map_map.
  rewrite (nth_map_lt (fun v => nth (ix m v) c 0) (map snd m) j 0) by (rewrite map_length; exact Hj).
  reflexivity.
Qed.

Lemma perm_perm m c : cscope m -> length c = length m ->
  perm (map (ix m) (map snd m)) (perm (map (ix m) (map snd m)) c) = c.
Proof.
  intros S Hl. apply (nth_ext _ _ 0 0).
  - rewrite perm_length, !map_length. symmetry. exact Hl.
  - intros j Hj. rewrite perm_length, !map_length in Hj.
    destruct (ix_facts m j S Hj) as (_ & Hi & _ & Eback).
    rewrite nth_perm by exact Hj. rewrite nth_perm by exact Hi. rewrite Eback. reflexivity.
Qed.

Lemma rcten_spec m X : spec_ok (CRcTen m X) (model (CRcTen m X)) = true.
Proof.
  cbn [spec_ok].
  destruct (cmap_scope m && forallb (fun c => (length c =? length m)%nat) X) eqn:Hsc; [|reflexivity].
  apply andb_true_iff in Hsc as [Hsc HX]. apply cmap_scope_facts in Hsc as S.
  unfold model, model_gen. rewrite (rc_ten_ok m X S HX). cbn [stage bind].
  rewrite rc_ten_ok.
  - cbn [stage]. rewrite <- map_rev, rev_involutive, map_map.
    rewrite (map_ext_in _ (fun c => c)); [rewrite map_id; apply dna_eqb_refl|].
    intros c Hc. rewrite forallb_forall in HX. specialize (HX c Hc). apply Nat.eqb_eq in HX.
    apply perm_perm; assumption.
  - exact S.
  - apply forallb_forall. intros c Hc. apply in_map_iff in Hc as (c0 & <- & _).
    apply Nat.eqb_eq. rewrite perm_length, !map_length. reflexivity.
Qed.

(* ---------- string and tensor forms agree ---------- *)

Definition agree_letter (m : list (Z * Z)) (ign : list Z) (allowN : bool) (c : Z) : bool :=
  mem c (map fst m) || ((c =? charN) && allowN && mem charN ign).

Lemma agree_ascope m ign : cscope m -> forallb is_ascii ign = true ->
  existsb (fun ch => mem ch (map fst m)) ign = false -> ascope (map fst m) ign.
Proof.
  intros S Hi Hg. constructor; auto; try apply S.
  - rewrite map_length. apply S.
  - intros c Hc. rewrite existsb_false in Hg. apply mem_false. apply Hg. exact Hc.
Qed.

Lemma agree_letter_facts m ign allowN c : cscope m -> ascope (map fst m) ign ->
  agree_letter m ign allowN c = true ->
  is_ascii c = true /\ (mem c (map fst m) || mem c ign) = true /\ rc_letter m allowN c = true
  /\ agree_letter m ign allowN (comp m c) = true
  /\ ((In c (map fst m) /\ In (c, comp m c) m) \/ (~ In c (map fst m) /\ comp m c = c)).
Proof.
  intros S A H. unfold agree_letter, rc_letter in *.
  destruct (mem c (map fst m)) eqn:Ek; cbn [orb] in *.
  - apply mem_spec in Ek as Hin. pose proof (cs_ascii _ S) as Ha. rewrite forallb_forall in Ha.
    split; [apply Ha; exact Hin|]. split; [reflexivity|]. split; [reflexivity|].
    apply in_map_iff in Hin as ([k v] & Ekv & Hkv). cbn [fst] in Ekv. subst k.
    assert (Ec : comp m c = v) by (unfold comp; rewrite (lookup_in m c v (cs_nodup _ S) Hkv); reflexivity).
    rewrite Ec. split.
    + apply (cs_inv _ S) in Hkv as Hvk. apply in_keys in Hvk. apply mem_spec in Hvk. rewrite Hvk. reflexivity.
    + left. split; [apply (in_keys m c v Hkv) | exact Hkv].
  - apply andb_true_iff in H as [H HNi]. apply andb_true_iff in H as [HcN HaN].
    apply Z.eqb_eq in HcN. subst c.
    pose proof (as_ign _ _ A) as Hi. rewrite forallb_forall in Hi.
    apply mem_false in Ek.
    assert (Ec : comp m charN = charN).
    { unfold comp. destruct (lookup charN m) eqn:El; [|reflexivity].
      apply lookup_some in El. apply in_keys in El. contradiction. }
    split; [apply Hi; apply mem_spec; exact HNi|]. split; [rewrite HNi; reflexivity|].
    split; [rewrite HaN, Z.eqb_refl; reflexivity|]. rewrite Ec. split.
    + rewrite HaN, HNi, Z.eqb_refl. apply orb_true_r.
    + right. split; [exact Ek | reflexivity].
Qed.

Lemma colf_comp m ign allowN c : cscope m -> ascope (map fst m) ign ->
  agree_letter m ign allowN c = true ->
  colf (map fst m) ign (comp m c) = perm (map (ix m) (map snd m)) (colf (map fst m) ign c).
Proof.
  intros S A H.
  destruct (agree_letter_facts m ign allowN c S A H) as (_ & Hin & _ & H' & Hcase).
  destruct (agree_letter_facts m ign allowN (comp m c) S A H') as (_ & Hin' & _).
  apply (nth_ext _ _ 7 0).
  - rewrite colf_length by exact Hin'. rewrite perm_length, !map_length. reflexivity.
  - intros j Hj. rewrite colf_length in Hj by exact Hin'. rewrite map_length in Hj.
    destruct (ix_facts m j S Hj) as (_ & Hi & Eni & _).
    rewrite nth_perm by exact Hj.
    rewrite (nth_indep _ 0 7) by (rewrite colf_length by exact Hin; rewrite map_length; exact Hi).
    rewrite !colf_entry by (auto; rewrite map_length; assumption).
    rewrite Eni. pose proof (nth_pair m j Hj) as Hp.
    set (kj := nth j (map fst m) 0) in *. set (vj := nth j (map snd m) 0) in *.
    destruct Hcase as [[Hk Hkv]|[Hnk Ec]].
    + destruct (Z.eqb_spec kj (comp m c)) as [E1|E1], (Z.eqb_spec vj c) as [E2|E2]; try reflexivity; exfalso.
      * apply E2. apply (cs_inv _ S) in Hkv. rewrite <- E1 in Hkv.
        apply (cmap_fun m kj vj c (cs_nodup _ S) Hp Hkv).
      * apply E1. rewrite E2 in Hp. apply (cs_inv _ S) in Hp.
        apply (cmap_fun m c kj (comp m c) (cs_nodup _ S) Hp Hkv).
    + rewrite Ec.
      destruct (Z.eqb_spec kj c) as [E1|E1], (Z.eqb_spec vj c) as [E2|E2]; try reflexivity; exfalso.
      * apply Hnk. rewrite <- E1. apply (in_keys m kj vj Hp).
      * apply Hnk. rewrite <- E2. apply (cs_inv _ S) in Hp. apply (in_keys m vj kj Hp).
Qed.

Lemma agree_spec m ign allowN s :
  spec_ok (CRcAgree m ign allowN s) (model (CRcAgree m ign allowN s)) = true.
Proof.
  cbn [spec_ok].
  destruct (cmap_scope m && forallb is_ascii ign && negb (existsb (fun ch => mem ch (map fst m)) ign)
            && forallb (fun ch => mem ch (map fst m) || ((ch =? charN) && allowN && mem charN ign)) s) eqn:Hsc;
    [|reflexivity].
  apply andb_true_iff in Hsc as [Hsc Hs]. apply andb_true_iff in Hsc as [Hsc Hg].
  apply andb_true_iff in Hsc as [Hsc Hi]. apply cmap_scope_facts in Hsc as S.
  apply negb_true_iff in Hg. pose proof (agree_ascope m ign S Hi Hg) as A.
  change (forallb (agree_letter m ign allowN) s = true) in Hs. rewrite forallb_forall in Hs.
  assert (F : forall c, In c s -> _) by (intros c Hc; exact (agree_letter_facts m ign allowN c S A (Hs c Hc))).
  unfold model, model_gen.
  rewrite (rc_str_ok m allowN s S) by (apply forallb_forall; intros c Hc; apply (F c Hc)).
  cbn [bind].
  rewrite (ohe_ok (map fst m) ign (rev (map (comp m) s)) A).
  2:{ apply forallb_forall. intros c Hc. apply in_rev in Hc. apply in_map_iff in Hc as (c0 & <- & Hc0).
      destruct (F c0 Hc0) as (_ & _ & _ & H' & _). apply (agree_letter_facts m ign allowN _ S A H'). }
  2:{ apply forallb_forall. intros c Hc. apply in_rev in Hc. apply in_map_iff in Hc as (c0 & <- & Hc0).
      destruct (F c0 Hc0) as (_ & _ & _ & H' & _). apply (agree_letter_facts m ign allowN _ S A H'). }
  rewrite (ohe_ok (map fst m) ign s A) by (apply forallb_forall; intros c Hc; apply (F c Hc)).
  cbn [bind].
  rewrite (rc_ten_ok m (map (colf (map fst m) ign) s) S).
  2:{ apply forallb_forall. intros c Hc. apply in_map_iff in Hc as (c0 & <- & Hc0).
      apply Nat.eqb_eq. rewrite colf_length by (apply (F c0 Hc0)). apply map_length. }
  cbn [stage]. apply dna_eqb_spec.
  rewrite !map_rev. f_equal.
  rewrite (map_map (comp m) (colf (map fst m) ign)).
  rewrite (map_map (colf (map fst m) ign) (perm (map (ix m) (map snd m)))).
  apply map_ext_in. intros c Hc.
  apply (colf_comp m ign allowN c S A (Hs c Hc)).
Qed.

(* ====================================================================================== *)
(* every pipeline                                                                         *)

Lemma model_spec c : spec_ok c (model c) = true.
Proof.
  destruct c.
  - apply round_spec.
  - apply back_spec.
  - apply rcstr_spec.
  - apply rcten_spec.
  - apply agree_spec.
  - apply chunk_spec.
Qed.

(* ====================================================================================== *)
(* the same results in explicit (non-boolean) form                                        *)

Lemma chunk_unchunk_exact size overlap xs :
  1 <= size -> 0 <= overlap < size -> xs <> [] ->
  (forall x, In x xs -> (Z.to_nat size <= length x)%nat) ->
  exists X, chunk size overlap xs = Ok X /\
            unchunk X (map (fun x => Z.of_nat (length x)) xs) overlap
            = Ok (map (fun x => firstn (cov (Z.to_nat size) (Z.to_nat (size - overlap)) x) x) xs).
Proof.
  intros Hs Ho Hne Hx. eexists. split.
  - apply chunk_char; assumption.
  - apply unchunk_chunk_exact; assumption.
Qed.

Lemma ohe_roundtrip_exact alpha ign s force :
  alpha_scope alpha ign = true -> forallb is_ascii s = true ->
  forallb (fun ch => mem ch alpha || mem ch ign) s = true ->
  exists X, one_hot_encode alpha ign s = Ok X /\
            characters alpha force true X = Ok (map (fun c => if mem c ign then charN else c) s) /\
            (existsb (fun ch => mem ch ign) s = false -> characters alpha force false X = Ok s).
Proof.
  intros Hsc Hs Hin. apply alpha_scope_facts in Hsc as S.
  exists (map (colf alpha ign) s). split; [apply ohe_ok; assumption|].
  pose proof Hin as Hin'. rewrite forallb_forall in Hin'.
  assert (Hlen : forallb (fun c => (length c =? length alpha)%nat) (map (colf alpha ign) s) = true).
  { apply forallb_forall. intros c Hc. apply in_map_iff in Hc as (ch & <- & Hch).
    apply Nat.eqb_eq. apply colf_length. auto. }
  split.
  - rewrite characters_ok; [| exact Hlen | apply S | apply tie_guard; discriminate].
    f_equal. rewrite map_map. apply map_ext_in. intros c Hc. apply decode_colf; auto.
  - intros Hno. rewrite existsb_false in Hno.
    rewrite characters_ok; [| exact Hlen | apply S |].
    + f_equal. rewrite map_map. rewrite <- (map_id s) at 2. apply map_ext_in. intros c Hc.
      rewrite decode_colf; auto.
      * rewrite (Hno c Hc). reflexivity.
      * rewrite (Hno c Hc). discriminate.
    + apply tie_guard. intros _. apply existsb_false. intros c Hc. apply in_map_iff in Hc as (ch & <- & Hch).
      apply colf_no_tie; auto.
Qed.

Lemma ohe_rejects alpha ign s :
  alpha_scope alpha ign = true -> forallb is_ascii s = true ->
  forallb (fun ch => mem ch alpha || mem ch ign) s = false ->
  one_hot_encode alpha ign s = Err.
Proof. intros Hsc. apply alpha_scope_facts in Hsc. apply ohe_reject. exact Hsc. Qed.

Lemma rc_str_involutive m allowN s :
  cmap_scope m = true -> forallb (rc_letter m allowN) s = true ->
  exists t, rc_str m allowN s = Ok t /\ rc_str m allowN t = Ok s.
Proof.
  intros Hsc Hs. apply cmap_scope_facts in Hsc as S.
  exists (rev (map (comp m) s)). split; [apply rc_str_ok; assumption|].
  pose proof Hs as Hs'. rewrite forallb_forall in Hs'.
  rewrite rc_str_ok; [| exact S |].
  - f_equal. rewrite map_rev, rev_involutive, map_map. rewrite <- (map_id s) at 2.
    apply map_ext_in. intros c Hc. apply (rc_char_ok m allowN c S (Hs' c Hc)).
  - apply forallb_forall. intros c Hc. apply in_rev in Hc. apply in_map_iff in Hc as (c0 & <- & Hc0).
    apply (rc_char_ok m allowN c0 S (Hs' c0 Hc0)).
Qed.

Lemma rc_ten_involutive m X :
  cmap_scope m = true -> forallb (fun c => (length c =? length m)%nat) X = true ->
  exists Y, rc_ten m X = Ok Y /\ rc_ten m Y = Ok X.
Proof.
  intros Hsc HX. apply cmap_scope_facts in Hsc as S.
  eexists. split; [apply rc_ten_ok; assumption|].
  rewrite rc_ten_ok; [| exact S |].
  - f_equal. rewrite <- map_rev, rev_involutive, map_map. rewrite <- (map_id X) at 2.
    apply map_ext_in. intros c Hc. rewrite forallb_forall in HX. specialize (HX c Hc).
    apply Nat.eqb_eq in HX. apply perm_perm; assumption.
  - apply forallb_forall. intros c Hc. apply in_map_iff in Hc as (c0 & <- & _).
    apply Nat.eqb_eq. rewrite perm_length, !map_length. reflexivity.
Qed.
