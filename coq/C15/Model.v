(* C15 model: utils.one_hot_encode / characters / reverse_complement / chunk / unchunk.
   Executable, total mirror of the code after the fix: commits (no proofs here).

   Representation.  A character is its byte (a Z); a string is a list of bytes.  A tensor of
   shape (A, L) is a [dna]: the list of its L columns, each a list of A integers, so that
   slicing / concatenating / flipping the last axis is list surgery on columns and indexing
   the first axis is surgery inside each column.  A tensor of shape (N, A, size) is a list
   of N such [dna]s.  Only bytes 1..127 are modelled: a non-ASCII character is several
   utf8 bytes in the code, and NUL is the padding byte of numpy's fixed-width strings (an
   alphabet letter NUL reads back as ''); the model answers Err and the spec excludes them. *)
From TM Require Import Base.Prelude Base.OneHot Base.PyList.
Open Scope Z_scope.

Notation str := (list Z) (only parsing).
Definition charN : Z := 78.                       (* 'N' *)
Definition is_ascii (c : Z) : bool := (1 <=? c) && (c <? 128).

(* ------------------------------------------------------------------------------------ *)
(* one_hot_encode: the 256-entry byte table (alphabet position, -1 ignore, -2 illegal),
   filled in the code's order (alphabet first, later duplicates overwrite; then ignore),
   then one table lookup per character.                                                  *)

Fixpoint upd (i : nat) (v : Z) (t : list Z) {struct t} : list Z :=      (* t[i] = v *)
  match t with
  | [] => []
  | x :: xs => match i with O => v :: xs | S j => x :: upd j v xs end
  end.

Definition table0 : list Z := repeat (-2) 256.

Fixpoint fill_alpha (i : Z) (alpha : str) (t : list Z) : list Z :=
  match alpha with
  | [] => t
  | c :: cs => fill_alpha (i + 1) cs (upd (Z.to_nat c) i t)
  end.

Fixpoint fill_ign (ign : str) (t : list Z) : list Z :=
  match ign with
  | [] => t
  | c :: cs => fill_ign cs (upd (Z.to_nat c) (-1) t)
  end.

Definition ohe_table (alpha ign : str) : list Z := fill_ign ign (fill_alpha 0 alpha table0).

(* one iteration of _fast_one_hot_encode on a zero row of width A *)
Definition ohe_col (A : nat) (idx : Z) : res col :=
  if idx =? -1 then Ok (repeat 0 A)
  else if idx =? -2 then Err
  else Ok (upd (Z.to_nat idx) 1 (repeat 0 A)).

Definition mem (c : Z) (l : str) : bool := existsb (Z.eqb c) l.

Definition one_hot_encode (alpha ign s : str) : res dna :=
  ensure negb (existsb (fun c => mem c alpha) ign) ;;          (* "in the alphabet and also ignored" *)
  ensure forallb is_ascii (alpha ++ ign ++ s) ;;               (* modelling bound, see above *)
  let t := ohe_table alpha ign in
  mapM (fun c => ohe_col (length alpha) (nth (Z.to_nat c) t (-2))) s.

(* ------------------------------------------------------------------------------------ *)
(* characters: shape check, tie check (skipped with allow_N or force), arg-max
   decoding, all-zero columns become 'N' under allow_N.  A tensor (A, 0) is the empty list
   and is taken to have the right A.                                                      *)

Definition maxZ (c : col) : Z := fold_right Z.max (hd 0 c) c.
Definition count (v : Z) (c : col) : nat := length (filter (Z.eqb v) c).
Fixpoint find_idx (v : Z) (c : col) : nat :=          (* first index holding v *)
  match c with
  | [] => O
  | x :: xs => if x =? v then O else S (find_idx v xs)
  end.
Definition argmax (c : col) : nat := find_idx (maxZ c) c.

Definition decode_col (alpha : str) (allowN : bool) (c : col) : Z :=
  if allowN && (col_sum c =? 0) then charN else nth (argmax c) alpha 0.

(* [empty_raises] = the pre-fix behaviour: .max() over zero positions raised *)
Definition characters_gen (empty_raises : bool) (alpha : str) (force allowN : bool) (X : dna) : res str :=
  ensure forallb (fun c => (length c =? length alpha)%nat) X ;;   (* pwm.shape[0] == len(alphabet) *)
  ensure negb (length alpha =? 0)%nat ;;                          (* max over an empty axis raises *)
  ensure negb (empty_raises && (length X =? 0)%nat) ;;
  ensure negb (existsb (fun c => (1 <? count (maxZ c) c)%nat) X && negb force && negb allowN) ;;
  Ok (map (decode_col alpha allowN) X).

Definition characters := characters_gen false.
Definition characters_v0 := characters_gen true.

(* ------------------------------------------------------------------------------------ *)
(* reverse_complement.  The complement map is the dict as the list of its items, in key
   order (Python dict keys are distinct; lookups take the first match).                  *)

Notation cmap := (list (Z * Z)) (only parsing).

Fixpoint lookup (c : Z) (m : cmap) : option Z :=
  match m with
  | [] => None
  | (k, v) :: m' => if k =? c then Some v else lookup c m'
  end.

Fixpoint index_of (c : Z) (l : str) : option nat :=           (* list.index *)
  match l with
  | [] => None
  | x :: xs => if x =? c then Some O else option_map S (index_of c xs)
  end.

Definition rc_char (m : cmap) (allowN : bool) (c : Z) : res Z :=
  match lookup c m with
  | Some v => Ok v
  | None => if (c =? charN) && allowN then Ok charN else Err
  end.

Definition rc_str (m : cmap) (allowN : bool) (s : str) : res str :=
  do t <- mapM (rc_char m allowN) s ;; Ok (rev t).

(* idxs = [chars.index(v) for v in values];  flip(seq, -1)[idxs] *)
Definition rc_idxs (m : cmap) : res (list nat) :=
  mapM (fun v => match index_of v (map fst m) with Some i => Ok i | None => Err end) (map snd m).

Definition pick (idxs : list nat) (c : col) : res col :=
  mapM (fun i => match nth_error c i with Some v => Ok v | None => Err end) idxs.

Definition rc_ten (m : cmap) (X : dna) : res dna :=
  do idxs <- rc_idxs m ;; mapM (pick idxs) (rev X).

(* ------------------------------------------------------------------------------------ *)
(* chunk: guards, then x.unfold(-1, size, size-overlap) per sequence, concatenated.
   All sequences are taken to have the same number of channels (torch.cat needs it).    *)

Definition windows (size step : nat) (x : dna) : list dna :=
  map (fun k => firstn size (skipn (k * step) x)) (seq 0 ((length x - size) / step + 1)).

Definition chunk (size overlap : Z) (xs : list dna) : res (list dna) :=
  ensure (0 <? size) ;;
  ensure (0 <=? overlap) ;;
  ensure negb (length xs =? 0)%nat ;;                                (* torch.cat([]) raises *)
  ensure (0 <? size - overlap) ;;                                    (* unfold: step must be > 0 *)
  ensure forallb (fun x => size <=? Z.of_nat (length x)) xs ;;       (* unfold: size <= length *)
  Ok (concat (map (windows (Z.to_nat size) (Z.to_nat (size - overlap))) xs)).

(* unchunk.  c[s:e] with e = -e' < 0 *)
Definition slice_se (s e' : nat) (c : dna) : dna := skipn s (firstn (length c - e') c).

(* reassembly of the chunks of one sequence: the code's three paths when overlap > 0
   (exactly one chunk / exactly two / otherwise), plain concatenation when overlap = 0.
   [single_trims] = the pre-fix one-chunk path, which sliced the lone chunk as a middle one *)
Definition join_gen (single_trims : bool) (overlap : nat) (cs : list dna) : res dna :=
  if (0 <? overlap)%nat then
    let s := (overlap / 2)%nat in
    let e' := (overlap - s)%nat in
    match cs with
    | [] => Err                                             (* X_[0] of no chunks: IndexError *)
    | [c] => Ok (if single_trims then slice_se s e' c else c)
    | [c0; c1] => Ok (firstn (length c0 - e') c0 ++ skipn s c1)
    | c0 :: rest =>
        Ok (firstn (length c0 - e') c0
              ++ concat (map (slice_se s e') (removelast rest))
              ++ skipn s (last rest []))
    end
  else match cs with
       | [] => Err                                          (* reshape of 0 elements to (A,-1) *)
       | _ => Ok (concat cs)
       end.

(* the loop over sequences: X[csum : csum+n], csum += n *)
Fixpoint unchunk_loop (single_trims : bool) (overlap : nat) (X : list dna) (csum : nat)
         (counts : list Z) : res (list dna) :=
  match counts with
  | [] => Ok []
  | n :: ns =>
      do y <- join_gen single_trims overlap (firstn (Z.to_nat n) (skipn csum X)) ;;
      do ys <- unchunk_loop single_trims overlap X (csum + Z.to_nat n) ns ;;
      Ok (y :: ys)
  end.

Definition unchunk_gen (single_trims : bool) (X : list dna) (lengths : list Z) (overlap : Z)
  : res (list dna) :=
  let size := Z.of_nat (length (hd [] X)) in                        (* X.shape[-1] *)
  ensure forallb (fun l => 0 <=? l) lengths ;;                      (* min_value=0 *)
  ensure negb (size - overlap =? 0) ;;                              (* division by zero *)
  let counts := map (fun l => (l - size) / (size - overlap) + 1) lengths in
  (* a count below 1 makes the Python slice wrap or come out empty; it cannot happen for
     chunks produced by [chunk] from sequences of these lengths and is not modelled *)
  ensure forallb (fun n => 1 <=? n) counts ;;
  unchunk_loop single_trims (Z.to_nat overlap) X 0 counts.

Definition unchunk := unchunk_gen false.
Definition unchunk_v0 := unchunk_gen true.
