(* C08 proofs: the index plumbing of the wrappers (reshape / repeat_interleave / transpose /
   per-annotation stacking / product order + batching) delivers, at every index path, the
   value of the user function on exactly the input the path denotes. *)
From TM Require Import Base.Prelude Base.OneHot Base.PyList C01.Model C01.Spec C01.Proofs
  C08.Model C08.Spec.
Local Open Scope nat_scope.

(* ---------- lists ---------- *)

Lemma nth_map' {A B} (f : A -> B) (l : list A) k d d' :
  k < length l -> nth k (map f l) d = f (nth k l d').
Proof.
  intros H. rewrite nth_indep with (d' := f d') by (rewrite map_length; exact H).
  apply map_nth.
Qed.

Lemma nth_map_seq {E} (g : nat -> E) n k d : k < n -> nth k (map g (seq 0 n)) d = g k.
Proof.
  intros H. rewrite nth_map' with (d' := 0) by (rewrite seq_length; exact H).
  rewrite seq_nth by exact H. reflexivity.
Qed.

Lemma mapM_ok {A B} (f : A -> res B) (g : A -> B) (l : list A) :
  (forall x, In x l -> f x = Ok (g x)) -> mapM f l = Ok (map g l).
Proof.
  induction l as [|x xs IH]; intros H; cbn; [reflexivity|].
  rewrite (H x) by (left; reflexivity). cbn. rewrite IH by (intros; apply H; right; assumption).
  reflexivity.
Qed.

Lemma mapM_exists {A B} (f : A -> res B) (P : A -> B -> Prop) (l : list A) :
  (forall x, In x l -> exists y, f x = Ok y /\ P x y) ->
  exists ys, mapM f l = Ok ys /\ Forall2 P l ys.
Proof.
  induction l as [|x xs IH]; intros H; cbn.
  - exists []. split; [reflexivity | constructor].
  - destruct (H x (or_introl eq_refl)) as (y & E & Py).
    destruct IH as (ys & Es & Ps); [intros; apply H; right; assumption|].
    exists (y :: ys). rewrite E. cbn. rewrite Es. cbn. split; [reflexivity | constructor; assumption].
Qed.

Lemma Forall2_nth {A B} (P : A -> B -> Prop) l ys da db :
  Forall2 P l ys -> length ys = length l /\ forall a, a < length l -> P (nth a l da) (nth a ys db).
Proof.
  induction 1 as [|x y l ys Pxy _ [IHl IHn]]; cbn.
  - split; [reflexivity | intros; lia].
  - split; [lia|]. intros [|a] Ha; [exact Pxy | apply IHn; lia].
Qed.

Lemma skipn_skipn' {E} a b (l : list E) : skipn a (skipn b l) = skipn (b + a) l.
Proof.
  revert l; induction b as [|b IH]; intros l; [reflexivity|].
  destruct l as [|x l]; cbn [skipn plus]; [destruct a; reflexivity | apply IH].
Qed.

Lemma split_n_length {E} c n (l : list E) : length (split_n c n l) = c.
Proof. revert l; induction c; intros l; cbn; [reflexivity | rewrite IHc; reflexivity]. Qed.

Lemma nth_split_n {E} c n (l : list E) i :
  i < c -> nth i (split_n c n l) [] = firstn n (skipn (i * n) l).
Proof.
  revert l i; induction c as [|c IH]; intros l i Hi; [lia|].
  destruct i as [|i]; cbn [split_n nth].
  - reflexivity.
  - rewrite IH by lia. rewrite skipn_skipn'. reflexivity.
Qed.

Lemma split_n_flat_map {A E} (F : A -> list E) n (a : list A) :
  (forall r, In r a -> length (F r) = n) -> split_n (length a) n (flat_map F a) = map F a.
Proof.
  induction a as [|r a IH]; intros H; cbn [length split_n flat_map map]; [reflexivity|].
  assert (Hr : length (F r) = n) by (apply H; left; reflexivity).
  rewrite firstn_app, skipn_app, Hr, Nat.sub_diag. rewrite <- Hr at 1 3.
  rewrite firstn_all, skipn_all. cbn [firstn skipn app]. rewrite app_nil_r.
  rewrite IH by (intros; apply H; right; assumption). reflexivity.
Qed.

Lemma flat_map_length_const {A E} (F : A -> list E) n (a : list A) :
  (forall r, In r a -> length (F r) = n) -> length (flat_map F a) = length a * n.
Proof.
  induction a as [|r a IH]; intros H; cbn; [reflexivity|].
  rewrite app_length, IH by (intros; apply H; right; assumption).
  rewrite (H r) by (left; reflexivity). reflexivity.
Qed.

Lemma map_flat_map {A B C} (g : B -> C) (F : A -> list B) (a : list A) :
  map g (flat_map F a) = flat_map (fun r => map g (F r)) a.
Proof. induction a as [|r a IH]; cbn; [reflexivity|]. rewrite map_app, IH. reflexivity. Qed.

Lemma concat_length_rect {E} n (s : list (list E)) :
  (forall r, In r s -> length r = n) -> length (concat s) = length s * n.
Proof.
  induction s as [|r s IH]; intros H; cbn; [reflexivity|].
  rewrite app_length, IH by (intros; apply H; right; assumption).
  rewrite (H r) by (left; reflexivity). reflexivity.
Qed.

(* entry (i, j) of a (B, n, ...) tensor sits at i*n + j after reshape(-1, ...) *)
Lemma nth_concat_rect {E} n (s : list (list E)) i j d :
  (forall r, In r s -> length r = n) -> i < length s -> j < n ->
  nth (i * n + j) (concat s) d = nth j (nth i s []) d.
Proof.
  revert i; induction s as [|r s IH]; intros i H Hi Hj; cbn in Hi; [lia|].
  assert (Hr : length r = n) by (apply H; left; reflexivity).
  cbn [concat]. destruct i as [|i]; cbn [nth].
  - rewrite app_nth1 by lia. reflexivity.
  - rewrite app_nth2 by (cbn; lia). rewrite Hr.
    replace (S i * n + j - n) with (i * n + j) by (cbn; lia).
    apply IH; [intros; apply H; right; assumption | lia | exact Hj].
Qed.

Lemma repeat_interleave_length {E} n (l : list E) : length (repeat_interleave n l) = length l * n.
Proof.
  unfold repeat_interleave. apply flat_map_length_const. intros; apply repeat_length.
Qed.

(* repeat_interleave(n) lines the rows of an extra input up with that flattening *)
Lemma nth_repeat_interleave {E} n (l : list E) i j d :
  i < length l -> j < n -> nth (i * n + j) (repeat_interleave n l) d = nth i l d.
Proof.
  unfold repeat_interleave. revert i; induction l as [|x l IH]; intros i Hi Hj; cbn in Hi; [lia|].
  cbn [flat_map]. destruct i as [|i]; cbn [nth].
  - rewrite app_nth1 by (rewrite repeat_length; lia).
    rewrite nth_indep with (d' := x) by (rewrite repeat_length; lia). apply nth_repeat.
  - rewrite app_nth2 by (rewrite repeat_length; cbn; lia). rewrite repeat_length.
    replace (S i * n + j - n) with (i * n + j) by (cbn; lia).
    apply IH; [lia | exact Hj].
Qed.

Lemma transpose_spec {E} B (rows : list (list E)) d :
  (forall r, In r rows -> length r = B) ->
  length (transpose B rows) = B /\
  forall i, i < B -> nth i (transpose B rows) [] = map (fun r => nth i r d) rows.
Proof.
  induction rows as [|r rs IH]; intros H; cbn [transpose map].
  - split; [apply repeat_length|]. intros i Hi. apply nth_repeat.
  - destruct IH as [IHl IHn]; [intros; apply H; right; assumption|].
    assert (Hr : length r = B) by (apply H; left; reflexivity).
    split; [rewrite map2_length; lia|].
    intros i Hi. rewrite (nth_map2 cons r (transpose B rs) i d [] []) by lia.
    rewrite IHn by exact Hi. reflexivity.
Qed.

Lemma cart_length {E} (ls : list (list E)) : length (cart ls) = prodn (map (@length E) ls).
Proof.
  induction ls as [|a rest IH]; cbn [cart map prodn]; [reflexivity|].
  apply flat_map_length_const. intros r _. rewrite map_length. exact IH.
Qed.

Lemma in_cart {E} (ls : list (list E)) :
  forall p, In p (cart ls) <-> Forall2 (fun x l => In x l) p ls.
Proof.
  induction ls as [|a rest IH]; intros p; cbn [cart].
  - split.
    + intros [<-|[]]. constructor.
    + intros H. inversion H. left. reflexivity.
  - rewrite in_flat_map. split.
    + intros (r & Hr & Hp). apply in_map_iff in Hp as (t & <- & Ht).
      constructor; [exact Hr | apply IH; exact Ht].
    + intros H. inversion H as [|x l p' ls' Hx Hp']; subst. exists x. split; [exact Hx|].
      apply in_map_iff. exists p'. split; [reflexivity | apply IH; exact Hp'].
Qed.

Lemma prodn_pos ds : (forall d, In d ds -> 1 <= d) -> 1 <= prodn ds.
Proof.
  induction ds as [|d ds IH]; intros H; cbn; [lia|].
  assert (1 <= d) by (apply H; left; reflexivity).
  assert (1 <= prodn ds) by (apply IH; intros; apply H; right; assumption). nia.
Qed.

Lemma pyslice_one {E} idx (X : list E) d : idx < length X -> pyslice_nat idx (idx + 1) X = [nth idx X d].
Proof.
  intros H. unfold pyslice_nat. replace (idx + 1 - idx) with 1 by lia.
  revert idx H; induction X as [|x X IH]; intros idx H; cbn in H; [lia|].
  destruct idx as [|idx]; [reflexivity|]. cbn [skipn nth]. apply IH. lia.
Qed.

(* ---------- the substituted / transplanted inputs, position by position ---------- *)

Lemma splice_expected p m (x mo : dna) : p + m <= length x -> length mo = m ->
  splice p m x mo = expected_sub p m x mo.
Proof.
  intros H Hm. apply nth_ext with (d := dcol) (d' := dcol).
  - rewrite splice_length by assumption. unfold expected_sub. rewrite map_length, seq_length. reflexivity.
  - intros q Hq. rewrite splice_length in Hq by assumption. rewrite nth_splice by assumption.
    unfold expected_sub. rewrite nth_map_seq by exact Hq. reflexivity.
Qed.

Lemma pyslice_spec_slice s e (x : dna) : e <= length x -> pyslice_nat s e x = spec_slice s e x.
Proof.
  intros H. unfold pyslice_nat, spec_slice. apply nth_ext with (d := dcol) (d' := dcol).
  - rewrite firstn_length, skipn_length, map_length, seq_length. lia.
  - intros q Hq. rewrite firstn_length, skipn_length in Hq.
    rewrite nth_firstn by lia. rewrite nth_skipn. rewrite nth_map_seq by lia. reflexivity.
Qed.

Lemma valid_t_nonempty X : valid_t X = true -> 1 <= length (tX X).
Proof.
  unfold valid_t, valid_ohe. destruct (tX X); intros H; cbn in *; [|lia].
  rewrite ?andb_false_r in H. discriminate.
Qed.

(* ---------- tensors: shape and entries ---------- *)
Section P.
Variable out : Type.
Variable h : nat -> nat -> einput -> out.
Variable out_eqb : out -> out -> bool.
Hypothesis out_eqb_spec : forall x y, out_eqb x y = true <-> x = y.

Notation nd := (nd out).
Notation dnd := (dnd out).

(* Prop form of tensor_ok *)
Definition tokP (dims : list nat) (f : list nat -> out) (y : nd) : Prop :=
  has_shape out dims y = true /\ forall p, Forall2 lt p dims -> get out p y = Some (f p).

Lemma in_all_paths dims : forall p, In p (all_paths dims) <-> Forall2 lt p dims.
Proof.
  unfold all_paths. intros p. rewrite in_cart. revert p.
  induction dims as [|d ds IH]; intros p; cbn [map]; split; intros H; inversion H; subst;
    constructor; try (apply IH; assumption).
  - apply in_seq in H3. lia.
  - apply in_seq. lia.
Qed.

Lemma tok_iff dims f y : tensor_ok out out_eqb dims f y = true <-> tokP dims f y.
Proof.
  unfold tensor_ok, tokP. rewrite andb_true_iff, forallb_forall.
  split; intros [Hs Hp]; (split; [exact Hs|]).
  - intros p Hp2. apply in_all_paths in Hp2. specialize (Hp p Hp2).
    destruct (get out p y); [apply out_eqb_spec in Hp; subst; reflexivity | discriminate].
  - intros p Hin. apply in_all_paths in Hin. rewrite (Hp p Hin). apply out_eqb_spec. reflexivity.
Qed.

Lemma tokP_ext dims f g y : (forall p, Forall2 lt p dims -> f p = g p) -> tokP dims f y -> tokP dims g y.
Proof.
  intros E [Hs Hp]. split; [exact Hs|]. intros p H. rewrite <- E by exact H. apply Hp. exact H.
Qed.

Lemma tokP_leaf f o : f [] = o -> tokP [] f (Leaf o).
Proof.
  intros E. split; [reflexivity|]. intros p H. inversion H. cbn. congruence.
Qed.

Lemma tokP_node d ds f (l : list nd) :
  length l = d -> (forall a, a < d -> tokP ds (fun p => f (a :: p)) (nth a l dnd)) ->
  tokP (d :: ds) f (Node l).
Proof.
  intros Hl H. split.
  - cbn [has_shape]. rewrite Hl, Nat.eqb_refl. cbn [andb]. apply forallb_forall. intros y Hy.
    destruct (In_nth _ _ dnd Hy) as (a & Ha & <-). apply H. lia.
  - intros p Hp. inversion Hp as [|i d' p' ds' Hi Hp']; subst. cbn [get].
    rewrite (nth_error_nth' l dnd) by lia. apply (H i Hi). exact Hp'.
Qed.

Lemma tokP_of1 B f (l : list out) d :
  length l = B -> (forall i, i < B -> nth i l d = f [i]) -> tokP [B] f (of1 out l).
Proof.
  intros Hl H. unfold of1. apply tokP_node; [rewrite map_length; exact Hl|].
  intros a Ha. rewrite nth_map' with (d' := d) by lia. apply tokP_leaf. symmetry. apply H. exact Ha.
Qed.

Lemma reshape_cons d ds (l : list out) :
  reshape out (d :: ds) l = Node (map (reshape out ds) (split_n d (prodn ds) l)).
Proof. reflexivity. Qed.

Lemma reshape_1 n (l : list out) : length l = n -> reshape out [n] l = of1 out l.
Proof.
  intros H. cbn [reshape prodn]. unfold of1. f_equal.
  revert n H; induction l as [|x l IH]; intros n H; cbn in H; subst n; [reflexivity|].
  cbn [split_n firstn skipn map reshape]. f_equal. apply IH. reflexivity.
Qed.

(* reshape(B, n, ...) of a flat batch: entry (i, j) is the flat entry i*n + j *)
Lemma tokP_reshape2 B n f (l : list out) d :
  length l = B * n -> (forall i j, i < B -> j < n -> nth (i * n + j) l d = f [i; j]) ->
  tokP [B; n] f (reshape out [B; n] l).
Proof.
  intros Hl H. rewrite reshape_cons. cbn [prodn]. rewrite Nat.mul_1_r.
  apply tokP_node; [rewrite map_length; apply split_n_length|].
  intros a Ha. rewrite nth_map' with (d' := []) by (rewrite split_n_length; exact Ha).
  rewrite nth_split_n by exact Ha.
  assert (Hc : length (firstn n (skipn (a * n) l)) = n)
    by (rewrite firstn_length, skipn_length; nia).
  rewrite (reshape_1 n) by exact Hc.
  apply tokP_of1 with (d := d); [exact Hc|].
  intros j Hj. rewrite nth_firstn by exact Hj. rewrite nth_skipn. apply H; assumption.
Qed.

(* reshape(len(a), ds...) of a concatenation of equally long blocks *)
Lemma tokP_reshape_flat_map {A} (a : list A) ds (F : A -> list out) f dA :
  (forall r, In r a -> length (F r) = prodn ds) ->
  (forall j, j < length a -> tokP ds (fun p => f (j :: p)) (reshape out ds (F (nth j a dA)))) ->
  tokP (length a :: ds) f (reshape out (length a :: ds) (flat_map F a)).
Proof.
  intros Hl H. rewrite reshape_cons. rewrite split_n_flat_map by exact Hl. rewrite map_map.
  apply tokP_node; [apply map_length|].
  intros j Hj. rewrite nth_map' with (d' := dA) by exact Hj. apply H. exact Hj.
Qed.

(* K outputs *)
Definition outsP (K : nat) (dims : list nat) (f : nat -> list nat -> out) (ys : list nd) : Prop :=
  length ys = K /\ forall k, k < K -> tokP dims (f k) (nth k ys dnd).

Lemma outs_iff K dims f ys : outputs_ok out out_eqb K dims f ys = true <-> outsP K dims f ys.
Proof.
  unfold outputs_ok, outsP. rewrite andb_true_iff, Nat.eqb_eq, forallb_seq.
  split; intros [A B]; (split; [exact A|]); intros k Hk; apply tok_iff; apply B; exact Hk.
Qed.

Lemma outsP_ext K dims f g ys :
  (forall k p, k < K -> Forall2 lt p dims -> f k p = g k p) -> outsP K dims f ys -> outsP K dims g ys.
Proof.
  intros E [Hl H]. split; [exact Hl|]. intros k Hk. apply tokP_ext with (f := f k); [|apply H; exact Hk].
  intros p Hp. apply E; assumption.
Qed.

Lemma before_after_intro K db fb da fa b a :
  outsP K db fb b -> outsP K da fa a ->
  before_after out out_eqb K db fb da fa (Ok [b; a]) = true.
Proof.
  intros Hb Ha. unfold before_after. apply andb_true_iff. split; apply outs_iff; assumption.
Qed.

(* ---------- func on a batch ---------- *)

Lemma func_ok K X args :
  1 <= length X -> args_ok (length X) args = true ->
  func out h K X args =
  Ok (map (fun k => map (h 0 k) (map (ex_input X args) (seq 0 (length X)))) (seq 0 K)).
Proof.
  intros HB Ha. unfold func, inputs.
  replace (1 <=? length X) with true by (symmetry; apply Nat.leb_le; exact HB).
  unfold args_ok in Ha. rewrite Ha. cbn [guard bind]. reflexivity.
Qed.

Lemma nth_rows X args k i d : i < length X ->
  nth i (map (h 0 k) (map (ex_input X args) (seq 0 (length X)))) d = h 0 k (ex_input X args i).
Proof.
  intros H. rewrite map_map.
  apply (nth_map_seq (fun x => h 0 k (ex_input X args x))). exact H.
Qed.

Definition dout : out := h 0 0 ([], []).

Lemma outsP_func_of1 K B X args f :
  B = length X ->
  (forall k i, k < K -> i < B -> f k [i] = h 0 k (ex_input X args i)) ->
  outsP K [B] f (map (of1 out)
    (map (fun k => map (h 0 k) (map (ex_input X args) (seq 0 (length X)))) (seq 0 K))).
Proof.
  intros -> Hf. split; [rewrite !map_length, seq_length; reflexivity|].
  intros k Hk. rewrite map_map. rewrite nth_map_seq by exact Hk.
  apply tokP_of1 with (d := dout).
  - rewrite !map_length, seq_length. reflexivity.
  - intros i Hi. rewrite nth_rows by exact Hi. symmetry. apply Hf; assumption.
Qed.

(* ---------- marginalize ---------- *)

Lemma marginalize_okP nk X M start args :
  valid_t X = true -> motif_ok X M = true ->
  span_in (tL X) (sub_pos (tL X) (tL M) start) (tL M) = true ->
  args_ok (length (tX X)) args = true ->
  exists b a, marginalize out h nk X M start args = Ok (b, a) /\
    outsP (kc nk) [length (tX X)] (fun k q => h 0 k (ex_input (tX X) args (ix q 0))) b /\
    outsP (kc nk) [length (tX X)]
      (fun k q => let i := ix q 0 in
         h 0 k (expected_sub (Z.to_nat (sub_pos (tL X) (tL M) start)) (tL M)
                             (nth i (tX X) []) (motif_for X M i), arg_rows args i)) a.
Proof.
  intros HX HM Hs Ha. unfold sub_pos in *.
  pose proof (valid_t_nonempty X HX) as HB.
  unfold marginalize. rewrite (substitute_char X M start HX HM). cbv zeta. rewrite Hs.
  destruct (motif_ok_split _ _ HM) as (HA & Hv & Hb).
  destruct (broadcast_ok X M Hb) as (Ms & E & Hl & Hn). rewrite E. cbn [bind].
  rewrite (func_ok (kc nk) (tX X) args HB Ha). cbn [bind].
  set (p := Z.to_nat _).
  set (Y := map2 _ (tX X) Ms).
  assert (HY : length Y = length (tX X)) by (apply map2_length; auto).
  rewrite (func_ok (kc nk) Y args) by (rewrite HY; assumption). cbn [bind].
  eexists; eexists; split; [reflexivity|]. split.
  - apply outsP_func_of1; [reflexivity|]. intros; reflexivity.
  - apply outsP_func_of1; [symmetry; exact HY|]. intros k i Hk Hi. cbn [ix nth]. unfold ex_input.
    do 2 f_equal. subst Y. rewrite (nth_map2 _ (tX X) Ms i [] [] []) by auto.
    rewrite Hn by exact Hi. symmetry.
    destruct (valid_t_facts _ HX) as [Hc Hr].
    destruct (motif_for_facts X M i HM Hi) as [_ Hm].
    apply splice_expected; [|exact Hm].
    rewrite (rect_nth _ _ _ Hr Hi). unfold span_in in Hs. subst p. lia.
Qed.

Lemma marg_spec nk X M start args :
  spec_ok out h out_eqb (CMarg nk X M start args) (model out h (CMarg nk X M start args)) = true.
Proof.
  cbn [spec_ok model]. cbv zeta.
  destruct (valid_t X && motif_ok X M && span_in _ _ _ && args_ok _ args) eqn:Hin; [|reflexivity].
  apply andb_true_iff in Hin as [Hin H4]. apply andb_true_iff in Hin as [Hin H3].
  apply andb_true_iff in Hin as [H1 H2].
  destruct (marginalize_okP nk X M start args H1 H2 H3 H4) as (b & a & E & Hb & Ha).
  rewrite E. cbn [pack bind fst snd]. apply before_after_intro; assumption.
Qed.

(* ---------- ablate ---------- *)

Lemma reshape_res_ok dims (l : list out) :
  length l = prodn dims -> reshape_res out dims l = Ok (reshape out dims l).
Proof. intros H. unfold reshape_res. rewrite H, Nat.eqb_refl. reflexivity. Qed.

Lemma args_ok_interleave B n args :
  args_ok B args = true -> args_ok (B * n) (map (repeat_interleave n) args) = true.
Proof.
  unfold args_ok. rewrite !forallb_forall. intros H a Ha.
  apply in_map_iff in Ha as (a0 & <- & Ha0). rewrite repeat_interleave_length.
  apply Nat.eqb_eq. specialize (H a0 Ha0). apply Nat.eqb_eq in H. rewrite H. reflexivity.
Qed.

(* the rows of the extra inputs stay matched to their example *)
Lemma arg_rows_interleave B n args i j : args_ok B args = true -> i < B -> j < n ->
  arg_rows (map (repeat_interleave n) args) (i * n + j) = arg_rows args i.
Proof.
  unfold args_ok, arg_rows. rewrite forallb_forall. intros H Hi Hj. rewrite map_map.
  apply map_ext_in. intros a Ha. apply nth_repeat_interleave; [|exact Hj].
  specialize (H a Ha). apply Nat.eqb_eq in H. rewrite <- H in Hi. exact Hi.
Qed.

Lemma ablate_okP nk X n s args :
  1 <= length X -> 1 <= n -> length s = length X -> (forall r, In r s -> length r = n) ->
  args_ok (length X) args = true ->
  exists b a, ablate out h nk X n (Some s) args = Ok (b, a) /\
    outsP (kc nk) [length X] (fun k q => h 0 k (ex_input X args (ix q 0))) b /\
    outsP (kc nk) [length X; n]
      (fun k q => h 0 k (nth (ix q 1) (nth (ix q 0) s []) [], arg_rows args (ix q 0))) a.
Proof.
  intros HB Hn Hs Hr Ha. unfold ablate. cbn [bind].
  rewrite (func_ok (kc nk) X args HB Ha). cbn [bind].
  assert (Hc : length (concat s) = length X * n)
    by (rewrite (concat_length_rect n) by exact Hr; rewrite Hs; reflexivity).
  rewrite (func_ok (kc nk) (concat s)).
  2: rewrite Hc; nia.
  2: rewrite Hc; apply args_ok_interleave; exact Ha.
  cbn [bind].
  rewrite (mapM_ok _ (reshape out [length s; n])).
  2:{ intros l Hl. apply in_map_iff in Hl as (k & <- & _). apply reshape_res_ok.
      rewrite !map_length, seq_length. cbn [prodn]. rewrite Hc, Hs. lia. }
  cbn [bind]. eexists; eexists; split; [reflexivity|]. split.
  - apply outsP_func_of1; [reflexivity|]. intros; reflexivity.
  - split; [rewrite !map_length, seq_length; reflexivity|].
    intros k Hk. rewrite map_map. rewrite nth_map_seq by exact Hk. rewrite Hs.
    apply tokP_reshape2 with (d := dout).
    + rewrite !map_length, seq_length. exact Hc.
    + intros i j Hi Hj. rewrite nth_rows by (rewrite Hc; nia). cbn [ix nth]. unfold ex_input.
      f_equal. f_equal.
      * apply nth_concat_rect; [exact Hr | lia | exact Hj].
      * apply arg_rows_interleave with (B := length X); assumption.
Qed.

Lemma shuf_ok_facts B n S : shuf_ok B n S = true ->
  exists s, S = Some s /\ length s = B /\ forall r, In r s -> length r = n.
Proof.
  destruct S as [s|]; cbn; [|discriminate]. intros H. apply andb_true_iff in H as [H1 H2].
  exists s. split; [reflexivity|]. split; [apply Nat.eqb_eq; exact H1|].
  rewrite forallb_forall in H2. intros r Hr. apply Nat.eqb_eq. apply H2. exact Hr.
Qed.

Lemma abl_spec nk X n S args :
  spec_ok out h out_eqb (CAbl nk X n S args) (model out h (CAbl nk X n S args)) = true.
Proof.
  cbn [spec_ok model]. cbv zeta.
  destruct ((1 <=? length X) && (1 <=? n) && shuf_ok (length X) n S && args_ok (length X) args)
    eqn:Hin; [|reflexivity].
  apply andb_true_iff in Hin as [Hin H4]. apply andb_true_iff in Hin as [Hin H3].
  apply andb_true_iff in Hin as [H1 H2]. apply Nat.leb_le in H1, H2.
  destruct (shuf_ok_facts _ _ _ H3) as (s & -> & Hs & Hr).
  destruct (ablate_okP nk X n s args H1 H2 Hs Hr H4) as (b & a & E & Hb & Ha).
  rewrite E. cbn [pack bind fst snd]. apply before_after_intro; assumption.
Qed.

(* ---------- per-annotation stacking ---------- *)

Lemma path1 p d1 : Forall2 lt p [d1] -> exists a, p = [a] /\ a < d1.
Proof.
  intros H. inversion H as [|a d p' ds Ha Hp']; subst. inversion Hp'; subst.
  exists a. split; [reflexivity | exact Ha].
Qed.

Lemma path2 p d1 d2 : Forall2 lt p [d1; d2] -> exists a i, p = [a; i] /\ a < d1 /\ i < d2.
Proof.
  intros H. inversion H as [|a d p' ds Ha Hp']; subst. destruct (path1 _ _ Hp') as (i & -> & Hi).
  exists a, i. auto.
Qed.

Lemma path3 p d1 d2 d3 : Forall2 lt p [d1; d2; d3] ->
  exists a i j, p = [a; i; j] /\ a < d1 /\ i < d2 /\ j < d3.
Proof.
  intros H. inversion H as [|a d p' ds Ha Hp']; subst.
  destruct (path2 _ _ _ Hp') as (i & j & -> & Hi & Hj). exists a, i, j. auto.
Qed.

(* out[k][a] = (y_a)[k] for every output k and annotation a, whatever the two counts are *)
Lemma stack_okP tuple K (ys : list (list nd)) ds (f : nat -> nat -> list nat -> out) :
  1 <= length ys -> (tuple = false -> K = 1) ->
  (forall a, a < length ys -> outsP K ds (f a) (nth a ys [])) ->
  exists zs, stack_outputs out tuple ys = Ok zs /\
             outsP K (length ys :: ds) (fun k p => f (hd 0 p) k (tl p)) zs.
Proof.
  intros Hn HK H. destruct ys as [|y0 ys']; [cbn in Hn; lia|].
  assert (H0 : length y0 = K) by (destruct (H 0) as [Hl _]; [cbn; lia | exact Hl]).
  unfold stack_outputs. set (ys := y0 :: ys') in *.
  destruct tuple.
  - eexists; split; [reflexivity|]. rewrite H0.
    split; [rewrite map_length, seq_length; reflexivity|].
    intros k Hk. rewrite nth_map_seq by exact Hk.
    apply tokP_node; [apply map_length|]. intros a Ha.
    rewrite nth_map' with (d' := []) by exact Ha.
    destruct (H a Ha) as [_ Ht]. exact (Ht k Hk).
  - rewrite (HK eq_refl) in *. eexists; split; [reflexivity|]. split; [reflexivity|].
    intros k Hk. assert (k = 0) by lia; subst k. cbn [nth].
    apply tokP_node; [apply map_length|]. intros a Ha.
    rewrite nth_map' with (d' := []) by exact Ha.
    destruct (H a Ha) as [_ Ht]. exact (Ht 0 Hk).
Qed.

Lemma annotations_stack tuple K (ys : list (list nd)) :
  1 <= length ys -> (forall y, In y ys -> length y = K) -> (tuple = false -> K = 1) ->
  exists zs, stack_outputs out tuple ys = Ok zs /\ length zs = K /\
    forall k a, k < K -> a < length ys ->
      exists l, nth k zs dnd = Node l /\ length l = length ys /\
                nth a l dnd = nth k (nth a ys []) dnd.
Proof.
  intros Hn Hl HK. destruct ys as [|y0 ys']; [cbn in Hn; lia|].
  assert (H0 : length y0 = K) by (apply Hl; left; reflexivity).
  unfold stack_outputs. set (ys := y0 :: ys') in *. destruct tuple.
  - eexists; split; [reflexivity|]. rewrite H0.
    split; [rewrite map_length, seq_length; reflexivity|].
    intros k a Hk Ha. rewrite nth_map_seq by exact Hk. eexists; split; [reflexivity|].
    split; [apply map_length|]. apply (nth_map' (fun y : list nd => nth k y dnd)). exact Ha.
  - rewrite (HK eq_refl) in *. eexists; split; [reflexivity|]. split; [reflexivity|].
    intros k a Hk Ha. assert (k = 0) by lia; subst k. cbn [nth]. eexists; split; [reflexivity|].
    split; [apply map_length|]. apply (nth_map' (fun y : list nd => nth 0 y dnd)). exact Ha.
Qed.

Lemma tuple_kc nk : is_tuple nk = false -> kc nk = 1.
Proof. destruct nk; cbn; [discriminate | reflexivity]. Qed.

(* ---------- marginalize_annotations ---------- *)

Lemma spec_slice_length s e (x : dna) : length (spec_slice s e x) = e - s.
Proof. unfold spec_slice. rewrite map_length, seq_length. reflexivity. Qed.

Lemma ann_ok_facts X X0 start idx s e : ann_ok X X0 start (idx, s, e) = true ->
  idx < length (tX X) /\ e <= length (nth idx (tX X) []) /\
  motif_ok X0 (T (tA X) (e - s) [spec_slice s e (nth idx (tX X) [])]) = true /\
  span_in (tL X0) (sub_pos (tL X0) (e - s) start) (e - s) = true.
Proof.
  unfold ann_ok. intros H.
  apply andb_true_iff in H as [H H5]. apply andb_true_iff in H as [H H4].
  apply andb_true_iff in H as [H H3]. apply andb_true_iff in H as [H1 H2].
  apply Nat.ltb_lt in H1. apply Nat.leb_le in H3. auto.
Qed.

Lemma margann_spec nk X X0 anns start args :
  spec_ok out h out_eqb (CMargAnn nk X X0 anns start args)
          (model out h (CMargAnn nk X X0 anns start args)) = true.
Proof.
  cbn [spec_ok model]. cbv zeta.
  destruct (valid_t X0 && (1 <=? length anns) && forallb (ann_ok X X0 start) anns &&
            args_ok (length (tX X0)) args) eqn:Hin; [|reflexivity].
  apply andb_true_iff in Hin as [Hin H4]. apply andb_true_iff in Hin as [Hin H3].
  apply andb_true_iff in Hin as [H1 H2]. apply Nat.leb_le in H2.
  rewrite forallb_forall in H3.
  unfold marginalize_annotations, marginalize_annotations_with.
  set (fb := fun (k : nat) (q : list nat) => h 0 k (ex_input (tX X0) args (ix q 0))).
  set (fa := fun (ann : nat * nat * nat) (k : nat) (q : list nat) =>
               let '(idx, s, e) := ann in
               let i := ix q 0 in
               h 0 k (expected_sub (Z.to_nat (sub_pos (tL X0) (e - s) start)) (e - s)
                                   (nth i (tX X0) []) (spec_slice s e (nth idx (tX X) [])),
                      arg_rows args i)).
  set (P := fun (ann : nat * nat * nat) (ba : list nd * list nd) =>
              outsP (kc nk) [length (tX X0)] fb (fst ba) /\
              outsP (kc nk) [length (tX X0)] (fa ann) (snd ba)).
  match goal with |- context [mapM ?F anns] => destruct (mapM_exists F P anns) as (per & Eper & Hper) end.
  { intros [[idx s] e] Hi. destruct (ann_ok_facts _ _ _ _ _ _ (H3 _ Hi)) as (Hidx & He & Hm & Hsp).
    replace (idx <? length (tX X)) with true by (symmetry; apply Nat.ltb_lt; exact Hidx).
    cbn [guard bind]. rewrite pyslice_spec_slice by exact He. rewrite spec_slice_length.
    destruct (marginalize_okP nk X0 _ start args H1 Hm Hsp H4) as (b & a & E & Hb & Ha).
    exists (b, a). split; [exact E|]. split; [exact Hb | exact Ha]. }
  rewrite Eper. cbn [bind].
  destruct (Forall2_nth P anns per (0, 0, 0) ([], []) Hper) as [Hlen Hnth].
  destruct (stack_okP (is_tuple nk) (kc nk) (map fst per) [length (tX X0)] (fun _ => fb))
    as (zb & Ezb & Hzb).
  { rewrite map_length, Hlen. exact H2. }
  { apply tuple_kc. }
  { intros a Ha. rewrite map_length, Hlen in Ha. rewrite nth_map' with (d' := ([], [])) by lia.
    apply (Hnth a Ha). }
  destruct (stack_okP (is_tuple nk) (kc nk) (map snd per) [length (tX X0)]
                      (fun a => fa (nth a anns (0, 0, 0)))) as (za & Eza & Hza).
  { rewrite map_length, Hlen. exact H2. }
  { apply tuple_kc. }
  { intros a Ha. rewrite map_length, Hlen in Ha. rewrite nth_map' with (d' := ([], [])) by lia.
    apply (Hnth a Ha). }
  rewrite Ezb, Eza. cbn [bind pack fst snd]. rewrite map_length, Hlen in Hzb, Hza.
  apply before_after_intro.
  - eapply outsP_ext; [|exact Hzb]. intros k p Hk Hp.
    destruct (path2 _ _ _ Hp) as (a & i & -> & Ha & Hi). reflexivity.
  - eapply outsP_ext; [|exact Hza]. intros k p Hk Hp.
    destruct (path2 _ _ _ Hp) as (a & i & -> & Ha & Hi). cbn [hd tl ix nth]. unfold fa.
    destruct (nth a anns (0, 0, 0)) as [[idx s] e]. reflexivity.
Qed.

(* ---------- ablate_annotations ---------- *)

Lemma ablann_spec nk X anns n Ss args :
  spec_ok out h out_eqb (CAblAnn nk X anns n Ss args)
          (model out h (CAblAnn nk X anns n Ss args)) = true.
Proof.
  cbn [spec_ok model]. cbv zeta.
  destruct ((1 <=? length anns) && (1 <=? n) && (length anns =? length Ss) &&
            forallb (fun idx => idx <? length X) anns && forallb (shuf_ok 1 n) Ss &&
            args_ok 1 args) eqn:Hin; [|reflexivity].
  apply andb_true_iff in Hin as [Hin H6]. apply andb_true_iff in Hin as [Hin H5].
  apply andb_true_iff in Hin as [Hin H4]. apply andb_true_iff in Hin as [Hin H3].
  apply andb_true_iff in Hin as [H1 H2]. apply Nat.leb_le in H1, H2.
  rewrite forallb_forall in H4, H5.
  unfold ablate_annotations, ablate_annotations_with. rewrite H3. cbn [guard bind].
  apply Nat.eqb_eq in H3.
  set (fb := fun (p : nat * option (list (list dna))) (k : nat) (q : list nat) =>
               h 0 k (ex_input [nth (fst p) X []] args (ix q 0))).
  set (fa := fun (p : nat * option (list (list dna))) (k : nat) (q : list nat) =>
               h 0 k (nth (ix q 1) (nth (ix q 0) (unopt (snd p)) []) [], arg_rows args (ix q 0))).
  set (P := fun (p : nat * option (list (list dna))) (ba : list nd * list nd) =>
              outsP (kc nk) [1] (fb p) (fst ba) /\ outsP (kc nk) [1; n] (fa p) (snd ba)).
  match goal with |- context [mapM ?F (combine anns Ss)] =>
    destruct (mapM_exists F P (combine anns Ss)) as (per & Eper & Hper) end.
  { intros [idx S] Hi. pose proof (in_combine_l _ _ _ _ Hi) as Hl.
    pose proof (in_combine_r _ _ _ _ Hi) as Hr.
    apply H4 in Hl. apply Nat.ltb_lt in Hl. apply H5 in Hr.
    destruct (shuf_ok_facts _ _ _ Hr) as (s & -> & Hs & Hrows).
    cbn [fst snd]. rewrite (pyslice_one idx X []) by exact Hl.
    destruct (ablate_okP nk [nth idx X []] n s args) as (b & a & E & Hb & Ha);
      [cbn; lia | exact H2 | exact Hs | exact Hrows | exact H6 |].
    exists (b, a). split; [exact E|]. split; [exact Hb | exact Ha]. }
  rewrite Eper. cbn [bind].
  destruct (Forall2_nth P _ per (0, None) ([], []) Hper) as [Hlen Hnth].
  assert (Hc : length (combine anns Ss) = length anns) by (rewrite combine_length; lia).
  rewrite Hc in Hlen, Hnth.
  assert (Hcn : forall a, nth a (combine anns Ss) (0, None) = (nth a anns 0, nth a Ss None))
    by (intros a; apply combine_nth; exact H3).
  destruct (stack_okP (is_tuple nk) (kc nk) (map fst per) [1]
                      (fun a => fb (nth a (combine anns Ss) (0, None)))) as (zb & Ezb & Hzb).
  { rewrite map_length, Hlen. exact H1. }
  { apply tuple_kc. }
  { intros a Ha. rewrite map_length, Hlen in Ha. rewrite nth_map' with (d' := ([], [])) by lia.
    apply (Hnth a Ha). }
  destruct (stack_okP (is_tuple nk) (kc nk) (map snd per) [1; n]
                      (fun a => fa (nth a (combine anns Ss) (0, None)))) as (za & Eza & Hza).
  { rewrite map_length, Hlen. exact H1. }
  { apply tuple_kc. }
  { intros a Ha. rewrite map_length, Hlen in Ha. rewrite nth_map' with (d' := ([], [])) by lia.
    apply (Hnth a Ha). }
  rewrite Ezb, Eza. cbn [bind pack fst snd]. rewrite map_length, Hlen in Hzb, Hza.
  apply before_after_intro.
  - eapply outsP_ext; [|exact Hzb]. intros k p Hk Hp.
    destruct (path2 _ _ _ Hp) as (a & i & -> & Ha & Hi). assert (i = 0) by lia; subst i.
    cbn [hd tl ix nth]. unfold fb. rewrite Hcn. reflexivity.
  - eapply outsP_ext; [|exact Hza]. intros k p Hk Hp.
    destruct (path3 _ _ _ _ Hp) as (a & i & j & -> & Ha & Hi & Hj). assert (i = 0) by lia; subst i.
    cbn [hd tl ix nth]. unfold fa. rewrite Hcn. reflexivity.
Qed.

(* ---------- space: stack over the spacing rows, then transpose(0, 1) ---------- *)

Lemma tokP_transposed B S (R : list (list out)) f :
  length R = S -> (forall r, In r R -> length r = B) ->
  (forall i s, i < B -> s < S -> nth i (nth s R []) dout = f [i; s]) ->
  tokP [B; S] f (of2 out (transpose B R)).
Proof.
  intros <- Hr Hf. destruct (transpose_spec B R dout Hr) as [Tl Tn].
  unfold of2. apply tokP_node; [rewrite map_length; exact Tl|].
  intros i Hi. rewrite nth_map' with (d' := []) by (rewrite Tl; exact Hi). rewrite Tn by exact Hi.
  apply tokP_of1 with (d := dout); [apply map_length|].
  intros s Hs. rewrite (nth_map' (fun r : list out => nth i r dout)) with (d' := []) by exact Hs.
  apply Hf; assumption.
Qed.

Definition rows_of (K : nat) (Z : batch) (args : list argt) : list (list out) :=
  map (fun k => map (h 0 k) (map (ex_input Z args) (seq 0 (length Z)))) (seq 0 K).

Lemma rows_of_k K Z args k : k < K ->
  nth k (rows_of K Z args) [] = map (h 0 k) (map (ex_input Z args) (seq 0 (length Z))).
Proof. intros H. unfold rows_of. apply (nth_map_seq (fun k => map (h 0 k) _)). exact H. Qed.

Lemma space_spec nk X ms grid start args :
  spec_ok out h out_eqb (CSpace nk X ms grid start args)
          (model out h (CSpace nk X ms grid start args)) = true.
Proof.
  cbn [spec_ok model]. cbv zeta.
  set (B := length (tX X)). set (Ys := map (fun sp => multisubstitute X ms sp start) grid).
  destruct ((1 <=? B) && (1 <=? length grid) &&
            forallb (fun r => length r =? length ms - 1) grid &&
            forallb (fun r => match r with Ok Y => length Y =? B | Err => false end) Ys &&
            args_ok B args) eqn:Hin; [|reflexivity].
  apply andb_true_iff in Hin as [Hin H5]. apply andb_true_iff in Hin as [Hin H4].
  apply andb_true_iff in Hin as [Hin H3]. apply andb_true_iff in Hin as [H1 H2].
  unfold space. rewrite H2, H3. cbn [guard bind]. apply Nat.leb_le in H1.
  rewrite forallb_forall in H4.
  set (g := fun sp : list Z =>
              (rows_of (kc nk) (tX X) args,
               rows_of (kc nk) (unres (multisubstitute X ms sp start)) args)).
  assert (HY : forall sp, In sp grid ->
             exists Y, multisubstitute X ms sp start = Ok Y /\ length Y = B).
  { intros sp Hsp.
    assert (Hi : In (multisubstitute X ms sp start) Ys)
      by (unfold Ys; apply in_map_iff; exists sp; split; [reflexivity | exact Hsp]).
    apply H4 in Hi. destruct (multisubstitute X ms sp start) as [Y|]; [|discriminate].
    exists Y. split; [reflexivity | apply Nat.eqb_eq; exact Hi]. }
  rewrite (mapM_ok _ g).
  2:{ intros sp Hsp. destruct (HY sp Hsp) as (Y & EY & HYl). unfold g. rewrite EY. cbn [bind unres].
      rewrite (func_ok (kc nk) (tX X) args H1 H5). cbn [bind].
      rewrite (func_ok (kc nk) Y args) by (rewrite HYl; assumption). reflexivity. }
  cbn [bind pack fst snd]. rewrite !map_map. apply before_after_intro.
  - split; [rewrite map_length, seq_length; reflexivity|].
    intros k Hk. rewrite nth_map_seq by exact Hk. rewrite map_map.
    apply tokP_transposed.
    + apply map_length.
    + intros r Hr. apply in_map_iff in Hr as (sp & <- & Hsp). unfold g. cbn [fst].
      rewrite rows_of_k by exact Hk. rewrite !map_length, seq_length. reflexivity.
    + intros i s Hi Hs.
      rewrite (nth_map' (fun x => nth k (fst (g x)) [])) with (d' := []) by exact Hs.
      unfold g. cbn [fst]. rewrite rows_of_k by exact Hk. rewrite nth_rows by exact Hi. reflexivity.
  - split; [rewrite map_length, seq_length; reflexivity|].
    intros k Hk. rewrite nth_map_seq by exact Hk. rewrite map_map.
    apply tokP_transposed.
    + apply map_length.
    + intros r Hr. apply in_map_iff in Hr as (sp & <- & Hsp). unfold g. cbn [snd].
      destruct (HY sp Hsp) as (Y & EY & HYl). rewrite EY. cbn [unres].
      rewrite rows_of_k by exact Hk. rewrite !map_length, seq_length. exact HYl.
    + intros i s Hi Hs.
      rewrite (nth_map' (fun x => nth k (snd (g x)) [])) with (d' := []) by exact Hs.
      unfold g. cbn [snd]. cbn [ix nth]. unfold Ys.
      rewrite (nth_map' (fun sp => multisubstitute X ms sp start)) with (d' := []) by exact Hs.
      destruct (HY (nth s grid []) (nth_In _ _ Hs)) as (Y & EY & HYl). rewrite EY. cbn [unres].
      rewrite rows_of_k by exact Hk. rewrite nth_rows by (rewrite HYl; exact Hi). reflexivity.
Qed.

(* ---------- apply_product / apply_pairwise ---------- *)

(* itertools.product order = row-major order of reshape(len(a1), ..., len(am)), every arity *)
Lemma tokP_cart (pargs : list argt) : forall (g : list row -> out) f,
  (forall p, Forall2 lt p (map (@length row) pargs) -> f p = g (pick pargs p)) ->
  tokP (map (@length row) pargs) f (reshape out (map (@length row) pargs) (map g (cart pargs))).
Proof.
  induction pargs as [|a rest IH]; intros g f Hf.
  - cbn. apply tokP_leaf. rewrite Hf by constructor. reflexivity.
  - cbn [cart map]. rewrite map_flat_map.
    apply tokP_reshape_flat_map with (dA := ([] : row)).
    + intros r _. rewrite !map_length. apply cart_length.
    + intros j Hj. rewrite map_map. apply (IH (fun t => g (nth j a [] :: t))).
      intros p Hp. rewrite Hf by (constructor; assumption). reflexivity.
Qed.

(* batching is invisible: concatenating the per-batch results gives func over all tuples *)
Lemma run_batched_ok sh bs dims ins f :
  1 <= bs -> 1 <= length ins -> length ins = prodn dims ->
  (forall t k, tokP dims (f t k) (reshape out dims (map (h t k) ins))) ->
  exists ys, run_batched out h sh bs dims ins = Ok ys /\
             tasks_ok out out_eqb (tasks sh) dims f ys = true.
Proof.
  intros Hb Hi Hl H. unfold run_batched.
  replace (1 <=? bs) with true by (symmetry; apply Nat.leb_le; exact Hb).
  replace (1 <=? length ins) with true by (symmetry; apply Nat.leb_le; exact Hi).
  cbn [guard bind].
  set (G := fun tk : nat * nat => reshape out dims (map (h (fst tk) (snd tk)) ins)).
  rewrite (mapM_ok _ (map G)).
  2:{ intros tr _. apply mapM_ok. intros tk _.
      rewrite <- (concat_map (h (fst tk) (snd tk))). rewrite concat_chunks by exact Hb.
      apply reshape_res_ok. rewrite map_length. exact Hl. }
  eexists; split; [reflexivity|].
  unfold tasks_ok. rewrite map_length, Nat.eqb_refl. cbn [andb]. apply forallb_seq. intros a Ha.
  rewrite (nth_map' (map G)) with (d' := []) by exact Ha.
  rewrite map_length, Nat.eqb_refl. cbn [andb]. apply forallb_seq. intros b Hb2.
  rewrite (nth_map' G) with (d' := (0, 0)) by exact Hb2. apply tok_iff. apply H.
Qed.

Lemma prod_spec sh X pargs bs :
  spec_ok out h out_eqb (CProd sh X pargs bs) (model out h (CProd sh X pargs bs)) = true.
Proof.
  cbn [spec_ok model].
  destruct ((1 <=? bs) && (1 <=? length X) && forallb (fun a => 1 <=? length a) pargs) eqn:Hin;
    [|reflexivity].
  apply andb_true_iff in Hin as [Hin H3]. apply andb_true_iff in Hin as [H1 H2].
  apply Nat.leb_le in H1, H2. rewrite forallb_forall in H3.
  unfold apply_product.
  assert (Hlen : length (flat_map (fun x : dna => map (pair x) (cart pargs)) X)
                 = length X * prodn (map (@length row) pargs)).
  { apply flat_map_length_const. intros x _. rewrite map_length. apply cart_length. }
  destruct (run_batched_ok sh bs (length X :: map (@length row) pargs)
              (flat_map (fun x : dna => map (pair x) (cart pargs)) X)
              (fun t k q => h t k (nth (ix q 0) X [], pick pargs (tl q)))) as (ys & E & Hys).
  - exact H1.
  - match goal with |- 1 <= ?L =>
      replace L with (length X * prodn (map (@length row) pargs)) by (symmetry; exact Hlen) end.
    assert (1 <= prodn (map (@length row) pargs)).
    { apply prodn_pos. intros d Hd. apply in_map_iff in Hd as (a & <- & Ha).
      apply Nat.leb_le. apply H3. exact Ha. }
    nia.
  - exact Hlen.
  - intros t k. rewrite map_flat_map. apply tokP_reshape_flat_map with (dA := ([] : dna)).
    + intros x _. rewrite !map_length. apply cart_length.
    + intros j Hj. rewrite map_map.
      apply (tokP_cart pargs (fun t' => h t k (nth j X [], t'))). intros p Hp. reflexivity.
  - rewrite E. exact Hys.
Qed.

Lemma fold_min_same n (ls : list nat) :
  (forall d, In d ls -> d = n) -> fold_right Nat.min n ls = n.
Proof.
  induction ls as [|a ls IH]; cbn; intros H; [reflexivity|].
  rewrite IH by (intros; apply H; right; assumption).
  rewrite (H a) by (left; reflexivity). apply Nat.min_id.
Qed.

Lemma pair_spec sh X pargs bs :
  spec_ok out h out_eqb (CPair sh X pargs bs) (model out h (CPair sh X pargs bs)) = true.
Proof.
  cbn [spec_ok model]. destruct pargs as [|a0 rest]; [reflexivity|].
  destruct ((1 <=? bs) && (1 <=? length X) && (1 <=? length a0) &&
            forallb (fun a => length a =? length a0) (a0 :: rest)) eqn:Hin; [|reflexivity].
  apply andb_true_iff in Hin as [Hin H4]. apply andb_true_iff in Hin as [Hin H3].
  apply andb_true_iff in Hin as [H1 H2]. apply Nat.leb_le in H1, H2, H3.
  rewrite forallb_forall in H4.
  unfold apply_pairwise. set (pargs := a0 :: rest) in *.
  assert (Hz : zip_rows pargs = map (arg_rows pargs) (seq 0 (length a0))).
  { unfold zip_rows, pargs. fold pargs. rewrite fold_min_same; [reflexivity|].
    intros d Hd. apply in_map_iff in Hd as (a & <- & Ha). apply Nat.eqb_eq. apply H4. exact Ha. }
  assert (Hzl : length (zip_rows pargs) = length a0)
    by (rewrite Hz, map_length, seq_length; reflexivity).
  assert (Hlen : length (flat_map (fun x : dna => map (pair x) (zip_rows pargs)) X)
                 = length X * length a0).
  { apply flat_map_length_const. intros x _. rewrite map_length. exact Hzl. }
  destruct (run_batched_ok sh bs [length X; length a0]
              (flat_map (fun x : dna => map (pair x) (zip_rows pargs)) X)
              (fun t k q => h t k (nth (ix q 0) X [], arg_rows pargs (ix q 1)))) as (ys & E & Hys).
  - exact H1.
  - match goal with |- 1 <= ?L =>
      replace L with (length X * length a0) by (symmetry; exact Hlen) end. nia.
  - match goal with |- ?L = _ =>
      replace L with (length X * length a0) by (symmetry; exact Hlen) end. cbn [prodn]. lia.
  - intros t k. rewrite map_flat_map.
    apply tokP_reshape_flat_map with (dA := ([] : dna)) (ds := [length a0]).
    + intros x _. rewrite !map_length, Hzl. cbn [prodn]. lia.
    + intros j Hj. rewrite reshape_1 by (rewrite !map_length; exact Hzl).
      apply tokP_of1 with (d := dout); [rewrite !map_length; exact Hzl|].
      intros i Hi. rewrite Hz, !map_map.
      rewrite (nth_map_seq (fun x => h t k (nth j X [], arg_rows pargs x))) by exact Hi.
      reflexivity.
  - rewrite E. exact Hys.
Qed.

(* ---------- all wrappers ---------- *)
Lemma all_spec c : spec_ok out h out_eqb c (model out h c) = true.
Proof.
  destruct c; [apply marg_spec | apply abl_spec | apply space_spec | apply margann_spec
              | apply ablann_spec | apply prod_spec | apply pair_spec].
Qed.

End P.

(* ---------- the pre-fix stacking: wrong whenever #annotations <> #outputs ---------- *)

Lemma mapM_length {A B} (f : A -> res B) (l : list A) ys : mapM f l = Ok ys -> length ys = length l.
Proof.
  revert ys; induction l as [|x xs IH]; intros ys; cbn.
  - intros E. injection E as <-. reflexivity.
  - destruct (f x) as [y|]; cbn; [|discriminate].
    destruct (mapM f xs) as [ys'|] eqn:E'; cbn; [|discriminate].
    intros E. injection E as <-. cbn. rewrite (IH ys' eq_refl). reflexivity.
Qed.

(* for a multi-output model the old code either raised or returned as many "outputs" as there
   are annotations, so it cannot return the K stacked outputs unless the two counts agree *)
Lemma stack_v0_wrong out K (ys : list (list (nd out))) zs :
  length ys <> K -> stack_outputs_v0 out true ys = Ok zs -> length zs <> K.
Proof.
  intros Hne. unfold stack_outputs_v0. destruct ys as [|y0 ys']; [discriminate|].
  intros E. apply mapM_length in E. rewrite seq_length in E. congruence.
Qed.

(* ---------- the evaluation instance ---------- *)

Lemma eout_eqb_spec a b : eout_eqb a b = true <-> a = b.
Proof.
  destruct a as [[t1 k1] [x1 r1]], b as [[t2 k2] [x2 r2]]. unfold eout_eqb.
  rewrite !andb_true_iff, !Nat.eqb_eq, dna_eqb_spec, (list_eqb_spec col_eqb col_eqb_spec).
  split.
  - intros [[[-> ->] ->] ->]. reflexivity.
  - intros E. injection E as -> -> -> ->. auto.
Qed.

Definition wX : tensor :=
  T 4 4 [[[1;0;0;0]; [0;1;0;0]; [0;0;1;0]; [0;0;0;1]]; [[0;0;0;1]; [0;0;1;0]; [0;1;0;0]; [1;0;0;0]]]%Z.
Definition wS : option (list (list dna)) :=
  Some [[[[0;1;0;0]; [1;0;0;0]; [0;0;1;0]; [0;0;0;1]]]]%Z.

(* 2 outputs, 3 annotations: IndexError *)
Definition w_margann_raise : call :=
  CMargAnn (Some 2) wX wX [(0, 0, 1); (1, 1, 3); (0, 2, 3)] (Some 0%Z) [].
(* 2 outputs, 1 annotation: the second output is dropped *)
Definition w_margann_drop : call := CMargAnn (Some 2) wX wX [(1, 1, 3)] None [].
Definition w_ablann_raise : call := CAblAnn (Some 2) (tX wX) [0; 0; 0] 1 [wS; wS; wS] [].
Definition w_ablann_drop : call := CAblAnn (Some 3) (tX wX) [0; 0] 1 [wS; wS] [].

Lemma margann_v0_refuted :
  spec_ok eout hE eout_eqb w_margann_raise (model_v0 eout hE w_margann_raise) = false /\
  spec_ok eout hE eout_eqb w_margann_drop (model_v0 eout hE w_margann_drop) = false.
Proof. split; vm_compute; reflexivity. Qed.

Lemma ablann_v0_refuted :
  spec_ok eout hE eout_eqb w_ablann_raise (model_v0 eout hE w_ablann_raise) = false /\
  spec_ok eout hE eout_eqb w_ablann_drop (model_v0 eout hE w_ablann_drop) = false.
Proof. split; vm_compute; reflexivity. Qed.

(* the same witnesses are accepted by the fixed model, and are inside the spec's scope
   (the spec is not vacuous on them: it rejects a wrong outcome) *)
Lemma witnesses_in_scope :
  spec_ok eout hE eout_eqb w_margann_raise Err = false /\
  spec_ok eout hE eout_eqb w_ablann_raise Err = false /\
  is_ok (model eout hE w_margann_raise) = true /\ is_ok (model eout hE w_ablann_drop) = true.
Proof. repeat split; vm_compute; reflexivity. Qed.
