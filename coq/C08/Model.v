(* C08 model: marginalize / ablate / space, their per-annotation variants, apply_product and
   apply_pairwise.  Executable mirror of the index plumbing of the code in /repo
   (reshape(-1,...) / repeat_interleave(n) / reshape back, stack + transpose(0,1), the
   per-annotation stacking of multi-output results, itertools.product order + batching +
   reshape(len(X), len(a0), ...)); no proofs here.

   The user function is opaque: [func(model, X, args)] acts example by example, output
   number (t, k) of example (x, arg rows) is [h t k (x, rows)] for a Section variable [h].
   (t is only used by apply_product / apply_pairwise, where the function itself may return
   several results each of which may be a tuple; the other wrappers use t = 0.)          *)
From TM Require Import Base.Prelude Base.OneHot Base.PyList C01.Model.
Local Open Scope nat_scope.

Definition row := list Z.                 (* one example's slice of an extra model input *)
Definition argt := list row.              (* an extra model input: one row per example    *)
Definition einput := (dna * list row)%type.   (* what the model sees for one example     *)

(* ---------- generic list plumbing ---------- *)

(* c consecutive pieces of n elements: the row-major split that reshape(c, n, ...) performs *)
Fixpoint split_n {E} (c n : nat) (l : list E) : list (list E) :=
  match c with
  | O => []
  | S c' => firstn n l :: split_n c' n (skipn n l)
  end.

Fixpoint prodn (ds : list nat) : nat :=
  match ds with [] => 1 | d :: r => d * prodn r end.

(* torch.repeat_interleave(n, dim=0) *)
Definition repeat_interleave {E} (n : nat) (l : list E) : list E :=
  flat_map (fun x => repeat x n) l.

(* transpose(0, 1) of a stack of rows, each of B entries *)
Fixpoint transpose {E} (B : nat) (rows : list (list E)) : list (list E) :=
  match rows with
  | [] => repeat [] B
  | r :: rs => map2 cons r (transpose B rs)
  end.

(* itertools.product over the lists ls: rightmost factor fastest *)
Fixpoint cart {E} (ls : list (list E)) : list (list E) :=
  match ls with
  | [] => [[]]
  | a :: rest => flat_map (fun r => map (cons r) (cart rest)) a
  end.

(* x[s:e] for 0 <= s, e *)
Definition pyslice_nat {E} (s e : nat) (l : list E) : list E := firstn (e - s) (skipn s l).

(* row i of every extra input *)
Definition arg_rows (args : list argt) (i : nat) : list row := map (fun a => nth i a []) args.

(* zip over args: one tuple of rows per index, truncated to the shortest input *)
Definition zip_rows (pargs : list argt) : list (list row) :=
  match pargs with
  | [] => []
  | a0 :: _ => map (arg_rows pargs) (seq 0 (fold_right Nat.min (length a0) (map (@length row) pargs)))
  end.

(* the shape of what func returns: a tensor, a tuple of k tensors, or k1 results each a tuple of k2 *)
Inductive oshape := OT | OL (k : nat) | OLL (k1 k2 : nat).

Definition tasks (sh : oshape) : list (list (nat * nat)) :=
  match sh with
  | OT => [[(0, 0)]]
  | OL k => map (fun t => [(t, 0)]) (seq 0 k)
  | OLL k1 k2 => map (fun t => map (fun k => (t, k)) (seq 0 k2)) (seq 0 k1)
  end.

(* number of model outputs: None = the model returns a tensor, Some k = a tuple of k tensors *)
Definition kc (nk : option nat) : nat := match nk with None => 1 | Some k => k end.
Definition is_tuple (nk : option nat) : bool := match nk with None => false | Some _ => true end.

Section Wrappers.
Variable out : Type.
Variable h : nat -> nat -> einput -> out.

(* results are tensors whose leading axes are the wrapper's index axes and whose entries are
   per-example outputs of the user function *)
Inductive nd := Leaf (o : out) | Node (l : list nd).

Definition dnd : nd := Node [].
Definition of1 (l : list out) : nd := Node (map Leaf l).
Definition of2 (ll : list (list out)) : nd := Node (map of1 ll).

(* y.reshape(dims + y.shape[1:]) of a batch of per-example outputs (row-major) *)
Fixpoint reshape (dims : list nat) (l : list out) : nd :=
  match dims with
  | [] => match l with [o] => Leaf o | _ => dnd end
  | d :: ds => Node (map (reshape ds) (split_n d (prodn ds) l))
  end.

Definition reshape_res (dims : list nat) (l : list out) : res nd :=
  ensure (length l =? prodn dims) ;; Ok (reshape dims l).

(* the batch the model sees: example i = (X[i], (a[i] for a in args)); predict rejects extra
   inputs whose first dimension differs from X's, and an empty batch *)
Definition inputs (X : batch) (args : list argt) : res (list einput) :=
  ensure (1 <=? length X) ;;
  ensure forallb (fun a => length a =? length X) args ;;
  Ok (map (fun i => (nth i X [], arg_rows args i)) (seq 0 (length X))).

(* func(model, X, args=args): K outputs, each in batch order *)
Definition func (K : nat) (X : batch) (args : list argt) : res (list (list out)) :=
  do xs <- inputs X args ;;
  Ok (map (fun k => map (h 0 k) xs) (seq 0 K)).

(* ---------- marginalize ---------- *)
Definition marginalize (nk : option nat) (X M : tensor) (start : option Z) (args : list argt)
  : res (list nd * list nd) :=
  do Y <- substitute X M start ;;
  do b <- func (kc nk) (tX X) args ;;
  do a <- func (kc nk) Y args ;;
  Ok (map of1 b, map of1 a).

(* ---------- ablate: S is what shuffle_fn(X, start, end, n, random_state) returned, shape
   (B, n, A, L) as S[i][j]; None = it raised ---------- *)
Definition ablate (nk : option nat) (X : batch) (n : nat) (S : option (list (list dna)))
  (args : list argt) : res (list nd * list nd) :=
  do S' <- match S with Some s => Ok s | None => Err end ;;
  let args_n := map (repeat_interleave n) args in
  do b <- func (kc nk) X args ;;
  do a <- func (kc nk) (concat S') args_n ;;            (* X_perturb.reshape(-1, A, L) *)
  do a' <- mapM (reshape_res [length S'; n]) a ;;       (* y.reshape(B, n, ...) *)
  Ok (map of1 b, a').

(* ---------- space ---------- *)
Definition space (nk : option nat) (X : tensor) (ms : list tensor) (grid : list (list Z))
  (start : option Z) (args : list argt) : res (list nd * list nd) :=
  ensure (1 <=? length grid) ;;
  ensure forallb (fun r => length r =? length ms - 1) grid ;;
  do per <- mapM (fun sp =>
              do Y <- multisubstitute X ms sp start ;;
              do b <- func (kc nk) (tX X) args ;;
              do a <- func (kc nk) Y args ;;
              Ok (b, a)) grid ;;
  let B := length (tX X) in
  let tr (ys : list (list (list out))) :=
    map (fun k => of2 (transpose B (map (fun y => nth k y []) ys))) (seq 0 (kc nk)) in
  Ok (tr (map fst per), tr (map snd per)).

(* ---------- the stacking shared by marginalize_annotations / ablate_annotations ----------
   ys[a] = the list of output tensors of annotation a.  Tensor-output models: torch.stack(ys);
   multi-output: [stack([y[k] for y in ys]) for k in range(len(ys[0]))]                    *)
Definition stack_outputs (tuple : bool) (ys : list (list nd)) : res (list nd) :=
  match ys with
  | [] => Err
  | y0 :: _ =>
      if tuple
      then Ok (map (fun k => Node (map (fun y => nth k y dnd) ys)) (seq 0 (length y0)))
      else Ok [Node (map (fun y => nth 0 y dnd) ys)]
  end.

(* the code before the fix: range(len(ys)) - the number of annotations; y[k] raises IndexError
   when k is not an output index *)
Definition stack_outputs_v0 (tuple : bool) (ys : list (list nd)) : res (list nd) :=
  match ys with
  | [] => Err
  | _ :: _ =>
      if tuple
      then mapM (fun k => do col <- mapM (fun y => match nth_error y k with
                                                   | Some v => Ok v | None => Err end) ys ;;
                          Ok (Node col)) (seq 0 (length ys))
      else Ok [Node (map (fun y => nth 0 y dnd) ys)]
  end.

Section Annotations.
Variable stack : bool -> list (list nd) -> res (list nd).

Definition marginalize_annotations_with (nk : option nat) (X X0 : tensor)
  (anns : list (nat * nat * nat)) (start : option Z) (args : list argt)
  : res (list nd * list nd) :=
  do per <- mapM (fun ann =>
              let '(idx, s, e) := ann in
              ensure (idx <? length (tX X)) ;;
              let sl := pyslice_nat s e (nth idx (tX X) []) in
              marginalize nk X0 (T (tA X) (length sl) [sl]) start args) anns ;;
  do b <- stack (is_tuple nk) (map fst per) ;;
  do a <- stack (is_tuple nk) (map snd per) ;;
  Ok (b, a).

(* one shuffle tensor per annotation (each call of ablate draws from a fresh RandomState) *)
Definition ablate_annotations_with (nk : option nat) (X : batch) (anns : list nat) (n : nat)
  (Ss : list (option (list (list dna)))) (args : list argt) : res (list nd * list nd) :=
  ensure (length anns =? length Ss) ;;
  do per <- mapM (fun p => ablate nk (pyslice_nat (fst p) (fst p + 1) X) n (snd p) args)
                 (combine anns Ss) ;;
  do b <- stack (is_tuple nk) (map fst per) ;;
  do a <- stack (is_tuple nk) (map snd per) ;;
  Ok (b, a).
End Annotations.

Definition marginalize_annotations := marginalize_annotations_with stack_outputs.
Definition ablate_annotations := ablate_annotations_with stack_outputs.
Definition marginalize_annotations_v0 := marginalize_annotations_with stack_outputs_v0.
Definition ablate_annotations_v0 := ablate_annotations_with stack_outputs_v0.

(* ---------- apply_product / apply_pairwise ----------
   the tuples are consumed in batches of batch_size (the last one shorter), each batch goes
   through func, the per-batch results are concatenated and reshaped to dims             *)
Definition run_batched (sh : oshape) (bs : nat) (dims : list nat) (ins : list einput)
  : res (list (list nd)) :=
  ensure (1 <=? bs) ;;
  ensure (1 <=? length ins) ;;
  let batches := chunks bs ins in
  mapM (mapM (fun tk : nat * nat =>
                reshape_res dims (concat (map (fun c => map (h (fst tk) (snd tk)) c) batches))))
       (tasks sh).

Definition apply_product (sh : oshape) (X : batch) (pargs : list argt) (bs : nat) :=
  run_batched sh bs (length X :: map (@length row) pargs)
              (flat_map (fun x => map (pair x) (cart pargs)) X).

Definition apply_pairwise (sh : oshape) (X : batch) (pargs : list argt) (bs : nat) :=
  match pargs with
  | [] => Err
  | a0 :: _ => run_batched sh bs [length X; length a0]
                           (flat_map (fun x => map (pair x) (zip_rows pargs)) X)
  end.

End Wrappers.

Arguments Leaf {out} _.
Arguments Node {out} _.
