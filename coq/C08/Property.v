(* C08 - property theorems only.  Each is closed by [exact] of a lemma from Proofs.v.

   Common reading: [out] is the type of one example's output, [h t k (x, rows)] the value of
   output number (t, k) of an arbitrary example-wise user function on sequence x with extra
   argument rows [rows]; [out_eqb] decides equality on [out].  For EVERY such function, every
   batch size B, number of outputs (tensor or tuple of any K), number of extra arguments,
   number of shuffles n, number of annotations, spacing grid, arity and sizes of the product
   argument sets and every batch_size >= 1, the model's outcome satisfies the entry-by-entry
   spec: it has exactly the expected shape and the entry at every index path equals h of the
   explicitly constructed input that the path denotes. *)
From TM Require Import Base.Prelude Base.OneHot C01.Model C08.Model C08.Spec C08.Proofs.

Section Statements.
Variable out : Type.
Variable h : nat -> nat -> einput -> out.
Variable out_eqb : out -> out -> bool.
Hypothesis out_eqb_spec : forall x y, out_eqb x y = true <-> x = y.
Let ok c := spec_ok out h out_eqb c (model out h c) = true.

(* before[k][i] = h k (X_i, args_i);  after[k][i] = h k (X_i with the motif written over
   [p, p+m) position by position, args_i) *)
Definition marginalize_statement := forall nk X M start args, ok (CMarg nk X M start args).
(* after[k][i][j] = h k (shuffle_j X_i, args_i): reshape(-1,...) / repeat_interleave(n) /
   reshape(B, n, ...) line up for all B, n *)
Definition ablate_statement := forall nk X n S args, ok (CAbl nk X n S args).
(* after[k][i][s] = h k ((multisubstitute X motifs spacing_s)_i, args_i): stack + transpose(0,1) *)
Definition space_statement := forall nk X ms grid start args, ok (CSpace nk X ms grid start args).
(* out[k][a][i]: annotation a's span of X transplanted into X0_i, every #outputs, #annotations *)
Definition marginalize_annotations_statement :=
  forall nk X X0 anns start args, ok (CMargAnn nk X X0 anns start args).
Definition ablate_annotations_statement :=
  forall nk X anns n Ss args, ok (CAblAnn nk X anns n Ss args).
(* y[i][j1]...[jm] = h (X_i, a1[j1], ..., am[jm]) for every arity m and every batch_size >= 1 *)
Definition product_statement := forall sh X pargs bs, ok (CProd sh X pargs bs).
(* y[i][j] = h (X_i, a1[j], ..., am[j]) *)
Definition pairwise_statement := forall sh X pargs bs, ok (CPair sh X pargs bs).
End Statements.

Theorem c08_marginalize_spec : forall out h out_eqb,
  (forall x y, out_eqb x y = true <-> x = y) -> marginalize_statement out h out_eqb.
Proof. exact marg_spec. Qed.
Print Assumptions c08_marginalize_spec.

Theorem c08_ablate_spec : forall out h out_eqb,
  (forall x y, out_eqb x y = true <-> x = y) -> ablate_statement out h out_eqb.
Proof. exact abl_spec. Qed.
Print Assumptions c08_ablate_spec.

Theorem c08_space_spec : forall out h out_eqb,
  (forall x y, out_eqb x y = true <-> x = y) -> space_statement out h out_eqb.
Proof. exact space_spec. Qed.
Print Assumptions c08_space_spec.

Theorem c08_marginalize_annotations_spec : forall out h out_eqb,
  (forall x y, out_eqb x y = true <-> x = y) -> marginalize_annotations_statement out h out_eqb.
Proof. exact margann_spec. Qed.
Print Assumptions c08_marginalize_annotations_spec.

Theorem c08_ablate_annotations_spec : forall out h out_eqb,
  (forall x y, out_eqb x y = true <-> x = y) -> ablate_annotations_statement out h out_eqb.
Proof. exact ablann_spec. Qed.
Print Assumptions c08_ablate_annotations_spec.

Theorem c08_product_spec : forall out h out_eqb,
  (forall x y, out_eqb x y = true <-> x = y) -> product_statement out h out_eqb.
Proof. exact prod_spec. Qed.
Print Assumptions c08_product_spec.

Theorem c08_pairwise_spec : forall out h out_eqb,
  (forall x y, out_eqb x y = true <-> x = y) -> pairwise_statement out h out_eqb.
Proof. exact pair_spec. Qed.
Print Assumptions c08_pairwise_spec.

(* the stacking shared by the two annotation variants, on its own: for every number of
   outputs K and every number of annotations, out[k][a] = (y_a)[k] *)
Theorem c08_annotations_spec : forall out (h : nat -> nat -> einput -> out) tuple K (ys : list (list (nd out))),
  (1 <= length ys)%nat -> (forall y, In y ys -> length y = K) -> (tuple = false -> K = 1%nat) ->
  exists zs, stack_outputs out tuple ys = Ok zs /\ length zs = K /\
    forall k a, (k < K)%nat -> (a < length ys)%nat ->
      exists l, nth k zs (dnd out) = Node l /\ length l = length ys /\
                nth a l (dnd out) = nth k (nth a ys []) (dnd out).
Proof. exact annotations_stack. Qed.
Print Assumptions c08_annotations_spec.

(* all wrappers at once *)
Theorem c08_all : forall out h out_eqb, (forall x y, out_eqb x y = true <-> x = y) ->
  forall c, spec_ok out h out_eqb c (model out h c) = true.
Proof. exact all_spec. Qed.
Print Assumptions c08_all.

(* the hypothesis is satisfiable: the identity encoding used by the correspondence run *)
Example c08_instance : forall ed c, spec_ok eout (hEd ed) eout_eqb c (model eout (hEd ed) c) = true.
Proof. exact (fun ed => all_spec eout (hEd ed) eout_eqb eout_eqb_spec). Qed.

(* the code before the fix: commits 339af9b (marginalize_annotations) and 422982e
   (ablate_annotations): iterating over range(len(y_befores)) = the number of annotations *)
Theorem c08_annotations_v0_refuted :
  (exists c, spec_ok eout hE eout_eqb c (model_v0 eout hE c) = false /\ is_ok (model_v0 eout hE c) = false) /\
  (exists c, spec_ok eout hE eout_eqb c (model_v0 eout hE c) = false /\ is_ok (model_v0 eout hE c) = true).
Proof.
  split; [exists w_margann_raise | exists w_ablann_drop]; split;
    first [apply margann_v0_refuted | apply ablann_v0_refuted | (vm_compute; reflexivity)].
Qed.

(* ... and in general, whenever the two counts differ *)
Theorem c08_annotations_v0_wrong_count : forall out K (ys : list (list (nd out))) zs,
  length ys <> K -> stack_outputs_v0 out true ys = Ok zs -> length zs <> K.
Proof. exact stack_v0_wrong. Qed.
