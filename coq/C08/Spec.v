(* C08 spec: "every entry of the before / after / product output equals func applied to
   exactly the input that its index denotes", as a decidable relation between a call and
   its outcome.  Stated entry by entry (for every index path of the expected shape, the entry
   at that path equals [h t k] of an explicitly constructed input), independently of the
   model's reshape / repeat_interleave / transpose / stack / product plumbing.            *)
From TM Require Import Base.Prelude Base.OneHot Base.PyList C01.Model C01.Spec C08.Model.
Local Open Scope nat_scope.

Inductive call :=
| CMarg (nk : option nat) (X M : tensor) (start : option Z) (args : list argt)
| CAbl (nk : option nat) (X : batch) (n : nat) (S : option (list (list dna))) (args : list argt)
| CSpace (nk : option nat) (X : tensor) (ms : list tensor) (grid : list (list Z))
         (start : option Z) (args : list argt)
| CMargAnn (nk : option nat) (X X0 : tensor) (anns : list (nat * nat * nat))
           (start : option Z) (args : list argt)
| CAblAnn (nk : option nat) (X : batch) (anns : list nat) (n : nat)
          (Ss : list (option (list (list dna)))) (args : list argt)
| CProd (sh : oshape) (X : batch) (pargs : list argt) (bs : nat)
| CPair (sh : oshape) (X : batch) (pargs : list argt) (bs : nat).

(* ---------- the inputs the indices denote, written position by position ---------- *)

(* x with [p, p+m) overwritten by mo *)
Definition expected_sub (p m : nat) (x mo : dna) : dna :=
  map (fun q => if (p <=? q) && (q <? p + m) then nth (q - p) mo dcol else nth q x dcol)
      (seq 0 (length x)).

(* columns s .. e-1 of x *)
Definition spec_slice (s e : nat) (x : dna) : dna :=
  map (fun q => nth (s + q) x dcol) (seq 0 (e - s)).

Definition args_ok (B : nat) (args : list argt) : bool := forallb (fun a => length a =? B) args.

(* example i together with row i of every extra input *)
Definition ex_input (X : batch) (args : list argt) (i : nat) : einput :=
  (nth i X [], arg_rows args i).

(* argument row j_r of the r-th argument set *)
Definition pick (pargs : list argt) (js : list nat) : list row :=
  map (fun aj => nth (snd aj) (fst aj) []) (combine pargs js).

Definition ix (p : list nat) (n : nat) : nat := nth n p 0.

Definition unres {E} (r : res (list E)) : list E := match r with Ok y => y | Err => [] end.
Definition unopt {E} (r : option (list E)) : list E := match r with Some y => y | None => [] end.

Definition sub_pos (L m : nat) (start : option Z) : Z :=
  start_of (Z.of_nat L / 2 - Z.of_nat m / 2)%Z start.

Section Spec.
Variable out : Type.
Variable h : nat -> nat -> einput -> out.
Variable out_eqb : out -> out -> bool.

Notation nd := (nd out).
Notation dnd := (dnd out).

Fixpoint get (p : list nat) (y : nd) : option out :=
  match p, y with
  | [], Leaf o => Some o
  | i :: p', Node l => match nth_error l i with Some y' => get p' y' | None => None end
  | _, _ => None
  end.

(* y is a full tensor with exactly these leading dimensions (nothing missing, nothing extra) *)
Fixpoint has_shape (dims : list nat) (y : nd) : bool :=
  match dims, y with
  | [], Leaf _ => true
  | d :: ds, Node l => (length l =? d) && forallb (has_shape ds) l
  | _, _ => false
  end.

Definition all_paths (dims : list nat) : list (list nat) := cart (map (seq 0) dims).

(* y has shape dims and y[p] = f p for every index path p *)
Definition tensor_ok (dims : list nat) (f : list nat -> out) (y : nd) : bool :=
  has_shape dims y &&
  forallb (fun p => match get p y with Some o => out_eqb o (f p) | None => false end)
          (all_paths dims).

(* K output tensors, output k satisfying f k *)
Definition outputs_ok (K : nat) (dims : list nat) (f : nat -> list nat -> out) (ys : list nd) : bool :=
  (length ys =? K) && forallb (fun k => tensor_ok dims (f k) (nth k ys dnd)) (seq 0 K).

Definition outcome := res (list (list nd)).

Definition before_after (K : nat) (db : list nat) (fb : nat -> list nat -> out)
  (da : list nat) (fa : nat -> list nat -> out) (o : outcome) : bool :=
  match o with
  | Ok [b; a] => outputs_ok K db fb b && outputs_ok K da fa a
  | _ => false
  end.

(* the container of apply_product / apply_pairwise: one tensor per (t, k) of the function's
   output structure *)
Definition tasks_ok (tks : list (list (nat * nat))) (dims : list nat)
  (f : nat -> nat -> list nat -> out) (ys : list (list nd)) : bool :=
  (length ys =? length tks) &&
  forallb (fun a =>
             let tr := nth a tks [] in let yr := nth a ys [] in
             (length yr =? length tr) &&
             forallb (fun b => let tk := nth b tr (0, 0) in
                               tensor_ok dims (f (fst tk) (snd tk)) (nth b yr dnd))
                     (seq 0 (length tr)))
          (seq 0 (length tks)).

Definition ann_ok (X X0 : tensor) (start : option Z) (ann : nat * nat * nat) : bool :=
  let '(idx, s, e) := ann in
  let x := nth idx (tX X) [] in
  (idx <? length (tX X)) && (s <? e) && (e <=? length x) &&
  motif_ok X0 (T (tA X) (e - s) [spec_slice s e x]) &&
  span_in (tL X0) (sub_pos (tL X0) (e - s) start) (e - s).

Definition shuf_ok (B n : nat) (S : option (list (list dna))) : bool :=
  match S with
  | Some s => (length s =? B) && forallb (fun r => length r =? n) s
  | None => false
  end.

(* Inputs outside the property's scope (invalid one-hot tensors, spans off the edge, extra
   inputs whose batch size differs, a shuffle function that raised, an empty product, batch
   size 0) are not constrained: the text is silent about them. *)
Definition spec_ok (c : call) (o : outcome) : bool :=
  match c with
  | CMarg nk X M start args =>
      let B := length (tX X) in
      let p := sub_pos (tL X) (tL M) start in
      if valid_t X && motif_ok X M && span_in (tL X) p (tL M) && args_ok B args then
        before_after (kc nk)
          [B] (fun k q => h 0 k (ex_input (tX X) args (ix q 0)))
          [B] (fun k q => let i := ix q 0 in
                 h 0 k (expected_sub (Z.to_nat p) (tL M) (nth i (tX X) []) (motif_for X M i),
                        arg_rows args i)) o
      else true
  | CAbl nk X n Sf args =>
      let B := length X in
      if (1 <=? B) && (1 <=? n) && shuf_ok B n Sf && args_ok B args then
        before_after (kc nk)
          [B] (fun k q => h 0 k (ex_input X args (ix q 0)))
          [B; n] (fun k q => h 0 k (nth (ix q 1) (nth (ix q 0) (unopt Sf) []) [],
                                    arg_rows args (ix q 0))) o
      else true
  | CSpace nk X ms grid start args =>
      let B := length (tX X) in
      let Ys := map (fun sp => multisubstitute X ms sp start) grid in
      if (1 <=? B) && (1 <=? length grid) && forallb (fun r => length r =? length ms - 1) grid &&
         forallb (fun r => match r with Ok Y => length Y =? B | Err => false end) Ys &&
         args_ok B args then
        before_after (kc nk)
          [B; length grid] (fun k q => h 0 k (ex_input (tX X) args (ix q 0)))
          [B; length grid] (fun k q => h 0 k (nth (ix q 0) (unres (nth (ix q 1) Ys Err)) [],
                                              arg_rows args (ix q 0))) o
      else true
  | CMargAnn nk X X0 anns start args =>
      let B0 := length (tX X0) in
      if valid_t X0 && (1 <=? length anns) && forallb (ann_ok X X0 start) anns && args_ok B0 args then
        before_after (kc nk)
          [length anns; B0] (fun k q => h 0 k (ex_input (tX X0) args (ix q 1)))
          [length anns; B0]
          (fun k q => let '(idx, s, e) := nth (ix q 0) anns (0, 0, 0) in
                      let i := ix q 1 in
                      h 0 k (expected_sub (Z.to_nat (sub_pos (tL X0) (e - s) start)) (e - s)
                                          (nth i (tX X0) []) (spec_slice s e (nth idx (tX X) [])),
                             arg_rows args i)) o
      else true
  | CAblAnn nk X anns n Ss args =>
      if (1 <=? length anns) && (1 <=? n) && (length anns =? length Ss) &&
         forallb (fun idx => idx <? length X) anns && forallb (shuf_ok 1 n) Ss && args_ok 1 args then
        before_after (kc nk)
          [length anns; 1] (fun k q => h 0 k (nth (nth (ix q 0) anns 0) X [], arg_rows args 0))
          [length anns; 1; n]
          (fun k q => h 0 k (nth (ix q 2) (nth 0 (unopt (nth (ix q 0) Ss None)) []) [],
                             arg_rows args 0)) o
      else true
  | CProd sh X pargs bs =>
      if (1 <=? bs) && (1 <=? length X) && forallb (fun a => 1 <=? length a) pargs then
        match o with
        | Ok ys => tasks_ok (tasks sh) (length X :: map (@length row) pargs)
                     (fun t k q => h t k (nth (ix q 0) X [], pick pargs (tl q))) ys
        | Err => false
        end
      else true
  | CPair sh X pargs bs =>
      match pargs with
      | a0 :: _ =>
          if (1 <=? bs) && (1 <=? length X) && (1 <=? length a0) &&
             forallb (fun a => length a =? length a0) pargs then
            match o with
            | Ok ys => tasks_ok (tasks sh) [length X; length a0]
                         (fun t k q => h t k (nth (ix q 0) X [], arg_rows pargs (ix q 1))) ys
            | Err => false
            end
          else true
      | [] => true
      end
  end.

Definition pack (r : res (list nd * list nd)) : outcome :=
  do ba <- r ;; Ok [fst ba; snd ba].

Definition model (c : call) : outcome :=
  match c with
  | CMarg nk X M start args => pack (marginalize out h nk X M start args)
  | CAbl nk X n Sf args => pack (ablate out h nk X n Sf args)
  | CSpace nk X ms grid start args => pack (space out h nk X ms grid start args)
  | CMargAnn nk X X0 anns start args => pack (marginalize_annotations out h nk X X0 anns start args)
  | CAblAnn nk X anns n Ss args => pack (ablate_annotations out h nk X anns n Ss args)
  | CProd sh X pargs bs => apply_product out h sh X pargs bs
  | CPair sh X pargs bs => apply_pairwise out h sh X pargs bs
  end.

(* the tree before the fix: commits of /repo (annotation stacking over range(len(ys))) *)
Definition model_v0 (c : call) : outcome :=
  match c with
  | CMargAnn nk X X0 anns start args => pack (marginalize_annotations_v0 out h nk X X0 anns start args)
  | CAblAnn nk X anns n Ss args => pack (ablate_annotations_v0 out h nk X anns n Ss args)
  | _ => model c
  end.

Fixpoint nd_eqb (a b : nd) : bool :=
  match a, b with
  | Leaf x, Leaf y => out_eqb x y
  | Node l, Node m =>
      (fix go (l m : list nd) : bool :=
         match l, m with
         | [], [] => true
         | x :: l', y :: m' => nd_eqb x y && go l' m'
         | _, _ => false
         end) l m
  | _, _ => false
  end.

Definition outcome_eqb : outcome -> outcome -> bool := res_eqb (list_eqb (list_eqb nd_eqb)).

End Spec.

(* ---------- the instance the correspondence run evaluates: the user function is the
   injective encoding  (t, k, x, rows) |-> itself, so an output entry IS the evaluated input ---------- *)
Definition eout := (nat * nat * einput)%type.
Definition hE (t k : nat) (e : einput) : eout := (t, k, e).
Definition eout_eqb (a b : eout) : bool :=
  let '(t1, k1, (x1, r1)) := a in let '(t2, k2, (x2, r2)) := b in
  (t1 =? t2) && (k1 =? k2) && dna_eqb x1 x2 && list_eqb col_eqb r1 r2.

(* the same encoding when the user function itself edits the sequence before the model sees
   it (apply_product / apply_pairwise with func = marginalize: result t = 1 is the model on
   the example with the motif written at p); still an example-wise function of (x, rows) *)
Definition hEd (ed : option (nat * dna)) (t k : nat) (e : einput) : eout :=
  (t, k, (match ed with
          | Some (p, mo) => if t =? 1 then splice p (length mo) (fst e) mo else fst e
          | None => fst e
          end, snd e)).

(* how the result is packaged: 0 = a tensor, 1 = a list of tensors, 2 = a list of lists.
   before/after wrappers: 10 * (tag of before) + (tag of after) *)
Definition expected_tag (c : call) : nat :=
  let two nk := if is_tuple nk then 11 else 0 in
  match c with
  | CMarg nk _ _ _ _ | CAbl nk _ _ _ _ | CSpace nk _ _ _ _ _
  | CMargAnn nk _ _ _ _ _ | CAblAnn nk _ _ _ _ _ => two nk
  | CProd sh _ _ _ | CPair sh _ _ _ =>
      match sh with OT => 0 | OL _ => 1 | OLL _ _ => 2 end
  end.

(* one correspondence case: the call, the decoded outcome, the edit performed by the user
   function (None for plain encodings), the observed packaging of the result, and whether every
   tensor / array / list the caller passed in was bit-identical afterwards *)
Definition case := (call * outcome eout * option (nat * dna) * nat * bool)%type.

Definition check_case (c : case) : nat :=
  let '(cl, o, ed, tag, unchanged) := c in
  match o with
  | Ok _ =>
      verdict (outcome_eqb eout eout_eqb o (model eout (hEd ed) cl))
              ((tag =? expected_tag cl) && unchanged && spec_ok eout (hEd ed) eout_eqb cl o)
  | Err =>
      verdict (outcome_eqb eout eout_eqb o (model eout (hEd ed) cl))
              (unchanged && spec_ok eout (hEd ed) eout_eqb cl o)
  end.
