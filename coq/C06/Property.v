(* C06 - property theorems only.  Each is closed by [exact] of a lemma from Proofs.v. *)
From TM Require Import Base.Prelude Base.PyList C06.Model C06.Spec C06.Proofs.
From Coq Require Import QArith.
Local Open Scope nat_scope.

(* For EVERY example type, reference source, row-wise DeepLIFT pass and aggregation, every
   n >= 1 examples, every n_shuffles >= 1 and EVERY batch size b (any integer: smaller than,
   equal to, not dividing, larger than n_shuffles or n * n_shuffles):
   the loop returns, for each example in input order, the aggregation of the values of its
   pairs (example, reference j) for j = 0 .. n_shuffles-1 in shuffle order, and the references
   [[ref e j]]; the batches handed to the model, concatenated, are the pairs in order, and the
   reference look-ups / reference-function calls made (one per entry of Xi, rj of each flush)
   are exactly one per pair: shuffle j of example e for e = 0..n-1, j = 0..n_shuffles-1, in order.
   The right-hand sides do not mention b.                                                  *)
Theorem c06_closed_form :
  forall (EX R V W : Type) (dex : EX) (refsrc : EX -> nat -> R)
         (attr : list (EX * R) -> list V) (agg : EX -> list V -> W) (pairv : EX -> R -> V),
    (forall l, attr l = map (fun p => pairv (fst p) (snd p)) l) ->
    forall (ret : bool) (ns : nat) (b : Z) (X : list EX),
      1 <= ns -> X <> [] ->
      exists t,
        dls_model dex refsrc attr agg ret ns b X
        = (Ok (map (ex_attr refsrc agg pairv ns) X,
               if ret then Some (map (ex_refs refsrc ns) X) else None), t)
        /\ concat (map snd t) = flat_map (ex_pairs refsrc ns) X
        /\ concat (map (fun fl => combine (fst (fst fl)) (snd (fst fl))) t)
           = flat_map (fun e => map (fun j => (e, j)) (seq 0 ns)) (seq 0 (length X)).
Proof. exact @dls_closed_form. Qed.
Print Assumptions c06_closed_form.

(* the invariant of the queue at every point of the loop: z = length out, fewer than
   n_shuffles queued values, and the emitted raw blocks followed by the queue are exactly the
   values of the pairs flushed so far, in order *)
Theorem c06_queue_invariant :
  forall (EX R V W : Type) (dex : EX) (refsrc : EX -> nat -> R)
         (attr : list (EX * R) -> list V) (agg : EX -> list V -> W) (pairv : EX -> R -> V),
    (forall l, attr l = map (fun p => pairv (fst p) (snd p)) l) ->
    forall (ns : nat) (b : Z) (X : list EX) (i : nat),
      1 <= ns -> i <= length X * ns ->
      let s := run_loop dex refsrc attr agg ns b X i in
      let f := i - length (sXi s) in
      let '(q, z, out) := sq s in
      length q < ns /\ z = length out /\
      concat (map (fun e => map (vi dex refsrc pairv ns X) (seq (e * ns) ns)) (seq 0 z)) ++ q
      = map (vi dex refsrc pairv ns X) (seq 0 f).
Proof. exact @queue_invariant. Qed.
Print Assumptions c06_queue_invariant.

Theorem c06_batch_size_independent :
  forall (EX R V W : Type) (dex : EX) (refsrc : EX -> nat -> R)
         (attr : list (EX * R) -> list V) (agg : EX -> list V -> W) (pairv : EX -> R -> V),
    (forall l, attr l = map (fun p => pairv (fst p) (snd p)) l) ->
    forall ret ns (b1 b2 : Z) X, 1 <= ns -> X <> [] ->
      fst (dls_model dex refsrc attr agg ret ns b1 X) = fst (dls_model dex refsrc attr agg ret ns b2 X).
Proof. exact @dls_batch_independent. Qed.
Print Assumptions c06_batch_size_independent.

(* sub-lists, permutations, repetitions: the call on base[sel[0]], base[sel[1]], ... returns
   the attributions / references of the call on base at positions sel *)
Theorem c06_selection :
  forall (EX R V W : Type) (dex : EX) (refsrc : EX -> nat -> R)
         (attr : list (EX * R) -> list V) (agg : EX -> list V -> W) (pairv : EX -> R -> V),
    (forall l, attr l = map (fun p => pairv (fst p) (snd p)) l) ->
    forall ret ns (b1 b2 : Z) (base : list EX) (sel : list nat),
      1 <= ns -> sel <> [] -> base <> [] ->
      forall outs refs, fst (dls_model dex refsrc attr agg ret ns b1 base) = Ok (outs, refs) ->
      fst (dls_model dex refsrc attr agg ret ns b2 (map (fun i => nth i base dex) sel))
      = Ok (map (fun i => nth i outs (ex_attr refsrc agg pairv ns dex)) sel,
            match refs with
            | Some g => Some (map (fun i => nth i g (ex_refs refsrc ns dex)) sel)
            | None => None
            end).
Proof. exact @dls_selection. Qed.
Print Assumptions c06_selection.

(* the decidable spec evaluated at run time on the implementation's outcomes holds of the
   model, for all families of calls (all n, n_shuffles, batch sizes, selections, modes) *)
Theorem c06_attributions_independent : forall c, spec_ok c (model c) = true.
Proof. exact dls_spec. Qed.
Print Assumptions c06_attributions_independent.

(* ... and not only against the first call of its class: any two in-scope calls of the same
   configuration class agree on every example they share, wherever they stand in the sequence *)
Theorem c06_pairwise_enc :
  forall (c : cfgE) (v1 v2 : variation),
    uniform_refs c = true -> v_cls v1 = v_cls v2 ->
    scope (length (ce_base c)) (ns_of c) v1 = true -> scope (length (ce_base c)) (ns_of c) v2 = true ->
    consistent tensors_eqb tensor_eqb v1 v2 (fst (run_enc c v1)) (fst (run_enc c v2)) = true.
Proof. exact dls_pairwise_enc. Qed.
Print Assumptions c06_pairwise_enc.

Theorem c06_pairwise_real :
  forall (c : cfgR) (v1 v2 : variation),
    v_cls v1 = v_cls v2 ->
    scope (length (cr_base c)) (cr_ns c) v1 = true -> scope (length (cr_base c)) (cr_ns c) v2 = true ->
    consistent qlist_close zrow_eqb v1 v2 (fst (run_real c v1)) (fst (run_real c v2)) = true.
Proof. exact dls_pairwise_real. Qed.
Print Assumptions c06_pairwise_real.

(* with a reference function and an integer seed s, the function is called exactly once per
   pair, on the single row of the pair's example, with n = 1 and random_state = s + j *)
Theorem c06_reference_calls :
  forall (c : cfgE) (v : variation) (s : Z),
    uniform_refs c = true -> scope (length (ce_base c)) (ns_of c) v = true -> ce_seed c = Some s ->
    concat (map (fun fl : flushE => snd fl) (snd (run_enc c v)))
    = flat_map (fun ex => map (fun j => ([e_x ex], 1%Z, (s + Z.of_nat j)%Z)) (seq 0 (ns_of c)))
               (select dexE (ce_base c) (v_sel v)).
Proof. exact enc_refcalls. Qed.
Print Assumptions c06_reference_calls.

(* the hypotheses are satisfiable: 2 examples, 3 shuffles from the tagged reference function
   with seed 5, batch size 2 (every batch straddles, the second one two examples), raw
   outputs; three flushes of 2 pairs; shuffle j of an example uses seed 5 + j: the reference
   function is called once per pair on one row (third component of each flush) *)
Example c06_example :
  let c := CfgE Raw (Some 5%Z) 3 true 0 1%Z
                [ExE [[1;0];[0;2]]%Z [] []; ExE [[0;3];[1;1]]%Z [] []] in
  run_enc c (Var [0;1] 2 0)
  = (Ok ([[ [[1020;1440];[1680;1560]]; [[1260;1680];[960;1800]]; [[1500;960];[1200;1080]] ]%Z;
          [ [[1200;1860];[1500;1740]]; [[1440;1140];[1740;1020]]; [[1680;1380];[1020;1260]] ]%Z],
         Some [[ [[4;6];[7;6]]; [[5;7];[4;7]]; [[6;4];[5;4]] ]%Z;
               [ [[5;7];[6;7]]; [[6;4];[7;4]]; [[7;5];[4;5]] ]%Z]),
     [ ([ [[1;0];[0;2]]; [[1;0];[0;2]]; [[4;6];[7;6]]; [[5;7];[4;7]] ]%Z, [],
        [ ([ [[1;0];[0;2]] ], 1, 5); ([ [[1;0];[0;2]] ], 1, 6) ]%Z);
       ([ [[1;0];[0;2]]; [[0;3];[1;1]]; [[6;4];[5;4]]; [[5;7];[6;7]] ]%Z, [],
        [ ([ [[1;0];[0;2]] ], 1, 7); ([ [[0;3];[1;1]] ], 1, 5) ]%Z);
       ([ [[0;3];[1;1]]; [[0;3];[1;1]]; [[6;4];[7;4]]; [[7;5];[4;5]] ]%Z, [],
        [ ([ [[0;3];[1;1]] ], 1, 6); ([ [[0;3];[1;1]] ], 1, 7) ]%Z) ]).
Proof. vm_compute. reflexivity. Qed.
