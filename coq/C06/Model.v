(* C06 model: the pair / queue / flush loop of tangermeme.deep_lift_shap.deep_lift_shap.

   The loop runs over the pair indices i = 0 .. n*n_shuffles-1; pair i is
   (example i // n_shuffles, shuffle i % n_shuffles).  Indices are accumulated in Xi / rj; a
   batch is flushed when len(Xi) == batch_size or at the last pair: the examples X[Xi] and
   their references (references[Xi, rj], or references(X[e:e+1], n=1, random_state + j) one
   row at a time) go through one DeepLIFT pass, the per-row results are appended to the queue
   attr_, and while the queue holds at least n_shuffles entries a block of n_shuffles is
   emitted (stacked / averaged / averaged and masked by X[z]) and z advances.

   Everything the loop does not look into is a Section variable: the example type (a row of
   X together with its rows of args and, for a reference tensor, its rows of references), the
   reference source, the DeepLIFT pass on a batch, the aggregation.  No proofs here.         *)
From TM Require Import Base.Prelude Base.PyList.
From Coq Require Import QArith.
Open Scope Z_scope.

Section Loop.
  Context {EX R V W : Type}.
  Variable dex : EX.                          (* only to totalise X[e]; never reached in range *)
  Variable refsrc : EX -> nat -> R.           (* reference of (example, shuffle j) *)
  Variable attr : list (EX * R) -> list V.    (* one DeepLIFT pass on a batch of (example, reference) rows *)
  Variable agg : EX -> list V -> W.           (* one emitted block: raw stack / mean / mean * X[z] *)

  (* attr_, z, attributions *)
  Definition qstate := (list V * nat * list W)%type.

  (* while len(attr_) >= n_shuffles: emit attr_[:n_shuffles] for example z; attr_ = attr_[n_shuffles:]; z += 1 *)
  Fixpoint drain (fuel ns : nat) (X : list EX) (s : qstate) : qstate :=
    match fuel with
    | O => s
    | S f =>
        let '(q, z, out) := s in
        if (ns <=? length q)%nat
        then drain f ns X (skipn ns q, S z, out ++ [agg (nth z X dex) (firstn ns q)])
        else s
    end.

  (* each iteration removes ns >= 1 entries, so (length of the queue + 1) iterations suffice *)
  Definition drain_t (ns : nat) (X : list EX) (s : qstate) : qstate :=
    drain (S (length (fst (fst s)))) ns X s.

  Record state := St {
    sXi : list nat; srj : list nat;            (* indices of the pairs in the current batch *)
    sq : qstate;                               (* attr_, z, attributions *)
    srefs : list R;                            (* references_ *)
    (* per flush: Xi, rj (the index lists, hence the reference look-ups / reference-function
       calls made: one per pair, for shuffle rj[k] of example Xi[k]) and the batch of
       (example, reference) rows handed to the model, in order *)
    strace : list (list nat * list nat * list (EX * R)) }.

  Definition init : state := St [] [] ([], 0%nat, []) [] [].

  Definition flush (ns : nat) (X : list EX) (s : state) (Xi rj : list nat) : state :=
    let batch := map2 (fun e j => let ex := nth e X dex in (ex, refsrc ex j)) Xi rj in
    let '(q, z, out) := sq s in
    St [] [] (drain_t ns X (q ++ attr batch, z, out)) (srefs s ++ map snd batch)
       (strace s ++ [(Xi, rj, batch)]).

  Definition step (ns : nat) (b : Z) (X : list EX) (total : nat) (s : state) (i : nat) : state :=
    let Xi := sXi s ++ [(i / ns)%nat] in
    let rj := srj s ++ [(i mod ns)%nat] in
    if (Z.of_nat (length Xi) =? b) || (i =? total - 1)%nat
    then flush ns X s Xi rj
    else St Xi rj (sq s) (srefs s) (strace s).

  Definition run_loop (ns : nat) (b : Z) (X : list EX) (upto : nat) : state :=
    fold_left (step ns b X (length X * ns)) (seq 0 upto) init.

  (* torch.stack(attributions) raises on an empty list (n = 0 or n_shuffles = 0);
     references_ is reshaped to (n, n_shuffles, ...) *)
  Definition dls_model (ret_refs : bool) (ns : nat) (b : Z) (X : list EX)
    : res (list W * option (list (list R))) * list (list nat * list nat * list (EX * R)) :=
    let s := run_loop ns b X (length X * ns) in
    let '(_, _, out) := sq s in
    match out with
    | [] => (Err, strace s)
    | _ => (Ok (out, if ret_refs then Some (chunks ns (srefs s)) else None), strace s)
    end.
End Loop.

(* ================= instance 1: the harness's encoding / recording module ================= *)

(* a (A, L) tensor as L columns of A integers *)
Definition tensor := list (list Z).

Definition tmap (f : Z -> Z) (a : tensor) : tensor := map (map f) a.
Definition tmap2 (f : Z -> Z -> Z) (a b : tensor) : tensor := map2 (map2 f) a b.

(* one example: its row of X, its row of every extra argument, its rows of the reference tensor *)
Record exE := ExE { e_x : tensor; e_args : list (list Z); e_refs : list tensor }.
Definition dexE : exE := ExE [] [] [].

Inductive mode := Raw | Proc | Hyp.     (* raw_outputs=True | default | hypothetical=True *)

Fixpoint imap_from {A B} (i : nat) (f : nat -> A -> B) (l : list A) : list B :=
  match l with
  | [] => []
  | x :: xs => f i x :: imap_from (S i) f xs
  end.

(* the harness's deterministic tagged reference functions, called on ONE row with seed s:
   ref[c, l] = (3 * x[c, l] + s + c + 2 * l) mod 4 + 4
   (values 4..7, examples hold 0..3: a reference entry never equals the example's entry) *)
Definition tagref (x : tensor) (s : Z) : tensor :=
  imap_from 0 (fun l col =>
    imap_from 0 (fun c v => (3 * v + s + Z.of_nat c + 2 * Z.of_nat l) mod 4 + 4) col) x.

(* seed = None: references is the tensor whose rows travel with the example;
   seed = Some s: references(X[e:e+1], n=1, random_state = s + j) *)
Definition refsrcE (seed : option Z) (ex : exE) (j : nat) : tensor :=
  match seed with
  | None => nth j (e_refs ex) []
  | Some s => tagref (e_x ex) (s + Z.of_nat j)
  end.

Definition sumZ (l : list Z) : Z := fold_right Z.add 0 l.
Definition dot (a b : list Z) : Z := sumZ (map2 Z.mul a b).

(* the multipliers reaching an (example, reference) row: the harness's registered op returns
   60 * (x + 4 * ref + 32 * (sum of the example's arg entries)) times the gradient arriving from
   the ReLU behind it, which is k = 1 under the built-in rescale rule (inputs are non-negative
   and example and reference entries always differ) and k = 2 when the call overrides the
   ReLU rule through additional_nonlinear_ops with "twice the incoming gradient" *)
Definition mult (k : Z) (ex : exE) (r : tensor) : tensor :=
  let t := sumZ (map sumZ (e_args ex)) in
  tmap2 (fun xv rv => k * (60 * (xv + 4 * rv + 32 * t))) (e_x ex) r.

(* hypothetical_attributions: projected[i, l] = sum_c (delta(c, i) - ref[c, l]) * m[c, l] *)
Definition project (r m : tensor) : tensor :=
  map2 (fun rc mc => let d := dot rc mc in map (fun mi => mi - d) mc) r m.

Definition pairE (md : mode) (k : Z) (ex : exE) (r : tensor) : tensor :=
  match md with
  | Raw => mult k ex r
  | _ => project r (mult k ex r)
  end.

Definition attrE (md : mode) (k : Z) (batch : list (exE * tensor)) : list tensor :=
  map (fun p => pairE md k (fst p) (snd p)) batch.

(* torch.stack(vs).mean(dim=0): exact here because every entry is a multiple of 60 and
   n_shuffles <= 6 in the generated cases (the harness flags non-integral outputs) *)
Definition tmean (vs : list tensor) : tensor :=
  match vs with
  | [] => []
  | v :: rest => tmap (fun s => s / Z.of_nat (length vs)) (fold_left (tmap2 Z.add) rest v)
  end.

Definition aggE (md : mode) (ex : exE) (vs : list tensor) : list tensor :=
  match md with
  | Raw => vs
  | Hyp => [tmean vs]
  | Proc => [tmap2 Z.mul (tmean vs) (e_x ex)]
  end.

(* n_shuffles: the parameter, or references.shape[1] when a tensor is given *)
Definition nsE (seed : option Z) (ns_param : nat) (X : list exE) : nat :=
  match seed with
  | Some _ => ns_param
  | None => length (e_refs (hd dexE X))
  end.

Definition dlsE (md : mode) (k : Z) (seed : option Z) (ns_param : nat) (ret_refs : bool) (b : Z) (X : list exE) :=
  dls_model dexE (refsrcE seed) (attrE md k) (aggE md) ret_refs (nsE seed ns_param X) b X.

(* ================= instance 2: a real network with the real dinucleotide_shuffle =========== *)

(* The per-pair floating-point values are torch's; the loop is run symbolically: a pair value
   is (example id, the reference it was computed against), and a block is accepted only if it
   consists of exactly this example's pairs against exactly its references in shuffle order --
   then the example's value in the oracle run is returned, otherwise the empty list.  There is
   one oracle value per configuration class of the call (class 0: built-in rules; class 1: the
   call overrides the rule of the network's non-linearity through additional_nonlinear_ops). *)
Record exR := ExR { r_id : nat; r_vals : list (list Q); r_refs : list (list Z) }.
Definition dexR : exR := ExR 0 [] [].

Definition refsrcR (ex : exR) (j : nat) : list Z := nth j (r_refs ex) [].
Definition attrR (batch : list (exR * list Z)) : list (nat * list Z) :=
  map (fun p => (r_id (fst p), snd p)) batch.
Definition aggR (cls : nat) (ex : exR) (vs : list (nat * list Z)) : list Q :=
  if list_eqb Nat.eqb (map fst vs) (map (fun _ => r_id ex) (r_refs ex)) &&
     list_eqb (list_eqb Z.eqb) (map snd vs) (r_refs ex)
  then nth cls (r_vals ex) [] else [].

Definition dlsR (cls ns : nat) (ret_refs : bool) (b : Z) (X : list exR) :=
  dls_model dexR refsrcR attrR (aggR cls) ret_refs ns b X.
