(* C06 proofs: the pair / queue / flush loop returns, for every batch size, the per-example
   aggregation of the per-pair values in shuffle order; consequences for sub-lists,
   permutations and repeated calls.                                                        *)
From TM Require Import Base.Prelude Base.PyList C06.Model C06.Spec.
From Coq Require Import QArith Qabs.
Local Open Scope nat_scope.

(* ---------- list helpers ---------- *)

Lemma forallb_seq (f : nat -> bool) n :
  forallb f (seq 0 n) = true <-> (forall q, q < n -> f q = true).
Proof.
  rewrite forallb_forall. split; intros H q Hq.
  - apply H. apply in_seq. lia.
  - apply in_seq in Hq. apply H. lia.
Qed.

Lemma map2_same {A B C D} (f : B -> C -> D) (a : A -> B) (c : A -> C) l :
  map2 f (map a l) (map c l) = map (fun x => f (a x) (c x)) l.
Proof. unfold map2. induction l as [|x xs IH]; cbn; [reflexivity|]. rewrite IH. reflexivity. Qed.

Lemma firstn_app_exact {T} n (a b : list T) : length a = n -> firstn n (a ++ b) = a.
Proof.
  intros H. rewrite firstn_app. replace (n - length a) with 0 by lia.
  cbn. rewrite app_nil_r. subst n. apply firstn_all.
Qed.

Lemma skipn_app_exact {T} n (a b : list T) : length a = n -> skipn n (a ++ b) = b.
Proof.
  intros H. rewrite skipn_app. replace (n - length a) with 0 by lia.
  subst n. rewrite skipn_all. reflexivity.
Qed.

Lemma map_seq_shift {T} (f : nat -> T) n : forall a,
  map f (seq a n) = map (fun j => f (a + j)) (seq 0 n).
Proof.
  induction n as [|n IH]; intros a; [reflexivity|].
  cbn [seq map]. rewrite Nat.add_0_r. f_equal.
  rewrite IH. rewrite <- seq_shift, map_map. apply map_ext. intros j. f_equal. lia.
Qed.

Lemma map_nth_seq {A B} (F : A -> B) (d : A) (l : list A) :
  map (fun e => F (nth e l d)) (seq 0 (length l)) = map F l.
Proof.
  induction l as [|x xs IH]; [reflexivity|].
  cbn [length seq map nth]. f_equal. rewrite <- seq_shift, map_map. exact IH.
Qed.

Lemma block_index ns e j : j < ns -> (e * ns + j) / ns = e /\ (e * ns + j) mod ns = j.
Proof.
  intros H. assert (Hn : ns <> 0) by lia. split.
  - rewrite Nat.div_add_l by exact Hn. rewrite Nat.div_small by exact H. lia.
  - rewrite Nat.add_comm, Nat.mod_add by exact Hn. apply Nat.mod_small. exact H.
Qed.

Lemma seq_blocks ns m : forall z,
  seq (z * ns) (m * ns) = concat (map (fun e => seq (e * ns) ns) (seq z m)).
Proof.
  induction m as [|m IH]; intros z; [reflexivity|].
  cbn [Nat.mul seq map concat]. rewrite seq_app. f_equal.
  replace (z * ns + ns) with (S z * ns) by lia. apply IH.
Qed.

Lemma chunks_fuel_concat {T} ns : 1 <= ns -> forall (blocks : list (list T)) fuel,
  Forall (fun b => length b = ns) blocks -> length blocks <= fuel ->
  chunks_fuel fuel ns (concat blocks) = blocks.
Proof.
  intros Hns. induction blocks as [|b0 bs IH]; intros fuel HF Hf.
  - destruct fuel; reflexivity.
  - pose proof (Forall_inv HF) as Hb0. pose proof (Forall_inv_tail HF) as Hbs.
    destruct fuel as [|f]; [cbn in Hf; lia|].
    cbn [concat]. destruct b0 as [|y ys]; [cbn in Hb0; lia|].
    change (chunks_fuel (S f) ns ((y :: ys) ++ concat bs))
      with (firstn ns ((y :: ys) ++ concat bs)
            :: chunks_fuel f ns (skipn ns ((y :: ys) ++ concat bs))).
    rewrite firstn_app_exact, skipn_app_exact by exact Hb0.
    f_equal. apply IH; [exact Hbs | cbn in Hf; lia].
Qed.

Lemma length_concat_const {T} ns (blocks : list (list T)) :
  Forall (fun b => length b = ns) blocks -> length (concat blocks) = length blocks * ns.
Proof.
  induction 1 as [|b bs Hb _ IH]; [reflexivity|].
  cbn [concat length]. rewrite app_length, IH, Hb. reflexivity.
Qed.

Lemma chunks_concat {T} ns (blocks : list (list T)) : 1 <= ns ->
  Forall (fun b => length b = ns) blocks -> chunks ns (concat blocks) = blocks.
Proof.
  intros Hns HF. unfold chunks. apply chunks_fuel_concat; auto.
  rewrite (length_concat_const ns) by exact HF. nia.
Qed.

(* ================= the generic loop ================= *)

Section LoopProofs.
  Context {EX R V W : Type}.
  Variable dex : EX.
  Variable refsrc : EX -> nat -> R.
  Variable attr : list (EX * R) -> list V.
  Variable agg : EX -> list V -> W.
  (* the DeepLIFT pass acts row by row: value of an (example, reference) row *)
  Variable pairv : EX -> R -> V.
  Hypothesis attr_rowwise : forall l, attr l = map (fun p => pairv (fst p) (snd p)) l.

  Variable ns : nat.
  Hypothesis Hns : 1 <= ns.
  Variable X : list EX.

  Notation drain_t' := (drain_t dex agg ns X).

  (* pair k of the loop, its value, its reference *)
  Definition pi (k : nat) : EX * R := let ex := nth (k / ns) X dex in (ex, refsrc ex (k mod ns)).
  Definition vi (k : nat) : V := pairv (fst (pi k)) (snd (pi k)).
  Definition ri (k : nat) : R := snd (pi k).

  (* the block emitted for example e *)
  Definition block (e : nat) : W := agg (nth e X dex) (map vi (seq (e * ns) ns)).

  Lemma drain_stable : forall f g (s : qstate),
    length (fst (fst s)) < f -> length (fst (fst s)) < g ->
    drain dex agg f ns X s = drain dex agg g ns X s.
  Proof.
    induction f as [|f IH]; intros g [[q z] out] Hf Hg; cbn [fst] in *; [lia|].
    destruct g as [|g]; [lia|]. cbn [drain].
    destruct (Nat.leb_spec ns (length q)) as [Hle|Hlt]; [|reflexivity].
    apply IH; cbn [fst]; rewrite skipn_length; lia.
  Qed.

  Lemma drain_t_unfold q z out :
    drain_t' (q, z, out) =
    if ns <=? length q
    then drain_t' (skipn ns q, S z, out ++ [agg (nth z X dex) (firstn ns q)])
    else (q, z, out).
  Proof.
    unfold drain_t at 1. cbn [fst drain].
    destruct (Nat.leb_spec ns (length q)) as [Hle|Hlt]; [|reflexivity].
    unfold drain_t. apply drain_stable; cbn [fst]; rewrite skipn_length; lia.
  Qed.

  Lemma drain_t_short q z out : length q < ns -> drain_t' (q, z, out) = (q, z, out).
  Proof.
    intros H. rewrite drain_t_unfold.
    destruct (Nat.leb_spec ns (length q)); [lia | reflexivity].
  Qed.

  (* feeding the queue in two portions, draining after each, is draining the whole *)
  Lemma drain_t_app : forall k q z out l, length q <= k ->
    drain_t' (q ++ l, z, out) =
    let '(q', z', out') := drain_t' (q, z, out) in drain_t' (q' ++ l, z', out').
  Proof.
    induction k as [|k IH]; intros q z out l Hk.
    - rewrite (drain_t_short q) by lia. reflexivity.
    - rewrite (drain_t_unfold q).
      destruct (Nat.leb_spec ns (length q)) as [Hle|Hlt]; [|reflexivity].
      rewrite (drain_t_unfold (q ++ l)). rewrite app_length.
      destruct (Nat.leb_spec ns (length q + length l)) as [_|Hc]; [|lia].
      rewrite firstn_app, skipn_app. replace (ns - length q) with 0 by lia.
      cbn [firstn skipn]. rewrite app_nil_r.
      apply IH. rewrite skipn_length. lia.
  Qed.

  Lemma drain_t_blocks (v : nat -> V) : forall m z out,
    drain_t' (map v (seq (z * ns) (m * ns)), z, out) =
    ([], z + m, out ++ map (fun e => agg (nth e X dex) (map v (seq (e * ns) ns))) (seq z m)).
  Proof.
    induction m as [|m IH]; intros z out.
    - cbn [Nat.mul seq map]. rewrite drain_t_short by (cbn; lia).
      rewrite Nat.add_0_r, app_nil_r. reflexivity.
    - cbn [Nat.mul]. rewrite seq_app, map_app. rewrite drain_t_unfold.
      rewrite app_length, !map_length, !seq_length.
      destruct (Nat.leb_spec ns (ns + m * ns)) as [_|Hc]; [|lia].
      rewrite firstn_app_exact, skipn_app_exact by (rewrite map_length, seq_length; reflexivity).
      replace (z * ns + ns) with (S z * ns) by lia.
      rewrite IH. cbn [seq map]. rewrite <- app_assoc. cbn [app].
      f_equal. f_equal. lia.
  Qed.

  (* the queue machine after the values of the first f pairs have been fed: the blocks of the
     first f / ns examples have been emitted, the queue holds the values of the remaining
     f mod ns pairs -- flatten(raw blocks) ++ queue is the processed prefix,
     length queue < ns, z = length out *)
  Lemma drain_t_prefix f :
    drain_t' (map vi (seq 0 f), 0, []) =
    (map vi (seq ((f / ns) * ns) (f mod ns)), f / ns, map block (seq 0 (f / ns))).
  Proof.
    assert (Hn : ns <> 0) by lia.
    pose proof (Nat.div_mod f ns Hn) as E.
    pose proof (Nat.mod_upper_bound f ns Hn) as Hr.
    set (m := f / ns) in *. set (r := f mod ns) in *.
    replace (seq 0 f) with (seq (0 * ns) (m * ns) ++ seq (m * ns) r).
    2:{ cbn [Nat.mul]. rewrite <- seq_app. f_equal. lia. }
    rewrite map_app.
    rewrite (drain_t_app (length (map vi (seq (0 * ns) (m * ns))))) by lia.
    rewrite drain_t_blocks. cbn [app Nat.add].
    apply drain_t_short. rewrite map_length, seq_length. exact Hr.
  Qed.

  Lemma drain_t_post f :
    let '(q, z, out) := drain_t' (map vi (seq 0 f), 0, []) in
    length q < ns /\ z = length out /\
    concat (map (fun e => map vi (seq (e * ns) ns)) (seq 0 z)) ++ q = map vi (seq 0 f).
  Proof.
    rewrite drain_t_prefix.
    assert (Hn : ns <> 0) by lia.
    pose proof (Nat.div_mod f ns Hn) as E.
    pose proof (Nat.mod_upper_bound f ns Hn) as Hr.
    repeat split.
    - rewrite map_length, seq_length. exact Hr.
    - rewrite map_length, seq_length. reflexivity.
    - rewrite <- (map_map (fun e => seq (e * ns) ns) (map vi)), <- concat_map.
      rewrite <- (seq_blocks ns (f / ns) 0). rewrite <- map_app. cbn [Nat.mul].
      rewrite <- seq_app. f_equal. f_equal. lia.
  Qed.

  (* ---------- the loop invariant ---------- *)

  Variable b : Z.
  Variable total : nat.

  Definition Inv (i : nat) (s : state (EX := EX) (R := R) (V := V) (W := W)) : Prop :=
    let p := length (sXi s) in
    p <= i /\
    sXi s = map (fun k => k / ns) (seq (i - p) p) /\
    srj s = map (fun k => k mod ns) (seq (i - p) p) /\
    sq s = drain_t' (map vi (seq 0 (i - p)), 0, []) /\
    srefs s = map ri (seq 0 (i - p)) /\
    concat (map snd (strace s)) = map pi (seq 0 (i - p)) /\
    concat (map (fun t => combine (fst (fst t)) (snd (fst t))) (strace s))
      = map (fun k => (k / ns, k mod ns)) (seq 0 (i - p)) /\
    (i = total -> 0 < total -> p = 0).

  Lemma inv_init : Inv 0 init.
  Proof.
    unfold Inv, init. cbn [sXi srj sq srefs strace length Nat.sub seq map concat].
    repeat split; try reflexivity; try lia.
    rewrite drain_t_short by (cbn; lia). reflexivity.
  Qed.

  Lemma inv_step i s : i < total -> Inv i s ->
    Inv (S i) (step dex refsrc attr agg ns b X total s i).
  Proof.
    intros Hi (Hp & HXi & Hrj & Hq & Hrf & Htr & Hix & _).
    set (p := length (sXi s)) in *. set (f := i - p) in *.
    assert (Hfi : f + p = i) by (unfold f; lia).
    assert (EXi : sXi s ++ [i / ns] = map (fun k => k / ns) (seq f (S p))).
    { rewrite HXi, seq_S, map_app. cbn [map]. rewrite Hfi. reflexivity. }
    assert (Erj : srj s ++ [i mod ns] = map (fun k => k mod ns) (seq f (S p))).
    { rewrite Hrj, seq_S, map_app. cbn [map]. rewrite Hfi. reflexivity. }
    unfold step.
    destruct ((Z.of_nat (length (sXi s ++ [(i / ns)%nat])) =? b)%Z || (i =? total - 1)) eqn:Hc.
    - (* flush *)
      unfold flush. rewrite EXi, Erj.
      rewrite (map2_same (fun e j => let ex := nth e X dex in (ex, refsrc ex j))
                         (fun k => k / ns) (fun k => k mod ns)).
      change (map (fun x => let ex := nth (x / ns) X dex in (ex, refsrc ex (x mod ns))) (seq f (S p)))
        with (map pi (seq f (S p))).
      destruct (sq s) as [[q z] out] eqn:Esq.
      unfold Inv. cbn [sXi srj sq srefs strace length]. rewrite Nat.sub_0_r.
      assert (Eseq : seq 0 (S i) = seq 0 f ++ seq f (S p)).
      { rewrite <- seq_app. f_equal. lia. }
      repeat split; try reflexivity; try lia.
      + rewrite attr_rowwise, map_map.
        change (map (fun x => pairv (fst (pi x)) (snd (pi x))) (seq f (S p)))
          with (map vi (seq f (S p))).
        rewrite Eseq, map_app.
        rewrite (drain_t_app (length (map vi (seq 0 f))) (map vi (seq 0 f)) 0 []
                             (map vi (seq f (S p)))) by lia.
        rewrite <- Hq. reflexivity.
      + rewrite Hrf, map_map. change (map (fun x => snd (pi x)) (seq f (S p))) with (map ri (seq f (S p))).
        rewrite Eseq, map_app. reflexivity.
      + rewrite map_app, concat_app. cbn [map concat snd]. rewrite app_nil_r, Htr, Eseq, map_app. reflexivity.
      + rewrite map_app, concat_app. cbn [map concat fst snd]. rewrite app_nil_r, Hix, Eseq, map_app.
        f_equal. clear. induction (seq f (S p)) as [|k l IH]; cbn; [reflexivity|]. rewrite IH. reflexivity.
    - (* keep accumulating *)
      apply orb_false_iff in Hc as [_ Hlast]. apply Nat.eqb_neq in Hlast.
      unfold Inv. cbn [sXi srj sq srefs strace].
      rewrite app_length. cbn [length]. fold p.
      replace (S i - (p + 1)) with f by lia. replace (p + 1) with (S p) by lia.
      repeat split; auto; lia.
  Qed.

  Lemma run_inv : forall i, i <= total ->
    Inv i (fold_left (step dex refsrc attr agg ns b X total) (seq 0 i) init).
  Proof.
    induction i as [|i IH]; intros Hi.
    - exact inv_init.
    - rewrite seq_S, fold_left_app. cbn [fold_left Nat.add]. apply inv_step; [lia|]. apply IH. lia.
  Qed.
End LoopProofs.

(* ---------- closed form of deep_lift_shap's bookkeeping ---------- *)

Section Closed.
  Context {EX R V W : Type}.
  Variable dex : EX.
  Variable refsrc : EX -> nat -> R.
  Variable attr : list (EX * R) -> list V.
  Variable agg : EX -> list V -> W.
  Variable pairv : EX -> R -> V.
  Hypothesis attr_rowwise : forall l, attr l = map (fun p => pairv (fst p) (snd p)) l.

  (* attribution / references / pairs of one example: functions of the example alone *)
  Definition ex_refs (ns : nat) (ex : EX) : list R := map (refsrc ex) (seq 0 ns).
  Definition ex_pairs (ns : nat) (ex : EX) : list (EX * R) := map (fun j => (ex, refsrc ex j)) (seq 0 ns).
  Definition ex_attr (ns : nat) (ex : EX) : W := agg ex (map (fun j => pairv ex (refsrc ex j)) (seq 0 ns)).

  Lemma block_vals ns X e : 1 <= ns ->
    map (vi dex refsrc pairv ns X) (seq (e * ns) ns)
    = map (fun j => pairv (nth e X dex) (refsrc (nth e X dex) j)) (seq 0 ns).
  Proof.
    intros Hns. rewrite map_seq_shift. apply map_ext_in. intros j Hj. apply in_seq in Hj.
    unfold vi, pi. cbn [fst snd].
    destruct (block_index ns e j) as [-> ->]; [lia|]. reflexivity.
  Qed.

  Lemma block_pairs ns X e : 1 <= ns ->
    map (pi dex refsrc ns X) (seq (e * ns) ns) = ex_pairs ns (nth e X dex).
  Proof.
    intros Hns. rewrite map_seq_shift. apply map_ext_in. intros j Hj. apply in_seq in Hj.
    unfold pi. destruct (block_index ns e j) as [-> ->]; [lia|]. reflexivity.
  Qed.

  Theorem dls_closed_form (ret : bool) (ns : nat) (b : Z) (X : list EX) :
    1 <= ns -> X <> [] ->
    exists t,
      dls_model dex refsrc attr agg ret ns b X
      = (Ok (map (ex_attr ns) X, if ret then Some (map (ex_refs ns) X) else None), t)
      /\ concat (map snd t) = flat_map (ex_pairs ns) X
      /\ concat (map (fun fl => combine (fst (fst fl)) (snd (fst fl))) t)
         = flat_map (fun e => map (fun j => (e, j)) (seq 0 ns)) (seq 0 (length X)).
  Proof.
    intros Hns HX. unfold dls_model, run_loop.
    set (total := length X * ns).
    pose proof (run_inv dex refsrc attr agg pairv attr_rowwise ns Hns X b total total (le_n _)) as I.
    set (s := fold_left (step dex refsrc attr agg ns b X total) (seq 0 total) init) in *.
    destruct I as (_ & _ & _ & Hq & Hrf & Htr & Hix & Hlast).
    assert (Hn : 1 <= length X) by (destruct X; [congruence | cbn; lia]).
    assert (Htot : 0 < total) by (unfold total; nia).
    rewrite (Hlast eq_refl Htot) in *. rewrite Nat.sub_0_r in *.
    exists (strace s).
    (* the queue machine has emitted every block *)
    change (seq 0 total) with (seq (0 * ns) total) in Hq. unfold total in Hq.
    rewrite (drain_t_blocks dex refsrc agg ns Hns X) in Hq. cbn [app Nat.add] in Hq.
    rewrite Hq.
    assert (Eout : map (fun e => agg (nth e X dex) (map (vi dex refsrc pairv ns X) (seq (e * ns) ns)))
                       (seq 0 (length X)) = map (ex_attr ns) X).
    { rewrite <- (map_nth_seq (ex_attr ns) dex X). apply map_ext. intros e.
      unfold ex_attr. rewrite block_vals by exact Hns. reflexivity. }
    rewrite Eout.
    assert (Erefs : chunks ns (srefs s) = map (ex_refs ns) X).
    { rewrite Hrf. unfold total. change (seq 0 (length X * ns)) with (seq (0 * ns) (length X * ns)).
      rewrite seq_blocks, concat_map, map_map.
      rewrite chunks_concat; [| exact Hns |].
      - rewrite <- (map_nth_seq (ex_refs ns) dex X). apply map_ext. intros e.
        unfold ex_refs. rewrite map_seq_shift. apply map_ext_in. intros j Hj. apply in_seq in Hj.
        unfold ri, pi. cbn [snd]. destruct (block_index ns e j) as [-> ->]; [lia|]. reflexivity.
      - apply Forall_forall. intros l Hl. apply in_map_iff in Hl as (e & <- & _).
        rewrite map_length, seq_length. reflexivity. }
    split; [|split].
    - rewrite Erefs. destruct X as [|x X']; [congruence|]. reflexivity.
    - rewrite Htr. unfold total. change (seq 0 (length X * ns)) with (seq (0 * ns) (length X * ns)).
      rewrite seq_blocks, concat_map, map_map, flat_map_concat_map. f_equal.
      rewrite <- (map_nth_seq (ex_pairs ns) dex X). apply map_ext. intros e.
      apply block_pairs. exact Hns.
    - rewrite Hix. unfold total. change (seq 0 (length X * ns)) with (seq (0 * ns) (length X * ns)).
      rewrite seq_blocks, concat_map, map_map, flat_map_concat_map. f_equal.
      apply map_ext. intros e. rewrite map_seq_shift. apply map_ext_in. intros j Hj. apply in_seq in Hj.
      destruct (block_index ns e j) as [-> ->]; [lia|]. reflexivity.
  Qed.

  (* the state of the queue machine at every point of the loop (after i pairs, f = i - pending
     of them flushed): z = length out, fewer than ns queued values, and the emitted raw blocks
     followed by the queue are the values of the first f pairs, in order *)
  Theorem queue_invariant (ns : nat) (b : Z) (X : list EX) (i : nat) :
    1 <= ns -> i <= length X * ns ->
    let s := run_loop dex refsrc attr agg ns b X i in
    let f := i - length (sXi s) in
    let '(q, z, out) := sq s in
    length q < ns /\ z = length out /\
    concat (map (fun e => map (vi dex refsrc pairv ns X) (seq (e * ns) ns)) (seq 0 z)) ++ q
    = map (vi dex refsrc pairv ns X) (seq 0 f).
  Proof.
    intros Hns Hi s f. unfold s, f, run_loop.
    pose proof (run_inv dex refsrc attr agg pairv attr_rowwise ns Hns X b (length X * ns) i Hi) as I.
    destruct I as (_ & _ & _ & Hq & _). rewrite Hq.
    apply (drain_t_post dex refsrc agg pairv ns Hns X).
  Qed.

  (* --- corollaries: batch size, sub-lists, permutations --- *)

  Corollary dls_batch_independent ret ns (b1 b2 : Z) X : 1 <= ns -> X <> [] ->
    fst (dls_model dex refsrc attr agg ret ns b1 X) = fst (dls_model dex refsrc attr agg ret ns b2 X).
  Proof.
    intros Hns HX.
    destruct (dls_closed_form ret ns b1 X Hns HX) as (t1 & E1 & _).
    destruct (dls_closed_form ret ns b2 X Hns HX) as (t2 & E2 & _).
    rewrite E1, E2. reflexivity.
  Qed.

  (* passing the examples base[sel[0]], base[sel[1]], ... (any sub-list, any order, repeats
     allowed) returns the attributions / references of the full call at those positions *)
  Corollary dls_selection ret ns (b1 b2 : Z) (base : list EX) (sel : list nat) :
    1 <= ns -> sel <> [] -> base <> [] ->
    forall outs refs, fst (dls_model dex refsrc attr agg ret ns b1 base) = Ok (outs, refs) ->
    fst (dls_model dex refsrc attr agg ret ns b2 (map (fun i => nth i base dex) sel))
    = Ok (map (fun i => nth i outs (ex_attr ns dex)) sel,
          match refs with
          | Some g => Some (map (fun i => nth i g (ex_refs ns dex)) sel)
          | None => None
          end).
  Proof.
    intros Hns Hsel Hbase outs refs H1.
    destruct (dls_closed_form ret ns b1 base Hns Hbase) as (t1 & E1 & _).
    rewrite E1 in H1. cbn [fst] in H1. injection H1 as <- <-.
    assert (Hne : map (fun i => nth i base dex) sel <> []) by (destruct sel; [congruence | discriminate]).
    destruct (dls_closed_form ret ns b2 _ Hns Hne) as (t2 & E2 & _).
    rewrite E2. cbn [fst]. rewrite !map_map. do 2 f_equal.
    - apply map_ext. intros i. symmetry. apply map_nth.
    - destruct ret; [|reflexivity]. f_equal. apply map_ext. intros i.
      symmetry. apply map_nth.
  Qed.
End Closed.

(* ================= the decidable spec holds of the model ================= *)

Lemma nth_error_map_select {A B} (F : A -> B) (d : A) base sel p : p < length sel ->
  nth_error (map F (select d base sel)) p = Some (F (nth (nth p sel 0) base d)).
Proof.
  intros H. unfold select. rewrite map_map.
  rewrite nth_error_map. rewrite (nth_error_nth' sel 0 H). reflexivity.
Qed.

Lemma list_eqb_refl {A} (e : A -> A -> bool) : (forall a, e a a = true) -> forall l, list_eqb e l l = true.
Proof. intros H; induction l as [|x xs IH]; cbn; [reflexivity|]. rewrite H, IH. reflexivity. Qed.

Section Consistent.
  Context {EXT W R : Type}.
  Variable eqW : W -> W -> bool.
  Variable eqR : R -> R -> bool.
  Hypothesis eqW_refl : forall a, eqW a a = true.
  Hypothesis eqR_refl : forall a, eqR a a = true.
  Variable d : EXT.
  Variable base : list EXT.
  Variable F : nat -> EXT -> W.        (* attribution of an example, per configuration class *)
  Variable G : EXT -> list R.          (* references of an example *)
  Variable ret : bool.

  Definition closed_run (v : variation) : runres (W := W) (R := R) :=
    Ok (map (F (v_cls v)) (select d base (v_sel v)),
        if ret then Some (map G (select d base (v_sel v))) else None).

  (* any two calls of the same class whose results have the closed form agree on every shared
     example *)
  Lemma consistent_closed v0 v : v_cls v0 = v_cls v ->
    consistent eqW eqR v0 v (closed_run v0) (closed_run v) = true.
  Proof.
    intros Hc. unfold consistent, closed_run. rewrite Hc.
    rewrite !map_length. unfold select at 1 2. rewrite !map_length, !Nat.eqb_refl. cbn [andb].
    apply forallb_seq. intros p0 Hp0. apply forallb_seq. intros p Hp.
    destruct (Nat.eqb_spec (nth p0 (v_sel v0) 0) (nth p (v_sel v) 0)) as [E|_]; [|reflexivity].
    rewrite !nth_error_map_select by assumption. rewrite E. cbn [opt_eqb]. rewrite eqW_refl. cbn [andb].
    destruct ret; [|reflexivity].
    rewrite !nth_error_map_select by assumption. rewrite E. cbn [opt_eqb].
    apply list_eqb_refl. exact eqR_refl.
  Qed.

  Lemma in_combine_map {A B} (f : A -> B) (l : list A) a r : In (a, r) (combine l (map f l)) -> r = f a.
  Proof.
    induction l as [|x xs IH]; cbn; [tauto|]. intros [E|H]; [injection E as <- <-; reflexivity | auto].
  Qed.

  Lemma first_of_class_spec (c : nat) (vrs : list (variation * runres (W := W) (R := R))) vr :
    first_of_class c vrs = Some vr -> In vr vrs /\ v_cls (fst vr) = c.
  Proof.
    induction vrs as [|x xs IH]; cbn [first_of_class]; [discriminate|].
    destruct (Nat.eqb_spec (v_cls (fst x)) c) as [E|_].
    - intros H. injection H as <-. split; [left; reflexivity | exact E].
    - intros H. destruct (IH H) as [Hin Hc]. split; [right; exact Hin | exact Hc].
  Qed.

  (* a family every in-scope member of which has the closed form satisfies the spec, whatever
     the order of the calls and the classes in between *)
  Lemma spec_family_closed (N ns : nat) (run : variation -> runres (W := W) (R := R)) vs :
    (forall v, scope N ns v = true -> run v = closed_run v) ->
    spec_family eqW eqR N ns vs (map run vs) = true.
  Proof.
    intros Hrun. unfold spec_family. rewrite map_length, Nat.eqb_refl. cbn [andb].
    apply forallb_forall. intros [v r] Hin. cbn [fst snd].
    pose proof (in_combine_map run vs v r Hin) as ->.
    destruct (first_of_class (v_cls v) (combine vs (map run vs))) as [[v0 r0]|] eqn:Ef; [|reflexivity].
    apply first_of_class_spec in Ef as [Hin0 Hc]. cbn [fst snd] in *.
    pose proof (in_combine_map run vs v0 r0 Hin0) as ->.
    destruct (scope N ns v0) eqn:S0; [|reflexivity].
    destruct (scope N ns v) eqn:S1; [|reflexivity]. cbn [andb].
    rewrite (Hrun v0 S0), (Hrun v S1). apply consistent_closed. exact Hc.
  Qed.
End Consistent.

Lemma scope_facts N ns v : scope N ns v = true ->
  1 <= ns /\ v_sel v <> [] /\ forallb (fun i => i <? N) (v_sel v) = true.
Proof.
  unfold scope. intros H. repeat (apply andb_true_iff in H as [H ?]).
  repeat split; auto.
  - apply Nat.leb_le. assumption.
  - destruct (v_sel v); [cbn in *; discriminate | discriminate].
Qed.

Lemma select_nonempty {A} (d : A) base sel : sel <> [] -> select d base sel <> [].
Proof. destruct sel; [congruence | discriminate]. Qed.

(* ---------- the encoding instance ---------- *)

Lemma attrE_rowwise md k : forall l, attrE md k l = map (fun p => pairE md k (fst p) (snd p)) l.
Proof. reflexivity. Qed.

Lemma nsE_select (c : cfgE) v : uniform_refs c = true ->
  scope (length (ce_base c)) (ns_of c) v = true ->
  nsE (ce_seed c) (ce_ns c) (select dexE (ce_base c) (v_sel v)) = ns_of c.
Proof.
  intros Hu Hs. apply scope_facts in Hs as (_ & Hne & Hr).
  unfold nsE, uniform_refs in *. destruct (ce_seed c) eqn:Es; [unfold ns_of; rewrite Es; reflexivity|].
  destruct (v_sel v) as [|i0 rest]; [congruence|]. cbn [select map hd].
  cbn [forallb] in Hr. apply andb_true_iff in Hr as [Hi _]. apply Nat.ltb_lt in Hi.
  rewrite forallb_forall in Hu. apply Nat.eqb_eq. apply Hu. apply nth_In. exact Hi.
Qed.

Lemma run_enc_closed (c : cfgE) v : uniform_refs c = true ->
  scope (length (ce_base c)) (ns_of c) v = true ->
  fst (run_enc c v)
  = closed_run dexE (ce_base c)
      (fun cls => ex_attr (refsrcE (ce_seed c)) (aggE (ce_mode c)) (pairE (ce_mode c) (cls_factor cls * ce_tf c)) (ns_of c))
      (ex_refs (refsrcE (ce_seed c)) (ns_of c)) (ce_ret c) v.
Proof.
  intros Hu Hs. pose proof (nsE_select c v Hu Hs) as Ens.
  apply scope_facts in Hs as (Hns & Hne & Hr).
  unfold run_enc, in_range. rewrite Hr. unfold dlsE. rewrite Ens.
  destruct (dls_closed_form dexE (refsrcE (ce_seed c)) (attrE (ce_mode c) (cls_factor (v_cls v) * ce_tf c)) (aggE (ce_mode c))
              (pairE (ce_mode c) (cls_factor (v_cls v) * ce_tf c)) (attrE_rowwise (ce_mode c) (cls_factor (v_cls v) * ce_tf c))
              (ce_ret c) (ns_of c) (v_b v)
              (select dexE (ce_base c) (v_sel v)) Hns (select_nonempty _ _ _ Hne)) as (t & E & _).
  rewrite E. reflexivity.
Qed.

(* ---------- the real-network instance ---------- *)

Lemma attrR_rowwise : forall l, attrR l = map (fun p => (fun ex r => (r_id ex, r)) (fst p) (snd p)) l.
Proof. reflexivity. Qed.

Lemma run_real_closed (c : cfgR) v :
  scope (length (cr_base c)) (cr_ns c) v = true ->
  fst (run_real c v)
  = closed_run dexR (cr_base c)
      (fun cls => ex_attr refsrcR (aggR cls) (fun ex r => (r_id ex, r)) (cr_ns c))
      (ex_refs refsrcR (cr_ns c)) (cr_ret c) v.
Proof.
  intros Hs. apply scope_facts in Hs as (Hns & Hne & Hr).
  unfold run_real, in_range. rewrite Hr. unfold dlsR.
  destruct (dls_closed_form dexR refsrcR attrR (aggR (v_cls v)) (fun ex r => (r_id ex, r)) attrR_rowwise
              (cr_ret c) (cr_ns c) (v_b v) (select dexR (cr_base c) (v_sel v)) Hns
              (select_nonempty _ _ _ Hne)) as (t & E & _).
  rewrite E. reflexivity.
Qed.

(* ---------- reflexivity of the comparisons ---------- *)

Lemma zrow_eqb_refl r : zrow_eqb r r = true.
Proof. apply list_eqb_refl. apply Z.eqb_refl. Qed.
Lemma tensor_eqb_refl t : tensor_eqb t t = true.
Proof. apply list_eqb_refl. apply zrow_eqb_refl. Qed.
Lemma tensors_eqb_refl t : tensors_eqb t t = true.
Proof. apply list_eqb_refl. apply tensor_eqb_refl. Qed.

Lemma qclose_refl a : qclose a a = true.
Proof.
  unfold qclose. apply Qle_bool_iff.
  assert (E : (a - a == 0)%Q) by ring. rewrite E. cbn [Qabs Qnum Z.abs].
  apply (Qle_trans _ (0 + 0)%Q); [unfold Qle; cbn; lia|].
  apply Qplus_le_compat.
  - unfold tol_abs, Qle. cbn. lia.
  - apply Qmult_le_0_compat; [unfold tol_rel, Qle; cbn; lia|].
    apply (Qle_trans _ (0 + 0)%Q); [unfold Qle; cbn; lia|].
    apply Qplus_le_compat; apply Qabs_nonneg.
Qed.
Lemma qlist_close_refl l : qlist_close l l = true.
Proof. apply list_eqb_refl. apply qclose_refl. Qed.

(* ---------- the property theorem ---------- *)

Theorem dls_spec : forall c, spec_ok c (model c) = true.
Proof.
  intros [cf vs | cf vs]; cbn [spec_ok model].
  - destruct (uniform_refs cf) eqn:Hu; [|reflexivity].
    rewrite map_map.
    apply (spec_family_closed tensors_eqb tensor_eqb tensors_eqb_refl tensor_eqb_refl
             dexE (ce_base cf)
             (fun cls => ex_attr (refsrcE (ce_seed cf)) (aggE (ce_mode cf)) (pairE (ce_mode cf) (cls_factor cls * ce_tf cf)) (ns_of cf))
             (ex_refs (refsrcE (ce_seed cf)) (ns_of cf)) (ce_ret cf)).
    intros v Hs. apply run_enc_closed; assumption.
  - rewrite map_map.
    apply (spec_family_closed qlist_close zrow_eqb qlist_close_refl zrow_eqb_refl
             dexR (cr_base cf)
             (fun cls => ex_attr refsrcR (aggR cls) (fun ex r => (r_id ex, r)) (cr_ns cf))
             (ex_refs refsrcR (cr_ns cf)) (cr_ret cf)).
    intros v Hs. apply run_real_closed; assumption.
Qed.

(* every two calls of a family (not only "against the first") agree on every shared example *)
Theorem dls_pairwise_enc (c : cfgE) (v1 v2 : variation) :
  uniform_refs c = true -> v_cls v1 = v_cls v2 ->
  scope (length (ce_base c)) (ns_of c) v1 = true -> scope (length (ce_base c)) (ns_of c) v2 = true ->
  consistent tensors_eqb tensor_eqb v1 v2 (fst (run_enc c v1)) (fst (run_enc c v2)) = true.
Proof.
  intros Hu Hc H1 H2. rewrite !run_enc_closed by assumption.
  apply consistent_closed; [apply tensors_eqb_refl | apply tensor_eqb_refl | exact Hc].
Qed.

Theorem dls_pairwise_real (c : cfgR) (v1 v2 : variation) :
  v_cls v1 = v_cls v2 ->
  scope (length (cr_base c)) (cr_ns c) v1 = true -> scope (length (cr_base c)) (cr_ns c) v2 = true ->
  consistent qlist_close zrow_eqb v1 v2 (fst (run_real c v1)) (fst (run_real c v2)) = true.
Proof.
  intros Hc H1 H2. rewrite !run_real_closed by assumption.
  apply consistent_closed; [apply qlist_close_refl | apply zrow_eqb_refl | exact Hc].
Qed.

Definition refcall_of (s : Z) (X : list exE) (p : nat * nat) : refcall :=
  ([e_x (nth (fst p) X dexE)], 1%Z, (s + Z.of_nat (snd p))%Z).

Lemma render_refcalls nargs s X fl :
  snd (render_flush nargs (Some s) X fl) = map (refcall_of s X) (combine (fst (fst fl)) (snd (fst fl))).
Proof. destruct fl as [[Xi rj] batch]. reflexivity. Qed.

(* the reference function is called exactly once per pair: on the one row of the pair's
   example, with n = 1 and random_state = seed + j, pairs in order -- whatever the batch size *)
Theorem enc_refcalls (c : cfgE) (v : variation) (s : Z) :
  uniform_refs c = true -> scope (length (ce_base c)) (ns_of c) v = true -> ce_seed c = Some s ->
  concat (map (fun fl : flushE => snd fl) (snd (run_enc c v)))
  = flat_map (fun ex => map (fun j => ([e_x ex], 1%Z, (s + Z.of_nat j)%Z)) (seq 0 (ns_of c)))
             (select dexE (ce_base c) (v_sel v)).
Proof.
  intros Hu Hs Hseed. pose proof (nsE_select c v Hu Hs) as Ens.
  apply scope_facts in Hs as (Hns & Hne & Hr).
  unfold run_enc, in_range. rewrite Hr. cbv zeta. unfold dlsE. rewrite Ens.
  set (X := select dexE (ce_base c) (v_sel v)).
  destruct (dls_closed_form dexE (refsrcE (ce_seed c)) (attrE (ce_mode c) (cls_factor (v_cls v) * ce_tf c)) (aggE (ce_mode c))
              (pairE (ce_mode c) (cls_factor (v_cls v) * ce_tf c)) (attrE_rowwise (ce_mode c) (cls_factor (v_cls v) * ce_tf c))
              (ce_ret c) (ns_of c) (v_b v) X Hns (select_nonempty _ _ _ Hne)) as (t & E & _ & Hix).
  rewrite E. cbn [snd]. rewrite map_map. rewrite Hseed.
  erewrite map_ext by (intros fl; apply render_refcalls).
  rewrite <- (map_map (fun fl : list nat * list nat * list (exE * tensor) => combine (fst (fst fl)) (snd (fst fl)))
                      (map (refcall_of s X))).
  rewrite <- concat_map, Hix.
  rewrite !flat_map_concat_map, concat_map, map_map. f_equal.
  rewrite <- (map_nth_seq (fun ex => map (fun j => ([e_x ex], 1%Z, (s + Z.of_nat j)%Z)) (seq 0 (ns_of c))) dexE X).
  apply map_ext. intros e. rewrite map_map. reflexivity.
Qed.
