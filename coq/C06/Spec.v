(* C06 spec: what the property text demands, as a decidable relation between a family of
   deep_lift_shap calls on the same examples (varying batch_size, the subset of examples
   passed, their order, repetition of the call) and the observed outcomes.  It is stated
   position by position and does not mention pairs, queues or flushes.                    *)
From TM Require Import Base.Prelude Base.PyList C06.Model.
From Coq Require Import QArith Qabs.
Open Scope Z_scope.

(* one call of the family: the examples passed are base[sel[0]], base[sel[1]], ... (with their
   rows of args and of the reference tensor), batch_size = b; cls is the configuration class of
   the call (0: built-in rules only; 1: the call overrides a built-in rule through
   additional_nonlinear_ops).  The calls of a family are made in list order, in one process,
   on one model object or on fresh copies of it.                                            *)
Record variation := Var { v_sel : list nat; v_b : Z; v_cls : nat }.

Definition opt_eqb {A} (e : A -> A -> bool) (a b : option A) : bool :=
  match a, b with
  | Some x, Some y => e x y
  | None, None => true
  | _, _ => false
  end.

(* inside the property's quantifier: n_shuffles >= 1, batch_size >= 1, at least one example,
   every selected index names an example *)
Definition scope (N ns : nat) (v : variation) : bool :=
  (1 <=? ns)%nat && (1 <=? v_b v) && (1 <=? length (v_sel v))%nat &&
  forallb (fun i => (i <? N)%nat) (v_sel v).

Section Rel.
  Context {W R : Type}.
  Variable eqW : W -> W -> bool.       (* equality of the attributions of one example *)
  Variable eqR : R -> R -> bool.       (* equality of one reference *)

  (* value returned by one call: attributions per passed example, references per passed
     example (when return_references) -- or "raised" *)
  Definition runres := res (list W * option (list (list R))).

  (* Two calls of the family agree: both return one attribution per passed example, and
     wherever position p0 of the first and position p of the second hold the same example,
     the attributions -- and the references used, when returned -- are the same.  A call that
     raises while the other returns is a disagreement.                                      *)
  Definition consistent (v0 v : variation) (r0 r : runres) : bool :=
    match r0, r with
    | Ok (o0, f0), Ok (o, f) =>
        (length o0 =? length (v_sel v0))%nat && (length o =? length (v_sel v))%nat &&
        forallb (fun p0 =>
          forallb (fun p =>
            if (nth p0 (v_sel v0) 0 =? nth p (v_sel v) 0)%nat then
              opt_eqb eqW (nth_error o0 p0) (nth_error o p) &&
              match f0, f with
              | Some g0, Some g => opt_eqb (list_eqb eqR) (nth_error g0 p0) (nth_error g p)
              | None, None => true
              | _, _ => false
              end
            else true)
          (seq 0 (length (v_sel v))))
        (seq 0 (length (v_sel v0)))
    | Err, Err => true
    | _, _ => false
    end.

  (* every call of the family is checked against the FIRST call of the same configuration
     class, whatever calls (of whatever class) were made in between: "repeated calls return
     identical results", "whatever batch size / co-batched examples / order".  The harness puts
     the call on all examples in their original order first in each class; for an equivalence
     [eqW] agreement with that call is agreement of every two calls on every example --
     c06_pairwise_* prove the pairwise statement of the model for ALL pairs directly.       *)
  Fixpoint first_of_class (c : nat) (vrs : list (variation * runres)) : option (variation * runres) :=
    match vrs with
    | [] => None
    | vr :: rest => if (v_cls (fst vr) =? c)%nat then Some vr else first_of_class c rest
    end.

  Definition spec_family (N ns : nat) (vs : list variation) (rs : list runres) : bool :=
    (length rs =? length vs)%nat &&
    let vrs := combine vs rs in
    forallb (fun vr =>
               match first_of_class (v_cls (fst vr)) vrs with
               | Some vr0 => if scope N ns (fst vr0) && scope N ns (fst vr)
                             then consistent (fst vr0) (fst vr) (snd vr0) (snd vr) else true
               | None => true
               end) vrs.
End Rel.

(* ---------------- the two kinds of correspondence case ---------------- *)

Record cfgE := CfgE {
  ce_mode : mode;
  ce_seed : option Z;        (* None: reference tensor; Some s: tagged reference function, random_state = s *)
  ce_ns : nat;               (* the n_shuffles parameter (ignored by the code when a tensor is given) *)
  ce_ret : bool;             (* return_references *)
  ce_nargs : nat;            (* number of extra args (None when 0) *)
  ce_tf : Z;                 (* scale of the output column selected by `target` (the harness's
                                module returns the columns 1*s, 2*s, 3*s) *)
  ce_base : list exE }.

Record cfgR := CfgR { cr_ns : nat; cr_ret : bool; cr_base : list exR }.

Inductive call :=
| CEnc (c : cfgE) (vs : list variation)
| CReal (c : cfgR) (vs : list variation).

(* one recorded call of the reference function: the rows it was given, n, random_state *)
Definition refcall := (list tensor * Z * Z)%type.

(* what was observed for one flush: the rows of X_ the module saw (examples then their
   references), the rows of every arg (each arg twice), and the calls of the reference function
   made to build the batch *)
Definition flushE := (list tensor * list (list (list Z)) * list refcall)%type.

Definition runE := (runres (W := list tensor) (R := tensor) * list flushE)%type.
(* real network: value + the row count of every forward call *)
Definition runR := (runres (W := list Q) (R := list Z) * list Z)%type.

Inductive outcome :=
| OEnc (rs : list runE)
| OReal (rs : list runR).

Definition select {A} (d : A) (base : list A) (sel : list nat) : list A :=
  map (fun i => nth i base d) sel.

Definition in_range {A} (base : list A) (sel : list nat) : bool :=
  forallb (fun i => (i <? length base)%nat) sel.

(* the rule factor of a configuration class (see Model.mult) *)
Definition cls_factor (c : nat) : Z := match c with O => 1 | _ => 2 end.

(* with a reference function: exactly one call per pair, on the one row X[e:e+1], n = 1,
   random_state = seed + j; with a reference tensor: no call *)
Definition render_flush (nargs : nat) (seed : option Z) (X : list exE)
           (fl : list nat * list nat * list (exE * tensor)) : flushE :=
  let '(Xi, rj, batch) := fl in
  (map (fun p => e_x (fst p)) batch ++ map snd batch,
   map (fun k => let a := map (fun p => nth k (e_args (fst p)) []) batch in a ++ a) (seq 0 nargs),
   match seed with
   | None => []
   | Some s => map2 (fun e j => ([e_x (nth e X dexE)], 1, s + Z.of_nat j)) Xi rj
   end).

Definition run_enc (c : cfgE) (v : variation) : runE :=
  if in_range (ce_base c) (v_sel v) then
    let X := select dexE (ce_base c) (v_sel v) in
    let '(r, t) := dlsE (ce_mode c) (cls_factor (v_cls v) * ce_tf c) (ce_seed c) (ce_ns c) (ce_ret c) (v_b v) X in
    (r, map (render_flush (ce_nargs c) (ce_seed c) X) t)
  else (Err, []).

Definition run_real (c : cfgR) (v : variation) : runR :=
  if in_range (cr_base c) (v_sel v) then
    let '(r, t) := dlsR (v_cls v) (cr_ns c) (cr_ret c) (v_b v) (select dexR (cr_base c) (v_sel v)) in
    (r, map (fun fl => 2 * Z.of_nat (length (snd fl))) t)
  else (Err, []).

Definition model (c : call) : outcome :=
  match c with
  | CEnc cf vs => OEnc (map (run_enc cf) vs)
  | CReal cf vs => OReal (map (run_real cf) vs)
  end.

(* equalities *)
Definition zrow_eqb : list Z -> list Z -> bool := list_eqb Z.eqb.
Definition tensor_eqb : tensor -> tensor -> bool := list_eqb zrow_eqb.
Definition tensors_eqb : list tensor -> list tensor -> bool := list_eqb tensor_eqb.

(* floating-point attributions of a real network (exact rationals of the floats): torch's
   kernels may round differently for different batch compositions, so they are compared with
   the stated tolerance |a - b| <= 2^-16 + 2^-13 * (|a| + |b|); references are compared exactly *)
Definition tol_abs : Q := 1 # 65536.
Definition tol_rel : Q := 1 # 8192.
Definition qclose (a b : Q) : bool :=
  Qle_bool (Qabs (a - b)) (tol_abs + tol_rel * (Qabs a + Qabs b)).
Definition qlist_close : list Q -> list Q -> bool := list_eqb qclose.

(* the number of shuffles the calls of an encoding family use *)
Definition ns_of (c : cfgE) : nat :=
  match ce_seed c with
  | Some _ => ce_ns c
  | None => length (e_refs (hd dexE (ce_base c)))
  end.

(* a reference tensor has the same number of shuffles for every example *)
Definition uniform_refs (c : cfgE) : bool :=
  match ce_seed c with
  | Some _ => true
  | None => forallb (fun ex => (length (e_refs ex) =? ns_of c)%nat) (ce_base c)
  end.

Definition spec_ok (c : call) (o : outcome) : bool :=
  match c, o with
  | CEnc cf vs, OEnc rs =>
      if uniform_refs cf
      then spec_family tensors_eqb tensor_eqb (length (ce_base cf)) (ns_of cf) vs (map fst rs)
      else true
  | CReal cf vs, OReal rs =>
      spec_family qlist_close zrow_eqb (length (cr_base cf)) (cr_ns cf) vs (map fst rs)
  | _, _ => false
  end.

Definition refcall_eqb (a b : refcall) : bool :=
  tensors_eqb (fst (fst a)) (fst (fst b)) && (snd (fst a) =? snd (fst b)) && (snd a =? snd b).

Definition flushE_eqb (a b : flushE) : bool :=
  tensors_eqb (fst (fst a)) (fst (fst b)) && list_eqb (list_eqb zrow_eqb) (snd (fst a)) (snd (fst b)) &&
  list_eqb refcall_eqb (snd a) (snd b).

Definition runres_eqb {W R} (eqW : W -> W -> bool) (eqR : R -> R -> bool)
  : runres (W := W) (R := R) -> runres (W := W) (R := R) -> bool :=
  res_eqb (fun a b => list_eqb eqW (fst a) (fst b) &&
                      opt_eqb (list_eqb (list_eqb eqR)) (snd a) (snd b)).

Definition runE_eqb (a b : runE) : bool :=
  runres_eqb tensors_eqb tensor_eqb (fst a) (fst b) && list_eqb flushE_eqb (snd a) (snd b).
Definition runR_eqb (a b : runR) : bool :=
  runres_eqb qlist_close zrow_eqb (fst a) (fst b) && list_eqb Z.eqb (snd a) (snd b).

Definition outcome_eqb (a b : outcome) : bool :=
  match a, b with
  | OEnc x, OEnc y => list_eqb runE_eqb x y
  | OReal x, OReal y => list_eqb runR_eqb x y
  | _, _ => false
  end.

Definition case := (call * outcome)%type.

Definition check_case (c : case) : nat :=
  let '(cl, o) := c in
  verdict (outcome_eqb o (model cl)) (spec_ok cl o).

(* literal helper for the cases files (exact rational of a float) *)
Definition mkq (n : Z) (d : positive) : Q := Qmake n d.
