(* C02 proofs: from the walk theory (Lib.v) to the model of the API functions and the spec. *)
From TM Require Import Base.Prelude Base.OneHot C02.Model C02.Spec C02.Lib.
From Coq Require Import Permutation.
Open Scope nat_scope.

(* ------------------------------------------------------------------ small list facts *)
Lemma hd_map_ne {U V} (g : U -> V) l d d' : l <> [] -> hd d' (map g l) = g (hd d l).
Proof. destruct l; [congruence | reflexivity]. Qed.

Lemma last_map_ne {U V} (g : U -> V) l d d' : l <> [] -> last (map g l) d' = g (last l d).
Proof.
  induction l as [|x l IH]; [congruence|]. intros _. destruct l as [|y l]; [reflexivity|].
  change (last (map g (x :: y :: l)) d') with (last (map g (y :: l)) d').
  change (last (x :: y :: l) d) with (last (y :: l) d). apply IH. discriminate.
Qed.

Lemma nth0_hd {U} (l : list U) d : nth 0 l d = hd d l.
Proof. destruct l; reflexivity. Qed.

Lemma last_rev_hd {U} (l : list U) d : last (rev l) d = hd d l.
Proof. destruct l as [|x l]; [reflexivity|]. cbn. apply last_last. Qed.

Lemma length_ne {U} (l : list U) : 0 < length l -> l <> [].
Proof. destruct l; cbn; [lia | discriminate]. Qed.

Lemma combine_map_in {U V} (g : U -> V) l x y : In (x, y) (combine l (map g l)) -> In x l /\ y = g x.
Proof.
  induction l as [|a l IH]; [intros []|]. cbn. intros [E | H].
  - injection E as <- <-. auto.
  - apply IH in H. tauto.
Qed.

Lemma region_length {U} (x : list U) a b : b <= length x -> length (region a b x) = b - a.
Proof. intro H. unfold region. rewrite firstn_length, skipn_length. lia. Qed.

Lemma splice_facts {U} (x mid : list U) a b :
  a <= b -> b <= length x -> length mid = b - a ->
  let y := firstn a x ++ mid ++ skipn b x in
  length y = length x /\ firstn a y = firstn a x /\ skipn b y = skipn b x /\ region a b y = mid.
Proof.
  intros Hab Hb Hm y.
  assert (Hfa : length (firstn a x) = a) by (apply firstn_length_le; lia).
  repeat split.
  - unfold y. rewrite !app_length, Hfa, Hm, skipn_length. lia.
  - unfold y. rewrite firstn_app, Hfa, Nat.sub_diag, firstn_O, app_nil_r.
    apply firstn_all2. lia.
  - unfold y. rewrite skipn_app, Hfa. rewrite (skipn_all2 (firstn a x)) by lia. cbn [app].
    rewrite skipn_app, Hm, Nat.sub_diag. rewrite (skipn_all2 mid) by lia. reflexivity.
  - unfold region, y. rewrite skipn_app, Hfa, Nat.sub_diag. rewrite (skipn_all2 (firstn a x)) by lia.
    cbn [app skipn]. rewrite firstn_app, Hm, Nat.sub_diag, firstn_O, app_nil_r.
    apply firstn_all2. lia.
Qed.

Lemma col_eqb_refl c : col_eqb c c = true.
Proof. apply col_eqb_spec. reflexivity. Qed.
Lemma dna_eqb_refl x : dna_eqb x x = true.
Proof. apply dna_eqb_spec. reflexivity. Qed.

(* ------------------------------------------------------------------ spec clauses from permutations *)
Lemma same_counts_perm l1 l2 : Permutation l1 l2 -> same_counts l1 l2 = true.
Proof.
  intro P. unfold same_counts. apply forallb_forall. intros c _. apply Nat.eqb_eq.
  apply countf_perm, P.
Qed.

Lemma same_pair_counts_perm l1 l2 : Permutation (pairs l1) (pairs l2) -> same_pair_counts l1 l2 = true.
Proof.
  intro P. unfold same_pair_counts. apply forallb_forall. intros c _. apply Nat.eqb_eq.
  apply countf_perm, P.
Qed.

Lemma dna_valid_perm A l1 l2 : Permutation l1 l2 -> dna_valid A l2 = true -> dna_valid A l1 = true.
Proof.
  intros P H. unfold dna_valid in *. rewrite forallb_forall in *. intros c Hc.
  apply H. apply (Permutation_in _ P Hc).
Qed.

Lemma flanks_same_intro a b x y :
  length y = length x -> firstn a y = firstn a x -> skipn b y = skipn b x -> flanks_same a b x y = true.
Proof.
  intros H1 H2 H3. unfold flanks_same. rewrite H1, H2, H3, Nat.eqb_refl, !dna_eqb_refl. reflexivity.
Qed.

(* ------------------------------------------------------------------ applying a drawn permutation *)
Lemma is_perm_spec n p : is_perm n p = true -> length p = n /\ Permutation p (seq 0 n).
Proof.
  unfold is_perm. intro H. apply andb_true_iff in H as [H1 H2]. apply Nat.eqb_eq in H1.
  split; [exact H1|]. apply Permutation_sym. apply NoDup_Permutation_bis.
  - apply seq_NoDup.
  - rewrite seq_length. lia.
  - intros i Hi. rewrite forallb_forall in H2. specialize (H2 i Hi).
    apply existsb_exists in H2 as (j & Hj & E). apply Nat.eqb_eq in E. subst. exact Hj.
Qed.

Lemma is_perm_seq n : is_perm n (seq 0 n) = true.
Proof.
  unfold is_perm. rewrite seq_length, Nat.eqb_refl. cbn [andb]. apply forallb_forall.
  intros i Hi. apply existsb_exists. exists i. split; [exact Hi | apply Nat.eqb_refl].
Qed.

Lemma take_perm_perm {U} (d : U) l p :
  Permutation p (seq 0 (length l)) -> Permutation (take_perm d l p) l.
Proof.
  intro P. unfold take_perm.
  apply Permutation_trans with (map (fun i => nth i l d) (seq 0 (length l)));
    [apply Permutation_map, P | rewrite map_nth_seq; apply Permutation_refl].
Qed.

(* l is the list sl with all but its last entry permuted *)
Definition rel (sl l : list nat) : Prop := Permutation l sl /\ last l 0 = last sl 0.

Lemma rel_refl sls : Forall2 rel sls sls.
Proof. induction sls; constructor; auto. split; auto. Qed.

Lemma permute_list_rel sl l p :
  rel sl l -> is_perm (length sl - 1) p = true -> exists l', permute_list l p = Ok l' /\ rel sl l'.
Proof.
  intros [P E] Hp. apply is_perm_spec in Hp as [Hlen Hperm].
  pose proof (Permutation_length P) as Hl. rewrite <- Hl in Hlen, Hperm.
  unfold permute_list. rewrite Hlen, Nat.eqb_refl. cbn [guard bind].
  eexists. split; [reflexivity|].
  destruct (length l) as [|m] eqn:Em.
  - destruct l; [|discriminate]. cbn. split; auto.
  - cbn [keep_last]. rewrite Nat.sub_succ, Nat.sub_0_r in Hperm. split.
    + apply Permutation_trans with l; [|exact P]. apply take_perm_perm. rewrite Em, seq_S.
      apply Permutation_app; [exact Hperm | apply Permutation_refl].
    + unfold take_perm. rewrite map_app. cbn [map]. rewrite last_last, <- E.
      rewrite <- nth_last, Em. f_equal. lia.
Qed.

Lemma permute_lists_rel sls : forall ls sg,
  Forall2 rel sls ls -> length sg = length sls ->
  forallb (fun lp => is_perm (length (fst lp) - 1) (snd lp)) (combine sls sg) = true ->
  exists ls', permute_lists ls sg = Ok ls' /\ Forall2 rel sls ls'.
Proof.
  induction sls as [|sl sls IH]; intros ls sg HF Hlen Hp.
  - inversion HF; subst. destruct sg; [|discriminate]. exists []. split; [reflexivity | constructor].
  - inversion HF as [|? l ? ls0 Hr HF']; subst. destruct sg as [|p sg]; [discriminate|].
    cbn in Hp. apply andb_true_iff in Hp as [Hp1 Hp2].
    destruct (permute_list_rel sl l p Hr Hp1) as (l' & El & Hr').
    destruct (IH ls0 sg HF') as (ls' & Els & HF''); [cbn in Hlen; lia | exact Hp2 |].
    exists (l' :: ls'). cbn [permute_lists]. rewrite El, Els. cbn. split; [reflexivity|].
    constructor; auto.
Qed.

Lemma Forall2_nth {U V} (R : U -> V -> Prop) l1 l2 i d1 d2 :
  Forall2 R l1 l2 -> i < length l1 -> R (nth i l1 d1) (nth i l2 d2).
Proof.
  intro H. revert i. induction H; intros [|i] Hi; cbn in *; try lia; auto. apply IHForall2. lia.
Qed.

Lemma Forall2_len {U V} (R : U -> V -> Prop) l1 l2 : Forall2 R l1 l2 -> length l1 = length l2.
Proof. induction 1; cbn; auto. Qed.

Lemma succ_lists_length A s : length (succ_lists A s) = A.
Proof. unfold succ_lists. rewrite map_length, seq_length. reflexivity. Qed.

Lemma succ_lists_nth A s c : c < A -> nth c (succ_lists A s) [] = slots s c.
Proof.
  intro H. unfold succ_lists.
  rewrite (nth_indep _ [] (slots s 0)) by (rewrite map_length, seq_length; exact H).
  rewrite map_nth, seq_nth by exact H. reflexivity.
Qed.

Lemma slots_nil A s c : Forall (fun x => x < A) s -> A <= c -> slots s c = [].
Proof.
  intros HF Hc. destruct (slots s c) as [|q l] eqn:E; [reflexivity|]. exfalso.
  assert (H : In q (slots s c)) by (rewrite E; left; reflexivity).
  apply in_slots in H as [Hq Hs]. unfold src, chr in Hs.
  rewrite Forall_forall in HF. specialize (HF (nth (q - 1) s 0)).
  assert (In (nth (q - 1) s 0) s) by (apply nth_In; lia). specialize (HF H). lia.
Qed.

Lemma good_of_rel A s ls :
  Forall (fun c => c < A) s -> Forall2 rel (succ_lists A s) ls -> good s ls.
Proof.
  intros HF H c. destruct (Nat.lt_ge_cases c A) as [Hc | Hc].
  - pose proof (Forall2_nth rel _ _ c [] [] H) as Hn. rewrite succ_lists_length in Hn.
    specialize (Hn Hc). rewrite succ_lists_nth in Hn by exact Hc. exact Hn.
  - pose proof (Forall2_len _ _ _ H) as Hl. rewrite succ_lists_length in Hl.
    rewrite nth_overflow by lia. rewrite (slots_nil A s c HF Hc). split; auto.
Qed.

Lemma sigma_ok_spec A s sg : sigma_ok A s sg = true ->
  length sg = length (succ_lists A s) /\
  forallb (fun lp => is_perm (length (fst lp) - 1) (snd lp)) (combine (succ_lists A s) sg) = true.
Proof.
  unfold sigma_ok. intro H. apply andb_true_iff in H as [H1 H2]. apply Nat.eqb_eq in H1.
  rewrite succ_lists_length. auto.
Qed.

(* ------------------------------------------------------------------ the walk, in characters *)

(* t is an Eulerian rearrangement of s *)
Definition euler (s t : list nat) : Prop :=
  length t = length s /\ Permutation (pairs t) (pairs s) /\
  hd 0 t = hd 0 s /\ last t 0 = last s 0 /\ Permutation t s.

(* walk_never_stranded + walk_euler on position level *)
Lemma walk_lists_ok s ls : good s ls -> 0 < length s ->
  exists order,
    walk_lists s ls = Ok order /\ length order = length s /\
    hd 0 order = 0 /\ Permutation order (seq 0 (length s)) /\
    Permutation (tl order) (seq 1 (length s - 1)) /\
    pairs (map (chr s) order) = map (fun q => (src s q, chr s q)) (tl order) /\
    chr s (last order 0) = chr s (length s - 1).
Proof.
  intros Hg Hl.
  destruct (walk_steps_ok s ls Hg (length s - 1) 0 (fun _ => 0) [] (inv_init s ls))
    as (acc & cnt & Hw & HI & Hlen); [reflexivity|].
  exists (0 :: rev acc). unfold walk_lists.
  replace (0 <? length s) with true by (symmetry; apply Nat.ltb_lt; exact Hl).
  cbn [guard bind]. rewrite Hw. cbn [bind].
  pose proof (final_perm s ls Hg cnt acc HI Hlen) as P.
  split; [reflexivity|]. split; [cbn [length]; rewrite rev_length; lia|].
  split; [reflexivity|]. split.
  { destruct (length s) as [|n] eqn:E; [lia|]. cbn [seq]. apply perm_skip.
    rewrite Nat.sub_succ, Nat.sub_0_r in P. exact P. }
  split; [exact P|]. split.
  { cbn [map pairs tl]. apply (final_pairs s ls cnt acc HI). }
  rewrite last_cons_default, last_rev_hd. apply (final_last s ls Hg cnt acc HI Hlen).
Qed.

Lemma walk_lists_euler s ls : good s ls -> 0 < length s ->
  exists order, walk_lists s ls = Ok order /\ euler s (map (chr s) order).
Proof.
  intros Hg Hl. destruct (walk_lists_ok s ls Hg Hl) as (order & Hw & Hlen & Hhd & P & Pt & Hp & Hlast).
  exists order. split; [exact Hw|].
  assert (Hne : order <> []) by (apply length_ne; lia).
  repeat split.
  - rewrite map_length. exact Hlen.
  - rewrite Hp, pairs_orig. apply Permutation_map, Pt.
  - rewrite (hd_map_ne _ _ 0) by exact Hne. rewrite Hhd. apply nth0_hd.
  - rewrite (last_map_ne _ _ 0) by exact Hne. rewrite Hlast. apply nth_last.
  - apply Permutation_trans with (map (chr s) (seq 0 (length s)));
      [apply Permutation_map, P | unfold chr; rewrite map_nth_seq; apply Permutation_refl].
Qed.

Lemma fast_shuffle_ok A s : Forall (fun c => c < A) s -> 0 < length s ->
  forall sigmas ls, Forall2 rel (succ_lists A s) ls -> forallb (sigma_ok A s) sigmas = true ->
  exists outs, fast_shuffle s ls sigmas = Ok outs /\ length outs = length sigmas /\
               Forall (euler s) outs.
Proof.
  intros HF Hl. induction sigmas as [|sg rest IH]; intros ls Hr Hs.
  - exists []. repeat split; constructor.
  - cbn in Hs. apply andb_true_iff in Hs as [Hs1 Hs2]. apply sigma_ok_spec in Hs1 as [Hlen Hp].
    destruct (permute_lists_rel _ ls sg Hr Hlen Hp) as (ls' & El & Hr').
    destruct (walk_lists_euler s ls' (good_of_rel A s ls' HF Hr') Hl) as (order & Ew & He).
    destruct (IH ls' Hr' Hs2) as (outs & Eo & Hlo & Ho).
    exists (map (chr s) order :: outs). cbn [fast_shuffle]. rewrite El. cbn [bind].
    rewrite Ew. cbn [bind]. rewrite Eo. cbn [bind]. split; [reflexivity|].
    split; [cbn; lia | constructor; auto].
Qed.

(* ------------------------------------------------------------------ one-hot columns *)
Definition binary (l : list Z) : Prop := forallb (fun v => (v =? 0)%Z || (v =? 1)%Z) l = true.

Lemma binary_le1 l : binary l -> forallb (fun w => (w <=? 1)%Z) l = true.
Proof.
  unfold binary. rewrite !forallb_forall. intros H w Hw. specialize (H w Hw). lia.
Qed.

Lemma binary_le0_sum l : binary l -> forallb (fun w => (w <=? 0)%Z) l = true -> col_sum l = 0%Z.
Proof.
  induction l as [|v r IH]; [reflexivity|]. unfold binary. cbn. intros Hb H0.
  apply andb_true_iff in Hb as [Hv Hb]. apply andb_true_iff in H0 as [Hv0 H0].
  specialize (IH Hb H0). unfold col_sum in IH. lia.
Qed.

Lemma map_never a b n : b < a -> map (fun k => if k =? b then 1%Z else 0%Z) (seq a n) = repeat 0%Z n.
Proof.
  revert a; induction n as [|n IH]; intros a H; [reflexivity|]. cbn [seq map repeat].
  destruct (Nat.eqb_spec a b); [lia|]. f_equal. apply IH. lia.
Qed.

Lemma sum0_zeros l : binary l -> col_sum l = 0%Z -> l = repeat 0%Z (length l).
Proof.
  induction l as [|v r IH]; [reflexivity|]. unfold binary. cbn. intros Hb Hs.
  apply andb_true_iff in Hb as [Hv Hb].
  assert (0 <= col_sum r)%Z.
  { clear -Hb. induction r as [|w r IH]; [cbn; lia|]. cbn in *.
    apply andb_true_iff in Hb as [Hw Hb]. specialize (IH Hb). unfold col_sum in IH. lia. }
  unfold col_sum in *. assert (v = 0%Z) by lia. subst v. f_equal. apply IH; [exact Hb | lia].
Qed.

Lemma argmax_onehot_aux l : binary l -> col_sum l = 1%Z -> forall a,
  argmax l < length l /\
  map (fun k => if k =? a + argmax l then 1%Z else 0%Z) (seq a (length l)) = l.
Proof.
  induction l as [|v r IH]; intros Hb Hs a; [cbn in Hs; lia|].
  assert (Hbr : binary r /\ (v = 0 \/ v = 1)%Z).
  { unfold binary in *. cbn in Hb. apply andb_true_iff in Hb as [Hv Hb]. split; [exact Hb | lia]. }
  destruct Hbr as [Hbr Hv]. cbn [col_sum fold_right] in Hs. fold (col_sum r) in Hs.
  cbn [argmax length seq map].
  destruct Hv as [-> | ->].
  - (* v = 0: the one is further right *)
    assert (Hsr : col_sum r = 1%Z) by lia.
    destruct (forallb (fun w => (w <=? 0)%Z) r) eqn:E.
    { apply (binary_le0_sum r Hbr) in E. lia. }
    destruct (IH Hbr Hsr (S a)) as [H1 H2]. split; [lia|].
    destruct (Nat.eqb_spec a (a + S (argmax r))); [lia|]. f_equal.
    rewrite Nat.add_succ_r. exact H2.
  - (* v = 1: first maximum *)
    rewrite (binary_le1 r Hbr). split; [lia|]. rewrite Nat.add_0_r, Nat.eqb_refl. f_equal.
    rewrite map_never by lia. symmetry. apply sum0_zeros; [exact Hbr | lia].
Qed.

Lemma col_valid_inv A c : col_valid A c = true -> length c = A /\ binary c /\ col_sum c = 1%Z.
Proof.
  unfold col_valid. intro H. apply andb_true_iff in H as [H H3]. apply andb_true_iff in H as [H1 H2].
  apply Nat.eqb_eq in H1. apply Z.eqb_eq in H3. auto.
Qed.

Lemma argmax_lt A c : col_valid A c = true -> argmax c < A.
Proof.
  intro H. apply col_valid_inv in H as (Hl & Hb & Hs).
  destruct (argmax_onehot_aux c Hb Hs 0) as [H _]. lia.
Qed.

Lemma onehot_argmax A c : col_valid A c = true -> onehot A (argmax c) = c.
Proof.
  intro H. apply col_valid_inv in H as (Hl & Hb & Hs).
  destruct (argmax_onehot_aux c Hb Hs 0) as [_ H]. unfold onehot. rewrite <- Hl. exact H.
Qed.

Lemma decode_lt A r : dna_valid A r = true -> Forall (fun c => c < A) (map argmax r).
Proof.
  unfold dna_valid. rewrite forallb_forall, Forall_forall. intros H c Hc.
  apply in_map_iff in Hc as (col & <- & Hcol). apply argmax_lt, H, Hcol.
Qed.

Lemma encode_decode A r : dna_valid A r = true -> map (onehot A) (map argmax r) = r.
Proof.
  unfold dna_valid. rewrite forallb_forall. intro H. rewrite map_map.
  rewrite <- (map_id r) at 2. apply map_ext_in. intros c Hc. apply onehot_argmax, H, Hc.
Qed.

(* ------------------------------------------------------------------ validity of the input *)
Lemma valid_t_inv X : valid_t X = true ->
  forall x, In x (tX X) -> length x = tL X /\ dna_valid (tA X) x = true.
Proof.
  unfold valid_t, valid_ohe. intro H.
  apply andb_true_iff in H as [H _]. apply andb_true_iff in H as [H _].
  apply andb_true_iff in H as [Hr Hc]. unfold rect, cols_valid in *.
  rewrite forallb_forall in Hr, Hc. intros x Hx. split; [apply Nat.eqb_eq, Hr, Hx | apply Hc, Hx].
Qed.

Lemma dna_valid_region A a b x : dna_valid A x = true -> dna_valid A (region a b x) = true.
Proof. intro H. unfold region. apply dna_valid_firstn, dna_valid_skipn, H. Qed.

Lemma dna_valid_splice A a b x mid :
  dna_valid A x = true -> dna_valid A mid = true ->
  dna_valid A (firstn a x ++ mid ++ skipn b x) = true.
Proof.
  intros Hx Hm. rewrite !dna_valid_app, Hm, dna_valid_firstn, dna_valid_skipn by exact Hx. reflexivity.
Qed.

(* ------------------------------------------------------------------ shuffle *)
Lemma shuffle_one_spec A a b p x :
  dna_valid A x = true -> a <= b -> b <= length x -> is_perm (b - a) p = true ->
  let y := shuffle_one a b p x in
  flanks_same a b x y = true /\ Permutation (region a b y) (region a b x) /\ dna_valid A y = true.
Proof.
  intros Hx Hab Hb Hp y. apply is_perm_spec in Hp as [Hlen Hperm].
  set (mid := take_perm dcol (region a b x) p).
  assert (Hm : length mid = b - a) by (unfold mid, take_perm; rewrite map_length; exact Hlen).
  assert (Pm : Permutation mid (region a b x)).
  { apply take_perm_perm. rewrite region_length by exact Hb. exact Hperm. }
  destruct (splice_facts x mid a b Hab Hb Hm) as (H1 & H2 & H3 & H4). fold mid in y.
  split; [apply flanks_same_intro; assumption|]. split.
  - unfold y, shuffle_one. fold mid. rewrite H4. exact Pm.
  - apply dna_valid_splice; [exact Hx|]. apply (dna_valid_perm A _ _ Pm), dna_valid_region, Hx.
Qed.

Lemma shuffle_spec_ok X start end_ perms :
  perms_ok X start end_ perms = true ->
  shuffle_spec X start end_ (shuffle_model X start end_ perms) = true.
Proof.
  intro Hp. unfold shuffle_model.
  destruct (valid_t X) eqn:Hv; [|reflexivity]. cbn [guard bind].
  set (L := Z.of_nat (tL X)) in *.
  set (e := (if (end_ <? 0)%Z then (L + 1 + end_)%Z else end_)) in *.
  destruct (e <=? start)%Z eqn:G1; [reflexivity|]. cbn [negb guard bind].
  destruct ((L <? e)%Z || (start <? 0)%Z) eqn:G2; [reflexivity|]. cbn [negb guard bind].
  destruct (0 <? length perms) eqn:G3; [|reflexivity]. cbn [guard bind].
  unfold shuffle_spec. rewrite Hv.
  unfold perms_ok in Hp. unfold shuffle_region in *. fold L in Hp |- *. fold e in Hp |- *.
  replace ((0 <=? start)%Z && (start <? e)%Z && (e <=? L)%Z) with true in * by lia.
  set (a := Z.to_nat start) in *. set (b := Z.to_nat e) in *.
  assert (Hab : a <= b) by lia. assert (HbL : b <= tL X) by lia.
  apply forallb_forall. intros Y HY. apply in_map_iff in HY as (p & <- & Hpin).
  rewrite forallb_forall in Hp. specialize (Hp p Hpin).
  apply forallb_forall. intros [x y] Hxy. apply combine_map_in in Hxy as [Hx ->]. cbn [fst snd].
  destruct (valid_t_inv X Hv x Hx) as [Hlx Hvx].
  destruct (shuffle_one_spec (tA X) a b p x Hvx Hab) as (F & P & V); [lia | exact Hp |].
  rewrite F, V, (same_counts_perm _ _ P). reflexivity.
Qed.

(* ------------------------------------------------------------------ dinucleotide shuffle *)

(* what every sequence returned for a region r is, in columns *)
Definition euler_cols (r y : dna) : Prop :=
  length y = length r /\ Permutation (pairs y) (pairs r) /\
  hd dcol y = hd dcol r /\ last y dcol = last r dcol /\ Permutation y r.

Lemma euler_to_cols A r t :
  dna_valid A r = true -> 0 < length r -> euler (map argmax r) t -> euler_cols r (map (onehot A) t).
Proof.
  intros Hv Hl (H1 & H2 & H3 & H4 & H5). rewrite map_length in H1.
  assert (Ht : t <> []) by (apply length_ne; lia).
  assert (Hs : map argmax r <> []) by (apply length_ne; rewrite map_length; lia).
  pose proof (encode_decode A r Hv) as E.
  repeat split.
  - rewrite map_length. exact H1.
  - rewrite <- E. rewrite (pairs_map (onehot A) t), (pairs_map (onehot A) (map argmax r)).
    apply Permutation_map, H2.
  - rewrite <- E. rewrite (hd_map_ne _ t 0), (hd_map_ne _ (map argmax r) 0) by assumption.
    f_equal. exact H3.
  - rewrite <- E. rewrite (last_map_ne _ t 0), (last_map_ne _ (map argmax r) 0) by assumption.
    f_equal. exact H4.
  - rewrite <- E. apply Permutation_map, H5.
Qed.

(* walk_never_stranded at the level of _dinucleotide_shuffle: for every admissible family of
   draws the walk of every shuffle completes, and every shuffle is an Eulerian rearrangement *)
Lemma dinuc_region_walks A r sg :
  dna_valid A r = true -> 0 < length r -> forallb (sigma_ok A (map argmax r)) sg = true ->
  exists outs, fast_shuffle (map argmax r) (succ_lists A (map argmax r)) sg = Ok outs /\
               length outs = length sg /\
               Forall (euler_cols r) (map (map (onehot A)) outs).
Proof.
  intros Hv Hl Hs.
  destruct (fast_shuffle_ok A (map argmax r) (decode_lt A r Hv)) with (sigmas := sg)
    (ls := succ_lists A (map argmax r)) as (outs & E & Hlen & HF).
  - rewrite map_length. exact Hl.
  - apply rel_refl.
  - exact Hs.
  - exists outs. split; [exact E|]. split; [exact Hlen|].
    rewrite Forall_forall in *. intros y Hy. apply in_map_iff in Hy as (t & <- & Ht).
    apply euler_to_cols; auto.
Qed.

Lemma dinuc_region_spec A r sg ys :
  dna_valid A r = true -> forallb (sigma_ok A (map argmax r)) sg = true ->
  dinuc_region A r sg = Ok ys -> 3 <= length r /\ Forall (euler_cols r) ys.
Proof.
  intros Hv Hs. unfold dinuc_region.
  destruct (3 <=? length r) eqn:G; [|discriminate]. apply Nat.leb_le in G. cbn [guard bind].
  destruct (dinuc_region_walks A r sg Hv) as (outs & E & _ & HF); [lia | exact Hs |].
  rewrite E. cbn [bind].
  match goal with |- context [guard ?b] => destruct b end; cbn [guard bind]; [|discriminate].
  intro H. injection H as <-. auto.
Qed.

(* the model of _dinucleotide_shuffle fails only through its two guards, never by stranding *)
Lemma dinuc_region_err A r sg :
  dna_valid A r = true -> forallb (sigma_ok A (map argmax r)) sg = true ->
  dinuc_region A r sg = Err ->
  length r < 3 \/
  (1 < length sg /\ exists ys, Forall (euler_cols r) ys /\
     forallb (fun y => dna_eqb (interior y) (interior (hd [] ys))) ys = true).
Proof.
  intros Hv Hs. unfold dinuc_region.
  destruct (3 <=? length r) eqn:G; [|intros _; left; apply Nat.leb_gt, G].
  apply Nat.leb_le in G. cbn [guard bind].
  destruct (dinuc_region_walks A r sg Hv) as (outs & E & _ & HF); [lia | exact Hs |].
  rewrite E. cbn [bind].
  match goal with |- context [guard (negb (?b1 && ?b2))] => destruct b1 eqn:B1; destruct b2 eqn:B2 end;
    cbn [negb andb guard bind]; try discriminate.
  intros _. right. split; [apply Nat.ltb_lt, B1|]. eexists. split; [exact HF | exact B2].
Qed.

Lemma dinuc_checks A a b x y :
  dna_valid A x = true -> b <= length x -> 3 <= length (region a b x) ->
  euler_cols (region a b x) y ->
  let yf := firstn a x ++ y ++ skipn b x in
  flanks_same a b x yf && same_pair_counts (region a b yf) (region a b x)
  && same_ends (region a b yf) (region a b x) && dna_valid A yf = true.
Proof.
  intros Hx Hb H3 (E1 & E2 & E3 & E4 & E5) yf.
  rewrite region_length in H3, E1 by exact Hb.
  destruct (splice_facts x y a b) as (H1 & H2 & H3' & H4); [lia | exact Hb | exact E1 |].
  fold yf in H1, H2, H3', H4.
  rewrite (flanks_same_intro a b x yf H1 H2 H3'), H4.
  rewrite (same_pair_counts_perm _ _ E2).
  unfold same_ends. rewrite E3, E4, !col_eqb_refl.
  unfold yf. rewrite dna_valid_splice; [reflexivity | exact Hx |].
  apply (dna_valid_perm A _ _ E5), dna_valid_region, Hx.
Qed.

Lemma dinuc_examples_spec A a b L : b <= L -> forall xs sig Ys,
  (forall x, In x xs -> length x = L /\ dna_valid A x = true) ->
  forallb (fun xs => forallb (sigma_ok A (map argmax (region a b (fst xs)))) (snd xs))
          (combine xs sig) = true ->
  dinuc_examples A a b xs sig = Ok Ys ->
  forallb (fun xys => let x := fst xys in
             forallb (fun y => flanks_same a b x y
                               && same_pair_counts (region a b y) (region a b x)
                               && same_ends (region a b y) (region a b x)
                               && dna_valid A y) (snd xys))
          (combine xs Ys) = true.
Proof.
  intro HbL. induction xs as [|x xs IH]; intros sig Ys Hxs Hs E.
  - destruct sig; [|discriminate]. injection E as <-. reflexivity.
  - destruct sig as [|sg sig]; [discriminate|]. cbn [dinuc_examples] in E.
    cbn [combine forallb fst snd] in Hs. apply andb_true_iff in Hs as [Hs1 Hs2].
    destruct (Hxs x (or_introl eq_refl)) as [Hlx Hvx].
    destruct (dinuc_region A (region a b x) sg) as [ys|] eqn:Er; [|discriminate]. cbn [bind] in E.
    destruct (dinuc_examples A a b xs sig) as [rest|] eqn:Ex; [|discriminate]. cbn [bind] in E.
    injection E as <-.
    apply dinuc_region_spec in Er as [H3 HF]; [|apply dna_valid_region, Hvx | exact Hs1].
    cbn [combine forallb fst snd]. apply andb_true_iff. split.
    + apply forallb_forall. intros yf Hyf. apply in_map_iff in Hyf as (y & <- & Hy).
      rewrite Forall_forall in HF. apply dinuc_checks; auto. lia.
    + apply (IH sig rest); auto. intros x' Hx'. apply Hxs. right; exact Hx'.
Qed.

Lemma norm_range L k : (0 <= L -> 0 <= norm L k <= L)%Z.
Proof. unfold norm. destruct (Z.ltb_spec k 0); lia. Qed.

Lemma dinuc_spec_ok X start end_ sig :
  sig_ok X start end_ sig = true ->
  dinuc_spec X start end_ (dinuc_model X start end_ sig) = true.
Proof.
  intro Hs. unfold dinuc_model. destruct (valid_t X) eqn:Hv; [|reflexivity]. cbn [guard bind].
  match goal with |- dinuc_spec _ _ _ ?m = _ => destruct m as [Ys|] eqn:E end; [|reflexivity].
  unfold dinuc_spec. rewrite Hv. unfold sig_ok in Hs. unfold dinuc_bounds in *. cbn [fst snd] in *.
  apply (dinuc_examples_spec (tA X) _ _ (tL X)) with (sig := sig); auto.
  - pose proof (norm_range (Z.of_nat (tL X)) end_). lia.
  - apply valid_t_inv, Hv.
Qed.

(* the family the compiled-call cases run the model on is admissible *)
Lemma id_sigma_ok A s : sigma_ok A s (id_sigma A s) = true.
Proof.
  unfold sigma_ok, id_sigma. rewrite map_length, succ_lists_length, Nat.eqb_refl. cbn [andb].
  apply forallb_forall. intros [l p] H. apply combine_map_in in H as [_ ->]. cbn [fst snd].
  apply is_perm_seq.
Qed.

Lemma id_sig_ok X start end_ n : sig_ok X start end_ (id_sig X start end_ n) = true.
Proof.
  unfold sig_ok, id_sig. apply forallb_forall. intros [x sg] H.
  apply combine_map_in in H as [_ ->]. cbn [fst snd]. apply forallb_forall. intros sg Hsg.
  apply repeat_spec in Hsg. subst. apply id_sigma_ok.
Qed.

(* ------------------------------------------------------------------ the property theorems *)
Lemma shuf_spec : forall X start end_ perms,
  perms_ok X start end_ perms = true ->
  spec_ok (CShuf X start end_ perms) (model (CShuf X start end_ perms)) = true.
Proof. intros. apply shuffle_spec_ok. assumption. Qed.

Lemma dinuc_spec_thm : forall X start end_ sig,
  sig_ok X start end_ sig = true ->
  spec_ok (CDinuc X start end_ sig) (model (CDinuc X start end_ sig)) = true.
Proof. intros. apply dinuc_spec_ok. assumption. Qed.

Lemma dinuc_obs_spec : forall X start end_ n,
  spec_ok (CDinucObs X start end_ n) (model (CDinucObs X start end_ n)) = true.
Proof. intros. apply dinuc_spec_ok, id_sig_ok. Qed.

Lemma id_perms_ok X start end_ n : perms_ok X start end_ (id_perms X start end_ n) = true.
Proof.
  unfold perms_ok, id_perms. destruct (shuffle_region X start end_) as [[a b]|]; [|reflexivity].
  apply forallb_forall. intros p Hp. apply repeat_spec in Hp. subst. apply is_perm_seq.
Qed.

Lemma shuf_obs_spec : forall X start end_ n,
  spec_ok (CShufObs X start end_ n) (model (CShufObs X start end_ n)) = true.
Proof. intros. apply shuffle_spec_ok, id_perms_ok. Qed.

(* determinism: the model is a function of (X, start, end, draws) - stated for the record *)
Lemma shuffle_deterministic : forall X start end_ perms perms',
  perms = perms' -> shuffle_model X start end_ perms = shuffle_model X start end_ perms'.
Proof. intros; subst; reflexivity. Qed.

(* ---- the explicit statements about one walk from the original successor lists *)
Definition sigma_fixes_last (A : nat) (s : list nat) (sigma : list (list nat)) : Prop :=
  sigma_ok A s sigma = true.

Lemma walk_never_stranded_lemma : forall A s sigma,
  Forall (fun c => c < A) s -> 0 < length s -> sigma_ok A s sigma = true ->
  exists order, walk A s sigma = Ok order /\ length order = length s.
Proof.
  intros A s sigma HF Hl Hs. apply sigma_ok_spec in Hs as [Hlen Hp].
  destruct (permute_lists_rel _ _ sigma (rel_refl (succ_lists A s)) Hlen Hp) as (ls & El & Hr).
  destruct (walk_lists_ok s ls (good_of_rel A s ls HF Hr) Hl) as (order & Ew & Hlo & _).
  exists order. unfold walk. rewrite El. cbn [bind]. auto.
Qed.

Lemma walk_euler_lemma : forall A s sigma order,
  Forall (fun c => c < A) s -> 0 < length s -> sigma_ok A s sigma = true ->
  walk A s sigma = Ok order ->
  hd 0 order = 0 /\ Permutation order (seq 0 (length s)) /\
  pairs (map (chr s) order) = map (fun q => (chr s (q - 1), chr s q)) (tl order) /\
  Permutation (tl order) (seq 1 (length s - 1)) /\
  euler s (map (chr s) order).
Proof.
  intros A s sigma order HF Hl Hs Hw. apply sigma_ok_spec in Hs as [Hlen Hp].
  destruct (permute_lists_rel _ _ sigma (rel_refl (succ_lists A s)) Hlen Hp) as (ls & El & Hr).
  pose proof (good_of_rel A s ls HF Hr) as Hg.
  destruct (walk_lists_ok s ls Hg Hl) as (order' & Ew & Hlo & Hhd & P & Pt & Hpairs & Hlast).
  destruct (walk_lists_euler s ls Hg Hl) as (order'' & Ew' & He).
  unfold walk in Hw. rewrite El in Hw. cbn [bind] in Hw.
  assert (order' = order) by congruence. assert (order'' = order) by congruence. subst.
  repeat split; auto; apply He.
Qed.
