(* C02 - property theorems only.  Each is closed by [exact] of a lemma from Proofs.v.

   "Shuffles preserve composition (mono- or di-nucleotide), flanks and determinism"

   [model] mirrors ersatz.shuffle / dinucleotide_shuffle / _dinucleotide_shuffle / _fast_shuffle
   with the random draws as explicit inputs; [spec_ok] (Spec.v) is the property stated by
   counting on the returned tensors.  The theorems quantify over every tensor (any batch size,
   alphabet, length, cell contents), every integer start / end, every number of shuffles and
   every admissible outcome of the random draws.                                              *)
From TM Require Import Base.Prelude Base.OneHot C02.Model C02.Spec C02.Lib C02.Proofs.
From Coq Require Import Permutation.
Open Scope nat_scope.

(* shuffle: whatever permutations RandomState.shuffle leaves in arange(end-start), every returned
   sequence has the input's character counts inside the region, is identical outside, and is
   valid one-hot (and the result is a function of (X, start, end, perms): it is [shuffle_model]) *)
Theorem c02_shuffle : forall X start end_ perms,
  perms_ok X start end_ perms = true ->
  spec_ok (CShuf X start end_ perms) (model (CShuf X start end_ perms)) = true.
Proof. exact shuf_spec. Qed.
Print Assumptions c02_shuffle.

(* dinucleotide_shuffle: for every family sig[example][shuffle][character] of permutations of
   the first n_c - 1 successor slots (applied cumulatively, as the code does): every returned
   sequence has the same count of every ordered adjacent pair inside the region, the same first
   and last character, identical flanks, valid one-hot columns *)
Theorem c02_dinucleotide_shuffle : forall X start end_ sig,
  sig_ok X start end_ sig = true ->
  spec_ok (CDinuc X start end_ sig) (model (CDinuc X start end_ sig)) = true.
Proof. exact dinuc_spec_thm. Qed.
Print Assumptions c02_dinucleotide_shuffle.

Theorem c02_dinucleotide_shuffle_obs : forall X start end_ n,
  spec_ok (CDinucObs X start end_ n) (model (CDinucObs X start end_ n)) = true.
Proof. exact dinuc_obs_spec. Qed.
Print Assumptions c02_dinucleotide_shuffle_obs.

Theorem c02_shuffle_obs : forall X start end_ n,
  spec_ok (CShufObs X start end_ n) (model (CShufObs X start end_ n)) = true.
Proof. exact shuf_obs_spec. Qed.
Print Assumptions c02_shuffle_obs.

(* walk_never_stranded: for EVERY sequence s over an alphabet of size A and EVERY family sigma of
   permutations that leave the last successor slot of each character in place, the walk never
   reads past a successor list: it returns, having visited exactly L positions (L-1 steps) *)
Theorem c02_walk_never_stranded : forall A s sigma,
  Forall (fun c => c < A) s -> 0 < length s -> sigma_ok A s sigma = true ->
  exists order, walk A s sigma = Ok order /\ length order = length s.
Proof. exact walk_never_stranded_lemma. Qed.
Print Assumptions c02_walk_never_stranded.

(* walk_euler: the visit order starts at 0 and is a permutation of 0..L-1; the k-th adjacent pair
   of the output is the original adjacent pair (s[q-1], s[q]) at the k-th visited slot q, and the
   visited slots are a permutation of 1..L-1 - every original transition is used exactly once;
   hence ([euler]) equal length, same multiset of ordered adjacent pairs, same first and last
   character, same multiset of characters *)
Theorem c02_walk_euler : forall A s sigma order,
  Forall (fun c => c < A) s -> 0 < length s -> sigma_ok A s sigma = true ->
  walk A s sigma = Ok order ->
  hd 0 order = 0 /\ Permutation order (seq 0 (length s)) /\
  pairs (map (chr s) order) = map (fun q => (chr s (q - 1), chr s q)) (tl order) /\
  Permutation (tl order) (seq 1 (length s - 1)) /\
  euler s (map (chr s) order).
Proof. exact walk_euler_lemma. Qed.
Print Assumptions c02_walk_euler.

(* the same for the cumulative in-place permutation over n_shuffles, from any lists already
   reached: every shuffle completes and is an Eulerian rearrangement *)
Theorem c02_fast_shuffle_never_stranded : forall A s,
  Forall (fun c => c < A) s -> 0 < length s ->
  forall sigmas ls, Forall2 rel (succ_lists A s) ls -> forallb (sigma_ok A s) sigmas = true ->
  exists outs, fast_shuffle s ls sigmas = Ok outs /\ length outs = length sigmas /\
               Forall (euler s) outs.
Proof. exact fast_shuffle_ok. Qed.
Print Assumptions c02_fast_shuffle_never_stranded.

(* at the level of _dinucleotide_shuffle: the model raises only through the two guards of the
   code (region shorter than 3; n > 1 and all shuffles identical) - never because a walk strands *)
Theorem c02_dinuc_region_fails_only_by_guards : forall A r sg,
  dna_valid A r = true -> forallb (sigma_ok A (map argmax r)) sg = true ->
  dinuc_region A r sg = Err ->
  length r < 3 \/
  (1 < length sg /\ exists ys, Forall (euler_cols r) ys /\
     forallb (fun y => dna_eqb (interior y) (interior (hd [] ys))) ys = true).
Proof. exact dinuc_region_err. Qed.
Print Assumptions c02_dinuc_region_fails_only_by_guards.

(* ---- the hypotheses are satisfiable and the conclusions not vacuous.
   X = "ACAGAT" (A=0 C=1 G=2 T=3), region [0,6); A has successor slots [1;3;5]; the draw [1;0]
   for A swaps its first two: output "AGACAT".  shuffle on [1, 5) with the draw [2;0;1;3]. *)
Definition ex_seq : list nat := [0;1;0;2;0;3].
Definition ex_X : tensor := T 4 6 [map (onehot 4) ex_seq].
Definition ex_sig : list (list (list (list nat))) := [[ [[1;0]; []; []; []] ]].

Example c02_example :
  sig_ok ex_X 0 6 ex_sig = true /\
  model (CDinuc ex_X 0 6 ex_sig) = Ok [[map (onehot 4) [0;2;0;1;0;3]]] /\
  perms_ok ex_X 1 (-2) [[2;0;1;3]] = true /\
  model (CShuf ex_X 1 (-2) [[2;0;1;3]]) = Ok [[map (onehot 4) [0; 2;1;0;0; 3]]].
Proof. vm_compute. repeat split. Qed.

(* ---- sanity: "keep the last edge last" is what the theorem uses.  The variant that permutes
   ALL successor slots strands on s = ABAC when the two successors of A are swapped: A -> C is
   taken first and C has no successor.  With the last slot kept, the same sequence walks. *)
Lemma c02_walk_permuting_last_slot_strands :
  exists A s sigma, Forall (fun c => c < A) s /\ 0 < length s /\
    walk_all A s sigma = Err /\ walk A s [[0]; []; []] = Ok [0;1;2;3].
Proof. exists 3, [0;1;0;2], [[1;0]; [0]; []]. vm_compute. repeat constructor. Qed.
