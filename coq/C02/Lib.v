(* C02 - theory of the greedy walk of _fast_shuffle.

   s : list nat is the decoded sequence, L its length.  The successor slots are the positions
   1..L-1; slot q belongs to the character src q = s[q-1] and leads to the character s[q].
   ls gives, per character c, a list [lsf c] of its slots in the order the walk will consume
   them.  [good]: every [lsf c] is a permutation of the original list [slots s c] whose LAST
   entry is the original last one (the slot after the last occurrence of c in s[0..L-2]).

   Main results (for every s and every good ls):
     walk_steps_ok      the walk makes all L-1 steps without ever reading past a list
                        (last-exit-tree / BEST argument, made explicit in [progress]);
     final_*            the visited slots are a permutation of 1..L-1, consecutive visited
                        positions realise original adjacent pairs, the walk ends on a position
                        carrying the character s[L-1].                                         *)
From TM Require Import Base.Prelude C02.Model C02.Spec.
From Coq Require Import Permutation.
Open Scope nat_scope.

(* ------------------------------------------------------------------ counting *)
Section Count.
Context {U : Type}.
Implicit Types (f : U -> bool) (l : list U).

Lemma countf_cons f x l : countf f (x :: l) = (if f x then 1 else 0) + countf f l.
Proof. unfold countf; cbn. destruct (f x); reflexivity. Qed.

Lemma countf_app f l1 l2 : countf f (l1 ++ l2) = countf f l1 + countf f l2.
Proof. unfold countf. rewrite filter_app, app_length. reflexivity. Qed.

Lemma countf_perm f l l' : Permutation l l' -> countf f l = countf f l'.
Proof. induction 1; rewrite ?countf_cons; lia. Qed.

Lemma countf_rev f l : countf f (rev l) = countf f l.
Proof. symmetry. apply countf_perm, Permutation_rev. Qed.

Lemma countf_incl f acc l : NoDup acc -> incl acc l -> countf f acc <= countf f l.
Proof.
  intros Hnd Hi. unfold countf. apply NoDup_incl_length; [apply NoDup_filter, Hnd|].
  intros x Hx. apply filter_In in Hx as [Hx Hf]. apply filter_In; auto.
Qed.

Lemma countf_incl_strict f acc l q :
  NoDup acc -> incl acc l -> In q l -> ~ In q acc -> f q = true -> countf f acc + 1 <= countf f l.
Proof.
  intros Hnd Hi Hq Hn Hf. unfold countf.
  assert (H : length (q :: filter f acc) <= length (filter f l)).
  { apply NoDup_incl_length.
    - constructor; [|apply NoDup_filter, Hnd]. intro Hx. apply filter_In in Hx. tauto.
    - intros x [<- | Hx]; [apply filter_In; auto|].
      apply filter_In in Hx as [Hx Hfx]. apply filter_In; auto. }
  cbn in H. lia.
Qed.
End Count.

(* ------------------------------------------------------------------ lists *)
Lemma firstn_S_nth_error {U} (l : list U) k q :
  nth_error l k = Some q -> firstn (S k) l = firstn k l ++ [q].
Proof.
  revert k; induction l as [|x l IH]; intros [|k] H; cbn in *; try discriminate.
  - injection H as ->. reflexivity.
  - f_equal. apply IH, H.
Qed.

Lemma In_firstn {U} (l : list U) k x : In x (firstn k l) -> In x l.
Proof. intro H. rewrite <- (firstn_skipn k l). apply in_or_app; auto. Qed.

Lemma NoDup_firstn {U} (l : list U) k : NoDup l -> NoDup (firstn k l).
Proof.
  revert k; induction l as [|x l IH]; intros [|k] H; cbn; try constructor.
  - inversion H; subst. intro Hx. apply In_firstn in Hx. tauto.
  - inversion H; subst. apply IH; auto.
Qed.

Lemma last_In {U} (l : list U) d : l <> [] -> In (last l d) l.
Proof.
  induction l as [|x l IH]; [congruence|]. intros _. destruct l as [|y l]; [left; reflexivity|].
  right. apply IH. discriminate.
Qed.

Lemma last_not_in_firstn {U} (l : list U) k d :
  NoDup l -> k < length l -> ~ In (last l d) (firstn k l).
Proof.
  revert k; induction l as [|x l IH]; intros k Hnd Hk Hin; [cbn in Hk; lia|].
  destruct k as [|k]; [exact Hin|]. inversion Hnd as [|? ? Hx Hnd']; subst.
  destruct l as [|y l]; [cbn in Hk; lia|].
  cbn [firstn] in Hin. destruct Hin as [E | Hin].
  - apply Hx. rewrite E. change (last (x :: y :: l) d) with (last (y :: l) d).
    apply last_In. discriminate.
  - change (last (x :: y :: l) d) with (last (y :: l) d) in Hin.
    apply (IH k); auto. cbn in *; lia.
Qed.

Lemma nth_last {U} (l : list U) d : nth (length l - 1) l d = last l d.
Proof.
  induction l as [|x l IH]; [reflexivity|]. destruct l as [|y l]; [reflexivity|].
  change (last (x :: y :: l) d) with (last (y :: l) d). rewrite <- IH. cbn. rewrite Nat.sub_0_r.
  reflexivity.
Qed.

Lemma nodup_classes (f : nat -> nat) l :
  (forall c, NoDup (filter (fun q => f q =? c) l)) -> NoDup l.
Proof.
  induction l as [|a l IH]; intro H; constructor.
  - intro Hin. specialize (H (f a)). cbn in H. rewrite Nat.eqb_refl in H.
    inversion H as [|? ? Hn _]; subst. apply Hn. apply filter_In. split; auto. apply Nat.eqb_refl.
  - apply IH. intro c. specialize (H c). cbn in H.
    destruct (f a =? c); [inversion H; auto | auto].
Qed.

(* elements of an ascending filter of a range are below its last element *)
Lemma filter_seq_le_last (f : nat -> bool) a n q :
  In q (filter f (seq a n)) -> q <= last (filter f (seq a n)) 0.
Proof.
  induction n as [|n IH]; [intros []|].
  rewrite seq_S, filter_app. cbn [filter]. destruct (f (a + n)).
  - intros _H. rewrite last_last. apply in_app_or in _H as [H | [<- | []]]; [|lia].
    apply filter_In in H as [H _]. apply in_seq in H. lia.
  - rewrite app_nil_r. exact IH.
Qed.

Lemma max_witness (P : nat -> Prop) (dec : forall q, {P q} + {~ P q}) n :
  (exists q, 1 <= q <= n /\ P q) ->
  exists m, 1 <= m <= n /\ P m /\ forall q, 1 <= q <= n -> P q -> q <= m.
Proof.
  induction n as [|n IH]; intros (q & Hq & HP); [lia|].
  destruct (dec (S n)) as [Hs | Hs].
  - exists (S n). repeat split; auto; lia.
  - destruct IH as (m & Hm & HPm & Hmax).
    { exists q. split; auto. assert (q <> S n) by (intro; subst; auto). lia. }
    exists m. split; [lia|]. split; auto. intros q' Hq' HP'.
    destruct (Nat.eq_dec q' (S n)); [subst; tauto|]. apply Hmax; auto; lia.
Qed.

Lemma map_nth_seq {U} (l : list U) d : map (fun i => nth i l d) (seq 0 (length l)) = l.
Proof.
  induction l as [|x l IH]; [reflexivity|]. cbn [length seq map nth]. f_equal.
  rewrite <- seq_shift, map_map. exact IH.
Qed.

Lemma last_cons_default {U} (l : list U) y a : last (y :: l) a = last l y.
Proof.
  revert y a; induction l as [|u l IH]; intros y a; [reflexivity|].
  change (last (y :: u :: l) a) with (last (u :: l) a). rewrite (IH u a), (IH u y). reflexivity.
Qed.

Lemma pairsf_snoc {U} (a : U) l x : pairsf a (l ++ [x]) = pairsf a l ++ [(last l a, x)].
Proof.
  revert a; induction l as [|y l IH]; intro a; [reflexivity|].
  cbn [app pairsf]. rewrite IH, last_cons_default. reflexivity.
Qed.

Lemma pairs_seq_aux (t : list nat) :
  pairs t = pairsf (nth 0 t 0) (map (fun p => nth p t 0) (seq 1 (length t - 1))).
Proof.
  destruct t as [|c r]; [reflexivity|].
  replace (length (c :: r) - 1) with (length r) by (cbn [length]; lia).
  cbn [pairs nth]. f_equal.
  rewrite <- seq_shift, map_map. cbn [nth]. symmetry; apply map_nth_seq.
Qed.

Lemma pairsf_map {U V} (g : U -> V) a l :
  pairsf (g a) (map g l) = map (fun p => (g (fst p), g (snd p))) (pairsf a l).
Proof. revert a; induction l as [|x l IH]; intro a; cbn; [reflexivity|]. rewrite IH. reflexivity. Qed.

Lemma pairs_map {U V} (g : U -> V) l :
  pairs (map g l) = map (fun p => (g (fst p), g (snd p))) (pairs l).
Proof. destruct l; [reflexivity|]. apply pairsf_map. Qed.

Lemma last_map_rev {U V} (g : U -> V) l d : last (map g (rev l)) (g d) = g (hd d l).
Proof. destruct l as [|x l]; [reflexivity|]. cbn. rewrite map_app. cbn. apply last_last. Qed.

(* ------------------------------------------------------------------ the walk *)
Definition ind (b : bool) : nat := if b then 1 else 0.

Fixpoint down (n : nat) : list nat := match n with O => [] | S m => S m :: down m end.

Lemma hd_down n : hd 0 (down n) = n.
Proof. destruct n; reflexivity. Qed.

Lemma rev_down n : rev (down n) = seq 1 n.
Proof. induction n as [|n IH]; [reflexivity|]. cbn [down rev]. rewrite IH, seq_S. reflexivity. Qed.

Section Walk.
Variable s : list nat.
Let L := length s.

Definition isc (d p : nat) : bool := chr s p =? d.     (* slot p leads to character d *)
Definition iss (d q : nat) : bool := src s q =? d.     (* slot q belongs to character d *)

(* positions taken so far (most recent first), the walk having started at position 0:
   every slot taken belongs to the character the walk stood on *)
Fixpoint chain (acc : list nat) : Prop :=
  match acc with [] => True | q :: r => src s q = chr s (hd 0 r) /\ chain r end.

Lemma chain_count acc d : chain acc ->
  countf (iss d) acc + ind (chr s (hd 0 acc) =? d) = countf (isc d) acc + ind (chr s 0 =? d).
Proof.
  induction acc as [|q r IH]; intro H; [reflexivity|].
  destruct H as [H1 H2]. specialize (IH H2). rewrite !countf_cons. cbn [hd].
  unfold iss at 1. unfold isc at 1. rewrite H1.
  change (if chr s (hd 0 r) =? d then 1 else 0) with (ind (chr s (hd 0 r) =? d)).
  change (if chr s q =? d then 1 else 0) with (ind (chr s q =? d)). lia.
Qed.

Lemma chain_down n : chain (down n).
Proof.
  induction n as [|n IH]; [exact I|]. cbn [down chain]. split; [|exact IH].
  rewrite hd_down. unfold src. f_equal. lia.
Qed.

(* the original sequence: out-slots of d + [s ends on d] = in-slots of d + [s starts on d] *)
Lemma trail_count d :
  countf (iss d) (seq 1 (L - 1)) + ind (chr s (L - 1) =? d)
  = countf (isc d) (seq 1 (L - 1)) + ind (chr s 0 =? d).
Proof.
  pose proof (chain_count (down (L - 1)) d (chain_down _)) as H. rewrite hd_down in H.
  rewrite <- rev_down, !countf_rev. exact H.
Qed.

Lemma chain_pairs acc : chain acc ->
  pairsf (chr s 0) (map (chr s) (rev acc)) = map (fun q => (src s q, chr s q)) (rev acc).
Proof.
  induction acc as [|q r IH]; intro H; [reflexivity|]. destruct H as [H1 H2].
  cbn [rev]. rewrite !map_app. cbn [map]. rewrite pairsf_snoc, IH by exact H2.
  rewrite H1, last_map_rev. reflexivity.
Qed.

Lemma pairs_orig : pairs s = map (fun q => (src s q, chr s q)) (seq 1 (L - 1)).
Proof.
  pose proof (chain_pairs (down (L - 1)) (chain_down _)) as H. rewrite rev_down in H.
  rewrite <- H. apply pairs_seq_aux.
Qed.

Lemma in_slots c q : In q (slots s c) <-> (1 <= q < L /\ src s q = c).
Proof. unfold slots. rewrite filter_In, in_seq, Nat.eqb_eq. subst L. lia. Qed.

Lemma slots_le_last c q : In q (slots s c) -> q <= last (slots s c) 0.
Proof. apply filter_seq_le_last. Qed.

(* ---- the permuted successor lists *)
Variable ls : list (list nat).
Let lsf (c : nat) : list nat := nth c ls [].

Definition good : Prop :=
  forall c, Permutation (lsf c) (slots s c) /\ last (lsf c) 0 = last (slots s c) 0.

Hypothesis Hgood : good.

Lemma in_lsf c q : In q (lsf c) <-> (1 <= q < L /\ src s q = c).
Proof.
  rewrite <- in_slots. destruct (Hgood c) as [Hp _]. split; apply Permutation_in; auto.
  apply Permutation_sym, Hp.
Qed.

Lemma nodup_lsf c : NoDup (lsf c).
Proof.
  destruct (Hgood c) as [Hp _]. apply (Permutation_NoDup (Permutation_sym Hp)).
  apply NoDup_filter, seq_NoDup.
Qed.

Lemma len_lsf c : length (lsf c) = countf (iss c) (seq 1 (L - 1)).
Proof. destruct (Hgood c) as [Hp _]. rewrite (Permutation_length Hp). reflexivity. Qed.

Definition Inv (pos : nat) (cnt : nat -> nat) (acc : list nat) : Prop :=
  pos = hd 0 acc /\ chain acc /\
  (forall c, cnt c <= length (lsf c)) /\
  (forall c, filter (iss c) (rev acc) = firstn (cnt c) (lsf c)).

Lemma inv_init : Inv 0 (fun _ => 0) [].
Proof. repeat split; auto. intro; cbn; lia. Qed.

Lemma inv_step pos cnt acc q :
  Inv pos cnt acc -> nth_error (lsf (chr s pos)) (cnt (chr s pos)) = Some q ->
  Inv q (upd cnt (chr s pos) (S (cnt (chr s pos)))) (q :: acc).
Proof.
  intros (Hp & Hc & Hb & Hf) Hq. set (c := chr s pos) in *.
  assert (Hsrc : src s q = c) by (apply (in_lsf c q), (nth_error_In _ _ Hq)).
  split; [reflexivity|]. split; [cbn [chain hd]; split; [rewrite <- Hp; exact Hsrc | exact Hc]|].
  split.
  - intro c'. unfold upd. destruct (Nat.eqb_spec c' c) as [-> | _]; [|apply Hb].
    assert (cnt c < length (lsf c)) by (apply nth_error_Some; congruence). lia.
  - intro c'. cbn [rev]. rewrite filter_app, Hf. cbn [filter]. unfold iss at 1. rewrite Hsrc.
    unfold upd. rewrite (Nat.eqb_sym c c'). destruct (Nat.eqb_spec c' c) as [-> | _].
    + symmetry. apply firstn_S_nth_error, Hq.
    + apply app_nil_r.
Qed.

Section Facts.
Variables (pos : nat) (cnt : nat -> nat) (acc : list nat).
Hypothesis HI : Inv pos cnt acc.

Lemma inv_in q : In q acc -> 1 <= q < L.
Proof.
  intro Hq. destruct HI as (_ & _ & _ & Hf).
  assert (H : In q (filter (iss (src s q)) (rev acc))).
  { apply filter_In. split; [apply in_rev in Hq; exact Hq | apply Nat.eqb_refl]. }
  rewrite Hf in H. apply In_firstn in H. apply in_lsf in H. tauto.
Qed.

Lemma inv_incl : incl acc (seq 1 (L - 1)).
Proof. intros q Hq. apply inv_in in Hq. apply in_seq. lia. Qed.

Lemma inv_nodup : NoDup acc.
Proof.
  destruct HI as (_ & _ & _ & Hf).
  apply (Permutation_NoDup (Permutation_sym (Permutation_rev acc))).
  apply (nodup_classes (src s)). intro c. change (fun q => src s q =? c) with (iss c).
  rewrite Hf. apply NoDup_firstn, nodup_lsf.
Qed.

Lemma inv_cnt c : countf (iss c) acc = cnt c.
Proof.
  destruct HI as (_ & _ & Hb & Hf). rewrite <- countf_rev. unfold countf. rewrite Hf.
  apply firstn_length_le, Hb.
Qed.

(* slots of d consumed + [standing on d] = slots into d consumed + [started on d] *)
Lemma balance d : cnt d + ind (chr s pos =? d) = countf (isc d) acc + ind (chr s 0 =? d).
Proof.
  destruct HI as (Hp & Hc & _). rewrite <- inv_cnt, Hp. apply chain_count, Hc.
Qed.

(* slots are consumed in list order and the last one is the original last: while a slot of
   e is left, the original last slot of e is *)
Lemma last_unused e : cnt e < length (lsf e) -> ~ In (last (lsf e) 0) acc.
Proof.
  intros Hlt Hin. destruct HI as (_ & _ & _ & Hf).
  assert (Hne : lsf e <> []) by (destruct (lsf e); [cbn in Hlt; lia | discriminate]).
  assert (Hl : In (last (lsf e) 0) (lsf e)) by (apply last_In, Hne).
  assert (H : In (last (lsf e) 0) (filter (iss e) (rev acc))).
  { apply filter_In. split; [apply in_rev in Hin; exact Hin|].
    apply in_lsf in Hl. unfold iss. apply Nat.eqb_eq. tauto. }
  rewrite Hf in H. revert H. apply last_not_in_firstn; [apply nodup_lsf | exact Hlt].
Qed.

Lemma exists_unused : length acc < L - 1 -> exists q, 1 <= q <= L - 1 /\ ~ In q acc.
Proof.
  intro Hlen.
  destruct (Forall_Exists_dec (fun q => In q acc) (fun q => in_dec Nat.eq_dec q acc)
              (seq 1 (L - 1))) as [Hall | Hex].
  - exfalso. rewrite Forall_forall in Hall.
    pose proof (NoDup_incl_length (seq_NoDup (L - 1) 1) Hall) as H.
    rewrite seq_length in H. lia.
  - apply Exists_exists in Hex as (q & Hq & Hn). apply in_seq in Hq. exists q. split; [lia|auto].
Qed.

(* The walk cannot strand before all L-1 slots are used (last-exit-tree argument). *)
Lemma progress : length acc < L - 1 ->
  exists q, nth_error (lsf (chr s pos)) (cnt (chr s pos)) = Some q.
Proof.
  intro Hlen. set (c := chr s pos).
  destruct (nth_error (lsf c) (cnt c)) as [q|] eqn:E; [eauto|]. exfalso.
  apply nth_error_None in E.
  pose proof HI as (_ & _ & Hb & _).
  assert (Hc : cnt c = length (lsf c)) by (specialize (Hb c); lia).
  pose proof inv_nodup as Hnd. pose proof inv_incl as Hincl.
  (* the character we are stuck on is the final character, all slots into it are used *)
  pose proof (balance c) as Bc. pose proof (trail_count c) as Tc.
  pose proof (len_lsf c) as Lc.
  pose proof (countf_incl (isc c) acc (seq 1 (L - 1)) Hnd Hincl) as Sc.
  fold c in Bc. rewrite Nat.eqb_refl in Bc. cbn [ind] in Bc.
  assert (Hlast : chr s (L - 1) = c).
  { destruct (Nat.eqb_spec (chr s (L - 1)) c); [auto|]. cbn [ind] in Tc.
    destruct (chr s 0 =? c); cbn [ind] in *; lia. }
  assert (Hall : countf (isc c) acc = countf (isc c) (seq 1 (L - 1))).
  { rewrite Hlast, Nat.eqb_refl in Tc. cbn [ind] in Tc. lia. }
  (* the largest unused slot m *)
  destruct (max_witness (fun q => ~ In q acc)
              (fun q => match in_dec Nat.eq_dec q acc with
                        | left i => right (fun n => n i) | right n => left n end)
              (L - 1) (exists_unused Hlen)) as (m & Hm & Hmu & Hmax).
  assert (Hmseq : In m (seq 1 (L - 1))) by (apply in_seq; lia).
  set (e := chr s m).
  destruct (Nat.eq_dec e c) as [Hec | Hec].
  - (* it leads into c: but all slots into c are used *)
    pose proof (countf_incl_strict (isc c) acc (seq 1 (L - 1)) m Hnd Hincl Hmseq Hmu) as H.
    unfold isc at 1 in H. fold e in H. rewrite Hec, Nat.eqb_refl in H. specialize (H eq_refl). lia.
  - assert (Hm' : m <> L - 1) by (intro Hx; apply Hec; unfold e; rewrite Hx; exact Hlast).
    (* e has a slot after m, so by maximality of m all slots of e are used *)
    assert (He : cnt e = length (lsf e)).
    { destruct (Nat.eq_dec (cnt e) (length (lsf e))) as [|Hne]; [auto|]. exfalso.
      assert (Hlt : cnt e < length (lsf e)) by (specialize (Hb e); lia).
      pose proof (last_unused e Hlt) as Hu.
      assert (Hne' : lsf e <> []) by (destruct (lsf e); [cbn in Hlt; lia | discriminate]).
      pose proof (last_In (lsf e) 0 Hne') as Hl. apply in_lsf in Hl.
      assert (Hs : In (m + 1) (slots s e)).
      { apply in_slots. split; [lia|]. unfold src. rewrite Nat.add_sub. reflexivity. }
      apply slots_le_last in Hs. destruct (Hgood e) as [_ Hlast_e]. rewrite <- Hlast_e in Hs.
      assert (last (lsf e) 0 <= m) by (apply Hmax; [lia | exact Hu]). lia. }
    pose proof (balance e) as Be. pose proof (trail_count e) as Te. pose proof (len_lsf e) as Le.
    pose proof (countf_incl_strict (isc e) acc (seq 1 (L - 1)) m Hnd Hincl Hmseq Hmu) as Se.
    unfold isc at 1 in Se. fold e in Se. rewrite Nat.eqb_refl in Se. specialize (Se eq_refl).
    fold c in Be. rewrite Hlast in Te.
    assert (Hce : (c =? e) = false) by (apply Nat.eqb_neq; auto).
    rewrite Hce in Be, Te. cbn [ind] in Be, Te. lia.
Qed.
End Facts.

Lemma walk_steps_ok fuel : forall pos cnt acc,
  Inv pos cnt acc -> length acc + fuel = L - 1 ->
  exists acc' cnt', walk_steps s ls fuel pos cnt acc = Ok (rev acc')
                    /\ Inv (hd 0 acc') cnt' acc' /\ length acc' = L - 1.
Proof.
  induction fuel as [|fuel IH]; intros pos cnt acc HI Hlen.
  - exists acc, cnt. cbn. destruct HI as (Hp & HI'). rewrite <- Hp.
    repeat split; try tauto. lia.
  - destruct (progress pos cnt acc HI) as (q & Hq); [lia|].
    cbn [walk_steps]. unfold lsf in Hq. rewrite Hq.
    apply IH; [apply inv_step; auto | cbn [length]; lia].
Qed.

(* ---- what a completed walk has done *)
Section Final.
Variables (cnt : nat -> nat) (acc : list nat).
Hypothesis HI : Inv (hd 0 acc) cnt acc.
Hypothesis Hlen : length acc = L - 1.

Lemma final_perm : Permutation (rev acc) (seq 1 (L - 1)).
Proof.
  apply Permutation_trans with acc; [apply Permutation_sym, Permutation_rev|].
  apply NoDup_Permutation_bis.
  - apply (inv_nodup _ _ _ HI).
  - rewrite seq_length. lia.
  - apply (inv_incl _ _ _ HI).
Qed.

Lemma final_pairs :
  pairsf (chr s 0) (map (chr s) (rev acc)) = map (fun q => (src s q, chr s q)) (rev acc).
Proof. destruct HI as (_ & Hc & _). apply chain_pairs, Hc. Qed.

Lemma final_last : chr s (hd 0 acc) = chr s (L - 1).
Proof.
  set (d := chr s (hd 0 acc)).
  pose proof (balance _ _ _ HI d) as B. pose proof (trail_count d) as T0.
  pose proof (inv_cnt _ _ _ HI d) as C.
  assert (P : Permutation acc (seq 1 (L - 1))).
  { apply Permutation_trans with (rev acc); [apply Permutation_rev | apply final_perm]. }
  rewrite (countf_perm (isc d) _ _ P) in B. rewrite (countf_perm (iss d) _ _ P) in C.
  fold d in B. rewrite Nat.eqb_refl in B. cbn [ind] in B.
  destruct (Nat.eqb_spec (chr s (L - 1)) d); [auto|]. cbn [ind] in T0. lia.
Qed.
End Final.

End Walk.
