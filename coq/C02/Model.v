(* C02 model: ersatz.shuffle, ersatz.dinucleotide_shuffle, ersatz._dinucleotide_shuffle and
   ersatz._fast_shuffle.  Executable mirror of the code; no proofs here.

   Random draws are inputs of the model:
   - shuffle: one index permutation per requested sample (what RandomState.shuffle left in
     arange(end-start));
   - _fast_shuffle: for every shuffle and every character c the value returned by
     numpy.random.permutation(n_c - 1), n_c = number of successor slots of c.
   Reading a successor slot beyond the n_c filled ones (the code would silently read a stale 0
   of the zero-initialised next_idxs array) is an explicit Err ("stranded").               *)
From TM Require Import Base.Prelude Base.OneHot.
Open Scope nat_scope.

Record tensor := T { tA : nat; tL : nat; tX : batch }.
Definition valid_t (t : tensor) : bool := valid_ohe (tA t) (tL t) (tX t).

Definition dcol : col := [].

(* numpy fancy indexing  l[p]  (p within range) *)
Definition take_perm {U} (d : U) (l : list U) (p : list nat) : list U :=
  map (fun i => nth i l d) p.

(* the slice  x[a:b]  for already normalised 0 <= a, b <= len *)
Definition region {U} (a b : nat) (x : list U) : list U := firstn (b - a) (skipn a x).

(* ------------------------------------------------------------------ shuffle *)

Definition shuffle_one (a b : nat) (p : list nat) (x : dna) : dna :=
  firstn a x ++ take_perm dcol (region a b x) p ++ skipn b x.

(* result indexed [sample][example]; the harness transposes the (B, n, A, L) tensor *)
Definition shuffle_model (X : tensor) (start end_ : Z) (perms : list (list nat))
  : res (list batch) :=
  let L := Z.of_nat (tL X) in
  ensure valid_t X ;;
  let e := (if end_ <? 0 then L + 1 + end_ else end_)%Z in
  ensure negb (e <=? start)%Z ;;
  ensure negb ((L <? e)%Z || (start <? 0)%Z) ;;
  ensure (0 <? length perms) ;;                       (* torch.stack([]) raises *)
  Ok (map (fun p => map (shuffle_one (Z.to_nat start) (Z.to_nat e) p) (tX X)) perms).

(* ------------------------------------------------------ dinucleotide shuffle *)

(* numpy/torch argmax: first index of the maximum *)
Fixpoint argmax (l : list Z) : nat :=
  match l with
  | [] => 0
  | v :: r => if forallb (fun w => (w <=? v)%Z) r then 0 else S (argmax r)
  end.

Definition onehot (A c : nat) : col := map (fun k => if k =? c then 1%Z else 0%Z) (seq 0 A).

(* a decoded sequence s : list nat (character index per position) *)
Definition chr (s : list nat) (p : nat) : nat := nth p s 0.
(* successor slot q (a position 1..L-1) belongs to the character at q-1 *)
Definition src (s : list nat) (q : nat) : nat := chr s (q - 1).

(* numpy.where(idxs[:-1] == c)[0] + 1 *)
Definition slots (s : list nat) (c : nat) : list nat :=
  filter (fun q => src s q =? c) (seq 1 (length s - 1)).
Definition succ_lists (A : nat) (s : list nat) : list (list nat) := map (slots s) (seq 0 A).

(* next_idxs_ = arange(n); next_idxs_[:-1] = permutation(n-1) *)
Definition keep_last (n : nat) (p : list nat) : list nat :=
  match n with O => [] | S m => p ++ [m] end.

(* next_idxs[c, :n] = next_idxs[c, :n][next_idxs_]  (the assignment of a draw of the wrong
   length into next_idxs_[:-1] raises in numpy) *)
Definition permute_list (l p : list nat) : res (list nat) :=
  ensure (length p =? length l - 1) ;;
  Ok (take_perm 0 l (keep_last (length l) p)).

Fixpoint permute_lists (ls : list (list nat)) (sg : list (list nat)) : res (list (list nat)) :=
  match ls, sg with
  | [], [] => Ok []
  | l :: ls', p :: sg' =>
      do l' <- permute_list l p ;; do r <- permute_lists ls' sg' ;; Ok (l' :: r)
  | _, _ => Err
  end.

Definition upd (f : nat -> nat) (c v : nat) : nat -> nat :=
  fun x => if x =? c then v else f x.

(* the walk: [pos] current position, [cnt] the counters row, [acc] positions taken so far
   (most recent first) *)
Fixpoint walk_steps (s : list nat) (ls : list (list nat)) (fuel pos : nat)
  (cnt : nat -> nat) (acc : list nat) : res (list nat) :=
  match fuel with
  | O => Ok (rev acc)
  | S f =>
      let c := chr s pos in
      match nth_error (nth c ls []) (cnt c) with
      | None => Err                                  (* stranded *)
      | Some q => walk_steps s ls f q (upd cnt c (S (cnt c))) (q :: acc)
      end
  end.

(* visit order of one shuffle, given the (already permuted) successor lists: starts at
   position 0 and makes len(idxs) - 1 steps *)
Definition walk_lists (s : list nat) (ls : list (list nat)) : res (list nat) :=
  ensure (0 <? length s) ;;                          (* idxs[0] on an empty array raises *)
  do vis <- walk_steps s ls (length s - 1) 0 (fun _ => 0) [] ;;
  Ok (0 :: vis).

(* one shuffle from the original successor lists: sigma = one draw per character *)
Definition walk (A : nat) (s : list nat) (sigma : list (list nat)) : res (list nat) :=
  do ls <- permute_lists (succ_lists A s) sigma ;; walk_lists s ls.

(* _fast_shuffle: the successor lists are permuted in place, cumulatively over the shuffles;
   returns the character sequence of every shuffle *)
Fixpoint fast_shuffle (s : list nat) (ls : list (list nat)) (sigmas : list (list (list nat)))
  : res (list (list nat)) :=
  match sigmas with
  | [] => Ok []
  | sg :: rest =>
      do ls' <- permute_lists ls sg ;;
      do o <- walk_lists s ls' ;;
      do os <- fast_shuffle s ls' rest ;;
      Ok (map (chr s) o :: os)
  end.

Definition interior {U} (l : list U) : list U := removelast (tl l).

(* _dinucleotide_shuffle on the sliced region r *)
Definition dinuc_region (A : nat) (r : dna) (sigmas : list (list (list nat))) : res (list dna) :=
  let s := map argmax r in
  ensure (3 <=? length r) ;;        (* conserved.max() over an empty interior raises; an empty
                                       region already fails on idxs[0] in the pure-Python walk *)
  do outs <- fast_shuffle s (succ_lists A s) sigmas ;;
  let ys := map (map (onehot A)) outs in
  ensure negb ((1 <? length sigmas) &&
               forallb (fun y => dna_eqb (interior y) (interior (hd [] ys))) ys) ;;
                                    (* "All dinucleotide shuffles yield identical sequences" *)
  Ok ys.

(* Python slice bound normalisation *)
Definition norm (L k : Z) : Z := (if k <? 0 then Z.max 0 (L + k) else Z.min k L)%Z.

Fixpoint dinuc_examples (A a b : nat) (xs : batch) (sig : list (list (list (list nat))))
  : res (list (list dna)) :=
  match xs, sig with
  | [], [] => Ok []
  | x :: xs', sg :: sig' =>
      do ys <- dinuc_region A (region a b x) sg ;;
      do rest <- dinuc_examples A a b xs' sig' ;;
      Ok (map (fun y => firstn a x ++ y ++ skipn b x) ys :: rest)
  | _, _ => Err
  end.

(* dinucleotide_shuffle; sig[example][shuffle][character]; result indexed [example][shuffle] *)
Definition dinuc_model (X : tensor) (start end_ : Z) (sig : list (list (list (list nat))))
  : res (list (list dna)) :=
  let L := Z.of_nat (tL X) in
  ensure valid_t X ;;
  dinuc_examples (tA X) (Z.to_nat (norm L start)) (Z.to_nat (norm L end_)) (tX X) sig.

(* ---- the variant that permutes ALL slots (no "keep the last edge last"): used only for the
   sanity lemma showing that the hypothesis of walk_never_stranded is needed *)
Definition permute_list_all (l p : list nat) : res (list nat) :=
  ensure (length p =? length l) ;; Ok (take_perm 0 l p).
Fixpoint permute_lists_all (ls : list (list nat)) (sg : list (list nat)) : res (list (list nat)) :=
  match ls, sg with
  | [], [] => Ok []
  | l :: ls', p :: sg' =>
      do l' <- permute_list_all l p ;; do r <- permute_lists_all ls' sg' ;; Ok (l' :: r)
  | _, _ => Err
  end.
Definition walk_all (A : nat) (s : list nat) (sigma : list (list nat)) : res (list nat) :=
  do ls <- permute_lists_all (succ_lists A s) sigma ;; walk_lists s ls.
