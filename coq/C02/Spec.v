(* C02 spec: "Shuffles preserve composition (mono- or di-nucleotide), flanks and determinism".

   The property as a decidable relation between a call and the outcome the harness observed,
   written by counting on the returned tensors (no walk, no permutation application here):

   shuffle              every returned sequence has, inside [start, end), the same number of each
                        character as the input; outside it is identical; it is valid one-hot.
   dinucleotide_shuffle every returned sequence has, inside the region, the same number of every
                        ordered pair of adjacent characters and the same first and last
                        character; outside it is identical; it is valid one-hot.
   Both                 "the input is not modified" and "for a fixed seed the result is a
                        deterministic function of (input, region, n, seed)" are observed by the
                        harness (bitwise comparison before/after, two calls with one seed) and
                        enter [check_case] as two booleans.
   A call that raises is outside the property ("every sequence returned", "whenever
   dinucleotide_shuffle returns at all"): [spec_ok] is true on Err.  A "character" is a column of
   the tensor; since every column of input and output is required to be one-hot this is the
   same as counting letters.

   Region of shuffle: as documented and guarded by the code (negative end counts from L+1).
   Region of dinucleotide_shuffle: the Python slice X[i, :, start:end] the code takes (so the
   default end=-1 leaves the last position out; pair counts over any larger window follow from
   the clauses below because the last character of the region and everything outside are kept). *)
From TM Require Import Base.Prelude Base.OneHot Base.PyList C02.Model.
Open Scope nat_scope.

Inductive call :=
| CShuf (X : tensor) (start end_ : Z) (perms : list (list nat))
    (* shuffle(X, start, end, n = length perms, random_state = seed); perms = what
       RandomState(seed).shuffle(arange(end-start)) produced, replayed by the harness *)
| CDinuc (X : tensor) (start end_ : Z) (sig : list (list (list (list nat))))
    (* dinucleotide_shuffle through _fast_shuffle.py_func with numpy.random.permutation replaced
       by an enumerating source; sig[example][shuffle][character] = the value it returned *)
| CDinucObs (X : tensor) (start end_ : Z) (n : nat)
| CShufObs (X : tensor) (start end_ : Z) (n : nat).
    (* shuffle with random_state=None (OS entropy: draws unknown) *)
    (* the compiled dinucleotide_shuffle(X, start, end, n, random_state = seed): draws unknown *)

(* literal abbreviation used by the harness for a tensor row / returned sequence that IS exactly
   one-hot (checked there by an exact round trip): the columns are computed here, so validity and
   all counts are still evaluated on the real columns *)
Definition en (A : nat) (s : list nat) : dna := map (onehot A) s.

(* a list of digits (each < 16) written as the hexadecimal numeral 0x1d1d2...dk: decoding walks
   the bits of the binary positive, four at a time (literals parse and decode in linear time) *)
Fixpoint dg_fuel (fuel : nat) (p : positive) (acc : list nat) : list nat :=
  match fuel with
  | O => acc
  | S f => match p with
           | xH => acc
           | _ => dg_fuel f (Pos.div2 (Pos.div2 (Pos.div2 (Pos.div2 p))))
                          (N.to_nat (Pos.land p 15) :: acc)
           end
  end.
Definition dg (z : Z) : list nat :=
  match z with Zpos p => dg_fuel (Pos.size_nat p) p [] | _ => [] end.
Definition dn (A : nat) (z : Z) : dna := en A (dg z).
(* a whole batch of B one-hot rows of length L >= 1 as one numeral of B*L digits; a result
   [k rows per group]; a family of draws sig[example][shuffle][character], every draw terminated
   by the digit 15 *)
Definition dnb (A L : nat) (z : Z) : batch := map (en A) (chunks L (dg z)).
Definition obn (A L k : nat) (z : Z) : list batch := chunks k (dnb A L z).
(* the same for long rows: the digits are spread over several numerals (one numeral of tens of
   thousands of digits overflows the parser's stack) *)
Definition dnbL (A L : nat) (zs : list Z) : batch := map (en A) (chunks L (concat (map dg zs))).
Definition obnL (A L k : nat) (zs : list Z) : list batch := chunks k (dnbL A L zs).
Fixpoint splitf (l cur : list nat) : list (list nat) :=
  match l with
  | [] => []
  | d :: r => if d =? 15 then rev cur :: splitf r [] else splitf r (d :: cur)
  end.
Definition sgn (A n : nat) (z : Z) : list (list (list (list nat))) :=
  chunks n (chunks A (splitf (dg z) [])).

(* shuffle: [sample][example]; dinucleotide_shuffle: [example][sample] *)
Definition outcome := res (list batch).

(* ---- counting *)
Definition countf {U} (f : U -> bool) (l : list U) : nat := length (filter f l).

Fixpoint pairsf {U} (a : U) (l : list U) : list (U * U) :=
  match l with [] => [] | x :: r => (a, x) :: pairsf x r end.
(* ordered pairs of adjacent elements *)
Definition pairs {U} (l : list U) : list (U * U) :=
  match l with [] => [] | a :: r => pairsf a r end.

Definition pair_eqb (p q : col * col) : bool :=
  col_eqb (fst p) (fst q) && col_eqb (snd p) (snd q).

(* first occurrences only (the counts below are compared once per distinct value) *)
Fixpoint dedup {U} (eqb : U -> U -> bool) (l : list U) (seen : list U) : list U :=
  match l with
  | [] => rev seen
  | x :: r => if existsb (eqb x) seen then dedup eqb r seen else dedup eqb r (x :: seen)
  end.

(* every character occurs equally often in l1 and l2 (characters absent from both: 0 = 0) *)
Definition same_counts (l1 l2 : dna) : bool :=
  forallb (fun c => countf (col_eqb c) l1 =? countf (col_eqb c) l2) (dedup col_eqb (l1 ++ l2) []).

Definition same_pair_counts (l1 l2 : dna) : bool :=
  forallb (fun p => countf (pair_eqb p) (pairs l1) =? countf (pair_eqb p) (pairs l2))
          (dedup pair_eqb (pairs l1 ++ pairs l2) []).

Definition same_ends (l1 l2 : dna) : bool :=
  col_eqb (hd dcol l1) (hd dcol l2) && col_eqb (last l1 dcol) (last l2 dcol).

(* y has x's length and equals x on [0, a) and on [b, L) *)
Definition flanks_same (a b : nat) (x y : dna) : bool :=
  (length y =? length x) && dna_eqb (firstn a y) (firstn a x) && dna_eqb (skipn b y) (skipn b x).

(* ---- regions *)
Definition shuffle_region (X : tensor) (start end_ : Z) : option (nat * nat) :=
  let L := Z.of_nat (tL X) in
  let e := (if end_ <? 0 then L + 1 + end_ else end_)%Z in
  if ((0 <=? start) && (start <? e) && (e <=? L))%Z then Some (Z.to_nat start, Z.to_nat e)
  else None.

Definition dinuc_bounds (X : tensor) (start end_ : Z) : nat * nat :=
  let L := Z.of_nat (tL X) in (Z.to_nat (norm L start), Z.to_nat (norm L end_)).

(* ---- the property *)
Definition shuffle_spec (X : tensor) (start end_ : Z) (o : outcome) : bool :=
  match o with
  | Err => true
  | Ok Ys =>
      if valid_t X then
        match shuffle_region X start end_ with
        | None => true                     (* the text does not speak about ill-formed regions *)
        | Some (a, b) =>
            forallb (fun Y =>
              forallb (fun xy => let x := fst xy in let y := snd xy in
                         flanks_same a b x y
                         && same_counts (region a b y) (region a b x)
                         && dna_valid (tA X) y)
                      (combine (tX X) Y)) Ys
        end
      else true
  end.

Definition dinuc_spec (X : tensor) (start end_ : Z) (o : outcome) : bool :=
  match o with
  | Err => true
  | Ok Ys =>
      if valid_t X then
        let a := fst (dinuc_bounds X start end_) in
        let b := snd (dinuc_bounds X start end_) in
        forallb (fun xys => let x := fst xys in
                   forallb (fun y =>
                      flanks_same a b x y
                      && same_pair_counts (region a b y) (region a b x)
                      && same_ends (region a b y) (region a b x)
                      && dna_valid (tA X) y) (snd xys))
                (combine (tX X) Ys)
      else true
  end.

Definition spec_ok (c : call) (o : outcome) : bool :=
  match c with
  | CShuf X s e _ => shuffle_spec X s e o
  | CDinuc X s e _ => dinuc_spec X s e o
  | CDinucObs X s e _ => dinuc_spec X s e o
  | CShufObs X s e _ => shuffle_spec X s e o
  end.

(* ---- hypotheses on the random draws handed to the model (what numpy guarantees):
   RandomState.shuffle leaves a permutation of arange(k); permutation(k) returns one *)
Definition is_perm (n : nat) (p : list nat) : bool :=
  (length p =? n) && forallb (fun i => existsb (Nat.eqb i) p) (seq 0 n).

Definition perms_ok (X : tensor) (start end_ : Z) (perms : list (list nat)) : bool :=
  match shuffle_region X start end_ with
  | None => true
  | Some (a, b) => forallb (is_perm (b - a)) perms
  end.

(* one draw per character, each a permutation of the first n_c - 1 slots *)
Definition sigma_ok (A : nat) (s : list nat) (sg : list (list nat)) : bool :=
  (length sg =? A) &&
  forallb (fun lp => is_perm (length (fst lp) - 1) (snd lp)) (combine (succ_lists A s) sg).

Definition sig_ok (X : tensor) (start end_ : Z) (sig : list (list (list (list nat)))) : bool :=
  let a := fst (dinuc_bounds X start end_) in
  let b := snd (dinuc_bounds X start end_) in
  forallb (fun xs => forallb (sigma_ok (tA X) (map argmax (region a b (fst xs)))) (snd xs))
          (combine (tX X) sig).

(* ---- model side of a case *)
Definition id_sigma (A : nat) (s : list nat) : list (list nat) :=
  map (fun l => seq 0 (length l - 1)) (succ_lists A s).

Definition id_sig (X : tensor) (start end_ : Z) (n : nat) : list (list (list (list nat))) :=
  let a := fst (dinuc_bounds X start end_) in
  let b := snd (dinuc_bounds X start end_) in
  map (fun x => repeat (id_sigma (tA X) (map argmax (region a b x))) n) (tX X).

Definition id_perms (X : tensor) (start end_ : Z) (n : nat) : list (list nat) :=
  match shuffle_region X start end_ with
  | None => repeat [] n
  | Some (a, b) => repeat (seq 0 (b - a)) n
  end.

(* for the compiled call the draws are unknown: the model is run on one admissible family
   (every permutation the identity); only its accept/reject behaviour is compared *)
Definition model (c : call) : outcome :=
  match c with
  | CShuf X s e perms => shuffle_model X s e perms
  | CDinuc X s e sig => dinuc_model X s e sig
  | CDinucObs X s e n => dinuc_model X s e (id_sig X s e n)
  | CShufObs X s e n => shuffle_model X s e (id_perms X s e n)
  end.

Definition outcome_eqb : outcome -> outcome -> bool := res_eqb (list_eqb batch_eqb).

Definition dinuc_accepts (X : tensor) (start end_ : Z) : bool :=
  valid_t X && (3 <=? snd (dinuc_bounds X start end_) - fst (dinuc_bounds X start end_)).

Definition shuffle_accepts (X : tensor) (start end_ : Z) (n : nat) : bool :=
  valid_t X && (0 <? n) && match shuffle_region X start end_ with Some _ => true | None => false end.

Definition agree (c : call) (o : outcome) : bool :=
  match c with
  | CShufObs X s e n =>
      match o with
      | Ok Ys => shuffle_accepts X s e n && (length Ys =? n)
                 && forallb (fun Y => length Y =? length (tX X)) Ys
      | Err => negb (shuffle_accepts X s e n)
      end
  | CDinucObs X s e n =>
      match o with
      | Ok Ys => dinuc_accepts X s e && (length Ys =? length (tX X))
                 && forallb (fun ys => length ys =? n) Ys
      | Err => negb (dinuc_accepts X s e) || (1 <? n)   (* n > 1: may be "all identical" *)
      end
  | _ => outcome_eqb o (model c)
  end.

(* one correspondence case: the call, the implementation's outcome, "the caller's tensor was
   bit-identical afterwards", "a second call with the same seed returned the same tensor"  *)
Definition case := (call * outcome * bool * bool)%type.

Definition check_case (c : case) : nat :=
  let '(cl, o, unchanged, same_again) := c in
  verdict (agree cl o) (unchanged && same_again && spec_ok cl o).
